(** C10 -- split_column in the repaired source keeps the whole invariant. *)
From Coq Require Import Ascii String List Bool PArith NArith ZArith QArith FMapPositive Permutation Lia.
From PTBase Require Import Exn PyStr.
From P Require Import Assoc GeoState GeoEdit Inv InvNames InvSimple Sets InvCol InvConn InvDel InvRefresh InvRename InvSplit.
Import ListNotations.
Open Scope list_scope.

(** a fresh name is not a key of the dictionary *)
Lemma new_key_from_fresh {V} (d : list (str * V)) jf fuel : forall i nm j, new_key_from d jf fuel i = Ok (nm, j) -> aget str_eqb d nm = None.
Proof.
  induction fuel as [|f IH]; intros i nm j H; cbn [new_key_from] in H; [discriminate|].
  destruct (aget str_eqb d (jf (Names.name lowercase (i + 1)%N))) eqn:E; [exact (IH _ _ _ H)|].
  inversion H; subst. exact E.
Qed.
Lemma new_name_fresh {V} g (d : list (str * V)) i ni : new_name g d i = Ok ni -> aget str_eqb d (fst ni) = None.
Proof.
  unfold new_name. destruct (new_key_from d (just g) (S (length d)) i) as [[nm j]|] eqn:E; cbn [bind]; [|discriminate].
  destruct (_ <? _)%nat; [discriminate|]. intro H; inversion H; subst. eapply new_key_from_fresh; eauto.
Qed.

(** the precondition: (repaired source) no neighbour that holds the corner leaving the column also
    holds the opposite corner *)
Definition split_pre (g : geo) (colname nodename : str) : Prop :=
  fx_split (fx g) = true /\
  forall c i0, cget g colname = Some c -> length (cns g c) = 4%nat -> index_of nodename (map (nn g) (cns g c)) 0 = Some i0 ->
    forall d, In d (cnb g c) -> In (corner (cns g c) i0 3) (cns g d) -> ~ In (corner (cns g c) i0 1) (cns g d).

Lemma find_none_pair (f : id * id -> bool) l x : find f l = None -> In x l -> f x = false.
Proof. intros H Hx. exact (find_none f l H x Hx). Qed.

Theorem split_column_inv g colname nodename g' : Inv g -> split_pre g colname nodename ->
  split_column g colname nodename = Ok g' -> Inv g'.
Proof.
  intros I [Fs Pre] H. unfold split_column in H.
  destruct (cget g colname) as [c|] eqn:Ec; [|inversion H; subst; exact I].
  destruct (cns g c) as [|m0 [|m1 [|m2 [|m3 [|m4 rest]]]]] eqn:Ecns; try (inversion H; subst; exact I).
  destruct (index_of nodename (map (nn g) [m0; m1; m2; m3]) 0) as [i0|] eqn:Ei; [|inversion H; subst; exact I].
  pose proof (Pre c i0 eq_refl) as Pre'. rewrite Ecns in Pre'. specialize (Pre' eq_refl Ei). clear Pre. rename Pre' into Pre.
  assert (Hi0 : (i0 < 4)%nat) by (apply index_of_lt in Ei; cbn in Ei; lia).
  destruct I as [[F P1 P1k P2 P3 P4 P5] [D1 D2 D3]].
  destruct (s1_cget g colname c P1 Ec) as [Hc Hcn].
  pose proof (P5 c Hc) as [NDc _]. rewrite Ecns in NDc.
  destruct (quad_facts m0 m1 m2 m3 i0 NDc Hi0) as [NDq [Mq [NDr [Lr [Mr Pr]]]]].
  set (n0 := corner [m0; m1; m2; m3] i0 0) in *. set (n1 := corner [m0; m1; m2; m3] i0 1) in *.
  set (n2 := corner [m0; m1; m2; m3] i0 2) in *. set (n3 := corner [m0; m1; m2; m3] i0 3) in *.
  change (nth ((i0 + 0) mod 4) [m0; m1; m2; m3] 1%positive) with n0 in H.
  change (nth ((i0 + 2) mod 4) [m0; m1; m2; m3] 1%positive) with n2 in H.
  change (nth ((i0 + 3) mod 4) [m0; m1; m2; m3] 1%positive) with n3 in H.
  (* 1. the new name *)
  destruct (new_name g (cdict g) 0) as [ni|] eqn:En; cbn [bind] in H; [|discriminate].
  pose proof (new_name_fresh g (cdict g) 0%N ni En) as Fresh.
  (* 2. the new column object *)
  set (c2 := next g) in *.
  destruct (new_col_facts g (fst ni) [n2; n3; n0] None (cs g c)) as [E2ns [E2n [E2nb [E2ks E2cl]]]].
  fold c2 in E2ns, E2n, E2nb, E2ks, E2cl.
  set (L2 := if qltb (qpoly_area (poly g [n2; n3; n0])) 0 then rev [n2; n3; n0] else [n2; n3; n0]) in *.
  assert (ML2 : forall x, In x L2 <-> x = n2 \/ x = n3 \/ x = n0).
  { intro x. unfold L2. destruct (qltb _ _); cbn; intuition. }
  assert (NDL2 : NoDup L2).
  { assert (X : NoDup [n2; n3; n0]).
    { inversion NDq as [|? ? A1 Q1]; subst. inversion Q1 as [|? ? A2 Q2]; subst. inversion Q2 as [|? ? A3 Q3]; subst.
      cbn in A1, A2, A3. repeat constructor; cbn; intuition. }
    unfold L2. destruct (qltb _ _); [apply NoDup_rev|]; exact X. }
  assert (LL2 : length L2 = 3%nat) by (unfold L2; destruct (qltb _ _); reflexivity).
  assert (Hc2 : ~ In c2 (clist g)) by (intro X; apply (fr_c g F) in X; unfold c2 in X; lia).
  assert (Ncc2 : c <> c2) by (intros ->; contradiction).
  pose proof (agree_new_col g (fst ni) [n2; n3; n0] None (cs g c) F) as Ag.
  revert H. set (g1 := new_col g (fst ni) [n2; n3; n0] None (cs g c)) in *. intro H.
  (* 3./4. the connections that move to the new column *)
  assert (Ecnb1 : cnb g1 c = cnb g c) by (apply (agree_cnb g g1 Ag c Hc)).
  assert (Ecks1 : cks g1 c = cks g c) by (apply (agree_cks g g1 Ag c Hc)).
  assert (Ecns1 : cns g1 c = [m0; m1; m2; m3]) by (rewrite (agree_cns g g1 Ag c Hc); exact Ecns).
  rewrite Ecnb1, Ecks1 in H.
  set (n3cols := filter (fun d => mem n3 (cns g1 d)) (cnb g c)) in *.
  destruct (swap_conns g1 (cks g c) n3cols c2 [] []) as [[g2 sc] sn] eqn:Esw.
  destruct (swap_conns_spec _ _ _ _ _ _ _ _ _ (s3_nd g P3 c Hc) Esw) as [Esc [Esn [K0 [K1 [Eg2 [HK0 HK1]]]]]].
  cbn [app] in Esc, Esn.
  (* 5. / 6. *)
  destruct (move_conns g2 sc c c2) as [g3|] eqn:Emc; cbn [bind] in H; [|discriminate].
  destruct (move_nbrs g3 sn c c2) as [g4|] eqn:Emn; cbn [bind] in H; [|discriminate].
  (* the swapped connections: their other end is a neighbour that holds n3 *)
  assert (Eg1k0 : forall k, In k (klist g) -> k0 g1 k = k0 g k) by (intros k Hk; apply (agree_k0 g g1 Ag k Hk)).
  assert (Eg1k1 : forall k, In k (klist g) -> k1 g1 k = k1 g k) by (intros k Hk; apply (agree_k1 g g1 Ag k Hk)).
  assert (Hcks : forall k, In k (cks g c) -> In k (klist g) /\ (k0 g k = c \/ k1 g k = c)) by (intros k Hk; apply (s3_ex g P3 c Hc k); exact Hk).
  assert (Hn3 : forall d, In d n3cols -> In d (cnb g c) /\ In n3 (cns g d) /\ In d (clist g) /\ d <> c /\ d <> c2).
  { intros d Hd. unfold n3cols in Hd. apply filter_In in Hd. destruct Hd as [Hd Hm]. apply mem_In in Hm.
    assert (J : joined g c d) by (apply (s3b_ex g D1 c Hc d); exact Hd).
    destruct J as [k [Hk J]]. destruct (s3_ends g P3 k Hk) as [A0 A1]. pose proof (s3_neq g P3 k Hk) as Nq.
    assert (Hdl : In d (clist g)) by (destruct J as [[J0 J1]|[J0 J1]]; congruence).
    rewrite (agree_cns g g1 Ag d Hdl) in Hm.
    repeat split; try assumption; [destruct J as [[J0 J1]|[J0 J1]]; congruence|intros ->; contradiction]. }
  assert (NDsc : NoDup sc) by (rewrite Esc; apply NoDup_filter, (s3_nd g P3 c Hc)).
  destruct (move_conns_spec _ _ _ _ _ Ncc2 NDsc Emc) as [MC [Eg3 [Csc [Cc [Cc2n [Cc2 Cother]]]]]].
  assert (Ecks2c : cks g2 c = cks g c) by (rewrite Eg2; exact Ecks1).
  assert (Ecks2c2 : cks g2 c2 = []) by (rewrite Eg2; exact E2ks).
  rewrite Ecks2c in Csc, Cc. rewrite Ecks2c2 in Cc2n, Cc2.
  destruct (Cc (s3_nd g P3 c Hc)) as [NDMc MMc]. clear Cc. specialize (Cc2n (NoDup_nil _)).
  (* the neighbours *)
  assert (Ecnb3 : forall x, cnb g3 x = cnb g1 x) by (intro x; rewrite Eg3, Eg2; reflexivity).
  assert (Hsn : forall d, In d sn -> In d n3cols).
  { intros d Hd. rewrite Esn in Hd. apply in_map_iff in Hd. destruct Hd as [k [<- Hk]]. apply filter_In in Hk. destruct Hk as [Hk Sw].
    unfold swapped in Sw. unfold other_end. destruct (mem (k0 g1 k) n3cols) eqn:M0; [apply mem_In; exact M0|]. cbn [orb] in Sw. apply mem_In; exact Sw. }
  assert (Hcsn : ~ In c sn) by (intro X; destruct (Hn3 c (Hsn c X)) as [_ [_ [_ [X' _]]]]; apply X'; reflexivity).
  assert (Hc2sn : ~ In c2 sn) by (intro X; destruct (Hn3 c2 (Hsn c2 X)) as [_ [_ [_ [_ X']]]]; apply X'; reflexivity).
  assert (NDnbc : NoDup (cnb g3 c)) by (rewrite Ecnb3, Ecnb1; apply (s3b_nd g D1 c Hc)).
  destruct (move_nbrs_nodup _ _ _ _ _ Ncc2 Hcsn Hc2sn NDnbc Emn) as [NDsn _].
  destruct (move_nbrs_spec _ _ _ _ _ Ncc2 NDsn Hcsn Hc2sn Emn) as [[MN Eg4] [Nsn [Nc [Nc2n [Nc2 [Nd Nother]]]]]].
  destruct (Nc NDnbc) as [NDNc MNc]. clear Nc. rewrite Ecnb3, Ecnb1 in MNc.
  assert (E2nb3 : cnb g3 c2 = []) by (rewrite Ecnb3; exact E2nb). rewrite E2nb3 in Nc2n, Nc2. specialize (Nc2n (NoDup_nil _)).
  (* 7. - 13.: the remaining statements; every intermediate state is kept as a variable with its defining
     equation (projections are then computed step by step: the states nest too deeply to be unfolded at once) *)
  assert (Efx4 : fx g4 = fx g) by (rewrite Eg4, Eg3, Eg2; reflexivity).
  assert (Ecns4 : cns g4 c = [m0; m1; m2; m3]) by (rewrite Eg4, Eg3, Eg2; exact Ecns1).
  revert H. rewrite Ecns4. set (Lc := remove_nth ((i0 + 3) mod 4) [m0; m1; m2; m3]) in *.
  remember (set_cnode g4 (fset (cnode g4) c Lc)) as g5 eqn:Eg5.
  replace (fx g5) with (fx g) by (rewrite Eg5; symmetry; exact Efx4). rewrite Fs. intro H.
  destruct (ncol_remove g5 n3 c) as [g6|] eqn:E6; cbn [bind] in H; [|discriminate].
  unfold ncol_remove in E6. destruct (sremove (ncs g5 n3) c) as [s6|] eqn:Es6; cbn [bind] in E6; [|discriminate].
  apply sremove_ok in Es6. destruct Es6 as [Hin6 ->]. inversion E6 as [Eg6]; clear E6. symmetry in Eg6.
  assert (Encs5 : ncs g5 n3 = ncs g1 n3) by (rewrite Eg5, Eg4, Eg3, Eg2; reflexivity). rewrite Encs5 in Eg6, Hin6.
  assert (Encol5 : ncol g5 = ncol g1) by (rewrite Eg5, Eg4, Eg3, Eg2; reflexivity). rewrite Encol5 in Eg6.
  revert H. generalize (qcentroid (poly g6 (cns g6 c))) as CEN. intros CEN H.
  remember (set_ccen g6 (fset (ccen g6) c CEN)) as g7 eqn:Eg7.
  assert (Ecn7 : cn g7 c2 = fst ni) by (rewrite Eg7, Eg6, Eg5, Eg4, Eg3, Eg2; exact E2n).
  assert (Ecg7 : cget g7 (fst ni) = None) by (rewrite Eg7, Eg6, Eg5, Eg4, Eg3, Eg2; exact Fresh).
  assert (Ecns7 : cns g7 c2 = L2).
  { rewrite Eg7, Eg6, Eg5. unfold cns. gsg. rewrite fget_fset_neq by (intro X'; apply Ncc2; symmetry; exact X').
    rewrite Eg4, Eg3, Eg2. exact E2ns. }
  assert (Ecl7 : clist g7 = clist g) by (rewrite Eg7, Eg6, Eg5, Eg4, Eg3, Eg2; reflexivity).
  assert (Ecd7 : cdict g7 = cdict g) by (rewrite Eg7, Eg6, Eg5, Eg4, Eg3, Eg2; reflexivity).
  assert (Encol7 : ncol g7 = fset (ncol g1) n3 (lremove (ncs g1 n3) c)) by (rewrite Eg7, Eg6; reflexivity).
  remember (add_column_obj g7 c2) as g8 eqn:Eg8.
  assert (Eg8' : g8 = set_ncol (set_cdict (set_clist g7 (clist g ++ [c2])) (aset str_eqb (cdict g) (fst ni) c2)) (addall (fset (ncol g1) n3 (lremove (ncs g1 n3) c)) L2 c2)).
  { rewrite Eg8. unfold add_column_obj. rewrite Ecn7, Ecg7, fold_ncol_add, Ecns7, Ecl7, Ecd7. gsg. rewrite Encol7. reflexivity. }
  clear Eg8. rename Eg8' into Eg8.
  destruct (set_column_num_layers g8 c2) as [g9|] eqn:E9; cbn [bind] in H; [|discriminate].
  destruct (set_column_num_layers_closed g8 c2 g9 E9) as [nl [Enl Eg9]].
  assert (Ecnl8 : cnl g8 = cnl g1) by (rewrite Eg8, Eg7, Eg6, Eg5, Eg4, Eg3, Eg2; reflexivity). rewrite Ecnl8 in Eg9.
  (* the connection between the two halves *)
  set (knew := next g9) in *.
  assert (A_knew : knew = Pos.succ (next g)) by (unfold knew; rewrite Eg9, Eg8, Eg7, Eg6, Eg5, Eg4, Eg3, Eg2; reflexivity).
  remember (new_conn g9 c c2) as gk eqn:Egk. unfold new_conn in Egk. fold knew in Egk.
  assert (Ekn9 : knode g9 = knode g1) by (rewrite Eg9, Eg8, Eg7, Eg6, Eg5, Eg4, Eg3, Eg2; reflexivity).
  assert (Ek09 : kc0 g9 = K0) by (rewrite Eg9, Eg8, Eg7, Eg6, Eg5, Eg4, Eg3, Eg2; reflexivity).
  assert (Ek19 : kc1 g9 = K1) by (rewrite Eg9, Eg8, Eg7, Eg6, Eg5, Eg4, Eg3, Eg2; reflexivity).
  rewrite Ekn9, Ek09, Ek19 in Egk.
  assert (Ek0k : k0 gk knew = c) by (rewrite Egk; unfold k0; gsg; apply fget_fset_eq).
  assert (Ek1k : k1 gk knew = c2) by (rewrite Egk; unfold k1; gsg; apply fget_fset_eq).
  assert (Efxk : fx gk = fx g) by (rewrite Egk; gsg; rewrite Eg9, Eg8, Eg7, Eg6, Eg5, Eg4, Eg3, Eg2; reflexivity).
  assert (Ecnk : forall x, cn gk x = cn g1 x) by (intro x; rewrite Egk; unfold cn; gsg; rewrite Eg9, Eg8, Eg7, Eg6, Eg5, Eg4, Eg3, Eg2; reflexivity).
  assert (Ekk : kkey gk knew = (colname, fst ni)).
  { unfold kkey. rewrite Ek0k, Ek1k, !Ecnk, E2n, (agree_cn g g1 Ag c Hc), Hcn. reflexivity. }
  assert (Ekdk : kdict gk = kdict g) by (rewrite Egk; gsg; rewrite Eg9, Eg8, Eg7, Eg6, Eg5, Eg4, Eg3, Eg2; reflexivity).
  assert (Ekd : kget gk (colname, fst ni) = None).
  { unfold kget. rewrite Ekdk.
    destruct (aget key2_eqb (kdict g) (colname, fst ni)) as [k|] eqn:Ek; [|reflexivity]. exfalso.
    destruct (s1k_kget g _ k P1k Ek) as [Hk Kk]. destruct (s3_ends g P3 k Hk) as [_ A1].
    unfold kkey in Kk. inversion Kk as [[Ka Kb]].
    pose proof (DL_aget_name str_eqb str_spec (cn g) (clist g) (cdict g) (k1 g k) (s1_c g P1) A1) as X.
    rewrite Kb in X. unfold cget in Fresh. congruence. }
  assert (Eklk : klist gk = klist g) by (rewrite Egk; gsg; rewrite Eg9, Eg8, Eg7, Eg6, Eg5, Eg4, Eg3, Eg2; reflexivity).
  assert (Ecbk : cnbr gk = MN) by (rewrite Egk; gsg; rewrite Eg9, Eg8, Eg7, Eg6, Eg5, Eg4; reflexivity).
  (* the neighbour sets at the end: in either source variant the two halves have been added to each other once or twice *)
  assert (Pack : exists NBF, (forall x, fget [] NBF x = fget [] (nbr2 MN c c2) x) /\
                   setup_names (rekey_connections (set_cnbr (add_connection_core gk knew) NBF)) = Ok g').
  { revert H. rewrite add_connection_obj_eq by (rewrite Ekk; exact Ekd). rewrite Ek0k, Ek1k, Efxk.
    destruct (fx_nbr (fx g)).
    - match goal with |- context [fx_split (fx ?G)] => replace (fx G) with (fx g) by (symmetry; exact Efxk) end. rewrite Fs. intro H.
      exists (nbr2 (nbr2 MN c c2) c c2). split; [intro x; apply nbr2_idem; exact Ncc2|].
      rewrite <- Ecbk. exact H.
    - match goal with |- context [fx_split (fx ?G)] => replace (fx G) with (fx g) by (symmetry; exact Efxk) end. rewrite Fs. intro H.
      exists (nbr2 MN c c2). split; [reflexivity|]. rewrite <- Ecbk. exact H. }
  clear H. destruct Pack as [NBF [ENBF H]]. revert H. unfold add_connection_core. rewrite Ekk, Ek0k, Ek1k. cbv zeta.
  assert (Ecck : ccon gk = MC) by (rewrite Egk; gsg; rewrite Eg9, Eg8, Eg7, Eg6, Eg5, Eg4, Eg3; reflexivity).
  assert (Eknk : knode gk = fset (knode g1) knew None) by (rewrite Egk; reflexivity).
  assert (Ek0kk : kc0 gk = fset K0 knew c) by (rewrite Egk; reflexivity).
  assert (Ek1kk : kc1 gk = fset K1 knew c2) by (rewrite Egk; reflexivity).
  assert (Ecnodek : cnode gk = fset (cnode g1) c Lc) by (rewrite Egk; gsg; rewrite Eg9, Eg8, Eg7, Eg6, Eg5; gsg; rewrite Eg4, Eg3, Eg2; reflexivity).
  unfold rekey_connections, nbr_add, ccon_add, cks, cnb, kkey, k0, k1, cn. gsg. rewrite Eklk, Ekdk, Ecck, Eknk, Ek0kk, Ek1kk.
  match goal with |- context [connection_nodes ?G c c2] => set (CN := connection_nodes G c c2) in * end.
  match goal with |- setup_names ?G = _ -> _ => remember G as gF eqn:EgF end. intro H.
  (* the fields of the state just before the last three updates, then of the final state *)
  set (NC := addall (fset (ncol g1) n3 (lremove (ncs g1 n3) c)) L2 c2) in *.
  assert (Gk : nlist gk = nlist g /\ ndict gk = ndict g /\ nname gk = nname g1 /\ ncol gk = NC /\ cname gk = cname g1 /\
               clist gk = clist g ++ [c2] /\ cdict gk = aset str_eqb (cdict g) (fst ni) c2 /\ cnl gk = fset (cnl g1) c2 nl /\ csurf gk = csurf g1 /\
               llist gk = llist g /\ ldict gk = ldict g /\ lname gk = lname g /\ lbot gk = lbot g /\ wlist gk = wlist g /\ wdict gk = wdict g /\ wname gk = wname g /\
               next gk = Pos.succ knew).
  { rewrite Egk. gsg. rewrite Eg9. gsg. rewrite Eg8. gsg. rewrite Eg7. gsg. rewrite Eg6. gsg. rewrite Eg5. gsg. rewrite Eg4, Eg3, Eg2. gsg.
    unfold g1, new_col. gsg. repeat split; reflexivity. }
  destruct Gk as [Gnl [Gnd [Gnn [Gnc [Gcn [Gcl [Gcd [Gcnl [Gcs [Gll [Gld [Gln [Glb [Gwl [Gwd [Gwn Gnx]]]]]]]]]]]]]]]].
  assert (A_next : next gF = Pos.succ (Pos.succ (next g))) by (rewrite EgF; gsg; rewrite Gnx, A_knew; reflexivity).
  assert (A_nlist : nlist gF = nlist g) by (rewrite EgF; gsg; exact Gnl).
  assert (A_ndict : ndict gF = ndict g) by (rewrite EgF; gsg; exact Gnd).
  assert (A_nn : forall n, nn gF n = nn g1 n) by (intro n; unfold nn; rewrite EgF; gsg; rewrite Gnn; reflexivity).
  assert (A_clist : clist gF = clist g ++ [c2]) by (rewrite EgF; gsg; exact Gcl).
  assert (A_cdict : cdict gF = aset str_eqb (cdict g) (fst ni) c2) by (rewrite EgF; gsg; exact Gcd).
  assert (A_cn : forall x, cn gF x = cn g1 x) by (intro x; unfold cn; rewrite EgF; gsg; rewrite Gcn; reflexivity).
  assert (A_cns : forall x, cns gF x = if Pos.eqb x c then Lc else cns g1 x).
  { intro x. unfold cns. rewrite EgF. gsg. rewrite Ecnodek. apply fget_fset. }
  assert (A_ncs : forall n, ncs gF n = fget [] NC n) by (intro n; unfold ncs; rewrite EgF; gsg; rewrite Gnc; reflexivity).
  assert (A_klist : klist gF = klist g ++ [knew]) by (rewrite EgF; reflexivity).
  assert (A_k0 : forall k, k0 gF k = if Pos.eqb k knew then c else fget 1%positive K0 k).
  { intro k. unfold k0. rewrite EgF. gsg. rewrite Ek0kk. apply fget_fset. }
  assert (A_k1 : forall k, k1 gF k = if Pos.eqb k knew then c2 else fget 1%positive K1 k).
  { intro k. unfold k1. rewrite EgF. gsg. rewrite Ek1kk. apply fget_fset. }
  assert (A_kn : forall k, kn gF k = if Pos.eqb k knew then CN else kn g1 k).
  { intro k. unfold kn. rewrite EgF. gsg. rewrite fget_fset. destruct (Pos.eqb k knew) eqn:X; [reflexivity|]. rewrite fget_fset, X. reflexivity. }
  assert (A_cks : forall x, cks gF x = fget [] (fset (fset MC c (sadd (fget [] MC c) knew)) c2 (sadd (fget [] (fset MC c (sadd (fget [] MC c) knew)) c2) knew)) x).
  { intro x. unfold cks. rewrite EgF. reflexivity. }
  assert (A_cnb : forall x, cnb gF x = fget [] (fset (fset MN c (sadd (fget [] MN c) c2)) c2 (sadd (fget [] (fset MN c (sadd (fget [] MN c) c2)) c2) c)) x).
  { intro x. unfold cnb. rewrite EgF. gsg. exact (ENBF x). }
  assert (A_kdict : kdict gF = fold_left (fun acc k => aset key2_eqb acc (kkey gF k) k) (klist gF) []).
  { rewrite A_klist. unfold kkey, k0, k1, cn. rewrite EgF. gsg. rewrite Ek0kk, Ek1kk. reflexivity. }
  assert (A_lay : llist gF = llist g /\ ldict gF = ldict g /\ lname gF = lname g /\ lbot gF = lbot g /\ wlist gF = wlist g /\ wdict gF = wdict g /\ wname gF = wname g).
  { rewrite EgF. gsg. auto 10. }
  assert (A_cs : forall x, cs gF x = cs g1 x) by (intro x; unfold cs; rewrite EgF; gsg; rewrite Gcs; reflexivity).
  assert (A_cl : forall x, cl gF x = if Pos.eqb x c2 then nl else cl g1 x).
  { intro x. unfold cl. rewrite EgF. gsg. rewrite Gcnl. apply fget_fset. }
  assert (CNeq : CN = connection_nodes gF c c2).
  { unfold CN, connection_nodes, cns. rewrite EgF. gsg. reflexivity. }
  assert (Ecnb4 : forall x, cnb g4 x = fget [] MN x) by (intro x; rewrite Eg4; reflexivity).
  assert (Ecks2 : forall x, cks g2 x = cks g1 x) by (intro x; rewrite Eg2; reflexivity).
  assert (Enl' : count_layers g (cs g1 c2) = Ok nl).
  { rewrite <- Enl. rewrite Eg8, Eg7, Eg6, Eg5, Eg4, Eg3, Eg2. reflexivity. }
  clearbody CN. clear EgF Egk Eg9 Eg8 Eg7 Eg6 Eg5 Eg4 Eg3 Eg2 Esw E9 Enl.
  (* ---- the connections after the split ---- *)
  assert (Hknew : ~ In knew (klist g)) by (intro X; apply (fr_k g F) in X; rewrite A_knew in X; lia).
  assert (Hc_n3 : ~ In c n3cols) by (intro X; destruct (Hn3 c X) as [_ [_ [_ [X' _]]]]; apply X'; reflexivity).
  set (rc := fun x : id => if Pos.eqb x c then c2 else x).
  assert (Hsc : forall k, In k sc <-> In k (cks g c) /\ swapped g1 n3cols k = true) by (intro k; rewrite Esc; apply filter_In).
  assert (Ends : forall k, In k (klist g) ->
            (In k sc -> k0 gF k = rc (k0 g k) /\ k1 gF k = rc (k1 g k) /\
                        ((k0 g k = c /\ In (k1 g k) n3cols) \/ (k1 g k = c /\ In (k0 g k) n3cols))) /\
            (~ In k sc -> k0 gF k = k0 g k /\ k1 gF k = k1 g k /\
                          (k0 g k = c -> ~ In (k1 g k) n3cols) /\ (k1 g k = c -> ~ In (k0 g k) n3cols))).
  { intros k Hk. rewrite A_k0, A_k1, HK0, HK1.
    assert (Nk : Pos.eqb k knew = false) by (apply Pos.eqb_neq; intros ->; contradiction). rewrite Nk.
    rewrite (Eg1k0 k Hk), (Eg1k1 k Hk). unfold new_k0, new_k1. rewrite (Eg1k0 k Hk), (Eg1k1 k Hk).
    pose proof (s3_neq g P3 k Hk) as Nq. unfold rc.
    destruct (mem k (cks g c)) eqn:Mk.
    - apply mem_In in Mk. destruct (Hcks k Mk) as [_ [E0|E1]].
      + rewrite E0 in *. rewrite (notIn_mem_false _ _ Hc_n3), Pos.eqb_refl.
        assert (N1 : Pos.eqb (k1 g k) c = false) by (apply Pos.eqb_neq; intro X; apply Nq; symmetry; exact X). rewrite N1.
        destruct (mem (k1 g k) n3cols) eqn:M1; split.
        * intros _. split; [reflexivity|]. split; [reflexivity|]. left. split; [reflexivity|apply mem_In; exact M1].
        * intro X. exfalso. apply X. apply Hsc. split; [exact Mk|]. unfold swapped. rewrite (Eg1k0 k Hk), (Eg1k1 k Hk), E0, M1. apply orb_true_r.
        * intro X. apply Hsc in X. destruct X as [_ X]. unfold swapped in X. rewrite (Eg1k0 k Hk), (Eg1k1 k Hk), E0, M1, (notIn_mem_false _ _ Hc_n3) in X. discriminate X.
        * intros _. split; [reflexivity|]. split; [reflexivity|]. split; [intros _; apply mem_false; exact M1|intro X; exfalso; apply Nq; symmetry; exact X].
      + rewrite E1 in *. rewrite (notIn_mem_false _ _ Hc_n3), Pos.eqb_refl.
        assert (N0 : Pos.eqb (k0 g k) c = false) by (apply Pos.eqb_neq; exact Nq). rewrite N0.
        destruct (mem (k0 g k) n3cols) eqn:M0; split.
        * intros _. split; [reflexivity|]. split; [reflexivity|]. right. split; [reflexivity|apply mem_In; exact M0].
        * intro X. exfalso. apply X. apply Hsc. split; [exact Mk|]. unfold swapped. rewrite (Eg1k0 k Hk), M0. reflexivity.
        * intro X. apply Hsc in X. destruct X as [_ X]. unfold swapped in X. rewrite (Eg1k0 k Hk), (Eg1k1 k Hk), E1, M0, (notIn_mem_false _ _ Hc_n3) in X. discriminate X.
        * intros _. split; [reflexivity|]. split; [reflexivity|]. split; [intro X; exfalso; apply Nq; exact X|intros _; apply mem_false; exact M0].
    - apply mem_false in Mk. split.
      + intro X. exfalso. apply Mk. apply Hsc in X. apply X.
      + intros _. split; [reflexivity|]. split; [reflexivity|].
        split; intros X Y; apply Mk; apply (s3_ex g P3 c Hc k); auto. }
  assert (Hn3c : forall d, In d n3cols -> In d (clist g) /\ d <> c /\ d <> c2) by (intros d Hd; destruct (Hn3 d Hd) as [_ [_ [A [B C]]]]; auto).
  assert (Rc : forall x, In x (clist g) -> In (rc x) (clist g ++ [c2])).
  { intros x Hx. unfold rc. destruct (Pos.eqb x c); apply in_snoc; auto. }
  (* the two connection sets *)
  assert (CksF : forall x k, In k (cks gF x) <->
            (x = c /\ ((In k (cks g c) /\ ~ In k sc) \/ k = knew)) \/ (x = c2 /\ (In k sc \/ k = knew)) \/
            (x <> c /\ x <> c2 /\ In k (cks g1 x))).
  { intros x k. rewrite A_cks, fget_fset. destruct (Pos.eqb_spec x c2) as [->|N2].
    - rewrite In_sadd, fget_fset_neq by (intro X; apply Ncc2; symmetry; exact X). rewrite Cc2. cbn [In].
      split; [intros [[[]|X]|X]; right; left; auto|]. intros [[X _]|[[_ X]|[_ [X _]]]]; [exfalso; apply Ncc2; symmetry; exact X|tauto|exfalso; apply X; reflexivity].
    - rewrite fget_fset. destruct (Pos.eqb_spec x c) as [->|N1].
      + rewrite In_sadd, MMc. split; [intros [X|X]; left; auto|]. intros [[_ X]|[[X _]|[X _]]]; [tauto|contradiction|exfalso; apply X; reflexivity].
      + rewrite (Cother x N1 N2), Ecks2. split; [intro X; right; right; auto|]. intros [[X _]|[[X _]|[_ [_ X]]]]; [contradiction|contradiction|exact X]. }
  eapply setup_names_inv; [| | |exact H].
  - (* ---------------- InvS ---------------- *)
    constructor.
    + (* Fr *)
      destruct F as [F1 [F2 [F3 [F4 F5]]]]. destruct A_lay as [Ll [_ [_ [_ [Lw _]]]]]. unfold Fr. rewrite A_nlist, A_clist, A_klist, A_next, Ll, Lw.
      repeat split; intros i Hi_; try apply in_snoc in Hi_.
      * apply F1 in Hi_. lia.
      * destruct Hi_ as [Hi_| ->]; [apply F2 in Hi_; lia|unfold c2; lia].
      * destruct Hi_ as [Hi_| ->]; [apply F3 in Hi_; lia|rewrite A_knew; lia].
      * apply F4 in Hi_. lia.
      * apply F5 in Hi_. lia.
    + (* S1 *)
      destruct P1 as [Dn [Dc [Dl Dw]]]. destruct A_lay as [Ll [Ld [Ln [_ [Lw [Lwd Lwn]]]]]]. split; [|split; [|split]].
      * rewrite A_nlist, A_ndict. apply DL_ext with (name := nn g); [|exact Dn]. intros i Hi_. rewrite A_nn. apply (agree_nn g g1 Ag i Hi_).
      * rewrite A_clist, A_cdict. apply (DL_add_new str_eqb str_spec); [|exact Hc2|rewrite A_cn; exact E2n|exact Fresh].
        apply DL_ext with (name := cn g); [|exact Dc]. intros i Hi_. rewrite A_cn. apply (agree_cn g g1 Ag i Hi_).
      * rewrite Ll, Ld. apply DL_ext with (name := ln g); [|exact Dl]. intros i _. unfold ln. rewrite Ln. reflexivity.
      * rewrite Lw, Lwd. apply DL_ext with (name := wn g); [|exact Dw]. intros i _. unfold wn. rewrite Lwn. reflexivity.
    + (* S1k: every connection is filed under the current names of its columns *)
      unfold S1k. rewrite A_kdict, A_klist. apply (DL_rebuild key2_eqb key2_spec).
      * apply NoDup_snoc; [apply (dl_nodup _ _ _ P1k)|exact Hknew].
      * (* distinct connections join distinct ordered pairs of columns, and distinct columns have distinct names *)
        assert (CnInj : forall x y, In x (clist g ++ [c2]) -> In y (clist g ++ [c2]) -> cn gF x = cn gF y -> x = y).
        { assert (DLc : DL (cn gF) (clist gF) (cdict gF)).
          { rewrite A_clist, A_cdict. apply (DL_add_new str_eqb str_spec); [|exact Hc2|rewrite A_cn; exact E2n|exact Fresh].
            apply DL_ext with (name := cn g); [|exact (s1_c g P1)]. intros i Hi_. rewrite A_cn. apply (agree_cn g g1 Ag i Hi_). }
          intros x y Hx Hy. apply (DL_inj str_eqb str_spec _ _ _ _ _ DLc); rewrite A_clist; assumption. }
        assert (EndsIn : forall k, In k (klist g ++ [knew]) -> In (k0 gF k) (clist g ++ [c2]) /\ In (k1 gF k) (clist g ++ [c2])).
        { intros k Hk. apply in_snoc in Hk. destruct Hk as [Hk| ->].
          - destruct (s3_ends g P3 k Hk) as [B0 B1]. destruct (Ends k Hk) as [E1 E2].
            destruct (in_dec Pos.eq_dec k sc) as [Hs|Hs].
            + destruct (E1 Hs) as [-> [-> _]]. split; apply Rc; assumption.
            + destruct (E2 Hs) as [-> [-> _]]. split; apply in_snoc; auto.
          - rewrite A_k0, A_k1, Pos.eqb_refl. split; apply in_snoc; auto. }
        intros k k' Hk Hk' Ekey. unfold kkey in Ekey. inversion Ekey as [[Ea Eb]].
        destruct (EndsIn k Hk) as [X0 X1]. destruct (EndsIn k' Hk') as [Y0 Y1].
        apply CnInj in Ea; [|assumption|assumption]. apply CnInj in Eb; [|assumption|assumption].
        (* same ordered pair of columns after the split => same connection *)
        apply in_snoc in Hk. apply in_snoc in Hk'.
        assert (Kc2 : forall q, In q (klist g) -> (k0 gF q = c2 \/ k1 gF q = c2) -> In q sc).
        { intros q Hq X. destruct (in_dec Pos.eq_dec q sc) as [Hs|Hs]; [exact Hs|]. destruct (Ends q Hq) as [_ E2]. destruct (E2 Hs) as [Q0 [Q1 _]].
          destruct (s3_ends g P3 q Hq) as [B0 B1]. rewrite Q0, Q1 in X. destruct X as [X|X]; rewrite X in *; contradiction. }
        destruct Hk as [Hk| ->]; destruct Hk' as [Hk'| ->]; [| | |reflexivity].
        -- apply (s1k_kkey_inj g k k' P1k Hk Hk'). unfold kkey.
           destruct (Ends k Hk) as [E1 E2]. destruct (Ends k' Hk') as [E1' E2'].
           destruct (in_dec Pos.eq_dec k sc) as [Hs|Hs]; destruct (in_dec Pos.eq_dec k' sc) as [Hs'|Hs'].
           ++ destruct (E1 Hs) as [Q0 [Q1 Q]]. destruct (E1' Hs') as [Q0' [Q1' Q']]. rewrite Q0, Q0' in Ea. rewrite Q1, Q1' in Eb. unfold rc in Ea, Eb.
              destruct Q as [[Qa Qb]|[Qa Qb]]; destruct Q' as [[Qa' Qb']|[Qa' Qb']].
              ** rewrite Qa, Qa'. f_equal. rewrite Qa, Qa', Pos.eqb_refl in Ea. destruct (Hn3c _ Qb) as [_ [N1 _]]. destruct (Hn3c _ Qb') as [_ [N1' _]].
                 apply Pos.eqb_neq in N1. apply Pos.eqb_neq in N1'. rewrite N1, N1' in Eb. rewrite Eb. reflexivity.
              ** exfalso. rewrite Qa, Pos.eqb_refl in Ea. destruct (Hn3c _ Qb') as [_ [N1' N2']]. apply Pos.eqb_neq in N1'. rewrite N1' in Ea. apply N2'. symmetry. exact Ea.
              ** exfalso. rewrite Qa', Pos.eqb_refl in Ea. destruct (Hn3c _ Qb) as [_ [N1 N2]]. apply Pos.eqb_neq in N1. rewrite N1 in Ea. apply N2. exact Ea.
              ** rewrite Qa, Qa'. f_equal. destruct (Hn3c _ Qb) as [_ [N1 _]]. destruct (Hn3c _ Qb') as [_ [N1' _]].
                 apply Pos.eqb_neq in N1. apply Pos.eqb_neq in N1'. rewrite N1, N1' in Ea. rewrite Ea. reflexivity.
           ++ exfalso. apply Hs'. apply Kc2; [exact Hk'|]. destruct (E1 Hs) as [Q0 [Q1 Q]]. rewrite <- Ea, <- Eb, Q0, Q1. unfold rc.
              destruct Q as [[Qa _]|[Qa _]]; rewrite Qa, Pos.eqb_refl; auto.
           ++ exfalso. apply Hs. apply Kc2; [exact Hk|]. destruct (E1' Hs') as [Q0 [Q1 Q]]. rewrite Ea, Eb, Q0, Q1. unfold rc.
              destruct Q as [[Qa _]|[Qa _]]; rewrite Qa, Pos.eqb_refl; auto.
           ++ destruct (E2 Hs) as [Q0 [Q1 _]]. destruct (E2' Hs') as [Q0' [Q1' _]]. rewrite Q0, Q0' in Ea. rewrite Q1, Q1' in Eb. rewrite Ea, Eb. reflexivity.
        -- exfalso. rewrite (A_k0 knew), (A_k1 knew), Pos.eqb_refl in *. 
           assert (Hs : In k sc) by (apply Kc2; [exact Hk|right; exact Eb]).
           destruct (Ends k Hk) as [E1 _]. destruct (E1 Hs) as [Q0 [Q1 Q]]. rewrite Q0 in Ea. unfold rc in Ea.
           destruct Q as [[Qa Qb]|[Qa Qb]].
           ++ rewrite Qa, Pos.eqb_refl in Ea. apply Ncc2. symmetry. exact Ea.
           ++ rewrite Q1, Qa in Eb. unfold rc in Eb. rewrite Pos.eqb_refl in Eb. destruct (Hn3c _ Qb) as [_ [N1 _]]. apply Pos.eqb_neq in N1. rewrite N1 in Ea. apply Pos.eqb_neq in N1. contradiction.
        -- exfalso. rewrite (A_k0 knew), (A_k1 knew), Pos.eqb_refl in *. 
           assert (Hs : In k' sc) by (apply Kc2; [exact Hk'|right; symmetry; exact Eb]).
           destruct (Ends k' Hk') as [E1 _]. destruct (E1 Hs) as [Q0 [Q1 Q]]. rewrite Q0 in Ea. unfold rc in Ea.
           destruct Q as [[Qa Qb]|[Qa Qb]].
           ++ rewrite Qa, Pos.eqb_refl in Ea. apply Ncc2. exact Ea.
           ++ destruct (Hn3c _ Qb) as [_ [N1 _]]. apply Pos.eqb_neq in N1. rewrite N1 in Ea. apply Pos.eqb_neq in N1. apply N1. symmetry. exact Ea.
    + (* S2: nodes and columns *)
      destruct P2 as [Q1 [Q2 Q3]].
      assert (Hcn3 : In n3 (nlist g)) by (apply (Q1 c Hc); rewrite Ecns; apply Mq; fold n0 n1 n2 n3; cbn [In]; tauto).
      assert (Base : forall n, In n (nlist g) -> fget [] (fset (ncol g1) n3 (lremove (ncs g1 n3) c)) n = if Pos.eqb n n3 then lremove (ncs g n3) c else ncs g n).
      { intros n Hn. rewrite fget_fset. destruct (Pos.eqb_spec n n3) as [->|N]; [rewrite (agree_ncs g g1 Ag n3 Hcn3); reflexivity|].
        exact (agree_ncs g g1 Ag n Hn). }
      assert (NcsF : forall n, In n (nlist g) -> forall x, In x (ncs gF n) <->
                (x = c2 /\ In n L2) \/ (x <> c2 /\ In x (ncs g n) /\ ~ (x = c /\ n = n3))).
      { intros n Hn x. rewrite A_ncs. unfold NC. rewrite fget_addall, (Base n Hn).
        assert (Nx2 : forall y, In y (ncs g n) -> y <> c2) by (intros y Hy ->; apply (Q3 n Hn c2) in Hy; destruct Hy; contradiction).
        destruct (mem n L2) eqn:ML; [apply mem_In in ML|apply mem_false in ML].
        - rewrite In_sadd. destruct (Pos.eqb_spec n n3) as [->|N].
          + rewrite (In_lremove _ _ _ (Q2 n3 Hcn3)). split.
            * intros [[A B]|E]; [right; split; [exact (Nx2 x A)|split; [exact A|intros [X _]; exact (B X)]]|left; split; [exact E|exact ML]].
            * intros [[E _]|[A [B C]]]; [right; exact E|left; split; [exact B|intro X; apply C; split; [exact X|reflexivity]]].
          + split.
            * intros [A|E]; [right; split; [exact (Nx2 x A)|split; [exact A|intros [_ X]; exact (N X)]]|left; split; [exact E|exact ML]].
            * intros [[E _]|[A [B C]]]; [right; exact E|left; exact B].
        - destruct (Pos.eqb_spec n n3) as [->|N].
          + exfalso. apply ML. apply ML2. right. left. reflexivity.
          + split.
            * intro A. right. split; [exact (Nx2 x A)|split; [exact A|intros [_ X]; exact (N X)]].
            * intros [[_ X]|[A [B C]]]; [exfalso; exact (ML X)|exact B]. }
      assert (CnsF_c : forall n, In n (cns gF c) <-> In n [m0; m1; m2; m3] /\ n <> n3).
      { intro n. rewrite A_cns, Pos.eqb_refl. rewrite Mr, Mq. fold n0 n1 n2 n3.
        assert (N3 : n0 <> n3 /\ n1 <> n3 /\ n2 <> n3).
        { inversion NDq as [|? ? A1 Q1']. inversion Q1' as [|? ? A2 Q2']. inversion Q2' as [|? ? A3 Q3'].
          cbn [In] in A1, A2, A3. repeat split; intro X; [apply A1|apply A2|apply A3]; rewrite X; auto. }
        destruct N3 as [N03 [N13 N23]]. cbn [In]. split.
        - intros [<-|[<-|[<-|[]]]]; auto 6.
        - intros [[<-|[<-|[<-|[<-|[]]]]] N]; auto; exfalso; apply N; reflexivity. }
      unfold S2. rewrite A_nlist, A_clist. split; [|split].
      * intros x Hx n Hn. apply in_snoc in Hx. destruct Hx as [Hx| ->].
        -- destruct (Pos.eq_dec x c) as [->|Nx].
           ++ apply CnsF_c in Hn. destruct Hn as [Hn _]. apply (Q1 c Hc). rewrite Ecns. exact Hn.
           ++ rewrite A_cns in Hn. apply Pos.eqb_neq in Nx. rewrite Nx in Hn. rewrite (agree_cns g g1 Ag x Hx) in Hn. exact (Q1 x Hx n Hn).
        -- rewrite A_cns in Hn. assert (X : Pos.eqb c2 c = false) by (apply Pos.eqb_neq; intro X; apply Ncc2; symmetry; exact X). rewrite X, E2ns in Hn.
           pose proof (proj1 (ML2 n) Hn) as Hn'. apply (Q1 c Hc). rewrite Ecns. apply (proj2 (Mq n)). fold n0 n1 n2 n3. cbn [In]. destruct Hn' as [E|[E|E]]; rewrite E; tauto.
      * intros n Hn. rewrite A_ncs. unfold NC. rewrite fget_addall, (Base n Hn).
        assert (X : NoDup (if Pos.eqb n n3 then lremove (ncs g n3) c else ncs g n)) by (destruct (Pos.eqb n n3); [apply NoDup_lremove; apply (Q2 n3 Hcn3)|apply (Q2 n Hn)]).
        destruct (mem n L2); [apply NoDup_sadd|]; exact X.
      * intros n Hn x. rewrite (NcsF n Hn x), in_snoc. split.
        -- intros [[E Hl]|[N2 [Hx Nn]]].
           ++ subst x. split; [right; reflexivity|]. rewrite A_cns. assert (X : Pos.eqb c2 c = false) by (apply Pos.eqb_neq; intro X; apply Ncc2; symmetry; exact X). rewrite X, E2ns. exact Hl.
           ++ apply (Q3 n Hn x) in Hx. destruct Hx as [Hx Hm]. split; [left; exact Hx|]. destruct (Pos.eq_dec x c) as [E|Nx].
              ** subst x. apply CnsF_c. rewrite Ecns in Hm. split; [exact Hm|]. intro E. apply Nn. split; [reflexivity|exact E].
              ** rewrite A_cns. apply Pos.eqb_neq in Nx. rewrite Nx, (agree_cns g g1 Ag x Hx). exact Hm.
        -- intros [[Hx|E] Hm].
           ++ right. assert (N2 : x <> c2) by (intro E; subst x; exact (Hc2 Hx)). split; [exact N2|]. destruct (Pos.eq_dec x c) as [E|Nx].
              ** subst x. apply CnsF_c in Hm. destruct Hm as [Hm N3]. split; [apply (Q3 n Hn c); split; [exact Hc|rewrite Ecns; exact Hm]|intros [_ X]; exact (N3 X)].
              ** rewrite A_cns in Hm. pose proof Nx as Nx'. apply Pos.eqb_neq in Nx'. rewrite Nx', (agree_cns g g1 Ag x Hx) in Hm.
                 split; [apply (Q3 n Hn x); split; [exact Hx|exact Hm]|intros [X _]; exact (Nx X)].
           ++ subst x. left. split; [reflexivity|]. rewrite A_cns in Hm. assert (X : Pos.eqb c2 c = false) by (apply Pos.eqb_neq; intro X; apply Ncc2; symmetry; exact X). rewrite X, E2ns in Hm. exact Hm.
    + (* S3a: columns and connections *)
      destruct P3 as [Q1 [Q2 Q3]]. unfold S3a. rewrite A_klist, A_clist. split; [|split].
      * intros k Hk. apply in_snoc in Hk. destruct Hk as [Hk|E].
        -- destruct (Q1 k Hk) as [B0 [B1 Nq]]. destruct (Ends k Hk) as [E1 E2]. destruct (in_dec Pos.eq_dec k sc) as [Hs|Hs].
           ++ destruct (E1 Hs) as [R0 [R1 Q]]. rewrite R0, R1. split; [apply Rc; exact B0|]. split; [apply Rc; exact B1|].
              unfold rc. destruct Q as [[Qa Qb]|[Qa Qb]].
              ** rewrite Qa, Pos.eqb_refl. destruct (Hn3c _ Qb) as [_ [N1 N2]]. pose proof N1 as N1'. apply Pos.eqb_neq in N1'. rewrite N1'. intro X. apply N2. symmetry. exact X.
              ** rewrite Qa, Pos.eqb_refl. destruct (Hn3c _ Qb) as [_ [N1 N2]]. pose proof N1 as N1'. apply Pos.eqb_neq in N1'. rewrite N1'. exact N2.
           ++ destruct (E2 Hs) as [R0 [R1 _]]. rewrite R0, R1. split; [apply in_snoc; left; exact B0|]. split; [apply in_snoc; left; exact B1|exact Nq].
        -- subst k. rewrite A_k0, A_k1, Pos.eqb_refl. split; [apply in_snoc; left; exact Hc|]. split; [apply in_snoc; right; reflexivity|exact Ncc2].
      * intros x Hx. rewrite A_cks, fget_fset. destruct (Pos.eqb_spec x c2) as [E|N2].
        -- apply NoDup_sadd. rewrite fget_fset_neq by (intro X; apply Ncc2; symmetry; exact X). exact Cc2n.
        -- rewrite fget_fset. destruct (Pos.eqb_spec x c) as [E|N1]; [apply NoDup_sadd; exact NDMc|].
           rewrite (Cother x N1 N2), Ecks2. apply in_snoc in Hx. destruct Hx as [Hx|E]; [|contradiction].
           rewrite (agree_cks g g1 Ag x Hx). exact (Q2 x Hx).
      * intros x Hx k. rewrite (CksF x k), in_snoc. apply in_snoc in Hx.
        assert (KnewEnds : k0 gF knew = c /\ k1 gF knew = c2) by (rewrite A_k0, A_k1, Pos.eqb_refl; split; reflexivity).
        destruct KnewEnds as [Kn0 Kn1].
        split.
        -- intros [[Ex [[Hk Ns]|Ek]]|[[Ex [Hs|Ek]]|[N1 [N2 Hk]]]].
           ++ subst x. destruct (Hcks k Hk) as [Hkl Hm]. split; [left; exact Hkl|]. destruct (Ends k Hkl) as [_ E2]. destruct (E2 Ns) as [R0 [R1 _]]. rewrite R0, R1. exact Hm.
           ++ subst x k. split; [right; reflexivity|left; exact Kn0].
           ++ subst x. apply Hsc in Hs as Hs'. destruct Hs' as [Hk _]. destruct (Hcks k Hk) as [Hkl Hm]. split; [left; exact Hkl|].
              destruct (Ends k Hkl) as [E1 _]. destruct (E1 Hs) as [R0 [R1 Q]]. rewrite R0, R1. unfold rc.
              destruct Q as [[Qa _]|[Qa _]]; rewrite Qa, Pos.eqb_refl; [left|right]; reflexivity.
           ++ subst x k. split; [right; reflexivity|right; exact Kn1].
           ++ destruct Hx as [Hx|E]; [|contradiction]. rewrite (agree_cks g g1 Ag x Hx) in Hk. apply (Q3 x Hx k) in Hk. destruct Hk as [Hkl Hm].
              split; [left; exact Hkl|]. destruct (Ends k Hkl) as [E1 E2]. destruct (in_dec Pos.eq_dec k sc) as [Hs|Hs].
              ** destruct (E1 Hs) as [R0 [R1 _]]. rewrite R0, R1. unfold rc. destruct Hm as [Hm|Hm]; rewrite Hm; pose proof N1 as N1'; apply Pos.eqb_neq in N1'; rewrite N1'; [left|right]; reflexivity.
              ** destruct (E2 Hs) as [R0 [R1 _]]. rewrite R0, R1. exact Hm.
        -- intros [[Hkl|Ek] Hm].
           ++ destruct (Ends k Hkl) as [E1 E2]. destruct (Q1 k Hkl) as [B0 [B1 Nq]]. destruct (in_dec Pos.eq_dec k sc) as [Hs|Hs].
              ** destruct (E1 Hs) as [R0 [R1 Q]]. rewrite R0, R1 in Hm. unfold rc in Hm.
                 destruct Q as [[Qa Qb]|[Qa Qb]]; destruct (Hn3c _ Qb) as [Dl [N1 N2]]; pose proof N1 as N1'; apply Pos.eqb_neq in N1'; rewrite Qa, Pos.eqb_refl, N1' in Hm.
                 --- destruct Hm as [Hm|Hm]; [right; left; split; [symmetry; exact Hm|left; exact Hs]|].
                     right; right. split; [intro X; apply N1; rewrite Hm; exact X|]. split; [intro X; apply N2; rewrite Hm; exact X|].
                     subst x. rewrite (agree_cks g g1 Ag _ Dl). apply (Q3 _ Dl k). split; [exact Hkl|right; reflexivity].
                 --- destruct Hm as [Hm|Hm]; [|right; left; split; [symmetry; exact Hm|left; exact Hs]].
                     right; right. split; [intro X; apply N1; rewrite Hm; exact X|]. split; [intro X; apply N2; rewrite Hm; exact X|].
                     subst x. rewrite (agree_cks g g1 Ag _ Dl). apply (Q3 _ Dl k). split; [exact Hkl|left; reflexivity].
              ** destruct (E2 Hs) as [R0 [R1 _]]. rewrite R0, R1 in Hm. destruct (Pos.eq_dec x c) as [E|N1].
                 --- subst x. left. split; [reflexivity|]. left. split; [apply (Q3 c Hc k); split; [exact Hkl|exact Hm]|exact Hs].
                 --- assert (N2 : x <> c2) by (intro E; subst x; destruct Hm as [Hm|Hm]; rewrite <- Hm in Hc2; contradiction).
                     right; right. split; [exact N1|]. split; [exact N2|]. destruct Hx as [Hx|E]; [|contradiction].
                     rewrite (agree_cks g g1 Ag x Hx). apply (Q3 x Hx k). split; [exact Hkl|exact Hm].
           ++ subst k. rewrite Kn0, Kn1 in Hm. destruct Hm as [Hm|Hm]; subst x; [left; split; [reflexivity|right; reflexivity]|right; left; split; [reflexivity|right; reflexivity]].
    + (* S4: the nodes of each connection belong to both of its columns *)
      assert (CnsC2 : cns gF c2 = L2).
      { rewrite A_cns. assert (X : Pos.eqb c2 c = false) by (apply Pos.eqb_neq; intro X; apply Ncc2; symmetry; exact X). rewrite X. exact E2ns. }
      assert (CnsC : cns gF c = Lc) by (rewrite A_cns, Pos.eqb_refl; reflexivity).
      assert (CnsO : forall x, In x (clist g) -> x <> c -> cns gF x = cns g x).
      { intros x Hx Nx. rewrite A_cns. apply Pos.eqb_neq in Nx. rewrite Nx. exact (agree_cns g g1 Ag x Hx). }
      assert (InLc : forall a, In a [m0; m1; m2; m3] -> a <> n3 -> In a Lc).
      { intros a Ha Na. apply (proj2 (Mr a)). apply (proj1 (Mq a)) in Ha. fold n0 n1 n2 n3 in Ha |- *. cbn [In] in Ha |- *.
        destruct Ha as [E|[E|[E|[E|[]]]]]; [tauto|tauto|tauto|exfalso; apply Na; symmetry; exact E]. }
      assert (InL2 : forall a, In a [m0; m1; m2; m3] -> a <> n1 -> In a L2).
      { intros a Ha Na. apply (proj2 (ML2 a)). apply (proj1 (Mq a)) in Ha. fold n0 n1 n2 n3 in Ha. cbn [In] in Ha.
        destruct Ha as [E|[E|[E|[E|[]]]]]; [right; right; symmetry; exact E|exfalso; apply Na; symmetry; exact E|left; symmetry; exact E|right; left; symmetry; exact E]. }
      assert (N3col : forall d, In d (cnb g c) -> In d n3cols <-> In n3 (cns g d)).
      { intros d Hd. unfold n3cols. rewrite filter_In.
        assert (Hdl : In d (clist g)).
        { apply (s3b_ex g D1 c Hc d) in Hd. destruct Hd as [k [Hk J]]. destruct (s3_ends g P3 k Hk) as [B0 B1]. destruct J as [[_ J]|[J _]]; rewrite <- J; assumption. }
        rewrite (agree_cns g g1 Ag d Hdl). split; [intros [_ X]; apply mem_In; exact X|intro X; split; [exact Hd|apply mem_In; exact X]]. }
      intros k Hk. rewrite A_klist in Hk. apply in_snoc in Hk. destruct Hk as [Hk|E].
      * rewrite A_kn. assert (Nk : Pos.eqb k knew = false) by (apply Pos.eqb_neq; intro E; subst k; contradiction). rewrite Nk, (agree_kn g g1 Ag k Hk).
        destruct (P4 k Hk) as [a [b [Ekn [Nab [Ha0 [Hb0 [Ha1 Hb1]]]]]]]. exists a, b. split; [exact Ekn|]. split; [exact Nab|].
        destruct (s3_ends g P3 k Hk) as [B0 B1]. pose proof (s3_neq g P3 k Hk) as Nq. destruct (Ends k Hk) as [E1 E2].
        destruct (in_dec Pos.eq_dec k sc) as [Hs|Hs].
        -- destruct (E1 Hs) as [R0 [R1 Q]]. rewrite R0, R1. unfold rc. destruct Q as [[Qa Qb]|[Qa Qb]].
           ++ destruct (Hn3 _ Qb) as [Hnb [Hn3d [Hdl [N1 N2]]]]. pose proof N1 as N1'. apply Pos.eqb_neq in N1'. rewrite Qa, Pos.eqb_refl, N1'.
              rewrite Qa, Ecns in Ha0, Hb0. rewrite CnsC2, (CnsO _ Hdl N1).
              assert (Nn1 : ~ In n1 (cns g (k1 g k))) by (apply Pre; assumption).
              split; [apply InL2; [exact Ha0|intro E; subst a; exact (Nn1 Ha1)]|]. split; [apply InL2; [exact Hb0|intro E; subst b; exact (Nn1 Hb1)]|]. split; assumption.
           ++ destruct (Hn3 _ Qb) as [Hnb [Hn3d [Hdl [N1 N2]]]]. pose proof N1 as N1'. apply Pos.eqb_neq in N1'. rewrite Qa, Pos.eqb_refl, N1'.
              rewrite Qa, Ecns in Ha1, Hb1. rewrite CnsC2, (CnsO _ Hdl N1).
              assert (Nn1 : ~ In n1 (cns g (k0 g k))) by (apply Pre; assumption).
              split; [exact Ha0|]. split; [exact Hb0|]. split; [apply InL2; [exact Ha1|intro E; subst a; exact (Nn1 Ha0)]|apply InL2; [exact Hb1|intro E; subst b; exact (Nn1 Hb0)]].
        -- destruct (E2 Hs) as [R0 [R1 [U0 U1]]]. rewrite R0, R1.
           assert (Side : forall e d, In e (clist g) -> In d (clist g) -> (e = c -> In d (cnb g c) /\ ~ In d n3cols) ->
                          In a (cns g e) -> In b (cns g e) -> In a (cns g d) -> In b (cns g d) -> In a (cns gF e) /\ In b (cns gF e)).
           { intros e d He Hd Hec Xa Xb Ya Yb. destruct (Pos.eq_dec e c) as [E|Ne]; [|rewrite (CnsO e He Ne); split; assumption].
             subst e. destruct (Hec eq_refl) as [Hnb Hn3']. rewrite CnsC. rewrite Ecns in Xa, Xb.
             assert (Nd3 : ~ In n3 (cns g d)) by (intro X; apply Hn3'; apply (N3col d Hnb); exact X).
             split; apply InLc; try assumption; intro E; [subst a|subst b]; contradiction. }
           assert (J01 : joined g (k0 g k) (k1 g k)) by (exists k; split; [exact Hk|left; split; reflexivity]).
           assert (J10 : joined g (k1 g k) (k0 g k)) by (exists k; split; [exact Hk|right; split; reflexivity]).
           destruct (Side (k0 g k) (k1 g k) B0 B1) as [Xa Xb]; try assumption.
           { intro E. split; [apply (s3b_ex g D1 c Hc); rewrite <- E; exact J01|apply U0; exact E]. }
           destruct (Side (k1 g k) (k0 g k) B1 B0) as [Ya Yb]; try assumption.
           { intro E. split; [apply (s3b_ex g D1 c Hc); rewrite <- E; exact J10|apply U1; exact E]. }
           split; [exact Xa|]. split; [exact Xb|]. split; assumption.
      * subst k. rewrite A_kn, A_k0, A_k1, Pos.eqb_refl, CnsC, CnsC2.
        assert (NDLc : NoDup (cns gF c)) by (rewrite CnsC; exact NDr).
        assert (NDL2' : NoDup (cns gF c2)) by (rewrite CnsC2; exact NDL2).
        symmetry in CNeq. destruct CN as [[a b]|]; rename CNeq into ECN.
        -- exists a, b. split; [reflexivity|].
           destruct (connection_nodes_ok gF c c2 a b NDLc NDL2' ECN) as [Nab [X1 [X2 [X3 X4]]]]. rewrite CnsC in X1, X2. rewrite CnsC2 in X3, X4. split; [exact Nab|]. split; [exact X1|]. split; [exact X2|]. split; [exact X3|exact X4].
        -- exfalso. unfold connection_nodes in ECN. rewrite CnsC, CnsC2 in ECN. rewrite Lr in ECN. cbn [Nat.ltb Nat.leb] in ECN.
           unfold first_shared in ECN. pose proof (find_none _ _ ECN _ Pr) as X. cbn [fst snd] in X.
           rewrite (In_mem_true n2 L2), (In_mem_true n0 L2) in X by (apply ML2; tauto). discriminate X.
    + (* S5p *)
      intros x Hx. rewrite A_clist in Hx. apply in_snoc in Hx. destruct Hx as [Hx|E].
      * destruct (Pos.eq_dec x c) as [E|Nx].
        -- subst x. rewrite A_cns, Pos.eqb_refl. split; [exact NDr|rewrite Lr; apply le_n].
        -- rewrite A_cns. apply Pos.eqb_neq in Nx. rewrite Nx, (agree_cns g g1 Ag x Hx). exact (P5 x Hx).
      * subst x. rewrite A_cns. assert (X : Pos.eqb c2 c = false) by (apply Pos.eqb_neq; intro X; apply Ncc2; symmetry; exact X). rewrite X, E2ns.
        split; [exact NDL2|rewrite LL2; apply le_n].
  - (* ---------------- S3b: the neighbour sets ---------------- *)
    destruct D1 as [Qn1 Qn2].
    assert (SnSc : forall d, In d sn <-> exists k, In k sc /\ ((k0 g k = c /\ k1 g k = d) \/ (k1 g k = c /\ k0 g k = d))).
    { intro d. rewrite Esn, <- Esc, in_map_iff. split.
      - intros [k [Eo Hs]]. exists k. split; [exact Hs|]. apply Hsc in Hs as Hs'. destruct Hs' as [Hk _]. destruct (Hcks k Hk) as [Hkl _].
        destruct (Ends k Hkl) as [E1 _]. destruct (E1 Hs) as [_ [_ Q]]. unfold other_end in Eo. rewrite (Eg1k0 k Hkl), (Eg1k1 k Hkl) in Eo.
        destruct Q as [[Qa Qb]|[Qa Qb]].
        + rewrite Qa, (notIn_mem_false _ _ Hc_n3) in Eo. left. split; [exact Qa|exact Eo].
        + rewrite (In_mem_true _ _ Qb) in Eo. right. split; [exact Qa|exact Eo].
      - intros [k [Hs Q]]. exists k. split; [|exact Hs]. apply Hsc in Hs as Hs'. destruct Hs' as [Hk _]. destruct (Hcks k Hk) as [Hkl _].
        destruct (Ends k Hkl) as [E1 _]. destruct (E1 Hs) as [_ [_ Q']]. unfold other_end. rewrite (Eg1k0 k Hkl), (Eg1k1 k Hkl).
        pose proof (s3_neq g P3 k Hkl) as Nq.
        destruct Q as [[Qa Qb]|[Qa Qb]]; destruct Q' as [[Qa' Qb']|[Qa' Qb']].
        + rewrite Qa, (notIn_mem_false _ _ Hc_n3). exact Qb.
        + exfalso. apply Nq. rewrite Qa, Qa'. reflexivity.
        + exfalso. apply Nq. rewrite Qa, Qa'. reflexivity.
        + rewrite (In_mem_true _ _ Qb'). exact Qb. }
    assert (Kc2 : forall q, In q (klist g) -> (k0 gF q = c2 \/ k1 gF q = c2) -> In q sc).
    { intros q Hq X. destruct (in_dec Pos.eq_dec q sc) as [Hs|Hs]; [exact Hs|]. destruct (Ends q Hq) as [_ E2]. destruct (E2 Hs) as [Q0 [Q1 _]].
      destruct (s3_ends g P3 q Hq) as [B0 B1]. rewrite Q0, Q1 in X. destruct X as [X|X]; rewrite X in *; contradiction. }
    assert (SnIn : forall d, In d sn -> In d (clist g) /\ d <> c /\ d <> c2 /\ In d n3cols) by (intros d Hd; destruct (Hn3c d (Hsn d Hd)) as [A [B C]]; auto using Hsn).
    assert (NbF : forall x d, In d (cnb gF x) <->
              (x = c /\ ((In d (cnb g c) /\ ~ In d sn) \/ d = c2)) \/ (x = c2 /\ (In d sn \/ d = c)) \/ (x <> c /\ x <> c2 /\ In d (cnb g4 x))).
    { intros x d. rewrite A_cnb, fget_fset. destruct (Pos.eqb_spec x c2) as [E|N2].
      - subst x. rewrite In_sadd, fget_fset_neq by (intro X; apply Ncc2; symmetry; exact X). rewrite <- Ecnb4, Nc2. cbn [In].
        split; [intros [[[]|X]|X]; right; left; (split; [reflexivity|tauto])|]. intros [[X _]|[[_ X]|[_ [X _]]]]; [exfalso; apply Ncc2; symmetry; exact X|tauto|exfalso; apply X; reflexivity].
      - rewrite fget_fset. destruct (Pos.eqb_spec x c) as [E|N1].
        + subst x. rewrite In_sadd, <- Ecnb4, MNc. split; [intros [X|X]; left; (split; [reflexivity|tauto])|]. intros [[_ X]|[[X _]|[X _]]]; [tauto|contradiction|exfalso; apply X; reflexivity].
        + rewrite <- Ecnb4. split; [intro X; right; right; split; [exact N1|split; [exact N2|exact X]]|]. intros [[X _]|[[X _]|[_ [_ X]]]]; [contradiction|contradiction|exact X]. }
    assert (Nb4 : forall x, In x (clist g) -> x <> c -> forall d, In d (cnb g4 x) <-> (In x sn /\ ((In d (cnb g x) /\ d <> c) \/ d = c2)) \/ (~ In x sn /\ In d (cnb g x))).
    { intros x Hx Nx d. assert (N2 : x <> c2) by (intro E; subst x; contradiction).
      destruct (in_dec Pos.eq_dec x sn) as [Hs|Hs].
      - assert (ND3 : NoDup (cnb g3 x)) by (rewrite Ecnb3, (agree_cnb g g1 Ag x Hx); exact (Qn1 x Hx)).
        destruct (Nd x Hs ND3) as [_ M]. rewrite M, Ecnb3, (agree_cnb g g1 Ag x Hx). tauto.
      - rewrite (Nother x Nx N2 Hs), Ecnb3, (agree_cnb g g1 Ag x Hx). tauto. }
    assert (KnewEnds : k0 gF knew = c /\ k1 gF knew = c2) by (rewrite A_k0, A_k1, Pos.eqb_refl; split; reflexivity).
    destruct KnewEnds as [Kn0 Kn1].
    (* joined after the split, in terms of the connections before *)
    assert (JF : forall x d, joined gF x d <->
              ((x = c /\ d = c2) \/ (x = c2 /\ d = c)) \/
              exists k, In k (klist g) /\ ((k0 gF k = x /\ k1 gF k = d) \/ (k0 gF k = d /\ k1 gF k = x))).
    { intros x d. unfold joined. rewrite A_klist. split.
      - intros [k [Hk M]]. apply in_snoc in Hk. destruct Hk as [Hk|E]; [right; exists k; split; assumption|].
        subst k. rewrite Kn0, Kn1 in M. left. destruct M as [[A B]|[A B]]; [left|right]; split; symmetry; assumption.
      - intros [M|[k [Hk M]]]; [exists knew; split; [apply in_snoc; right; reflexivity|rewrite Kn0, Kn1; destruct M as [[A B]|[A B]]; subst; tauto]|].
        exists k. split; [apply in_snoc; left; exact Hk|exact M]. }
    unfold S3b. rewrite A_clist. split.
    + (* no repetition *)
      intros x Hx. rewrite A_cnb, fget_fset. destruct (Pos.eqb_spec x c2) as [E|N2].
      * apply NoDup_sadd. rewrite fget_fset_neq by (intro X; apply Ncc2; symmetry; exact X). rewrite <- Ecnb4. exact Nc2n.
      * rewrite fget_fset. destruct (Pos.eqb_spec x c) as [E|N1]; [apply NoDup_sadd; rewrite <- Ecnb4; exact NDNc|].
        apply in_snoc in Hx. destruct Hx as [Hx|E]; [|contradiction]. rewrite <- Ecnb4.
        destruct (in_dec Pos.eq_dec x sn) as [Hs|Hs].
        -- assert (ND3 : NoDup (cnb g3 x)) by (rewrite Ecnb3, (agree_cnb g g1 Ag x Hx); exact (Qn1 x Hx)). exact (proj1 (Nd x Hs ND3)).
        -- rewrite (Nother x N1 N2 Hs), Ecnb3, (agree_cnb g g1 Ag x Hx). exact (Qn1 x Hx).
    + (* exactness *)
      assert (ScEnds : forall k, In k sc -> In k (klist g) /\ exists e, In e sn /\ e <> c /\ e <> c2 /\ In e (clist g) /\
                ((k0 g k = c /\ k1 g k = e /\ k0 gF k = c2 /\ k1 gF k = e) \/ (k1 g k = c /\ k0 g k = e /\ k0 gF k = e /\ k1 gF k = c2))).
      { intros k Hs. apply Hsc in Hs as Hs'. destruct Hs' as [Hk _]. destruct (Hcks k Hk) as [Hkl _]. split; [exact Hkl|].
        destruct (Ends k Hkl) as [E1 _]. destruct (E1 Hs) as [R0 [R1 Q]]. unfold rc in R0, R1.
        destruct Q as [[Qa Qb]|[Qa Qb]]; destruct (Hn3c _ Qb) as [Dl [N1 N2]]; pose proof N1 as N1'; apply Pos.eqb_neq in N1'.
        - rewrite Qa, Pos.eqb_refl in R0. rewrite N1' in R1.
          exists (k1 g k). split; [apply SnSc; exists k; split; [exact Hs|left; split; [exact Qa|reflexivity]]|]. split; [exact N1|]. split; [exact N2|]. split; [exact Dl|].
          left. split; [exact Qa|]. split; [reflexivity|]. split; assumption.
        - rewrite N1' in R0. rewrite Qa, Pos.eqb_refl in R1.
          exists (k0 g k). split; [apply SnSc; exists k; split; [exact Hs|right; split; [exact Qa|reflexivity]]|]. split; [exact N1|]. split; [exact N2|]. split; [exact Dl|].
          right. split; [exact Qa|]. split; [reflexivity|]. split; assumption. }
      assert (Unsw : forall k, In k (klist g) -> ~ In k sc -> k0 gF k = k0 g k /\ k1 gF k = k1 g k /\
                (k0 g k = c -> ~ In (k1 g k) sn) /\ (k1 g k = c -> ~ In (k0 g k) sn)).
      { intros k Hk Hs. destruct (Ends k Hk) as [_ E2]. destruct (E2 Hs) as [R0 [R1 [U0 U1]]]. split; [exact R0|]. split; [exact R1|].
        split; intros E X; [apply (U0 E)|apply (U1 E)]; apply Hsn; exact X. }
      assert (FromJ : forall x d k, In k (klist g) -> k0 gF k = x -> k1 gF k = d -> In d (cnb gF x) /\ In x (cnb gF d)).
      { intros x d k Hk Ex Ed. destruct (in_dec Pos.eq_dec k sc) as [Hs|Hs].
        - destruct (ScEnds k Hs) as [_ [e [Hes [Ne [Ne2 [Hel Q]]]]]].
          assert (Ie : In c2 (cnb gF e)).
          { apply NbF. right; right. split; [exact Ne|]. split; [exact Ne2|]. apply (Nb4 e Hel Ne). left. split; [exact Hes|right; reflexivity]. }
          assert (Ic2 : In e (cnb gF c2)) by (apply NbF; right; left; split; [reflexivity|left; exact Hes]).
          destruct Q as [[_ [_ [R0 R1]]]|[_ [_ [R0 R1]]]]; rewrite R0 in Ex; rewrite R1 in Ed; subst x d; split; assumption.
        - destruct (Unsw k Hk Hs) as [R0 [R1 [U0 U1]]]. rewrite R0 in Ex. rewrite R1 in Ed.
          destruct (s3_ends g P3 k Hk) as [B0 B1]. pose proof (s3_neq g P3 k Hk) as Nq. rewrite Ex in B0. rewrite Ed in B1.
          assert (Jxd : joined g x d) by (exists k; split; [exact Hk|left; split; assumption]).
          assert (Jdx : joined g d x) by (exists k; split; [exact Hk|right; split; assumption]).
          assert (One : forall y z, In y (clist g) -> joined g y z -> (y = c -> ~ In z sn) -> (z = c -> ~ In y sn) -> In z (cnb gF y)).
          { intros y z Hy J Uy Uz. apply NbF. destruct (Pos.eq_dec y c) as [E|Ny].
            - subst y. left. split; [reflexivity|]. left. split; [apply (Qn2 c Hc z); exact J|apply Uy; reflexivity].
            - right; right. assert (Ny2 : y <> c2) by (intro E; subst y; contradiction). split; [exact Ny|]. split; [exact Ny2|].
              apply (Nb4 y Hy Ny). destruct (in_dec Pos.eq_dec y sn) as [Hys|Hys].
              + left. split; [exact Hys|]. left. split; [apply (Qn2 y Hy z); exact J|]. intro E. exact (Uz E Hys).
              + right. split; [exact Hys|apply (Qn2 y Hy z); exact J]. }
          split.
          + apply (One x d B0 Jxd); intro E; [rewrite <- Ed; apply U0; rewrite Ex; exact E|rewrite <- Ex; apply U1; rewrite Ed; exact E].
          + apply (One d x B1 Jdx); intro E; [rewrite <- Ex; apply U1; rewrite Ed; exact E|rewrite <- Ed; apply U0; rewrite Ex; exact E]. }
      assert (Lift : forall x d, In x (clist g) -> joined g x d -> (forall k, In k sc -> ~ ((k0 g k = x /\ k1 g k = d) \/ (k0 g k = d /\ k1 g k = x))) -> joined gF x d).
      { intros x d Hx [k [Hk M]] Ns. apply JF. right. exists k. split; [exact Hk|].
        assert (Hs : ~ In k sc) by (intro Hs; exact (Ns k Hs M)). destruct (Unsw k Hk Hs) as [R0 [R1 _]]. rewrite R0, R1. exact M. }
      intros x Hx d. split.
      * (* a recorded neighbour is connected *)
        intro Hd. apply NbF in Hd. destruct Hd as [[Ex [[Hd Nd_]|Ed]]|[[Ex [Hd|Ed]]|[N1 [N2 Hd]]]].
        -- subst x. apply (Lift c d Hc); [apply (Qn2 c Hc d); exact Hd|]. intros k Hs M. apply Nd_.
           destruct (ScEnds k Hs) as [_ [e [Hes [Ne [_ [_ Q]]]]]].
           destruct Q as [[Q0 [Q1 _]]|[Q0 [Q1 _]]]; destruct M as [[M0 M1]|[M0 M1]]; try (rewrite <- M1, Q1; exact Hes); try (rewrite <- M0, Q1; exact Hes); exfalso; apply Ne; congruence.
        -- subst x d. apply JF. left. left. split; reflexivity.
        -- subst x. apply SnSc in Hd. destruct Hd as [k [Hs M]]. destruct (ScEnds k Hs) as [Hkl [e [_ [_ [_ [_ Q]]]]]].
           apply JF. right. exists k. split; [exact Hkl|]. pose proof (s3_neq g P3 k Hkl) as Nq.
           destruct Q as [[Q0 [Q1 [R0 R1]]]|[Q0 [Q1 [R0 R1]]]]; destruct M as [[M0 M1]|[M0 M1]].
           ++ left. split; [exact R0|rewrite R1, <- Q1; exact M1].
           ++ exfalso. apply Nq. rewrite Q0, M0. reflexivity.
           ++ exfalso. apply Nq. rewrite Q0, M0. reflexivity.
           ++ right. split; [rewrite R0, <- Q1; exact M1|exact R1].
        -- subst x d. apply JF. left. right. split; reflexivity.
        -- apply in_snoc in Hx. destruct Hx as [Hx|E]; [|contradiction].
           apply (Nb4 x Hx N1 d) in Hd. destruct Hd as [[Hxs [[Hd Ndc]|Ed]]|[Hxs Hd]].
           ++ apply (Lift x d Hx); [apply (Qn2 x Hx d); exact Hd|]. intros k Hs M.
              destruct (ScEnds k Hs) as [_ [e [_ [_ [_ [_ Q]]]]]].
              destruct Q as [[Q0 _]|[Q0 _]]; destruct M as [[M0 M1]|[M0 M1]]; first [apply N1; congruence|apply Ndc; congruence].
           ++ subst d. apply SnSc in Hxs. destruct Hxs as [k [Hs M]]. destruct (ScEnds k Hs) as [Hkl [e [_ [_ [_ [_ Q]]]]]].
              apply JF. right. exists k. split; [exact Hkl|]. pose proof (s3_neq g P3 k Hkl) as Nq.
              destruct Q as [[Q0 [Q1 [R0 R1]]]|[Q0 [Q1 [R0 R1]]]]; destruct M as [[M0 M1]|[M0 M1]].
              ** right. split; [exact R0|rewrite R1, <- Q1; exact M1].
              ** exfalso. apply Nq. rewrite Q0, M0. reflexivity.
              ** exfalso. apply Nq. rewrite Q0, M0. reflexivity.
              ** left. split; [rewrite R0, <- Q1; exact M1|exact R1].
           ++ apply (Lift x d Hx); [apply (Qn2 x Hx d); exact Hd|]. intros k Hs M.
              destruct (ScEnds k Hs) as [_ [e [Hes [_ [_ [_ Q]]]]]].
              destruct Q as [[Q0 [Q1 _]]|[Q0 [Q1 _]]]; destruct M as [[M0 M1]|[M0 M1]];
                first [apply N1; congruence|apply Hxs; replace x with e by congruence; exact Hes].
      * (* a connected column is a recorded neighbour *)
        intro J. apply JF in J. destruct J as [[[Ex Ed]|[Ex Ed]]|[k [Hk M]]].
        -- subst x d. apply NbF. left. split; [reflexivity|right; reflexivity].
        -- subst x d. apply NbF. right; left. split; [reflexivity|right; reflexivity].
        -- destruct M as [[M0 M1]|[M0 M1]]; [exact (proj1 (FromJ x d k Hk M0 M1))|exact (proj2 (FromJ d x k Hk M0 M1))].
  - (* ---------------- S5n: the layer counts ---------------- *)
    destruct A_lay as [Ll [_ [_ [Lb _]]]].
    assert (CL : forall s_, count_layers gF s_ = count_layers g s_) by (intro s_; unfold count_layers, lb; rewrite Ll, Lb; reflexivity).
    intros x Hx. rewrite A_clist in Hx. apply in_snoc in Hx. rewrite CL, A_cs, A_cl. destruct Hx as [Hx|E].
    + assert (N2 : Pos.eqb x c2 = false) by (apply Pos.eqb_neq; intro E; subst x; contradiction).
      rewrite N2, (agree_cs g g1 Ag x Hx), (agree_cl g g1 Ag x Hx). exact (D2 x Hx).
    + subst x. rewrite Pos.eqb_refl. exact Enl'.
Qed.
