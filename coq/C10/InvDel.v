(** C10 -- delete_connection and delete_column (source as it stands: [fx_nbr = false]). *)
From Coq Require Import Ascii String List Bool PArith NArith ZArith QArith FMapPositive Permutation Lia.
From PTBase Require Import Exn PyStr.
From P Require Import Assoc GeoState GeoEdit Inv InvNames InvSimple Sets InvCol InvConn.
Import ListNotations.
Open Scope list_scope.

(** the connection sets after [for col in con.column: col.connection.remove(con)] *)
Definition ccon_del (m : fmap (list id)) (a b k : id) : fmap (list id) :=
  let m1 := fset m a (lremove (fget [] m a) k) in fset m1 b (lremove (fget [] m1 b) k).
Lemma fget_ccon_del m a b k c : a <> b ->
  fget [] (ccon_del m a b k) c = if Pos.eqb c a || Pos.eqb c b then lremove (fget [] m c) k else fget [] m c.
Proof.
  intro N. unfold ccon_del. rewrite fget_fset. destruct (Pos.eqb_spec c b) as [->|Nb].
  - rewrite fget_fset. destruct (Pos.eqb_spec b a) as [E|_]; [congruence|]. rewrite orb_true_r. reflexivity.
  - rewrite fget_fset, orb_false_r. destruct (Pos.eqb_spec c a) as [->|]; reflexivity.
Qed.

Lemma ccon_remove_ok g c k g' : ccon_remove g c k = Ok g' ->
  In k (cks g c) /\ g' = set_ccon g (fset (ccon g) c (lremove (cks g c) k)).
Proof.
  unfold ccon_remove. destruct (sremove (cks g c) k) as [s|] eqn:E; cbn [bind]; [|discriminate].
  apply sremove_ok in E. destruct E as [A ->]. intro H; inversion H. auto.
Qed.

(** the state after the connection itself is gone (before any update of the neighbour sets) *)
Definition dk_base (g : geo) (key : key2) (k : id) : geo :=
  set_klist (set_kdict (set_ccon g (ccon_del (ccon g) (k0 g k) (k1 g k) k)) (adel key2_eqb (kdict g) key)) (lremove (klist g) k).
(** closed form of a successful delete_connection: the base state, with the neighbour sets possibly updated
    (repaired source); in the source as it stands they are untouched *)
Lemma delete_connection_closed_any g key g' : delete_connection g key = Ok g' ->
  exists k N, kget g key = Some k /\ In k (cks g (k0 g k)) /\ In k (klist g) /\ g' = set_cnbr (dk_base g key k) N /\
              (fx_nbr (fx g) = false -> N = cnbr g).
Proof.
  intro H. unfold delete_connection in H. destruct (kget g key) as [k|] eqn:E; [|discriminate]. exists k.
  destruct (ccon_remove g (k0 g k) k) as [g1|] eqn:R1; cbn [bind] in H; [|discriminate].
  apply ccon_remove_ok in R1. destruct R1 as [In1 ->].
  match type of H with context [ccon_remove ?G ?c ?x] => destruct (ccon_remove G c x) as [g2|] eqn:R2 end; cbn [bind] in H; [|discriminate].
  apply ccon_remove_ok in R2. destruct R2 as [_ ->]. revert H. gs.
  destruct (mem k (klist g)) eqn:M; [|discriminate]. apply mem_In in M.
  destruct (fx_nbr (fx g)).
  - match goal with |- context [still_joined ?G ?a ?b] => destruct (still_joined G a b) end; intro H; inversion H; subst g'; clear H.
    + exists (cnbr g). repeat split; auto.
    + unfold nbr_discard. gs. eexists. repeat split; try assumption; try reflexivity. discriminate.
  - intro H. inversion H; subst g'; clear H. exists (cnbr g). repeat split; auto.
Qed.
Lemma delete_connection_closed g key g' : fx_nbr (fx g) = false -> delete_connection g key = Ok g' ->
  exists k, kget g key = Some k /\ In k (cks g (k0 g k)) /\ In k (klist g) /\ g' = dk_base g key k.
Proof.
  intros Fx H. destruct (delete_connection_closed_any g key g' H) as [k [N [E [A [B [Eg EN]]]]]].
  exists k. rewrite (EN Fx) in Eg. repeat split; assumption.
Qed.

Lemma invS_set_cnbr g m : InvS g -> InvS (set_cnbr g m).
Proof. intros [F P1 P1k P2 P3 P4 P5]. constructor; assumption. Qed.
Lemma dk_base_invS g key k : InvS g -> kget g key = Some k -> In k (klist g) -> InvS (dk_base g key k).
Proof.
  intros I E Hk. unfold dk_base.
  destruct I as [F P1 P1k P2 P3 P4 P5].
  destruct (s1k_kget g key k P1k E) as [_ Hkey].
  pose proof (s3_neq g P3 k Hk) as Hab.
  constructor.
  - destruct F as [F1 [F2 [F3 [F4 F5]]]]. unfold Fr. gs. repeat split; try assumption.
    intros x Hx. apply lremove_incl in Hx. auto.
  - exact P1.
  - unfold S1k. gs. apply (DL_del key2_eqb key2_spec (kkey g)); assumption.
  - exact P2.
  - pose proof (dl_nodup _ _ _ P1k) as NDk. destruct P3 as [Q1 [Q2 Q3]]. unfold S3a. gsu. split; [|split].
    + intros k' Hk'. apply lremove_incl in Hk'. exact (Q1 k' Hk').
    + intros c Hc. rewrite fget_ccon_del by exact Hab. destruct (_ || _); [apply NoDup_lremove|]; exact (Q2 c Hc).
    + intros c Hc k'. rewrite fget_ccon_del by exact Hab. rewrite (In_lremove _ _ _ NDk).
      destruct (Pos.eqb_spec c (fget 1%positive (kc0 g) k)) as [Ea|Na]; cbn [orb].
      * rewrite (In_lremove _ _ _ (Q2 c Hc)), (Q3 c Hc k'). tauto.
      * destruct (Pos.eqb_spec c (fget 1%positive (kc1 g) k)) as [Eb|Nb].
        -- rewrite (In_lremove _ _ _ (Q2 c Hc)), (Q3 c Hc k'). tauto.
        -- rewrite (Q3 c Hc k'). split; [|tauto]. intros [A B]. split; [split; [exact A|]|exact B].
           intros ->. destruct B; congruence.
  - intros k' Hk'. revert Hk'. gsu. intro Hk'. apply lremove_incl in Hk'. exact (P4 k' Hk').
  - exact P5.
Qed.
(** [delete_connection] keeps the object graph consistent (either source variant) *)
Lemma delete_connection_invS g key g' : InvS g -> delete_connection g key = Ok g' -> InvS g'.
Proof.
  intros I H. destruct (delete_connection_closed_any g key g' H) as [k [N [E [_ [Hk [-> _]]]]]].
  apply invS_set_cnbr, dk_base_invS; assumption.
Qed.

(** the two columns stay joined by another connection *)
Definition joined_otherwise (g : geo) (key : key2) : Prop :=
  forall k, kget g key = Some k -> exists k', In k' (klist g) /\ k' <> k /\
    ((k0 g k' = k0 g k /\ k1 g k' = k1 g k) \/ (k0 g k' = k1 g k /\ k1 g k' = k0 g k)).

Theorem delete_connection_inv g key g' : fx_nbr (fx g) = false -> Inv g -> joined_otherwise g key -> llist g = [] ->
  delete_connection g key = Ok g' -> Inv g'.
Proof.
  intros Fx I J Hlay H. constructor; [eapply delete_connection_invS; [apply I|exact H]|].
  destruct (delete_connection_closed g key g' Fx H) as [k [E [_ [Hk ->]]]]. unfold dk_base.
  destruct (J k E) as [k' [Hk' [Nk' Je]]].
  destruct I as [[F P1 P1k P2 P3 P4 P5] [D1 D2 D3]]. pose proof (dl_nodup _ _ _ P1k) as NDk.
  constructor.
  - destruct D1 as [Q1 Q2]. split; [exact Q1|]. intros c Hc d. change (cnb (set_klist _ _) c) with (cnb g c).
    rewrite (Q2 c Hc d). unfold joined. gsu. split.
    + intros [x [Hx M]]. destruct (Pos.eq_dec x k) as [->|Nx].
      * exists k'. split; [apply In_lremove; auto|]. destruct M as [[M1 M2]|[M1 M2]]; destruct Je as [[J1 J2]|[J1 J2]]; rewrite J1, J2; auto.
      * exists x. split; [apply In_lremove; auto|exact M].
    + intros [x [Hx M]]. apply lremove_incl in Hx. exists x. auto.
  - intros c Hc. exact (D2 c Hc).
  - apply (S6_no_layers g); auto.
Qed.

(** ** delete_column *)
(** states that differ only in the connection sets, the connection dictionary and the connection list *)
Definition same_but_conns (g g' : geo) : Prop :=
  exists C D L N, g' = set_cnbr (set_klist (set_kdict (set_ccon g C) D) L) N /\ (fx_nbr (fx g) = false -> N = cnbr g).
Lemma same_but_conns_refl g : same_but_conns g g.
Proof. exists (ccon g), (kdict g), (klist g), (cnbr g). split; reflexivity. Qed.
Lemma same_but_conns_trans g1 g2 g3 : same_but_conns g1 g2 -> same_but_conns g2 g3 -> same_but_conns g1 g3.
Proof.
  intros [C [D [L [N [-> EN]]]]] [C' [D' [L' [N' [-> EN']]]]]. exists C', D', L', N'. split; [reflexivity|].
  intro Fx. rewrite (EN' Fx). gs. exact (EN Fx).
Qed.

Lemma delete_conns_spec ks : forall g g', InvS g -> (forall k, In k ks -> In k (klist g)) -> NoDup ks ->
  delete_conns g ks = Ok g' ->
  InvS g' /\ same_but_conns g g' /\ (forall k, In k (klist g') <-> In k (klist g) /\ ~ In k ks).
Proof.
  induction ks as [|k r IH]; cbn [delete_conns]; intros g g' I Hin ND H.
  - inversion H; subst. split; [exact I|]. split; [apply same_but_conns_refl|]. intro k. cbn. tauto.
  - inversion ND as [|? ? Hk NDr]; subst.
    destruct (delete_connection g (kkey g k)) as [g1|] eqn:E; cbn [bind] in H; [|discriminate].
    pose proof (delete_connection_invS g _ g1 I E) as I1.
    destruct (delete_connection_closed_any g _ g1 E) as [k' [N [Ek' [_ [Hk' [Eg1 EN]]]]]].
    assert (k' = k).
    { assert (X : kget g (kkey g k) = Some k).
      { unfold kget. apply (DL_aget_name key2_eqb key2_spec (kkey g) (klist g) (kdict g)); [apply I|apply Hin; left; reflexivity]. }
      congruence. }
    subst k'.
    unfold dk_base in Eg1.
    assert (S1 : same_but_conns g g1) by (rewrite Eg1; eexists _, _, _, _; split; [reflexivity|exact EN]).
    assert (Kl : klist g1 = lremove (klist g) k) by (rewrite Eg1; reflexivity).
    pose proof (dl_nodup _ _ _ (i_s1k g I)) as NDk.
    destruct (IH g1 g' I1) as [I' [S' K']]; [|exact NDr|exact H|].
    + intros x Hx. rewrite Kl. apply In_lremove; [exact NDk|]. split; [apply Hin; right; exact Hx|]. intros ->. contradiction.
    + split; [exact I'|]. split; [eapply same_but_conns_trans; eauto|].
      intro x. rewrite K', Kl, (In_lremove _ _ _ NDk). cbn. split.
      * intros [[A B] C]. split; [exact A|]. intros [X|X]; [congruence|contradiction].
      * intros [A B]. split; [split; [exact A|]|]; intro X; apply B; auto.
Qed.

(** closed forms of the two loops over the neighbours and the nodes of the deleted column *)
Lemma nbrs_forget_closed ds : forall g c g', nbrs_forget g ds c = Ok g' -> exists m, removeall (cnbr g) ds c = Ok m /\ g' = set_cnbr g m.
Proof.
  induction ds as [|d r IH]; cbn [nbrs_forget removeall]; intros g c g' H.
  - inversion H; subst g'. exists (cnbr g). auto.
  - unfold nbr_remove in H. unfold cnb in H. destruct (sremove (fget [] (cnbr g) d) c) as [s|] eqn:E; cbn [bind] in H; [|discriminate].
    destruct (IH _ _ _ H) as [m [A ->]]. exists m. cbn [bind]. split; [exact A|reflexivity].
Qed.
Lemma nodes_forget_closed ns : forall g c g', nodes_forget g ns c = Ok g' -> exists m, removeall (ncol g) ns c = Ok m /\ g' = set_ncol g m.
Proof.
  induction ns as [|d r IH]; cbn [nodes_forget removeall]; intros g c g' H.
  - inversion H; subst g'. exists (ncol g). auto.
  - unfold ncol_remove in H. unfold ncs in H. destruct (sremove (fget [] (ncol g) d) c) as [s|] eqn:E; cbn [bind] in H; [|discriminate].
    destruct (IH _ _ _ H) as [m [A ->]]. exists m. cbn [bind]. split; [exact A|reflexivity].
Qed.

Lemma delete_column_core g name g' : InvS g -> delete_column g name = Ok g' ->
  InvS g' /\ (fx_nbr (fx g) = false -> S3b g -> S3b g') /\ (S5n g -> S5n g') /\ (llist g = [] -> S6 g -> S6 g').
Proof.
  intros IS H. unfold delete_column in H. destruct (cget g name) as [c|] eqn:E; [|discriminate].
  destruct (delete_conns g (filter (col_in_conn g c) (klist g))) as [g1|] eqn:E1; cbn [bind] in H; [|discriminate].
  assert (X1 : forall k, In k (filter (col_in_conn g c) (klist g)) -> In k (klist g)) by (intros k Hk; apply filter_In in Hk; apply Hk).
  assert (X2 : NoDup (filter (col_in_conn g c) (klist g))) by (apply NoDup_filter; apply (dl_nodup _ _ _ (i_s1k g IS))).
  destruct (delete_conns_spec _ g g1 IS X1 X2 E1) as [I1 [[C [D [L [NB [Eg1 EN]]]]] K1]]. clear X1 X2.
  destruct (nbrs_forget g1 (cnb g1 c) c) as [g2|] eqn:E2; cbn [bind] in H; [|discriminate].
  destruct (nbrs_forget_closed _ _ _ _ E2) as [mb [Rb Eg2]].
  destruct (nodes_forget g2 (cns g2 c) c) as [g3|] eqn:E3; cbn [bind] in H; [|discriminate].
  destruct (nodes_forget_closed _ _ _ _ E3) as [mn [Rn Eg3]].
  revert H. gs. destruct (mem c (clist g3)) eqn:M; [|discriminate]. intro H. inversion H; subst g'; clear H.
  (* facts about the deleted column *)
  destruct (s1_cget g name c (i_s1 g IS) E) as [Hc Hname].
  assert (Ecns : cns g2 c = cns g c) by (rewrite Eg2, Eg1; reflexivity).
  rewrite Ecns in Rn.
  assert (Encol : ncol g2 = ncol g) by (rewrite Eg2, Eg1; reflexivity). rewrite Encol in Rn.
  destruct (removeall_ok _ _ _ _ (proj1 (i_s5p g IS c Hc)) Rn) as [_ Fn].
  (* no remaining connection involves c *)
  assert (Kc : forall k, In k (klist g1) -> In k (klist g) /\ k0 g k <> c /\ k1 g k <> c).
  { intros k Hk. apply K1 in Hk. destruct Hk as [A B]. split; [exact A|].
    assert (X : col_in_conn g c k = false).
    { destruct (col_in_conn g c k) eqn:Y; [|reflexivity]. exfalso. apply B. apply filter_In. auto. }
    unfold col_in_conn in X. apply orb_false_elim in X. destruct X as [X1 X2].
    apply Pos.eqb_neq in X1. apply Pos.eqb_neq in X2. auto. }
  assert (Kc' : forall k, In k (klist g) -> k0 g k <> c -> k1 g k <> c -> In k (klist g1)).
  { intros k Hk A B. apply K1. split; [exact Hk|]. intro X. apply filter_In in X. destruct X as [_ X].
    unfold col_in_conn in X. apply orb_prop in X. destruct X as [X|X]; apply Pos.eqb_eq in X; congruence. }
  pose proof (dl_nodup _ _ _ (s1_c g (i_s1 g IS))) as NDc.
  assert (Lc : forall x, In x (lremove (clist g) c) <-> In x (clist g) /\ x <> c) by (intro x; apply In_lremove; exact NDc).
  pose proof (i_s1 g IS) as P1g.
  destruct I1 as [F1 P1 P1k P2 P3 P4 P5].
  clear E2 E3 M Ecns Encol E1. subst g3 g2 g1. gs.
  split; [constructor|split; [|split]].
  - destruct F1 as [A1 [A2 [A3 [A4 A5]]]]. unfold Fr in *. gs. repeat split; try assumption.
    intros x Hx. apply lremove_incl in Hx. auto.
  - destruct P1 as [Dn [Dc [Dl Dw]]]. split; [|split; [|split]]; try assumption.
    apply (DL_del str_eqb str_spec (cn g)); assumption.
  - exact P1k.
  - destruct P2 as [Q1 [Q2 Q3]]. unfold S2 in *. gsu. split; [|split].
    + intros c' Hc' n Hn. apply lremove_incl in Hc'. exact (Q1 c' Hc' n Hn).
    + intros n Hn. rewrite Fn. destruct (mem n _); [apply NoDup_lremove|]; exact (Q2 n Hn).
    + intros n Hn c'. rewrite Fn, Lc. match goal with |- context [mem ?a ?b] => destruct (mem a b) eqn:Mn end.
      * rewrite (In_lremove _ _ _ (Q2 n Hn)), (Q3 n Hn c'). tauto.
      * apply mem_false in Mn. rewrite (Q3 n Hn c'). split; [|tauto]. intros [A B]. split; [split; [exact A|]|exact B].
        intros ->. contradiction.
  - destruct P3 as [Q1 [Q2 Q3]]. unfold S3a in *. gsu. split; [|split].
    + intros k Hk. destruct (Q1 k Hk) as [A [B N]]. destruct (Kc k Hk) as [_ [Na Nb]]. ua.
      split; [apply Lc; auto|]. split; [apply Lc; auto|exact N].
    + intros c' Hc'. apply lremove_incl in Hc'. exact (Q2 c' Hc').
    + intros c' Hc'. apply lremove_incl in Hc'. exact (Q3 c' Hc').
  - exact P4.
  - intros c' Hc'. revert Hc'. gsu. intro Hc'. apply lremove_incl in Hc'. exact (P5 c' Hc').
  - intros Fx [Qb1 Qb2]. pose proof (EN Fx) as ENx. subst NB. destruct (removeall_ok _ _ _ _ (Qb1 c Hc) Rb) as [_ Fb].
    unfold S3b. gsu. split.
    + intros d Hd. apply lremove_incl in Hd. rewrite Fb. destruct (mem d _); [apply NoDup_lremove|]; exact (Qb1 d Hd).
    + intros d Hd e. apply Lc in Hd. destruct Hd as [Hd Nd]. rewrite Fb.
      assert (J : joined (set_cnbr (set_klist (set_kdict (set_ccon g C) D) L) (cnbr g)) d e <-> joined g d e /\ e <> c).
      { unfold joined. gs. split.
        - intros [k [Hk Mk]]. destruct (Kc k Hk) as [A [Na Nb]]. split; [exists k; auto|].
          intros ->. destruct Mk as [[_ X]|[X _]]; contradiction.
        - intros [[k [Hk Mk]] Ne]. exists k. split; [|exact Mk]. apply Kc'; [exact Hk| |];
            intros X; ua; destruct Mk as [[X1 X2]|[X1 X2]]; congruence. }
      unfold joined in J. gsu. rewrite J. clear J.
      pose proof (Qb2 d Hd) as Qd. pose proof (Qb2 c Hc) as Qc. unfold joined in Qd, Qc. ua.
      match goal with |- context [mem ?a ?b] => destruct (mem a b) eqn:Md end.
      * rewrite (In_lremove _ _ _ (Qb1 d Hd)), (Qd e). tauto.
      * apply mem_false in Md. rewrite (Qd e). split; [|tauto]. intros X. split; [exact X|]. intros ->.
        apply Md. apply Qc. destruct X as [k [Hk Mk]]. exists k. split; [exact Hk|tauto].
  - intros D2 c' Hc'. revert Hc'. gsu. intro Hc'. apply lremove_incl in Hc'. exact (D2 c' Hc').
  - intros Hlay D3. apply (S6_no_layers g); auto.
Qed.

Theorem delete_column_invS g name g' : InvS g -> delete_column g name = Ok g' -> InvS g'.
Proof. intros I H. exact (proj1 (delete_column_core g name g' I H)). Qed.
Theorem delete_column_inv g name g' : fx_nbr (fx g) = false -> Inv g -> llist g = [] -> delete_column g name = Ok g' -> Inv g'.
Proof.
  intros Fx [IS [D1 D2 D3]] Hlay H. destruct (delete_column_core g name g' IS H) as [A [B [C D]]].
  constructor; [exact A|constructor; auto].
Qed.

(** closed form of a successful delete_column: only the connection sets / dictionary / list, the
    neighbour sets, the nodes' column sets and the column dictionary / list change *)
Lemma delete_column_closed g name g' : InvS g -> delete_column g name = Ok g' ->
  exists C D L mb mn cd cl_, g' = set_clist (set_cdict (set_ncol (set_cnbr (set_klist (set_kdict (set_ccon g C) D) L) mb) mn) cd) cl_ /\
    (forall k, In k L -> In k (klist g)) /\ (forall c, In c cl_ -> In c (clist g)).
Proof.
  intros IS H. unfold delete_column in H. destruct (cget g name) as [c|] eqn:E; [|discriminate].
  destruct (delete_conns g (filter (col_in_conn g c) (klist g))) as [g1|] eqn:E1; cbn [bind] in H; [|discriminate].
  assert (X1 : forall k, In k (filter (col_in_conn g c) (klist g)) -> In k (klist g)) by (intros k Hk; apply filter_In in Hk; apply Hk).
  assert (X2 : NoDup (filter (col_in_conn g c) (klist g))) by (apply NoDup_filter; apply (dl_nodup _ _ _ (i_s1k g IS))).
  destruct (delete_conns_spec _ g g1 IS X1 X2 E1) as [I1 [[C [D [L [N [Eg1 EN]]]]] K1]]. clear X1 X2.
  destruct (nbrs_forget g1 (cnb g1 c) c) as [g2|] eqn:E2; cbn [bind] in H; [|discriminate].
  destruct (nbrs_forget_closed _ _ _ _ E2) as [mb [Rb Eg2]].
  destruct (nodes_forget g2 (cns g2 c) c) as [g3|] eqn:E3; cbn [bind] in H; [|discriminate].
  destruct (nodes_forget_closed _ _ _ _ E3) as [mn [Rn Eg3]].
  revert H. gs. destruct (mem c (clist g3)) eqn:M; [|discriminate]. intro H. inversion H; subst g'; clear H.
  exists C, D, L, mb, mn, (adel str_eqb (cdict g3) name), (lremove (clist g3) c).
  subst g3 g2. split; [rewrite Eg1; reflexivity|]. split.
  - intros k Hk. assert (Y : In k (klist g1)) by (rewrite Eg1; exact Hk). apply K1 in Y. apply Y.
  - intros x Hx. apply lremove_incl in Hx. rewrite Eg1 in Hx. exact Hx.
Qed.

(** ** the repaired source ([fx_nbr = true]): delete_connection forgets the two columns as neighbours
    unless another connection still joins them, so the neighbour sets stay exact *)
Lemma still_joined_iff g a b : S3a g -> In a (clist g) -> In b (clist g) -> a <> b -> (still_joined g a b = true <-> joined g a b).
Proof.
  intros S Ha Hb Nab. unfold still_joined. rewrite existsb_exists. split.
  - intros [k [Hka Hkb]]. apply mem_In in Hkb. apply (s3_ex g S a Ha k) in Hka. apply (s3_ex g S b Hb k) in Hkb.
    destruct Hka as [Hk Ma]. destruct Hkb as [_ Mb]. exists k. split; [exact Hk|].
    destruct Ma as [Ma|Ma]; destruct Mb as [Mb|Mb]; try (exfalso; apply Nab; congruence); [left|right]; split; assumption.
  - intros [k [Hk M]]. exists k. split; [apply (proj2 (s3_ex g S a Ha k))|apply mem_In; apply (proj2 (s3_ex g S b Hb k))]; (split; [exact Hk|]); destruct M as [[M0 M1]|[M0 M1]]; auto.
Qed.
Lemma delete_connection_closed_repaired g key g' : fx_nbr (fx g) = true -> delete_connection g key = Ok g' ->
  exists k, kget g key = Some k /\ In k (klist g) /\
    g' = (if still_joined (dk_base g key k) (k0 g k) (k1 g k) then dk_base g key k
          else nbr_discard (nbr_discard (dk_base g key k) (k0 g k) (k1 g k)) (k1 g k) (k0 g k)).
Proof.
  intros Fx H. unfold delete_connection in H. destruct (kget g key) as [k|] eqn:E; [|discriminate]. exists k. split; [reflexivity|].
  destruct (ccon_remove g (k0 g k) k) as [g1|] eqn:R1; cbn [bind] in H; [|discriminate].
  apply ccon_remove_ok in R1. destruct R1 as [In1 ->].
  match type of H with context [ccon_remove ?G ?c ?x] => destruct (ccon_remove G c x) as [g2|] eqn:R2 end; cbn [bind] in H; [|discriminate].
  apply ccon_remove_ok in R2. destruct R2 as [_ ->]. revert H. gs. rewrite Fx.
  destruct (mem k (klist g)) eqn:M; [|discriminate]. apply mem_In in M. intro H. inversion H as [Eg]. split; [exact M|]. reflexivity.
Qed.
Lemma delete_connection_S3b_repaired g key g' : fx_nbr (fx g) = true -> InvS g -> S3b g -> delete_connection g key = Ok g' -> S3b g'.
Proof.
  intros Fx IS [Q1 Q2] H. destruct (delete_connection_closed_repaired g key g' Fx H) as [k [E [M Eg]]]. clear H. revert Eg.
  pose proof (dk_base_invS g key k IS E M) as IB. set (gb := dk_base g key k) in *.
  set (a := k0 g k) in *. set (b := k1 g k) in *.
  destruct (s3_ends g (i_s3a g IS) k M) as [Ha Hb]. pose proof (s3_neq g (i_s3a g IS) k M) as Nab. fold a b in Ha, Hb, Nab.
  pose proof (dl_nodup _ _ _ (i_s1k g IS)) as NDk.
  assert (Jb : forall c d, joined gb c d <-> exists k', In k' (klist g) /\ k' <> k /\ ((k0 g k' = c /\ k1 g k' = d) \/ (k0 g k' = d /\ k1 g k' = c))).
  { intros c d. unfold joined, gb, dk_base. gs. change (k0 (set_klist _ _)) with (k0 g). change (k1 (set_klist _ _)) with (k1 g).
    split; intros [k' X]; exists k'; [destruct X as [X Y]; apply (In_lremove _ _ _ NDk) in X; tauto|destruct X as [X [Y Z]]; split; [apply (In_lremove _ _ _ NDk); tauto|exact Z]]. }
  assert (Jg : forall c d, joined g c d <-> joined gb c d \/ ((c = a /\ d = b) \/ (c = b /\ d = a))).
  { intros c d. rewrite Jb. unfold joined. split.
    - intros [k' [Hk' X]]. destruct (Pos.eq_dec k' k) as [->|Nk]; [right; destruct X as [[X0 X1]|[X0 X1]]; [left|right]; split; symmetry; assumption|left; exists k'; tauto].
    - intros [[k' [Hk' [_ X]]]|X]; [exists k'; tauto|exists k; split; [exact M|destruct X as [[X0 X1]|[X0 X1]]; [left|right]; split; symmetry; assumption]]. }
  assert (Ecl : clist gb = clist g) by reflexivity.
  assert (Ecb : forall x, cnb gb x = cnb g x) by reflexivity.
  destruct (still_joined gb a b) eqn:SJ; intro H; subst g'.
  - apply (still_joined_iff gb a b (i_s3a gb IB)) in SJ; [|rewrite Ecl; assumption..|exact Nab].
    assert (SJ' : joined gb b a) by (destruct SJ as [k' [X Y]]; exists k'; split; [exact X|tauto]).
    split; [exact Q1|].
    intros c Hc d. change (In d (cnb g c) <-> joined gb c d). rewrite (Q2 c Hc d), Jg. split; [|tauto]. intros [X|[[-> ->]|[-> ->]]]; assumption.
  - assert (NJ : ~ joined gb a b) by (intro X; apply (still_joined_iff gb a b (i_s3a gb IB)) in X; [congruence|rewrite Ecl; assumption..|exact Nab]).
    assert (NJ' : ~ joined gb b a) by (intro X; apply NJ; destruct X as [k' [X Y]]; exists k'; split; [exact X|tauto]).
    set (MM := fset (fset (cnbr g) a (sdiscard (cnb g a) b)) b (sdiscard (fget [] (fset (cnbr g) a (sdiscard (cnb g a) b)) b) a)).
    assert (EG : forall c, cnb (nbr_discard (nbr_discard gb a b) b a) c = fget [] MM c) by reflexivity.
    assert (Cn : forall c d, In d (fget [] MM c) <-> In d (cnb g c) /\ ~ ((c = a /\ d = b) \/ (c = b /\ d = a))).
    { intros c d. unfold MM. rewrite fget_fset. destruct (Pos.eqb_spec c b) as [->|Ncb].
      - rewrite fget_fset_neq by (intro X; apply Nab; symmetry; exact X). fold (cnb g b).
        rewrite (In_sdiscard _ _ _ (Q1 b Hb)). split; [intros [X Y]; split; [exact X|intros [[Z _]|[_ Z]]; [apply Nab; symmetry; exact Z|exact (Y Z)]]|].
        intros [X Y]. split; [exact X|]. intro Z. apply Y. right. split; [reflexivity|exact Z].
      - rewrite fget_fset. destruct (Pos.eqb_spec c a) as [->|Nca].
        + rewrite (In_sdiscard _ _ _ (Q1 a Ha)). split; [intros [X Y]; split; [exact X|intros [[_ Z]|[Z _]]; [exact (Y Z)|exact (Nab Z)]]|].
          intros [X Y]. split; [exact X|]. intro Z. apply Y. left. split; [reflexivity|exact Z].
        + fold (cnb g c). split; [intro X; split; [exact X|intros [[Z _]|[Z _]]; contradiction]|tauto]. }
    split.
    + intros c Hc. rewrite EG. unfold MM. rewrite fget_fset. destruct (Pos.eqb_spec c b) as [->|Ncb].
      * apply NoDup_sdiscard. rewrite fget_fset_neq by (intro X; apply Nab; symmetry; exact X). exact (Q1 b Hb).
      * rewrite fget_fset. destruct (Pos.eqb_spec c a) as [->|Nca]; [apply NoDup_sdiscard; exact (Q1 a Ha)|exact (Q1 c Hc)].
    + intros c Hc d. rewrite EG, Cn, (Q2 c Hc d). change (joined (nbr_discard (nbr_discard gb a b) b a) c d) with (joined gb c d).
      rewrite Jg. split; [intros [[X|X] Y]; [exact X|contradiction]|].
      intro X. split; [left; exact X|]. intros [[-> ->]|[-> ->]]; contradiction.
Qed.

Lemma S5n_dk g key k N : S5n g -> S5n (set_cnbr (dk_base g key k) N).
Proof. intro D. exact D. Qed.
Theorem delete_connection_inv_repaired g key g' : fx_nbr (fx g) = true -> Inv g -> llist g = [] -> delete_connection g key = Ok g' -> Inv g'.
Proof.
  intros Fx [IS [D1 D2 D3]] Hlay H. constructor; [eapply delete_connection_invS; eauto|].
  pose proof (delete_connection_S3b_repaired g key g' Fx IS D1 H) as D1'.
  destruct (delete_connection_closed_any g key g' H) as [k [N [_ [_ [_ [-> _]]]]]].
  constructor; [exact D1'|apply S5n_dk; exact D2|]. apply (S6_no_layers g); auto. apply IS.
Qed.
Lemma delete_conns_repaired ks : forall g g', fx_nbr (fx g) = true -> InvS g -> S3b g -> delete_conns g ks = Ok g' ->
  S3b g' /\ fx g' = fx g.
Proof.
  induction ks as [|k r IH]; cbn [delete_conns]; intros g g' Fx I D H; [inversion H; subst; auto|].
  destruct (delete_connection g (kkey g k)) as [g1|] eqn:E; cbn [bind] in H; [|discriminate].
  pose proof (delete_connection_invS g _ g1 I E) as I1.
  pose proof (delete_connection_S3b_repaired g _ g1 Fx I D E) as D1.
  destruct (delete_connection_closed_any g _ g1 E) as [k' [N [_ [_ [_ [Eg1 _]]]]]].
  assert (Fx1 : fx g1 = fx g) by (rewrite Eg1; reflexivity).
  destruct (IH g1 g' ltac:(rewrite Fx1; exact Fx) I1 D1 H) as [X Y]. split; [exact X|congruence].
Qed.
(** delete_column in the repaired source: once its connections are gone the column has no neighbour left *)
Lemma delete_column_S3b_repaired g name g' : fx_nbr (fx g) = true -> InvS g -> S3b g -> delete_column g name = Ok g' -> S3b g'.
Proof.
  intros Fx IS D H. unfold delete_column in H. destruct (cget g name) as [c|] eqn:E; [|discriminate].
  destruct (delete_conns g (filter (col_in_conn g c) (klist g))) as [g1|] eqn:E1; cbn [bind] in H; [|discriminate].
  assert (X1 : forall k, In k (filter (col_in_conn g c) (klist g)) -> In k (klist g)) by (intros k Hk; apply filter_In in Hk; apply Hk).
  assert (X2 : NoDup (filter (col_in_conn g c) (klist g))) by (apply NoDup_filter; apply (dl_nodup _ _ _ (i_s1k g IS))).
  destruct (delete_conns_spec _ g g1 IS X1 X2 E1) as [I1 [[C [D' [L [NB [Eg1 _]]]]] K1]].
  destruct (delete_conns_repaired _ g g1 Fx IS D E1) as [D1 _]. clear X1 X2.
  destruct (s1_cget g name c (i_s1 g IS) E) as [Hc Hname].
  assert (Hc1 : In c (clist g1)) by (rewrite Eg1; exact Hc).
  (* no remaining connection involves c, so c has no neighbour *)
  assert (Kc : forall k, In k (klist g1) -> k0 g1 k <> c /\ k1 g1 k <> c).
  { intros k Hk. apply K1 in Hk. destruct Hk as [A B].
    assert (X : col_in_conn g c k = false).
    { destruct (col_in_conn g c k) eqn:Y; [|reflexivity]. exfalso. apply B. apply filter_In. auto. }
    unfold col_in_conn in X. apply orb_false_elim in X. destruct X as [Y1 Y2].
    apply Pos.eqb_neq in Y1. apply Pos.eqb_neq in Y2. rewrite Eg1. auto. }
  assert (Enb : cnb g1 c = []).
  { destruct (cnb g1 c) as [|d r] eqn:Ed; [reflexivity|]. exfalso.
    assert (J : joined g1 c d) by (apply (s3b_ex g1 D1 c Hc1 d); rewrite Ed; left; reflexivity).
    destruct J as [k [Hk M]]. destruct (Kc k Hk) as [A B]. destruct M as [[M _]|[_ M]]; contradiction. }
  rewrite Enb in H. cbn [nbrs_forget bind] in H.
  destruct (nodes_forget g1 (cns g1 c) c) as [g3|] eqn:E3; cbn [bind] in H; [|discriminate].
  destruct (nodes_forget_closed _ _ _ _ E3) as [mn [_ Eg3]].
  revert H. gs. destruct (mem c (clist g3)) eqn:M; [|discriminate]. intro H. inversion H; subst g'; clear H. subst g3.
  destruct D1 as [Q1 Q2]. pose proof (dl_nodup _ _ _ (s1_c g1 (i_s1 g1 I1))) as NDc.
  split.
  - intros d Hd. revert Hd. gs. intro Hd. apply lremove_incl in Hd. exact (Q1 d Hd).
  - intros d Hd e. revert Hd. gs. intro Hd. apply lremove_incl in Hd. exact (Q2 d Hd e).
Qed.
Theorem delete_column_inv_repaired g name g' : fx_nbr (fx g) = true -> Inv g -> llist g = [] -> delete_column g name = Ok g' -> Inv g'.
Proof.
  intros Fx [IS [D1 D2 D3]] Hlay H. destruct (delete_column_core g name g' IS H) as [A [_ [C D]]].
  constructor; [exact A|]. constructor; [eapply delete_column_S3b_repaired; eauto|auto|auto].
Qed.

(** either source variant *)
Theorem delete_column_inv_any g name g' : Inv g -> llist g = [] -> delete_column g name = Ok g' -> Inv g'.
Proof.
  intros I Hlay H. destruct (fx_nbr (fx g)) eqn:Fx; [eapply delete_column_inv_repaired|eapply delete_column_inv]; eauto.
Qed.
Theorem delete_connection_inv_any g key g' : Inv g -> (fx_nbr (fx g) = true \/ joined_otherwise g key) -> llist g = [] ->
  delete_connection g key = Ok g' -> Inv g'.
Proof.
  intros I J Hlay H. destruct (fx_nbr (fx g)) eqn:Fx; [eapply delete_connection_inv_repaired; eauto|].
  destruct J as [J|J]; [discriminate|]. eapply delete_connection_inv; eauto.
Qed.
