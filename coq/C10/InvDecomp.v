(** C10 -- subdivide_column, triangulate_column, decompose_column(s): the new node, the new columns and
    (for decompose_columns) the new connections keep the object graph consistent, the neighbour sets and
    the layer counts; decompose_columns, which ends with the two name-list set-ups, keeps the whole
    invariant. *)
From Coq Require Import Ascii String List Bool PArith NArith ZArith QArith FMapPositive Permutation Lia.
From PTBase Require Import Exn PyStr.
From P Require Import Assoc GeoState GeoEdit GeoEdit2 Inv InvNames InvSimple Sets InvCol InvConn InvDel InvRefresh InvRename InvCompound InvSplit2.
Import ListNotations.
Open Scope list_scope.

(** everything but the name lists *)
Definition InvM (g : geo) : Prop := InvS g /\ S3b g /\ S5n g.
Lemma invM_inv g : Inv g -> InvM g.
Proof. intros [IS [D1 D2 D3]]. split; [|split]; assumption. Qed.
(** the object graph, and -- when [P] holds -- the neighbour sets and the layer counts: [P := True] gives
    [InvM], [P := False] gives [InvS] (states whose derived data is stale) *)
Definition InvMp (P : Prop) (g : geo) : Prop := InvS g /\ (P -> S3b g /\ S5n g).
Lemma invMp_true g : InvMp True g <-> InvM g.
Proof. unfold InvMp, InvM. split; [intros [A B]; destruct (B I); auto|intros [A [B C]]; auto]. Qed.
Lemma invMp_false g : InvMp False g <-> InvS g.
Proof. unfold InvMp. split; [intros [A _]; exact A|intro A; split; [exact A|intros []]]. Qed.

(** [g] still has the nodes and columns of [g0], unchanged (it may have more) *)
Record keeps (g0 g : geo) : Prop := {
  kp_n : forall n, In n (nlist g0) -> In n (nlist g) /\ nn g n = nn g0 n;
  kp_c : forall c, In c (clist g0) -> In c (clist g) /\ cns g c = cns g0 c /\ cn g c = cn g0 c /\ cs g c = cs g0 c /\
                                      cl g c = cl g0 c /\ cc g c = cc g0 c;
  kp_fx : fx g = fx g0 }.
Lemma keeps_refl g : keeps g g.
Proof. constructor; auto 10. Qed.
Lemma keeps_trans g1 g2 g3 : keeps g1 g2 -> keeps g2 g3 -> keeps g1 g3.
Proof.
  intros [A1 B1 C1] [A2 B2 C2]. constructor.
  - intros n Hn. destruct (A1 n Hn) as [X Y]. destruct (A2 n X) as [X' Y']. split; [exact X'|congruence].
  - intros c Hc. destruct (B1 c Hc) as [X [Y1 [Y2 [Y3 [Y4 Y5]]]]]. destruct (B2 c X) as [X' [Z1 [Z2 [Z3 [Z4 Z5]]]]].
    split; [exact X'|]. repeat split; congruence.
  - congruence.
Qed.
Lemma keeps_add_node g n p : Fr g -> keeps g (add_node g n p).
Proof.
  intro F. pose proof (agree_new_node g n p F) as A. unfold add_node, add_node_obj.
  assert (K : keeps g (new_node g n p)).
  { constructor.
    - intros x Hx. split; [exact Hx|exact (agree_nn g _ A x Hx)].
    - intros c Hc. destruct (a_c _ _ A c Hc) as [X1 [X2 [X3 [X4 [X5 [X6 X7]]]]]]. split; [exact Hc|]. auto 10.
    - reflexivity. }
  destruct (nget _ _); [exact K|]. destruct K as [K1 K2 K3]. constructor.
  - intros x Hx. destruct (K1 x Hx) as [X Y]. split; [gsg; apply in_snoc; left; exact X|exact Y].
  - exact K2.
  - exact K3.
Qed.

Lemma last_opt_snoc {A} (l : list A) x : last_opt (l ++ [x]) = Some x.
Proof. unfold last_opt. rewrite rev_app_distr. reflexivity. Qed.

(** ** one new column on nodes of the geometry, with the surface and the layer count of column [c] *)
Lemma new_col_surf g name ns ce surf : cs (new_col g name ns ce surf) (next g) = surf.
Proof. unfold new_col. gsu. rewrite fget_fset_eq. reflexivity. Qed.

Lemma sub_step (P : Prop) g c name ns : InvMp P g -> In c (clist g) -> cget g name = None ->
  (forall n, In n ns -> In n (nlist g)) -> NoDup ns -> (3 <= length ns)%nat ->
  let g1 := add_column_obj (new_col g name ns None (cs g c)) (next g) in
  let g2 := set_cnl g1 (fset (cnl g1) (next g) (cl g1 c)) in
  last_opt (clist g1) = Some (next g) /\ InvMp P g2 /\ In c (clist g2) /\ cns g2 c = cns g c /\ cs g2 c = cs g c /\
  nlist g2 = nlist g /\ fx g2 = fx g /\ cc g2 c = cc g c /\ klist g2 = klist g /\ keeps g g2 /\ next g2 = Pos.succ (next g) /\
  (forall x, In x (clist g2) <-> In x (clist g) \/ x = next g) /\ (forall n, In n (cns g2 (next g)) <-> In n ns).
Proof.
  intros [IS HD] Hc Fresh Hin ND Len. cbv zeta.
  pose proof (i_fr g IS) as F.
  destruct (new_col_facts g name ns None (cs g c)) as [Ecns [Ecn [Enb [Eks Ecl]]]].
  pose proof (new_col_surf g name ns None (cs g c)) as Esf.
  pose proof (agree_new_col g name ns None (cs g c) F) as A.
  set (gn := new_col g name ns None (cs g c)) in *.
  assert (Enl : nlist gn = nlist g) by reflexivity. assert (Enx : next gn = Pos.succ (next g)) by reflexivity.
  assert (Ecg : cget gn name = cget g name) by reflexivity. assert (Efx : fx gn = fx g) by reflexivity. assert (Ekl : klist gn = klist g) by reflexivity.
  clearbody gn.
  assert (ISn : InvS gn) by (apply (agree_InvS g); assumption).
  assert (D1n : P -> S3b gn) by (intro HP; apply (agree_S3b g); [assumption|apply HD; exact HP]).
  assert (D2n : P -> S5n gn) by (intro HP; apply (agree_S5n g); [assumption|apply HD; exact HP]).
  assert (Ecl' : clist gn = clist g) by exact (a_clist _ _ A).
  assert (Hnew : ~ In (next g) (clist gn)).
  { rewrite Ecl'. intro Y. apply (fr_c g F) in Y. lia. }
  assert (Ncn : c <> next g) by (intros ->; apply Hnew; rewrite Ecl'; exact Hc).
  assert (Hmem : forall n, In n (cns gn (next g)) <-> In n ns).
  { intro n. rewrite Ecns. destruct (qltb _ _); [symmetry; apply in_rev|reflexivity]. }
  assert (IS1 : InvS (add_column_obj gn (next g))).
  { apply add_column_obj_invS; try assumption.
    - rewrite Enx. lia.
    - intros n Hn. apply Hmem in Hn. rewrite Enl. exact (Hin n Hn).
    - rewrite Ecns. destruct (qltb _ _); [apply NoDup_rev|]; exact ND.
    - rewrite Ecns. destruct (qltb _ _); [rewrite rev_length|]; exact Len. }
  (* closed form *)
  assert (Eg1 : add_column_obj gn (next g) =
                set_ncol (set_cdict (set_clist gn (clist gn ++ [next g])) (aset str_eqb (cdict gn) name (next g)))
                         (addall (ncol gn) (cns gn (next g)) (next g))).
  { unfold add_column_obj. rewrite Ecn, Ecg, Fresh. cbv zeta. rewrite fold_ncol_add. reflexivity. }
  rewrite Eg1 in *. clear Eg1.
  set (g1 := set_ncol _ _) in *.
  assert (Hk : forall k, In k (klist gn) -> k0 gn k <> next g /\ k1 gn k <> next g).
  { intros k Hk. destruct (s3_ends gn (i_s3a gn ISn) k Hk) as [X Y]. split; intros Z; rewrite Z in *; contradiction. }
  split; [unfold g1; gsg; rewrite Ecl'; apply last_opt_snoc|].
  split; [split; [apply invS_set_cnl; exact IS1|intro HP; specialize (D1n HP); specialize (D2n HP); destruct (HD HP) as [_ D2]; split]|].
  - (* neighbours *)
    destruct D1n as [Q1 Q2]. unfold S3b, joined, g1. gsu. split.
    + intros c' Hc'. apply in_snoc in Hc'. destruct Hc' as [Hc'| ->]; [exact (Q1 c' Hc')|].
      rewrite Enb. constructor.
    + intros c' Hc' d. apply in_snoc in Hc'. destruct Hc' as [Hc'| ->]; [exact (Q2 c' Hc' d)|].
      rewrite Enb. split; [intros []|].
      intros [k [X Y]]. destruct (Hk k X) as [Z1 Z2]. ua. destruct Y as [[Y _]|[_ Y]]; contradiction.
  - (* layer counts *)
    intros c' Hc'. change (count_layers (set_cnl g1 ?m) ?s) with (count_layers gn s).
    unfold g1 in Hc'. revert Hc'. gsg. intro Hc'. apply in_snoc in Hc'. unfold cs, cl, g1. gsg.
    destruct Hc' as [Hc'| ->].
    + rewrite fget_fset_neq by (intros ->; contradiction). exact (D2n c' Hc').
    + rewrite fget_fset_eq. change (fget None (csurf gn) (next g)) with (cs gn (next g)). rewrite Esf.
      rewrite (agree_count_layers g gn A). change (fget 0%Z (cnl gn) c) with (cl gn c).
      rewrite (agree_cl g gn A c Hc). exact (D2 c Hc).
  - unfold g1. gsg. rewrite Ecl'. split; [apply in_snoc; left; exact Hc|].
    split; [exact (agree_cns g gn A c Hc)|]. split; [exact (agree_cs g gn A c Hc)|].
    split; [exact Enl|]. split; [exact Efx|]. split; [exact (proj2 (proj2 (proj2 (proj2 (proj2 (proj2 (a_c _ _ A c Hc)))))))|]. split; [exact Ekl|].
    split; [|split; [exact Enx|split; [intro x; apply in_snoc|exact Hmem]]]. constructor.
    + intros x Hx. gsg. split; [rewrite Enl; exact Hx|exact (agree_nn g gn A x Hx)].
    + intros c' Hc'. assert (Nc' : c' <> next g) by (intros ->; apply Hnew; rewrite Ecl'; exact Hc').
      destruct (a_c _ _ A c' Hc') as [X1 [X2 [X3 [X4 [X5 [X6 X7]]]]]].
      gsg. split; [apply in_snoc; left; exact Hc'|]. split; [exact X2|]. split; [exact X1|]. split; [exact X6|].
      split; [|exact X7]. unfold cl. gsg. rewrite fget_fset_neq by exact Nc'. exact X5.
    + exact Efx.
Qed.

(** ** the nodes of a new column: distinct corners of the old one (by position) and the centre node *)
Section Resolve.
  Variables (nodes : list id) (i0 : nat) (cen : option id).
  Definition dval (v : dvtx) : res id :=
    match v with
    | Dc i => Ok (nth ((i0 + i) mod length nodes) nodes 1%positive)
    | Dcen => match cen with Some x => Ok x | None => Raise KeyError end
    end.
  Definition dkey (n : nat) (v : dvtx) : option nat := match v with Dc i => Some ((i0 + i) mod n) | Dcen => None end.
  Hypothesis ND : NoDup nodes.
  Hypothesis Len : (0 < length nodes)%nat.
  Hypothesis Cen : forall x, cen = Some x -> ~ In x nodes.

  Lemma dval_in v a : dval v = Ok a -> In a nodes \/ cen = Some a.
  Proof.
    destruct v as [i|]; cbn [dval]; intro H.
    - inversion H; subst a. left. apply nth_In. apply Nat.mod_upper_bound. lia.
    - destruct cen as [x|]; [|discriminate]. inversion H; subst. auto.
  Qed.
  Lemma dval_inj v w a : dval v = Ok a -> dval w = Ok a -> dkey (length nodes) v = dkey (length nodes) w.
  Proof.
    intros Hv Hw. destruct v as [i|], w as [j|]; cbn [dval dkey] in *.
    - inversion Hv as [Ev]. inversion Hw as [Ew]. f_equal.
      apply (proj1 (NoDup_nth nodes 1%positive) ND); [apply Nat.mod_upper_bound; lia..|congruence].
    - exfalso. inversion Hv as [Ev]. destruct cen as [x|] eqn:Ec; [|discriminate]. inversion Hw; subst x.
      apply (Cen a eq_refl). rewrite <- Ev. apply nth_In. apply Nat.mod_upper_bound. lia.
    - exfalso. inversion Hw as [Ew]. destruct cen as [x|] eqn:Ec; [|discriminate]. inversion Hv; subst x.
      apply (Cen a eq_refl). rewrite <- Ew. apply nth_In. apply Nat.mod_upper_bound. lia.
    - reflexivity.
  Qed.
  Lemma mapM_in {A B} (f : A -> res B) l : forall bs, mapM f l = Ok bs -> forall b, In b bs -> exists a, In a l /\ f a = Ok b.
  Proof.
    induction l as [|a r IH]; intros bs H b Hb; cbn [mapM] in H.
    - inversion H; subst. destruct Hb.
    - destruct (f a) as [x|] eqn:E; cbn [bind] in H; [|discriminate].
      destruct (mapM f r) as [xs|] eqn:Er; cbn [bind] in H; [|discriminate]. inversion H; subst bs.
      destruct Hb as [<-|Hb]; [exists a; split; [left; reflexivity|exact E]|].
      destruct (IH xs eq_refl b Hb) as [a' [X Y]]. exists a'. split; [right; exact X|exact Y].
  Qed.
  Lemma mapM_dval sub : forall ns, NoDup (map (dkey (length nodes)) sub) -> mapM dval sub = Ok ns ->
    NoDup ns /\ length ns = length sub /\ forall a, In a ns -> In a nodes \/ cen = Some a.
  Proof.
    induction sub as [|v r IH]; intros ns Hk H; cbn [mapM] in H.
    - inversion H; subst. split; [constructor|]. split; [reflexivity|intros a []].
    - destruct (dval v) as [x|] eqn:E; cbn [bind] in H; [|discriminate].
      destruct (mapM dval r) as [xs|] eqn:Er; cbn [bind] in H; [|discriminate]. inversion H; subst ns.
      cbn [map] in Hk. inversion Hk as [|? ? Hnotin Hk']; subst.
      destruct (IH xs Hk' eq_refl) as [A [B C]]. split; [|split].
      + constructor; [|exact A]. intro X. destruct (mapM_in dval r xs Er x X) as [w [Hw Ew]].
        apply Hnotin. rewrite (dval_inj v w x E Ew). apply in_map. exact Hw.
      + cbn. rewrite B. reflexivity.
      + intros a [Ea|Ha]; [subst a; exact (dval_in v x E)|exact (C a Ha)].
  Qed.
End Resolve.

(** every sub-column names at least three different vertices *)
Definition subs_ok (n i0 : nat) (subs : list (list dvtx)) : Prop :=
  Forall (fun sub => (3 <= length sub)%nat /\ NoDup (map (dkey i0 n) sub)) subs.

(** ** the loop over the column definitions *)
Lemma sub_columns_d_invM (P : Prop) c i0 cen nodes subs : forall g colnum acc g' names,
  InvMp P g -> In c (clist g) -> cns g c = nodes ->
  (forall x, cen = Some x -> In x (nlist g) /\ ~ In x nodes) ->
  subs_ok (length nodes) i0 subs ->
  sub_columns_d g c i0 cen subs colnum acc = Ok (g', names) ->
  InvMp P g' /\ In c (clist g') /\ fx g' = fx g.
Proof.
  induction subs as [|sub r IH]; intros g colnum acc g' names IM Hc Ens Hcen Hok H; cbn [sub_columns_d] in H.
  - inversion H; subst. auto.
  - cbv zeta in H. destruct (new_name g (cdict g) colnum) as [ni|] eqn:En; cbn [bind] in H; [|discriminate].
    pose proof (new_name_fresh g (cdict g) colnum ni En) as Fresh.
    rewrite Ens in H.
    change (fun v : dvtx => match v with
                            | Dc i => Ok (nth ((i0 + i) mod length nodes) nodes 1%positive)
                            | Dcen => match cen with Some x => Ok x | None => Raise KeyError end
                            end) with (dval nodes i0 cen) in H.
    destruct (mapM (dval nodes i0 cen) sub) as [ns|] eqn:Em; cbn [bind] in H; [|discriminate].
    apply Forall_cons_iff in Hok. destruct Hok as [[Len3 NDk] Hok'].
    pose proof (proj1 IM) as IS.
    assert (NDn : NoDup nodes) by (rewrite <- Ens; apply (i_s5p g IS c Hc)).
    assert (Ln : (3 <= length nodes)%nat) by (rewrite <- Ens; apply (i_s5p g IS c Hc)).
    destruct (mapM_dval nodes i0 cen NDn ltac:(lia) ltac:(intros x Hx; apply (Hcen x Hx)) sub ns NDk Em) as [NDns [Lns Inns]].
    destruct (sub_step P g c (fst ni) ns IM Hc Fresh) as [El [IM2 [Hc2 [Ens2 [_ [Enl2 [Efx2 _]]]]]]].
    + intros n Hn. destruct (Inns n Hn) as [X|X]; [|exact (proj1 (Hcen n X))].
      rewrite <- Ens in X. exact (s2_in g (i_s2 g IS) c Hc n X).
    + exact NDns.
    + lia.
    + rewrite El in H.
      destruct (IH _ _ _ _ _ IM2 Hc2 ltac:(rewrite Ens2; exact Ens) ltac:(intros x Hx; rewrite Enl2; exact (Hcen x Hx)) Hok' H) as [A [B C]].
      split; [exact A|]. split; [exact B|]. rewrite C. exact Efx2.
Qed.

(** ** the centre node; the old column removed *)
Lemma add_node_invM (P : Prop) g n p : InvMp P g -> InvMp P (add_node g n p).
Proof.
  intros [IS HD]. split; [apply add_node_invS; exact IS|]. intro HP. destruct (HD HP) as [D1 D2].
  pose proof (agree_new_node g n p (i_fr g IS)) as A.
  pose proof (agree_S3b g _ A D1) as D1n. pose proof (agree_S5n g _ A D2) as D2n.
  unfold add_node, add_node_obj. destruct (nget _ _); [split; assumption|]. split; [exact D1n|exact D2n].
Qed.
Lemma add_node_frame g n p c : Fr g -> In c (clist g) -> nget g n = None ->
  let g' := add_node g n p in
  In c (clist g') /\ cns g' c = cns g c /\ cn g' c = cn g c /\ cc g' c = cc g c /\ In (next g) (nlist g') /\ fx g' = fx g /\
  (forall x, In x (nlist g) -> In x (nlist g')).
Proof.
  intros F Hc Hn. cbv zeta. pose proof (agree_new_node g n p F) as A.
  unfold add_node, add_node_obj.
  assert (E : nn (new_node g n p) (next g) = n) by (unfold new_node; gsu; apply fget_fset_eq). rewrite E.
  change (nget (new_node g n p) n) with (nget g n). rewrite Hn.
  split; [exact Hc|]. split; [exact (agree_cns g _ A c Hc)|]. split; [exact (agree_cn g _ A c Hc)|].
  split; [exact (proj2 (proj2 (proj2 (proj2 (proj2 (proj2 (a_c _ _ A c Hc)))))))|].
  split; [gsg; apply in_snoc; right; reflexivity|]. split; [reflexivity|].
  intros x Hx. gsg. apply in_snoc. left. exact Hx.
Qed.
Lemma delete_column_invM (P : Prop) g name g' : InvMp P g -> delete_column g name = Ok g' -> InvMp P g' /\ fx g' = fx g.
Proof.
  intros [IS HD] H. destruct (delete_column_core g name g' IS H) as [A [B [C _]]].
  split.
  - split; [exact A|]. intro HP. destruct (HD HP) as [D1 D2]. split; [|exact (C D2)].
    destruct (fx_nbr (fx g)) eqn:Fx; [eapply delete_column_S3b_repaired; eauto|exact (B eq_refl D1)].
  - destruct (delete_column_closed g name g' IS H) as [? [? [? [? [? [? [? [-> _]]]]]]]]. reflexivity.
Qed.

(** ** subdivide_column *)
Theorem subdivide_column_invM (P : Prop) g name i0 subs g' names : InvMp P g ->
  (forall c, cget g name = Some c -> subs_ok (length (cns g c)) i0 subs) ->
  subdivide_column g name i0 subs = Ok (g', names) -> InvMp P g' /\ fx g' = fx g.
Proof.
  intros IM Hok H. unfold subdivide_column in H. destruct (cget g name) as [c|] eqn:Ec; [|discriminate].
  specialize (Hok c eq_refl). pose proof (proj1 IM) as IS.
  destruct (s1_cget g name c (i_s1 g IS) Ec) as [Hc Hname].
  match type of H with (do gc <- ?X; _) = _ => set (pre := X) in * end.
  assert (Pre : exists ga cen, pre = Ok (ga, cen) /\
               InvMp P ga /\ In c (clist ga) /\ cns ga c = cns g c /\ fx ga = fx g /\
               (forall x, cen = Some x -> In x (nlist ga) /\ ~ In x (cns g c))).
  { unfold pre in *. clear pre. destruct (uses_centre subs).
    - destruct (new_name g (ndict g) 0%N) as [ni|] eqn:En; cbn [bind] in H |- *; [|discriminate].
      pose proof (new_name_fresh g (ndict g) 0%N ni En) as Fresh.
      destruct (add_node_frame g (fst ni) (cc g c) c (i_fr g IS) Hc Fresh) as [A1 [A2 [_ [_ [A5 [A6 _]]]]]].
      eexists _, _. split; [reflexivity|]. fold (add_node g (fst ni) (cc g c)).
      split; [apply add_node_invM; exact IM|]. split; [exact A1|]. split; [exact A2|]. split; [exact A6|].
      intros x Hx. inversion Hx; subst x. split; [exact A5|].
      intro X. apply (s2_in g (i_s2 g IS) c Hc) in X. apply (fr_n g (i_fr g IS)) in X. lia.
    - eexists _, _. split; [reflexivity|]. split; [exact IM|]. split; [exact Hc|]. split; [reflexivity|]. split; [reflexivity|]. intros x Hx. discriminate. }
  destruct Pre as [ga [cen [Eq [IMa [Hca [Ensa [Efa Hcen]]]]]]]. rewrite Eq in H. cbn [bind fst snd] in H.
  destruct (sub_columns_d ga c i0 cen subs 0%N []) as [[gl nl]|] eqn:El; cbn [bind fst snd] in H; [|discriminate].
  destruct (sub_columns_d_invM P c i0 cen (cns g c) subs ga 0%N [] gl nl IMa Hca Ensa Hcen Hok El) as [IMl [Hcl Efl]].
  destruct (delete_column gl name) as [g2|] eqn:Ed; cbn [bind] in H; [|discriminate]. inversion H; subst g' names.
  destruct (delete_column_invM P gl name g2 IMl Ed) as [IM2 Ef2]. split; [exact IM2|]. congruence.
Qed.

(** ** triangulate_column: no precondition *)
Lemma fan_ok n : (3 <= n)%nat -> subs_ok n 0 (fan n).
Proof.
  intro Hn. unfold subs_ok, fan. apply Forall_forall. intros sub Hs. apply in_map_iff in Hs. destruct Hs as [i [<- Hi]].
  apply in_seq in Hi. split; [cbn; lia|]. cbn [map dkey]. cbn [Nat.add].
  assert (E1 : i mod n = i) by (apply Nat.mod_small; lia).
  assert (E2 : ((i + 1) mod n) mod n = (i + 1) mod n) by (apply Nat.mod_mod; lia).
  rewrite E1, E2. repeat constructor; cbn; intro X.
  - destruct X as [X|[X|[]]]; [|discriminate]. inversion X as [Y].
    destruct (Nat.eq_dec (i + 1) n) as [En|Nn].
    + rewrite En, Nat.mod_same in Y by lia. lia.
    + rewrite Nat.mod_small in Y by lia. lia.
  - destruct X as [X|[]]; discriminate.
  - destruct X.
Qed.
Theorem triangulate_column_invM (P : Prop) g name g' names : InvMp P g -> triangulate_column g name = Ok (g', names) -> InvMp P g' /\ fx g' = fx g.
Proof.
  intros IM H. unfold triangulate_column in H. destruct (cget g name) as [c|] eqn:Ec; [|discriminate].
  eapply subdivide_column_invM; [exact IM| |exact H].
  intros c' Ec'. rewrite Ec in Ec'. inversion Ec'; subst c'. apply fan_ok.
  destruct IM as [IS _]. apply (i_s5p g IS c). exact (proj1 (s1_cget g name c (i_s1 g IS) Ec)).
Qed.

(** ** decompose_column: the tables name distinct corners, wherever the start is *)
Definition raw_key (v : dvtx) : option nat := match v with Dc i => Some i | Dcen => None end.
Definition okey_eqb (a b : option nat) : bool :=
  match a, b with Some x, Some y => Nat.eqb x y | None, None => true | _, _ => false end.
Fixpoint nodupb (l : list (option nat)) : bool :=
  match l with [] => true | a :: r => negb (existsb (okey_eqb a) r) && nodupb r end.
Definition sub_okb (n : nat) (sub : list dvtx) : bool :=
  (3 <=? length sub)%nat && forallb (fun v => match v with Dc i => (i <? n)%nat | Dcen => true end) sub && nodupb (map raw_key sub).
Lemma okey_eqb_eq a b : okey_eqb a b = true <-> a = b.
Proof.
  destruct a as [x|], b as [y|]; cbn; split; intro H; try discriminate; try reflexivity.
  - apply Nat.eqb_eq in H. congruence.
  - inversion H. apply Nat.eqb_refl.
Qed.
Lemma nodupb_ok l : nodupb l = true -> NoDup l.
Proof.
  induction l as [|a r IH]; cbn; intro H; [constructor|]. apply andb_prop in H. destruct H as [A B].
  constructor; [|exact (IH B)]. intro X. apply negb_true_iff in A.
  assert (Y : existsb (okey_eqb a) r = true) by (apply existsb_exists; exists a; split; [exact X|apply okey_eqb_eq; reflexivity]). congruence.
Qed.
Lemma add_mod_inj n i0 i j : (i < n)%nat -> (j < n)%nat -> (i0 + i) mod n = (i0 + j) mod n -> i = j.
Proof.
  intros Hi Hj H. pose proof (Nat.div_mod (i0 + i) n ltac:(lia)) as A. pose proof (Nat.div_mod (i0 + j) n ltac:(lia)) as B.
  rewrite H in A. set (q1 := (i0 + i) / n) in *. set (q2 := (i0 + j) / n) in *. set (r := (i0 + j) mod n) in *.
  assert (q1 = q2) by nia. nia.
Qed.
Lemma NoDup_map_weaken {A B C} (f : A -> B) (h : A -> C) l :
  (forall x y, In x l -> In y l -> f x = f y -> h x = h y) -> NoDup (map h l) -> NoDup (map f l).
Proof.
  induction l as [|a r IH]; intros Hinj H; cbn in *; [constructor|]. inversion H as [|? ? Hn Hr]; subst.
  constructor.
  - intro X. apply in_map_iff in X. destruct X as [y [Ey Hy]]. apply Hn.
    rewrite <- (Hinj y a (or_intror Hy) (or_introl eq_refl) Ey). apply in_map. exact Hy.
  - apply IH; [|exact Hr]. intros x y Hx Hy. apply Hinj; right; assumption.
Qed.
Lemma sub_okb_ok n i0 subs : forallb (sub_okb n) subs = true -> subs_ok n i0 subs.
Proof.
  intro H. apply Forall_forall. intros sub Hs. apply (proj1 (forallb_forall _ _) H) in Hs.
  unfold sub_okb in Hs. apply andb_prop in Hs. destruct Hs as [Hs C]. apply andb_prop in Hs. destruct Hs as [A B].
  split; [apply Nat.leb_le; exact A|].
  apply (NoDup_map_weaken _ raw_key); [|apply nodupb_ok; exact C].
  intros x y Hx Hy E. pose proof (proj1 (forallb_forall _ _) B x Hx) as Bx. pose proof (proj1 (forallb_forall _ _) B y Hy) as By.
  destruct x as [i|], y as [j|]; cbn in *; try discriminate; [|reflexivity].
  apply Nat.ltb_lt in Bx. apply Nat.ltb_lt in By. inversion E as [E']. f_equal. exact (add_mod_inj n i0 i j Bx By E').
Qed.

Theorem decompose_column_invM (P : Prop) g name straight g' names : InvMp P g ->
  decompose_column g name straight = Ok (g', names) -> InvMp P g' /\ fx g' = fx g.
Proof.
  intros IM H. unfold decompose_column in H. destruct (cget g name) as [c|] eqn:Ec; [|discriminate]. cbv zeta in H.
  assert (Sub : forall n i0 subs gg nn_, length (cns g c) = n -> forallb (sub_okb n) subs = true ->
                subdivide_column g name i0 subs = Ok (gg, nn_) -> InvMp P gg /\ fx gg = fx g).
  { intros n i0 subs gg nn_ En Hb Hs. eapply subdivide_column_invM; [exact IM| |exact Hs].
    intros c' Ec'. rewrite Ec in Ec'. inversion Ec'; subst c'. rewrite En. apply sub_okb_ok. exact Hb. }
  assert (Tri : forall gg nn_, triangulate_column g name = Ok (gg, nn_) -> InvMp P gg /\ fx gg = fx g).
  { intros gg nn_ Ht. eapply triangulate_column_invM; eauto. }
  destruct (length (cns g c) <=? 4)%nat; [inversion H; subst; auto|].
  destruct (length (cns g c) <=? 8)%nat; [|eapply Tri; exact H].
  destruct ((length (cns g c) =? 5)%nat && (length straight =? 1)%nat) eqn:E5.
  { apply andb_prop in E5. destruct E5 as [E5 _]. apply Nat.eqb_eq in E5. (refine (Sub 5%nat _ _ _ _ E5 _ H); reflexivity). }
  destruct ((length (cns g c) =? 6)%nat && (length straight =? 2)%nat) eqn:E6.
  { apply andb_prop in E6. destruct E6 as [E6 _]. apply Nat.eqb_eq in E6.
    destruct (_ =? 2)%nat.
    - destruct (hd_error _) as [s|]; [|discriminate]. (refine (Sub 6%nat _ _ _ _ E6 _ H); reflexivity).
    - destruct (_ =? 3)%nat; [(refine (Sub 6%nat _ _ _ _ E6 _ H); reflexivity)|eapply Tri; exact H]. }
  destruct ((length (cns g c) =? 7)%nat && (length straight =? 3)%nat) eqn:E7.
  { apply andb_prop in E7. destruct E7 as [E7 _]. apply Nat.eqb_eq in E7.
    destruct (hd_error _) as [s|]; [|discriminate]. (refine (Sub 7%nat _ _ _ _ E7 _ H); reflexivity). }
  destruct ((length (cns g c) =? 8)%nat && (length straight =? 4)%nat) eqn:E8.
  { apply andb_prop in E8. destruct E8 as [E8 _]. apply Nat.eqb_eq in E8. (refine (Sub 8%nat _ _ _ _ E8 _ H); reflexivity). }
  eapply Tri; exact H.
Qed.

Lemma decompose_each_invM (P : Prop) names : forall g hs g', InvMp P g -> decompose_each g names hs = Ok g' -> InvMp P g' /\ fx g' = fx g.
Proof.
  induction names as [|n r IH]; intros g hs g' IM H; cbn [decompose_each] in H; [inversion H; subst; auto|].
  destruct (decompose_column g n (hd [] hs)) as [[g1 l]|] eqn:E; cbn [bind fst] in H; [|discriminate].
  destruct (decompose_column_invM P g n _ g1 l IM E) as [IM1 F1].
  destruct (IH g1 (tl hs) g' IM1 H) as [A B]. split; [exact A|congruence].
Qed.

(** ** the missing connections (repaired source: add_connection makes the two columns neighbours) *)
Lemma add_connection_obj_M g k : S3b g -> S5n g -> fx_nbr (fx g) = true -> k0 g k <> k1 g k ->
  In (k0 g k) (clist g) -> In (k1 g k) (clist g) ->
  S3b (add_connection_obj g k) /\ S5n (add_connection_obj g k).
Proof.
  intros [Q1 Q2] D2 Fx Hab Ha Hb. unfold add_connection_obj. destruct (kget g (kkey g k)) eqn:E; [split; [exact (conj Q1 Q2)|exact D2]|].
  set (a := k0 g k) in *. set (b := k1 g k) in *. cbv zeta. rewrite Fx.
  assert (J : forall G, klist G = klist g ++ [k] -> kc0 G = kc0 g -> kc1 G = kc1 g ->
              forall c d, joined G c d <-> joined g c d \/ (c = a /\ d = b) \/ (c = b /\ d = a)).
  { intros G E1 E2 E3 c d. unfold joined. ua. rewrite E1, E2, E3. split.
    - intros [k' [Hk' M]]. apply in_snoc in Hk'. destruct Hk' as [Hk'| ->]; [left; exists k'; auto|]. right. unfold a, b. ua. intuition.
    - intros [[k' [Hk' M]]|M]; [exists k'; split; [apply in_snoc; auto|exact M]|]. exists k. split; [apply in_snoc; auto|]. unfold a, b in M. ua. intuition. }
  split.
  - unfold S3b, nbr_add, ccon_add. gs. split.
    + intros c Hc. unfold cnb. gs. rewrite fget_fset. destruct (Pos.eqb_spec c b) as [->|Nb].
      * apply NoDup_sadd. rewrite fget_fset. destruct (Pos.eqb b a); [apply NoDup_sadd|]; apply Q1; assumption.
      * rewrite fget_fset. destruct (Pos.eqb_spec c a) as [->|Na]; [apply NoDup_sadd|]; apply Q1; assumption.
    + intros c Hc d. rewrite J by reflexivity. rewrite <- (Q2 c Hc d). unfold cnb. gs.
      rewrite fget_fset. destruct (Pos.eqb_spec c b) as [->|Nb].
      * rewrite In_sadd, fget_fset. destruct (Pos.eqb_spec b a) as [Eb|Nb']; [exfalso; apply Hab; symmetry; exact Eb|]. intuition.
      * rewrite fget_fset. destruct (Pos.eqb_spec c a) as [->|Na]; [rewrite In_sadd|]; intuition.
  - intros c Hc. exact (D2 c Hc).
Qed.
Lemma add_connection_invM g a b g' : InvM g -> fx_nbr (fx g) = true -> conn_args_ok g a b -> add_connection g a b = Ok g' -> InvM g'.
Proof.
  intros [IS [D1 D2]] Fx A H. split; [eapply add_connection_invS; eauto|].
  unfold add_connection in H.
  destruct (cget g a) as [ca|] eqn:Ea; [|discriminate]. destruct (cget g b) as [cb|] eqn:Eb; [|discriminate].
  inversion H; subst g'; clear H. pose proof (i_fr g IS) as F.
  destruct (s1_cget g a ca (i_s1 g IS) Ea) as [Ha Hna]. destruct (s1_cget g b cb (i_s1 g IS) Eb) as [Hb Hnb].
  destruct (new_conn_facts g ca cb) as [E0 [E1 [Ens [Enm Enb]]]].
  pose proof (agree_new_conn g ca cb F) as Ag.
  set (g1 := new_conn g ca cb) in *.
  assert (D1n : S3b g1) by (apply (agree_S3b g); assumption).
  assert (D2n : S5n g1) by (apply (agree_S5n g); assumption).
  assert (Ekey : kkey g1 (next g) = (a, b)) by (unfold kkey; rewrite E0, E1, !Enm, Hna, Hnb; reflexivity).
  destruct (kget g (a, b)) as [old|] eqn:Ek.
  { unfold add_connection_obj. rewrite Ekey. change (kget g1 (a, b)) with (kget g (a, b)). rewrite Ek. split; assumption. }
  destruct (A ca cb Ea Eb Ek) as [Hne _].
  apply add_connection_obj_M; try assumption; [rewrite E0, E1; exact Hne|rewrite E0; exact Ha|rewrite E1; exact Hb].
Qed.
Lemma add_connections_invM ks : forall g g', InvM g -> fx_nbr (fx g) = true -> conns_ok g ks -> add_connections g ks = Ok g' -> InvM g'.
Proof.
  induction ks as [|[a b] r IH]; intros g g' IM Fx Ok_ H; cbn [add_connections] in H; [inversion H; subst; auto|].
  destruct (add_connection g a b) as [g1|] eqn:E; cbn [bind] in H; [|discriminate]. destruct Ok_ as [A B].
  apply (IH g1 g'); [eapply add_connection_invM; eauto| |exact (B g1 E)|exact H].
  rewrite (add_connection_fx g a b g1 E). exact Fx.
Qed.

(** ** decompose_columns: the whole invariant (repaired source), provided each connection that is added joins
    two different columns sharing a side *)
Theorem decompose_columns_inv g names hs hmiss g' : Inv g -> fx_nbr (fx g) = true ->
  (forall g1, decompose_each g names hs = Ok g1 -> conns_ok g1 hmiss) ->
  decompose_columns g names hs hmiss = Ok g' -> Inv g'.
Proof.
  intros I Fx Ok_ H. unfold decompose_columns in H.
  destruct (lookup_cols g names) as [cols|]; cbn [bind] in H; [|discriminate].
  destruct (decompose_each g names hs) as [g1|] eqn:E1; cbn [bind] in H; [|discriminate].
  destruct (decompose_each_invM True names g hs g1 (proj2 (invMp_true g) (invM_inv g I)) E1) as [IM1' F1]. apply invMp_true in IM1'. pose proof IM1' as IM1.
  destruct (add_missing g1 hmiss) as [g2|] eqn:E2; cbn [bind] in H; [|discriminate].
  unfold add_missing in E2. destruct (is_ordering_of _ _); [|discriminate].
  destruct (add_connections_invM hmiss g1 g2 IM1 ltac:(rewrite F1; exact Fx) (Ok_ g1 eq_refl) E2) as [IS2 [D12 D22]].
  eapply setup_names_inv; eauto.
Qed.
(** in either source variant, and whatever the state of the derived data, the object graph is kept *)
Theorem triangulate_column_invS g name g' names : InvS g -> triangulate_column g name = Ok (g', names) -> InvS g'.
Proof. intros IS H. apply (proj1 (invMp_false g')). exact (proj1 (triangulate_column_invM False g name g' names (proj2 (invMp_false g) IS) H)). Qed.
Theorem decompose_columns_invS g names hs hmiss g' : InvS g ->
  (forall g1, decompose_each g names hs = Ok g1 -> conns_ok g1 hmiss) ->
  decompose_columns g names hs hmiss = Ok g' -> InvS g'.
Proof.
  intros IS Ok_ H. unfold decompose_columns in H.
  destruct (lookup_cols g names) as [cols|]; cbn [bind] in H; [|discriminate].
  destruct (decompose_each g names hs) as [g1|] eqn:E1; cbn [bind] in H; [|discriminate].
  destruct (decompose_each_invM False names g hs g1 (proj2 (invMp_false g) IS) E1) as [IM1 _]. apply invMp_false in IM1.
  destruct (add_missing g1 hmiss) as [g2|] eqn:E2; cbn [bind] in H; [|discriminate].
  unfold add_missing in E2. destruct (is_ordering_of _ _); [|discriminate].
  destruct (add_connections_invS hmiss g1 g2 IM1 (Ok_ g1 eq_refl) E2) as [IS2 _].
  eapply setup_names_invS; eauto.
Qed.
(** triangulate_column keeps everything but the name lists, which it does not refresh; the whole invariant
    while there is no layer *)
Theorem triangulate_column_keeps g name g' names : Inv g -> triangulate_column g name = Ok (g', names) ->
  InvS g' /\ S3b g' /\ S5n g'.
Proof.
  intros I H. apply (proj1 (invMp_true g')). exact (proj1 (triangulate_column_invM True g name g' names (proj2 (invMp_true g) (invM_inv g I)) H)).
Qed.
