(** C10 -- the invariant after every finite sequence of edits (induction over the sequence, no bound).

    Two levels.  [InvS] (lookups/lists, back-references node<->column and column<->connection, shared
    sides, polygons) is kept by EVERY edit under a precondition that only asks for well-formed
    arguments.  The full [Inv] (with the derived data: neighbour sets, layer counts, name lists) is
    kept by the edits that refresh what they touch; the primitive add_/delete_ edits keep it only
    while nothing derived depends on what they change (preconditions below); from any state that
    satisfies [InvS] the refreshing edits re-establish it ([refresh_establishes]). *)
From Coq Require Import Ascii String List Bool PArith NArith ZArith QArith FMapPositive Permutation Lia.
From PTBase Require Import Exn PyStr.
From P Require Import Assoc GeoState GeoEdit GeoEdit2 GeoStep Inv InvNames InvSimple Sets InvCol InvConn InvDel InvRefresh InvRename InvCompound InvSplit InvSplit2 InvSnap InvDecomp InvRefine InvCheck.
Import ListNotations.
Open Scope list_scope.

(** split_column returns False and leaves the geometry untouched: unknown column, not a
    quadrilateral, or the node is not one of its corners *)
Definition split_noop (g : geo) (c n : str) : Prop := split_column g c n = Ok g.

(** ** well-formed arguments: what every edit needs to keep the object graph consistent *)
Definition preS (g : geo) (o : op) : Prop :=
  match o with
  | AddNode _ _ | DelCol _ | DelConn _ _ | AddLayer _ _ _ _ | DelLayer _ | AddWell _ | DelWell _ | DelOrphans | IdentifyNbrs | LayerTops
  | DefaultSurface | SetSurface _ _ | SetNumLayers _ | SetupBlockNames | SetupConnNames => True
  | DelNode n => node_unused g n                          (* no column uses the node *)
  | AddCol n ns _ _ => col_args_ok g n ns                 (* at least three distinct node names *)
  | AddConn a b => conn_args_ok g a b                     (* two different columns that share a side *)
  | RenCol olds news => ren_cols_ok g (combine olds news) (* new names free; (source as it stands:) renamed columns unconnected *)
  | RenLayer olds news => ren_lays_ok g (combine olds news)
  | SplitCol c n => split_noop g c n
  (* compound operations: see InvCompound.v, InvDecomp.v, InvRefine.v *)
  | Triangulate _ => True
  (* each missing connection that is added joins two different columns sharing a side (at the moment it is added) *)
  | Refine names h => refine_conns_ok g names h
  | DecomposeCols names hs hmiss => forall g1, decompose_each g names hs = Ok g1 -> conns_ok g1 hmiss
  | CopyLayers _ | SnapLayers _ _ | SnapNearest _ | FitSurface _ _ _ | Translate _ _ _ | MoveNodes _ _ => True
  | RefineLayers _ _ => S3b g                (* (the proof goes through the whole invariant of the rebuilt layers) *)
  (* the mesh is conforming as far as the missing connections need it: two columns with two or more common nodes have two
     consecutive common nodes (the connections that are added then join two different columns sharing a side) *)
  | CheckFix _ _ | Reduce _ _ _ => shares_side g
  end.

Theorem step_invS g o g' : InvS g -> preS g o -> step g o = Ok g' -> InvS g'.
Proof.
  intros I P H. destruct o; cbn [step preS] in *.
  - inversion H; subst. apply add_node_invS; exact I.
  - eapply delete_node_invS; eauto.
  - eapply add_column_invS; eauto.
  - eapply delete_column_invS; eauto.
  - eapply add_connection_invS; eauto.
  - eapply delete_connection_invS; eauto.
  - inversion H; subst. apply add_layer_invS; exact I.
  - eapply delete_layer_invS; eauto.
  - inversion H; subst. apply add_well_invS; exact I.
  - eapply delete_well_invS; eauto.
  - eapply rename_column_invS; eauto.
  - eapply rename_layer_invS; eauto.
  - unfold split_noop in P. rewrite P in H. inversion H; subst; exact I.
  - eapply delete_orphans_invS; eauto.
  - inversion H; subst. apply identify_neighbours_invS; exact I.
  - eapply identify_layer_tops_invS; eauto.
  - eapply set_default_surface_invS; eauto.
  - eapply set_surface_invS; eauto.
  - eapply set_num_layers_invS; eauto.
  - eapply setup_block_name_index_invS; eauto.
  - eapply setup_block_connection_name_index_invS; eauto.
  - eapply check_fix_invS_conforming; eauto.
  - eapply reduce_invS_conforming; eauto.
  - eapply refine_invS; eauto.
  - destruct (triangulate_column g n) as [[g1 l]|] eqn:E; cbn [bind fst] in H; [|discriminate]. inversion H; subst g'.
    eapply triangulate_column_invS; eauto.
  - eapply decompose_columns_invS; eauto.
  - exact (i_s _ (refine_layers_establishes g names factor g' I P H)).
  - eapply copy_layers_from_invS; eauto.
  - eapply snap_columns_to_layers_invS; eauto.
  - eapply snap_columns_to_nearest_layers_invS; eauto.
  - eapply fit_surface_invS; eauto.
  - inversion H; subst. apply translate_invS; exact I.
  - eapply move_nodes_invS; eauto.
Qed.

(** ** what an edit needs to keep ALL clauses (derived data included) without a refresh *)
Definition pre (g : geo) (o : op) : Prop :=
  (match o with SplitCol c n => split_noop g c n \/ split_pre g c n | _ => preS g o end) /\
  match o with
  | AddNode _ _ | DelNode _ | AddWell _ | DelWell _ | RenCol _ _ | RenLayer _ _ | DelOrphans
  | IdentifyNbrs | SetNumLayers _ | SetupBlockNames | SetupConnNames => True
  | SplitCol _ _ => True                                  (* see [pre]: a real split is covered in the repaired source *)
  | AddCol n _ _ _ => col_derived_ok g n                  (* no layer yet *)
  | DelCol _ => llist g = []
  | AddConn a b => conn_derived_ok g a b                  (* already neighbours (or repaired source); no layer yet *)
  | DelConn a b => (fx_nbr (fx g) = true \/ joined_otherwise g (a, b)) /\ llist g = []   (* (source as it stands:) still joined otherwise *)
  | AddLayer _ _ _ _ | DelLayer _ | LayerTops | DefaultSurface => no_dependants g
  | SetSurface _ _ => llist g = []
  | CopyLayers _ | RefineLayers _ _ | MoveNodes _ _ | Translate _ _ _ => True
  (* the layers (below the atmosphere layer) lie one below the other *)
  | SnapLayers _ _ | FitSurface _ _ _ => layers_descend g
  | SnapNearest _ => layers_stacked g
  (* refine identifies the neighbours and sets up the name lists itself *)
  | Refine _ _ => True
  (* decompose_columns does not identify the neighbours: repaired source (add_connection keeps the neighbour sets) *)
  | DecomposeCols _ _ _ => fx_nbr (fx g) = true
  (* triangulate_column does not refresh the name lists: see triangulate_column_keeps *)
  | Triangulate _ => False
  (* repaired source: add_/delete_connection keep the neighbour sets (aa68858); check(fix) sets up the connection name
     index again (proposed_fixes/C10-check-fix-name-index.diff); no layer needs fixing *)
  | CheckFix _ _ => fx_nbr (fx g) = true /\ fx_check (fx g) = true /\ layers_fine g
  | Reduce _ _ _ => fx_nbr (fx g) = true /\ layers_fine g
  end.

Theorem step_inv g o g' : Inv g -> pre g o -> step g o = Ok g' -> Inv g'.
Proof.
  intros I [PS P] H. destruct o; cbn [step preS] in *.
  - inversion H; subst. apply add_node_inv; exact I.
  - eapply delete_node_inv; eauto.
  - eapply add_column_inv; eauto.
  - eapply delete_column_inv_any; eauto.
  - eapply add_connection_inv; eauto.
  - destruct P. eapply delete_connection_inv_any; eauto.
  - inversion H; subst. apply add_layer_inv; assumption.
  - eapply delete_layer_inv; eauto.
  - inversion H; subst. apply add_well_inv; exact I.
  - eapply delete_well_inv; eauto.
  - eapply rename_column_inv; eauto.
  - eapply rename_layer_inv; eauto.
  - destruct PS as [PS|PS]; [unfold split_noop in PS; rewrite PS in H; inversion H; subst; exact I|].
    eapply split_column_inv; eauto.
  - eapply delete_orphans_inv; eauto.
  - inversion H; subst. apply identify_neighbours_inv; exact I.
  - eapply identify_layer_tops_inv; eauto.
  - eapply set_default_surface_inv; eauto.
  - eapply set_surface_inv; eauto.
  - eapply set_num_layers_inv; eauto.
  - eapply setup_block_name_index_inv; eauto.
  - eapply setup_block_connection_name_index_inv; eauto.
  - destruct P as [P1 [P2 P3]]. eapply check_fix_inv; eauto.
  - destruct P as [P1 P2]. eapply reduce_inv; eauto.
  - eapply refine_inv; eauto.
  - destruct P.
  - eapply decompose_columns_inv; eauto.
  - eapply refine_layers_inv; eauto.
  - eapply copy_layers_from_inv; eauto.
  - eapply snap_columns_to_layers_inv; eauto.
  - eapply snap_columns_to_nearest_layers_inv; eauto.
  - eapply fit_surface_inv; eauto.
  - inversion H; subst. apply translate_inv; exact I.
  - eapply move_nodes_inv; eauto.
Qed.

(** every edit of the sequence meets its precondition in the state it is applied to *)
Fixpoint all_pre (P : geo -> op -> Prop) (g : geo) (ops : list op) : Prop :=
  match ops with
  | [] => True
  | o :: r => P g o /\ forall g1, step g o = Ok g1 -> all_pre P g1 r
  end.

Theorem invS_reachable ops : forall g g', InvS g -> all_pre preS g ops -> run g ops = Ok g' -> InvS g'.
Proof.
  induction ops as [|o r IH]; cbn [run all_pre]; intros g g' I P H.
  - inversion H; subst; exact I.
  - destruct P as [P0 P1]. destruct (step g o) as [g1|e] eqn:E; cbn [bind] in H; [|discriminate].
    apply (IH g1 g'); [eapply step_invS; eauto|apply P1; reflexivity|exact H].
Qed.
Theorem inv_reachable ops : forall g g', Inv g -> all_pre pre g ops -> run g ops = Ok g' -> Inv g'.
Proof.
  induction ops as [|o r IH]; cbn [run all_pre]; intros g g' I P H.
  - inversion H; subst; exact I.
  - destruct P as [P0 P1]. destruct (step g o) as [g1|e] eqn:E; cbn [bind] in H; [|discriminate].
    apply (IH g1 g'); [eapply step_inv; eauto|apply P1; reflexivity|exact H].
Qed.
Corollary invS_reachable_init cv a f ops g' : all_pre preS (empty_geo cv a f) ops -> run (empty_geo cv a f) ops = Ok g' -> InvS g'.
Proof. apply invS_reachable. apply invS_empty. Qed.

(** the same with the run written as a left fold over the op list *)
Lemma fold_raise ops e : fold_left (fun r o => bind r (fun g1 => step g1 o)) ops (Raise e) = Raise e.
Proof. induction ops as [|o r IH]; cbn; [reflexivity|exact IH]. Qed.
Lemma run_fold_eq ops : forall g, fold_left (fun r o => bind r (fun g1 => step g1 o)) ops (Ok g) = run g ops.
Proof.
  induction ops as [|o r IH]; intro g; cbn [fold_left run]; [reflexivity|].
  cbn [bind]. destruct (step g o) as [g1|e]; cbn [bind]; [apply IH|apply fold_raise].
Qed.

(** ** refreshing: identify_neighbours, set_column_num_layers for every column, the two name lists *)
Definition refresh (g : geo) : res geo :=
  do g1 <- set_all_num_layers (identify_neighbours g) (clist g); setup_names g1.

Lemma set_all_num_layers_spec l : forall g g', set_all_num_layers g l = Ok g' ->
  exists m, g' = set_cnl g m /\ (forall c, In c l -> count_layers g (cs g c) = Ok (fget 0%Z m c)) /\
            (forall c, ~ In c l -> fget 0%Z m c = cl g c).
Proof.
  induction l as [|c r IH]; cbn [set_all_num_layers]; intros g g' H.
  - inversion H; subst g'. exists (cnl g). split; [reflexivity|]. split; [intros c []|reflexivity].
  - destruct (set_column_num_layers g c) as [g1|] eqn:E; cbn [bind] in H; [|discriminate].
    destruct (set_column_num_layers_closed g c g1 E) as [n [En ->]].
    destruct (IH _ g' H) as [m [Eg [A B]]]. exists m. split; [rewrite Eg; reflexivity|]. split.
    + intros c' [<-|Hc'].
      * destruct (in_dec Pos.eq_dec c r) as [Hr|Hr]; [exact (A c Hr)|].
        rewrite (B c Hr). unfold cl. gs. rewrite fget_fset_eq. exact En.
      * exact (A c' Hc').
    + intros c' Hc'. rewrite B by (intro X; apply Hc'; right; exact X).
      unfold cl. gs. apply fget_fset_neq. intros ->. apply Hc'. left. reflexivity.
Qed.
Theorem refresh_establishes g g' : InvS g -> nbrs_sound g -> refresh g = Ok g' -> Inv g'.
Proof.
  intros IS Snd H. unfold refresh in H.
  destruct (set_all_num_layers (identify_neighbours g) (clist g)) as [g1|] eqn:E; cbn [bind] in H; [|discriminate].
  pose proof (identify_neighbours_invS g IS) as IS0. pose proof (identify_neighbours_establishes g Snd) as D0.
  destruct (set_all_num_layers_spec _ _ _ E) as [m [Eg [A _]]].
  assert (Ecl : clist (identify_neighbours g) = clist g).
  { rewrite identify_neighbours_eq. destruct (idn_closed (klist g) g) as [mm [-> _]]. reflexivity. }
  eapply setup_names_inv; [| | |exact H]; rewrite Eg.
  - apply invS_set_cnl. exact IS0.
  - exact D0.
  - intros c Hc. change (clist (set_cnl (identify_neighbours g) m)) with (clist (identify_neighbours g)) in Hc.
    rewrite Ecl in Hc. exact (A c Hc).
Qed.
