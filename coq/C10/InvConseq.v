(** C10 -- consequences of the invariant that the property text states in words:
    "each column knows exactly its ... neighbours (symmetrically)" and "each connection's two nodes are
    the edge its two columns share", read off [Inv] for every state; and the invariant after every
    finite edit sequence that starts from the EMPTY geometry (no hypothesis on a start state). *)
From Coq Require Import Ascii String List Bool PArith NArith ZArith QArith FMapPositive Permutation.
From PTBase Require Import Exn PyStr.
From P Require Import Assoc GeoState GeoEdit GeoEdit2 GeoStep Inv Reach.
Import ListNotations.
Open Scope list_scope.

Lemma joined_sym g c d : joined g c d -> joined g d c.
Proof. intros [k [Hk H]]. exists k. split; [exact Hk|]. destruct H as [H|H]; [right|left]; exact H. Qed.

(** a neighbour of a listed column is a DIFFERENT listed column that has the column among its own neighbours *)
Lemma nbr_symmetric g c d : Inv g -> In c (clist g) -> In d (cnb g c) ->
  In d (clist g) /\ d <> c /\ In c (cnb g d).
Proof.
  intros I Hc Hd.
  pose proof (i_s3a g (i_s g I)) as S3. pose proof (i_s3b g (i_d g I)) as Sb.
  pose proof (proj1 (s3b_ex g Sb c Hc d) Hd) as J.
  assert (Hdl : In d (clist g) /\ d <> c).
  { destruct J as [k [Hk H]]. destruct (s3_ends g S3 k Hk) as [E0 E1]. pose proof (s3_neq g S3 k Hk) as N.
    destruct H as [[A B]|[A B]]; rewrite A, B in *; split; auto. }
  destruct Hdl as [Hdl N]. split; [exact Hdl|]. split; [exact N|].
  apply (proj2 (s3b_ex g Sb d Hdl c)). apply joined_sym. exact J.
Qed.

(** two neighbouring columns have two distinct nodes in common -- the two nodes of the connection joining them *)
Lemma nbr_share_edge g c d : Inv g -> In c (clist g) -> In d (cnb g c) ->
  exists k a b, In k (klist g) /\ In k (cks g c) /\ In k (cks g d) /\ kn g k = Some (a, b) /\ a <> b /\
    In a (cns g c) /\ In b (cns g c) /\ In a (cns g d) /\ In b (cns g d).
Proof.
  intros I Hc Hd.
  destruct (nbr_symmetric g c d I Hc Hd) as [Hdl _].
  pose proof (i_s3a g (i_s g I)) as S3. pose proof (i_s3b g (i_d g I)) as Sb. pose proof (i_s4 g (i_s g I)) as S4'.
  destruct (proj1 (s3b_ex g Sb c Hc d) Hd) as [k [Hk H]].
  destruct (S4' k Hk) as [a [b [E [N [A0 [B0 [A1 B1]]]]]]].
  exists k, a, b. split; [exact Hk|].
  destruct H as [[P Q]|[P Q]]; rewrite P, Q in *.
  - split; [apply (proj2 (s3_ex g S3 c Hc k)); auto|]. split; [apply (proj2 (s3_ex g S3 d Hdl k)); auto|]. repeat split; assumption.
  - split; [apply (proj2 (s3_ex g S3 c Hc k)); auto|]. split; [apply (proj2 (s3_ex g S3 d Hdl k)); auto|]. repeat split; assumption.
Qed.

(** the whole invariant after every finite sequence of edits applied to the empty geometry *)
Lemma inv_from_empty cv a f ops g' :
  all_pre pre (empty_geo cv a f) ops -> run (empty_geo cv a f) ops = Ok g' -> Inv g'.
Proof. intros P R. exact (inv_reachable ops _ _ (inv_empty cv a f) P R). Qed.
Lemma invS_from_empty cv a f ops g' :
  all_pre preS (empty_geo cv a f) ops -> run (empty_geo cv a f) ops = Ok g' -> InvS g'.
Proof. intros P R. exact (invS_reachable ops _ _ (i_s _ (inv_empty cv a f)) P R). Qed.
