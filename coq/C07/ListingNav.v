(** C07 -- navigation of a t2listing as a state machine over an abstract listing file.

    An abstract listing is the list of its full result sets.  For each result set we
    record the time and step printed in its header and, for every table the reader set
    up when the file was opened (positional, fixed at open time: [self._table] never
    changes afterwards), the cells that [read_tables] ASSIGNS when positioned there:
    [Some v] = assigned with value v, [None] = not assigned (the array keeps what it
    held before).  The second case is what the TOUGH2 reader does for a table that
    follows a table absent at the first time (t2listing.py:883-886).

    The reader state is (index, time, step, current table arrays, file cursor); the
    cursor is not observable.  Operations follow t2listing.py:205-256 literally. *)
From Coq Require Import Ascii String List Bool Arith ZArith NArith Lia ZifyBool.
From PTBase Require Import Exn PyStr.
Import ListNotations.
Open Scope Z_scope.

Definition cells := list (option Z).
Record rset := { rtime : Z; rstep : Z; rtabs : list cells }.
Record listing := { linit : list (list Z);       (* the arrays as setup_tables creates them (zeros) *)
                    lsets : list rset }.
Record state := { idx : Z; tm : Z; sp : Z; tabs : list (list Z); cur : Z }.

(** [History]: a history() call in which at least one specification matches (the file is scanned);
    [HistoryNone]: a call in which NO specification matches (absent table kind, unknown row name):
    history() returns None before it rewinds -- nothing at all is touched, not even the file offset *)
Inductive op := First | Last | Next | Prev | SetIndex (i : Z) | SetTime (t : Z) | SetStep (k : Z) | History | HistoryNone.
Inductive outcome := ONone | OBool (b : bool) | OExn (e : exn).

Definition nsets (L : listing) : Z := Z.of_nat (length (lsets L)).

(** [table[key] = values] for the rows present; rows that are not read keep the old values *)
Fixpoint ovr_cells (old : list Z) (new : cells) : list Z :=
  match old, new with
  | o :: os, c :: cs => match c with Some v => v | None => o end :: ovr_cells os cs
  | os, [] => os
  | [], _ => []
  end.
Fixpoint ovr_tabs (old : list (list Z)) (new : list cells) : list (list Z) :=
  match old, new with
  | o :: os, c :: cs => ovr_cells o c :: ovr_tabs os cs
  | os, [] => os
  | [], _ => []
  end.

(** [set_index]:   self._file.seek(self._fullpos[i])      -- Python list indexing with the RAW i
                   self._index = i
                   if self._index < 0: self._index += self.num_fulltimes
                   self.read_tables()                      -- sets _time, _step, assigns cells *)
Definition set_index (L : listing) (i : Z) (s : state) : state * outcome :=
  match pyindex i (lsets L) with
  | None => (s, OExn IndexError)
  | Some r =>
      let i' := if i <? 0 then i + nsets L else i in
      ({| idx := i'; tm := rtime r; sp := rstep r; tabs := ovr_tabs (tabs s) (rtabs r); cur := i' + 1 |}, ONone)
  end.

(** numpy.argmin: index of the FIRST minimal element *)
Fixpoint argmin_aux (l : list Z) : nat * Z :=
  match l with
  | [] => (0%nat, 0)
  | x :: r => match r with
              | [] => (0%nat, x)
              | _ => let (k, m) := argmin_aux r in if m <? x then (S k, m) else (0%nat, x)
              end
  end.
Definition argmin (l : list Z) : nat := fst (argmin_aux l).

(** [set_time] / [set_step] (t2listing.py:214-219, 228-233):
      if v < vals[0]: index = 0 ; elif v > vals[-1]: index = -1
      else: index = argmin(abs(vals - v))
    [rnd] is the rounding of the subtraction (identity for the integer steps,
    round-to-nearest-even to 53 bits for the float64 times). *)
Definition nearest_index (rnd : Z -> Z) (vals : list Z) (v : Z) : option Z :=
  match vals with
  | [] => None
  | v0 :: _ =>
      if v <? v0 then Some 0
      else if last vals v0 <? v then Some (-1)
      else Some (Z.of_nat (argmin (map (fun x => rnd (Z.abs (x - v))) vals)))
  end.

Definition set_near (L : listing) (rnd : Z -> Z) (vals : list Z) (v : Z) (s : state) : state * outcome :=
  match nearest_index rnd vals v with
  | None => (s, OExn IndexError)
  | Some i => set_index L i s
  end.

Definition times (L : listing) := map rtime (lsets L).
Definition steps (L : listing) := map rstep (lsets L).

Section Step.
Variable rnd : Z -> Z.       (* rounding of float64 subtraction *)

Definition step (L : listing) (s : state) (o : op) : state * outcome :=
  match o with
  | First => set_index L 0 s
  | Last => set_index L (-1) s
  | Next =>                                   (* more = self.index < n - 1; if more: self.index += 1; return more *)
      if idx s <? nsets L - 1 then
        match set_index L (idx s + 1) s with (s', OExn e) => (s', OExn e) | (s', _) => (s', OBool true) end
      else (s, OBool false)
  | Prev =>
      if 0 <? idx s then
        match set_index L (idx s - 1) s with (s', OExn e) => (s', OExn e) | (s', _) => (s', OBool true) end
      else (s, OBool false)
  | SetIndex i => set_index L i s
  | SetTime t => set_near L rnd (times L) t s
  | SetStep k => set_near L (fun z => z) (steps L) k s
  | History =>                                (* old_index = self.index ... self._index = old_index; never
                                                 writes _time, _step or a table array; leaves the file offset
                                                 at the end of the scan *)
      ({| idx := idx s; tm := tm s; sp := sp s; tabs := tabs s; cur := nsets L |}, ONone)
  | HistoryNone => (s, ONone)                 (* tableselection == []: return None, before old_index / rewind() *)
  end.

Fixpoint run (L : listing) (s : state) (ops : list op) : state :=
  match ops with [] => s | o :: r => run L (fst (step L s o)) r end.

(** the per-step trace the correspondence driver prints *)
Fixpoint trace (L : listing) (s : state) (ops : list op) : list (outcome * state) :=
  match ops with
  | [] => []
  | o :: r => let (s', oc) := step L s o in (oc, s') :: trace L s' r
  end.
End Step.

(** opening: [_index = 0; setup_tables (arrays of zeros); first()] *)
Definition blank (L : listing) : state := {| idx := 0; tm := 0; sp := 0; tabs := linit L; cur := 0 |}.
Definition open (L : listing) : state := fst (set_index L 0 (blank L)).

Definition observe (s : state) : Z * Z * Z * list (list Z) := (idx s, tm s, sp s, tabs s).
Definition fresh_at (L : listing) (i : Z) : state * outcome := set_index L i (open L).

(** ** uniform listings: every result set assigns every cell of every table *)
Definition force_cells (c : cells) : list Z := map (fun o => match o with Some v => v | None => 0 end) c.
Definition force (t : list cells) : list (list Z) := map force_cells t.
Definition all_some (t : list cells) : Prop := Forall (Forall (fun o : option Z => o <> None)) t.
Definition shape {A} (t : list (list A)) : list nat := map (@length A) t.
Definition uniform_set (L : listing) (r : rset) : Prop := shape (rtabs r) = shape (linit L) /\ all_some (rtabs r).
Definition uniform (L : listing) : Prop := Forall (uniform_set L) (lsets L).

Lemma ovr_cells_length old new : length (ovr_cells old new) = length old.
Proof. revert new; induction old as [|o os IH]; intros [|c cs]; cbn [ovr_cells length]; auto. Qed.
Lemma ovr_tabs_shape old new : shape (ovr_tabs old new) = shape old.
Proof.
  revert new; induction old as [|o os IH]; intros [|c cs]; cbn [ovr_tabs shape map]; auto.
  rewrite ovr_cells_length. f_equal. apply IH.
Qed.
Lemma ovr_cells_full old new : length new = length old -> Forall (fun o : option Z => o <> None) new ->
  ovr_cells old new = force_cells new.
Proof.
  revert new; induction old as [|o os IH]; intros [|c cs] Hl Hs; cbn [ovr_cells force_cells map]; try discriminate; auto.
  inversion Hs; subst. destruct c; [|congruence]. f_equal. apply IH; auto.
Qed.
Lemma ovr_tabs_full old new : shape new = shape old -> all_some new -> ovr_tabs old new = force new.
Proof.
  revert new; induction old as [|o os IH]; intros [|c cs] Hl Hs; cbn [ovr_tabs force map]; try discriminate; auto.
  inversion Hs; subst. cbn [shape map] in Hl. inversion Hl. f_equal.
  - apply ovr_cells_full; auto.
  - apply IH; auto.
Qed.
Lemma force_shape t : shape (force t) = shape t.
Proof. unfold shape, force. rewrite map_map. apply map_ext. intro c. unfold force_cells. apply map_length. Qed.

(** ** Python indexing vs the normalised index *)
Lemma pyindex_norm {A} (l : list A) i r :
  pyindex i l = Some r ->
  let n := Z.of_nat (length l) in
  let i' := if i <? 0 then i + n else i in
  0 <= i' < n /\ -n <= i < n /\ nth_error l (Z.to_nat i') = Some r.
Proof.
  unfold pyindex. cbn zeta. set (n := Z.of_nat (length l)). set (j := if i <? 0 then i + n else i).
  destruct ((j <? 0) || (n <=? j)) eqn:E; [discriminate|]. intro H. repeat split; auto; subst j; destruct (i <? 0) eqn:E2; lia.
Qed.
Lemma pyindex_in_range {A} (l : list A) i : 0 <= i < Z.of_nat (length l) -> pyindex i l = nth_error l (Z.to_nat i).
Proof.
  intro H. unfold pyindex. destruct (i <? 0) eqn:E; [lia|].
  destruct ((i <? 0) || (Z.of_nat (length l) <=? i)) eqn:E2; [lia|reflexivity].
Qed.
Lemma pyindex_out {A} (l : list A) i : i < - Z.of_nat (length l) \/ Z.of_nat (length l) <= i -> pyindex i l = None.
Proof.
  intro H. unfold pyindex. destruct (i <? 0) eqn:E.
  - destruct ((i + Z.of_nat (length l) <? 0) || (Z.of_nat (length l) <=? i + Z.of_nat (length l))) eqn:E2; [reflexivity|lia].
  - destruct ((i <? 0) || (Z.of_nat (length l) <=? i)) eqn:E2; [reflexivity|lia].
Qed.
Lemma nth_error_some_lt {A} (l : list A) k x : nth_error l k = Some x -> (k < length l)%nat.
Proof. intro H. apply nth_error_Some. congruence. Qed.

(** the seek with the raw (possibly negative) index lands on the result set of the normalised index *)
Lemma set_index_ok L i s s' : set_index L i s = (s', ONone) ->
  0 <= idx s' < nsets L /\ exists r, nth_error (lsets L) (Z.to_nat (idx s')) = Some r /\
  tm s' = rtime r /\ sp s' = rstep r /\ tabs s' = ovr_tabs (tabs s) (rtabs r) /\
  idx s' = (if i <? 0 then i + nsets L else i).
Proof.
  unfold set_index. destruct (pyindex i (lsets L)) as [r|] eqn:E; [|discriminate].
  intro H. inversion H; subst; clear H. cbn [idx tm sp tabs].
  destruct (pyindex_norm _ _ _ E) as (H1 & H2 & H3). unfold nsets. split; [exact H1|]. exists r. auto.
Qed.
Lemma set_index_cases L i s : (exists s', set_index L i s = (s', ONone)) \/ set_index L i s = (s, OExn IndexError).
Proof. unfold set_index. destruct (pyindex i (lsets L)); eauto. Qed.
Lemma set_index_range_ok L i s : - nsets L <= i < nsets L -> exists s', set_index L i s = (s', ONone).
Proof.
  intro H. unfold set_index. destruct (pyindex i (lsets L)) eqn:E; eauto.
  exfalso. unfold pyindex in E. fold (nsets L) in E.
  destruct ((((if i <? 0 then i + nsets L else i) <? 0) || (nsets L <=? (if i <? 0 then i + nsets L else i)))) eqn:E2.
  - destruct (i <? 0) eqn:E3; lia.
  - apply nth_error_None in E. destruct (i <? 0) eqn:E3; unfold nsets in *; lia.
Qed.
(** out of range: IndexError from the list indexing, before anything is changed *)
Lemma set_index_out_of_range L i s : i < - nsets L \/ nsets L <= i -> set_index L i s = (s, OExn IndexError).
Proof. intro H. unfold set_index. rewrite pyindex_out; auto. Qed.

(** ** argmin *)
Lemma argmin_aux_spec l : l <> [] ->
  let (k, m) := argmin_aux l in
  nth_error l k = Some m /\ (forall j x, nth_error l j = Some x -> m <= x) /\
  (forall j x, (j < k)%nat -> nth_error l j = Some x -> m < x).
Proof.
  induction l as [|x r IH]; [congruence|]. intros _.
  destruct r as [|y r'].
  - cbn [argmin_aux]. split; [reflexivity|]. split.
    + intros [|j] z H; cbn in H; [inversion H; lia|destruct j; discriminate].
    + intros j z H; lia.
  - change (argmin_aux (x :: y :: r')) with (let (k, m) := argmin_aux (y :: r') in if m <? x then (S k, m) else (0%nat, x)).
    specialize (IH ltac:(discriminate)). destruct (argmin_aux (y :: r')) as [k m]. destruct IH as (I1 & I2 & I3).
    destruct (m <? x) eqn:E.
    + split; [exact I1|]. split.
      * intros [|j] z H; cbn [nth_error] in H; [inversion H; lia|eauto].
      * intros [|j] z Hj H; cbn [nth_error] in H; [inversion H; lia|]. apply (I3 j); auto; lia.
    + split; [reflexivity|]. split.
      * intros [|j] z H; cbn [nth_error] in H; [inversion H; lia|]. specialize (I2 _ _ H). lia.
      * intros j z Hj; lia.
Qed.
Lemma argmin_lt l : l <> [] -> (argmin l < length l)%nat.
Proof.
  intro H. pose proof (argmin_aux_spec l H) as S. unfold argmin. destruct (argmin_aux l) as [k m].
  destruct S as (S1 & _). cbn [fst]. eapply nth_error_some_lt; eauto.
Qed.

(** ** sortedness *)
Fixpoint sorted_le (l : list Z) : Prop := match l with [] => True | x :: r => Forall (Z.le x) r /\ sorted_le r end.
Fixpoint sorted_lt (l : list Z) : Prop := match l with [] => True | x :: r => Forall (Z.lt x) r /\ sorted_lt r end.
Lemma sorted_lt_le l : sorted_lt l -> sorted_le l.
Proof.
  induction l as [|x r IH]; cbn [sorted_lt sorted_le]; auto. intros [H1 H2]. split; auto.
  eapply Forall_impl; [|exact H1]. intros; lia.
Qed.
Lemma sorted_le_nth l : sorted_le l -> forall i j x y, (i <= j)%nat -> nth_error l i = Some x -> nth_error l j = Some y -> x <= y.
Proof.
  induction l as [|a r IH]; intros S i j x y Hij Hi Hj; [destruct i; discriminate|].
  destruct S as [S1 S2]. destruct i as [|i], j as [|j]; cbn [nth_error] in *.
  - inversion Hi; inversion Hj; lia.
  - inversion Hi; subst. rewrite Forall_forall in S1. apply S1. eapply nth_error_In; eauto.
  - lia.
  - eapply (IH S2 i j); eauto; lia.
Qed.
Lemma sorted_lt_nth l : sorted_lt l -> forall i j x y, (i < j)%nat -> nth_error l i = Some x -> nth_error l j = Some y -> x < y.
Proof.
  induction l as [|a r IH]; intros S i j x y Hij Hi Hj; [destruct i; discriminate|].
  destruct S as [S1 S2]. destruct i as [|i], j as [|j]; cbn [nth_error] in *; try lia.
  - inversion Hi; subst. rewrite Forall_forall in S1. apply S1. eapply nth_error_In; eauto.
  - eapply (IH S2 i j); eauto; lia.
Qed.
Lemma last_nth (l : list Z) d : l <> [] -> nth_error l (length l - 1) = Some (last l d).
Proof.
  induction l as [|a r IH]; [congruence|]. intros _. destruct r as [|b r'].
  - reflexivity.
  - change (last (a :: b :: r') d) with (last (b :: r') d).
    replace (length (a :: b :: r') - 1)%nat with (S (length (b :: r') - 1)) by (cbn [length]; lia).
    cbn [nth_error]. apply IH. discriminate.
Qed.

(** ** nearest selection *)
Section Nearest.
Variable rnd : Z -> Z.
Hypothesis rnd_mono : forall a b, 0 <= a <= b -> rnd a <= rnd b.

Definition dist (v x : Z) : Z := rnd (Z.abs (x - v)).
Definition norm_index (n i : Z) : Z := if i <? 0 then i + n else i.

Lemma nearest_index_some vals v : vals <> [] -> exists i, nearest_index rnd vals v = Some i /\
  0 <= norm_index (Z.of_nat (length vals)) i < Z.of_nat (length vals) /\ - Z.of_nat (length vals) <= i < Z.of_nat (length vals).
Proof.
  intro H. destruct vals as [|v0 r]; [congruence|]. unfold nearest_index, norm_index.
  destruct (v <? v0); [eexists; split; [reflexivity|change (0 <? 0) with false; cbv iota; cbn [length]; lia]|].
  destruct (last (v0 :: r) v0 <? v); [eexists; split; [reflexivity|change (-1 <? 0) with true; cbv iota; cbn [length]; lia]|].
  eexists; split; [reflexivity|].
  pose proof (argmin_lt (map (fun x => rnd (Z.abs (x - v))) (v0 :: r)) ltac:(discriminate)) as A.
  rewrite map_length in A. destruct (Z.of_nat _ <? 0) eqn:E; lia.
Qed.

(** the selected result set has minimal (rounded) distance -- weakly increasing values *)
Lemma nearest_minimises vals v i : sorted_le vals -> nearest_index rnd vals v = Some i ->
  exists vk, nth_error vals (Z.to_nat (norm_index (Z.of_nat (length vals)) i)) = Some vk /\
  forall j x, nth_error vals j = Some x -> dist v vk <= dist v x.
Proof.
  intros S H. destruct vals as [|v0 r]; [discriminate|]. unfold nearest_index in H. unfold norm_index.
  destruct (v <? v0) eqn:E1.
  - inversion H; subst. exists v0. split; [reflexivity|]. intros j x Hj. unfold dist. apply rnd_mono.
    assert (v0 <= x) by (apply (sorted_le_nth _ S 0%nat j v0 x); [lia|reflexivity|exact Hj]). lia.
  - destruct (last (v0 :: r) v0 <? v) eqn:E2.
    + inversion H; subst. exists (last (v0 :: r) v0). split.
      * change (-1 <? 0) with true. cbv iota.
        replace (Z.to_nat _) with (length (v0 :: r) - 1)%nat by (cbn [length]; lia). apply last_nth. discriminate.
      * intros j x Hj. unfold dist. apply rnd_mono.
        assert (x <= last (v0 :: r) v0).
        { apply (sorted_le_nth _ S j (length (v0 :: r) - 1)%nat x (last (v0 :: r) v0)).
          - apply nth_error_some_lt in Hj. lia.
          - exact Hj.
          - apply last_nth. discriminate. }
        lia.
    + inversion H; subst; clear H.
      pose proof (argmin_aux_spec (map (fun x => rnd (Z.abs (x - v))) (v0 :: r)) ltac:(discriminate)) as A.
      unfold argmin. destruct (argmin_aux _) as [k m]. cbn [fst]. destruct A as (A1 & A2 & _).
      rewrite nth_error_map in A1. destruct (Z.of_nat k <? 0) eqn:E3; [lia|]. rewrite Nat2Z.id.
      destruct (nth_error (v0 :: r) k) as [vk|]; [|discriminate]. exists vk. split; [reflexivity|].
      intros j x Hj. cbn [option_map] in A1. inversion A1. unfold dist. rewrite H0. apply (A2 j).
      rewrite nth_error_map, Hj. reflexivity.
Qed.
End Nearest.

(** strictly increasing values and exact arithmetic: the code's rule IS the plain first arg-min,
    i.e. nearest, and the earlier of two equidistant result sets *)
Lemma nearest_exact_is_argmin vals v i : sorted_lt vals -> nearest_index (fun z => z) vals v = Some i ->
  norm_index (Z.of_nat (length vals)) i = Z.of_nat (argmin (map (fun x => Z.abs (x - v)) vals)).
Proof.
  intros Hs H. destruct vals as [|v0 r]; [discriminate|]. unfold nearest_index in H. unfold norm_index.
  pose proof (argmin_aux_spec (map (fun x => Z.abs (x - v)) (v0 :: r)) ltac:(discriminate)) as A.
  unfold argmin in *. destruct (argmin_aux (map (fun x => Z.abs (x - v)) (v0 :: r))) as [k m]. cbn [fst] in *.
  destruct A as (A1 & A2 & A3). rewrite nth_error_map in A1.
  destruct (nth_error (v0 :: r) k) as [vk|] eqn:Ek; [|discriminate]. cbn [option_map] in A1. inversion A1 as [A1']; clear A1.
  destruct (v <? v0) eqn:E1.
  - inversion H; subst i. cbn [Z.ltb]. destruct k as [|k]; [reflexivity|]. exfalso.
    assert (Z.abs (vk - v) < Z.abs (v0 - v)). { rewrite A1'. apply (A3 0%nat); [lia|]. reflexivity. }
    assert (v0 < vk) by (apply (sorted_lt_nth _ Hs 0%nat (S k) v0 vk); [lia|reflexivity|exact Ek]). lia.
  - destruct (last (v0 :: r) v0 <? v) eqn:E2.
    + inversion H; subst i. change (-1 <? 0) with true. cbv iota.
      pose proof (last_nth (v0 :: r) v0 ltac:(discriminate)) as Hl.
      assert (Hk : (k < length (v0 :: r))%nat) by (eapply nth_error_some_lt; eauto).
      destruct (Nat.eq_dec k (length (v0 :: r) - 1)) as [->|Hne]; [lia|]. exfalso.
      assert (vk < last (v0 :: r) v0) by (apply (sorted_lt_nth _ Hs k (length (v0 :: r) - 1)%nat vk (last (v0 :: r) v0)); [lia|exact Ek|exact Hl]).
      assert (Z.abs (vk - v) <= Z.abs (last (v0 :: r) v0 - v)).
      { rewrite A1'. apply (A2 (length (v0 :: r) - 1)%nat). rewrite nth_error_map, Hl. reflexivity. }
      lia.
    + inversion H; subst i. destruct (Z.of_nat _ <? 0) eqn:E3; [lia|]. reflexivity.
Qed.

(** the rule is NOT a plain arg-min when the values are not increasing: the two clamps look
    only at the first and the last value *)
Lemma nearest_unsorted_refuted : exists vals v i vk x,
  nearest_index (fun z => z) vals v = Some i /\
  nth_error vals (Z.to_nat (norm_index (Z.of_nat (length vals)) i)) = Some vk /\
  In x vals /\ Z.abs (x - v) < Z.abs (vk - v).
Proof. exists [5; 1; 9; 3], 2, 0, 5, 1. vm_compute. repeat split; auto; discriminate. Qed.

(** ** invariants of navigation *)
Section Nav.
Variable rnd : Z -> Z.
Variable L : listing.
Hypothesis nonempty : lsets L <> [].

Definition at_index (s : state) : Prop :=
  0 <= idx s < nsets L /\ exists r, nth_error (lsets L) (Z.to_nat (idx s)) = Some r /\ tm s = rtime r /\ sp s = rstep r.
Definition shaped (s : state) : Prop := shape (tabs s) = shape (linit L).
Definition tabs_at_index (s : state) : Prop :=
  exists r, nth_error (lsets L) (Z.to_nat (idx s)) = Some r /\ tabs s = force (rtabs r).

Lemma nsets_pos : 0 < nsets L.
Proof. unfold nsets. destruct (lsets L); [congruence|cbn [length]; lia]. Qed.

Lemma times_nonempty : times L <> [] /\ steps L <> [].
Proof. unfold times, steps. destruct (lsets L); [congruence|split; discriminate]. Qed.

Lemma set_near_is_set_index f vals v s : vals <> [] -> length vals = length (lsets L) ->
  exists i, - nsets L <= i < nsets L /\ set_near L f vals v s = set_index L i s.
Proof.
  intros H Hl. unfold set_near. destruct (nearest_index_some f vals v H) as (i & E & _ & R). rewrite E.
  exists i. unfold nsets. rewrite <- Hl. auto.
Qed.

(** every operation either leaves the observable state alone or is a [set_index] inside the range *)
Lemma step_shape s o : 0 <= idx s < nsets L ->
  (observe (fst (step rnd L s o)) = observe s) \/
  (exists i s', - nsets L <= i < nsets L /\ set_index L i s = (s', ONone) /\ fst (step rnd L s o) = s').
Proof.
  intro R. pose proof nsets_pos as NP.
  assert (SI : forall i, - nsets L <= i < nsets L -> forall oc', exists s', set_index L i s = (s', ONone) /\
               fst (match set_index L i s with (s', OExn e) => (s', OExn e) | (s', _) => (s', oc') end) = s').
  { intros i Hi oc'. destruct (set_index_range_ok L i s Hi) as (s' & E). exists s'. rewrite E. auto. }
  destruct o; cbn [step].
  - right. destruct (set_index_range_ok L 0 s ltac:(lia)) as (s' & E). exists 0, s'. rewrite E. auto with zarith.
  - right. destruct (set_index_range_ok L (-1) s ltac:(lia)) as (s' & E). exists (-1), s'. rewrite E. repeat split; auto; lia.
  - destruct (idx s <? nsets L - 1) eqn:E; [|left; reflexivity].
    right. destruct (SI (idx s + 1) ltac:(lia) (OBool true)) as (s' & E1 & E2). exists (idx s + 1), s'. repeat split; auto; lia.
  - destruct (0 <? idx s) eqn:E; [|left; reflexivity].
    right. destruct (SI (idx s - 1) ltac:(lia) (OBool true)) as (s' & E1 & E2). exists (idx s - 1), s'. repeat split; auto; lia.
  - destruct (set_index_cases L i s) as [(s' & E)|E].
    + right. exists i, s'. rewrite E. split; [|auto].
      unfold set_index in E. destruct (pyindex i (lsets L)) eqn:P; [|discriminate].
      destruct (pyindex_norm _ _ _ P) as (_ & H & _). exact H.
    + left. rewrite E. reflexivity.
  - right. destruct times_nonempty as [T _].
    destruct (set_near_is_set_index rnd (times L) t s T) as (i & Hi & E); [apply map_length|].
    destruct (set_index_range_ok L i s Hi) as (s' & E'). exists i, s'. rewrite E, E'. auto.
  - right. destruct times_nonempty as [_ T].
    destruct (set_near_is_set_index (fun z => z) (steps L) k s T) as (i & Hi & E); [apply map_length|].
    destruct (set_index_range_ok L i s Hi) as (s' & E'). exists i, s'. rewrite E, E'. auto.
  - left. reflexivity.
  - left. reflexivity.
Qed.

Lemma open_ok : exists s0, set_index L 0 (blank L) = (s0, ONone) /\ open L = s0.
Proof.
  destruct (set_index_range_ok L 0 (blank L)) as (s0 & E); [pose proof nsets_pos; lia|].
  exists s0. unfold open. rewrite E. auto.
Qed.

Lemma at_index_open : at_index (open L) /\ shaped (open L).
Proof.
  destruct open_ok as (s0 & E & ->). destruct (set_index_ok _ _ _ _ E) as (R & r & N & T & S & B & _).
  split; [split; [exact R|exists r; auto]|]. unfold shaped. rewrite B, ovr_tabs_shape. reflexivity.
Qed.

Lemma at_index_step s o : at_index s /\ shaped s -> at_index (fst (step rnd L s o)) /\ shaped (fst (step rnd L s o)).
Proof.
  intros [A Sh]. destruct (step_shape s o (proj1 A)) as [E|(i & s' & Hi & E & ->)].
  - unfold observe in E. inversion E as [[E1 E2 E3 E4]]. unfold at_index, shaped. rewrite E1, E2, E3, E4. auto.
  - destruct (set_index_ok _ _ _ _ E) as (R & r & N & T & S & B & _).
    split; [split; [exact R|exists r; auto]|]. unfold shaped. rewrite B, ovr_tabs_shape. exact Sh.
Qed.

Lemma at_index_run ops : forall s, at_index s /\ shaped s -> at_index (run rnd L s ops) /\ shaped (run rnd L s ops).
Proof. induction ops as [|o r IH]; intros s H; cbn [run]; auto. apply IH, at_index_step, H. Qed.

(** index, time and step are those of the result set at the reported index -- any listing *)
Lemma nav_index_time_step ops : at_index (run rnd L (open L) ops).
Proof. apply at_index_run, at_index_open. Qed.

(** ... and with a uniform listing so are the tables *)
Section Uniform.
Hypothesis unif : uniform L.

Lemma uniform_nth k r : nth_error (lsets L) k = Some r -> uniform_set L r.
Proof. intro H. unfold uniform in unif. rewrite Forall_forall in unif. apply unif. eapply nth_error_In; eauto. Qed.

Lemma set_index_tabs i s s' : shaped s -> set_index L i s = (s', ONone) -> tabs_at_index s'.
Proof.
  intros Sh E. destruct (set_index_ok _ _ _ _ E) as (R & r & N & T & S & B & _).
  exists r. split; [exact N|]. rewrite B. destruct (uniform_nth _ _ N) as [U1 U2].
  apply ovr_tabs_full; auto. rewrite U1. symmetry. exact Sh.
Qed.

Lemma tabs_open : tabs_at_index (open L).
Proof.
  destruct open_ok as (s0 & E & ->). eapply set_index_tabs; [|exact E]. reflexivity.
Qed.

Lemma tabs_step s o : at_index s /\ shaped s -> tabs_at_index s -> tabs_at_index (fst (step rnd L s o)).
Proof.
  intros [A Sh] T. destruct (step_shape s o (proj1 A)) as [E|(i & s' & Hi & E & ->)].
  - unfold observe in E. inversion E as [[E1 E2 E3 E4]]. unfold tabs_at_index. rewrite E1, E4. exact T.
  - eapply set_index_tabs; eauto.
Qed.

Lemma tabs_run ops : forall s, at_index s /\ shaped s -> tabs_at_index s -> tabs_at_index (run rnd L s ops).
Proof.
  induction ops as [|o r IH]; intros s H T; cbn [run]; auto.
  apply IH; [apply at_index_step, H|apply tabs_step; auto].
Qed.

(** MAIN: after any operation sequence the observable state is that of a freshly opened
    listing positioned directly at the final index *)
Lemma nav_fresh ops :
  let s := run rnd L (open L) ops in
  exists f, fresh_at L (idx s) = (f, ONone) /\ observe s = observe f.
Proof.
  cbn zeta. set (s := run rnd L (open L) ops).
  destruct (at_index_run ops (open L) at_index_open) as [A Sh]. fold s in A, Sh.
  pose proof (tabs_run ops (open L) at_index_open tabs_open) as T. fold s in T.
  destruct A as (R & r & N & Tm & Sp). destruct T as (r' & N' & Tb). rewrite N in N'. inversion N'; subst r'.
  unfold fresh_at. destruct (set_index_range_ok L (idx s) (open L) ltac:(lia)) as (f & E).
  exists f. split; [exact E|].
  destruct (set_index_ok _ _ _ _ E) as (Rf & rf & Nf & Tf & Sf & Bf & If).
  destruct (idx s <? 0) eqn:E0; [lia|]. rewrite If in Nf. rewrite N in Nf. inversion Nf; subst rf.
  unfold observe. rewrite If, Tf, Sf, Tm, Sp, Tb. f_equal.
  destruct (set_index_tabs _ _ _ (proj2 at_index_open) E) as (r2 & N2 & T2).
  rewrite If, N in N2. inversion N2; subst r2. symmetry. exact T2.
Qed.
End Uniform.

(** ** next / prev *)
Lemma next_spec s : 0 <= idx s < nsets L ->
  exists s' b, step rnd L s Next = (s', OBool b) /\
    b = (idx s <? nsets L - 1) /\ idx s' = (if b then idx s + 1 else idx s) /\
    (b = false -> s' = s) /\ 0 <= idx s' < nsets L.
Proof.
  intro R. cbn [step]. destruct (idx s <? nsets L - 1) eqn:E.
  - destruct (set_index_range_ok L (idx s + 1) s ltac:(lia)) as (s' & E'). rewrite E'. exists s', true.
    destruct (set_index_ok _ _ _ _ E') as (R' & _ & _ & _ & _ & _ & I).
    destruct (idx s + 1 <? 0) eqn:E2; [lia|]. repeat split; auto; try lia; try discriminate.
  - exists s, false. repeat split; auto; lia.
Qed.
Lemma prev_spec s : 0 <= idx s < nsets L ->
  exists s' b, step rnd L s Prev = (s', OBool b) /\
    b = (0 <? idx s) /\ idx s' = (if b then idx s - 1 else idx s) /\
    (b = false -> s' = s) /\ 0 <= idx s' < nsets L.
Proof.
  intro R. cbn [step]. destruct (0 <? idx s) eqn:E.
  - destruct (set_index_range_ok L (idx s - 1) s ltac:(lia)) as (s' & E'). rewrite E'. exists s', true.
    destruct (set_index_ok _ _ _ _ E') as (R' & _ & _ & _ & _ & _ & I).
    destruct (idx s - 1 <? 0) eqn:E2; [lia|]. repeat split; auto; try lia; try discriminate.
  - exists s, false. repeat split; auto; lia.
Qed.

(** ** the cursor is irrelevant: every navigation seeks absolutely *)
Definition same_obs (a b : state) : Prop := observe a = observe b.
Lemma nav_seeks_absolute_step a b o : same_obs a b ->
  same_obs (fst (step rnd L a o)) (fst (step rnd L b o)) /\ snd (step rnd L a o) = snd (step rnd L b o).
Proof.
  unfold same_obs, observe. intro H. inversion H as [[H1 H2 H3 H4]].
  assert (SI : forall i, fst (set_index L i a) = fst (set_index L i b) \/
                         (set_index L i a = (a, OExn IndexError) /\ set_index L i b = (b, OExn IndexError))).
  { intro i. unfold set_index. destruct (pyindex i (lsets L)); [left; cbn [fst]; rewrite H4; reflexivity|right; auto]. }
  assert (SO : forall i, snd (set_index L i a) = snd (set_index L i b)).
  { intro i. unfold set_index. destruct (pyindex i (lsets L)); reflexivity. }
  assert (G : forall i, (idx (fst (set_index L i a)), tm (fst (set_index L i a)), sp (fst (set_index L i a)), tabs (fst (set_index L i a))) =
                        (idx (fst (set_index L i b)), tm (fst (set_index L i b)), sp (fst (set_index L i b)), tabs (fst (set_index L i b)))
                        /\ snd (set_index L i a) = snd (set_index L i b)).
  { intro i. split; [|apply SO]. destruct (SI i) as [E|[E1 E2]]; [rewrite E; reflexivity|rewrite E1, E2; cbn [fst]; exact H]. }
  assert (G2 : forall i oc', let f := fun (p : state * outcome) => match p with (s', OExn e) => (s', OExn e) | (s', _) => (s', oc') end in
               (idx (fst (f (set_index L i a))), tm (fst (f (set_index L i a))), sp (fst (f (set_index L i a))), tabs (fst (f (set_index L i a)))) =
               (idx (fst (f (set_index L i b))), tm (fst (f (set_index L i b))), sp (fst (f (set_index L i b))), tabs (fst (f (set_index L i b))))
               /\ snd (f (set_index L i a)) = snd (f (set_index L i b))).
  { intros i oc'. cbn zeta. destruct (G i) as [G1 G3]. destruct (set_index L i a) as [sa oa], (set_index L i b) as [sb ob].
    cbn [fst snd] in *. subst ob. destruct oa; cbn [fst snd]; auto. }
  destruct o; cbn [step]; try apply G.
  - rewrite H1. destruct (idx b <? nsets L - 1); [apply (G2 (idx b + 1) (OBool true))|cbn [fst snd]; auto].
  - rewrite H1. destruct (0 <? idx b); [apply (G2 (idx b - 1) (OBool true))|cbn [fst snd]; auto].
  - unfold set_near. destruct (nearest_index rnd (times L) t); [apply G|cbn [fst snd]; auto].
  - unfold set_near. destruct (nearest_index _ (steps L) k); [apply G|cbn [fst snd]; auto].
  - cbn [fst snd idx tm sp tabs]. auto.
  - cbn [fst snd]. auto.
Qed.
End Nav.

(** ** setting a time / a step selects the nearest result set *)
Section SetNear.
Variable rnd : Z -> Z.
Hypothesis rnd_mono : forall a b, 0 <= a <= b -> rnd a <= rnd b.
Variable L : listing.
Hypothesis nonempty : lsets L <> [].

Lemma set_near_nearest (f : Z -> Z) (proj : rset -> Z) s v :
  (forall a b, 0 <= a <= b -> f a <= f b) -> sorted_le (map proj (lsets L)) ->
  exists s' r, set_near L f (map proj (lsets L)) v s = (s', ONone) /\ 0 <= idx s' < nsets L /\
    nth_error (lsets L) (Z.to_nat (idx s')) = Some r /\ tm s' = rtime r /\ sp s' = rstep r /\
    forall j x, nth_error (map proj (lsets L)) j = Some x -> f (Z.abs (proj r - v)) <= f (Z.abs (x - v)).
Proof.
  intros Fm Srt. set (vals := map proj (lsets L)).
  assert (NE : vals <> []) by (subst vals; destruct (lsets L); [congruence|discriminate]).
  destruct (nearest_index_some f vals v NE) as (i & E & _ & R).
  assert (Hl : length vals = length (lsets L)) by (subst vals; apply map_length).
  unfold set_near. rewrite E.
  destruct (set_index_range_ok L i s) as (s' & E'); [unfold nsets; rewrite <- Hl; exact R|].
  destruct (set_index_ok _ _ _ _ E') as (R' & r & N & T & Sp & _ & I).
  exists s', r. repeat split; auto; try lia.
  destruct (nearest_minimises f Fm vals v i Srt E) as (vk & Nk & Min).
  unfold norm_index in Nk. rewrite Hl in Nk. fold (nsets L) in Nk. rewrite <- I in Nk.
  subst vals. rewrite nth_error_map, N in Nk. cbn [option_map] in Nk. inversion Nk; subst vk.
  intros j x Hj. apply (Min j x Hj).
Qed.

Lemma set_time_nearest s t : sorted_le (times L) ->
  exists s', step rnd L s (SetTime t) = (s', ONone) /\ 0 <= idx s' < nsets L /\
    nth_error (times L) (Z.to_nat (idx s')) = Some (tm s') /\
    forall j x, nth_error (times L) j = Some x -> rnd (Z.abs (tm s' - t)) <= rnd (Z.abs (x - t)).
Proof.
  intro Srt. destruct (set_near_nearest rnd rtime s t rnd_mono Srt) as (s' & r & E & R & N & T & _ & Min).
  exists s'. cbn [step]. split; [exact E|]. split; [exact R|]. split.
  - unfold times. rewrite nth_error_map, N, T. reflexivity.
  - rewrite T. exact Min.
Qed.

Lemma set_step_nearest s k : sorted_le (steps L) ->
  exists s', step rnd L s (SetStep k) = (s', ONone) /\ 0 <= idx s' < nsets L /\
    nth_error (steps L) (Z.to_nat (idx s')) = Some (sp s') /\
    forall j x, nth_error (steps L) j = Some x -> Z.abs (sp s' - k) <= Z.abs (x - k).
Proof.
  intro Srt. destruct (set_near_nearest (fun z => z) rstep s k ltac:(cbv beta; intros; lia) Srt) as (s' & r & E & R & N & _ & T & Min).
  exists s'. cbn [step]. split; [exact E|]. split; [exact R|]. split.
  - unfold steps. rewrite nth_error_map, N, T. reflexivity.
  - rewrite T. exact Min.
Qed.
End SetNear.

(** exact arithmetic, strictly increasing: the selected index is numpy's first arg-min of |v_i - v|
    (nearest; of two equidistant result sets the earlier one) *)
Lemma set_step_first_argmin L s k : lsets L <> [] -> sorted_lt (steps L) ->
  idx (fst (step (fun z => z) L s (SetStep k))) = Z.of_nat (argmin (map (fun x => Z.abs (x - k)) (steps L))).
Proof.
  intros NE Srt. cbn [step]. unfold set_near.
  assert (NE' : steps L <> []) by (unfold steps; destruct (lsets L); [congruence|discriminate]).
  destruct (nearest_index_some (fun z => z) (steps L) k NE') as (i & E & _ & R). rewrite E.
  assert (Hl : length (steps L) = length (lsets L)) by apply map_length.
  destruct (set_index_range_ok L i s) as (s' & E'); [unfold nsets; rewrite <- Hl; exact R|].
  rewrite E'. cbn [fst]. destruct (set_index_ok _ _ _ _ E') as (_ & _ & _ & _ & _ & _ & I).
  rewrite I. rewrite <- (nearest_exact_is_argmin (steps L) k i Srt E). unfold norm_index, nsets. rewrite Hl. reflexivity.
Qed.

(** the uniformity hypothesis cannot be dropped: a listing shaped like tests/listing/TOUGH2/11
    (a table that is not read at the third result set) *)
Definition L_nonuniform : listing :=
  {| linit := [[0]; [0]];
     lsets := [ {| rtime := 1; rstep := 1; rtabs := [[Some 10]; [Some 100]] |};
                {| rtime := 3; rstep := 2; rtabs := [[Some 11]; [Some 101]] |};
                {| rtime := 9; rstep := 7; rtabs := [[Some 12]; [None]] |} ] |}.
Lemma nav_fresh_refuted : exists L ops, lsets L <> [] /\
  let s := run (fun z => z) L (open L) ops in
  observe s <> observe (fst (fresh_at L (idx s))).
Proof. exists L_nonuniform, [SetIndex 1; SetIndex 2]. split; [discriminate|]. vm_compute. intro H. discriminate H. Qed.

(** ** float64 rounding of a non-negative integer to 53 significant bits, ties to even
    (times are scaled by a common power of two so that they are integers) *)
Definition round53 (x : Z) : Z :=
  if x <? 2 ^ 53 then x else
  let s := Z.log2 x - 52 in
  let q := x / 2 ^ s in let r := x mod 2 ^ s in let h := 2 ^ (s - 1) in
  (if r <? h then q else if h <? r then q + 1 else if Z.even q then q else q + 1) * 2 ^ s.
