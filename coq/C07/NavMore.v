(** C07 -- further consequences of the navigation model of ListingNav.v:
    first/last, history inside a sequence, clamping before the first / after the last value,
    exact hits, next/prev on every reachable state, the per-step trace of the correspondence
    driver, and freshness TABLE BY TABLE for listings that are not uniform. *)
From Coq Require Import Ascii String List Bool Arith ZArith NArith Lia ZifyBool.
From PTBase Require Import Exn PyStr.
From P Require Import ListingNav Round.
Import ListNotations.
Open Scope Z_scope.

(** ** first / last *)
Lemma first_last_spec rnd L s : lsets L <> [] ->
  (exists s' r, step rnd L s First = (s', ONone) /\ idx s' = 0 /\
     nth_error (lsets L) 0 = Some r /\ tm s' = rtime r /\ sp s' = rstep r /\ tabs s' = ovr_tabs (tabs s) (rtabs r)) /\
  (exists s' r, step rnd L s Last = (s', ONone) /\ idx s' = nsets L - 1 /\
     nth_error (lsets L) (Z.to_nat (nsets L - 1)) = Some r /\ tm s' = rtime r /\ sp s' = rstep r /\ tabs s' = ovr_tabs (tabs s) (rtabs r)).
Proof.
  intro NE. pose proof (nsets_pos L NE) as NP. split; cbn [step].
  - destruct (set_index_range_ok L 0 s ltac:(lia)) as (s' & E). rewrite E.
    destruct (set_index_ok _ _ _ _ E) as (_ & r & N & T & S & B & I).
    change (0 <? 0) with false in I. cbv iota in I. rewrite I in N. exists s', r. auto 7.
  - destruct (set_index_range_ok L (-1) s ltac:(lia)) as (s' & E). rewrite E.
    destruct (set_index_ok _ _ _ _ E) as (_ & r & N & T & S & B & I).
    change (-1 <? 0) with true in I. cbv iota in I. replace (-1 + nsets L) with (nsets L - 1) in I by lia.
    rewrite I in N. exists s', r. auto 7.
Qed.

(** ** history: nothing observable changes, nothing is raised (for selections on which it returns) *)
Lemma history_keeps_state rnd L s :
  observe (fst (step rnd L s History)) = observe s /\ snd (step rnd L s History) = ONone /\
  step rnd L s HistoryNone = (s, ONone).
Proof. repeat split; reflexivity. Qed.

(** ** a value before the first / after the last one: the same as first() / last() -- no order assumed *)
Lemma nearest_index_below rnd vals v v0 : hd_error vals = Some v0 -> v < v0 -> nearest_index rnd vals v = Some 0.
Proof.
  destruct vals as [|x r]; [discriminate|]. cbn [hd_error]. intros H Hv. inversion H; subst x.
  unfold nearest_index. destruct (v <? v0) eqn:E; [reflexivity|lia].
Qed.
Lemma nearest_index_above rnd vals v v0 : hd_error vals = Some v0 -> v0 <= v -> last vals v0 < v ->
  nearest_index rnd vals v = Some (-1).
Proof.
  destruct vals as [|x r]; [discriminate|]. cbn [hd_error]. intros H Hv Hl. inversion H; subst x.
  unfold nearest_index. destruct (v <? v0) eqn:E; [lia|]. destruct (last (v0 :: r) v0 <? v) eqn:E2; [reflexivity|lia].
Qed.

Lemma set_time_outside rnd L s t t0 : hd_error (times L) = Some t0 ->
  (t < t0 -> step rnd L s (SetTime t) = step rnd L s First) /\
  (t0 <= t -> last (times L) t0 < t -> step rnd L s (SetTime t) = step rnd L s Last).
Proof.
  intro H. split; intros; cbn [step]; unfold set_near.
  - rewrite (nearest_index_below rnd _ _ _ H); auto.
  - rewrite (nearest_index_above rnd _ _ _ H); auto.
Qed.
Lemma set_step_outside rnd L s k k0 : hd_error (steps L) = Some k0 ->
  (k < k0 -> step rnd L s (SetStep k) = step rnd L s First) /\
  (k0 <= k -> last (steps L) k0 < k -> step rnd L s (SetStep k) = step rnd L s Last).
Proof.
  intro H. split; intros; cbn [step]; unfold set_near.
  - rewrite (nearest_index_below _ _ _ _ H); auto.
  - rewrite (nearest_index_above _ _ _ _ H); auto.
Qed.

(** ** an exact hit selects that very result set (strictly increasing values; the rounding maps
    only 0 to 0) *)
Lemma nearest_index_exact rnd vals v i j :
  (forall a b, 0 <= a <= b -> rnd a <= rnd b) -> rnd 0 = 0 -> (forall a, 0 < a -> 0 < rnd a) ->
  sorted_lt vals -> nth_error vals j = Some v -> nearest_index rnd vals v = Some i ->
  norm_index (Z.of_nat (length vals)) i = Z.of_nat j.
Proof.
  intros Mono R0 Rpos Srt Hj H.
  destruct (nearest_minimises rnd Mono vals v i (sorted_lt_le _ Srt) H) as (vk & Nk & Min).
  specialize (Min j v Hj). unfold dist in Min. replace (v - v) with 0 in Min by lia. cbn [Z.abs] in Min. rewrite R0 in Min.
  assert (vk = v).
  { destruct (Z.eq_dec vk v) as [|Hne]; [assumption|]. specialize (Rpos (Z.abs (vk - v)) ltac:(lia)). lia. }
  subst vk. set (k := Z.to_nat (norm_index (Z.of_nat (length vals)) i)) in *.
  assert (Hk : (k < length vals)%nat) by (eapply nth_error_some_lt; eauto).
  assert (k = j).
  { destruct (lt_eq_lt_dec k j) as [[Hlt|Heq]|Hgt]; [|exact Heq|].
    - pose proof (sorted_lt_nth _ Srt k j v v Hlt Nk Hj). lia.
    - pose proof (sorted_lt_nth _ Srt j k v v Hgt Hj Nk). lia. }
  subst j. subst k.
  destruct vals as [|v0 r]; [destruct (Z.to_nat _); discriminate|].
  destruct (nearest_index_some rnd (v0 :: r) v ltac:(discriminate)) as (i' & E' & Rg & _).
  rewrite H in E'. inversion E'; subst i'. rewrite Z2Nat.id; lia.
Qed.

Lemma set_near_exact (L : listing) rnd (proj : rset -> Z) s v j :
  (forall a b, 0 <= a <= b -> rnd a <= rnd b) -> rnd 0 = 0 -> (forall a, 0 < a -> 0 < rnd a) ->
  sorted_lt (map proj (lsets L)) -> nth_error (map proj (lsets L)) j = Some v ->
  exists s', set_near L rnd (map proj (lsets L)) v s = (s', ONone) /\ idx s' = Z.of_nat j.
Proof.
  intros Mono R0 Rpos Srt Hj. set (vals := map proj (lsets L)) in *.
  assert (NE : vals <> []) by (intro E; rewrite E in Hj; destruct j; discriminate).
  destruct (nearest_index_some rnd vals v NE) as (i & E & _ & R).
  assert (Hl : length vals = length (lsets L)) by (subst vals; apply map_length).
  unfold set_near. rewrite E.
  destruct (set_index_range_ok L i s) as (s' & E'); [unfold nsets; rewrite <- Hl; exact R|].
  exists s'. split; [exact E'|]. destruct (set_index_ok _ _ _ _ E') as (_ & _ & _ & _ & _ & _ & I).
  rewrite I. rewrite <- (nearest_index_exact rnd vals v i j Mono R0 Rpos Srt Hj E).
  unfold norm_index, nsets. rewrite Hl. reflexivity.
Qed.

Lemma set_time_exact rnd L s t j :
  (forall a b, 0 <= a <= b -> rnd a <= rnd b) -> rnd 0 = 0 -> (forall a, 0 < a -> 0 < rnd a) ->
  sorted_lt (times L) -> nth_error (times L) j = Some t ->
  exists s', step rnd L s (SetTime t) = (s', ONone) /\ idx s' = Z.of_nat j.
Proof. intros. cbn [step]. apply set_near_exact; assumption. Qed.
Lemma set_step_exact rnd L s k j : sorted_lt (steps L) -> nth_error (steps L) j = Some k ->
  exists s', step rnd L s (SetStep k) = (s', ONone) /\ idx s' = Z.of_nat j.
Proof. intros. cbn [step]. apply set_near_exact; try assumption; intros; lia. Qed.

(** ** next / prev on every state that navigation can reach *)
Lemma next_prev_reachable rnd L : lsets L <> [] -> forall ops, let s := run rnd L (open L) ops in
  (exists s' b, step rnd L s Next = (s', OBool b) /\ b = (idx s <? nsets L - 1) /\
     idx s' = (if b then idx s + 1 else idx s) /\ (b = false -> s' = s) /\ 0 <= idx s' < nsets L) /\
  (exists s' b, step rnd L s Prev = (s', OBool b) /\ b = (0 <? idx s) /\
     idx s' = (if b then idx s - 1 else idx s) /\ (b = false -> s' = s) /\ 0 <= idx s' < nsets L).
Proof.
  intros NE ops. cbn zeta. destruct (nav_index_time_step rnd L NE ops) as (R & _).
  split; [apply next_spec|apply prev_spec]; exact R.
Qed.

(** ** the per-step trace printed by the correspondence driver consists of the states [run] reaches *)
Lemma last_cons_default {A} (l : list A) x d : last (x :: l) d = last l x.
Proof. revert x d. induction l as [|y r IH]; intros x d; [reflexivity|]. change (last (x :: y :: r) d) with (last (y :: r) d). rewrite !IH. reflexivity. Qed.
Lemma trace_last rnd L ops : forall s, run rnd L s ops = last (map snd (trace rnd L s ops)) s.
Proof.
  induction ops as [|o r IH]; intro s; [reflexivity|]. cbn [run trace].
  destruct (step rnd L s o) as [s' oc] eqn:E. cbn [fst map snd]. rewrite last_cons_default. apply IH.
Qed.
Lemma trace_app rnd L a : forall b s, trace rnd L s (a ++ b) = (trace rnd L s a ++ trace rnd L (run rnd L s a) b)%list.
Proof.
  induction a as [|o r IH]; intros b s; [reflexivity|]. cbn [app trace run].
  destruct (step rnd L s o) as [s' oc] eqn:E. cbn [fst app]. f_equal. apply IH.
Qed.
(** the k-th printed observation is the state after the first k+1 actions, with the k-th action's outcome *)
Lemma trace_nth rnd L ops : forall s k o, nth_error ops k = Some o ->
  nth_error (trace rnd L s ops) k =
  Some (snd (step rnd L (run rnd L s (firstn k ops)) o), run rnd L s (firstn (S k) ops)).
Proof.
  induction ops as [|o' r IH]; intros s k o H; [destruct k; discriminate|].
  destruct k as [|k]; cbn [nth_error] in H.
  - inversion H; subst o'. cbn [trace firstn run]. destruct (step rnd L s o) as [s' oc]. reflexivity.
  - cbn [trace]. destruct (step rnd L s o') as [s' oc] eqn:E. cbn [nth_error].
    rewrite (IH s' k o H). cbn [firstn run]. rewrite E. reflexivity.
Qed.

(** ** freshness table by table: a table all of whose cells are assigned at every result set shows,
    after any navigation, what a fresh listing shows -- whatever happens to the other tables
    (tests/listing/TOUGH2/11: element and connection are such tables, generation is not) *)
Definition tab_ok (L : listing) (k : nat) (r : rset) : Prop :=
  exists c, nth_error (rtabs r) k = Some c /\ length c = length (nth k (linit L) []) /\ Forall (fun o : option Z => o <> None) c.
Definition uniform_table (L : listing) (k : nat) : Prop := (k < length (linit L))%nat /\ Forall (tab_ok L k) (lsets L).

Lemma ovr_tabs_nth_full old : forall new k o c, nth_error old k = Some o -> nth_error new k = Some c ->
  length c = length o -> Forall (fun x : option Z => x <> None) c ->
  nth_error (ovr_tabs old new) k = Some (force_cells c).
Proof.
  induction old as [|o' os IH]; intros [|c' cs] k o c Ho Hc Hl Hs; try (destruct k; discriminate).
  destruct k as [|k]; cbn [nth_error ovr_tabs] in *.
  - inversion Ho; inversion Hc; subst. f_equal. apply ovr_cells_full; auto.
  - eapply IH; eauto.
Qed.
Lemma shape_nth {A B} (a : list (list A)) : forall (b : list (list B)) k y, shape a = shape b -> nth_error b k = Some y ->
  exists x, nth_error a k = Some x /\ length x = length y.
Proof.
  induction a as [|x xs IH]; intros [|y' ys] k y H Hk; try discriminate; [destruct k; discriminate|].
  cbn [shape map] in H. inversion H. destruct k as [|k]; cbn [nth_error] in *.
  - inversion Hk; subst. eauto.
  - eapply IH; eauto.
Qed.

Section PerTable.
Variable rnd : Z -> Z.
Variable L : listing.
Hypothesis nonempty : lsets L <> [].
Variable k : nat.
Hypothesis unif_k : uniform_table L k.

Definition tab_at_index (s : state) : Prop :=
  exists r c, nth_error (lsets L) (Z.to_nat (idx s)) = Some r /\ nth_error (rtabs r) k = Some c /\
              nth_error (tabs s) k = Some (force_cells c).

Lemma set_index_tab i s s' : shaped L s -> set_index L i s = (s', ONone) -> tab_at_index s'.
Proof.
  intros Sh E. destruct (set_index_ok _ _ _ _ E) as (R & r & N & T & S & B & _).
  destruct unif_k as [Hk U]. rewrite Forall_forall in U.
  destruct (U r (nth_error_In _ _ N)) as (c & Hc & Hl & Hs).
  destruct (nth_error (linit L) k) as [y|] eqn:Ey; [|apply nth_error_None in Ey; lia].
  destruct (shape_nth (tabs s) (linit L) k y Sh Ey) as (o & Ho & Hlo).
  exists r, c. split; [exact N|]. split; [exact Hc|]. rewrite B.
  eapply ovr_tabs_nth_full; eauto. rewrite Hl, Hlo. f_equal. apply nth_error_nth. exact Ey.
Qed.

Lemma tab_open : tab_at_index (open L).
Proof. destruct (open_ok L nonempty) as (s0 & E & ->). eapply set_index_tab; [|exact E]. reflexivity. Qed.

Lemma tab_step s o : at_index L s /\ shaped L s -> tab_at_index s -> tab_at_index (fst (step rnd L s o)).
Proof.
  intros [A Sh] T. destruct (step_shape rnd L nonempty s o (proj1 A)) as [E|(i & s' & Hi & E & ->)].
  - unfold observe in E. inversion E as [[E1 E2 E3 E4]]. unfold tab_at_index. rewrite E1, E4. exact T.
  - eapply set_index_tab; eauto.
Qed.

Lemma tab_run ops : forall s, at_index L s /\ shaped L s -> tab_at_index s -> tab_at_index (run rnd L s ops).
Proof.
  induction ops as [|o r IH]; intros s H T; cbn [run]; auto.
  apply IH; [apply at_index_step; assumption|apply tab_step; auto].
Qed.

Lemma nav_fresh_table ops :
  let s := run rnd L (open L) ops in
  exists f, fresh_at L (idx s) = (f, ONone) /\ idx f = idx s /\ tm f = tm s /\ sp f = sp s /\
            nth_error (tabs s) k = nth_error (tabs f) k /\ nth_error (tabs s) k <> None.
Proof.
  cbn zeta. set (s := run rnd L (open L) ops).
  destruct (at_index_run rnd L nonempty ops (open L) (at_index_open L nonempty)) as [A Sh]. fold s in A, Sh.
  pose proof (tab_run ops (open L) (at_index_open L nonempty) tab_open) as T. fold s in T.
  destruct A as (R & r & N & Tm & Sp). destruct T as (r' & c & N' & Hc & Tb). rewrite N in N'. inversion N'; subst r'.
  unfold fresh_at. destruct (set_index_range_ok L (idx s) (open L) ltac:(lia)) as (f & E).
  exists f. split; [exact E|].
  destruct (set_index_ok _ _ _ _ E) as (Rf & rf & Nf & Tf & Sf & Bf & If).
  destruct (idx s <? 0) eqn:E0; [lia|]. rewrite If in Nf. rewrite N in Nf. inversion Nf; subst rf.
  split; [congruence|]. split; [congruence|]. split; [congruence|]. split; [|rewrite Tb; discriminate].
  destruct (set_index_tab _ _ _ (proj2 (at_index_open L nonempty)) E) as (r2 & c2 & N2 & Hc2 & T2).
  rewrite If, N in N2. inversion N2; subst r2. rewrite Hc in Hc2. inversion Hc2; subst c2. rewrite Tb, T2. reflexivity.
Qed.
End PerTable.

(** the hypothesis is met by the first table of the non-uniform example listing and not by its second *)
Example uniform_table_example : lsets L_nonuniform <> [] /\ uniform_table L_nonuniform 0.
Proof.
  split; [discriminate|]. split; [cbn; lia|]. unfold L_nonuniform; cbn [lsets].
  repeat constructor; eexists; (split; [reflexivity|split; [reflexivity|repeat constructor; discriminate]]).
Qed.

(** ** the hypotheses of the theorems are satisfiable: a uniform listing with three result sets,
    strictly increasing times and steps, and a navigation sequence through every kind of action *)
Definition L_ex : listing :=
  {| linit := [[0; 0]; [0]];
     lsets := [ {| rtime := 10; rstep := 1; rtabs := [[Some 1; Some 2]; [Some 3]] |};
                {| rtime := 30; rstep := 4; rtabs := [[Some 4; Some 5]; [Some 6]] |};
                {| rtime := 90; rstep := 9; rtabs := [[Some 7; Some 8]; [Some 9]] |} ] |}.
Example L_ex_hyps : lsets L_ex <> [] /\ uniform L_ex /\ sorted_lt (times L_ex) /\ sorted_lt (steps L_ex) /\
                    sorted_le (times L_ex) /\ sorted_le (steps L_ex) /\ uniform_table L_ex 1.
Proof.
  assert (U : uniform L_ex).
  { unfold uniform, L_ex; cbn [lsets]. repeat constructor; cbn; try discriminate. }
  assert (T : sorted_lt (times L_ex)) by (cbn; repeat constructor; lia).
  assert (S : sorted_lt (steps L_ex)) by (cbn; repeat constructor; lia).
  split; [discriminate|]. split; [exact U|]. split; [exact T|]. split; [exact S|].
  split; [apply sorted_lt_le; exact T|]. split; [apply sorted_lt_le; exact S|].
  split; [cbn; lia|]. unfold L_ex; cbn [lsets].
  repeat constructor; eexists; (split; [reflexivity|split; [reflexivity|repeat constructor; discriminate]]).
Qed.
Definition ops_ex : list op := [SetTime 50; Next; History; SetIndex (-3); SetStep 7; Prev; SetIndex 5; Last; HistoryNone; Next; SetTime 1000; SetStep 0].
Example L_ex_run :
  observe (run (fun z => z) L_ex (open L_ex) ops_ex) = observe (fst (fresh_at L_ex 0)) /\
  map fst (trace (fun z => z) L_ex (open L_ex) ops_ex) =
    [ONone; OBool true; ONone; ONone; ONone; OBool true; OExn IndexError; ONone; ONone; OBool false; ONone; ONone] /\
  map (fun p => idx (snd p)) (trace (fun z => z) L_ex (open L_ex) ops_ex) = [1; 2; 2; 0; 2; 1; 1; 2; 2; 2; 2; 0].
Proof. vm_compute. repeat split. Qed.

(** ** the two rounding-parametric theorems at the rounding the driver runs with (float64) *)
Lemma set_time_nearest_round53 L : lsets L <> [] -> forall s t, sorted_le (times L) ->
  exists s', step round53 L s (SetTime t) = (s', ONone) /\ 0 <= idx s' < nsets L /\
    nth_error (times L) (Z.to_nat (idx s')) = Some (tm s') /\
    forall j x, nth_error (times L) j = Some x -> round53 (Z.abs (tm s' - t)) <= round53 (Z.abs (x - t)).
Proof. exact (ListingNav.set_time_nearest round53 round53_mono L). Qed.
Lemma set_time_exact_round53 L s t j : sorted_lt (times L) -> nth_error (times L) j = Some t ->
  exists s', step round53 L s (SetTime t) = (s', ONone) /\ idx s' = Z.of_nat j.
Proof. exact (set_time_exact round53 L s t j round53_mono round53_zero round53_pos). Qed.

(** ** the dtype assumption of [set_step_nearest] / [set_time_nearest]: the subtraction [fullsteps - step] is
    exact for SIGNED machine integers (and monotonically rounded for float64 times).  With an unsigned
    32-bit steps array it wraps, |x - v| becomes (x - v) mod 2^32, and the arg-min is no longer the
    nearest result set (seeded change C07-m8); the harness checks on every run that the arrays are signed *)
Lemma nearest_unsigned_wrap_refuted : exists vals v x xi,
  sorted_lt vals /\ In x vals /\
  nth_error vals (argmin (map (fun y => (y - v) mod 2 ^ 32) vals)) = Some xi /\ Z.abs (x - v) < Z.abs (xi - v).
Proof.
  exists [10; 20], 12, 10, 20. split; [cbn; repeat constructor; lia|]. split; [left; reflexivity|].
  split; [vm_compute; reflexivity|vm_compute; reflexivity].
Qed.

(** ** round 8: two routes to the same index; next/prev round trips *)
Lemma run_app rnd L a : forall b s, run rnd L s (a ++ b) = run rnd L (run rnd L s a) b.
Proof. induction a as [|o a IH]; intros b s; cbn [app run]; auto. Qed.

(** two routes that end at the same index show the same thing *)
Lemma nav_same_index_same_obs rnd L : lsets L <> [] -> uniform L -> forall ops1 ops2,
  idx (run rnd L (open L) ops1) = idx (run rnd L (open L) ops2) ->
  observe (run rnd L (open L) ops1) = observe (run rnd L (open L) ops2).
Proof.
  intros HL HU ops1 ops2 Hi.
  pose proof (nav_fresh rnd L HL HU ops1) as H1. cbn zeta in H1. destruct H1 as (f1 & F1 & O1).
  pose proof (nav_fresh rnd L HL HU ops2) as H2. cbn zeta in H2. destruct H2 as (f2 & F2 & O2).
  rewrite Hi in F1. rewrite F1 in F2. inversion F2; subst f2. rewrite O1, O2. reflexivity.
Qed.

(** next then prev (when next can move), prev then next (when prev can move): back to what was shown *)
Lemma next_prev_round_trip rnd L : lsets L <> [] -> uniform L -> forall ops,
  let s := run rnd L (open L) ops in
  (idx s < nsets L - 1 -> observe (run rnd L s [Next; Prev]) = observe s) /\
  (0 < idx s -> observe (run rnd L s [Prev; Next]) = observe s).
Proof.
  intros HL HU ops s.
  pose proof (nav_index_time_step rnd L HL ops) as A. destruct A as [Hr _]. fold s in Hr.
  split; intro Hlt.
  - unfold s. rewrite <- run_app. apply nav_same_index_same_obs; auto. rewrite run_app. fold s.
    cbn [run].
    destruct (next_spec rnd L s Hr) as (s1 & b1 & E1 & Hb1 & Hi1 & _ & Hr1). rewrite E1. cbn [fst].
    destruct (prev_spec rnd L s1 Hr1) as (s2 & b2 & E2 & Hb2 & Hi2 & _ & _). rewrite E2. cbn [fst].
    assert (B1 : b1 = true) by (rewrite Hb1; apply Z.ltb_lt; lia). rewrite B1 in Hi1.
    assert (B2 : b2 = true) by (rewrite Hb2; apply Z.ltb_lt; lia). rewrite B2 in Hi2. lia.
  - unfold s. rewrite <- run_app. apply nav_same_index_same_obs; auto. rewrite run_app. fold s.
    cbn [run].
    destruct (prev_spec rnd L s Hr) as (s1 & b1 & E1 & Hb1 & Hi1 & _ & Hr1). rewrite E1. cbn [fst].
    destruct (next_spec rnd L s1 Hr1) as (s2 & b2 & E2 & Hb2 & Hi2 & _ & _). rewrite E2. cbn [fst].
    assert (B1 : b1 = true) by (rewrite Hb1; apply Z.ltb_lt; lia). rewrite B1 in Hi1.
    assert (B2 : b2 = true) by (rewrite Hb2; apply Z.ltb_lt; lia). rewrite B2 in Hi2. lia.
Qed.

(** ** round 8b: two routes to the same index without uniformity (time, step; table by table) *)
(** two routes to the same index: time and step agree on EVERY listing (no uniformity), and so does every
    table all of whose cells are assigned at every result set, whatever the other tables do *)
Lemma nav_same_index_same_tm_sp rnd L : lsets L <> [] -> forall ops1 ops2,
  idx (run rnd L (open L) ops1) = idx (run rnd L (open L) ops2) ->
  tm (run rnd L (open L) ops1) = tm (run rnd L (open L) ops2) /\
  sp (run rnd L (open L) ops1) = sp (run rnd L (open L) ops2).
Proof.
  intros HL ops1 ops2 Hi.
  pose proof (nav_index_time_step rnd L HL ops1) as H1. destruct H1 as (_ & r1 & N1 & T1 & S1).
  pose proof (nav_index_time_step rnd L HL ops2) as H2. destruct H2 as (_ & r2 & N2 & T2 & S2).
  rewrite Hi in N1. rewrite N1 in N2. inversion N2; subst r2. split; congruence.
Qed.
Lemma nav_same_index_same_tab rnd L : lsets L <> [] -> forall k, uniform_table L k -> forall ops1 ops2,
  idx (run rnd L (open L) ops1) = idx (run rnd L (open L) ops2) ->
  nth_error (tabs (run rnd L (open L) ops1)) k = nth_error (tabs (run rnd L (open L) ops2)) k /\
  nth_error (tabs (run rnd L (open L) ops1)) k <> None.
Proof.
  intros HL k Hk ops1 ops2 Hi.
  pose proof (nav_fresh_table rnd L HL k Hk ops1) as H1. cbn zeta in H1. destruct H1 as (f1 & F1 & _ & _ & _ & E1 & NN).
  pose proof (nav_fresh_table rnd L HL k Hk ops2) as H2. cbn zeta in H2. destruct H2 as (f2 & F2 & _ & _ & _ & E2 & _).
  rewrite Hi in F1. rewrite F1 in F2. inversion F2; subst f2. split; [congruence|exact NN].
Qed.
