(** C07 -- property theorems only.  Each is closed by [exact] of a lemma proved in
    ListingNav.v and followed by Print Assumptions. *)
From Coq Require Import Ascii String List Bool ZArith NArith.
From PTBase Require Import Exn PyStr.
From P Require Import ListingNav Round NavMore Uniform Table.
Import ListNotations.
Open Scope Z_scope.

(** After ANY operation sequence on a listing with >= 1 result set whose result sets all
    assign every table cell, the observable state (index, time, step, tables) is the one a
    freshly opened listing shows when positioned directly at the final index. *)
Theorem nav_state_is_fresh_at_index : forall rnd L, lsets L <> [] -> uniform L -> forall ops,
  let s := run rnd L (open L) ops in
  exists f, fresh_at L (idx s) = (f, ONone) /\ observe s = observe f.
Proof. exact nav_fresh. Qed.
Print Assumptions nav_state_is_fresh_at_index.

(** index, time and step are those of the result set at the reported index for EVERY listing
    with >= 1 result set (no uniformity needed) *)
Theorem nav_index_time_step_fresh : forall rnd L, lsets L <> [] -> forall ops,
  let s := run rnd L (open L) ops in
  0 <= idx s < nsets L /\ exists r, nth_error (lsets L) (Z.to_nat (idx s)) = Some r /\ tm s = rtime r /\ sp s = rstep r.
Proof. exact nav_index_time_step. Qed.
Print Assumptions nav_index_time_step_fresh.

(** uniformity cannot be dropped: a listing in which one result set leaves a table unread
    (the shape of tests/listing/TOUGH2/11) shows different tables after different routes *)
Theorem nav_fresh_refuted_nonuniform : exists L ops, lsets L <> [] /\
  let s := run (fun z => z) L (open L) ops in observe s <> observe (fst (fresh_at L (idx s))).
Proof. exact nav_fresh_refuted. Qed.
Print Assumptions nav_fresh_refuted_nonuniform.

(** next / prev: report whether they moved, move by exactly one, never leave [0, n-1],
    and at either end return false and change nothing *)
Theorem next_prev_bounds : forall rnd L s, 0 <= idx s < nsets L ->
  (exists s' b, step rnd L s Next = (s', OBool b) /\ b = (idx s <? nsets L - 1) /\
     idx s' = (if b then idx s + 1 else idx s) /\ (b = false -> s' = s) /\ 0 <= idx s' < nsets L) /\
  (exists s' b, step rnd L s Prev = (s', OBool b) /\ b = (0 <? idx s) /\
     idx s' = (if b then idx s - 1 else idx s) /\ (b = false -> s' = s) /\ 0 <= idx s' < nsets L).
Proof. intros rnd L s H. split; [exact (next_spec rnd L s H)|exact (prev_spec rnd L s H)]. Qed.
Print Assumptions next_prev_bounds.

(** an index outside [-n, n-1] raises IndexError and changes nothing; inside, the seek with the
    raw (possibly negative) index reads the result set of the normalised index *)
Theorem set_index_out_of_range_unchanged : forall L i s, i < - nsets L \/ nsets L <= i -> set_index L i s = (s, OExn IndexError).
Proof. exact set_index_out_of_range. Qed.
Print Assumptions set_index_out_of_range_unchanged.
Theorem set_index_reads_normalised_index : forall L i s s', set_index L i s = (s', ONone) ->
  0 <= idx s' < nsets L /\ exists r, nth_error (lsets L) (Z.to_nat (idx s')) = Some r /\
  tm s' = rtime r /\ sp s' = rstep r /\ tabs s' = ovr_tabs (tabs s) (rtabs r) /\
  idx s' = (if i <? 0 then i + nsets L else i).
Proof. exact set_index_ok. Qed.
Print Assumptions set_index_reads_normalised_index.

(** setting a time: for (weakly) increasing times and any monotone rounding of the subtraction,
    the selected result set minimises the computed distance |t_i - t| over all result sets *)
Theorem set_time_nearest : forall rnd, (forall a b, 0 <= a <= b -> rnd a <= rnd b) ->
  forall L, lsets L <> [] -> forall s t, sorted_le (times L) ->
  exists s', step rnd L s (SetTime t) = (s', ONone) /\ 0 <= idx s' < nsets L /\
    nth_error (times L) (Z.to_nat (idx s')) = Some (tm s') /\
    forall j x, nth_error (times L) j = Some x -> rnd (Z.abs (tm s' - t)) <= rnd (Z.abs (x - t)).
Proof. exact ListingNav.set_time_nearest. Qed.
Print Assumptions set_time_nearest.
(** ... float64 subtraction (round to nearest even, 53 bits) is such a rounding *)
Theorem round53_monotone : forall a b, 0 <= a <= b -> round53 a <= round53 b.
Proof. exact round53_mono. Qed.
Print Assumptions round53_monotone.

Theorem set_step_nearest : forall rnd L, lsets L <> [] -> forall s k, sorted_le (steps L) ->
  exists s', step rnd L s (SetStep k) = (s', ONone) /\ 0 <= idx s' < nsets L /\
    nth_error (steps L) (Z.to_nat (idx s')) = Some (sp s') /\
    forall j x, nth_error (steps L) j = Some x -> Z.abs (sp s' - k) <= Z.abs (x - k).
Proof. intros rnd L H s k. exact (ListingNav.set_step_nearest rnd L H s k). Qed.
Print Assumptions set_step_nearest.

(** tie / clamp rule: with strictly increasing values and exact arithmetic the code's rule
    (clamp below the first, clamp above the last, else numpy.argmin) is exactly the FIRST arg-min:
    of two equidistant result sets the earlier one is selected *)
Theorem nearest_rule_is_first_argmin : forall vals v i, sorted_lt vals -> nearest_index (fun z => z) vals v = Some i ->
  norm_index (Z.of_nat (length vals)) i = Z.of_nat (argmin (map (fun x => Z.abs (x - v)) vals)).
Proof. exact nearest_exact_is_argmin. Qed.
Print Assumptions nearest_rule_is_first_argmin.
Theorem argmin_is_first_minimum : forall l, l <> [] ->
  let (k, m) := argmin_aux l in
  nth_error l k = Some m /\ (forall j x, nth_error l j = Some x -> m <= x) /\
  (forall j x, (j < k)%nat -> nth_error l j = Some x -> m < x).
Proof. exact argmin_aux_spec. Qed.
Print Assumptions argmin_is_first_minimum.
(** ... and it is not an arg-min when the values are not increasing *)
Theorem nearest_rule_unsorted_refuted : exists vals v i vk x,
  nearest_index (fun z => z) vals v = Some i /\
  nth_error vals (Z.to_nat (norm_index (Z.of_nat (length vals)) i)) = Some vk /\
  In x vals /\ Z.abs (x - v) < Z.abs (vk - v).
Proof. exact nearest_unsorted_refuted. Qed.
Print Assumptions nearest_rule_unsorted_refuted.

(** the file offset left behind (e.g. by history) is irrelevant: every action seeks absolutely *)
Theorem nav_seeks_absolute : forall rnd L a b o, observe a = observe b ->
  observe (fst (step rnd L a o)) = observe (fst (step rnd L b o)) /\ snd (step rnd L a o) = snd (step rnd L b o).
Proof. exact nav_seeks_absolute_step. Qed.
Print Assumptions nav_seeks_absolute.

(** ---- added in round 2 ---- *)

(** freshness TABLE BY TABLE, for every listing with >= 1 result set: index, time and step are fresh and
    so is every table all of whose cells are assigned at every result set, whatever the other tables do
    (on tests/listing/TOUGH2/11 this covers element and connection; generation is the known finding) *)
Theorem nav_table_is_fresh_if_table_uniform : forall rnd L, lsets L <> [] -> forall k, uniform_table L k -> forall ops,
  let s := run rnd L (open L) ops in
  exists f, fresh_at L (idx s) = (f, ONone) /\ idx f = idx s /\ tm f = tm s /\ sp f = sp s /\
            nth_error (tabs s) k = nth_error (tabs f) k /\ nth_error (tabs s) k <> None.
Proof. exact nav_fresh_table. Qed.
Print Assumptions nav_table_is_fresh_if_table_uniform.

(** first() / last() position at the first / last result set and read it *)
Theorem first_last_position : forall rnd L s, lsets L <> [] ->
  (exists s' r, step rnd L s First = (s', ONone) /\ idx s' = 0 /\
     nth_error (lsets L) 0 = Some r /\ tm s' = rtime r /\ sp s' = rstep r /\ tabs s' = ovr_tabs (tabs s) (rtabs r)) /\
  (exists s' r, step rnd L s Last = (s', ONone) /\ idx s' = nsets L - 1 /\
     nth_error (lsets L) (Z.to_nat (nsets L - 1)) = Some r /\ tm s' = rtime r /\ sp s' = rstep r /\ tabs s' = ovr_tabs (tabs s) (rtabs r)).
Proof. exact first_last_spec. Qed.
Print Assumptions first_last_position.

(** extracting a history changes nothing that can be observed and raises nothing; a history() call in
    which no specification matches (absent table kind, unknown row) changes nothing at all *)
Theorem history_changes_nothing : forall rnd L s,
  observe (fst (step rnd L s History)) = observe s /\ snd (step rnd L s History) = ONone /\
  step rnd L s HistoryNone = (s, ONone).
Proof. exact history_keeps_state. Qed.
Print Assumptions history_changes_nothing.

(** next / prev on every state reachable by navigation from a freshly opened listing *)
Theorem next_prev_bounds_reachable : forall rnd L, lsets L <> [] -> forall ops, let s := run rnd L (open L) ops in
  (exists s' b, step rnd L s Next = (s', OBool b) /\ b = (idx s <? nsets L - 1) /\
     idx s' = (if b then idx s + 1 else idx s) /\ (b = false -> s' = s) /\ 0 <= idx s' < nsets L) /\
  (exists s' b, step rnd L s Prev = (s', OBool b) /\ b = (0 <? idx s) /\
     idx s' = (if b then idx s - 1 else idx s) /\ (b = false -> s' = s) /\ 0 <= idx s' < nsets L).
Proof. exact next_prev_reachable. Qed.
Print Assumptions next_prev_bounds_reachable.

(** a time / step before the first value acts as first(), after the last value as last() (no order assumed) *)
Theorem set_time_outside_range : forall rnd L s t t0, hd_error (times L) = Some t0 ->
  (t < t0 -> step rnd L s (SetTime t) = step rnd L s First) /\
  (t0 <= t -> last (times L) t0 < t -> step rnd L s (SetTime t) = step rnd L s Last).
Proof. exact set_time_outside. Qed.
Print Assumptions set_time_outside_range.
Theorem set_step_outside_range : forall rnd L s k k0, hd_error (steps L) = Some k0 ->
  (k < k0 -> step rnd L s (SetStep k) = step rnd L s First) /\
  (k0 <= k -> last (steps L) k0 < k -> step rnd L s (SetStep k) = step rnd L s Last).
Proof. exact set_step_outside. Qed.
Print Assumptions set_step_outside_range.

(** an exact hit: with strictly increasing values, setting the time (step) printed for result set j
    selects j -- for any monotone rounding that maps only 0 to 0; float64 subtraction is one *)
Theorem set_time_exact_hit : forall rnd L s t j,
  (forall a b, 0 <= a <= b -> rnd a <= rnd b) -> rnd 0 = 0 -> (forall a, 0 < a -> 0 < rnd a) ->
  sorted_lt (times L) -> nth_error (times L) j = Some t ->
  exists s', step rnd L s (SetTime t) = (s', ONone) /\ idx s' = Z.of_nat j.
Proof. exact set_time_exact. Qed.
Print Assumptions set_time_exact_hit.
Theorem round53_zero_only_at_zero : round53 0 = 0 /\ forall a, 0 < a -> 0 < round53 a.
Proof. exact (conj round53_zero round53_pos). Qed.
Print Assumptions round53_zero_only_at_zero.
Theorem set_step_exact_hit : forall rnd L s k j, sorted_lt (steps L) -> nth_error (steps L) j = Some k ->
  exists s', step rnd L s (SetStep k) = (s', ONone) /\ idx s' = Z.of_nat j.
Proof. exact set_step_exact. Qed.
Print Assumptions set_step_exact_hit.

(** the observation the correspondence driver prints for the k-th action of a sequence is the outcome of
    that action and the state [run] reaches after the first k+1 actions: the theorems above, stated
    about [run], speak about exactly what is compared with the real reader *)
Theorem trace_is_run : forall rnd L ops s k o, nth_error ops k = Some o ->
  nth_error (trace rnd L s ops) k =
  Some (snd (step rnd L (run rnd L s (firstn k ops)) o), run rnd L s (firstn (S k) ops)).
Proof. exact trace_nth. Qed.
Print Assumptions trace_is_run.

(** the two rounding-parametric statements at the rounding the correspondence driver runs with *)
Theorem set_time_nearest_float64 : forall L, lsets L <> [] -> forall s t, sorted_le (times L) ->
  exists s', step round53 L s (SetTime t) = (s', ONone) /\ 0 <= idx s' < nsets L /\
    nth_error (times L) (Z.to_nat (idx s')) = Some (tm s') /\
    forall j x, nth_error (times L) j = Some x -> round53 (Z.abs (tm s' - t)) <= round53 (Z.abs (x - t)).
Proof. exact set_time_nearest_round53. Qed.
Print Assumptions set_time_nearest_float64.
Theorem set_time_exact_hit_float64 : forall L s t j, sorted_lt (times L) -> nth_error (times L) j = Some t ->
  exists s', step round53 L s (SetTime t) = (s', ONone) /\ idx s' = Z.of_nat j.
Proof. exact set_time_exact_round53. Qed.
Print Assumptions set_time_exact_hit_float64.

(** ---- round 4: uniformity from the structure of the file; the table access paths; the dtype assumption ---- *)

(** The repaired reader (a table in skip_tables or absent at the first time is passed over, a known one is
    read in full) over the printed-table abstraction of a file: if every result set prints every table the
    first one prints (any order, extra tables allowed, same number of cells) -- a decidable condition --
    the abstracted listing is uniform ... *)
Theorem structural_condition_implies_uniform : forall P, struct_okb P = true -> uniform (abstract P).
Proof. exact struct_ok_uniform. Qed.
Print Assumptions structural_condition_implies_uniform.
(** ... hence after ANY navigation it shows what a fresh listing at that index shows *)
Theorem nav_state_is_fresh_if_structurally_uniform : forall rnd P, psets P <> [] -> struct_okb P = true -> forall ops,
  let L := abstract P in let s := run rnd L (open L) ops in
  exists f, fresh_at L (idx s) = (f, ONone) /\ observe s = observe f.
Proof. exact nav_fresh_structural. Qed.
Print Assumptions nav_state_is_fresh_if_structurally_uniform.
(** the condition is not idle: a file whose third result set lacks a table of the first one fails it, its
    abstraction is not uniform and two routes to that result set show different tables *)
Theorem structural_condition_needed : struct_okb P_missing = false /\ ~ uniform (abstract P_missing) /\
  exists ops, let L := abstract P_missing in let s := run (fun z => z) L (open L) ops in
              observe s <> observe (fst (fresh_at L (idx s))).
Proof. exact struct_needed. Qed.
Print Assumptions structural_condition_needed.

(** listingtable: a read changes nothing; the table after any interleaving of reads and writes is the table
    after the writes alone; so the answer to a read is [lookup] on the current array whatever was read before
    (no hidden per-key state) *)
Theorem table_reads_are_irrelevant : forall ops t, trun t ops = trun t (filter is_set ops).
Proof. exact reads_are_irrelevant. Qed.
Print Assumptions table_reads_are_irrelevant.
Theorem table_answer_is_lookup_of_current_data : forall ops t k,
  snd (tstep (trun t ops) (TGet k)) = lookup (trun t (filter is_set ops)) k.
Proof. exact answer_is_lookup_of_current_data. Qed.
Print Assumptions table_answer_is_lookup_of_current_data.
Theorem table_lookup_is_function_of_data : forall t1 t2 k, tcols t1 = tcols t2 -> trows t1 = trows t2 -> trev t1 = trev t2 ->
  tdata t1 = tdata t2 -> lookup t1 k = lookup t2 k.
Proof. exact lookup_function_of_data. Qed.
Print Assumptions table_lookup_is_function_of_data.
(** the access paths agree with each other: reversed key = the row under the reversed name, name turned round,
    values negated; row name = the row at the last index filed under it = table[that index]; a written row is read back *)
Theorem table_reversed_key_negates : forall t k ri, last_index k (tcols t) = None -> last_index k (trows t) = None ->
  (1 < length k)%nat -> trev t = true -> last_index (rev k) (trows t) = Some ri ->
  lookup t (KName k) = neg_rev (row_at t ri).
Proof. exact lookup_reversed_negates. Qed.
Print Assumptions table_reversed_key_negates.
Theorem table_name_is_row_at_last_index : forall t k ri, last_index k (tcols t) = None -> last_index k (trows t) = Some ri ->
  length (tdata t) = length (trows t) ->
  lookup t (KName k) = row_at t ri /\ lookup t (KInt (Z.of_nat ri)) = row_at t ri.
Proof. exact lookup_name_is_row_at_last_index. Qed.
Print Assumptions table_name_is_row_at_last_index.
Theorem table_write_then_read : forall t i vals n, 0 <= i < Z.of_nat (length (tdata t)) -> length (tdata t) = length (trows t) ->
  nth_error (trows t) (Z.to_nat i) = Some n ->
  exists t', tstep t (TPut (KInt i) vals) = (t', TOk) /\ lookup t' (KInt i) = TRow n vals.
Proof. exact write_then_read. Qed.
Print Assumptions table_write_then_read.
(** equal observed arrays give equal answers on every table through every access path *)
Theorem table_views_follow_arrays : forall meta a b, a = b ->
  forall j k, option_map (fun t => lookup t k) (nth_error (tables_of_state meta a) j) =
              option_map (fun t => lookup t k) (nth_error (tables_of_state meta b) j).
Proof. exact views_follow_arrays. Qed.
Print Assumptions table_views_follow_arrays.

(** the signed-integer assumption behind set_step_nearest cannot be dropped: with an unsigned 32-bit steps
    array the difference wraps and the arg-min is not the nearest result set *)
Theorem set_step_unsigned_wrap_refuted : exists vals v x xi,
  sorted_lt vals /\ In x vals /\
  nth_error vals (argmin (map (fun y => (y - v) mod 2 ^ 32) vals)) = Some xi /\ Z.abs (x - v) < Z.abs (xi - v).
Proof. exact nearest_unsigned_wrap_refuted. Qed.
Print Assumptions set_step_unsigned_wrap_refuted.

(** the property in its two-route form: on a uniform listing any two action sequences that end at the same
    reported index show the same index, time, step and tables; in particular next then prev (where next can
    move) and prev then next (where prev can move) put back exactly what was shown *)
Theorem nav_same_index_same_observation : forall rnd L, lsets L <> [] -> uniform L -> forall ops1 ops2,
  idx (run rnd L (open L) ops1) = idx (run rnd L (open L) ops2) ->
  observe (run rnd L (open L) ops1) = observe (run rnd L (open L) ops2).
Proof. exact nav_same_index_same_obs. Qed.
Print Assumptions nav_same_index_same_observation.
Theorem next_prev_round_trip_restores : forall rnd L, lsets L <> [] -> uniform L -> forall ops,
  let s := run rnd L (open L) ops in
  (idx s < nsets L - 1 -> observe (run rnd L s [Next; Prev]) = observe s) /\
  (0 < idx s -> observe (run rnd L s [Prev; Next]) = observe s).
Proof. exact next_prev_round_trip. Qed.
Print Assumptions next_prev_round_trip_restores.

(** two routes to the same reported index WITHOUT the uniformity hypothesis: time and step agree on every listing
    with >= 1 result set; and every table all of whose cells are assigned at every result set shows the same
    array (and exists) whatever the other tables do *)
Theorem nav_same_index_same_time_step : forall rnd L, lsets L <> [] -> forall ops1 ops2,
  idx (run rnd L (open L) ops1) = idx (run rnd L (open L) ops2) ->
  tm (run rnd L (open L) ops1) = tm (run rnd L (open L) ops2) /\
  sp (run rnd L (open L) ops1) = sp (run rnd L (open L) ops2).
Proof. exact nav_same_index_same_tm_sp. Qed.
Print Assumptions nav_same_index_same_time_step.
Theorem nav_same_index_same_table_if_table_uniform : forall rnd L, lsets L <> [] -> forall k, uniform_table L k -> forall ops1 ops2,
  idx (run rnd L (open L) ops1) = idx (run rnd L (open L) ops2) ->
  nth_error (tabs (run rnd L (open L) ops1)) k = nth_error (tabs (run rnd L (open L) ops2)) k /\
  nth_error (tabs (run rnd L (open L) ops1)) k <> None.
Proof. exact nav_same_index_same_tab. Qed.
Print Assumptions nav_same_index_same_table_if_table_uniform.
