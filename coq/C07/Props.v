(** C07 -- property theorems only.  Each is closed by [exact] of a lemma proved in
    ListingNav.v and followed by Print Assumptions. *)
From Coq Require Import Ascii String List Bool ZArith NArith.
From PTBase Require Import Exn PyStr.
From P Require Import ListingNav Round.
Import ListNotations.
Open Scope Z_scope.

(** After ANY operation sequence on a listing with >= 1 result set whose result sets all
    assign every table cell, the observable state (index, time, step, tables) is the one a
    freshly opened listing shows when positioned directly at the final index. *)
Theorem nav_state_is_fresh_at_index : forall rnd L, lsets L <> [] -> uniform L -> forall ops,
  let s := run rnd L (open L) ops in
  exists f, fresh_at L (idx s) = (f, ONone) /\ observe s = observe f.
Proof. exact nav_fresh. Qed.
Print Assumptions nav_state_is_fresh_at_index.

(** index, time and step are those of the result set at the reported index for EVERY listing
    with >= 1 result set (no uniformity needed) *)
Theorem nav_index_time_step_fresh : forall rnd L, lsets L <> [] -> forall ops,
  let s := run rnd L (open L) ops in
  0 <= idx s < nsets L /\ exists r, nth_error (lsets L) (Z.to_nat (idx s)) = Some r /\ tm s = rtime r /\ sp s = rstep r.
Proof. exact nav_index_time_step. Qed.
Print Assumptions nav_index_time_step_fresh.

(** uniformity cannot be dropped: a listing in which one result set leaves a table unread
    (the shape of tests/listing/TOUGH2/11) shows different tables after different routes *)
Theorem nav_fresh_refuted_nonuniform : exists L ops, lsets L <> [] /\
  let s := run (fun z => z) L (open L) ops in observe s <> observe (fst (fresh_at L (idx s))).
Proof. exact nav_fresh_refuted. Qed.
Print Assumptions nav_fresh_refuted_nonuniform.

(** next / prev: report whether they moved, move by exactly one, never leave [0, n-1],
    and at either end return false and change nothing *)
Theorem next_prev_bounds : forall rnd L s, 0 <= idx s < nsets L ->
  (exists s' b, step rnd L s Next = (s', OBool b) /\ b = (idx s <? nsets L - 1) /\
     idx s' = (if b then idx s + 1 else idx s) /\ (b = false -> s' = s) /\ 0 <= idx s' < nsets L) /\
  (exists s' b, step rnd L s Prev = (s', OBool b) /\ b = (0 <? idx s) /\
     idx s' = (if b then idx s - 1 else idx s) /\ (b = false -> s' = s) /\ 0 <= idx s' < nsets L).
Proof. intros rnd L s H. split; [exact (next_spec rnd L s H)|exact (prev_spec rnd L s H)]. Qed.
Print Assumptions next_prev_bounds.

(** an index outside [-n, n-1] raises IndexError and changes nothing; inside, the seek with the
    raw (possibly negative) index reads the result set of the normalised index *)
Theorem set_index_out_of_range_unchanged : forall L i s, i < - nsets L \/ nsets L <= i -> set_index L i s = (s, OExn IndexError).
Proof. exact set_index_out_of_range. Qed.
Print Assumptions set_index_out_of_range_unchanged.
Theorem set_index_reads_normalised_index : forall L i s s', set_index L i s = (s', ONone) ->
  0 <= idx s' < nsets L /\ exists r, nth_error (lsets L) (Z.to_nat (idx s')) = Some r /\
  tm s' = rtime r /\ sp s' = rstep r /\ tabs s' = ovr_tabs (tabs s) (rtabs r) /\
  idx s' = (if i <? 0 then i + nsets L else i).
Proof. exact set_index_ok. Qed.
Print Assumptions set_index_reads_normalised_index.

(** setting a time: for (weakly) increasing times and any monotone rounding of the subtraction,
    the selected result set minimises the computed distance |t_i - t| over all result sets *)
Theorem set_time_nearest : forall rnd, (forall a b, 0 <= a <= b -> rnd a <= rnd b) ->
  forall L, lsets L <> [] -> forall s t, sorted_le (times L) ->
  exists s', step rnd L s (SetTime t) = (s', ONone) /\ 0 <= idx s' < nsets L /\
    nth_error (times L) (Z.to_nat (idx s')) = Some (tm s') /\
    forall j x, nth_error (times L) j = Some x -> rnd (Z.abs (tm s' - t)) <= rnd (Z.abs (x - t)).
Proof. exact ListingNav.set_time_nearest. Qed.
Print Assumptions set_time_nearest.
(** ... float64 subtraction (round to nearest even, 53 bits) is such a rounding *)
Theorem round53_monotone : forall a b, 0 <= a <= b -> round53 a <= round53 b.
Proof. exact round53_mono. Qed.
Print Assumptions round53_monotone.

Theorem set_step_nearest : forall rnd L, lsets L <> [] -> forall s k, sorted_le (steps L) ->
  exists s', step rnd L s (SetStep k) = (s', ONone) /\ 0 <= idx s' < nsets L /\
    nth_error (steps L) (Z.to_nat (idx s')) = Some (sp s') /\
    forall j x, nth_error (steps L) j = Some x -> Z.abs (sp s' - k) <= Z.abs (x - k).
Proof. intros rnd L H s k. exact (ListingNav.set_step_nearest rnd L H s k). Qed.
Print Assumptions set_step_nearest.

(** tie / clamp rule: with strictly increasing values and exact arithmetic the code's rule
    (clamp below the first, clamp above the last, else numpy.argmin) is exactly the FIRST arg-min:
    of two equidistant result sets the earlier one is selected *)
Theorem nearest_rule_is_first_argmin : forall vals v i, sorted_lt vals -> nearest_index (fun z => z) vals v = Some i ->
  norm_index (Z.of_nat (length vals)) i = Z.of_nat (argmin (map (fun x => Z.abs (x - v)) vals)).
Proof. exact nearest_exact_is_argmin. Qed.
Print Assumptions nearest_rule_is_first_argmin.
Theorem argmin_is_first_minimum : forall l, l <> [] ->
  let (k, m) := argmin_aux l in
  nth_error l k = Some m /\ (forall j x, nth_error l j = Some x -> m <= x) /\
  (forall j x, (j < k)%nat -> nth_error l j = Some x -> m < x).
Proof. exact argmin_aux_spec. Qed.
Print Assumptions argmin_is_first_minimum.
(** ... and it is not an arg-min when the values are not increasing *)
Theorem nearest_rule_unsorted_refuted : exists vals v i vk x,
  nearest_index (fun z => z) vals v = Some i /\
  nth_error vals (Z.to_nat (norm_index (Z.of_nat (length vals)) i)) = Some vk /\
  In x vals /\ Z.abs (x - v) < Z.abs (vk - v).
Proof. exact nearest_unsorted_refuted. Qed.
Print Assumptions nearest_rule_unsorted_refuted.

(** the file offset left behind (e.g. by history) is irrelevant: every action seeks absolutely *)
Theorem nav_seeks_absolute : forall rnd L a b o, observe a = observe b ->
  observe (fst (step rnd L a o)) = observe (fst (step rnd L b o)) /\ snd (step rnd L a o) = snd (step rnd L b o).
Proof. exact nav_seeks_absolute_step. Qed.
Print Assumptions nav_seeks_absolute.
