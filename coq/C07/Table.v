(** C07 -- the access paths of t2listing.listingtable (t2listing.py:58-81) over the table state.
    A name is a list of codes: the characters of a string key or the parts of a tuple key, so that
    [len(key)] is [length] and [key[::-1]] is [rev].  The state of a table is its column names, row
    names, the reverse-keys flag and the array _data; NOTHING else: [lookup] is a function of these,
    a read leaves the state alone, and in any interleaving of reads and writes the answer to a read is
    [lookup] on the array as the writes alone left it ([answer_is_lookup_of_current_data]) -- the
    model-side statement of "no hidden per-key state" (seeded change C07-m9: cached row dictionaries). *)
From Coq Require Import List Bool Arith ZArith Lia ZifyBool.
From PTBase Require Import Exn PyStr.
From P Require Import ListingNav.
Import ListNotations.
Open Scope Z_scope.

Definition nm := list Z.
Record table := { tcols : list nm; trows : list nm; trev : bool; tdata : list (list Z) }.
Inductive tkey := KInt (i : Z) | KName (k : nm).
Inductive tres := TNone | TErr | TOk | TCol (c : list Z) | TRow (key : nm) (vals : list Z).
Inductive top := TGet (k : tkey) | TPut (k : tkey) (vals : list Z).

Definition nm_eqb (a b : nm) : bool := if list_eq_dec Z.eq_dec a b then true else false.
Definition mem (k : nm) (l : list nm) : bool := existsb (nm_eqb k) l.
(** the dict built by [dict([(r, i) for i, r in enumerate(rows)])]: the LAST index wins *)
Fixpoint last_index_from (k : nm) (l : list nm) (i : nat) (found : option nat) : option nat :=
  match l with [] => found | x :: r => last_index_from k r (S i) (if nm_eqb k x then Some i else found) end.
Definition last_index (k : nm) (l : list nm) : option nat := last_index_from k l 0%nat None.

Definition row_at (t : table) (ri : nat) : tres :=
  match nth_error (trows t) ri, nth_error (tdata t) ri with Some n, Some v => TRow n v | _, _ => TErr end.
Definition neg_rev (r : tres) : tres := match r with TRow n v => TRow (rev n) (map Z.opp v) | x => x end.

(**  def __getitem__(self, key):
       if isinstance(key, int): return dict(zip(['key'] + cols, [self.row_name[key]] + list(self._data[key, :])))
       if key in self.column_name: return self._data[:, self._col[key]]
       elif key in self.row_name: rowindex = self._row[key]; return dict(... row_name[rowindex], _data[rowindex, :])
       elif len(key) > 1 and self.allow_reverse_keys:
           revkey = key[::-1]
           if revkey in self.row_name: ... row_name[rowindex][::-1], -_data[rowindex, :]
       else: return None                                                     (falling off the end returns None too) *)
Definition lookup (t : table) (k : tkey) : tres :=
  match k with
  | KInt i => match pyindex i (trows t), pyindex i (tdata t) with Some n, Some v => TRow n v | _, _ => TErr end
  | KName k =>
      match last_index k (tcols t) with
      | Some j => TCol (map (fun r => nth j r 0) (tdata t))
      | None =>
        match last_index k (trows t) with
        | Some ri => row_at t ri
        | None => if (1 <? Z.of_nat (length k)) && trev t then
                    match last_index (rev k) (trows t) with Some ri => neg_rev (row_at t ri) | None => TNone end
                  else TNone
        end
      end
  end.

Fixpoint set_nth {A} (l : list A) (i : nat) (x : A) : list A :=
  match l, i with [] , _ => [] | _ :: r, O => x :: r | y :: r, S j => y :: set_nth r j x end.
Definition with_data (t : table) (d : list (list Z)) : table := {| tcols := tcols t; trows := trows t; trev := trev t; tdata := d |}.

(**  def __setitem__(self, key, value):
       if isinstance(key, int): self._data[key, :] = value
       else: self._data[self._row[key], :] = value *)
Definition row_index (t : table) (k : tkey) : option nat :=
  match k with
  | KInt i => let n := Z.of_nat (length (tdata t)) in let j := if i <? 0 then i + n else i in
              if (j <? 0) || (n <=? j) then None else Some (Z.to_nat j)
  | KName k => last_index k (trows t)
  end.
Definition tstep (t : table) (o : top) : table * tres :=
  match o with
  | TGet k => (t, lookup t k)
  | TPut k vals => match row_index t k with Some ri => (with_data t (set_nth (tdata t) ri vals), TOk) | None => (t, TErr) end
  end.
Fixpoint trun (t : table) (ops : list top) : table := match ops with [] => t | o :: r => trun (fst (tstep t o)) r end.
Fixpoint ttrace (t : table) (ops : list top) : list tres :=
  match ops with [] => [] | o :: r => snd (tstep t o) :: ttrace (fst (tstep t o)) r end.

Definition is_set (o : top) : bool := match o with TPut _ _ => true | TGet _ => false end.

(** a read changes nothing *)
Lemma get_leaves_table t k : fst (tstep t (TGet k)) = t.
Proof. reflexivity. Qed.

(** the table after any interleaving is the table after the writes alone *)
Lemma reads_are_irrelevant ops : forall t, trun t ops = trun t (filter is_set ops).
Proof.
  induction ops as [|o r IH]; intro t; [reflexivity|]. destruct o as [k|k v]; cbn [filter is_set trun].
  - cbn [tstep fst]. apply IH.
  - apply IH.
Qed.

(** ... hence the answer to a read is [lookup] on the array as the writes alone left it: earlier reads
    (with this or any other key, forward or reversed) have no influence *)
Lemma answer_is_lookup_of_current_data ops t k :
  snd (tstep (trun t ops) (TGet k)) = lookup (trun t (filter is_set ops)) k.
Proof. cbn [tstep snd]. rewrite <- reads_are_irrelevant. reflexivity. Qed.

Lemma trun_structure ops : forall t, tcols (trun t ops) = tcols t /\ trows (trun t ops) = trows t /\ trev (trun t ops) = trev t.
Proof.
  induction ops as [|o r IH]; intro t; [auto|]. cbn [trun]. destruct o as [k|k v]; cbn [tstep].
  - apply IH.
  - destruct (row_index t k); cbn [fst]; [|apply IH]. destruct (IH (with_data t (set_nth (tdata t) n v))) as (A & B & C). auto.
Qed.

(** the whole state is (names, flag, array): two tables with the same names and flag answer every key alike
    as soon as their arrays are equal *)
Lemma lookup_function_of_data t1 t2 k : tcols t1 = tcols t2 -> trows t1 = trows t2 -> trev t1 = trev t2 -> tdata t1 = tdata t2 ->
  lookup t1 k = lookup t2 k.
Proof. destruct t1, t2; cbn [tcols trows trev tdata]; intros; subst; reflexivity. Qed.

(** reversed key: the row filed under the reversed name, with the name turned round and the values negated *)
Lemma lookup_reversed_negates t k ri : last_index k (tcols t) = None -> last_index k (trows t) = None ->
  (1 < length k)%nat -> trev t = true -> last_index (rev k) (trows t) = Some ri ->
  lookup t (KName k) = neg_rev (row_at t ri).
Proof.
  intros H1 H2 H3 H4 H5. cbn [lookup]. rewrite H1, H2, H4, H5.
  destruct (1 <? Z.of_nat (length k)) eqn:E; [reflexivity|lia].
Qed.

(** a row name that is not a column name: the row at the last index filed under it, i.e. table[i] there *)
Lemma last_index_from_lt k l : forall i found r, last_index_from k l i found = Some r ->
  (found = Some r) \/ (i <= r < i + length l)%nat.
Proof.
  induction l as [|x l IH]; intros i found r H; cbn [last_index_from] in H; [left; exact H|].
  destruct (IH _ _ _ H) as [E|E]; cbn [length]; [|right; lia].
  destruct (nm_eqb k x); [inversion E; right; lia|left; exact E].
Qed.
Lemma lookup_name_is_row_at_last_index t k ri : last_index k (tcols t) = None -> last_index k (trows t) = Some ri ->
  length (tdata t) = length (trows t) ->
  lookup t (KName k) = row_at t ri /\ lookup t (KInt (Z.of_nat ri)) = row_at t ri.
Proof.
  intros H1 H2 Hl. split; [cbn [lookup]; rewrite H1, H2; reflexivity|].
  destruct (last_index_from_lt _ _ _ _ _ H2) as [E|E]; [discriminate|]. cbn [lookup]. unfold row_at.
  rewrite !pyindex_in_range by lia. rewrite Nat2Z.id. reflexivity.
Qed.

(** a write then a read of the same row index gives what was written *)
Lemma nth_error_set_nth {A} (l : list A) : forall i x, (i < length l)%nat -> nth_error (set_nth l i x) i = Some x /\ length (set_nth l i x) = length l.
Proof.
  induction l as [|y l IH]; intros i x H; [cbn in H; lia|]. destruct i as [|i]; cbn [set_nth nth_error length]; [auto|].
  destruct (IH i x) as [IA IB]; [cbn [length] in H; lia|]. rewrite IB. auto.
Qed.
Lemma write_then_read t i vals n : 0 <= i < Z.of_nat (length (tdata t)) -> length (tdata t) = length (trows t) ->
  nth_error (trows t) (Z.to_nat i) = Some n ->
  exists t', tstep t (TPut (KInt i) vals) = (t', TOk) /\ lookup t' (KInt i) = TRow n vals.
Proof.
  intros R Hl Hn. cbn [tstep row_index]. destruct (i <? 0) eqn:E0; [lia|].
  destruct ((i <? 0) || (Z.of_nat (length (tdata t)) <=? i)) eqn:E1; [lia|].
  eexists. split; [reflexivity|]. cbn [lookup with_data trows tdata].
  destruct (nth_error_set_nth (tdata t) (Z.to_nat i) vals ltac:(lia)) as [A B].
  rewrite !pyindex_in_range by (rewrite ?B; lia). rewrite Hn, A. reflexivity.
Qed.

(** example: a connection-like table; forward key, reversed key (negated), index, column; a read of the
    reversed key, a write of that row, the same read again: the second answer shows the new values *)
Definition t_ex : table := {| tcols := [[1]; [2]]; trows := [[10; 11]; [11; 12]]; trev := true; tdata := [[5; 6]; [7; 8]] |}.
Example t_ex_paths :
  ttrace t_ex [TGet (KName [11; 10]); TPut (KInt 0) [50; 60]; TGet (KName [11; 10]); TGet (KName [10; 11]); TGet (KInt (-1)); TGet (KName [2]); TGet (KName [9; 9]); TGet (KInt 2)] =
  [TRow [11; 10] [-5; -6]; TOk; TRow [11; 10] [-50; -60]; TRow [10; 11] [50; 60]; TRow [11; 12] [7; 8]; TCol [60; 8]; TNone; TErr].
Proof. vm_compute. reflexivity. Qed.

(** ** back to navigation: whatever is read from the tables of a navigated listing through any access path
    is what the same path shows on the fresh listing, as soon as the observed arrays agree *)
Definition tables_of_state (meta : list table) (arrays : list (list (list Z))) : list table :=
  map (fun p => with_data (fst p) (snd p)) (combine meta arrays).
Lemma views_follow_arrays meta a b : a = b ->
  forall j k, option_map (fun t => lookup t k) (nth_error (tables_of_state meta a) j) =
              option_map (fun t => lookup t k) (nth_error (tables_of_state meta b) j).
Proof. intros ->; reflexivity. Qed.
