(** extraction of the executable navigation model for the C07 correspondence.
    One case line = one abstract listing + a batch of operation sequences:
      nav TAB init TAB sets TAB seq TAB seq ...
      init : tables terminated by '|', cells terminated by ','        e.g.  17,4,|9,|
      sets : result sets terminated by ';', each  time:step:tables   (cell '-' = not assigned)
      seq  : ops terminated by ','   F L N P H U I<int> T<int> S<int>   (U = history() with no matching specification)
    Result: observations separated by ';' -- first the state after opening, then per
    sequence the blank-separated observations after every op:  outcome/index/time/step/tables *)
From Coq Require Import Ascii String List Bool ZArith NArith.
From PTBase Require Import Exn PyStr PyNum PyVal Wire.
From P Require Import ListingNav Uniform Table.
Import ListNotations.
Open Scope char_scope.

Definition split_term (ch : ascii) (s : str) : list str :=
  match s with [] => [] | _ => removelast (split_c ch s) end.

Definition parse_cell (s : str) : option Z := match s with ["-"] => None | _ => Some (z_of_str s) end.
Definition parse_cells (s : str) : cells := map parse_cell (split_term "," s).
Definition parse_tabs (s : str) : list cells := map parse_cells (split_term "|" s).
Definition parse_init (s : str) : list (list Z) := map (fun t => map z_of_str (split_term "," t)) (split_term "|" s).
Definition parse_set (s : str) : rset :=
  match split_c ":" s with
  | [t; k; tb] => {| rtime := z_of_str t; rstep := z_of_str k; rtabs := parse_tabs tb |}
  | _ => {| rtime := 0; rstep := 0; rtabs := [] |}
  end.
Definition parse_op (s : str) : op :=
  match s with
  | ["F"] => First | ["L"] => Last | ["N"] => Next | ["P"] => Prev | ["H"] => History | ["U"] => HistoryNone
  | "I" :: r => SetIndex (z_of_str r)
  | "T" :: r => SetTime (z_of_str r)
  | "S" :: r => SetStep (z_of_str r)
  | _ => History
  end.

Definition show_outcome (o : outcome) : str :=
  match o with ONone => ["-"] | OBool true => ["T"] | OBool false => ["F"] | OExn e => show_exn e end.
Definition show_tabs (t : list (list Z)) : str :=
  concat (map (fun c => concat (map (fun z => show_z z ++ [","]) c) ++ ["|"]) t).
Definition show_obs (p : outcome * state) : str :=
  let (o, s) := p in
  show_outcome o ++ ["/"] ++ show_z (idx s) ++ ["/"] ++ show_z (tm s) ++ ["/"] ++ show_z (sp s) ++ ["/"] ++ show_tabs (tabs s).

(** ---- uni: the printed-table abstraction of a file (Uniform.v)
      uni TAB skip TAB sets        skip: table codes terminated by ','
                                   sets: result sets terminated by ';', each  time:step:tables, a table = code/cells terminated by ','
    Result:  <struct_okb 1|0> <known codes ,> <per result set one letter per known table: A assigned in full, - not assigned, ? partly> *)
Definition parse_ptab (s : str) : tname * list Z :=
  match split_c "/" s with
  | [n; l] => (z_of_str n, repeat 0%Z (Z.to_nat (z_of_str l)))
  | _ => (0%Z, [])
  end.
Definition parse_pset (s : str) : pset :=
  match split_c ":" s with
  | [t; k; tb] => {| ptime := z_of_str t; pstep := z_of_str k; pprint := map parse_ptab (split_term "," tb) |}
  | _ => {| ptime := 0; pstep := 0; pprint := [] |}
  end.
Definition cell_letter (c : cells) : ascii :=
  if forallb (fun o : option Z => match o with Some _ => true | None => false end) c then "A"
  else if forallb (fun o : option Z => match o with Some _ => false | None => true end) c then "-" else "?".
Definition run_uni (skip sets : str) : str :=
  let P := {| pskip := map z_of_str (split_term "," skip); psets := map parse_pset (split_term ";" sets) |} in
  (if struct_okb P then ["1"] else ["0"]) ++ [" "] ++ concat (map (fun p => show_z (fst p) ++ [","]) (known P)) ++ [" "] ++
  join [" "] (map (fun r => map cell_letter (rtabs r)) (lsets (abstract P))).

(** ---- tab: a listingtable and a sequence of reads and writes (Table.v)
      tab TAB cols TAB rows TAB rev TAB data TAB ops
        names: codes separated by '.', each name terminated by ','; data rows likewise; rev: 1|0
        ops terminated by ';':  gi<int>  gn<name>  pi<int>=<vals>  pn<name>=<vals>
    Result: per op  N (None) E (exception) O (written) C<vals> R<name>=<vals>, separated by ';' *)
Definition parse_nm (s : str) : list Z := match s with [] => [] | _ => map z_of_str (split_c "." s) end.
Definition show_nm (l : list Z) : str := join ["."] (map show_z l).
Definition parse_top (s : str) : top :=
  match s with
  | "g" :: "i" :: r => TGet (KInt (z_of_str r))
  | "g" :: "n" :: r => TGet (KName (parse_nm r))
  | "p" :: "i" :: r => match split_c "=" r with [k; v] => TPut (KInt (z_of_str k)) (parse_nm v) | _ => TGet (KInt 0) end
  | "p" :: "n" :: r => match split_c "=" r with [k; v] => TPut (KName (parse_nm k)) (parse_nm v) | _ => TGet (KInt 0) end
  | _ => TGet (KInt 0)
  end.
Definition show_tres (r : tres) : str :=
  match r with
  | TNone => ["N"] | TErr => ["E"] | TOk => ["O"]
  | TCol c => "C" :: show_nm c
  | TRow n v => ("R" :: show_nm n) ++ ["="] ++ show_nm v
  end.
Definition run_tab (cols rows rv data ops : str) : str :=
  let t := {| tcols := map parse_nm (split_term "," cols); trows := map parse_nm (split_term "," rows);
              trev := str_eqb rv ["1"]; tdata := map parse_nm (split_term "," data) |} in
  join [";"] (map show_tres (ttrace t (map parse_top (split_term ";" ops)))).

Definition run_nav (init sets : str) (seqs : list str) : str :=
  let L := {| linit := parse_init init; lsets := map parse_set (split_term ";" sets) |} in
  match lsets L with
  | [] => s2l "EMPTY"
  | _ =>
    let s0 := open L in
    join [";"] (show_obs (ONone, s0) ::
                map (fun q => join [" "] (map show_obs (trace round53 L s0 (map parse_op (split_term "," q))))) seqs)
  end.

Definition run_case (line : str) : str :=
  match fields line with
  | k :: rest =>
      if str_eqb k (s2l "nav") then match rest with init :: sets :: seqs => run_nav init sets seqs | _ => s2l "BADCASE" end
      else if str_eqb k (s2l "uni") then match rest with [skip; sets] => run_uni skip sets | _ => s2l "BADCASE" end
      else if str_eqb k (s2l "tab") then match rest with [cols; rows; rv; data; ops] => run_tab cols rows rv data ops | _ => s2l "BADCASE" end
      else s2l "BADCASE"
  | _ => s2l "BADCASE"
  end.

Require Extraction.
Require Import ExtrOcamlBasic ExtrOcamlString.
Extraction "Drv.ml" run_case.
