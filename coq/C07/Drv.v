(** extraction of the executable navigation model for the C07 correspondence.
    One case line = one abstract listing + a batch of operation sequences:
      nav TAB init TAB sets TAB seq TAB seq ...
      init : tables terminated by '|', cells terminated by ','        e.g.  17,4,|9,|
      sets : result sets terminated by ';', each  time:step:tables   (cell '-' = not assigned)
      seq  : ops terminated by ','   F L N P H U I<int> T<int> S<int>   (U = history() with no matching specification)
    Result: observations separated by ';' -- first the state after opening, then per
    sequence the blank-separated observations after every op:  outcome/index/time/step/tables *)
From Coq Require Import Ascii String List Bool ZArith NArith.
From PTBase Require Import Exn PyStr PyNum PyVal Wire.
From P Require Import ListingNav.
Import ListNotations.
Open Scope char_scope.

Definition split_term (ch : ascii) (s : str) : list str :=
  match s with [] => [] | _ => removelast (split_c ch s) end.

Definition parse_cell (s : str) : option Z := match s with ["-"] => None | _ => Some (z_of_str s) end.
Definition parse_cells (s : str) : cells := map parse_cell (split_term "," s).
Definition parse_tabs (s : str) : list cells := map parse_cells (split_term "|" s).
Definition parse_init (s : str) : list (list Z) := map (fun t => map z_of_str (split_term "," t)) (split_term "|" s).
Definition parse_set (s : str) : rset :=
  match split_c ":" s with
  | [t; k; tb] => {| rtime := z_of_str t; rstep := z_of_str k; rtabs := parse_tabs tb |}
  | _ => {| rtime := 0; rstep := 0; rtabs := [] |}
  end.
Definition parse_op (s : str) : op :=
  match s with
  | ["F"] => First | ["L"] => Last | ["N"] => Next | ["P"] => Prev | ["H"] => History | ["U"] => HistoryNone
  | "I" :: r => SetIndex (z_of_str r)
  | "T" :: r => SetTime (z_of_str r)
  | "S" :: r => SetStep (z_of_str r)
  | _ => History
  end.

Definition show_outcome (o : outcome) : str :=
  match o with ONone => ["-"] | OBool true => ["T"] | OBool false => ["F"] | OExn e => show_exn e end.
Definition show_tabs (t : list (list Z)) : str :=
  concat (map (fun c => concat (map (fun z => show_z z ++ [","]) c) ++ ["|"]) t).
Definition show_obs (p : outcome * state) : str :=
  let (o, s) := p in
  show_outcome o ++ ["/"] ++ show_z (idx s) ++ ["/"] ++ show_z (tm s) ++ ["/"] ++ show_z (sp s) ++ ["/"] ++ show_tabs (tabs s).

Definition run_case (line : str) : str :=
  match fields line with
  | k :: init :: sets :: seqs =>
      if str_eqb k (s2l "nav") then
        let L := {| linit := parse_init init; lsets := map parse_set (split_term ";" sets) |} in
        match lsets L with
        | [] => s2l "EMPTY"
        | _ =>
          let s0 := open L in
          join [";"] (show_obs (ONone, s0) ::
                      map (fun q => join [" "] (map show_obs (trace round53 L s0 (map parse_op (split_term "," q))))) seqs)
        end
      else s2l "BADCASE"
  | _ => s2l "BADCASE"
  end.

Require Extraction.
Require Import ExtrOcamlBasic ExtrOcamlString.
Extraction "Drv.ml" run_case.
