(** C07 -- when is a listing uniform?  The repaired reader (read_tables_TOUGH2 after b85eb41, and the
    AUTOUGH2 / TOUGH+ readers on the tables they know) over a PRINTED-TABLE abstraction of the file:
    a result set is the sequence of the tables it prints (kind, the values a read of that table
    assigns); the tables the reader knows are those printed at the FIRST result set that are not in
    skip_tables; at every result set it walks the printed tables in order: a table in skip_tables or
    not known is passed over, a known one is read into its array.  [abstract] turns such a file into
    the listing of ListingNav.v; [struct_okb] is a decidable condition on the file -- every result set
    prints every table the first one prints (any order, extra tables allowed, same number of cells) --
    and [struct_ok_uniform] shows it implies [uniform], the hypothesis of the freshness theorem. *)
From Coq Require Import List Bool Arith ZArith Lia ZifyBool.
From PTBase Require Import Exn PyStr.
From P Require Import ListingNav.
Import ListNotations.
Open Scope Z_scope.

Definition tname := Z.
Record pset := { ptime : Z; pstep : Z; pprint : list (tname * list Z) }.
Record plisting := { pskip : list tname; psets : list pset }.

Definition memz (x : Z) (l : list Z) : bool := existsb (Z.eqb x) l.

(** setup_tables: the tables of the first result set that are not skipped, with their sizes *)
Definition known (P : plisting) : list (tname * nat) :=
  match psets P with
  | [] => []
  | r0 :: _ => map (fun p => (fst p, length (snd p))) (filter (fun p => negb (memz (fst p) (pskip P))) (pprint r0))
  end.

Definition blank_cells (kn : list (tname * nat)) : list cells := map (fun p => repeat None (snd p)) kn.

(** read_table(n): every cell of the array of table n is assigned *)
Fixpoint assign (kn : list (tname * nat)) (acc : list cells) (n : tname) (vals : list Z) : list cells :=
  match kn, acc with
  | (k, _) :: kn', c :: acc' => (if k =? n then map Some vals else c) :: assign kn' acc' n vals
  | _, _ => acc
  end.
(**   if tablename in self.skip_tables: self.skip_table(tablename)
      elif tablename in self._table: self.read_table(tablename)
      else: self.skip_table(tablename)        # table not present at first time step *)
Definition read_one (skip : list tname) (kn : list (tname * nat)) (acc : list cells) (p : tname * list Z) : list cells :=
  if memz (fst p) skip then acc else assign kn acc (fst p) (snd p).
Definition read_set (skip : list tname) (kn : list (tname * nat)) (r : pset) : list cells :=
  fold_left (read_one skip kn) (pprint r) (blank_cells kn).

Definition abstract (P : plisting) : listing :=
  {| linit := map (fun p => repeat 0 (snd p)) (known P);
     lsets := map (fun r => {| rtime := ptime r; rstep := pstep r; rtabs := read_set (pskip P) (known P) r |}) (psets P) |}.

(** the decidable structural condition *)
Definition prints_ok (r : pset) (k : tname * nat) : bool :=
  existsb (fun p => fst p =? fst k) (pprint r) &&
  forallb (fun p => implb (fst p =? fst k) (length (snd p) =? snd k)%nat) (pprint r).
Definition struct_okb (P : plisting) : bool :=
  forallb (fun r => forallb (prints_ok r) (known P)) (psets P).

(** ** soundness *)
Definition somes (c : cells) : Prop := Forall (fun o : option Z => o <> None) c.
Lemma somes_map_some v : somes (map Some v).
Proof. induction v; constructor; [discriminate|assumption]. Qed.

Definition pinv (seen : list tname) (kn : list (tname * nat)) (acc : list cells) : Prop :=
  Forall2 (fun kl c => length c = snd kl /\ (In (fst kl) seen -> somes c)) kn acc.

Lemma pinv_blank kn : pinv [] kn (blank_cells kn).
Proof.
  induction kn as [|[k l] r IH]; cbn [blank_cells map]; constructor; [|exact IH].
  cbn [fst snd]. split; [apply repeat_length|intros []].
Qed.

Lemma pinv_weaken seen seen' kn acc : (forall x, In x seen' -> In x seen) -> pinv seen kn acc -> pinv seen' kn acc.
Proof. intros H I. induction I as [|kl c kn acc [H1 H2] _ IH]; constructor; auto. Qed.

Lemma assign_inv seen kn : forall acc n vals, pinv seen kn acc ->
  (forall kl, In kl kn -> fst kl = n -> length vals = snd kl) ->
  pinv (n :: seen) kn (assign kn acc n vals).
Proof.
  induction kn as [|[k l] kn IH]; intros acc n vals I Hl; inversion I as [|? c ? acc' [H1 H2] I']; subst; cbn [assign]; constructor.
  - cbn [fst snd] in *. destruct (k =? n) eqn:E.
    + split; [rewrite map_length; apply (Hl (k, l)); [left; reflexivity|cbn; lia]|intros _; apply somes_map_some].
    + split; [exact H1|]. intros [Hn|Hs]; [lia|auto].
  - apply IH; [exact I'|]. intros kl Hin. apply Hl. right. exact Hin.
Qed.

Lemma fold_inv skip kn : forall pr seen acc, pinv seen kn acc ->
  (forall q, In q pr -> forall kl, In kl kn -> fst kl = fst q -> length (snd q) = snd kl) ->
  exists s', pinv s' kn (fold_left (read_one skip kn) pr acc) /\ (forall x, In x seen -> In x s') /\
             (forall q, In q pr -> memz (fst q) skip = false -> In (fst q) s').
Proof.
  induction pr as [|q pr IH]; intros seen acc I Hl; cbn [fold_left].
  - exists seen. repeat split; auto. intros q [].
  - unfold read_one at 2. destruct (memz (fst q) skip) eqn:E.
    + destruct (IH seen acc I) as (s' & A & B & C); [intros x Hx; apply Hl; right; exact Hx|].
      exists s'. repeat split; auto. intros x [->|Hx] Hm; [congruence|auto].
    + destruct (IH (fst q :: seen) (assign kn acc (fst q) (snd q))) as (s' & A & B & C).
      * apply assign_inv; [exact I|]. intros kl Hk He. apply (Hl q); [left; reflexivity|exact Hk|exact He].
      * intros x Hx; apply Hl; right; exact Hx.
      * exists s'. repeat split; auto.
        -- intros x Hx. apply B. right. exact Hx.
        -- intros x [->|Hx] Hm; [apply B; left; reflexivity|auto].
Qed.

Lemma known_not_skipped P kl : In kl (known P) -> memz (fst kl) (pskip P) = false.
Proof.
  unfold known. destruct (psets P) as [|r0 rs]; [intros []|]. rewrite in_map_iff. intros (p & <- & Hp).
  apply filter_In in Hp. destruct Hp as [_ Hp]. cbn [fst]. apply negb_true_iff in Hp. exact Hp.
Qed.

Lemma read_set_uniform P r : forallb (prints_ok r) (known P) = true ->
  shape (read_set (pskip P) (known P) r) = map snd (known P) /\ all_some (read_set (pskip P) (known P) r).
Proof.
  intro H. rewrite forallb_forall in H. unfold read_set.
  destruct (fold_inv (pskip P) (known P) (pprint r) [] (blank_cells (known P)) (pinv_blank _)) as (s' & I & _ & C).
  { intros p Hp kl Hk He. specialize (H kl Hk). unfold prints_ok in H. apply andb_true_iff in H. destruct H as [_ H].
    rewrite forallb_forall in H. specialize (H p Hp). rewrite He in H.
    rewrite Z.eqb_refl in H. cbn [implb] in H. apply Nat.eqb_eq in H. exact H. }
  set (res := fold_left _ _ _) in *.
  assert (Seen : forall kl, In kl (known P) -> In (fst kl) s').
  { intros kl Hk. specialize (H kl Hk). unfold prints_ok in H. apply andb_true_iff in H. destruct H as [H _].
    apply existsb_exists in H. destruct H as (p & Hp & E). apply Z.eqb_eq in E. rewrite <- E.
    apply (C p Hp). pose proof (known_not_skipped P kl Hk) as M. rewrite <- E in M. exact M. }
  clear C H. unfold pinv in I. revert Seen. generalize dependent res. generalize (known P) as kn.
  intros kn res I. induction I as [|kl c kn acc [H1 H2] _ IH]; intro Seen.
  - split; [reflexivity|constructor].
  - destruct IH as [IH1 IH2]; [intros x Hx; apply Seen; right; exact Hx|].
    split; [cbn [shape map]; f_equal; [exact H1|exact IH1]|constructor; [apply H2, Seen; left; reflexivity|exact IH2]].
Qed.

Lemma shape_init P : shape (linit (abstract P)) = map snd (known P).
Proof. cbn [abstract linit]. unfold shape. rewrite map_map. apply map_ext. intro p. apply repeat_length. Qed.

(** MAIN: the structural condition implies uniformity of the abstracted listing *)
Lemma struct_ok_uniform P : struct_okb P = true -> uniform (abstract P).
Proof.
  unfold struct_okb. rewrite forallb_forall. intro H. unfold uniform. cbn [abstract lsets].
  rewrite Forall_forall. intros rs Hrs. rewrite in_map_iff in Hrs. destruct Hrs as (r & <- & Hr).
  unfold uniform_set. cbn [rtabs]. destruct (read_set_uniform P r (H r Hr)) as [S A].
  split; [rewrite S, shape_init; reflexivity|exact A].
Qed.

Lemma abstract_nonempty P : psets P <> [] -> lsets (abstract P) <> [].
Proof. cbn [abstract lsets]. destruct (psets P); [congruence|discriminate]. Qed.

(** the freshness theorem with a decidable hypothesis *)
Lemma nav_fresh_structural rnd P : psets P <> [] -> struct_okb P = true -> forall ops,
  let L := abstract P in let s := run rnd L (open L) ops in
  exists f, fresh_at L (idx s) = (f, ONone) /\ observe s = observe f.
Proof. intros NE H ops. exact (nav_fresh rnd (abstract P) (abstract_nonempty P NE) (struct_ok_uniform P H) ops). Qed.

(** ** examples: the shape of tests/listing/TOUGH2/11 (table 3 = primary printed at the third result
    set only) meets the condition for the repaired reader, also with connection (2) skipped; a file
    whose third result set lacks table 5 does not, and its abstraction is not uniform *)
Definition P_t11 (skip : list tname) : plisting :=
  {| pskip := skip;
     psets := [ {| ptime := 1; pstep := 1; pprint := [(0, [10; 11]); (2, [20]); (5, [50])] |};
                {| ptime := 3; pstep := 2; pprint := [(0, [12; 13]); (2, [21]); (5, [51])] |};
                {| ptime := 9; pstep := 7; pprint := [(0, [14; 15]); (2, [22]); (3, [30; 31; 32]); (5, [52])] |} ] |}.
Example P_t11_ok : struct_okb (P_t11 []) = true /\ struct_okb (P_t11 [2]) = true /\ psets (P_t11 []) <> [] /\
  map rtabs (lsets (abstract (P_t11 [2]))) = [[[Some 10; Some 11]; [Some 50]]; [[Some 12; Some 13]; [Some 51]]; [[Some 14; Some 15]; [Some 52]]].
Proof. vm_compute. repeat split. discriminate. Qed.
Definition P_missing : plisting :=
  {| pskip := [];
     psets := [ {| ptime := 1; pstep := 1; pprint := [(0, [10]); (5, [50])] |};
                {| ptime := 3; pstep := 2; pprint := [(0, [12]); (5, [51])] |};
                {| ptime := 9; pstep := 7; pprint := [(0, [14])] |} ] |}.
Lemma struct_needed : struct_okb P_missing = false /\ ~ uniform (abstract P_missing) /\
  exists ops, let L := abstract P_missing in let s := run (fun z => z) L (open L) ops in
              observe s <> observe (fst (fresh_at L (idx s))).
Proof.
  split; [reflexivity|]. split.
  - intro U. unfold uniform in U. rewrite Forall_forall in U.
    specialize (U {| rtime := 9; rstep := 7; rtabs := [[Some 14]; [None]] |}).
    destruct U as [_ U]; [vm_compute; auto|]. inversion U as [|? ? _ U2]. inversion U2 as [|? ? U3 _]. inversion U3 as [|? ? U4 _]. congruence.
  - exists [SetIndex 1; SetIndex 2]. vm_compute. intro H. discriminate H.
Qed.
