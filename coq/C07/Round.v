(** [round53] (ListingNav.v) -- rounding of a non-negative integer to 53 significant bits,
    ties to even, i.e. the float64 result of a subtraction whose exact value is that integer
    (in units of a common power of two) -- is monotone.  This is the only property of the
    float arithmetic that [set_time_nearest] needs. *)
From Coq Require Import ZArith Lia Bool ZifyBool.
From P Require Import ListingNav.
Open Scope Z_scope.

Definition up (q r h : Z) : Z := if r <? h then q else if h <? r then q + 1 else if Z.even q then q else q + 1.

Lemma up_range q r h : q <= up q r h <= q + 1.
Proof. unfold up. destruct (r <? h), (h <? r), (Z.even q); lia. Qed.
Lemma up_mono_r q r1 r2 h : r1 <= r2 -> up q r1 h <= up q r2 h.
Proof. unfold up. intro H. destruct (r1 <? h) eqn:E1, (h <? r1) eqn:E2, (r2 <? h) eqn:E3, (h <? r2) eqn:E4, (Z.even q); lia. Qed.

Lemma pow2_pos n : 0 <= n -> 0 < 2 ^ n.
Proof. intro H. apply Z.pow_pos_nonneg; lia. Qed.

Lemma round53_small x : x < 2 ^ 53 -> round53 x = x.
Proof. intro H. unfold round53. destruct (x <? 2 ^ 53) eqn:E; [reflexivity|lia]. Qed.

Lemma round53_big x : 2 ^ 53 <= x ->
  let e := Z.log2 x in let s := e - 52 in
  round53 x = up (x / 2 ^ s) (x mod 2 ^ s) (2 ^ (s - 1)) * 2 ^ s /\
  1 <= s /\ 2 ^ e <= x < 2 ^ (e + 1) /\ 2 ^ 52 <= x / 2 ^ s < 2 ^ 53.
Proof.
  intro H. cbv zeta.
  assert (P53 : 0 < 2 ^ 53) by (apply pow2_pos; lia).
  assert (L : 53 <= Z.log2 x).
  { replace 53 with (Z.log2 (2 ^ 53)) by (apply Z.log2_pow2; lia). apply Z.log2_le_mono. exact H. }
  pose proof (Z.log2_spec x ltac:(lia)) as S. replace (Z.succ (Z.log2 x)) with (Z.log2 x + 1) in S by lia.
  set (e := Z.log2 x) in *. set (s := e - 52).
  assert (Ps : 0 < 2 ^ s) by (apply pow2_pos; lia).
  assert (E1 : 2 ^ e = 2 ^ 52 * 2 ^ s) by (rewrite <- Z.pow_add_r by lia; f_equal; lia).
  assert (E2 : 2 ^ (e + 1) = 2 ^ 53 * 2 ^ s) by (rewrite <- Z.pow_add_r by lia; f_equal; lia).
  split.
  - unfold round53. destruct (x <? 2 ^ 53) eqn:E; [lia|]. fold e. fold s. unfold up. reflexivity.
  - split; [lia|]. split; [exact S|]. split.
    + apply Z.div_le_lower_bound; [exact Ps|]. rewrite Z.mul_comm. rewrite <- E1. lia.
    + apply Z.div_lt_upper_bound; [exact Ps|]. rewrite Z.mul_comm. rewrite <- E2. lia.
Qed.

(** a rounded value stays inside its binade *)
Lemma round53_binade x : 2 ^ 53 <= x -> 2 ^ Z.log2 x <= round53 x <= 2 ^ (Z.log2 x + 1).
Proof.
  intro H. destruct (round53_big x H) as (R & S1 & B & Q). rewrite R.
  set (e := Z.log2 x) in *. set (s := e - 52) in *.
  assert (Ps : 0 < 2 ^ s) by (apply pow2_pos; lia).
  assert (E1 : 2 ^ e = 2 ^ 52 * 2 ^ s) by (rewrite <- Z.pow_add_r by lia; f_equal; lia).
  assert (E2 : 2 ^ (e + 1) = 2 ^ 53 * 2 ^ s) by (rewrite <- Z.pow_add_r by lia; f_equal; lia).
  pose proof (up_range (x / 2 ^ s) (x mod 2 ^ s) (2 ^ (s - 1))) as U.
  rewrite E1, E2. split; apply Z.mul_le_mono_nonneg_r; lia.
Qed.

Lemma round53_mono a b : 0 <= a <= b -> round53 a <= round53 b.
Proof.
  intros [Ha Hab].
  destruct (Z_lt_le_dec b (2 ^ 53)) as [Hb|Hb].
  - rewrite !round53_small by lia. exact Hab.
  - destruct (Z_lt_le_dec a (2 ^ 53)) as [Ha'|Ha'].
    + rewrite (round53_small a Ha'). pose proof (round53_binade b Hb) as B.
      pose proof (Z.log2_spec b ltac:(lia)) as S.
      assert (53 <= Z.log2 b).
      { replace 53 with (Z.log2 (2 ^ 53)) by (apply Z.log2_pow2; lia). apply Z.log2_le_mono. exact Hb. }
      assert (2 ^ 53 <= 2 ^ Z.log2 b) by (apply Z.pow_le_mono_r; lia). lia.
    + pose proof (Z.log2_le_mono a b Hab) as Lm.
      destruct (Z.eq_dec (Z.log2 a) (Z.log2 b)) as [Le|Ln].
      * destruct (round53_big a Ha') as (Ra & S1 & Ba & Qa). destruct (round53_big b Hb) as (Rb & _ & Bb & Qb).
        rewrite Ra, Rb. rewrite Le in *. set (s := Z.log2 b - 52) in *.
        assert (Ps : 0 < 2 ^ s) by (apply pow2_pos; lia).
        pose proof (Z.div_mod a (2 ^ s) ltac:(lia)) as Da. pose proof (Z.div_mod b (2 ^ s) ltac:(lia)) as Db.
        pose proof (Z.mod_pos_bound a (2 ^ s) Ps) as Ma. pose proof (Z.mod_pos_bound b (2 ^ s) Ps) as Mb.
        assert (Qle : a / 2 ^ s <= b / 2 ^ s) by (apply Z.div_le_mono; lia).
        apply Z.mul_le_mono_nonneg_r; [lia|].
        destruct (Z.eq_dec (a / 2 ^ s) (b / 2 ^ s)) as [Qe|Qn].
        -- rewrite Qe. apply up_mono_r. rewrite Qe in Da. lia.
        -- pose proof (up_range (a / 2 ^ s) (a mod 2 ^ s) (2 ^ (s - 1))). pose proof (up_range (b / 2 ^ s) (b mod 2 ^ s) (2 ^ (s - 1))). lia.
      * pose proof (round53_binade a Ha') as Ba. pose proof (round53_binade b Hb) as Bb.
        assert (2 ^ (Z.log2 a + 1) <= 2 ^ Z.log2 b) by (apply Z.pow_le_mono_r; lia). lia.
Qed.

(** only 0 is rounded to 0: an exact hit of a printed time has computed distance 0 and nothing else has *)
Lemma round53_zero : round53 0 = 0.
Proof. reflexivity. Qed.
Lemma round53_pos a : 0 < a -> 0 < round53 a.
Proof.
  intro H. destruct (Z_lt_le_dec a (2 ^ 53)) as [Hs|Hb].
  - rewrite round53_small by exact Hs. exact H.
  - pose proof (round53_binade a Hb) as B. pose proof (Z.log2_nonneg a) as Ln.
    assert (0 < 2 ^ Z.log2 a) by (apply pow2_pos; exact Ln). lia.
Qed.
