(** C18 -- the relative accuracy of [rnd] (RndAcc.v) carried to [Qc] and to the spacings rectgeo recovers from a
    data file ([file_spacing] of FinalFile.v): within 5e-5 of the original spacing. *)
From Coq Require Import List Bool Arith ZArith QArith Qcanon Qabs Qpower Lia Lqa.
From P Require Import Rectgeo QcFacts FileGrid FileSim FinalFile RndAcc.
Open Scope Q_scope.

Lemma rnd_relative_error_lemma (d : nat) (x : Qc) (m : Q) (e : Z) :
  0 < x -> normalise (rnd_fuel x) x 0 = (m, e) -> 1 <= m ->
  x - (1 # 2) * pow10 (1 - Z.of_nat d) * x <= rnd d x /\ rnd d x <= x + (1 # 2) * pow10 (1 - Z.of_nat d) * x.
Proof.
  intros Hx E Hm. pose proof (rnd_pos_relative_error_lemma d x m e E Hm) as H.
  apply Qabs_Qle_condition in H.
  assert (R : this (rnd d x) == rnd_pos d x).
  { unfold rnd. destruct x as [[n dn] c]. cbn [this Qnum] in *. destruct n; try (unfold Qlt in Hx; cbn in Hx; lia).
    cbn [this Q2Qc]. apply Qred_correct. }
  rewrite R. split; lra.
Qed.

Definition eps5 : Qc := Q2Qc (1 # 20000).
Lemma file_spacing_accuracy_lemma (d : Qc) (m : Q) (e : Z) :
  (0 < d)%Qc -> normalise (rnd_fuel (d * half)%Qc) (d * half)%Qc 0 = (m, e) -> 1 <= m ->
  (d - eps5 * d <= file_spacing d /\ file_spacing d <= d + eps5 * d)%Qc.
Proof.
  intros Hd E Hm.
  assert (Hy : 0 < (d * half)%Qc).
  { unfold Qclt in Hd. rewrite this_0 in Hd. rewrite this_mult, this_half. lra. }
  destruct (rnd_relative_error_lemma 5 (d * half)%Qc m e Hy E Hm) as [L U].
  assert (P : (1 # 2) * pow10 (1 - Z.of_nat 5) == 1 # 20000) by reflexivity.
  rewrite P in L, U.
  assert (T : this eps5 == 1 # 20000) by reflexivity.
  apply file_spacing_error_lemma; unfold Qcle; q_push_goal; rewrite T; rewrite this_mult, this_half in L, U; lra.
Qed.
