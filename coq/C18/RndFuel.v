(** C18 -- the fuel of [normalise] (FileGrid.v) always suffices: for every positive rational the mantissa ends in [1, 10);
    hence the relative accuracy of [rnd_pos] and of [file_spacing] without hypothesis. *)
From Coq Require Import List Bool Arith ZArith QArith Qcanon Qabs Qpower Lia Lqa.
From P Require Import Rectgeo QcFacts FileGrid FileSim FinalFile RndAcc RndFile.
Open Scope Q_scope.

Definition p10 (f : nat) : Q := inject_Z (10 ^ Z.of_nat f).
Lemma p10_S f : p10 (S f) == 10 * p10 f.
Proof. unfold p10. rewrite Nat2Z.inj_succ, Z.pow_succ_r by lia. rewrite inject_Z_mult. reflexivity. Qed.
Lemma p10_0 : p10 0 == 1. Proof. reflexivity. Qed.

Lemma Qle_bool_false a b : Qle_bool a b = false -> b < a.
Proof. intros H. apply Qnot_le_lt. intros L. apply Qle_bool_iff in L. congruence. Qed.

Lemma normalise_down f : forall x e, 1 <= x -> x < 10 * p10 f ->
  1 <= fst (normalise (S f) x e) /\ fst (normalise (S f) x e) < 10.
Proof.
  induction f as [|f IH]; intros x e L U.
  - rewrite p10_0 in U. cbn. destruct (Qle_bool 10 x) eqn:A. { apply Qle_bool_iff in A. lra. }
    destruct (Qle_bool 1 x) eqn:B. { apply Qle_bool_false in A. cbn. lra. }
    apply Qle_bool_false in B. lra.
  - rewrite p10_S in U. change (normalise (S (S f)) x e) with
      (if Qle_bool 10 x then normalise (S f) (x / 10) (e + 1)%Z else if Qle_bool 1 x then (x, e) else normalise (S f) (x * 10) (e - 1)%Z).
    destruct (Qle_bool 10 x) eqn:A.
    + apply Qle_bool_iff in A. apply IH.
      * apply Qle_shift_div_l; lra.
      * apply Qlt_shift_div_r; lra.
    + apply Qle_bool_false in A. destruct (Qle_bool 1 x) eqn:B. { cbn. lra. }
      apply Qle_bool_false in B. lra.
Qed.

Lemma normalise_up f : forall x e, 0 < x -> x < 1 -> 1 <= x * p10 f ->
  1 <= fst (normalise (S f) x e) /\ fst (normalise (S f) x e) < 10.
Proof.
  induction f as [|f IH]; intros x e P L U.
  - rewrite p10_0 in U. lra.
  - rewrite p10_S in U. change (normalise (S (S f)) x e) with
      (if Qle_bool 10 x then normalise (S f) (x / 10) (e + 1)%Z else if Qle_bool 1 x then (x, e) else normalise (S f) (x * 10) (e - 1)%Z).
    destruct (Qle_bool 10 x) eqn:A. { apply Qle_bool_iff in A. lra. }
    destruct (Qle_bool 1 x) eqn:B. { apply Qle_bool_iff in B. lra. }
    destruct (Qlt_le_dec (x * 10) 1) as [C|C].
    + apply IH; lra.
    + change (normalise (S f) (x * 10) (e - 1)%Z) with
        (if Qle_bool 10 (x * 10) then normalise f (x * 10 / 10) (e - 1 + 1)%Z else if Qle_bool 1 (x * 10) then (x * 10, (e - 1)%Z) else normalise f (x * 10 * 10) (e - 1 - 1)%Z).
      destruct (Qle_bool 10 (x * 10)) eqn:A2. { apply Qle_bool_iff in A2. lra. }
      apply Qle_bool_false in A2.
      destruct (Qle_bool 1 (x * 10)) eqn:B2. { cbn. lra. }
      apply Qle_bool_false in B2. lra.
Qed.

Lemma pow_bound n : (0 < n)%Z -> forall F, (Z.log2 n + 1 <= F)%Z -> (n < 10 ^ F)%Z.
Proof.
  intros Hn F HF. pose proof (Z.log2_spec n Hn) as [_ H]. pose proof (Z.log2_nonneg n).
  assert (2 ^ Z.succ (Z.log2 n) <= 10 ^ Z.succ (Z.log2 n))%Z by (apply Z.pow_le_mono_l; lia).
  assert (10 ^ Z.succ (Z.log2 n) <= 10 ^ F)%Z by (apply Z.pow_le_mono_r; lia). lia.
Qed.

Lemma normalise_fuel_suffices_lemma (x : Q) : 0 < x ->
  1 <= fst (normalise (rnd_fuel x) x 0) /\ fst (normalise (rnd_fuel x) x 0) < 10.
Proof.
  intros Hx. unfold rnd_fuel. set (F := Z.to_nat (Z.log2 (Qnum x) + Z.log2 (Z.pos (Qden x)) + 2)).
  destruct x as [n dn]. cbn [Qnum Qden] in *. assert (Hn : (0 < n)%Z) by (unfold Qlt in Hx; cbn in Hx; lia).
  pose proof (Z.log2_nonneg n). pose proof (Z.log2_nonneg (Z.pos dn)).
  assert (HF : Z.of_nat F = (Z.log2 n + Z.log2 (Z.pos dn) + 2)%Z) by (unfold F; lia).
  assert (B1 : (n < 10 ^ Z.of_nat F)%Z) by (apply pow_bound; lia).
  assert (B2 : (Z.pos dn < 10 ^ Z.of_nat F)%Z) by (apply pow_bound; lia).
  set (T := (10 ^ Z.of_nat F)%Z) in *.
  destruct (Qlt_le_dec (n # dn) 1) as [C|C].
  - apply normalise_up; try assumption. unfold p10. fold T. clearbody T. unfold Qle, Qmult, inject_Z. cbn [Qnum Qden]. nia.
  - apply normalise_down; try assumption. unfold p10. fold T. clearbody T. unfold Qlt, Qmult, inject_Z. cbn [Qnum Qden]. nia.
Qed.

Lemma rnd_pos_accuracy_lemma (d : nat) (x : Q) : 0 < x -> Qabs (rnd_pos d x - x) <= (1 # 2) * pow10 (1 - Z.of_nat d) * x.
Proof.
  intros Hx. destruct (normalise_fuel_suffices_lemma x Hx) as [L _].
  destruct (normalise (rnd_fuel x) x 0) as [m e] eqn:E. cbn [fst] in L.
  exact (rnd_pos_relative_error_lemma d x m e E L).
Qed.
Lemma file_spacing_accuracy_total_lemma (d : Qc) : (0 < d)%Qc ->
  (d - Q2Qc (1 # 20000) * d <= file_spacing d /\ file_spacing d <= d + Q2Qc (1 # 20000) * d)%Qc.
Proof.
  intros Hd.
  assert (Hy : 0 < (d * half)%Qc).
  { unfold Qclt in Hd. rewrite this_0 in Hd. rewrite this_mult, this_half. lra. }
  destruct (normalise_fuel_suffices_lemma _ Hy) as [L _].
  destruct (normalise (rnd_fuel (d * half)%Qc) (d * half)%Qc 0) as [m e] eqn:E. cbn [fst] in L.
  exact (file_spacing_accuracy_lemma d m e Hd E L).
Qed.
