(** C18 -- grids in which no column reaches the top of layer 1 (or whose upper layers hold no block at
    all).  Such a grid is, block for block and connection for connection, the grid generated from the
    TRIMMED geometry: the layers above the topmost layer [kt] that holds a block are dropped and layer kt
    is cut at the highest column surface.  Hence rectgeo returns exactly the trimmed geometry: every
    spacing, surface, position and name is recovered except the thickness of the top layer, for which it
    returns (highest surface - bottom of layer kt): that thickness is not in the grid. *)
From Coq Require Import List Bool Arith ZArith QArith Qcanon Lia.
From PTBase Require Import Exn.
From P Require Import Rectgeo QcFacts GeoFacts ListFacts Forward Regen.
Import ListNotations.
Open Scope Qc_scope.

Lemma qsum_firstn_add (l : list Qc) a : forall b, qsum (firstn (a + b) l) = qsum (firstn a l) + qsum (firstn b (skipn a l)).
Proof.
  revert l. induction a as [|a IH]; intros l b.
  - cbn. ring.
  - destruct l as [|x l]; [cbn; destruct b; cbn; ring|]. cbn [Nat.add firstn skipn qsum]. rewrite IH. ring.
Qed.
Lemma nth_skipn' {A} (l : list A) a k d : nth k (skipn a l) d = nth (a + k) l d.
Proof. revert l. induction a as [|a IH]; intros l; [reflexivity|]. destruct l; [destruct k; reflexivity|]. cbn. apply IH. Qed.
Lemma Forall_skipn' {A} (P : A -> Prop) l a : Forall P l -> Forall P (skipn a l).
Proof. revert l. induction a as [|a IH]; intros l F; [exact F|]. destruct l; [constructor|]. cbn. apply IH. inversion F; assumption. Qed.
Lemma seq_from a n : seq a n = map (fun k => (a + k)%nat) (seq 0 n).
Proof.
  revert a. induction n as [|n IH]; intros a; [reflexivity|]. cbn [seq map]. rewrite Nat.add_0_r. f_equal.
  rewrite (IH (S a)), <- seq_shift, map_map. apply map_ext. intros k. lia.
Qed.
Lemma map_flat_map {A B C} (f : B -> C) (h : A -> list B) l : map f (flat_map h l) = flat_map (fun x => map f (h x)) l.
Proof. induction l as [|a l IH]; [reflexivity|]. cbn [flat_map]. rewrite map_app, IH. reflexivity. Qed.
Lemma flat_map_map {A B C} (f : A -> B) (h : B -> list C) l : flat_map h (map f l) = flat_map (fun x => h (f x)) l.
Proof. induction l as [|a l IH]; [reflexivity|]. cbn [map flat_map]. rewrite IH. reflexivity. Qed.
Lemma flat_map_nil {A B} (h : A -> list B) l : (forall x, In x l -> h x = []) -> flat_map h l = [].
Proof. induction l as [|a l IH]; intros H; [reflexivity|]. cbn [flat_map]. rewrite (H a (or_introl eq_refl)), IH; [reflexivity|]. intros x Hx. apply H. right. exact Hx. Qed.
Lemma map_cat_some {A B} (f : A -> B) l : map f (cat_some l) = cat_some (map (option_map f) l).
Proof. induction l as [|[a|] l IH]; cbn [cat_some map option_map]; [reflexivity| |exact IH]. rewrite IH. reflexivity. Qed.
Lemma filter_nil_all {A} (p : A -> bool) l : (forall x, In x l -> p x = false) -> filter p l = [].
Proof. induction l as [|a l IH]; intros H; [reflexivity|]. cbn [filter]. rewrite (H a (or_introl eq_refl)). apply IH. intros x Hx. apply H. right. exact Hx. Qed.

Section Trim.
Set Default Proof Using "All".
Variable g : rgeo.
Hypothesis W : wf g.
Variable kt i0 j0 : nat.
Hypothesis KT : (1 <= kt < nz g)%nat.
Hypothesis Hi0 : (i0 < nx g)%nat.
Hypothesis Hj0 : (j0 < ny g)%nat.
Notation smax := (gsurf g i0 j0).
(** column (i0, j0) has the highest surface; it lies in layer kt (possibly exactly at its top) *)
Hypothesis SM : forall i j, (i < nx g)%nat -> (j < ny g)%nat -> gsurf g i j <= smax.
Hypothesis B1 : bot g kt < smax.
Hypothesis B2 : smax <= top g kt.

Definition trim : rgeo :=
  mkRgeo (gox g) (goy g) smax (gax g) (gay g) (gdx g) (gdy g) ((smax - bot g kt) :: skipn kt (gdz g))
         (gatm g) (gatmvol g) (gatmconn g) (gatmz g) (gsurf g).
(** layer k >= 1 of the trimmed geometry is layer kt + k - 1 of the original *)
Definition sh (c : cid) : cid :=
  match c with Atm0 => Atm0 | Cell O i j => Cell 0 i j | Cell (S k) i j => Cell (kt + k) i j end.

Lemma nz_trim : nz trim = S (nz g - kt).
Proof. unfold nz, trim. cbn [gdz length]. rewrite skipn_length. reflexivity. Qed.
Lemma bot_trim k : bot trim (S k) = bot g (kt + k).
Proof.
  unfold bot at 1. cbn [trim goz gdz firstn qsum]. unfold bot. rewrite (qsum_firstn_add (gdz g) kt k). ring.
Qed.
Lemma bot_trim0 : bot trim 0 = smax.
Proof. apply bot0. Qed.
Lemma top_trim1 : top trim 1 = smax.
Proof. unfold top. cbn [Nat.sub]. apply bot_trim0. Qed.
Lemma top_trim k : top trim (S (S k)) = top g (kt + S k).
Proof. unfold top. cbn [Nat.sub]. rewrite bot_trim. f_equal. lia. Qed.
Lemma thick_trim k : thick trim (S (S k)) = thick g (kt + S k).
Proof.
  unfold thick. cbn [trim gdz Nat.sub nth]. rewrite nth_skipn'. f_equal. lia.
Qed.
Lemma lcen_trim k : lcen trim (S (S k)) = lcen g (kt + S k).
Proof.
  rewrite (lcen_eq g W (kt + S k)) by lia. cbn [lcen]. rewrite bot_trim, thick_trim. reflexivity.
Qed.
Lemma surf_le_top i j : (i < nx g)%nat -> (j < ny g)%nat -> gsurf g i j <= top g kt.
Proof. intros Hi Hj. pose proof (SM i j Hi Hj). qc_lra. Qed.
Lemma top_kt_le_goz : top g kt <= goz g.
Proof. unfold top. rewrite <- (bot0 g). apply (bot_mono g W); lia. Qed.

Lemma has_trim k i j : has trim (S k) i j = has g (kt + k) i j.
Proof. unfold has. rewrite bot_trim. reflexivity. Qed.
Lemma has_above k i j : (i < nx g)%nat -> (j < ny g)%nat -> (k < kt)%nat -> has g k i j = false.
Proof.
  intros Hi Hj Hk. unfold has. pose proof (surf_le_top i j Hi Hj) as S.
  pose proof (bot_mono g W k (kt - 1) ltac:(lia) ltac:(lia)) as M. unfold top in S. qc_lra.
Qed.

Lemma bs_trim1 i j : (i < nx g)%nat -> (j < ny g)%nat -> block_surface trim 1 i j = gsurf g i j /\ block_surface g kt i j = gsurf g i j.
Proof.
  intros Hi Hj. pose proof (SM i j Hi Hj) as S1. pose proof (surf_le_top i j Hi Hj) as S2. pose proof top_kt_le_goz as TG.
  unfold block_surface. rewrite top_trim1. cbn [trim gsurf goz]. split.
  - destruct (qlt (gsurf g i j) smax) eqn:E; [reflexivity|]. assert (Q : qlt smax (gsurf g i j) = false) by qc_lra. rewrite Q. qc_lra.
  - destruct (qlt (gsurf g i j) (top g kt)) eqn:E; [reflexivity|]. assert (Q : qlt (goz g) (gsurf g i j) = false) by qc_lra. rewrite Q. qc_lra.
Qed.
Lemma bs_trim k i j : (i < nx g)%nat -> (j < ny g)%nat -> block_surface trim (S (S k)) i j = block_surface g (kt + S k) i j.
Proof.
  intros Hi Hj. pose proof (SM i j Hi Hj) as S1. pose proof (surf_le_top i j Hi Hj) as S2. pose proof top_kt_le_goz as TG.
  unfold block_surface. rewrite top_trim. cbn [trim gsurf goz].
  assert (Q1 : qlt smax (gsurf g i j) = false) by qc_lra. assert (Q2 : qlt (goz g) (gsurf g i j) = false) by qc_lra.
  rewrite Q1, Q2. reflexivity.
Qed.
Lemma height_trim k i j : (i < nx g)%nat -> (j < ny g)%nat -> height trim (S k) i j = height g (kt + k) i j.
Proof.
  intros Hi Hj. unfold height. rewrite bot_trim. destruct k as [|k].
  - destruct (bs_trim1 i j Hi Hj) as [A B]. rewrite A. rewrite Nat.add_0_r, B. reflexivity.
  - rewrite bs_trim by assumption. reflexivity.
Qed.
Lemma volume_trim k i j : (i < nx g)%nat -> (j < ny g)%nat -> volume trim (S k) i j = volume g (kt + k) i j.
Proof. intros Hi Hj. unfold volume. rewrite height_trim by assumption. reflexivity. Qed.
Lemma zc_trim k i j : (i < nx g)%nat -> (j < ny g)%nat -> has g (kt + k) i j = true -> zc trim (S k) i j = zc g (kt + k) i j.
Proof.
  intros Hi Hj Hh. pose proof (SM i j Hi Hj) as S1. pose proof (surf_le_top i j Hi Hj) as S2. unfold zc. rewrite bot_trim. cbn [trim gsurf].
  destruct k as [|k].
  - rewrite top_trim1. rewrite Nat.add_0_r in *. unfold has in Hh. rewrite Hh.
    assert (Q1 : qle (gsurf g i j) smax = true) by qc_lra. assert (Q2 : qle (gsurf g i j) (top g kt) = true) by qc_lra.
    rewrite Q1, Q2. reflexivity.
  - rewrite top_trim, lcen_trim. reflexivity.
Qed.

(** ** the blocks *)
Variable K : Type.
Variable nm : cid -> K.
Notation nms := (fun c => nm (sh c)).

Lemma layer_cols_trim k : layer_cols trim (S k) = layer_cols g (kt + k).
Proof. unfold layer_cols. apply filter_ext. intros [i j]. cbn [fst snd]. apply has_trim. Qed.
Lemma layer_cols_above k : (k < kt)%nat -> layer_cols g k = [].
Proof.
  intros Hk. unfold layer_cols. apply filter_nil_all. intros [i j] Hin. apply in_colidx in Hin. cbn [fst snd]. apply has_above; tauto.
Qed.
Lemma in_layer_cols k i j : In (i, j) (layer_cols g k) -> (i < nx g)%nat /\ (j < ny g)%nat /\ has g k i j = true.
Proof. unfold layer_cols. intros H. apply filter_In in H. destruct H as [H1 H2]. apply in_colidx in H1. cbn [fst snd] in H2. tauto. Qed.

Lemma seq_split : seq 1 (nz g) = seq 1 (kt - 1) ++ map (fun k => (kt + k)%nat) (seq 0 (S (nz g - kt))).
Proof.
  rewrite <- seq_from. replace (nz g) with ((kt - 1) + S (nz g - kt))%nat at 1 by lia. rewrite seq_app. f_equal. f_equal. lia.
Qed.

Lemma blocks_trim : rect_blocks nm g = rect_blocks nms trim.
Proof.
  unfold rect_blocks, cells. rewrite !map_app. f_equal.
  - unfold atm_cells. cbn [trim gatm gatmvol gatmz]. destruct (gatm g) as [|[|n]]; [reflexivity| |reflexivity].
    rewrite !map_map. reflexivity.
  - unfold rock_cells. rewrite nz_trim, seq_split. rewrite flat_map_app.
    rewrite (flat_map_nil _ (seq 1 (kt - 1))).
    + cbn [app]. rewrite <- seq_shift. rewrite !flat_map_map. rewrite !map_flat_map. apply flat_map_ext_in.
      intros k Hk. apply in_seq in Hk. rewrite layer_cols_trim. rewrite !map_map. apply map_ext_in. intros [i j] Hin.
      apply in_layer_cols in Hin. destruct Hin as [Hi [Hj Hh]]. unfold mk_block, rock_cell. cbn [cc cvol ccen fst snd sh].
      rewrite volume_trim, zc_trim by assumption. reflexivity.
    + intros k Hk. apply in_seq in Hk. rewrite layer_cols_above by lia. reflexivity.
Qed.

(** ** the connections *)
Definition shl (l : linkrec) : linkrec := mkLink (sh (la l)) (sh (lb l)) (ldir l) (lda l) (ldb l) (larea l) (ldcn l) (ldcr l).
Lemma mk_conn_sh l : mk_conn nm (shl l) = mk_conn nms l.
Proof. reflexivity. Qed.

Lemma vlink_trim k i j : In (i, j) (layer_cols g (kt + k)) -> vlink g (kt + k) (i, j) = option_map shl (vlink trim (S k) (i, j)).
Proof.
  intros Hin. apply in_layer_cols in Hin. destruct Hin as [Hi [Hj Hh]]. pose proof (surf_le_top i j Hi Hj) as S2.
  unfold vlink. cbn [trim gsurf gatm gatmconn]. change (area trim i j) with (area g i j). destruct k as [|k].
  - assert (C : (kt + 0 =? 1)%nat || qle (gsurf g i j) (top g (kt + 0)) = true).
    { rewrite Nat.add_0_r. apply orb_true_iff. right. qc_lra. }
    rewrite C. cbn [Nat.eqb orb]. rewrite (zc_trim 0 i j Hi Hj Hh). destruct (gatm g) as [|[|n]]; reflexivity.
  - assert (C : (kt + S k =? 1)%nat = false) by (apply Nat.eqb_neq; lia). rewrite C. cbn [Nat.eqb orb]. rewrite top_trim.
    destruct (qle (gsurf g i j) (top g (kt + S k))) eqn:Q.
    + rewrite (zc_trim (S k) i j Hi Hj Hh). destruct (gatm g) as [|[|n]]; reflexivity.
    + cbn [option_map shl la lb ldir lda ldb larea ldcn ldcr sh Nat.sub]. replace (kt + S k - 1)%nat with (kt + k)%nat by lia.
      assert (Hh' : has g (kt + k) i j = true).
      { apply has_spec. unfold top in Q. replace (kt + S k - 1)%nat with (kt + k)%nat in Q by lia. qc_lra. }
      rewrite lcen_trim, (zc_trim k i j Hi Hj Hh'), bot_trim. reflexivity.
Qed.

Lemma xlinks_trim k : map (mk_conn nm) (xlinks g (kt + k)) = map (mk_conn nms) (xlinks trim (S k)).
Proof.
  unfold xlinks. change (nx trim) with (nx g). change (ny trim) with (ny g). rewrite !map_flat_map. apply flat_map_ext_in.
  intros j Hj. apply in_seq in Hj. rewrite !map_flat_map. apply flat_map_ext_in. intros i Hi. apply in_seq in Hi.
  rewrite !has_trim. destruct (has g (kt + k) i j && has g (kt + k) (S i) j) eqn:E; [|reflexivity]. cbn [map]. f_equal.
  apply andb_prop in E. destruct E as [E1 E2].
  unfold mk_conn, xlink. cbn [la lb ldir lda ldb larea ldcn ldcr sh]. rewrite !height_trim by lia.
  rewrite (zc_trim k i j ltac:(lia) ltac:(lia) E1), (zc_trim k (S i) j ltac:(lia) ltac:(lia) E2). reflexivity.
Qed.
Lemma ylinks_trim k : map (mk_conn nm) (ylinks g (kt + k)) = map (mk_conn nms) (ylinks trim (S k)).
Proof.
  unfold ylinks. change (nx trim) with (nx g). change (ny trim) with (ny g). rewrite !map_flat_map. apply flat_map_ext_in.
  intros i Hi. apply in_seq in Hi. rewrite !map_flat_map. apply flat_map_ext_in. intros j Hj. apply in_seq in Hj.
  rewrite !has_trim. destruct (has g (kt + k) i j && has g (kt + k) i (S j)) eqn:E; [|reflexivity]. cbn [map]. f_equal.
  apply andb_prop in E. destruct E as [E1 E2].
  unfold mk_conn, ylink. cbn [la lb ldir lda ldb larea ldcn ldcr sh]. rewrite !height_trim by lia.
  rewrite (zc_trim k i j ltac:(lia) ltac:(lia) E1), (zc_trim k i (S j) ltac:(lia) ltac:(lia) E2). reflexivity.
Qed.
Lemma layer_links_above k : (k < kt)%nat -> layer_links g k = [].
Proof.
  intros Hk. unfold layer_links. rewrite layer_cols_above by exact Hk. cbn [map cat_some app].
  unfold xlinks, ylinks. rewrite !flat_map_nil; [reflexivity| |].
  - intros i Hi. apply in_seq in Hi. apply flat_map_nil. intros j Hj. apply in_seq in Hj. rewrite (has_above k i j) by lia. reflexivity.
  - intros j Hj. apply in_seq in Hj. apply flat_map_nil. intros i Hi. apply in_seq in Hi. rewrite (has_above k i j) by lia. reflexivity.
Qed.

Lemma conns_trim : rect_conns nm g = rect_conns nms trim.
Proof.
  unfold rect_conns, links. rewrite nz_trim, seq_split. rewrite flat_map_app.
  rewrite (flat_map_nil _ (seq 1 (kt - 1))).
  - cbn [app]. rewrite <- seq_shift. rewrite !flat_map_map. rewrite !map_flat_map. apply flat_map_ext_in.
    intros k Hk. apply in_seq in Hk. unfold layer_links. rewrite !map_app. rewrite xlinks_trim, ylinks_trim. f_equal.
    rewrite layer_cols_trim. rewrite !map_cat_some. f_equal. rewrite !map_map. apply map_ext_in. intros [i j] Hin.
    rewrite (vlink_trim k i j Hin). destruct (vlink trim (S k) (i, j)); reflexivity.
  - intros k Hk. apply in_seq in Hk. apply layer_links_above. lia.
Qed.
End Trim.
