(** C18 -- hand model (H) of
      (1) the forward map: mulgrid().rectangular(dx, dy, dz, origin, atmos_type) with explicit
          column surfaces, followed by t2grid().fromgeo(geo[, blockmap])      [rect_grid]
          (mulgrids.py 1529-1622, 1381-1444; t2grids.py 341-434; structure as in coq/C04/FromGeo.v,
          specialised to the rectangular, unrotated, untilted geometry), and
      (2) t2grid.rectgeo (t2grids.py 749-981): origin block, direction tracking along
          connection_name sets, spacings incl. the 2-D missing-direction rule, block mapping,
          position matching (unrotated: heading of the direction-1 track along +x), surface
          finding, snapping, pruning                                           [rectgeo]

    Numbers are exact canonical rationals (Qc: Leibniz equality).  Block names are an abstract
    key type [K] with a boolean equality; a geometry names its blocks through a function
    [cid -> K] (the naming conventions themselves are C17's / C04's subject).  The iteration
    order of every block's [connection_name] set is an explicit parameter [cnames] of the grid.
    Python exceptions are [Raise]; NaN positions are [PosNaN]. *)
From Coq Require Import List Bool Arith ZArith QArith Qcanon Lia.
From PTBase Require Import Exn.
Import ListNotations.
Open Scope Qc_scope.

(** * numbers *)
Definition qle (a b : Qc) : bool := Qle_bool a b.          (* a <= b *)
Definition qlt (a b : Qc) : bool := negb (Qle_bool b a).   (* a < b *)
Definition half : Qc := Q2Qc (1 # 2).
Definition two : Qc := Q2Qc 2.
Definition neg1 : Qc := Qcopp 1.          (* the gravity cosine of a vertical connection *)
Fixpoint qsum (l : list Qc) : Qc := match l with [] => 0 | a :: r => a + qsum r end.
Definition qmin (a b : Qc) : Qc := if qle a b then a else b.      (* Python min([a, b]) *)

(** * cells of a rectangular geometry *)
Inductive cid := Atm0 | Cell (k i j : nat).     (* layer index k (0 = atmosphere layer), column (i, j) *)
Definition cid_eqb (a b : cid) : bool :=
  match a, b with
  | Atm0, Atm0 => true
  | Cell k i j, Cell k' i' j' => (k =? k')%nat && (i =? i')%nat && (j =? j')%nat
  | _, _ => false
  end.

(** * the rectangular geometry *)
Record rgeo := mkRgeo {
  gox : Qc; goy : Qc; goz : Qc;                  (* position of the first node (lower-left corner), top elevation *)
  gax : Qc; gay : Qc;                            (* orientation: the unit vector the x-axis of the mesh points along
                                                    (rotate(theta): (cos theta, -sin theta)); the y-axis is (-gay, gax) *)
  gdx : list Qc; gdy : list Qc; gdz : list Qc;   (* spacings; gdz from the top down *)
  gatm : nat; gatmvol : Qc; gatmconn : Qc;       (* atmosphere_type, atmosphere_volume, atmosphere_connection *)
  gatmz : Qc;                                    (* elevation of the atmosphere layer (the centres of type-1 atmosphere blocks);
                                                    = goz in a geometry made by mulgrid.rectangular *)
  gsurf : nat -> nat -> Qc                       (* surface elevation of column (i, j) *)
}.
Definition nx (g : rgeo) := length (gdx g).
Definition ny (g : rgeo) := length (gdy g).
Definition nz (g : rgeo) := length (gdz g).
Definition dxi (g : rgeo) i := nth i (gdx g) 0.
Definition dyj (g : rgeo) j := nth j (gdy g) 0.
(** column centres in the mesh's own axes, and in the world *)
Definition xlo (g : rgeo) i := qsum (firstn i (gdx g)).
Definition ylo (g : rgeo) j := qsum (firstn j (gdy g)).
Definition ccx (g : rgeo) i := xlo g i + dxi g i * half.
Definition ccy (g : rgeo) j := ylo g j + dyj g j * half.
Definition px (g : rgeo) i j := gox g + ccx g i * gax g - ccy g j * gay g.
Definition py (g : rgeo) i j := goy g + ccx g i * gay g + ccy g j * gax g.
Definition area (g : rgeo) i j := dxi g i * dyj g j.
(** layer k (k >= 1): bottom, thickness, top, centre; layer 0 is the flat atmosphere layer *)
Definition bot (g : rgeo) k := goz g - qsum (firstn k (gdz g)).
Definition thick (g : rgeo) k := nth (k - 1) (gdz g) 0.
Definition top (g : rgeo) k := bot g (k - 1).
Definition lcen (g : rgeo) k := match k with O => goz g | _ => bot g k + thick g k * half end.

(** [col.surface > lay.bottom]: the column has a block in layer k *)
Definition has (g : rgeo) (k i j : nat) : bool := qlt (bot g k) (gsurf g i j).

(** mulgrid.block_surface (layer k >= 1) *)
Definition block_surface (g : rgeo) (k i j : nat) : Qc :=
  let s := gsurf g i j in
  if qlt s (top g k) then s                       (* (and bottom < s: the block exists) *)
  else if qlt (goz g) s then (if (k =? 1)%nat then s else top g k)
  else top g k.
Definition height (g : rgeo) k i j := block_surface g k i j - bot g k.
Definition volume (g : rgeo) k i j := height g k i j * area g i j.
(** mulgrid.block_centre, elevation part (layer k >= 1, block exists) *)
Definition zc (g : rgeo) (k i j : nat) : Qc :=
  let s := gsurf g i j in
  if qlt (bot g k) s && qle s (top g k) then half * (bot g k + s) else lcen g k.

(** columnlist order of mulgrid.rectangular: j outer, i inner *)
Definition colidx (n m : nat) : list (nat * nat) := flat_map (fun j => map (fun i => (i, j)) (seq 0 n)) (seq 0 m).

Record cellrec := mkCell { cc : cid; cvol : Qc; ccen : option (Qc * Qc * Qc) }.
(** [ldcn / sqrt ldcr]: the gravity cosine (dircos) of the connection: -1 for vertical connections; for a horizontal
    one -(dz) / |d| with d the vector between the two block centres (non-zero beside a truncated block) *)
Record linkrec := mkLink { la : cid; lb : cid; ldir : nat; lda : Qc; ldb : Qc; larea : Qc; ldcn : Qc; ldcr : Qc }.

(** add_atmosphereblocks *)
Definition atm_cells (g : rgeo) : list cellrec :=
  match gatm g with
  | 0%nat => [mkCell Atm0 (gatmvol g) None]
  | 1%nat => map (fun c => mkCell (Cell 0 (fst c) (snd c)) (gatmvol g) (Some (px g (fst c) (snd c), py g (fst c) (snd c), gatmz g)))
                 (colidx (nx g) (ny g))
  | _ => []
  end.
(** block_name_list_layer_column + add_underground_blocks *)
Definition layer_cols (g : rgeo) (k : nat) : list (nat * nat) :=
  filter (fun c => has g k (fst c) (snd c)) (colidx (nx g) (ny g)).
Definition rock_cell (g : rgeo) (k : nat) (c : nat * nat) : cellrec :=
  mkCell (Cell k (fst c) (snd c)) (volume g k (fst c) (snd c)) (Some (px g (fst c) (snd c), py g (fst c) (snd c), zc g k (fst c) (snd c))).
Definition rock_cells (g : rgeo) : list cellrec :=
  flat_map (fun k => map (rock_cell g k) (layer_cols g k)) (seq 1 (nz g)).
Definition cells (g : rgeo) : list cellrec := atm_cells g ++ rock_cells g.

(** add_vertical_layer_connections, one column of [layercols]; [None] is [continue] *)
Definition vlink (g : rgeo) (k : nat) (c : nat * nat) : option linkrec :=
  let (i, j) := c in
  if (k =? 1)%nat || qle (gsurf g i j) (top g k) then
    match gatm g with
    | 0%nat => Some (mkLink (Cell k i j) Atm0 3 (gsurf g i j - zc g k i j) (gatmconn g) (area g i j) neg1 1)
    | 1%nat => Some (mkLink (Cell k i j) (Cell 0 i j) 3 (gsurf g i j - zc g k i j) (gatmconn g) (area g i j) neg1 1)
    | _ => None
    end
  else Some (mkLink (Cell k i j) (Cell (k - 1) i j) 3 (top g k - lcen g k) (zc g (k - 1) i j - bot g (k - 1)) (area g i j) neg1 1).
Fixpoint cat_some {A} (l : list (option A)) : list A :=
  match l with [] => [] | Some a :: r => a :: cat_some r | None :: r => cat_some r end.
(** add_horizontal_layer_connections over the x-connections (j outer, i inner) then the
    y-connections (i outer, j inner) of mulgrid.rectangular; connection_params: distances are the
    distances of the column centres from the shared edge, area = edge length x lower height *)
Definition xlink (g : rgeo) (k i j : nat) : linkrec :=
  mkLink (Cell k i j) (Cell k (S i) j) 1 (dxi g i * half) (dxi g (S i) * half)
         (dyj g j * qmin (height g k i j) (height g k (S i) j))
         (- (zc g k (S i) j - zc g k i j))
         ((ccx g (S i) - ccx g i) * (ccx g (S i) - ccx g i) + (zc g k (S i) j - zc g k i j) * (zc g k (S i) j - zc g k i j)).
Definition ylink (g : rgeo) (k i j : nat) : linkrec :=
  mkLink (Cell k i j) (Cell k i (S j)) 2 (dyj g j * half) (dyj g (S j) * half)
         (dxi g i * qmin (height g k i j) (height g k i (S j)))
         (- (zc g k i (S j) - zc g k i j))
         ((ccy g (S j) - ccy g j) * (ccy g (S j) - ccy g j) + (zc g k i (S j) - zc g k i j) * (zc g k i (S j) - zc g k i j)).
Definition xlinks (g : rgeo) (k : nat) : list linkrec :=
  flat_map (fun j => flat_map (fun i => if has g k i j && has g k (S i) j then [xlink g k i j] else [])
                              (seq 0 (nx g - 1))) (seq 0 (ny g)).
Definition ylinks (g : rgeo) (k : nat) : list linkrec :=
  flat_map (fun i => flat_map (fun j => if has g k i j && has g k i (S j) then [ylink g k i j] else [])
                              (seq 0 (ny g - 1))) (seq 0 (nx g)).
Definition layer_links (g : rgeo) (k : nat) : list linkrec :=
  cat_some (map (vlink g k) (layer_cols g k)) ++ xlinks g k ++ ylinks g k.
Definition links (g : rgeo) : list linkrec := flat_map (layer_links g) (seq 1 (nz g)).

(** match_position: position of the first node and orientation (unit vector of the mesh's x-axis) of the
    new geometry.  [PosNaN]: the heading of the zero vector (0/0 in vector_heading). *)
Inductive posres := PosAx (x y ax ay : Qc) | PosNaN.
Definition pos_x (p : posres) : Qc := match p with PosAx x _ _ _ => x | _ => 0 end.
Definition pos_y (p : posres) : Qc := match p with PosAx _ y _ _ => y | _ => 0 end.
Definition pos_ax (p : posres) : Qc := match p with PosAx _ _ a _ => a | _ => 1 end.
Definition pos_ay (p : posres) : Qc := match p with PosAx _ _ _ b => b | _ => 0 end.

(** * grids and rectgeo over an abstract key type *)
Section Model.
Variable K : Type.
Variable keqb : K -> K -> bool.

Record block := mkBlock { bkey : K; bvol : Qc; bcen : option (Qc * Qc * Qc) }.
Record conn := mkConn { ka : K; kb : K; kdir : nat; kda : Qc; kdb : Qc; karea : Qc; kdcn : Qc; kdcr : Qc }.
(** [cnames b]: the connection_name set of block b in its iteration order *)
Record grid := mkGrid { blocks : list block; conns : list conn; cnames : K -> list (K * K) }.

(** t2grid().fromgeo(geo, blockmap) for the rectangular geometry g named by nm
    (nm already includes the block map) *)
Definition mk_block (nm : cid -> K) (c : cellrec) : block := mkBlock (nm (cc c)) (cvol c) (ccen c).
Definition mk_conn (nm : cid -> K) (l : linkrec) : conn := mkConn (nm (la l)) (nm (lb l)) (ldir l) (lda l) (ldb l) (larea l) (ldcn l) (ldcr l).
Definition rect_blocks (nm : cid -> K) (g : rgeo) : list block := map (mk_block nm) (cells g).
Definition rect_conns (nm : cid -> K) (g : rgeo) : list conn := map (mk_conn nm) (links g).

(** ** rectgeo: helpers *)
Definition find_block (g : grid) (k : K) : option block := find (fun b => keqb (bkey b) k) (blocks g).
Definition find_conn (g : grid) (p : K * K) : option conn :=
  find (fun c => keqb (ka c) (fst p) && keqb (kb c) (snd p)) (conns g).

(** [0. < v < max_volume], or True when max_volume is None *)
Definition vol_ok (mv : option Qc) (v : Qc) : bool :=
  match mv with None => true | Some m => qlt 0 v && qlt v m end.

(** blockelevs: [None] is nan *)
Definition elev (mv : option Qc) (b : block) : option Qc :=
  match bcen b with
  | None => None
  | Some (_, _, z) => if vol_ok mv (bvol b) then Some z else None
  end.
(** np.nanargmin / np.nanargmax: the first best among the non-nan entries *)
Fixpoint argbest (better : Qc -> Qc -> bool) (mv : option Qc) (l : list block) (best : option (block * Qc)) : option block :=
  match l with
  | [] => match best with Some (b, _) => Some b | None => None end
  | b :: r =>
      match elev mv b, best with
      | None, _ => argbest better mv r best
      | Some z, None => argbest better mv r (Some (b, z))
      | Some z, Some (_, zb) => if better z zb then argbest better mv r (Some (b, z)) else argbest better mv r best
      end
  end.
Definition find_origin_block (g : grid) : option block := argbest qlt None (blocks g) None.
Definition topmost_block (g : grid) (mv : Qc) : option block := argbest (fun a b => qlt b a) (Some mv) (blocks g) None.

Definition in_pair (k : K) (p : K * K) : bool := keqb (fst p) k || keqb (snd p) k.
(** con_name_index *)
Definition con_name_index (p : K * K) (k : K) : option nat :=
  if keqb (fst p) k then Some 0%nat else if keqb (snd p) k then Some 1%nat else None.
(** the block at the other end: con[(i + 1) % 2] *)
Definition other_end (p : K * K) (k : K) : K := if keqb (fst p) k then snd p else fst p.
(** grid.connection[con].distance[con_name_index(con, k)] *)
Definition dist_at (g : grid) (p : K * K) (k : K) : Qc :=
  match find_conn g p with
  | Some c => if keqb (fst p) k then kda c else kdb c
  | None => 0
  end.
Definition dir_of (g : grid) (p : K * K) : option nat :=
  match find_conn g p with Some c => Some (kdir c) | None => None end.
Definition has_dir (g : grid) (dir : nat) (p : K * K) : bool :=
  match dir_of g p with Some d => (d =? dir)%nat | None => false end.

(** next_block_in_direction(blk, last, direction, grid, max_volume): the [for con in cons] loop ... *)
Fixpoint scan (g : grid) (k : K) (mv : option Qc) (cs : list (K * K)) : option (block * (K * K)) :=
  match cs with
  | [] => None
  | p :: r => match find_block g (other_end p k) with
              | Some nb => if vol_ok mv (bvol nb) then Some (nb, p) else scan g k mv r
              | None => scan g k mv r
              end
  end.
(** ... over the connections of the block in direction [dir] that do not contain [last] *)
Definition next_block (g : grid) (k : K) (last : option K) (dir : nat) (mv : option Qc) : option (block * (K * K)) :=
  let cons := filter (has_dir g dir) (cnames g k) in
  let cons := match last with Some l => filter (fun p => negb (in_pair l p)) cons | None => cons end in
  scan g k mv cons.

(** block_direction_track: (blocks, sizes).  [con] is the connection by which [blk] was reached.
    The while loop is a recursion on fuel (a track visits every block at most once). *)
Fixpoint track (fuel : nat) (g : grid) (dir : nat) (mv : option Qc) (blk : block) (last : option K) (con : option (K * K))
  : res (list block * list Qc) :=
  match fuel with
  | O => Raise OutOfFuel
  | S f =>
      let ok := vol_ok mv (bvol blk) in
      match next_block g (bkey blk) last dir mv with
      | Some (nb, c) =>
          do r <- track f g dir mv nb (Some (bkey blk)) (Some c);
          Ok ((if ok then [blk] else []) ++ fst r,
              (if ok then [two * dist_at g c (bkey blk)] else []) ++ snd r)
      | None =>
          Ok (if ok then [blk] else [],
              match con with Some lc => [two * dist_at g lc (bkey blk)] | None => [] end)
      end
  end.
Definition fuel_of (g : grid) : nat := S (length (blocks g)).

Definition cen_z (b : block) : res Qc := match bcen b with Some (_, _, z) => Ok z | None => Raise TypeError end.
Definition last_of {A} (l : list A) : option A := match rev l with a :: _ => Some a | [] => None end.

(** block_spacings *)
Definition first_dir_conn (g : grid) (ob : block) (pd : nat) : res (K * K) :=
  match filter (has_dir g pd) (cnames g (bkey ob)) with p :: _ => Ok p | [] => Raise IndexError end.
(** the 2-D rule of block_spacings: the spacing of a direction whose track found no connection is the
    origin block's volume divided by its sizes in the two other directions.
    [fx2 = false]: the code as it stands (divides by the doubled distances of the origin block's own
    first connection in each present direction); [fx2 = true]: the proposed repair
    C18-2d-origin-column (divides by the spacings already found: first of direction 1 / 2, last of
    direction 3) *)
Definition spacings_2d (fx2 : bool) (g : grid) (ob : block) (s1 s2 s3 : list Qc) : res (list Qc * list Qc * list Qc) :=
  let missing := ((if (length s1 =? 0)%nat then 1 else 0) + (if (length s2 =? 0)%nat then 1 else 0)
                  + (if (length s3 =? 0)%nat then 1 else 0))%nat in
  let own (pd : nat) : res Qc :=
    if fx2 then
      match pd with
      | 1%nat => match s1 with x :: _ => Ok x | [] => Raise IndexError end
      | 2%nat => match s2 with x :: _ => Ok x | [] => Raise IndexError end
      | _ => match last_of s3 with Some x => Ok x | None => Raise IndexError end
      end
    else do p <- first_dir_conn g ob pd; Ok (two * dist_at g p (bkey ob)) in
  let quot (pds : list nat) : res Qc :=
    fold_left (fun acc pd => do d <- acc; do w <- own pd; Ok (d / w)) pds (Ok (bvol ob)) in
  match missing with
  | 0%nat => Ok (s1, s2, s3)
  | 1%nat =>
      if (length s1 =? 0)%nat then do d <- quot [2%nat; 3%nat]; Ok ([d], s2, s3)
      else if (length s2 =? 0)%nat then do d <- quot [1%nat; 3%nat]; Ok (s1, [d], s3)
      else do d <- quot [1%nat; 2%nat]; Ok (s1, s2, [d])
  | 2%nat => Raise PlainException
  | _ => Ok (s1, s2, s3)
  end.
Definition block_spacings (fx2 : bool) (g : grid) (ob : block) (av : Qc) : res (list Qc * list Qc * list Qc) :=
  do t1 <- track (fuel_of g) g 1 (Some av) ob None None;
  do t2 <- track (fuel_of g) g 2 (Some av) ob None None;
  match topmost_block g av with
  | None => Raise ValueError
  | Some tb =>
      do t3 <- track (fuel_of g) g 3 (Some av) tb None None;
      do s3 <- match fst t3, last_of (fst t3) with
               | b0 :: _, Some bl => do z0 <- cen_z b0; do zl <- cen_z bl; Ok (if qlt z0 zl then rev (snd t3) else snd t3)
               | _, _ => Raise IndexError
               end;
      spacings_2d fx2 g ob (snd t1) (snd t2) s3
  end.

(** block_mapping: the sequence of assignments [mapping[key] = value] (a later assignment to
    the same key wins) *)
Fixpoint col_walk (g : grid) (av : Qc) (atm' : nat) (nm' : cid -> K) (i j : nat)
         (lays : list nat) (blk : block) (last3 : option K) : list (K * K) :=
  match lays with
  | [] => []
  | k :: r =>
      (nm' (Cell k i j), bkey blk) ::
      match next_block g (bkey blk) last3 3 (Some av) with
      | Some (nb, _) => col_walk g av atm' nm' i j r nb (Some (bkey blk))
      | None =>
          match next_block g (bkey blk) last3 3 None with
          | Some (ab, _) =>
              match atm' with
              | 0%nat => [(nm' Atm0, bkey ab)]
              | 1%nat => [(nm' (Cell 0 i j), bkey ab)]
              | _ => []
              end
          | None => []
          end
      end
  end.
(** the row loop: [for i1 in range(nblks[1])] *)
Fixpoint row_walk (g : grid) (av : Qc) (atm' : nat) (nm' : cid -> K) (nz' j : nat)
         (is_ : list nat) (start1 : option block) (last1 : option K) : res (list (K * K)) :=
  match is_ with
  | [] => Ok []
  | i :: r =>
      match start1 with
      | None => Raise AttributeError
      | Some s1 =>
          let log := col_walk g av atm' nm' i j (rev (seq 0 (S nz'))) s1 None in
          let next1 := match next_block g (bkey s1) last1 1 (Some av) with Some (b, _) => Some b | None => None end in
          do rest <- row_walk g av atm' nm' nz' j r next1 (Some (bkey s1));
          Ok (log ++ rest)
      end
  end.
Fixpoint rows_walk (g : grid) (av : Qc) (atm' : nat) (nm' : cid -> K) (nx' nz' : nat)
         (js : list nat) (start2 : option block) (last2 : option K) : res (list (K * K)) :=
  match js with
  | [] => Ok []
  | j :: r =>
      match start2 with
      | None => Raise AttributeError
      | Some s2 =>
          do log <- row_walk g av atm' nm' nz' j (seq 0 nx') (Some s2) None;
          let next2 := match next_block g (bkey s2) last2 2 (Some av) with Some (b, _) => Some b | None => None end in
          do rest <- rows_walk g av atm' nm' nx' nz' r next2 (Some (bkey s2));
          Ok (log ++ rest)
      end
  end.
Definition block_mapping (g : grid) (ob : block) (nx' ny' nz' : nat) (av : Qc) (atm' : nat) (nm' : cid -> K) : res (list (K * K)) :=
  rows_walk g av atm' nm' nx' nz' (seq 0 ny') (Some ob) None.

(** dict semantics of the assignment log: the last assignment to a key *)
Fixpoint lookup (k : K) (log : list (K * K)) : option K :=
  match log with
  | [] => None
  | (a, v) :: r => match lookup k r with Some w => Some w | None => if keqb a k then Some v else None end
  end.
(** [blockmap[n] if n in blockmap else n] *)
Definition apply_map (bm : list (K * K)) (n : K) : K := match lookup n bm with Some v => v | None => n end.

Record result := mkResult {
  r_dx : list Qc; r_dy : list Qc; r_dz : list Qc;
  r_pos : posres; r_oz : Qc;
  r_surf : list Qc;                  (* column surfaces in columnlist order *)
  r_map : list (K * K)               (* assignment log of the block map, pruned *)
}.

Definition list_surf (nx' : nat) (l : list Qc) (dflt : Qc) : nat -> nat -> Qc := fun i j => nth (j * nx' + i) l dflt.

Definition key_in (k : K) (l : list K) : bool := existsb (keqb k) l.

(** find_surface: [remove_blocks] = every block from the first one of non-positive volume on, in
    block-list order, when remove_inactive is set *)
Fixpoint rm_scan (rminact : bool) (inact : bool) (l : list block) : list K :=
  match l with
  | [] => []
  | b :: r => let inact' := inact || (rminact && qle (bvol b) 0) in
              (if inact' then [bkey b] else []) ++ rm_scan rminact inact' r
  end.
Definition remove_blocks (rminact : bool) (g : grid) : list K := rm_scan rminact false (blocks g).
Fixpoint index_of (k : K) (l : list block) : option nat :=
  match l with
  | [] => None
  | b :: r => if keqb (bkey b) k then Some 0%nat else match index_of k r with Some i => Some (S i) | None => None end
  end.
Fixpoint del_nth {A} (i : nat) (l : list A) : option (list A) :=
  match l, i with
  | [], _ => None
  | _ :: r, O => Some r
  | a :: r, S i' => match del_nth i' r with Some r' => Some (a :: r') | None => None end
  end.
(** [for blk in remove_col: i = colblocks.index(blk); del colblocks[i]; del layerthicks[i]] *)
Fixpoint remove_all (rc : list block) (cb : list block) (lt : list Qc) : res (list block * list Qc) :=
  match rc with
  | [] => Ok (cb, lt)
  | b :: r =>
      match index_of (bkey b) cb with
      | None => Raise ValueError
      | Some i => match del_nth i cb, del_nth i lt with
                  | Some cb', Some lt' => remove_all r cb' lt'
                  | _, _ => Raise IndexError
                  end
      end
  end.

(** find_surface for one column of the new geometry g' (already translated); [rm] = remove_blocks *)
Definition find_col_surface (g : grid) (g' : rgeo) (bm : list (K * K)) (av : Qc) (nm' : cid -> K) (rm : list K) (c : nat * nat) : res Qc :=
  let (i, j) := c in
  match lookup (nm' (Cell (nz g') i j)) bm with
  | None => Raise KeyError
  | Some blkname =>
      match find_block g blkname with
      | None => Raise KeyError
      | Some bottom_block =>
          do t <- track (fuel_of g) g 3 (Some av) bottom_block None None;
          match last_of (fst t) with
          | None => Ok (gsurf g' i j)                          (* [if colblocks:] fails: surface stays *)
          | Some _ =>
              do r <- remove_all (filter (fun b => key_in (bkey b) rm) (fst t)) (fst t) (snd t);
              match last_of (fst r) with
              | None => Raise IndexError                       (* colblocks[-1] of an emptied list *)
              | Some topblock =>
                  do zc <- cen_z topblock;
                  if qlt 0 (bvol topblock) then
                    let block_height := bvol topblock / area g' i j in
                    let lt := match last_of (snd r) with Some x => x | None => block_height end in
                    if qle block_height lt then Ok (zc + half * block_height)
                    else Ok (zc - half * lt + block_height)
                  else match last_of (snd r) with Some x => Ok (zc + half * x) | None => Raise IndexError end
              end
          end
      end
  end.
(** snap_columns_to_layers for one column: column_surface_layer through num_layers *)
Definition num_layers_of (g' : rgeo) (s : Qc) : nat := length (filter (fun k => qlt (bot g' k) s) (seq 1 (nz g'))).
Definition snap_surface (g' : rgeo) (snap : Qc) (s : Qc) : Qc :=
  if qlt 0 snap then
    let toplayer := (S (nz g') - num_layers_of g' s)%nat in
    if qlt (s - bot g' toplayer) snap then bot g' toplayer else s
  else s.

(** rectgeo(origin_block = None, atmos_volume = av, remove_inactive = False, atmos_type = atm',
    layer_snap = snap, <naming of the new geometry> = nm') *)
(** match_position: the horizontal position, orientation and top elevation of the new geometry
    (rectangular(spacings) at the origin, rotated about (0, 0) so that its x-axis points along the
    heading of the direction-1 track, translated by ob.centre - centre of its first bottom block).
    [heading vx vy]: the unit vector along (vx, vy), [None] for the zero vector -- the exact counterpart
    of vector_heading / degrees / rotate (asin, sin, cos in floating point stay in the correspondence).
    [fxp = true]: the code as it stands since 0d340ee (a single-block direction-1 track falls back to the
    direction-2 track, whose heading is that of direction 1 minus 90 degrees); [fxp = false]: before. *)
Definition match_position (heading : Qc -> Qc -> option (Qc * Qc)) (fxp : bool) (g : grid) (ob : block) (s1 s2 s3 : list Qc)
  : res (posres * Qc) :=
  do t1 <- track (fuel_of g) g 1 None ob None None;
  let use2 := fxp && (length (fst t1) <=? 1)%nat in
  do t2 <- (if use2 then track (fuel_of g) g 2 None ob None None else Ok t1);
  match bcen ob, last_of (fst t2) with
  | Some (obx, oby, obz), Some bl =>
      match bcen bl with
      | None => Raise TypeError
      | Some (lx, ly, _) =>
          let g0 := mkRgeo 0 0 0 1 0 s1 s2 s3 0 0 0 0 (fun _ _ => 0) in
          let tz := obz - lcen g0 (nz g0) in
          Ok (match heading (lx - obx) (ly - oby) with
              | None => PosNaN
              | Some (ux, uy) =>
                  let ax := if use2 then uy else ux in
                  let ay := if use2 then - ux else uy in
                  PosAx (obx - (ccx g0 0 * ax - ccy g0 0 * ay)) (oby - (ccx g0 0 * ay + ccy g0 0 * ax)) ax ay
              end, tz)
      end
  | _, _ => Raise TypeError
  end.

(** find_surface, snap_columns_to_layers, pruning of the block map *)
Definition finish (g : grid) (av snap : Qc) (atm' : nat) (nm' : cid -> K) (rm : list K) (s1 s2 s3 : list Qc) (log : list (K * K))
           (pos : posres) (tz : Qc) : res result :=
  (* the new geometry, rotated and translated; default surface = top elevation *)
  let g1 := mkRgeo (pos_x pos) (pos_y pos) tz (pos_ax pos) (pos_ay pos) s1 s2 s3 atm' 0 0 tz (fun _ _ => tz) in
  do surf <- mapM (find_col_surface g g1 log av nm' rm) (colidx (nx g1) (ny g1));
  let surf' := map (snap_surface g1 snap) surf in
  let g2 := mkRgeo (pos_x pos) (pos_y pos) tz (pos_ax pos) (pos_ay pos) s1 s2 s3 atm' 0 0 tz (list_surf (nx g1) surf' tz) in
  let names := map (fun c => nm' (cc c)) (cells g2) in
  Ok (mkResult s1 s2 s3 pos tz surf' (filter (fun p => key_in (fst p) names) log)).

(** rectgeo(origin_block = obk, atmos_volume = av, remove_inactive = rminact, atmos_type = atm',
    layer_snap = snap, <naming of the new geometry> = nm') *)
Definition rectgeo (heading : Qc -> Qc -> option (Qc * Qc)) (fxp fx2 : bool) (g : grid) (obk : option K) (av : Qc) (rminact : bool)
           (snap : Qc) (atm' : nat) (nm' : cid -> K) : res result :=
  if negb (forallb (fun b => negb (vol_ok (Some av) (bvol b)) || match bcen b with Some _ => true | None => false end) (blocks g))
  then Raise PlainException
  else
  do ob <- match obk with
           | Some k => match find_block g k with Some b => Ok b | None => Raise KeyError end     (* self.block[origin_block] *)
           | None => match find_origin_block g with Some b => Ok b | None => Raise ValueError end
           end;
  do sp <- block_spacings fx2 g ob av;
  let '(s1, s2, s3) := sp in
  do log <- block_mapping g ob (length s1) (length s2) (length s3) av atm' nm';
  do pt <- match_position heading fxp g ob s1 s2 s3;
  finish g av snap atm' nm' (remove_blocks rminact g) s1 s2 s3 log (fst pt) (snd pt).

End Model.

Arguments mkBlock {K}. Arguments bkey {K}. Arguments bvol {K}. Arguments bcen {K}.
Arguments mkConn {K}. Arguments ka {K}. Arguments kb {K}. Arguments kdir {K}. Arguments kda {K}. Arguments kdb {K}. Arguments karea {K}. Arguments kdcn {K}. Arguments kdcr {K}.
Arguments mkGrid {K}. Arguments blocks {K}. Arguments conns {K}. Arguments cnames {K}.
Arguments mk_block {K}. Arguments mk_conn {K}. Arguments rect_blocks {K}. Arguments rect_conns {K}.
Arguments mkResult {K}. Arguments r_dx {K}. Arguments r_dy {K}. Arguments r_dz {K}. Arguments r_pos {K}.
Arguments r_oz {K}. Arguments r_surf {K}. Arguments r_map {K}.
