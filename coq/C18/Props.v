(** C18 -- property theorems only.  Each is closed by [exact] of a lemma proved in the other files
    of this directory and followed by Print Assumptions.
    Model: Rectgeo.v ([rect_blocks]/[rect_conns]: t2grid().fromgeo(mulgrid().rectangular(...));
    [rectgeo]: t2grid.rectgeo, [fxp]/[fx2] = false: the code as it stands, true: with the proposed
    repairs).  Class: Final.v [in_class] (any nx, ny, nz >= 2, positive spacings, any origin,
    atmosphere 0/1/2, stepped surfaces leaving the bottom layer complete, one-to-one naming, some
    column reaching the top of layer 1); [cn_ok]: ANY iteration order of the connection_name sets. *)
From Coq Require Import List Bool Arith ZArith QArith Qcanon.
From PTBase Require Import Exn.
From P Require Import Rectgeo GeoFacts Forward Main Regen Final Witness.
Import ListNotations.
Open Scope Qc_scope.

(** rectgeo(fromgeo(geo)) returns exactly: the three spacing lists, the origin, the top elevation,
    every column surface, and the (pruned) block map -- whatever the set iteration order *)
Theorem rectgeo_total : forall K keqb g (nm nm' : cid -> K) av snap, in_class keqb g nm nm' av snap ->
  forall fxp fx2 cn, cn_ok K g nm cn -> clear_of_defects fxp fx2 g ->
  rectgeo K keqb fxp fx2 (grid_of g nm cn) av snap (gatm g) nm' = Ok (expected keqb g nm nm').
Proof. exact rectgeo_total_lemma. Qed.
Print Assumptions rectgeo_total.

Theorem rectgeo_spacings : forall K keqb g (nm nm' : cid -> K) av snap, in_class keqb g nm nm' av snap ->
  forall fxp fx2 cn, cn_ok K g nm cn -> clear_of_defects fxp fx2 g ->
  exists r, rectgeo K keqb fxp fx2 (grid_of g nm cn) av snap (gatm g) nm' = Ok r /\
            r_dx r = gdx g /\ r_dy r = gdy g /\ r_dz r = gdz g.
Proof. exact rectgeo_spacings_lemma. Qed.
Print Assumptions rectgeo_spacings.

(** position of the unrotated geometry (rotation: oracle only) *)
Theorem rectgeo_position_unrotated : forall K keqb g (nm nm' : cid -> K) av snap, in_class keqb g nm nm' av snap ->
  forall fxp fx2 cn, cn_ok K g nm cn -> clear_of_defects fxp fx2 g ->
  exists r, rectgeo K keqb fxp fx2 (grid_of g nm cn) av snap (gatm g) nm' = Ok r /\
            r_pos r = PosXY (gox g) (goy g) /\ r_oz r = goz g.
Proof. exact rectgeo_position_lemma. Qed.
Print Assumptions rectgeo_position_unrotated.

Theorem rectgeo_surface : forall K keqb g (nm nm' : cid -> K) av snap, in_class keqb g nm nm' av snap ->
  forall fxp fx2 cn, cn_ok K g nm cn -> clear_of_defects fxp fx2 g ->
  exists r, rectgeo K keqb fxp fx2 (grid_of g nm cn) av snap (gatm g) nm' = Ok r /\
            length (r_surf r) = (nx g * ny g)%nat /\
            forall i j, (i < nx g)%nat -> (j < ny g)%nat -> list_surf (length (r_dx r)) (r_surf r) (r_oz r) i j = gsurf g i j.
Proof. exact rectgeo_surface_lemma. Qed.
Print Assumptions rectgeo_surface.

(** fromgeo(reconstructed geometry, block map) has the original blocks (names, volumes, centres, order)
    and connections (names, orientation, direction, distances, areas, order) *)
Theorem rectgeo_blockmap_regenerates : forall K keqb g (nm nm' : cid -> K) av snap, in_class keqb g nm nm' av snap ->
  forall fxp fx2 cn r, cn_ok K g nm cn -> clear_of_defects fxp fx2 g ->
  rectgeo K keqb fxp fx2 (grid_of g nm cn) av snap (gatm g) nm' = Ok r ->
  let f := fun c => apply_map K keqb (r_map r) (nm' c) in
  let g' := rebuilt r (gatm g) (gatmvol g) (gatmconn g) in
  rect_blocks f g' = rect_blocks nm g /\ rect_conns f g' = rect_conns nm g.
Proof. exact rectgeo_blockmap_regenerates_lemma. Qed.
Print Assumptions rectgeo_blockmap_regenerates.

Theorem rectgeo_atmosphere : forall K keqb g (nm nm' : cid -> K) av snap, in_class keqb g nm nm' av snap ->
  forall fxp fx2 cn r, cn_ok K g nm cn -> clear_of_defects fxp fx2 g ->
  rectgeo K keqb fxp fx2 (grid_of g nm cn) av snap (gatm g) nm' = Ok r ->
  let f := fun c => apply_map K keqb (r_map r) (nm' c) in
  let g' := rebuilt r (gatm g) (gatmvol g) (gatmconn g) in
  gatm g' = gatm g /\ map (mk_block f) (atm_cells g') = map (mk_block nm) (atm_cells g) /\
  map (mk_block f) (rock_cells g') = map (mk_block nm) (rock_cells g).
Proof. exact rectgeo_atmosphere_lemma. Qed.
Print Assumptions rectgeo_atmosphere.

Theorem track_order_independent : forall K keqb g (nm nm' : cid -> K) av snap, in_class keqb g nm nm' av snap ->
  forall fxp fx2 cn cn', cn_ok K g nm cn -> cn_ok K g nm cn' -> clear_of_defects fxp fx2 g ->
  rectgeo K keqb fxp fx2 (grid_of g nm cn) av snap (gatm g) nm' = rectgeo K keqb fxp fx2 (grid_of g nm cn') av snap (gatm g) nm'.
Proof. exact track_order_independent_lemma. Qed.
Print Assumptions track_order_independent.

(** the two recorded defects of the code as it stands, for every geometry they apply to *)
Theorem single_block_direction_1_gives_nan_position : forall K keqb g (nm nm' : cid -> K) av snap, in_class keqb g nm nm' av snap ->
  forall fx2 cn, cn_ok K g nm cn -> nx g = 1%nat -> (fx2 = false -> has g (nz g - 1) 0 0 = true \/ (gatm g < 2)%nat) ->
  exists r, rectgeo K keqb false fx2 (grid_of g nm cn) av snap (gatm g) nm' = Ok r /\ r_pos r = PosNaN /\
            r_dx r = gdx g /\ r_dy r = gdy g /\ r_dz r = gdz g.
Proof. exact single_block_direction_1_nan_lemma. Qed.
Print Assumptions single_block_direction_1_gives_nan_position.

Theorem origin_column_2d_no_atmosphere_raises : forall K keqb g (nm nm' : cid -> K) av snap, in_class keqb g nm nm' av snap ->
  forall fxp cn, cn_ok K g nm cn -> (nx g = 1%nat \/ ny g = 1%nat) -> has g (nz g - 1) 0 0 = false -> (2 <= gatm g)%nat ->
  rectgeo K keqb fxp false (grid_of g nm cn) av snap (gatm g) nm' = Raise IndexError.
Proof. exact origin_column_2d_indexerror_lemma. Qed.
Print Assumptions origin_column_2d_no_atmosphere_raises.

(** the unguarded statements are refuted for the code as it stands (witnesses = the recorded findings) *)
Theorem rectgeo_position_refuted : exists g, in_class cid_eqb g idn idn (q 1000) 0 /\
  forall r, rectgeo cid cid_eqb false false (grid_of g idn (cn_canonical cid_eqb g idn)) (q 1000) 0 (gatm g) idn = Ok r ->
            r_pos r <> PosXY (gox g) (goy g).
Proof. exact position_refuted_as_is. Qed.
Print Assumptions rectgeo_position_refuted.
Theorem rectgeo_spacings_refuted : exists g, in_class cid_eqb g idn idn (q 10000) 0 /\
  forall r, rectgeo cid cid_eqb false false (grid_of g idn (cn_canonical cid_eqb g idn)) (q 10000) 0 (gatm g) idn <> Ok r.
Proof. exact spacings_refuted_as_is. Qed.
Print Assumptions rectgeo_spacings_refuted.

(** the hypotheses are satisfiable: a stepped 2 x 2 x 3 geometry with atmosphere blocks is in the class *)
Theorem class_inhabited : in_class cid_eqb w1 idn idn (q 1000) 0 /\ clear_of_defects false false w1 /\
  cn_ok cid w1 idn (cn_canonical cid_eqb w1 idn).
Proof. exact (conj w1_class (conj w1_clear (cn_canonical_ok cid_eqb w1 idn cid_eqb_eq))). Qed.
Print Assumptions class_inhabited.

(** when the hypothesis [ic_nosnap] of the class holds: layer_snap <= 0, or every column's top block
    at least layer_snap high *)
Theorem no_snap_when_disabled : forall g snap s, snap <= 0 -> snap_surface g snap s = s.
Proof. exact nosnap_nonpos. Qed.
Print Assumptions no_snap_when_disabled.
Theorem no_snap_when_top_blocks_high : forall g, wf g -> forall snap,
  (forall i j, (i < nx g)%nat -> (j < ny g)%nat -> snap <= gsurf g i j - bot g (Track.ktop g i j)) ->
  forall i j, (i < nx g)%nat -> (j < ny g)%nat -> snap_surface g snap (gsurf g i j) = gsurf g i j.
Proof. exact nosnap_high_tops. Qed.
Print Assumptions no_snap_when_top_blocks_high.
