(** C18 -- property theorems only.  Each is closed by [exact] of a lemma proved in the other files
    of this directory and followed by Print Assumptions.
    Model: Rectgeo.v ([rect_blocks]/[rect_conns]: t2grid().fromgeo(mulgrid().rectangular(...) rotated);
    [rectgeo heading fxp fx2 grid origin_block atmos_volume remove_inactive layer_snap atmos_type naming]:
    t2grid.rectgeo; [fxp]/[fx2] = true: the code since 0d340ee / 8b5d11e, false: before).
    Class: Final.v [in_class] (any nx, ny, nz >= 2, positive spacings, any origin, ANY ORIENTATION (x-axis along a
    unit vector), atmosphere 0/1/2, stepped surfaces leaving the bottom layer complete, one-to-one naming, some
    column reaching the top of layer 1) and FinalTrim.v [in_class_trunc] (no column need reach it);
    [cn_ok]: ANY iteration order of the connection_name sets; [heading_spec]: the heading function normalises
    positive multiples of unit vectors (met by the executable [heading_exact]). *)
From Coq Require Import List Bool Arith ZArith QArith Qcanon Qabs.
From PTBase Require Import Exn.
From P Require Import Rectgeo GeoFacts Forward Main Regen Final Heading Trim FinalTrim FileSim FileGrid FinalFile Witness RndAcc RndFile RndFuel.
Import ListNotations.
Open Scope Qc_scope.

(** rectgeo(fromgeo(geo)) returns exactly: the three spacing lists, the position of the first node, the
    orientation, the top elevation, every column surface, and the (pruned) block map -- whatever the set
    iteration order, with or without origin_block / remove_inactive *)
Theorem rectgeo_total : forall K keqb g (nm nm' : cid -> K) av snap, in_class keqb g nm nm' av snap ->
  forall heading, heading_spec heading -> forall obk, ob_ok obk g nm -> forall rminact, rm_ok rminact g ->
  forall fxp fx2 cn, cn_ok K g nm cn -> clear_of_defects fxp fx2 g ->
  rectgeo K keqb heading fxp fx2 (grid_of g nm cn) obk av rminact snap (gatm g) nm' = Ok (expected keqb g nm nm').
Proof. exact rectgeo_total_lemma. Qed.
Print Assumptions rectgeo_total.

Theorem rectgeo_spacings : forall K keqb g (nm nm' : cid -> K) av snap, in_class keqb g nm nm' av snap ->
  forall heading, heading_spec heading -> forall obk, ob_ok obk g nm -> forall rminact, rm_ok rminact g ->
  forall fxp fx2 cn, cn_ok K g nm cn -> clear_of_defects fxp fx2 g ->
  exists r, rectgeo K keqb heading fxp fx2 (grid_of g nm cn) obk av rminact snap (gatm g) nm' = Ok r /\
            r_dx r = gdx g /\ r_dy r = gdy g /\ r_dz r = gdz g.
Proof. exact rectgeo_spacings_lemma. Qed.
Print Assumptions rectgeo_spacings.

(** position AND orientation, for every rotation (the geometry's x-axis along any unit vector) *)
Theorem rectgeo_position_orientation : forall K keqb g (nm nm' : cid -> K) av snap, in_class keqb g nm nm' av snap ->
  forall heading, heading_spec heading -> forall obk, ob_ok obk g nm -> forall rminact, rm_ok rminact g ->
  forall fxp fx2 cn, cn_ok K g nm cn -> clear_of_defects fxp fx2 g ->
  exists r, rectgeo K keqb heading fxp fx2 (grid_of g nm cn) obk av rminact snap (gatm g) nm' = Ok r /\
            r_pos r = PosAx (gox g) (goy g) (gax g) (gay g) /\ r_oz r = goz g.
Proof. exact rectgeo_position_lemma. Qed.
Print Assumptions rectgeo_position_orientation.
(** the executable heading function of the extracted model meets the specification *)
Theorem heading_exact_meets_spec : heading_spec heading_exact.
Proof. exact heading_exact_spec. Qed.
Print Assumptions heading_exact_meets_spec.

Theorem rectgeo_surface : forall K keqb g (nm nm' : cid -> K) av snap, in_class keqb g nm nm' av snap ->
  forall heading, heading_spec heading -> forall obk, ob_ok obk g nm -> forall rminact, rm_ok rminact g ->
  forall fxp fx2 cn, cn_ok K g nm cn -> clear_of_defects fxp fx2 g ->
  exists r, rectgeo K keqb heading fxp fx2 (grid_of g nm cn) obk av rminact snap (gatm g) nm' = Ok r /\
            length (r_surf r) = (nx g * ny g)%nat /\
            forall i j, (i < nx g)%nat -> (j < ny g)%nat -> list_surf (length (r_dx r)) (r_surf r) (r_oz r) i j = gsurf g i j.
Proof. exact rectgeo_surface_lemma. Qed.
Print Assumptions rectgeo_surface.

(** fromgeo(reconstructed geometry, block map) has the original blocks (names, volumes, centres, order)
    and connections (names, orientation, direction, distances, areas, order) *)
Theorem rectgeo_blockmap_regenerates : forall K keqb g (nm nm' : cid -> K) av snap, in_class keqb g nm nm' av snap ->
  forall heading, heading_spec heading -> forall obk, ob_ok obk g nm -> forall rminact, rm_ok rminact g ->
  forall fxp fx2 cn r, cn_ok K g nm cn -> clear_of_defects fxp fx2 g ->
  rectgeo K keqb heading fxp fx2 (grid_of g nm cn) obk av rminact snap (gatm g) nm' = Ok r ->
  let f := fun c => apply_map K keqb (r_map r) (nm' c) in
  let g' := rebuilt r (gatm g) (gatmvol g) (gatmconn g) (gatmz g) in
  rect_blocks f g' = rect_blocks nm g /\ rect_conns f g' = rect_conns nm g.
Proof. exact rectgeo_blockmap_regenerates_lemma. Qed.
Print Assumptions rectgeo_blockmap_regenerates.

Theorem rectgeo_atmosphere : forall K keqb g (nm nm' : cid -> K) av snap, in_class keqb g nm nm' av snap ->
  forall heading, heading_spec heading -> forall obk, ob_ok obk g nm -> forall rminact, rm_ok rminact g ->
  forall fxp fx2 cn r, cn_ok K g nm cn -> clear_of_defects fxp fx2 g ->
  rectgeo K keqb heading fxp fx2 (grid_of g nm cn) obk av rminact snap (gatm g) nm' = Ok r ->
  let f := fun c => apply_map K keqb (r_map r) (nm' c) in
  let g' := rebuilt r (gatm g) (gatmvol g) (gatmconn g) (gatmz g) in
  gatm g' = gatm g /\ map (mk_block f) (atm_cells g') = map (mk_block nm) (atm_cells g) /\
  map (mk_block f) (rock_cells g') = map (mk_block nm) (rock_cells g).
Proof. exact rectgeo_atmosphere_lemma. Qed.
Print Assumptions rectgeo_atmosphere.

Theorem track_order_independent : forall K keqb g (nm nm' : cid -> K) av snap, in_class keqb g nm nm' av snap ->
  forall heading, heading_spec heading -> forall obk, ob_ok obk g nm -> forall rminact, rm_ok rminact g ->
  forall fxp fx2 cn cn', cn_ok K g nm cn -> cn_ok K g nm cn' -> clear_of_defects fxp fx2 g ->
  rectgeo K keqb heading fxp fx2 (grid_of g nm cn) obk av rminact snap (gatm g) nm' =
  rectgeo K keqb heading fxp fx2 (grid_of g nm cn') obk av rminact snap (gatm g) nm'.
Proof. exact track_order_independent_lemma. Qed.
Print Assumptions track_order_independent.

(** ** no column reaches the top of layer 1 (or upper layers hold no block): the grid IS the grid of the
    trimmed geometry, and rectgeo returns exactly the trimmed geometry *)
Theorem unreached_top_grid_is_trimmed_grid : forall g, wf g -> forall kt i0 j0, (1 <= kt < nz g)%nat ->
  (i0 < nx g)%nat -> (j0 < ny g)%nat ->
  (forall i j, (i < nx g)%nat -> (j < ny g)%nat -> gsurf g i j <= gsurf g i0 j0) ->
  bot g kt < gsurf g i0 j0 -> gsurf g i0 j0 <= top g kt ->
  forall K (nm : cid -> K),
  rect_blocks nm g = rect_blocks (fun c => nm (sh kt c)) (trim g kt i0 j0) /\
  rect_conns nm g = rect_conns (fun c => nm (sh kt c)) (trim g kt i0 j0).
Proof. exact (fun g W kt i0 j0 KT Hi Hj SM B1 B2 K nm => conj (blocks_trim g W kt i0 j0 KT Hi Hj SM B1 B2 K nm) (conns_trim g W kt i0 j0 KT Hi Hj SM B1 B2 K nm)). Qed.
Print Assumptions unreached_top_grid_is_trimmed_grid.

Theorem rectgeo_top_unreached : forall K keqb g (nm nm' : cid -> K) av snap kt i0 j0, in_class_trunc keqb g nm nm' av snap kt i0 j0 ->
  forall heading, heading_spec heading -> forall obk, ob_ok obk g nm -> forall rminact, rm_ok rminact g ->
  forall fxp fx2 cn, cn_ok K g nm cn -> clear_of_defects fxp fx2 g ->
  exists r, rectgeo K keqb heading fxp fx2 (grid_of g nm cn) obk av rminact snap (gatm g) nm' = Ok r /\
    r_dx r = gdx g /\ r_dy r = gdy g /\
    r_dz r = (gsurf g i0 j0 - bot g kt) :: skipn kt (gdz g) /\
    r_pos r = PosAx (gox g) (goy g) (gax g) (gay g) /\ r_oz r = gsurf g i0 j0 /\
    (forall i j, (i < nx g)%nat -> (j < ny g)%nat -> list_surf (length (r_dx r)) (r_surf r) (r_oz r) i j = gsurf g i j).
Proof. exact rectgeo_top_unreached_fields_lemma. Qed.
Print Assumptions rectgeo_top_unreached.

Theorem rectgeo_top_unreached_regenerates : forall K keqb g (nm nm' : cid -> K) av snap kt i0 j0, in_class_trunc keqb g nm nm' av snap kt i0 j0 ->
  forall heading, heading_spec heading -> forall obk, ob_ok obk g nm -> forall rminact, rm_ok rminact g ->
  forall fxp fx2 cn r, cn_ok K g nm cn -> clear_of_defects fxp fx2 g ->
  rectgeo K keqb heading fxp fx2 (grid_of g nm cn) obk av rminact snap (gatm g) nm' = Ok r ->
  let f := fun c => apply_map K keqb (r_map r) (nm' c) in
  let g' := rebuilt r (gatm g) (gatmvol g) (gatmconn g) (gatmz g) in
  rect_blocks f g' = rect_blocks nm g /\ rect_conns f g' = rect_conns nm g.
Proof. exact rectgeo_top_unreached_regenerates_lemma. Qed.
Print Assumptions rectgeo_top_unreached_regenerates.

(** ** the two repaired defects (the code before 0d340ee / 8b5d11e), for every geometry they apply to *)
Theorem single_block_direction_1_gave_nan_position : forall K keqb g (nm nm' : cid -> K) av snap, in_class keqb g nm nm' av snap ->
  forall heading, heading_spec heading -> forall obk, ob_ok obk g nm -> forall rminact, rm_ok rminact g ->
  forall fx2 cn, cn_ok K g nm cn -> nx g = 1%nat -> (fx2 = false -> has g (nz g - 1) 0 0 = true \/ (gatm g < 2)%nat) ->
  exists r, rectgeo K keqb heading false fx2 (grid_of g nm cn) obk av rminact snap (gatm g) nm' = Ok r /\ r_pos r = PosNaN /\
            r_dx r = gdx g /\ r_dy r = gdy g /\ r_dz r = gdz g.
Proof. exact single_block_direction_1_nan_lemma. Qed.
Print Assumptions single_block_direction_1_gave_nan_position.

Theorem origin_column_2d_no_atmosphere_raised : forall K keqb g (nm nm' : cid -> K) av snap, in_class keqb g nm nm' av snap ->
  forall heading, heading_spec heading -> forall obk, ob_ok obk g nm -> forall rminact, rm_ok rminact g ->
  forall fxp cn, cn_ok K g nm cn -> (nx g = 1%nat \/ ny g = 1%nat) -> has g (nz g - 1) 0 0 = false -> (2 <= gatm g)%nat ->
  rectgeo K keqb heading fxp false (grid_of g nm cn) obk av rminact snap (gatm g) nm' = Raise IndexError.
Proof. exact origin_column_2d_indexerror_lemma. Qed.
Print Assumptions origin_column_2d_no_atmosphere_raised.

Theorem rectgeo_position_refuted_before_repair : exists g, in_class cid_eqb g idn idn (q 1000) 0 /\
  forall r, rectgeo cid cid_eqb heading_exact false false (grid_of g idn (cn_canonical cid_eqb g idn)) None (q 1000) false 0 (gatm g) idn = Ok r ->
            r_pos r <> PosAx (gox g) (goy g) (gax g) (gay g).
Proof. exact position_refuted_as_is. Qed.
Print Assumptions rectgeo_position_refuted_before_repair.
Theorem rectgeo_spacings_refuted_before_repair : exists g, in_class cid_eqb g idn idn (q 10000) 0 /\
  forall r, rectgeo cid cid_eqb heading_exact false false (grid_of g idn (cn_canonical cid_eqb g idn)) None (q 10000) false 0 (gatm g) idn <> Ok r.
Proof. exact spacings_refuted_as_is. Qed.
Print Assumptions rectgeo_spacings_refuted_before_repair.

(** ** the hypotheses are satisfiable: a stepped, ROTATED (x-axis along (4/5, -3/5)) 2 x 2 x 3 geometry with
    atmosphere blocks is in the class; a geometry none of whose columns reaches the top is in the truncated class *)
Theorem class_inhabited : in_class cid_eqb w1 idn idn (q 1000) 0 /\ clear_of_defects false false w1 /\
  cn_ok cid w1 idn (cn_canonical cid_eqb w1 idn).
Proof. exact (conj w1_class (conj w1_clear (cn_canonical_ok cid_eqb w1 idn cid_eqb_eq))). Qed.
Print Assumptions class_inhabited.
Theorem class_trunc_inhabited : in_class_trunc cid_eqb w4 idn idn (q 1000) 0 2 0 0.
Proof. exact w4_class. Qed.
Print Assumptions class_trunc_inhabited.

(** when the hypothesis [ic_nosnap] of the class holds: layer_snap <= 0, or every column's top block
    at least layer_snap high *)
Theorem no_snap_when_disabled : forall g snap s, snap <= 0 -> snap_surface g snap s = s.
Proof. exact nosnap_nonpos. Qed.
Print Assumptions no_snap_when_disabled.
Theorem no_snap_when_top_blocks_high : forall g, wf g -> forall snap,
  (forall i j, (i < nx g)%nat -> (j < ny g)%nat -> snap <= gsurf g i j - bot g (Track.ktop g i j)) ->
  forall i j, (i < nx g)%nat -> (j < ny g)%nat -> snap_surface g snap (gsurf g i j) = gsurf g i j.
Proof. exact nosnap_high_tops. Qed.
Print Assumptions no_snap_when_top_blocks_high.

(** ** after a data file (t2data.write / t2data(filename)): volumes, distances, areas keep 5 significant digits,
    block centres 4 (FileGrid.v [rnd], [file_grid]).  Provided the file keeps every volume on its side of the
    volume window and the order of the block elevations, rectgeo on the re-read grid returns each spacing d as
    2 * rnd5(d / 2): exactly d when d / 2 has at most 5 significant digits, within the field's accuracy otherwise.
    (3-D grids; position, orientation and surfaces after a file: correspondence and oracle only.) *)
Theorem rectgeo_after_data_file : forall K keqb g (nm nm' : cid -> K) av snap, in_class keqb g nm nm' av snap ->
  (2 <= nx g)%nat -> (2 <= ny g)%nat ->
  forall cn, cn_ok K g nm cn ->
  (forall b, In b (blocks (grid_of g nm cn)) -> vol_ok (Some av) (rnd 5 (bvol b)) = vol_ok (Some av) (bvol b)) ->
  (forall b b' z z', In b (blocks (grid_of g nm cn)) -> In b' (blocks (grid_of g nm cn)) -> elev K None b = Some z -> elev K None b' = Some z' ->
     qlt (rnd 4 z) (rnd 4 z') = qlt z z') ->
  forall heading, exists r,
    rectgeo K keqb heading true true (file_grid K (grid_of g nm cn)) None av false snap (gatm g) nm' = Ok r /\
    r_dx r = map file_spacing (gdx g) /\ r_dy r = map file_spacing (gdy g) /\ r_dz r = map file_spacing (gdz g).
Proof. exact rectgeo_after_data_file_lemma. Qed.
Print Assumptions rectgeo_after_data_file.
Theorem file_spacing_exact : forall l : list Qc, (forall d, In d l -> rnd 5 (d * half) = d * half) -> map file_spacing l = l.
Proof. exact file_spacing_exact_lemma. Qed.
Print Assumptions file_spacing_exact.
Theorem file_spacing_error : forall eps d,
  d * half - eps * (d * half) <= rnd 5 (d * half) -> rnd 5 (d * half) <= d * half + eps * (d * half) ->
  d - eps * d <= file_spacing d /\ file_spacing d <= d + eps * d.
Proof. exact file_spacing_error_lemma. Qed.
Print Assumptions file_spacing_error.

(** ** rectgeo reads its grid (by construction in the model; checked on the implementation by the oracle) *)
Theorem rectgeo_function_of_grid : forall K keqb heading fxp fx2 (g1 g2 : grid K) obk av rminact snap atm' nm',
  blocks g1 = blocks g2 -> conns g1 = conns g2 -> (forall k, cnames g1 k = cnames g2 k) ->
  (forall k, cnames g1 k = cnames g2 k) /\
  (g1 = g2 -> rectgeo K keqb heading fxp fx2 g1 obk av rminact snap atm' nm' = rectgeo K keqb heading fxp fx2 g2 obk av rminact snap atm' nm').
Proof. exact (@rectgeo_function_of_grid_lemma). Qed.
Print Assumptions rectgeo_function_of_grid.

(** ** gravity cosines: -1 on vertical connections, 0 between blocks at equal elevation, and the regenerated
    grid has the original ones (they are fields of the connections [rectgeo_blockmap_regenerates] equates) *)
Theorem vertical_dircos : forall g l, link_shape g l -> ldir l = 3%nat -> ldcn l = neg1 /\ ldcr l = 1.
Proof. exact vertical_dircos_lemma. Qed.
Print Assumptions vertical_dircos.
Theorem horizontal_dircos_level : forall g k i j, zc g k (S i) j = zc g k i j -> ldcn (xlink g k i j) = 0.
Proof. exact horizontal_dircos_level_lemma. Qed.
Print Assumptions horizontal_dircos_level.
Theorem regenerated_dircos : forall K (f nm : cid -> K) g' g, rect_conns f g' = rect_conns nm g ->
  map (fun c => (ka c, kb c, kdcn c, kdcr c)) (rect_conns f g') = map (fun c => (ka c, kb c, kdcn c, kdcr c)) (rect_conns nm g).
Proof. exact (@regenerated_dircos_lemma). Qed.
Print Assumptions regenerated_dircos.
(** the hypotheses of [rectgeo_after_data_file] are satisfiable, and on this geometry the file loses nothing *)
Theorem data_file_class_inhabited : exists r,
  rectgeo cid cid_eqb heading_exact true true (file_grid cid (grid_of w5 idn (cn_canonical cid_eqb w5 idn))) None (q 1000) false 0 2 idn = Ok r /\
  r_dx r = [q 1; q 2] /\ r_dy r = [q 3; q 1] /\ r_dz r = [q 1; q 2].
Proof. exact w5_after_file. Qed.
Print Assumptions data_file_class_inhabited.

(** ** accuracy of the fixed-format field itself (FileGrid.v [rnd]; round 6).  The integer rounding (half to even)
    is within 1/2 of its argument, for every rational; hence the d-digit decimal [rnd_pos d x] printed by '%e' is
    within half a unit of the last kept digit of the mantissa/exponent pair (m, e) found by [normalise]. *)
Theorem round_half_even_error : forall x : Q, (Qabs (inject_Z (round_half_even x) - x) <= 1 # 2)%Q.
Proof. exact round_half_even_error_lemma. Qed.
Print Assumptions round_half_even_error.
Theorem rnd_pos_half_unit_last_digit : forall (d : nat) (x m : Q) (e : Z),
  normalise (S (Z.to_nat (Z.log2 (Qnum x) + Z.log2 (Zpos (Qden x)) + 2)%Z)) x 0 = (m, e) ->
  (Qabs (rnd_pos d x - (m * pow10 (Z.of_nat d - 1)) * pow10 (e - (Z.of_nat d - 1))) <= (1 # 2) * pow10 (e - (Z.of_nat d - 1)))%Q.
Proof. exact rnd_pos_half_ulp_lemma. Qed.
Print Assumptions rnd_pos_half_unit_last_digit.
(** hence the relative accuracy of the d-digit field: 10^(1-d)/2 (5e-5 for '%10.4e'), whenever the mantissa found by
    [normalise] is at least 1 (it is unless the fuel, log2 of numerator + log2 of denominator + 3 steps, runs out;
    not proved here) -- and the spacing rectgeo recovers from a standard data file is within 5e-5 of the original,
    which discharges the accuracy hypothesis of [file_spacing_error] with eps = 1/20000 *)
Theorem rnd_pos_relative_error : forall (d : nat) (x m : Q) (e : Z),
  normalise (S (Z.to_nat (Z.log2 (Qnum x) + Z.log2 (Zpos (Qden x)) + 2)%Z)) x 0 = (m, e) -> (1 <= m)%Q ->
  (Qabs (rnd_pos d x - x) <= (1 # 2) * pow10 (1 - Z.of_nat d) * x)%Q.
Proof. exact rnd_pos_relative_error_lemma. Qed.
Print Assumptions rnd_pos_relative_error.
Theorem file_spacing_accuracy : forall (d : Qc) (m : Q) (e : Z), 0 < d ->
  normalise (S (Z.to_nat (Z.log2 (Qnum (this (d * half))) + Z.log2 (Zpos (Qden (this (d * half)))) + 2)%Z)) (this (d * half)) 0 = (m, e) -> (1 <= m)%Q ->
  d - Q2Qc (1 # 20000) * d <= file_spacing d /\ file_spacing d <= d + Q2Qc (1 # 20000) * d.
Proof. exact file_spacing_accuracy_lemma. Qed.
Print Assumptions file_spacing_accuracy.
(** the fuel of [normalise] always suffices: for EVERY positive rational the mantissa ends in [1, 10) -- so the
    hypothesis [1 <= m] of the two theorems above holds, and the accuracy statements are unconditional *)
Theorem normalise_fuel_suffices : forall x : Q, (0 < x)%Q ->
  (1 <= fst (normalise (S (Z.to_nat (Z.log2 (Qnum x) + Z.log2 (Zpos (Qden x)) + 2)%Z)) x 0) /\
   fst (normalise (S (Z.to_nat (Z.log2 (Qnum x) + Z.log2 (Zpos (Qden x)) + 2)%Z)) x 0) < 10)%Q.
Proof. exact normalise_fuel_suffices_lemma. Qed.
Print Assumptions normalise_fuel_suffices.
Theorem rnd_pos_accuracy : forall (d : nat) (x : Q), (0 < x)%Q ->
  (Qabs (rnd_pos d x - x) <= (1 # 2) * pow10 (1 - Z.of_nat d) * x)%Q.
Proof. exact rnd_pos_accuracy_lemma. Qed.
Print Assumptions rnd_pos_accuracy.
Theorem file_spacing_accuracy_unconditional : forall d : Qc, 0 < d ->
  d - Q2Qc (1 # 20000) * d <= file_spacing d /\ file_spacing d <= d + Q2Qc (1 # 20000) * d.
Proof. exact file_spacing_accuracy_total_lemma. Qed.
Print Assumptions file_spacing_accuracy_unconditional.
