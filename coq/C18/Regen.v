(** C18 -- generating a grid from the reconstructed geometry through the returned block map gives
    back the original grid. *)
From Coq Require Import List Bool Arith ZArith QArith Qcanon Lia.
From PTBase Require Import Exn.
From P Require Import Rectgeo QcFacts GeoFacts ListFacts Forward Walk Track Origin Spacings Mapping Surface Main.
Import ListNotations.
Open Scope Qc_scope.

Lemma flat_map_ext_in {A B} (f h : A -> list B) l : (forall a, In a l -> f a = h a) -> flat_map f l = flat_map h l.
Proof.
  induction l as [|a l IH]; intros H; [reflexivity|]. cbn [flat_map]. rewrite (H a (or_introl eq_refl)). f_equal.
  apply IH. intros x Hx. apply H. right. exact Hx.
Qed.
Lemma filter_ext_in' {A} (f h : A -> bool) l : (forall a, In a l -> f a = h a) -> filter f l = filter h l.
Proof.
  induction l as [|a l IH]; intros H; [reflexivity|]. cbn [filter]. rewrite (H a (or_introl eq_refl)).
  rewrite IH; [reflexivity|]. intros x Hx. apply H. right. exact Hx.
Qed.

(** * a geometry depends on its surface function only at its columns *)
Definition set_params (g : rgeo) (atmvol atmconn atmz : Qc) (s : nat -> nat -> Qc) : rgeo :=
  mkRgeo (gox g) (goy g) (goz g) (gax g) (gay g) (gdx g) (gdy g) (gdz g) (gatm g) atmvol atmconn atmz s.

Section Ext.
Variable g : rgeo.
Variable s : nat -> nat -> Qc.
Hypothesis ES : forall i j, (i < nx g)%nat -> (j < ny g)%nat -> s i j = gsurf g i j.
Variable av' ac' az' : Qc.
Notation g' := (set_params g av' ac' az' s).

Lemma has_ext k i j : (i < nx g)%nat -> (j < ny g)%nat -> has g' k i j = has g k i j.
Proof. intros Hi Hj. unfold has. cbn [gsurf set_params]. rewrite (ES i j Hi Hj). reflexivity. Qed.
Lemma block_surface_ext k i j : (i < nx g)%nat -> (j < ny g)%nat -> block_surface g' k i j = block_surface g k i j.
Proof. intros Hi Hj. unfold block_surface. cbn [gsurf set_params]. rewrite (ES i j Hi Hj). reflexivity. Qed.
Lemma height_ext k i j : (i < nx g)%nat -> (j < ny g)%nat -> height g' k i j = height g k i j.
Proof. intros Hi Hj. unfold height. rewrite (block_surface_ext k i j Hi Hj). reflexivity. Qed.
Lemma volume_ext k i j : (i < nx g)%nat -> (j < ny g)%nat -> volume g' k i j = volume g k i j.
Proof. intros Hi Hj. unfold volume. rewrite (height_ext k i j Hi Hj). reflexivity. Qed.
Lemma zc_ext k i j : (i < nx g)%nat -> (j < ny g)%nat -> zc g' k i j = zc g k i j.
Proof. intros Hi Hj. unfold zc. cbn [gsurf set_params]. rewrite (ES i j Hi Hj). reflexivity. Qed.
Lemma present_ext c : present g c -> present g' c.
Proof.
  destruct c as [|[|k] i j]; cbn [present]; try tauto. intros [Hk [Hi [Hj Hh]]].
  change (nz g') with (nz g). change (nx g') with (nx g). change (ny g') with (ny g).
  rewrite (has_ext (S k) i j Hi Hj). tauto.
Qed.
Lemma layer_cols_ext k : layer_cols g' k = layer_cols g k.
Proof.
  unfold layer_cols. change (nx g') with (nx g). change (ny g') with (ny g). apply filter_ext_in'.
  intros [i j] Hin. apply in_colidx in Hin. cbn [fst snd]. apply has_ext; tauto.
Qed.
End Ext.

Section ExtSame.
(** same atmosphere parameters: the cells and links are those of g *)
Variable g : rgeo.
Variable s : nat -> nat -> Qc.
Hypothesis ES : forall i j, (i < nx g)%nat -> (j < ny g)%nat -> s i j = gsurf g i j.
Notation g' := (set_params g (gatmvol g) (gatmconn g) (gatmz g) s).

Lemma cells_ext : cells g' = cells g.
Proof.
  unfold cells. change (atm_cells g') with (atm_cells g). f_equal.
  unfold rock_cells. change (nz g') with (nz g). apply flat_map_ext_in. intros k Hk. rewrite (layer_cols_ext g s ES).
    apply map_ext_in. intros [i j] Hin. unfold layer_cols in Hin. apply filter_In in Hin. destruct Hin as [Hin _]. apply in_colidx in Hin.
    unfold rock_cell. cbn [fst snd]. rewrite (volume_ext g s ES), (zc_ext g s ES) by tauto. reflexivity.
Qed.
Lemma vlink_ext k i j : (i < nx g)%nat -> (j < ny g)%nat -> vlink g' k (i, j) = vlink g k (i, j).
Proof.
  intros Hi Hj. unfold vlink. cbn [gsurf set_params gatm gatmconn]. rewrite (ES i j Hi Hj).
  rewrite !(zc_ext g s ES) by assumption. reflexivity.
Qed.
Lemma links_ext : links g' = links g.
Proof.
  unfold links. change (nz g') with (nz g). apply flat_map_ext_in. intros k Hk. unfold layer_links. f_equal; [|f_equal].
  - rewrite (layer_cols_ext g s ES). f_equal. apply map_ext_in. intros [i j] Hin. unfold layer_cols in Hin. apply filter_In in Hin.
    destruct Hin as [Hin _]. apply in_colidx in Hin. apply vlink_ext; tauto.
  - unfold xlinks. change (nx g') with (nx g). change (ny g') with (ny g). apply flat_map_ext_in. intros j Hj. apply in_seq in Hj.
    apply flat_map_ext_in. intros i Hi. apply in_seq in Hi.
    rewrite !(has_ext g s ES) by lia. unfold xlink. rewrite !(height_ext g s ES), !(zc_ext g s ES) by lia. reflexivity.
  - unfold ylinks. change (nx g') with (nx g). change (ny g') with (ny g). apply flat_map_ext_in. intros i Hi. apply in_seq in Hi.
    apply flat_map_ext_in. intros j Hj. apply in_seq in Hj.
    rewrite !(has_ext g s ES) by lia. unfold ylink. rewrite !(height_ext g s ES), !(zc_ext g s ES) by lia. reflexivity.
Qed.
End ExtSame.

(** the surface list of the result, read back as a function, is the original surface at every column *)
Lemma nth_flat_rows {A} (f : nat -> list A) n d : (forall x, length (f x) = n) -> forall m a i j, (i < n)%nat -> (j < m)%nat ->
  nth (j * n + i) (flat_map f (seq a m)) d = nth i (f (a + j)%nat) d.
Proof.
  intros L. induction m as [|m IH]; intros a i j Hi Hj; [lia|]. cbn [seq flat_map]. destruct j as [|j].
  - cbn [Nat.mul Nat.add]. rewrite app_nth1 by (rewrite L; exact Hi). rewrite Nat.add_0_r. reflexivity.
  - rewrite app_nth2 by (rewrite L; cbn; lia). rewrite L. replace (S j * n + i - n)%nat with (j * n + i)%nat by (cbn; lia).
    rewrite (IH (S a) i j Hi ltac:(lia)). replace (S a + j)%nat with (a + S j)%nat by lia. reflexivity.
Qed.
Lemma colidx_length n m : length (colidx n m) = (m * n)%nat.
Proof.
  unfold colidx. generalize 0%nat at 2. induction m as [|m IH]; intros a; [reflexivity|].
  cbn [seq flat_map]. rewrite app_length, map_length, seq_length, IH. cbn. lia.
Qed.
Lemma nth_colidx n m i j : (i < n)%nat -> (j < m)%nat -> nth (j * n + i) (colidx n m) (0%nat, 0%nat) = (i, j).
Proof.
  intros Hi Hj. unfold colidx.
  rewrite (nth_flat_rows (fun j0 => map (fun i0 => (i0, j0)) (seq 0 n)) n (0%nat, 0%nat)) by (auto; intros; rewrite map_length, seq_length; reflexivity).
  cbn [Nat.add]. rewrite (nth_indep _ (0%nat, 0%nat) ((fun i0 => (i0, j)) 0%nat)) by (rewrite map_length, seq_length; exact Hi).
  rewrite (map_nth (fun i0 : nat => (i0, j)) (seq 0 n) 0%nat i). rewrite seq_nth by exact Hi. reflexivity.
Qed.
Lemma list_surf_colidx (h : nat -> nat -> Qc) n m d i j : (i < n)%nat -> (j < m)%nat ->
  list_surf n (map (fun c => h (fst c) (snd c)) (colidx n m)) d i j = h i j.
Proof.
  intros Hi Hj. unfold list_surf.
  rewrite (nth_indep _ d ((fun c => h (fst c) (snd c)) (0%nat, 0%nat))) by (rewrite map_length, colidx_length; nia).
  rewrite (map_nth (fun c : nat * nat => h (fst c) (snd c)) (colidx n m) (0%nat, 0%nat) (j * n + i)). rewrite (nth_colidx n m i j Hi Hj). reflexivity.
Qed.

(** the geometry a result of rectgeo describes; atmosphere type, volume and connection distance are
    parameters of the generation (rectgeo takes the type as an argument and does not return the others) *)
Definition rebuilt {K} (r : result K) (atm : nat) (atmvol atmconn atmz : Qc) : rgeo :=
  mkRgeo (pos_x (r_pos r)) (pos_y (r_pos r)) (r_oz r) (pos_ax (r_pos r)) (pos_ay (r_pos r)) (r_dx r) (r_dy r) (r_dz r) atm atmvol atmconn atmz
         (list_surf (length (r_dx r)) (r_surf r) (r_oz r)).

Section Regen.
Set Default Proof Using "All".
Variable K : Type.
Variable keqb : K -> K -> bool.
Hypothesis keqb_spec : forall a b, keqb a b = true <-> a = b.
Variable g : rgeo.
Hypothesis W : wf g.
Variable nm : cid -> K.
Hypothesis nm_inj : forall a b, latt g a -> latt g b -> nm a = nm b -> a = b.
Variable cn : K -> list (K * K).
Hypothesis CN : cn_ok K g nm cn.
Variable av : Qc.
Hypothesis ACT : forall k i j, present g (Cell (S k) i j) -> volume g (S k) i j < av.
Hypothesis INACT : gatm g <> 2%nat -> vol_ok (Some av) (gatmvol g) = false.
Variable nm' : cid -> K.
Hypothesis nm'_inj : forall a b, latt g a -> latt g b -> nm' a = nm' b -> a = b.
Local Notation HZ lem := (lem K keqb keqb_spec g W nm nm_inj cn CN av ACT INACT nm' nm'_inj) (only parsing).

Lemma surf_ext : forall i j, (i < nx g)%nat -> (j < ny g)%nat -> list_surf (nx g) (surf_list g) (goz g) i j = gsurf g i j.
Proof. intros i j Hi Hj. unfold surf_list. apply list_surf_colidx; assumption. Qed.

(** the pruned block map sends the new name of every cell of the original geometry to its original name *)
Lemma apply_map_present p c : present g c -> apply_map K keqb (pruned_log K keqb g nm nm' p) (nm' c) = nm c.
Proof.
  intros P. unfold apply_map, pruned_log.
  rewrite (HZ lookup_filter (fun k => key_in K keqb k (map (fun c0 => nm' (cc c0)) (cells (regeo g p))))).
  - rewrite (HZ full_log_lookup c P). reflexivity.
  - unfold key_in. apply existsb_exists. exists (nm' c). split; [|apply keqb_spec; reflexivity].
    apply in_map_iff. exists (cellof (regeo g p) c). split; [rewrite cc_cellof; reflexivity|].
    apply present_in_cells.
    change (regeo g p) with (mkRgeo (pos_x p) (pos_y p) (goz g) (pos_ax p) (pos_ay p) (gdx g) (gdy g) (gdz g) (gatm g) 0 0 (goz g) (list_surf (nx g) (surf_list g) (goz g))).
    destruct c as [|[|k] i j]; cbn [present] in P |- *; try exact P.
    destruct P as [[Hk1 Hk2] [Hi [Hj Hh]]]. repeat split; try assumption.
    unfold has in *. cbn [gsurf]. rewrite (surf_ext i j Hi Hj). exact Hh.
Qed.

(** generating a grid from the reconstructed geometry, the block map applied to its names, gives the
    blocks (names, volumes, centres, order) and the connections (names, orientation, direction,
    distances, areas, order) of the original grid *)
Theorem regenerates_exact (r : result K) :
  r = mkResult (gdx g) (gdy g) (gdz g) (PosAx (gox g) (goy g) (gax g) (gay g)) (goz g) (surf_list g) (pruned_log K keqb g nm nm' (PosAx (gox g) (goy g) (gax g) (gay g))) ->
  let f := fun c => apply_map K keqb (r_map r) (nm' c) in
  let g' := rebuilt r (gatm g) (gatmvol g) (gatmconn g) (gatmz g) in
  rect_blocks f g' = rect_blocks nm g /\ rect_conns f g' = rect_conns nm g.
Proof.
  intros -> f g'.
  assert (EG : g' = set_params g (gatmvol g) (gatmconn g) (gatmz g) (list_surf (nx g) (surf_list g) (goz g))) by reflexivity.
  subst f. cbn [r_map]. split.
  - unfold rect_blocks. rewrite EG, (cells_ext g _ surf_ext). apply map_ext_in. intros c Hc.
    apply in_cells_iff in Hc. destruct Hc as [P _]. unfold mk_block. rewrite (apply_map_present _ _ P). reflexivity.
  - unfold rect_conns. rewrite EG, (links_ext g _ surf_ext). apply map_ext_in. intros l Hl.
    apply in_links_iff in Hl. destruct (link_ends_present g l Hl) as [Pa Pb]. unfold mk_conn.
    rewrite (apply_map_present _ _ Pa), (apply_map_present _ _ Pb). reflexivity.
Qed.
End Regen.
