(** C18 -- the theorems of the property, stated over the class of rectangular geometries. *)
From Coq Require Import List Bool Arith ZArith QArith Qcanon Lia.
From PTBase Require Import Exn.
From P Require Import Rectgeo QcFacts GeoFacts ListFacts Forward Walk Track Origin Spacings Mapping Surface Main Regen.
Import ListNotations.
Open Scope Qc_scope.

(** the class of the property: a rectangular geometry [g] (any number of blocks in the three
    directions, at least two layers, at most one horizontal direction with a single block, arbitrary
    positive spacings, any origin, atmosphere type 0/1/2, surfaces that leave the bottom layer
    complete), named one-to-one by [nm]; rectgeo is called with atmos_volume [av] (every rock block is
    smaller, the atmosphere blocks are not in (0, av)), layer_snap [snap] (which moves no surface of
    g), and names the new geometry one-to-one by [nm'].  [ic_top]: some column reaches the top of
    layer 1 (otherwise the thickness of the top layer is not in the grid, DESIGN.md C18). *)
Record in_class {K : Type} (keqb : K -> K -> bool) (g : rgeo) (nm nm' : cid -> K) (av snap : Qc) : Prop := mkClass {
  ic_keqb : forall a b, keqb a b = true <-> a = b;
  ic_wf : wf g;
  ic_2d : (2 <= nx g)%nat \/ (2 <= ny g)%nat;
  ic_unit : gax g * gax g + gay g * gay g = 1;        (* any orientation: the x-axis points along a unit vector *)
  ic_nm : forall a b, latt g a -> latt g b -> nm a = nm b -> a = b;
  ic_nm' : forall a b, latt g a -> latt g b -> nm' a = nm' b -> a = b;
  ic_active : forall k i j, present g (Cell (S k) i j) -> volume g (S k) i j < av;
  ic_inactive : gatm g <> 2%nat -> vol_ok (Some av) (gatmvol g) = false;
  ic_nosnap : forall i j, (i < nx g)%nat -> (j < ny g)%nat -> snap_surface g snap (gsurf g i j) = gsurf g i j;
  ic_top : exists i0 j0, (i0 < nx g)%nat /\ (j0 < ny g)%nat /\ goz g <= gsurf g i0 j0
}.
(** the two recorded defects of the code as it stands do not apply: either the repair is in
    ([fxp] / [fx2] true) or the input is outside the defect's class *)
Definition clear_of_defects (fxp fx2 : bool) (g : rgeo) : Prop :=
  (fxp = false -> (2 <= nx g)%nat) /\
  (fx2 = false -> (nx g = 1%nat \/ ny g = 1%nat) -> has g (nz g - 1) 0 0 = true \/ (gatm g < 2)%nat).

(** the grid the property is about, with any iteration order of the connection_name sets *)
Definition grid_of {K} (g : rgeo) (nm : cid -> K) (cn : K -> list (K * K)) : grid K := G K g nm cn.
Definition expected {K} (keqb : K -> K -> bool) (g : rgeo) (nm nm' : cid -> K) : result K :=
  mkResult (gdx g) (gdy g) (gdz g) (PosAx (gox g) (goy g) (gax g) (gay g)) (goz g)
           (map (fun c => gsurf g (fst c) (snd c)) (colidx (nx g) (ny g)))
           (pruned_log K keqb g nm nm' (PosAx (gox g) (goy g) (gax g) (gay g))).
(** the optional arguments of rectgeo the theorems cover: remove_inactive (when no block has a
    non-positive volume) and origin_block (absent, or the first block of the bottom layer) *)
Definition rm_ok (rminact : bool) (g : rgeo) : Prop := rminact = true -> gatm g <> 2%nat -> 0 < gatmvol g.
Definition ob_ok {K} (obk : option K) (g : rgeo) (nm : cid -> K) : Prop := obk = None \/ obk = Some (nm (Cell (nz g) 0 0)).

Section Final.
Variable K : Type.
Variable keqb : K -> K -> bool.
Variable g : rgeo.
Variable nm nm' : cid -> K.
Variable av snap : Qc.
Hypothesis C : in_class keqb g nm nm' av snap.
Variable heading : Qc -> Qc -> option (Qc * Qc).
Hypothesis HS : heading_spec heading.
Variable obk : option K.
Hypothesis OB : ob_ok obk g nm.
Variable rminact : bool.
Hypothesis RM : rm_ok rminact g.

Lemma rectgeo_total_lemma fxp fx2 cn : cn_ok K g nm cn -> clear_of_defects fxp fx2 g ->
  rectgeo K keqb heading fxp fx2 (grid_of g nm cn) obk av rminact snap (gatm g) nm' = Ok (expected keqb g nm nm').
Proof.
  intros CN [D1 D2]. destruct C as [C1 C2 C3 CU C4 C5 C6 C7 C8 [i0 [j0 [Hi [Hj HT]]]]].
  exact (rectgeo_exact K keqb C1 g C2 nm C4 cn CN av C6 C7 nm' C5 CU heading HS snap C8 rminact RM i0 j0 Hi Hj HT C3 obk OB fxp fx2 D1 D2).
Qed.

Lemma rectgeo_spacings_lemma fxp fx2 cn : cn_ok K g nm cn -> clear_of_defects fxp fx2 g ->
  exists r, rectgeo K keqb heading fxp fx2 (grid_of g nm cn) obk av rminact snap (gatm g) nm' = Ok r /\
            r_dx r = gdx g /\ r_dy r = gdy g /\ r_dz r = gdz g.
Proof. intros CN D. eexists. split; [apply rectgeo_total_lemma; assumption|]. cbn. auto. Qed.

Lemma rectgeo_position_lemma fxp fx2 cn : cn_ok K g nm cn -> clear_of_defects fxp fx2 g ->
  exists r, rectgeo K keqb heading fxp fx2 (grid_of g nm cn) obk av rminact snap (gatm g) nm' = Ok r /\
            r_pos r = PosAx (gox g) (goy g) (gax g) (gay g) /\ r_oz r = goz g.
Proof. intros CN D. eexists. split; [apply rectgeo_total_lemma; assumption|]. cbn. auto. Qed.

Lemma rectgeo_surface_lemma fxp fx2 cn : cn_ok K g nm cn -> clear_of_defects fxp fx2 g ->
  exists r, rectgeo K keqb heading fxp fx2 (grid_of g nm cn) obk av rminact snap (gatm g) nm' = Ok r /\
            length (r_surf r) = (nx g * ny g)%nat /\
            forall i j, (i < nx g)%nat -> (j < ny g)%nat -> list_surf (length (r_dx r)) (r_surf r) (r_oz r) i j = gsurf g i j.
Proof.
  intros CN D. eexists. split; [apply rectgeo_total_lemma; assumption|]. cbn [expected r_surf r_dx r_oz]. split.
  - rewrite map_length, colidx_length. lia.
  - intros i j Hi Hj. apply (list_surf_colidx (gsurf g)); assumption.
Qed.

Lemma rectgeo_blockmap_regenerates_lemma fxp fx2 cn r : cn_ok K g nm cn -> clear_of_defects fxp fx2 g ->
  rectgeo K keqb heading fxp fx2 (grid_of g nm cn) obk av rminact snap (gatm g) nm' = Ok r ->
  let f := fun c => apply_map K keqb (r_map r) (nm' c) in
  let g' := rebuilt r (gatm g) (gatmvol g) (gatmconn g) (gatmz g) in
  rect_blocks f g' = rect_blocks nm g /\ rect_conns f g' = rect_conns nm g.
Proof.
  intros CN D E. rewrite (rectgeo_total_lemma fxp fx2 cn CN D) in E. inversion E as [E']. clear E.
  destruct C as [C1 C2 C3 CU C4 C5 C6 C7 C8 _].
  apply (regenerates_exact K keqb C1 g C2 nm C4 cn CN av C6 C7 nm' C5). reflexivity.
Qed.

(** the atmosphere arrangement: the regenerated grid has the original atmosphere blocks, in order,
    and no other block under their names *)
Lemma rectgeo_atmosphere_lemma fxp fx2 cn r : cn_ok K g nm cn -> clear_of_defects fxp fx2 g ->
  rectgeo K keqb heading fxp fx2 (grid_of g nm cn) obk av rminact snap (gatm g) nm' = Ok r ->
  let f := fun c => apply_map K keqb (r_map r) (nm' c) in
  let g' := rebuilt r (gatm g) (gatmvol g) (gatmconn g) (gatmz g) in
  gatm g' = gatm g /\ map (mk_block f) (atm_cells g') = map (mk_block nm) (atm_cells g) /\
  map (mk_block f) (rock_cells g') = map (mk_block nm) (rock_cells g).
Proof.
  intros CN D E f g'. destruct (rectgeo_blockmap_regenerates_lemma fxp fx2 cn r CN D E) as [B _]. fold f g' in B.
  split; [reflexivity|]. unfold rect_blocks, cells in B. rewrite !map_app in B.
  assert (L : length (map (mk_block f) (atm_cells g')) = length (map (mk_block nm) (atm_cells g))).
  { rewrite !map_length. rewrite (rectgeo_total_lemma fxp fx2 cn CN D) in E. inversion E as [E']. subst g'. rewrite <- E'.
    unfold atm_cells. cbn [rebuilt expected r_pos r_oz r_dx r_dy r_dz gatm]. destruct (gatm g) as [|[|n]]; [reflexivity| |reflexivity].
    rewrite !map_length. reflexivity. }
  apply app_eq_app in B. destruct B as [l2 [[B1 B2]|[B1 B2]]].
  - assert (l2 = []) by (rewrite B1, app_length in L; destruct l2; [reflexivity|cbn in L; lia]). subst l2. rewrite app_nil_r in B1. cbn in B2. auto.
  - assert (l2 = []) by (rewrite B1, app_length in L; destruct l2; [reflexivity|cbn in L; lia]). subst l2. rewrite app_nil_r in B1. cbn in B2. auto.
Qed.

(** the result does not depend on the iteration order of the connection_name sets *)
Lemma track_order_independent_lemma fxp fx2 cn cn' : cn_ok K g nm cn -> cn_ok K g nm cn' -> clear_of_defects fxp fx2 g ->
  rectgeo K keqb heading fxp fx2 (grid_of g nm cn) obk av rminact snap (gatm g) nm' = rectgeo K keqb heading fxp fx2 (grid_of g nm cn') obk av rminact snap (gatm g) nm'.
Proof. intros CN CN' D. rewrite !rectgeo_total_lemma by assumption. reflexivity. Qed.

(** the two recorded defects, for every geometry of the class they apply to *)
Lemma single_block_direction_1_nan_lemma fx2 cn : cn_ok K g nm cn -> nx g = 1%nat ->
  (fx2 = false -> has g (nz g - 1) 0 0 = true \/ (gatm g < 2)%nat) ->
  exists r, rectgeo K keqb heading false fx2 (grid_of g nm cn) obk av rminact snap (gatm g) nm' = Ok r /\ r_pos r = PosNaN /\
            r_dx r = gdx g /\ r_dy r = gdy g /\ r_dz r = gdz g.
Proof.
  intros CN E1 G2. destruct C as [C1 C2 C3 CU C4 C5 C6 C7 C8 [i0 [j0 [Hi [Hj HT]]]]].
  eexists. split; [exact (rectgeo_single_block_nan K keqb C1 g C2 nm C4 cn CN av C6 C7 nm' C5 CU heading HS snap C8 rminact RM i0 j0 Hi Hj HT C3 obk OB fx2 E1 G2)|].
  cbn. auto.
Qed.
Lemma origin_column_2d_indexerror_lemma fxp cn : cn_ok K g nm cn -> (nx g = 1%nat \/ ny g = 1%nat) ->
  has g (nz g - 1) 0 0 = false -> (2 <= gatm g)%nat ->
  rectgeo K keqb heading fxp false (grid_of g nm cn) obk av rminact snap (gatm g) nm' = Raise IndexError.
Proof.
  intros CN E Hh A. destruct C as [C1 C2 C3 CU C4 C5 C6 C7 C8 [i0 [j0 [Hi [Hj HT]]]]].
  exact (rectgeo_2d_indexerror K keqb C1 g C2 nm C4 cn CN av C6 C7 nm' C5 CU heading HS snap C8 rminact RM i0 j0 Hi Hj HT C3 obk OB fxp E Hh A).
Qed.
End Final.

(** snapping disabled (layer_snap <= 0) moves no surface *)
Lemma nosnap_nonpos g snap s : snap <= 0 -> snap_surface g snap s = s.
Proof. intros H. unfold snap_surface. assert (Q : qlt 0 snap = false) by qc_lra. rewrite Q. reflexivity. Qed.

(** the canonical connection_name lists satisfy cn_ok (for any naming) *)
Definition cn_canonical {K} (keqb : K -> K -> bool) (g : rgeo) (nm : cid -> K) : K -> list (K * K) :=
  fun k => filter (fun p => keqb (fst p) k || keqb (snd p) k) (map (fun c => (ka c, kb c)) (rect_conns nm g)).
Lemma cn_canonical_ok {K} (keqb : K -> K -> bool) g (nm : cid -> K) :
  (forall a b, keqb a b = true <-> a = b) -> cn_ok K g nm (cn_canonical keqb g nm).
Proof.
  intros KS k p. unfold cn_canonical. rewrite filter_In, orb_true_iff, !KS. tauto.
Qed.

(** a positive layer_snap moves no surface when every column's top block is at least that high *)
Lemma count_upset (p : nat -> bool) n : forall a m, (forall k, (a <= k < a + n)%nat -> (p k = true <-> (m <= k)%nat)) ->
  (a <= m <= a + n)%nat -> length (filter p (seq a n)) = (a + n - m)%nat.
Proof.
  induction n as [|n IH]; intros a m H Hm; [cbn; lia|]. cbn [seq filter].
  destruct (p a) eqn:E.
  - assert (m <= a)%nat by (apply H; [lia|exact E]). assert (m = a) by lia. subst m. cbn [length].
    rewrite (IH (S a) (S a)); [lia| |lia]. intros k Hk. split; [lia|]. intros _. apply H; lia.
  - assert (~ (m <= a)%nat) by (intro X; apply H in X; [congruence|lia]).
    rewrite (IH (S a) m); [lia| |lia]. intros k Hk. apply H. lia.
Qed.
Lemma ktop_upset g (W : wf g) i j : (i < nx g)%nat -> (j < ny g)%nat ->
  forall k, (1 <= k <= nz g)%nat -> (has g k i j = true <-> (ktop g i j <= k)%nat).
Proof.
  intros Hi Hj k Hk. pose proof (wf_nz g W) as NZ.
  (* ktop_from_spec is stated inside a section over a named grid; restate what is needed here *)
  assert (KS : forall k0, (1 <= k0 <= nz g)%nat -> has g k0 i j = true ->
               (1 <= ktop_from g i j k0 <= k0)%nat /\ has g (ktop_from g i j k0) i j = true /\ is_top g (ktop_from g i j k0) i j).
  { induction k0 as [|k0 IH]; intros Hk0 Hh0; [lia|]. cbn [ktop_from]. destruct ((2 <=? S k0)%nat && has g k0 i j) eqn:E.
    - apply andb_prop in E. destruct E as [E1 E2]. apply Nat.leb_le in E1. destruct (IH ltac:(lia) E2) as [A [B C]]. split; [lia|]. split; assumption.
    - split; [lia|]. split; [exact Hh0|]. unfold is_top. apply andb_false_elim in E. destruct E as [E|E].
      + apply Nat.leb_gt in E. left. lia.
      + right. replace (S k0 - 1)%nat with k0 by lia. exact E. }
  destruct (KS (nz g) ltac:(lia) (has_bottom g W i j Hi Hj)) as [KT [HT TT]]. fold (ktop g i j) in KT, HT, TT.
  split.
  - intros Hh. destruct (Nat.le_gt_cases (ktop g i j) k) as [L|L]; [exact L|]. exfalso.
    destruct TT as [T|T]; [lia|]. pose proof (has_mono g W k (ktop g i j - 1) i j Hh ltac:(lia) ltac:(lia)). congruence.
  - intros L. apply (has_mono g W (ktop g i j) k i j HT); lia.
Qed.
Lemma nosnap_high_tops g (W : wf g) snap :
  (forall i j, (i < nx g)%nat -> (j < ny g)%nat -> snap <= gsurf g i j - bot g (ktop g i j)) ->
  forall i j, (i < nx g)%nat -> (j < ny g)%nat -> snap_surface g snap (gsurf g i j) = gsurf g i j.
Proof.
  intros H i j Hi Hj. pose proof (wf_nz g W) as NZ. unfold snap_surface. destruct (qlt 0 snap); [|reflexivity].
  assert (KT : (1 <= ktop g i j <= nz g)%nat).
  { pose proof (ktop_upset g W i j Hi Hj (nz g) ltac:(lia)) as U. pose proof (proj1 U (has_bottom g W i j Hi Hj)).
    destruct (ktop g i j) eqn:E; [|lia]. exfalso.
    unfold ktop in E. clear - E NZ. destruct (nz g) as [|m]; [lia|]. cbn [ktop_from] in E.
    assert (Z : forall m0, ktop_from g i j m0 = 0%nat -> m0 = 0%nat).
    { induction m0 as [|m0 IH]; [reflexivity|]. cbn [ktop_from]. destruct ((2 <=? S m0)%nat && has g m0 i j) eqn:E2; [|discriminate].
      intros X. apply IH in X. subst m0. cbn in E2. discriminate. }
    destruct ((2 <=? S m)%nat && has g m i j) eqn:E2; [|discriminate]. apply Z in E. subst m. cbn in E2. discriminate. }
  assert (NL : num_layers_of g (gsurf g i j) = (1 + nz g - ktop g i j)%nat).
  { unfold num_layers_of. apply count_upset; [|lia]. intros k Hk.
    rewrite <- (ktop_upset g W i j Hi Hj k ltac:(lia)). unfold has. tauto. }
  rewrite NL. replace (S (nz g) - (1 + nz g - ktop g i j))%nat with (ktop g i j) by lia.
  pose proof (H i j Hi Hj) as S. assert (Q : qlt (gsurf g i j - bot g (ktop g i j)) snap = false) by qc_lra. rewrite Q. reflexivity.
Qed.

(** ** rectgeo reads its grid: in the model this holds by construction (a Gallina function returns a value and
    cannot change its argument; the result depends on nothing but the arguments).  The content of these
    statements is on the implementation side: the oracle snapshots the grid before and after the call, calls
    twice on the same grid, and compares with the result of a fresh interpreter. *)
Lemma rectgeo_function_of_grid_lemma {K} keqb heading fxp fx2 (g1 g2 : grid K) obk av rminact snap atm' nm' :
  blocks g1 = blocks g2 -> conns g1 = conns g2 -> (forall k, cnames g1 k = cnames g2 k) ->
  (forall k, cnames g1 k = cnames g2 k) /\
  (g1 = g2 -> rectgeo K keqb heading fxp fx2 g1 obk av rminact snap atm' nm' = rectgeo K keqb heading fxp fx2 g2 obk av rminact snap atm' nm').
Proof. intros _ _ H. split; [exact H|]. intros ->. reflexivity. Qed.

(** ** the gravity cosines of the generated (hence of the regenerated) grid *)
Lemma vertical_dircos_lemma g l : link_shape g l -> ldir l = 3%nat -> ldcn l = neg1 /\ ldcr l = 1.
Proof.
  intros S D. destruct S as [k i j l Hk Hi Hj Hh E | k i j Hk Hi Hj H1 H2 | k i j Hk Hi Hj H1 H2]; [|cbn in D; discriminate|cbn in D; discriminate].
  apply vlink_cases in E. destruct E as [[E [A ->]]|[[E [A ->]]|[E ->]]]; cbn; auto.
Qed.
Lemma horizontal_dircos_level_lemma g k i j : zc g k (S i) j = zc g k i j -> ldcn (xlink g k i j) = 0.
Proof. intros E. cbn [xlink ldcn]. rewrite E. ring. Qed.
Lemma regenerated_dircos_lemma {K} (f nm : cid -> K) g' g : rect_conns f g' = rect_conns nm g ->
  map (fun c => (ka c, kb c, kdcn c, kdcr c)) (rect_conns f g') = map (fun c => (ka c, kb c, kdcn c, kdcr c)) (rect_conns nm g).
Proof. intros ->. reflexivity. Qed.
