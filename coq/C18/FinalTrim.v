(** C18 -- what rectgeo returns when no column reaches the top of layer 1 (or upper layers are empty):
    exactly the trimmed geometry (Trim.v). *)
From Coq Require Import List Bool Arith ZArith QArith Qcanon Lia.
From PTBase Require Import Exn.
From P Require Import Rectgeo QcFacts GeoFacts ListFacts Forward Main Regen Final Trim.
Import ListNotations.
Open Scope Qc_scope.

(** the class: as [in_class], but the highest column surface (column (i0, j0)) lies in layer kt < nz,
    possibly strictly below its top; layer_snap moves no surface of the trimmed geometry *)
Record in_class_trunc {K : Type} (keqb : K -> K -> bool) (g : rgeo) (nm nm' : cid -> K) (av snap : Qc) (kt i0 j0 : nat) : Prop := mkTrunc {
  it_keqb : forall a b, keqb a b = true <-> a = b;
  it_wf : wf g;
  it_2d : (2 <= nx g)%nat \/ (2 <= ny g)%nat;
  it_unit : gax g * gax g + gay g * gay g = 1;
  it_nm : forall a b, latt g a -> latt g b -> nm a = nm b -> a = b;
  it_nm' : forall a b, latt g a -> latt g b -> nm' a = nm' b -> a = b;
  it_active : forall k i j, present g (Cell (S k) i j) -> volume g (S k) i j < av;
  it_inactive : gatm g <> 2%nat -> vol_ok (Some av) (gatmvol g) = false;
  it_kt : (1 <= kt < nz g)%nat;
  it_i0 : (i0 < nx g)%nat;
  it_j0 : (j0 < ny g)%nat;
  it_max : forall i j, (i < nx g)%nat -> (j < ny g)%nat -> gsurf g i j <= gsurf g i0 j0;
  it_b1 : bot g kt < gsurf g i0 j0;
  it_b2 : gsurf g i0 j0 <= top g kt;
  it_nosnap : forall i j, (i < nx g)%nat -> (j < ny g)%nat -> snap_surface (trim g kt i0 j0) snap (gsurf g i j) = gsurf g i j
}.

Section FT.
Variable K : Type.
Variable keqb : K -> K -> bool.
Variable g : rgeo.
Variable nm nm' : cid -> K.
Variable av snap : Qc.
Variable kt i0 j0 : nat.
Hypothesis C : in_class_trunc keqb g nm nm' av snap kt i0 j0.
Notation tg := (trim g kt i0 j0).
Notation nms := (fun c => nm (sh kt c)).

Lemma trim_wf : wf tg.
Proof.
  destruct C as [C1 W C3 CU C4 C5 C6 C7 KT Hi0 Hj0 SM B1 B2 NS].
  pose proof (nz_trim g W kt i0 j0 KT Hi0 Hj0 SM B1 B2) as NZ.
  constructor.
  - exact (wf_nx g W).
  - exact (wf_ny g W).
  - rewrite NZ. lia.
  - exact (wf_dx g W).
  - exact (wf_dy g W).
  - cbn [trim gdz]. constructor; [qc_lra|]. apply Forall_skipn'. exact (wf_dz g W).
  - exact (wf_atm g W).
  - cbn [trim goz gatmz]. pose proof (top_kt_le_goz g W kt i0 j0 KT Hi0 Hj0 SM B1 B2) as T. pose proof (wf_atmz g W). qc_lra.
  - intros i j Hi Hj. rewrite NZ. destruct (nz g - kt)%nat as [|m] eqn:EM; [lia|].
    rewrite (top_trim g W kt i0 j0 KT Hi0 Hj0 SM B1 B2 m). replace (kt + S m)%nat with (nz g) by lia. exact (wf_bottom g W i j Hi Hj).
Qed.

Lemma sh_latt c : latt tg c -> latt g (sh kt c).
Proof.
  destruct C as [C1 W C3 CU C4 C5 C6 C7 KT Hi0 Hj0 SM B1 B2 NS]. pose proof (nz_trim g W kt i0 j0 KT Hi0 Hj0 SM B1 B2) as NZ.
  destruct c as [|[|k] i j]; cbn [latt sh]; [tauto| |]; change (nx tg) with (nx g); change (ny tg) with (ny g); rewrite NZ; intros H; repeat split; lia.
Qed.
Lemma sh_inj a b : latt tg a -> latt tg b -> sh kt a = sh kt b -> a = b.
Proof.
  destruct C as [C1 W C3 CU C4 C5 C6 C7 KT Hi0 Hj0 SM B1 B2 NS].
  destruct a as [|[|k] i j], b as [|[|k'] i' j']; cbn [sh]; intros _ _ E; try discriminate E; try reflexivity; inversion E; subst; try lia.
  - reflexivity.
  - assert (k = k') by lia. subst. reflexivity.
Qed.
Lemma trim_latt c : latt tg c -> latt g c.
Proof.
  destruct C as [C1 W C3 CU C4 C5 C6 C7 KT Hi0 Hj0 SM B1 B2 NS]. pose proof (nz_trim g W kt i0 j0 KT Hi0 Hj0 SM B1 B2) as NZ.
  destruct c as [|k i j]; cbn [latt]; [tauto|]. change (nx tg) with (nx g). change (ny tg) with (ny g). rewrite NZ. lia.
Qed.

Lemma trim_class : in_class keqb tg nms nm' av snap.
Proof.
  pose proof trim_wf as TW.
  destruct C as [C1 W C3 CU C4 C5 C6 C7 KT Hi0 Hj0 SM B1 B2 NS]. pose proof (nz_trim g W kt i0 j0 KT Hi0 Hj0 SM B1 B2) as NZ.
  constructor.
  - exact C1.
  - exact TW.
  - exact C3.
  - exact CU.
  - intros a b La Lb E. apply sh_inj; try assumption. apply C4; try (apply sh_latt; assumption). exact E.
  - intros a b La Lb E. apply C5; try (apply trim_latt; assumption). exact E.
  - intros k i j [Hk [Hi [Hj Hh]]]. change (nx tg) with (nx g) in Hi. change (ny tg) with (ny g) in Hj.
    rewrite (volume_trim g W kt i0 j0 KT Hi0 Hj0 SM B1 B2 k i j Hi Hj). rewrite (has_trim g W kt i0 j0 KT Hi0 Hj0 SM B1 B2) in Hh. rewrite NZ in Hk.
    destruct kt as [|kt']; [lia|]. cbn [Nat.add]. apply C6. cbn [present]. repeat split; try assumption; lia.
  - exact C7.
  - exact NS.
  - exists i0, j0. split; [exact Hi0|]. split; [exact Hj0|]. cbn [trim goz gsurf]. apply Qcle_refl.
Qed.

Lemma trim_grid cn : grid_of g nm cn = grid_of tg nms cn.
Proof.
  destruct C as [C1 W C3 CU C4 C5 C6 C7 KT Hi0 Hj0 SM B1 B2 NS]. unfold grid_of, G.
  rewrite (blocks_trim g W kt i0 j0 KT Hi0 Hj0 SM B1 B2 K nm), (conns_trim g W kt i0 j0 KT Hi0 Hj0 SM B1 B2 K nm). reflexivity.
Qed.
Lemma trim_cn cn : cn_ok K g nm cn -> cn_ok K tg nms cn.
Proof.
  destruct C as [C1 W C3 CU C4 C5 C6 C7 KT Hi0 Hj0 SM B1 B2 NS]. unfold cn_ok.
  rewrite (conns_trim g W kt i0 j0 KT Hi0 Hj0 SM B1 B2 K nm). tauto.
Qed.
Lemma trim_clear fxp fx2 : clear_of_defects fxp fx2 g -> clear_of_defects fxp fx2 tg.
Proof.
  destruct C as [C1 W C3 CU C4 C5 C6 C7 KT Hi0 Hj0 SM B1 B2 NS]. pose proof (nz_trim g W kt i0 j0 KT Hi0 Hj0 SM B1 B2) as NZ.
  intros [D1 D2]. split; [exact D1|]. intros F E. change (nx tg) with (nx g) in E. change (ny tg) with (ny g) in E.
  destruct (D2 F E) as [H|H]; [left|right; exact H]. rewrite NZ. destruct (nz g - kt)%nat as [|m] eqn:EM; [lia|].
  replace (S (S m) - 1)%nat with (S m) by lia. rewrite (has_trim g W kt i0 j0 KT Hi0 Hj0 SM B1 B2). replace (kt + m)%nat with (nz g - 1)%nat by lia. exact H.
Qed.
Lemma trim_ob obk : ob_ok obk g nm -> ob_ok obk tg nms.
Proof.
  destruct C as [C1 W C3 CU C4 C5 C6 C7 KT Hi0 Hj0 SM B1 B2 NS]. pose proof (nz_trim g W kt i0 j0 KT Hi0 Hj0 SM B1 B2) as NZ.
  intros [-> | ->]; [left; reflexivity|right]. rewrite NZ. cbn [sh]. replace (kt + (nz g - kt))%nat with (nz g) by lia. reflexivity.
Qed.

Variable heading : Qc -> Qc -> option (Qc * Qc).
Hypothesis HS : heading_spec heading.
Variable obk : option K.
Hypothesis OB : ob_ok obk g nm.
Variable rminact : bool.
Hypothesis RM : rm_ok rminact g.

(** rectgeo returns exactly the trimmed geometry *)
Lemma rectgeo_top_unreached_lemma fxp fx2 cn : cn_ok K g nm cn -> clear_of_defects fxp fx2 g ->
  rectgeo K keqb heading fxp fx2 (grid_of g nm cn) obk av rminact snap (gatm g) nm' = Ok (expected keqb tg nms nm').
Proof.
  intros CN D. rewrite trim_grid.
  exact (rectgeo_total_lemma K keqb tg nms nm' av snap trim_class heading HS obk (trim_ob obk OB) rminact RM fxp fx2 cn (trim_cn cn CN) (trim_clear fxp fx2 D)).
Qed.
(** in words: dx, dy, position, orientation and every column surface are those of the generating geometry;
    the layers above layer kt are gone, the layers below it are recovered, and the top layer gets the
    thickness (highest surface - bottom of layer kt) *)
Lemma rectgeo_top_unreached_fields_lemma fxp fx2 cn : cn_ok K g nm cn -> clear_of_defects fxp fx2 g ->
  exists r, rectgeo K keqb heading fxp fx2 (grid_of g nm cn) obk av rminact snap (gatm g) nm' = Ok r /\
    r_dx r = gdx g /\ r_dy r = gdy g /\
    r_dz r = (gsurf g i0 j0 - bot g kt) :: skipn kt (gdz g) /\
    r_pos r = PosAx (gox g) (goy g) (gax g) (gay g) /\ r_oz r = gsurf g i0 j0 /\
    (forall i j, (i < nx g)%nat -> (j < ny g)%nat -> list_surf (length (r_dx r)) (r_surf r) (r_oz r) i j = gsurf g i j).
Proof.
  intros CN D. eexists. split; [apply rectgeo_top_unreached_lemma; assumption|]. cbn [expected r_dx r_dy r_dz r_pos r_oz r_surf].
  repeat split. intros i j Hi Hj. apply (list_surf_colidx (gsurf g)); assumption.
Qed.
(** the regenerated grid is the ORIGINAL grid (names, volumes, centres, connections, order) *)
Lemma rectgeo_top_unreached_regenerates_lemma fxp fx2 cn r : cn_ok K g nm cn -> clear_of_defects fxp fx2 g ->
  rectgeo K keqb heading fxp fx2 (grid_of g nm cn) obk av rminact snap (gatm g) nm' = Ok r ->
  let f := fun c => apply_map K keqb (r_map r) (nm' c) in
  let g' := rebuilt r (gatm g) (gatmvol g) (gatmconn g) (gatmz g) in
  rect_blocks f g' = rect_blocks nm g /\ rect_conns f g' = rect_conns nm g.
Proof.
  intros CN D E. rewrite trim_grid in E.
  pose proof (rectgeo_blockmap_regenerates_lemma K keqb tg nms nm' av snap trim_class heading HS obk (trim_ob obk OB) rminact RM
                fxp fx2 cn r (trim_cn cn CN) (trim_clear fxp fx2 D) E) as R.
  cbv zeta in R |- *. destruct R as [R1 R2].
  destruct C as [C1 W C3 CU C4 C5 C6 C7 KT Hi0 Hj0 SM B1 B2 NS].
  rewrite (blocks_trim g W kt i0 j0 KT Hi0 Hj0 SM B1 B2 K nm), (conns_trim g W kt i0 j0 KT Hi0 Hj0 SM B1 B2 K nm).
  split; [exact R1|exact R2].
Qed.
End FT.
