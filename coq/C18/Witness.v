(** C18 -- the hypotheses of the theorems are satisfiable: concrete geometries in the class (one of
    them stepped, with atmosphere blocks), and concrete witnesses of the two recorded defects. *)
From Coq Require Import List Bool Arith ZArith QArith Qcanon Lia.
From PTBase Require Import Exn.
From P Require Import Rectgeo QcFacts GeoFacts ListFacts Forward Walk Track Origin Spacings Mapping Surface Main Regen Final Heading Trim FinalTrim FileSim FileGrid FinalFile.
Import ListNotations.
Open Scope Qc_scope.

Definition q (z : Z) : Qc := Q2Qc (inject_Z z).
Definition idn (c : cid) : cid := c.
Ltac qc_dec := first [ unfold Qclt; vm_compute; reflexivity | unfold Qcle; vm_compute; let X := fresh in intro X; discriminate X ].
Ltac small n := (* case analysis on a natural number bounded by a hypothesis *)
  repeat match goal with
         | H : (?i < _)%nat |- _ => is_var i; destruct i; cbn in H; try lia
         | H : (_ <= S ?i <= _)%nat |- _ => is_var i; destruct i; cbn in H; try lia
         end.

(** a stepped 2 x 2 x 3 geometry, rotated (x-axis along (4/5, -3/5)), with one atmosphere block per column
    (inactive: zero volume);
    column (0,0) reaches the top, (1,0) is truncated inside layer 1, (0,1) ends on the boundary of
    layers 2 and 3 (only its bottom block), (1,1) reaches above the top *)
Definition w1_surf (i j : nat) : Qc :=
  match i, j with
  | 0%nat, 0%nat => q 5 | 1%nat, 0%nat => Q2Qc (9 # 2) | 0%nat, 1%nat => q 2 | _, _ => q 6
  end.
Definition w1 : rgeo := mkRgeo (q 10) (q (-20)) (q 5) (Q2Qc (4 # 5)) (Q2Qc (-3 # 5)) [q 1; q 2] [q 3; q 1] [q 1; q 2; q 4] 1 0 (Q2Qc (1 # 1000)) (q 5) w1_surf.

Lemma w1_class : in_class cid_eqb w1 idn idn (q 1000) 0.
Proof.
  constructor.
  - exact cid_eqb_eq.
  - constructor; try (cbn; lia); try (repeat constructor; qc_dec); try qc_dec.
    intros i j Hi Hj. cbn in Hi, Hj. destruct i as [|[|i]]; destruct j as [|[|j]]; try lia; qc_dec.
  - left. cbn. lia.
  - apply Qc_is_canon. vm_compute. reflexivity.
  - intros a b _ _ E. exact E.
  - intros a b _ _ E. exact E.
  - intros k i j [Hk [Hi [Hj Hh]]]. cbn in Hk, Hi, Hj.
    destruct k as [|[|[|k]]]; try lia; destruct i as [|[|i]]; try lia; destruct j as [|[|j]]; try lia;
      first [ vm_compute in Hh; discriminate Hh | qc_dec ].
  - intros _. vm_compute. reflexivity.
  - intros i j _ _. apply nosnap_nonpos. apply Qcle_refl.
  - exists 0%nat, 0%nat. split; [cbn; lia|]. split; [cbn; lia|]. qc_dec.
Qed.
Lemma w1_clear : clear_of_defects false false w1.
Proof. split; [intros _; cbn; lia|]. intros _ [E|E]; cbn in E; lia. Qed.
(** ... on which the theorems apply (here with the canonical connection_name order) *)
Example w1_result :
  rectgeo cid cid_eqb heading_exact false false (grid_of w1 idn (cn_canonical cid_eqb w1 idn)) None (q 1000) false 0 1 idn = Ok (expected cid_eqb w1 idn idn).
Proof.
  exact (rectgeo_total_lemma cid cid_eqb w1 idn idn (q 1000) 0 w1_class heading_exact heading_exact_spec None (or_introl eq_refl) false ltac:(intro X; discriminate X) false false _ (cn_canonical_ok cid_eqb w1 idn cid_eqb_eq) w1_clear).
Qed.

(** a single block in direction 1 (the finding match_position:single-block-in-direction-1):
    dx = [4], dy = [2, 8], dz = [1, 2], flat, no atmosphere blocks *)
Definition w2 : rgeo := mkRgeo 0 0 0 1 0 [q 4] [q 2; q 8] [q 1; q 2] 2 0 0 0 (fun _ _ => 0).
Lemma w2_class : in_class cid_eqb w2 idn idn (q 1000) 0.
Proof.
  constructor.
  - exact cid_eqb_eq.
  - constructor; try (cbn; lia); try (repeat constructor; qc_dec); try qc_dec.
    intros i j Hi Hj. cbn in Hi, Hj. destruct i as [|i]; destruct j as [|[|j]]; try lia; qc_dec.
  - right. cbn. lia.
  - apply Qc_is_canon. vm_compute. reflexivity.
  - intros a b _ _ E. exact E.
  - intros a b _ _ E. exact E.
  - intros k i j [Hk [Hi [Hj Hh]]]. cbn in Hk, Hi, Hj.
    destruct k as [|[|k]]; try lia; destruct i as [|i]; try lia; destruct j as [|[|j]]; try lia; qc_dec.
  - intros X. exfalso. apply X. reflexivity.
  - intros i j _ _. apply nosnap_nonpos. apply Qcle_refl.
  - exists 0%nat, 0%nat. split; [cbn; lia|]. split; [cbn; lia|]. qc_dec.
Qed.
(** the code as it stands returns a NaN position on it (the spacings are still recovered) ... *)
Example w2_nan : exists r,
  rectgeo cid cid_eqb heading_exact false false (grid_of w2 idn (cn_canonical cid_eqb w2 idn)) None (q 1000) false 0 2 idn = Ok r /\ r_pos r = PosNaN.
Proof.
  destruct (single_block_direction_1_nan_lemma cid cid_eqb w2 idn idn (q 1000) 0 w2_class heading_exact heading_exact_spec None (or_introl eq_refl) false ltac:(intro X; discriminate X) false _
              (cn_canonical_ok cid_eqb w2 idn cid_eqb_eq) eq_refl) as [r [E [P _]]].
  - intros _. left. vm_compute. reflexivity.
  - exists r. auto.
Qed.
(** ... so the unguarded statement "the position is recovered for every geometry of the class" is refuted
    for the code as it stands, and holds for the repaired code *)
Example position_refuted_as_is : exists g, in_class cid_eqb g idn idn (q 1000) 0 /\
  forall r, rectgeo cid cid_eqb heading_exact false false (grid_of g idn (cn_canonical cid_eqb g idn)) None (q 1000) false 0 (gatm g) idn = Ok r ->
            r_pos r <> PosAx (gox g) (goy g) (gax g) (gay g).
Proof.
  exists w2. split; [exact w2_class|]. intros r E. destruct w2_nan as [r' [E' P']]. change (gatm w2) with 2%nat in E.
  rewrite E' in E. inversion E. subst. rewrite P'. discriminate.
Qed.
Example w2_repaired :
  rectgeo cid cid_eqb heading_exact true true (grid_of w2 idn (cn_canonical cid_eqb w2 idn)) None (q 1000) false 0 2 idn = Ok (expected cid_eqb w2 idn idn).
Proof.
  apply (rectgeo_total_lemma cid cid_eqb w2 idn idn (q 1000) 0 w2_class heading_exact heading_exact_spec None (or_introl eq_refl) false ltac:(intro X; discriminate X) true true _ (cn_canonical_ok cid_eqb w2 idn cid_eqb_eq)).
  split; intros X; discriminate X.
Qed.

(** a 2-D grid without atmosphere blocks whose origin column holds only its bottom block (the finding
    block_spacings:2d-no-atmosphere-origin-column-single-layer): dx = [2, 4, 8], dy = [16],
    dz = [1, 2, 4], surfaces [-3, 0, 0] *)
Definition w3_surf (i j : nat) : Qc := match i with 0%nat => q (-3) | _ => 0 end.
Definition w3 : rgeo := mkRgeo 0 0 0 1 0 [q 2; q 4; q 8] [q 16] [q 1; q 2; q 4] 2 0 0 0 w3_surf.
Lemma w3_class : in_class cid_eqb w3 idn idn (q 10000) 0.
Proof.
  constructor.
  - exact cid_eqb_eq.
  - constructor; try (cbn; lia); try (repeat constructor; qc_dec); try qc_dec.
    intros i j Hi Hj. cbn in Hi, Hj. destruct i as [|[|[|i]]]; destruct j as [|j]; try lia; qc_dec.
  - left. cbn. lia.
  - apply Qc_is_canon. vm_compute. reflexivity.
  - intros a b _ _ E. exact E.
  - intros a b _ _ E. exact E.
  - intros k i j [Hk [Hi [Hj Hh]]]. cbn in Hk, Hi, Hj.
    destruct k as [|[|[|k]]]; try lia; destruct i as [|[|[|i]]]; try lia; destruct j as [|j]; try lia;
      first [ vm_compute in Hh; discriminate Hh | qc_dec ].
  - intros X. exfalso. apply X. reflexivity.
  - intros i j _ _. apply nosnap_nonpos. apply Qcle_refl.
  - exists 1%nat, 0%nat. split; [cbn; lia|]. split; [cbn; lia|]. qc_dec.
Qed.
Example w3_indexerror :
  rectgeo cid cid_eqb heading_exact false false (grid_of w3 idn (cn_canonical cid_eqb w3 idn)) None (q 10000) false 0 2 idn = Raise IndexError.
Proof.
  apply (origin_column_2d_indexerror_lemma cid cid_eqb w3 idn idn (q 10000) 0 w3_class heading_exact heading_exact_spec None (or_introl eq_refl) false ltac:(intro X; discriminate X) false _ (cn_canonical_ok cid_eqb w3 idn cid_eqb_eq)).
  - right. reflexivity.
  - vm_compute. reflexivity.
  - cbn. lia.
Qed.
Example spacings_refuted_as_is : exists g, in_class cid_eqb g idn idn (q 10000) 0 /\
  forall r, rectgeo cid cid_eqb heading_exact false false (grid_of g idn (cn_canonical cid_eqb g idn)) None (q 10000) false 0 (gatm g) idn <> Ok r.
Proof. exists w3. split; [exact w3_class|]. intros r. change (gatm w3) with 2%nat. rewrite w3_indexerror. discriminate. Qed.
Example w3_repaired :
  rectgeo cid cid_eqb heading_exact false true (grid_of w3 idn (cn_canonical cid_eqb w3 idn)) None (q 10000) false 0 2 idn = Ok (expected cid_eqb w3 idn idn).
Proof.
  apply (rectgeo_total_lemma cid cid_eqb w3 idn idn (q 10000) 0 w3_class heading_exact heading_exact_spec None (or_introl eq_refl) false ltac:(intro X; discriminate X) false true _ (cn_canonical_ok cid_eqb w3 idn cid_eqb_eq)).
  split; [intros _; cbn; lia|intros X; discriminate X].
Qed.

(** no column reaches the top of layer 1: dx = [1, 2], dy = [3], dz = [1, 2, 4] from elevation 0; column 0 ends at -2
    (inside layer 2), column 1 at -3 (only its bottom block).  The highest surface lies in layer kt = 2. *)
Definition w4_surf (i j : nat) : Qc := match i with 0%nat => q (-2) | _ => q (-3) end.
Definition w4 : rgeo := mkRgeo (q 7) (q 9) 0 (Q2Qc (3 # 5)) (Q2Qc (4 # 5)) [q 1; q 2] [q 3] [q 1; q 2; q 4] 0 (q 0) (Q2Qc (1 # 1000)) 0 w4_surf.
Lemma w4_class : in_class_trunc cid_eqb w4 idn idn (q 1000) 0 2 0 0.
Proof.
  constructor.
  - exact cid_eqb_eq.
  - constructor; try (cbn; lia); try (repeat constructor; qc_dec); try qc_dec.
    intros i j Hi Hj. cbn in Hi, Hj. destruct i as [|[|i]]; destruct j as [|j]; try lia; qc_dec.
  - left. cbn. lia.
  - apply Qc_is_canon. vm_compute. reflexivity.
  - intros a b _ _ E. exact E.
  - intros a b _ _ E. exact E.
  - intros k i j [Hk [Hi [Hj Hh]]]. cbn in Hk, Hi, Hj.
    destruct k as [|[|[|k]]]; try lia; destruct i as [|[|i]]; try lia; destruct j as [|j]; try lia;
      first [ vm_compute in Hh; discriminate Hh | qc_dec ].
  - intros _. vm_compute. reflexivity.
  - cbn. lia.
  - cbn. lia.
  - cbn. lia.
  - intros i j Hi Hj. cbn in Hi, Hj. destruct i as [|[|i]]; destruct j as [|j]; try lia; qc_dec.
  - qc_dec.
  - qc_dec.
  - intros i j _ _. apply nosnap_nonpos. apply Qcle_refl.
Qed.
(** on it rectgeo returns the trimmed geometry: two layers, the top one 1 thick (= -2 - (-3)) instead of 2 *)
Example w4_result : exists r,
  rectgeo cid cid_eqb heading_exact true true (grid_of w4 idn (cn_canonical cid_eqb w4 idn)) None (q 1000) false 0 0 idn = Ok r /\
  r_dz r = [q 1; q 4] /\ r_oz r = q (-2) /\ r_dx r = [q 1; q 2].
Proof.
  destruct (rectgeo_top_unreached_fields_lemma cid cid_eqb w4 idn idn (q 1000) 0 2 0 0 w4_class heading_exact heading_exact_spec None
              (or_introl eq_refl) false ltac:(intro X; discriminate X) true true _ (cn_canonical_ok cid_eqb w4 idn cid_eqb_eq))
    as [r [E [A [B [Cz [P [O S]]]]]]].
  - split; intros X; discriminate X.
  - exists r. split; [exact E|]. rewrite Cz, O, A. split; [|split; reflexivity].
    cbn [w4 gdz skipn]. f_equal.
Qed.

(** the hypotheses of [rectgeo_after_data_file] are satisfiable: a flat 2 x 2 x 2 geometry whose numbers the file
    keeps apart (here even exactly) *)
Definition w5 : rgeo := mkRgeo (q 100) (q (-50)) (q 10) 1 0 [q 1; q 2] [q 3; q 1] [q 1; q 2] 2 0 0 (q 10) (fun _ _ => q 10).
Lemma w5_class : in_class cid_eqb w5 idn idn (q 1000) 0.
Proof.
  constructor.
  - exact cid_eqb_eq.
  - constructor; try (cbn; lia); try (repeat constructor; qc_dec); try qc_dec.
    intros i j Hi Hj. cbn in Hi, Hj. destruct i as [|[|i]]; destruct j as [|[|j]]; try lia; qc_dec.
  - left. cbn. lia.
  - apply Qc_is_canon. vm_compute. reflexivity.
  - intros a b _ _ E. exact E.
  - intros a b _ _ E. exact E.
  - intros k i j [Hk [Hi [Hj Hh]]]. cbn in Hk, Hi, Hj.
    destruct k as [|[|k]]; try lia; destruct i as [|[|i]]; try lia; destruct j as [|[|j]]; try lia; qc_dec.
  - intros X. exfalso. apply X. reflexivity.
  - intros i j _ _. apply nosnap_nonpos. apply Qcle_refl.
  - exists 0%nat, 0%nat. split; [cbn; lia|]. split; [cbn; lia|]. qc_dec.
Qed.
Notation w5_grid := (grid_of w5 idn (cn_canonical cid_eqb w5 idn)).
Lemma w5_blocks : blocks w5_grid = map (fun c => mk_block idn (cellof w5 c))
  [Cell 1 0 0; Cell 1 1 0; Cell 1 0 1; Cell 1 1 1; Cell 2 0 0; Cell 2 1 0; Cell 2 0 1; Cell 2 1 1].
Proof. reflexivity. Qed.
Lemma w5_vok : forall b, In b (blocks w5_grid) -> vol_ok (Some (q 1000)) (rnd 5 (bvol b)) = vol_ok (Some (q 1000)) (bvol b).
Proof.
  intros b Hb. rewrite w5_blocks in Hb. cbn [map In] in Hb.
  repeat (destruct Hb as [<-|Hb]; [vm_compute; reflexivity|]). destruct Hb.
Qed.
Lemma w5_mono : forall b b' z z', In b (blocks w5_grid) -> In b' (blocks w5_grid) -> elev cid None b = Some z -> elev cid None b' = Some z' ->
  qlt (rnd 4 z) (rnd 4 z') = qlt z z'.
Proof.
  intros b b' z z' Hb Hb' E E'. rewrite w5_blocks in Hb, Hb'. cbn [map In] in Hb, Hb'.
  repeat (destruct Hb as [<-|Hb]; [repeat (destruct Hb' as [<-|Hb']; [cbn in E, E'; inversion E; inversion E'; vm_compute; reflexivity|]); destruct Hb'|]).
  destruct Hb.
Qed.
Example w5_after_file : exists r,
  rectgeo cid cid_eqb heading_exact true true (file_grid cid w5_grid) None (q 1000) false 0 2 idn = Ok r /\
  r_dx r = [q 1; q 2] /\ r_dy r = [q 3; q 1] /\ r_dz r = [q 1; q 2].
Proof.
  destruct (rectgeo_after_data_file_lemma cid cid_eqb w5 idn idn (q 1000) 0 w5_class ltac:(cbn; lia) ltac:(cbn; lia) _
              (cn_canonical_ok cid_eqb w5 idn cid_eqb_eq) w5_vok w5_mono heading_exact) as [r [E [A [B C]]]].
  exists r. split; [exact E|]. rewrite A, B, C. repeat split; apply file_spacing_exact_lemma; intros d Hd; cbn in Hd;
    repeat (destruct Hd as [<-|Hd]; [apply Qc_is_canon; vm_compute; reflexivity|]); destruct Hd.
Qed.
