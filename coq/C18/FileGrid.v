(** C18 -- the grid after t2data.write / t2data(filename): every number goes through a fixed-format field.
    ELEME: volume '%10.4e' (5 significant digits), centre coordinates '%10.3e' (4 significant digits);
    CONNE: distances and area '%10.4e'.  [rnd d x] is x rounded to d significant decimal digits, half to
    even, exactly (over Q): what '%e' prints for the exact value of a double; reading the field back gives
    the double nearest to that decimal (the model keeps the decimal itself).  Names, directions, the order of
    blocks and connections and the connection_name sets are unchanged by the file. *)
From Coq Require Import List Bool Arith ZArith QArith Qcanon Lia.
From P Require Import Rectgeo.
Import ListNotations.
Open Scope Q_scope.

(** 10^e as a rational *)
Definition pow10 (e : Z) : Q := if (0 <=? e)%Z then inject_Z (10 ^ e) else / inject_Z (10 ^ (- e)).
(** bring a positive rational into [1, 10): returns (mantissa, decimal exponent) *)
Fixpoint normalise (fuel : nat) (x : Q) (e : Z) : Q * Z :=
  match fuel with
  | O => (x, e)
  | S f => if Qle_bool 10 x then normalise f (x / 10) (e + 1)%Z
           else if Qle_bool 1 x then (x, e) else normalise f (x * 10) (e - 1)%Z
  end.
(** round a non-negative rational to the nearest integer, half to even *)
Definition round_half_even (x : Q) : Z :=
  let n := Qnum (Qred x) in let d := Zpos (Qden (Qred x)) in
  let q := (n / d)%Z in let r := (n mod d)%Z in
  match (2 * r ?= d)%Z with
  | Lt => q
  | Gt => (q + 1)%Z
  | Eq => if Z.even q then q else (q + 1)%Z
  end.
Definition rnd_pos (d : nat) (x : Q) : Q :=
  let fuel := S (Z.to_nat (Z.log2 (Qnum x) + Z.log2 (Zpos (Qden x)) + 2)%Z) in
  let (m, e) := normalise fuel x 0 in
  let k := (Z.of_nat d - 1)%Z in
  inject_Z (round_half_even (m * pow10 k)) * pow10 (e - k)%Z.
Definition rnd (d : nat) (x : Qc) : Qc :=
  match Qnum x with
  | Z0 => x
  | Zpos _ => Q2Qc (rnd_pos d x)
  | Zneg _ => Q2Qc (- rnd_pos d (- x))
  end.

Section File.
Variable K : Type.
Definition file_block (b : block K) : block K :=
  mkBlock (bkey b) (rnd 5 (bvol b))
          (match bcen b with Some (x, y, z) => Some (rnd 4 x, rnd 4 y, rnd 4 z) | None => None end).
Definition file_conn (c : conn K) : conn K :=
  mkConn (ka c) (kb c) (kdir c) (rnd 5 (kda c)) (rnd 5 (kdb c)) (rnd 5 (karea c)) (kdcn c) (kdcr c).
Definition file_grid (g : grid K) : grid K := mkGrid (map file_block (blocks g)) (map file_conn (conns g)) (cnames g).
End File.

Example rnd_ex1 : this (rnd 4 (Q2Qc (123456 # 100))) = (1235 # 1)%Q. Proof. vm_compute. reflexivity. Qed.
Example rnd_ex2 : this (rnd 5 (Q2Qc (1 # 3))) = (33333 # 100000)%Q. Proof. vm_compute. reflexivity. Qed.
Example rnd_ex3 : this (rnd 4 (Q2Qc (-106250 # 1000))) = (-531 # 5)%Q. Proof. vm_compute. reflexivity. Qed.   (* -106.25 -> -106.2 (half to even) *)
Example rnd_ex4 : this (rnd 4 (Q2Qc (99996 # 10))) = (10000 # 1)%Q. Proof. vm_compute. reflexivity. Qed.
Example rnd_ex5 : this (rnd 5 (Q2Qc (10000000000000000000000000 # 1))) = (10000000000000000000000000 # 1)%Q. Proof. vm_compute. reflexivity. Qed.
