(** C18 -- "this still holds after the grid has been written to and re-read from a data file":
    rectgeo on the grid whose numbers went through the file's fixed-format fields (FileGrid.v; here any
    number-wise transformation fv / fd / fa / fxy / fz that keeps every volume on its side of the volume
    window and the order of the block elevations) returns the spacings [rs d = 2 * fd (d / 2)]: exactly the
    original spacing when d / 2 is representable in the file's digits, and within the relative accuracy of
    the field otherwise.  (3-D grids, the code as it stands, origin_block and remove_inactive not given.) *)
From Coq Require Import List Bool Arith ZArith QArith Qcanon Lia.
From PTBase Require Import Exn.
From P Require Import Rectgeo QcFacts GeoFacts ListFacts Forward Walk Track Origin Spacings Mapping Surface Main Final FileSim FileGrid.
Import ListNotations.
Open Scope Qc_scope.

Lemma last_of_map {A B} (f : A -> B) l x : last_of l = Some x -> last_of (map f l) = Some (f x).
Proof.
  unfold last_of. rewrite <- map_rev. destruct (rev l); [discriminate|]. intros E. inversion E. reflexivity.
Qed.
Lemma mapM_exists {A B} (f : A -> res B) l : (forall x, In x l -> exists y, f x = Ok y) -> exists ys, mapM f l = Ok ys /\ length ys = length l.
Proof.
  induction l as [|a l IH]; intros H; [exists []; split; reflexivity|]. destruct (H a (or_introl eq_refl)) as [y Ey].
  destruct IH as [ys [E L]]; [intros x Hx; apply H; right; exact Hx|]. exists (y :: ys). cbn [mapM]. rewrite Ey. cbn [bind]. rewrite E. cbn. split; [reflexivity|congruence].
Qed.
Lemma rm_scan_off K (l : list (block K)) : rm_scan K false false l = [].
Proof. induction l as [|b l IH]; [reflexivity|]. cbn [rm_scan orb andb app]. exact IH. Qed.

(** the accuracy of the recovered spacing follows from the accuracy of the distance field *)
Lemma rs_exact fd d : fd (d * half) = d * half -> rs fd d = d.
Proof. intros H. unfold rs. rewrite H. apply two_half. Qed.
Lemma rs_error fd eps d : d * half - eps * (d * half) <= fd (d * half) -> fd (d * half) <= d * half + eps * (d * half) ->
  d - eps * d <= rs fd d /\ rs fd d <= d + eps * d.
Proof. intros H1 H2. unfold rs. split; qc_lra. Qed.

Section FF.
Set Default Proof Using "All".
Variable K : Type.
Variable keqb : K -> K -> bool.
Hypothesis keqb_spec : forall a b, keqb a b = true <-> a = b.
Variable g : rgeo.
Hypothesis W : wf g.
Variable nm : cid -> K.
Hypothesis nm_inj : forall a b, latt g a -> latt g b -> nm a = nm b -> a = b.
Variable cn : K -> list (K * K).
Hypothesis CN : cn_ok K g nm cn.
Variable av : Qc.
Hypothesis ACT : forall k i j, present g (Cell (S k) i j) -> volume g (S k) i j < av.
Hypothesis INACT : gatm g <> 2%nat -> vol_ok (Some av) (gatmvol g) = false.
Variable nm' : cid -> K.
Hypothesis nm'_inj : forall a b, latt g a -> latt g b -> nm' a = nm' b -> a = b.
Variable heading : Qc -> Qc -> option (Qc * Qc).
Variable snap : Qc.
Variable i0 j0 : nat.
Hypothesis Hi0 : (i0 < nx g)%nat.
Hypothesis Hj0 : (j0 < ny g)%nat.
Hypothesis TOP : goz g <= gsurf g i0 j0.
Hypothesis NX : (2 <= nx g)%nat.
Hypothesis NY : (2 <= ny g)%nat.

Notation GG := (G K g nm cn).
Notation blk := (blk K g nm).
Notation obc := (Cell (nz g) 0 0).
Local Notation HY lem := (lem K keqb keqb_spec g W nm nm_inj cn CN av ACT INACT) (only parsing).
Local Notation HZ lem := (lem K keqb keqb_spec g W nm nm_inj cn CN av ACT INACT nm' nm'_inj) (only parsing).

(** the transformation of the numbers *)
Variables fv fd fa fxy fz : Qc -> Qc.
Hypothesis FD0 : fd 0 = 0.
(** every block stays on its side of the volume window 0 < V < atmos_volume *)
Hypothesis VOKG : forall b, In b (blocks GG) -> vol_ok (Some av) (fv (bvol b)) = vol_ok (Some av) (bvol b).
(** the order of the block elevations is kept (the digits of the file resolve the layers) *)
Hypothesis MONOG : forall b b' z z', In b (blocks GG) -> In b' (blocks GG) -> elev K None b = Some z -> elev K None b' = Some z' ->
  qlt (fz z) (fz z') = qlt z z'.

Notation rbb := (rb K fv fxy fz).
Notation RG := (rg K fv fd fa fxy fz GG).
Notation rss := (rs fd).
Local Notation TS mv vok := (track_sim K keqb fv fd fa fxy fz FD0 GG mv vok) (only parsing).

Lemma VOKN : forall b, In b (blocks GG) -> vol_ok None (fv (bvol b)) = vol_ok None (bvol b).
Proof. reflexivity. Qed.
Lemma blk_in c : present g c -> In (blk c) (blocks GG).
Proof. intros P. unfold G, rect_blocks, Walk.blk. cbn [blocks]. apply in_map. apply present_in_cells. exact P. Qed.
Lemma elev_some_none b z : elev K (Some av) b = Some z -> elev K None b = Some z.
Proof. unfold elev. destruct (bcen b) as [[[x y] z']|]; [|discriminate]. change (vol_ok None (bvol b)) with true. destruct (vol_ok (Some av) (bvol b)); [intros X; exact X|discriminate]. Qed.

Lemma origin_file : find_origin_block K RG = Some (rbb (blk obc)).
Proof.
  unfold find_origin_block. cbn [FileSim.rg blocks].
  pose proof (argbest_sim K keqb fv fd fa fxy fz FD0 GG None VOKN qlt MONOG (blocks GG) (incl_refl _) None (or_introl eq_refl)) as A.
  cbn [map_best] in A. rewrite A. fold (find_origin_block K GG). rewrite (HY origin_block). reflexivity.
Qed.
Lemma topmost_file : exists i j, (i < nx g)%nat /\ (j < ny g)%nat /\ goz g <= gsurf g i j /\ topmost_block K RG av = Some (rbb (blk (Cell 1 i j))).
Proof.
  destruct (HY topmost i0 j0 Hi0 Hj0 TOP) as [i [j [Hi [Hj [Hs ET]]]]]. exists i, j. repeat split; try assumption.
  unfold topmost_block. cbn [FileSim.rg blocks].
  assert (M : forall b b' z z', In b (blocks GG) -> In b' (blocks GG) -> elev K (Some av) b = Some z -> elev K (Some av) b' = Some z' ->
              (fun a b0 => qlt b0 a) (fz z) (fz z') = (fun a b0 => qlt b0 a) z z').
  { intros b b' z z' Hb Hb' E E'. apply (MONOG b' b z' z Hb' Hb (elev_some_none _ _ E') (elev_some_none _ _ E)). }
  pose proof (argbest_sim K keqb fv fd fa fxy fz FD0 GG (Some av) VOKG (fun a b => qlt b a) M (blocks GG) (incl_refl _) None (or_introl eq_refl)) as A.
  cbn [map_best] in A. rewrite A. fold (topmost_block K GG av). rewrite ET. reflexivity.
Qed.
Lemma cen_z_file k i j : (1 <= k)%nat -> cen_z K (rbb (blk (Cell k i j))) = Ok (fz (zc g k i j)).
Proof. intros Hk. destruct k; [lia|]. reflexivity. Qed.
Lemma elev_none_rock k i j : (1 <= k)%nat -> elev K None (blk (Cell k i j)) = Some (zc g k i j).
Proof. intros Hk. destruct k; [lia|]. reflexivity. Qed.

Lemma block_spacings_file : block_spacings K keqb true RG (rbb (blk obc)) av = Ok (map rss (gdx g), map rss (gdy g), map rss (gdz g)).
Proof.
  pose proof (wf_nz g W) as NZ. assert (OB := HY ob_present). assert (OBI := blk_in obc OB).
  unfold block_spacings.
  rewrite (TS (Some av) VOKG (fuel_of K RG) 1%nat (blk obc) None None OBI).
  assert (FU : fuel_of K RG = fuel_of K GG) by (unfold fuel_of; cbn [FileSim.rg blocks]; rewrite map_length; reflexivity).
  rewrite FU. rewrite (HY track1_start (Some av) (or_intror eq_refl) 0%nat ltac:(lia) (fuel_of K GG) (HY fuel_nx)). cbn [map_track bind].
  rewrite (TS (Some av) VOKG (fuel_of K GG) 2%nat (blk obc) None None OBI).
  rewrite (HY track2_start (Some av) (or_intror eq_refl) 0%nat ltac:(lia) (fuel_of K GG) (HY fuel_ny)). cbn [map_track bind].
  destruct topmost_file as [i [j [Hi [Hj [Hs ET]]]]]. rewrite ET.
  assert (P1 := HY present_1 i j Hi Hj Hs).
  rewrite (TS (Some av) VOKG (fuel_of K GG) 3%nat (blk (Cell 1 i j)) None None (blk_in _ P1)).
  rewrite (HY track3_down_start i j Hi Hj (fuel_of K GG) (HY fuel_nz i j Hi Hj Hs) Hs). cbn [map_track bind fst snd].
  set (L := map blk (map (fun k => Cell k i j) (seq 1 (nz g)))).
  assert (EL : exists rest, L = blk (Cell 1 i j) :: rest).
  { unfold L. destruct (nz g) as [|m]; [lia|]. cbn [seq map]. eexists. reflexivity. }
  assert (LL : last_of L = Some (blk (Cell (nz g) i j))).
  { unfold L. rewrite map_map. destruct (nz g) as [|m] eqn:EM; [lia|]. rewrite last_of_map_seq. replace (1 + m)%nat with (S m) by lia. reflexivity. }
  rewrite (last_of_map rbb L _ LL). destruct EL as [rest EL]. rewrite EL. cbn [map].
  rewrite (cen_z_file 1 i j ltac:(lia)), (cen_z_file (nz g) i j ltac:(lia)). cbn [bind].
  assert (PN : present g (Cell (nz g) i j)) by (apply rock_present; try lia; auto; apply has_bottom; assumption).
  rewrite (MONOG (blk (Cell 1 i j)) (blk (Cell (nz g) i j)) _ _ (blk_in _ P1) (blk_in _ PN) (elev_none_rock 1 i j ltac:(lia)) (elev_none_rock (nz g) i j ltac:(lia))).
  assert (Q : qlt (zc g 1 i j) (zc g (nz g) i j) = false).
  { rewrite (HY zc1_reach i j Hi Hj Hs). rewrite (HY zc_bottom i j Hi Hj).
    pose proof (lcen_lt_top g W (nz g) ltac:(lia)) as A. pose proof (top_le_bot g W 1 (nz g) ltac:(lia) ltac:(lia)) as B.
    pose proof (bot_lt_lcen g W 1 ltac:(lia)) as C. qc_lra. }
  rewrite Q. rewrite (HY thick_list), (HY dx_list), (HY dy_list).
  replace (nx g =? 1)%nat with false by (symmetry; apply Nat.eqb_neq; lia).
  replace (ny g =? 1)%nat with false by (symmetry; apply Nat.eqb_neq; lia).
  unfold spacings_2d. rewrite !map_length.
  replace (length (gdx g) =? 0)%nat with false by (symmetry; apply Nat.eqb_neq; unfold nx in NX; lia).
  replace (length (gdy g) =? 0)%nat with false by (symmetry; apply Nat.eqb_neq; unfold ny in NY; lia).
  replace (length (gdz g) =? 0)%nat with false by (symmetry; apply Nat.eqb_neq; unfold nz in NZ; lia).
  reflexivity.
Qed.

Lemma bcen_rock' k i j : (1 <= k)%nat -> bcen (blk (Cell k i j)) = Some (px g i j, py g i j, zc g k i j).
Proof. intros Hk. destruct k; [lia|]. reflexivity. Qed.
Lemma required_file :
  forallb (fun b => negb (vol_ok (Some av) (bvol b)) || match bcen b with Some _ => true | None => false end) (blocks RG) = true.
Proof.
  apply forallb_forall. intros b Hb. cbn [FileSim.rg blocks] in Hb. apply in_map_iff in Hb. destruct Hb as [b0 [<- Hb0]].
  cbn [FileSim.rb bvol bcen]. rewrite (VOKG b0 Hb0).
  unfold G, rect_blocks in Hb0. cbn [blocks] in Hb0. apply in_map_iff in Hb0. destruct Hb0 as [c [<- Hc]].
  apply in_cells_iff in Hc. destruct Hc as [P E]. rewrite E.
  destruct (cc c) as [|[|k] i j]; cbn [mk_block bvol bcen cellof rock_cell cvol ccen option_map].
  - cbn [present] in P. rewrite INACT by (rewrite P; discriminate). reflexivity.
  - apply orb_true_r.
  - apply orb_true_r.
Qed.
Lemma fuel_file : fuel_of K RG = fuel_of K GG.
Proof. unfold fuel_of. cbn [FileSim.rg blocks]. rewrite map_length. reflexivity. Qed.

Lemma match_position_file s1 s2 s3 : exists pos tz, match_position K keqb heading true RG (rbb (blk obc)) s1 s2 s3 = Ok (pos, tz).
Proof.
  pose proof (wf_nz g W) as NZ. assert (OB := HY ob_present). assert (OBI := blk_in obc OB).
  unfold match_position. rewrite fuel_file.
  rewrite (TS None VOKN (fuel_of K GG) 1%nat (blk obc) None None OBI).
  rewrite (HY track1_start None (or_introl eq_refl) 0%nat ltac:(lia) (fuel_of K GG) (HY fuel_nx)). cbn [map_track bind fst].
  rewrite !map_length, seq_length. replace (nx g <=? 1)%nat with false by (symmetry; apply Nat.leb_gt; lia). cbn [andb bind fst].
  cbn [FileSim.rb bcen]. rewrite (bcen_rock' (nz g) 0 0 ltac:(lia)). cbn [option_map fc].
  assert (LL : last_of (map blk (map (fun i' => Cell (nz g) i' 0%nat) (seq 0 (nx g)))) = Some (blk (Cell (nz g) (nx g - 1) 0))).
  { rewrite map_map. destruct (nx g) as [|m] eqn:EM; [lia|]. rewrite last_of_map_seq. cbn [Nat.add]. replace (S m - 1)%nat with m by lia. reflexivity. }
  rewrite (last_of_map rbb _ _ LL). cbn [FileSim.rb bcen]. rewrite (bcen_rock' (nz g) (nx g - 1) 0 ltac:(lia)). cbn [option_map fc].
  eexists. eexists. reflexivity.
Qed.

Lemma filter_nokeys' (l : list (block K)) : filter (fun b => key_in K keqb (bkey b) []) l = [].
Proof. induction l as [|a l IH]; [reflexivity|]. cbn [filter key_in existsb]. exact IH. Qed.

Lemma find_col_surface_file (g1 : rgeo) i j : nz g1 = nz g -> (i < nx g)%nat -> (j < ny g)%nat ->
  exists s, find_col_surface K keqb RG g1 (full_log K g nm nm') av nm' [] (i, j) = Ok s.
Proof.
  intros EN Hi Hj. pose proof (wf_nz g W) as NZ. unfold find_col_surface. rewrite EN.
  assert (PB : present g (Cell (nz g) i j)) by (apply rock_present; try lia; auto; apply has_bottom; assumption).
  rewrite (HZ full_log_lookup (Cell (nz g) i j) PB).
  rewrite (find_block_sim K keqb fv fd fa fxy fz FD0 GG). rewrite (find_block_present K keqb keqb_spec g nm nm_inj cn CN (Cell (nz g) i j) PB).
  cbn [option_map]. change (mk_block nm (cellof g (Cell (nz g) i j))) with (blk (Cell (nz g) i j)). rewrite fuel_file.
  rewrite (TS (Some av) VOKG (fuel_of K GG) 3%nat (blk (Cell (nz g) i j)) None None (blk_in _ PB)).
  destruct (HY track3_up_start i j Hi Hj (fuel_of K GG) (HY fuel_nz i0 j0 Hi0 Hj0 TOP)) as [bl [sz [T [LB LS]]]].
  rewrite T. cbn [map_track bind fst snd]. rewrite (last_of_map rbb _ _ LB). rewrite filter_nokeys'. cbn [remove_all bind fst snd].
  rewrite (last_of_map rbb _ _ LB).
  destruct (HY ktop_from_spec i j (nz g) ltac:(lia) ltac:(apply has_bottom; assumption)) as [KT [HT TT]]. fold (ktop g i j) in KT, HT, TT.
  rewrite (cen_z_file (ktop g i j) i j ltac:(lia)). cbn [bind].
  assert (PT : present g (Cell (ktop g i j) i j)) by (apply rock_present; auto; lia).
  assert (VT : vol_ok (Some av) (bvol (rbb (blk (Cell (ktop g i j) i j)))) = true).
  { cbn [FileSim.rb bvol]. rewrite (VOKG _ (blk_in _ PT)). destruct (ktop g i j) as [|k]; [lia|].
    apply (HY volok_rock (Some av) k i j (or_intror eq_refl) PT). }
  cbn [vol_ok] in VT. apply andb_prop in VT. destruct VT as [VT _]. rewrite VT.
  match goal with |- exists s, (if ?c then _ else _) = _ => destruct c end; eexists; reflexivity.
Qed.

Lemma finish_file pos tz s1 s2 s3 : length s1 = nx g -> length s2 = ny g -> length s3 = nz g ->
  exists r, finish K keqb RG av snap (gatm g) nm' [] s1 s2 s3 (full_log K g nm nm') pos tz = Ok r /\
            r_dx r = s1 /\ r_dy r = s2 /\ r_dz r = s3.
Proof.
  intros L1 L2 L3. unfold finish. cbv zeta.
  set (g1 := mkRgeo (pos_x pos) (pos_y pos) tz (pos_ax pos) (pos_ay pos) s1 s2 s3 (gatm g) 0 0 tz (fun _ _ => tz)).
  destruct (mapM_exists (find_col_surface K keqb RG g1 (full_log K g nm nm') av nm' []) (colidx (nx g1) (ny g1))) as [surf [E _]].
  - intros [i j] Hin. apply in_colidx in Hin. unfold g1, nx, ny in Hin. cbn [gdx gdy] in Hin. rewrite L1, L2 in Hin.
    apply find_col_surface_file; [exact L3|tauto|tauto].
  - rewrite E. cbn [bind]. eexists. split; [reflexivity|]. cbn [r_dx r_dy r_dz]. auto.
Qed.

(** rectgeo on the file grid: it returns a geometry whose spacings are the file-rounded originals *)
Theorem rectgeo_file_spacings_lemma : exists r,
  rectgeo K keqb heading true true RG None av false snap (gatm g) nm' = Ok r /\
  r_dx r = map rss (gdx g) /\ r_dy r = map rss (gdy g) /\ r_dz r = map rss (gdz g).
Proof.
  unfold rectgeo. rewrite required_file. cbn [negb]. rewrite origin_file. cbn [bind].
  rewrite block_spacings_file. cbn [bind]. rewrite !map_length.
  change (length (gdx g)) with (nx g). change (length (gdy g)) with (ny g). change (length (gdz g)) with (nz g).
  rewrite (block_mapping_sim K keqb fv fd fa fxy fz FD0 GG av VOKG (blk obc) (nx g) (ny g) (nz g) (gatm g) nm' (blk_in _ (HY ob_present))).
  rewrite (HZ block_mapping_ok). cbn [bind].
  destruct (match_position_file (map rss (gdx g)) (map rss (gdy g)) (map rss (gdz g))) as [pos [tz EM]]. rewrite EM. cbn [bind fst snd].
  unfold remove_blocks. rewrite rm_scan_off.
  apply finish_file; rewrite map_length; reflexivity.
Qed.
End FF.

(** ** the data file itself: volumes, distances, areas with 5 significant digits, centres with 4 *)
Lemma file_grid_is_rg K (g : grid K) : file_grid K g = rg K (rnd 5) (rnd 5) (rnd 5) (rnd 4) (rnd 4) g.
Proof.
  unfold file_grid, rg. f_equal. apply map_ext. intros b. unfold file_block, rb. f_equal.
  destruct (bcen b) as [[[x y] z]|]; reflexivity.
Qed.
Lemma rnd_zero d : rnd d 0 = 0.
Proof. reflexivity. Qed.

Definition file_spacing (d : Qc) : Qc := rs (rnd 5) d.      (* 2 * (d / 2 rounded to 5 significant digits) *)

Lemma rectgeo_after_data_file_lemma K keqb g (nm nm' : cid -> K) av snap : in_class keqb g nm nm' av snap ->
  (2 <= nx g)%nat -> (2 <= ny g)%nat ->
  forall cn, cn_ok K g nm cn ->
  (forall b, In b (blocks (grid_of g nm cn)) -> vol_ok (Some av) (rnd 5 (bvol b)) = vol_ok (Some av) (bvol b)) ->
  (forall b b' z z', In b (blocks (grid_of g nm cn)) -> In b' (blocks (grid_of g nm cn)) -> elev K None b = Some z -> elev K None b' = Some z' ->
     qlt (rnd 4 z) (rnd 4 z') = qlt z z') ->
  forall heading, exists r,
    rectgeo K keqb heading true true (file_grid K (grid_of g nm cn)) None av false snap (gatm g) nm' = Ok r /\
    r_dx r = map file_spacing (gdx g) /\ r_dy r = map file_spacing (gdy g) /\ r_dz r = map file_spacing (gdz g).
Proof.
  intros C NX NY cn CN VOK MONO heading. destruct C as [C1 C2 C3 CU C4 C5 C6 C7 C8 [i0 [j0 [Hi [Hj HT]]]]].
  rewrite file_grid_is_rg.
  exact (rectgeo_file_spacings_lemma K keqb C1 g C2 nm C4 cn CN av C6 C7 nm' C5 heading snap i0 j0 Hi Hj HT NX NY
           (rnd 5) (rnd 5) (rnd 5) (rnd 4) (rnd 4) (rnd_zero 5) VOK MONO).
Qed.
(** exactly the original spacings when their halves are representable with 5 significant digits *)
Lemma file_spacing_exact_lemma (l : list Qc) : (forall d, In d l -> rnd 5 (d * half) = d * half) -> map file_spacing l = l.
Proof.
  intros H. rewrite <- (map_id l) at 2. apply map_ext_in. intros d Hd. apply rs_exact. apply H. exact Hd.
Qed.
(** and within the relative accuracy eps of the '%10.4e' field otherwise *)
Lemma file_spacing_error_lemma eps d :
  d * half - eps * (d * half) <= rnd 5 (d * half) -> rnd 5 (d * half) <= d * half + eps * (d * half) ->
  d - eps * d <= file_spacing d /\ file_spacing d <= d + eps * d.
Proof. apply rs_error. Qed.
