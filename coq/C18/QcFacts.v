(** C18 -- facts about the exact numbers of the model (canonical rationals Qc):
    boolean comparisons, a bridge to [lra] over Q, sums of spacing lists. *)
From Coq Require Import List Bool Arith ZArith QArith Qcanon Lia Lqa.
From P Require Import Rectgeo.
Import ListNotations.
Open Scope Qc_scope.

(** * comparisons *)
Lemma qle_spec a b : qle a b = true <-> a <= b.
Proof. unfold qle, Qcle. apply Qle_bool_iff. Qed.
Lemma qlt_spec a b : qlt a b = true <-> a < b.
Proof.
  unfold qlt, Qclt. rewrite negb_true_iff. split; intro H.
  - apply Qnot_le_lt. intro L. apply Qle_bool_iff in L. congruence.
  - destruct (Qle_bool b a) eqn:E; auto. apply Qle_bool_iff in E. exfalso. revert E. apply Qlt_not_le. exact H.
Qed.
Lemma qle_false a b : qle a b = false <-> b < a.
Proof.
  rewrite <- qlt_spec. unfold qlt, qle. destruct (Qle_bool a b); cbn; split; congruence.
Qed.
Lemma qlt_false a b : qlt a b = false <-> b <= a.
Proof.
  rewrite <- qle_spec. unfold qlt, qle. destruct (Qle_bool b a); cbn; split; congruence.
Qed.

(** * bridge to Q *)
Lemma this_plus a b : (this (a + b) == this a + this b)%Q.
Proof. unfold Qcplus, Q2Qc. cbn [this]. apply Qred_correct. Qed.
Lemma this_mult a b : (this (a * b) == this a * this b)%Q.
Proof. unfold Qcmult, Q2Qc. cbn [this]. apply Qred_correct. Qed.
Lemma this_opp a : (this (- a) == - this a)%Q.
Proof. unfold Qcopp, Q2Qc. cbn [this]. apply Qred_correct. Qed.
Lemma this_minus a b : (this (a - b) == this a - this b)%Q.
Proof. unfold Qcminus. rewrite this_plus, this_opp. reflexivity. Qed.
Lemma this_half : (this half == 1 # 2)%Q.
Proof. reflexivity. Qed.
Lemma this_two : (this two == 2)%Q.
Proof. reflexivity. Qed.
Lemma this_0 : (this 0 == 0)%Q.
Proof. reflexivity. Qed.
Lemma this_1 : (this 1 == 1)%Q.
Proof. reflexivity. Qed.
Lemma Qc_eq_this a b : (this a == this b)%Q -> a = b.
Proof. apply Qc_is_canon. Qed.

(** translate the order facts and the goal to Q and call [lra] (atoms: [this x] of opaque terms) *)
Ltac q_push_hyp H :=
  repeat first [ rewrite this_plus in H | rewrite this_minus in H | rewrite this_mult in H | rewrite this_opp in H
               | rewrite this_half in H | rewrite this_two in H | rewrite this_0 in H | rewrite this_1 in H ].
Ltac q_push_goal :=
  repeat first [ rewrite this_plus | rewrite this_minus | rewrite this_mult | rewrite this_opp
               | rewrite this_half | rewrite this_two | rewrite this_0 | rewrite this_1 ].
Ltac qc_lra :=
  repeat match goal with
         | H : ?a = ?b :> Qc |- _ => apply (f_equal this) in H; let H' := fresh in assert (H' : (this a == this b)%Q) by (rewrite H; reflexivity); clear H
         | H : qle _ _ = true |- _ => apply qle_spec in H
         | H : qlt _ _ = true |- _ => apply qlt_spec in H
         | H : qle _ _ = false |- _ => apply qle_false in H
         | H : qlt _ _ = false |- _ => apply qlt_false in H
         end;
  try match goal with
      | |- qle _ _ = true => apply qle_spec
      | |- qlt _ _ = true => apply qlt_spec
      | |- qle _ _ = false => apply qle_false
      | |- qlt _ _ = false => apply qlt_false
      | |- _ = _ :> Qc => apply Qc_eq_this
      end;
  unfold Qclt, Qcle in *;
  repeat match goal with
         | H : (_ < _)%Q |- _ => progress q_push_hyp H
         | H : (_ <= _)%Q |- _ => progress q_push_hyp H
         | H : (_ == _)%Q |- _ => progress q_push_hyp H
         end;
  q_push_goal; lra.

Lemma qmul_pos a b : 0 < a -> 0 < b -> 0 < a * b.
Proof.
  unfold Qclt. intros Ha Hb. rewrite this_mult. rewrite this_0 in *.
  apply Qmult_lt_0_compat; assumption.
Qed.
Lemma qmul_le_mono_r a b c : 0 <= c -> a <= b -> a * c <= b * c.
Proof.
  unfold Qcle. intros Hc Hab. rewrite !this_mult. rewrite this_0 in Hc. apply Qmult_le_compat_r; assumption.
Qed.
Lemma qpos_ne0 (x : Qc) : 0 < x -> x <> 0.
Proof. intros H E. rewrite E in H. apply (Qclt_not_le _ _ H). apply Qcle_refl. Qed.
Lemma two_half x : two * (x * half) = x.
Proof. qc_lra. Qed.
Lemma half_ne0 : half <> 0.
Proof. intro H. apply (f_equal this) in H. discriminate H. Qed.

(** * sums of spacing lists *)
Lemma qsum_firstn_S l k : (k < length l)%nat -> qsum (firstn (S k) l) = qsum (firstn k l) + nth k l 0.
Proof.
  revert l. induction k as [|k IH]; intros [|a l] Hk; cbn [length] in Hk; try lia.
  - cbn. ring.
  - change (firstn (S (S k)) (a :: l)) with (a :: firstn (S k) l).
    change (firstn (S k) (a :: l)) with (a :: firstn k l). cbn [qsum nth].
    rewrite IH by lia. ring.
Qed.
Lemma qsum_firstn_all l : qsum (firstn (length l) l) = qsum l.
Proof. rewrite firstn_all. reflexivity. Qed.
Lemma Forall_nth_pos l k : Forall (fun d => 0 < d) l -> (k < length l)%nat -> 0 < nth k l 0.
Proof. intros F Hk. rewrite Forall_forall in F. apply F. apply nth_In. exact Hk. Qed.
Lemma qsum_firstn_mono l k m : Forall (fun d => 0 < d) l -> (k <= m)%nat -> (m <= length l)%nat ->
  qsum (firstn k l) <= qsum (firstn m l).
Proof.
  intros F Hkm Hm. induction Hkm as [|m Hkm IH].
  - apply Qcle_refl.
  - rewrite qsum_firstn_S by lia. pose proof (Forall_nth_pos l m F ltac:(lia)) as P.
    specialize (IH ltac:(lia)). qc_lra.
Qed.
Lemma qsum_firstn_strict l k m : Forall (fun d => 0 < d) l -> (k < m)%nat -> (m <= length l)%nat ->
  qsum (firstn k l) < qsum (firstn m l).
Proof.
  intros F Hkm Hm. pose proof (qsum_firstn_mono l (S k) m F ltac:(lia) Hm) as M.
  rewrite qsum_firstn_S in M by lia. pose proof (Forall_nth_pos l k F ltac:(lia)) as P. qc_lra.
Qed.
