(** C18 -- accuracy of the fixed-format rounding [rnd] of FileGrid.v: the integer rounding is within 1/2, hence
    [rnd_pos d x] is within half a unit of the last kept digit of the normalised mantissa, hence (when the
    mantissa found by [normalise] is >= 1) within 10^(1-d)/2 of x relatively: 5e-5 for the 5-digit fields. *)
From Coq Require Import List Bool Arith ZArith QArith Qcanon Qabs Qpower Lia Lqa.
From P Require Import Rectgeo FileGrid.
Open Scope Q_scope.

Lemma round_half_even_Z (n : Z) (d : positive) :
  let q := (n / Zpos d)%Z in let r := (n mod Zpos d)%Z in
  forall z, z = match (2 * r ?= Zpos d)%Z with Lt => q | Gt => (q + 1)%Z | Eq => if Z.even q then q else (q + 1)%Z end ->
  (2 * Z.abs (z * Zpos d - n) <= Zpos d)%Z.
Proof.
  intros q r z Hz.
  assert (Hn : (n = Zpos d * q + r)%Z) by (apply Z.div_mod; lia).
  assert (Hr : (0 <= r < Zpos d)%Z) by (apply Z.mod_pos_bound; lia).
  destruct (Z.compare_spec (2 * r) (Zpos d)) as [E|E|E]; [destruct (Z.even q)|..]; subst z; nia.
Qed.

Lemma round_half_even_error_lemma (x : Q) : Qabs (inject_Z (round_half_even x) - x) <= 1 # 2.
Proof.
  assert (Hx : x == Qred x) by (symmetry; apply Qred_correct).
  rewrite Hx at 2. unfold round_half_even.
  destruct (Qred x) as [n d]. cbn [Qnum Qden].
  set (z := match (2 * (n mod Zpos d) ?= Zpos d)%Z with Lt => (n / Zpos d)%Z | Gt => (n / Zpos d + 1)%Z
            | Eq => if Z.even (n / Zpos d) then (n / Zpos d)%Z else (n / Zpos d + 1)%Z end).
  pose proof (round_half_even_Z n d z eq_refl) as H.
  apply Qabs_Qle_condition. unfold Qle, Qminus, Qplus, Qopp, inject_Z; cbn. split; nia.
Qed.

Lemma pow10_pos e : 0 < pow10 e.
Proof.
  unfold pow10. destruct (0 <=? e)%Z eqn:E.
  - apply Z.leb_le in E. unfold Qlt; cbn. pose proof (Z.pow_pos_nonneg 10 e). lia.
  - apply Z.leb_gt in E. apply Qinv_lt_0_compat. unfold Qlt; cbn. pose proof (Z.pow_pos_nonneg 10 (- e)). lia.
Qed.

Definition rnd_fuel (x : Q) : nat := S (Z.to_nat (Z.log2 (Qnum x) + Z.log2 (Zpos (Qden x)) + 2)%Z).

Lemma rnd_pos_half_ulp_lemma (d : nat) (x : Q) (m : Q) (e : Z) :
  normalise (rnd_fuel x) x 0 = (m, e) ->
  Qabs (rnd_pos d x - (m * pow10 (Z.of_nat d - 1)) * pow10 (e - (Z.of_nat d - 1))) <= (1 # 2) * pow10 (e - (Z.of_nat d - 1)).
Proof.
  intros E. unfold rnd_pos. fold (rnd_fuel x). rewrite E.
  set (u := pow10 (e - (Z.of_nat d - 1))). set (y := m * pow10 (Z.of_nat d - 1)).
  pose proof (round_half_even_error_lemma y) as H. pose proof (pow10_pos (e - (Z.of_nat d - 1))) as Hu. fold u in Hu. clearbody u y.
  setoid_replace (inject_Z (round_half_even y) * u - y * u) with ((inject_Z (round_half_even y) - y) * u) by ring.
  assert (Hau : Qabs u == u) by (apply Qabs_pos; lra).
  rewrite Qabs_Qmult, Hau.
  apply Qmult_le_compat_r; lra.
Qed.

(** ** value kept by [normalise]; relative accuracy *)
Lemma pow10_Qpower e : pow10 e == (10 # 1) ^ e.
Proof.
  unfold pow10. destruct (0 <=? e)%Z eqn:E.
  - apply Z.leb_le in E. rewrite Zpower_Qpower by assumption. reflexivity.
  - apply Z.leb_gt in E. rewrite Zpower_Qpower by lia. change (inject_Z 10) with (10 # 1).
    rewrite <- Qpower_opp. rewrite Z.opp_involutive. reflexivity.
Qed.
Lemma pow10_add a b : pow10 (a + b) == pow10 a * pow10 b.
Proof. rewrite !pow10_Qpower. apply Qpower_plus. discriminate. Qed.
Lemma pow10_0 : pow10 0 == 1. Proof. reflexivity. Qed.
Lemma pow10_1 : pow10 1 == 10. Proof. reflexivity. Qed.
Lemma pow10_m1 : pow10 (-1) == 1 # 10. Proof. reflexivity. Qed.

Lemma normalise_value fuel : forall x e m e', normalise fuel x e = (m, e') -> m * pow10 e' == x * pow10 e.
Proof.
  induction fuel as [|f IH]; intros x e m e' H; cbn in H.
  - inversion H; subst. reflexivity.
  - destruct (Qle_bool 10 x).
    + apply IH in H. rewrite H, pow10_add, pow10_1. field.
    + destruct (Qle_bool 1 x).
      * inversion H; subst. reflexivity.
      * apply IH in H. rewrite H. unfold Z.sub. rewrite pow10_add, pow10_m1. field.
Qed.

Lemma rnd_pos_relative_error_lemma (d : nat) (x m : Q) (e : Z) :
  normalise (rnd_fuel x) x 0 = (m, e) -> 1 <= m ->
  Qabs (rnd_pos d x - x) <= (1 # 2) * pow10 (1 - Z.of_nat d) * x.
Proof.
  intros E Hm. pose proof (rnd_pos_half_ulp_lemma d x m e E) as H.
  pose proof (normalise_value _ _ _ _ _ E) as V. rewrite pow10_0 in V.
  set (k := (Z.of_nat d - 1)%Z) in *.
  assert (Hk : pow10 k * pow10 (e - k) == pow10 e) by (rewrite <- pow10_add; replace (k + (e - k))%Z with e by lia; reflexivity).
  assert (Hu : pow10 (e - k) == pow10 (1 - Z.of_nat d) * pow10 e)
    by (rewrite <- pow10_add; replace (1 - Z.of_nat d + e)%Z with (e - k)%Z by lia; reflexivity).
  assert (Hx : m * pow10 k * pow10 (e - k) == x) by (rewrite <- Qmult_assoc, Hk; lra).
  rewrite Hx in H. eapply Qle_trans; [exact H|].
  rewrite Hu. pose proof (pow10_pos e) as Pe. pose proof (pow10_pos (1 - Z.of_nat d)) as Pd.
  assert (V' : x == m * pow10 e) by lra.
  assert (pow10 e <= x) by (rewrite V'; setoid_replace (pow10 e) with (1 * pow10 e) at 1 by ring; apply Qmult_le_compat_r; lra).
  rewrite <- !Qmult_assoc. apply Qmult_le_l; [lra|]. apply Qmult_le_l; [lra|]. assumption.
Qed.
