(** C18 -- rectgeo on a grid whose numbers went through a data file (or any other number-wise
    transformation that keeps names, directions, order and the connection_name sets): a simulation.
    [fv fd fa]: what happens to volumes, distances, areas; [fc]: to block centres.  The walks visit the same
    blocks; every size 2 * distance becomes [rs s = 2 * fd (s / 2)]. *)
From Coq Require Import List Bool Arith ZArith QArith Qcanon Lia.
From PTBase Require Import Exn.
From P Require Import Rectgeo QcFacts ListFacts.
Import ListNotations.
Open Scope Qc_scope.

Section Sim.
Set Default Proof Using "All".
Variable K : Type.
Variable keqb : K -> K -> bool.
Variables fv fd fa : Qc -> Qc.
Variables fxy fz : Qc -> Qc.
Definition fc (c : Qc * Qc * Qc) : Qc * Qc * Qc := let '(x, y, z) := c in (fxy x, fxy y, fz z).
Hypothesis FD0 : fd 0 = 0.

Definition rb (b : block K) : block K := mkBlock (bkey b) (fv (bvol b)) (option_map fc (bcen b)).
Definition rc (c : conn K) : conn K := mkConn (ka c) (kb c) (kdir c) (fd (kda c)) (fd (kdb c)) (fa (karea c)) (kdcn c) (kdcr c).
Definition rg (g : grid K) : grid K := mkGrid (map rb (blocks g)) (map rc (conns g)) (cnames g).
Definition rs (s : Qc) : Qc := two * fd (s * half).

Lemma rs_two d : rs (two * d) = two * fd d.
Proof. unfold rs. f_equal. f_equal. qc_lra. Qed.

Lemma find_map {A} (p : A -> bool) (f : A -> A) l : (forall a, p (f a) = p a) -> find p (map f l) = option_map f (find p l).
Proof. intros H. induction l as [|a l IH]; [reflexivity|]. cbn [map find]. rewrite H. destruct (p a); [reflexivity|exact IH]. Qed.

Variable g : grid K.
Lemma find_block_sim k : find_block K keqb (rg g) k = option_map rb (find_block K keqb g k).
Proof. unfold find_block, rg. cbn [blocks]. apply find_map. reflexivity. Qed.
Lemma find_conn_sim p : find_conn K keqb (rg g) p = option_map rc (find_conn K keqb g p).
Proof. unfold find_conn, rg. cbn [conns]. apply find_map. reflexivity. Qed.
Lemma has_dir_sim dir p : has_dir K keqb (rg g) dir p = has_dir K keqb g dir p.
Proof. unfold has_dir, dir_of. rewrite find_conn_sim. destruct (find_conn K keqb g p); reflexivity. Qed.
Lemma dist_at_sim p k : dist_at K keqb (rg g) p k = fd (dist_at K keqb g p k).
Proof. unfold dist_at. rewrite find_conn_sim. destruct (find_conn K keqb g p) as [c|]; cbn [option_map rc kda kdb]; [destruct (keqb (fst p) k); reflexivity|symmetry; exact FD0]. Qed.
Lemma find_block_in k b : find_block K keqb g k = Some b -> In b (blocks g).
Proof. unfold find_block. intros H. apply find_some in H. tauto. Qed.

(** the transformation keeps every block on its side of the volume window *)
Variable mv : option Qc.
Hypothesis VOK : forall b, In b (blocks g) -> vol_ok mv (fv (bvol b)) = vol_ok mv (bvol b).

Definition pairb (x : block K * (K * K)) : block K * (K * K) := (rb (fst x), snd x).
Lemma scan_sim k cs : scan K keqb (rg g) k mv cs = option_map pairb (scan K keqb g k mv cs).
Proof.
  induction cs as [|p r IH]; [reflexivity|]. cbn [scan]. rewrite find_block_sim.
  destruct (find_block K keqb g (other_end K keqb p k)) as [nb|] eqn:E; cbn [option_map]; [|exact IH].
  cbn [rb bvol]. rewrite (VOK nb (find_block_in _ _ E)). destruct (vol_ok mv (bvol nb)); [reflexivity|exact IH].
Qed.
Lemma filter_ext' {A} (p q : A -> bool) l : (forall a, p a = q a) -> filter p l = filter q l.
Proof. intros H. induction l as [|a l IH]; [reflexivity|]. cbn [filter]. rewrite H, IH. reflexivity. Qed.
Lemma next_block_sim k last dir : next_block K keqb (rg g) k last dir mv = option_map pairb (next_block K keqb g k last dir mv).
Proof.
  unfold next_block. cbn [cnames rg]. rewrite (filter_ext' (has_dir K keqb (rg g) dir) (has_dir K keqb g dir)) by (intros; apply has_dir_sim).
  apply scan_sim.
Qed.
Lemma next_block_in k last dir b p : next_block K keqb g k last dir mv = Some (b, p) -> In b (blocks g).
Proof.
  unfold next_block. generalize (match last with Some l => filter (fun p0 => negb (in_pair K keqb l p0)) (filter (has_dir K keqb g dir) (cnames g k)) | None => filter (has_dir K keqb g dir) (cnames g k) end).
  intros cs. induction cs as [|q r IH]; cbn [scan]; [discriminate|].
  destruct (find_block K keqb g (other_end K keqb q k)) as [nb|] eqn:E; [|exact IH].
  destruct (vol_ok mv (bvol nb)); [|exact IH]. intros X. inversion X; subst. exact (find_block_in _ _ E).
Qed.

Definition map_track (r : res (list (block K) * list Qc)) : res (list (block K) * list Qc) :=
  match r with Ok (bl, sz) => Ok (map rb bl, map rs sz) | Raise e => Raise e end.
Lemma track_sim f : forall dir blk last con, In blk (blocks g) ->
  track K keqb f (rg g) dir mv (rb blk) last con = map_track (track K keqb f g dir mv blk last con).
Proof.
  induction f as [|f IH]; intros dir blk last con Hin; [reflexivity|]. cbn [track]. cbn [rb bkey bvol].
  rewrite next_block_sim. rewrite (VOK blk Hin).
  destruct (next_block K keqb g (bkey blk) last dir mv) as [[nb c]|] eqn:E; cbn [option_map pairb fst snd].
  - rewrite (IH dir nb (Some (bkey blk)) (Some c) (next_block_in _ _ _ _ _ E)).
    destruct (track K keqb f g dir mv nb (Some (bkey blk)) (Some c)) as [[bl sz]|e]; cbn [map_track bind fst snd]; [|reflexivity].
    rewrite (dist_at_sim c (bkey blk)). destruct (vol_ok mv (bvol blk)); cbn [app map]; rewrite ?rs_two; reflexivity.
  - cbn [map_track]. destruct (vol_ok mv (bvol blk)); destruct con as [lc|]; cbn [map]; rewrite ?(dist_at_sim lc (bkey blk)), ?rs_two; reflexivity.
Qed.

(** ** nanargmin / nanargmax: the transformation keeps the order of the block elevations *)
Lemma elev_sim b : In b (blocks g) -> elev K mv (rb b) = option_map fz (elev K mv b).
Proof.
  intros Hin. unfold elev. cbn [rb bcen bvol]. destruct (bcen b) as [[[x y] z]|]; cbn [option_map fc]; [|reflexivity].
  rewrite (VOK b Hin). destruct (vol_ok mv (bvol b)); reflexivity.
Qed.
Variable better : Qc -> Qc -> bool.
Hypothesis MONO : forall b b' z z', In b (blocks g) -> In b' (blocks g) -> elev K mv b = Some z -> elev K mv b' = Some z' ->
  better (fz z) (fz z') = better z z'.
Definition map_best (best : option (block K * Qc)) : option (block K * Qc) :=
  match best with Some (b, z) => Some (rb b, fz z) | None => None end.
Lemma argbest_sim l : incl l (blocks g) -> forall best,
  (best = None \/ exists b0 z0, best = Some (b0, z0) /\ In b0 (blocks g) /\ elev K mv b0 = Some z0) ->
  argbest K better mv (map rb l) (map_best best) = option_map rb (argbest K better mv l best).
Proof.
  induction l as [|b l IH]; intros Hl best Hb.
  - cbn [map argbest]. destruct best as [[b0 z0]|]; reflexivity.
  - assert (Hin : In b (blocks g)) by (apply Hl; left; reflexivity).
    assert (Hl' : incl l (blocks g)) by (intros x Hx; apply Hl; right; exact Hx).
    cbn [map argbest]. rewrite (elev_sim b Hin). destruct (elev K mv b) as [z|] eqn:E; cbn [option_map].
    + destruct Hb as [->|[b0 [z0 [-> [H0 E0]]]]]; cbn [map_best].
      * apply (IH Hl' (Some (b, z))). right. eauto.
      * rewrite (MONO b b0 z z0 Hin H0 E E0). destruct (better z z0).
        -- apply (IH Hl' (Some (b, z))). right. eauto.
        -- apply (IH Hl' (Some (b0, z0))). right. eauto.
    + apply (IH Hl' best Hb).
Qed.
End Sim.

(** ** block_mapping: the assignment log only holds names *)
Section Sim2.
Set Default Proof Using "All".
Variable K : Type.
Variable keqb : K -> K -> bool.
Variables fv fd fa fxy fz : Qc -> Qc.
Hypothesis FD0 : fd 0 = 0.
Variable g : grid K.
Variable av : Qc.
Hypothesis VOK : forall b, In b (blocks g) -> vol_ok (Some av) (fv (bvol b)) = vol_ok (Some av) (bvol b).
Notation rb := (rb K fv fxy fz).
Notation rgg := (rg K fv fd fa fxy fz g).
Lemma VOKN : forall b, In b (blocks g) -> vol_ok None (fv (bvol b)) = vol_ok None (bvol b).
Proof. reflexivity. Qed.
Local Notation NBS := (next_block_sim K keqb fv fd fa fxy fz FD0 g (Some av) VOK).
Local Notation NBN := (next_block_sim K keqb fv fd fa fxy fz FD0 g None VOKN).
Local Notation NBI := (next_block_in K keqb fv fd fa fxy fz FD0 g (Some av) VOK).

Lemma col_walk_sim atm' (nm' : cid -> K) i j lays : forall blk last, In blk (blocks g) ->
  col_walk K keqb rgg av atm' nm' i j lays (rb blk) last = col_walk K keqb g av atm' nm' i j lays blk last.
Proof.
  induction lays as [|k r IH]; intros blk last Hin; [reflexivity|]. cbn [col_walk]. cbn [FileSim.rb bkey]. f_equal.
  rewrite NBS. destruct (next_block K keqb g (bkey blk) last 3 (Some av)) as [[nb c]|] eqn:E; cbn [option_map pairb fst snd].
  - apply IH. exact (NBI _ _ _ _ _ E).
  - rewrite NBN. destruct (next_block K keqb g (bkey blk) last 3 None) as [[ab c]|]; reflexivity.
Qed.
Definition in_opt (o : option (block K)) : Prop := match o with Some b => In b (blocks g) | None => True end.
Lemma row_walk_sim atm' (nm' : cid -> K) nz' j is_ : forall start1 last1, in_opt start1 ->
  row_walk K keqb rgg av atm' nm' nz' j is_ (option_map rb start1) last1 = row_walk K keqb g av atm' nm' nz' j is_ start1 last1.
Proof.
  induction is_ as [|i r IH]; intros start1 last1 Hin; [reflexivity|]. cbn [row_walk].
  destruct start1 as [s1|]; cbn [option_map]; [|reflexivity]. cbn [in_opt] in Hin.
  rewrite (col_walk_sim atm' nm' i j _ s1 None Hin). cbn [FileSim.rb bkey]. rewrite NBS.
  destruct (next_block K keqb g (bkey s1) last1 1 (Some av)) as [[nb c]|] eqn:E; cbn [option_map pairb fst snd].
  - rewrite <- (IH (Some nb) (Some (bkey s1)) (NBI _ _ _ _ _ E)). reflexivity.
  - rewrite <- (IH None (Some (bkey s1)) I). reflexivity.
Qed.
Lemma rows_walk_sim atm' (nm' : cid -> K) nx' nz' js : forall start2 last2, in_opt start2 ->
  rows_walk K keqb rgg av atm' nm' nx' nz' js (option_map rb start2) last2 = rows_walk K keqb g av atm' nm' nx' nz' js start2 last2.
Proof.
  induction js as [|j r IH]; intros start2 last2 Hin; [reflexivity|]. cbn [rows_walk].
  destruct start2 as [s2|]; cbn [option_map]; [|reflexivity]. cbn [in_opt] in Hin.
  rewrite (row_walk_sim atm' nm' nz' j _ (Some s2) None Hin). cbn [FileSim.rb bkey]. rewrite NBS.
  destruct (next_block K keqb g (bkey s2) last2 2 (Some av)) as [[nb c]|] eqn:E; cbn [option_map pairb fst snd].
  - rewrite <- (IH (Some nb) (Some (bkey s2)) (NBI _ _ _ _ _ E)). reflexivity.
  - rewrite <- (IH None (Some (bkey s2)) I). reflexivity.
Qed.
Lemma block_mapping_sim ob n1 n2 n3 atm' (nm' : cid -> K) : In ob (blocks g) ->
  block_mapping K keqb rgg (rb ob) n1 n2 n3 av atm' nm' = block_mapping K keqb g ob n1 n2 n3 av atm' nm'.
Proof. intros Hin. unfold block_mapping. apply (rows_walk_sim atm' nm' n1 n3 _ (Some ob) None Hin). Qed.
End Sim2.
