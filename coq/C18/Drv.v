(** C18 -- extraction of the executable model for the correspondence.
    One case line = a rectangular geometry (spacings, origin, surfaces, atmosphere, names), the
    parameters of rectgeo, the names of the new geometry and the iteration order of every block's
    connection_name set as observed on the real grid.  One result line = the grid of the forward
    model and the result of the rectgeo model. *)
From Coq Require Import Ascii String List Bool Arith ZArith NArith QArith Qcanon.
From PTBase Require Import Exn PyStr PyNum PyVal Wire.
From P Require Import Rectgeo Names Main Heading FileGrid.
Import ListNotations.
Open Scope char_scope.

Definition nonempty (l : list str) : list str := filter (fun s => match s with [] => false | _ => true end) l.
Fixpoint split_fast_aux (ch : ascii) (cur : str) (s : str) : list str :=
  match s with
  | [] => [rev_append cur []]
  | c :: r => if ceqb c ch then rev_append cur [] :: split_fast_aux ch [] r else split_fast_aux ch (c :: cur) r
  end.
Definition split_fast (ch : ascii) (s : str) : list str := split_fast_aux ch [] s.
Definition items (sep : ascii) (s : str) : list str := nonempty (split_fast sep s).
Definition parse_q (s : str) : Qc :=
  match split_fast "/" s with
  | [n; d] => Q2Qc (Qmake (z_of_str n) (Z.to_pos (z_of_str d)))
  | _ => Q2Qc (Qmake (z_of_str s) 1)
  end.
Definition parse_pair (s : str) : str * str :=
  match split_fast ":" s with
  | [a; b] => (unhex a, unhex b)
  | _ => ([], [])
  end.
Definition parse_cn (s : str) : str * list (str * str) :=
  match split_fast "=" s with
  | [b; ps] => (unhex b, map parse_pair (items "," ps))
  | _ => ([], [])
  end.
Definition cn_fun (tbl : list (str * list (str * str))) (k : str) : list (str * str) :=
  match find (fun e => str_eqb (fst e) k) tbl with Some e => snd e | None => [] end.

Definition colon : str := [":"].
Definition show_q (q : Qc) : str := (show_z (Qnum (this q)) ++ "/" :: show_z (Zpos (Qden (this q))))%list.
Fixpoint join_with (sep : ascii) (l : list str) : str :=
  match l with [] => [] | [a] => a | a :: r => (a ++ sep :: join_with sep r)%list end.
Definition show_block (b : block str) : str :=
  (hex (bkey b) ++ colon ++ show_q (bvol b) ++ colon ++
   match bcen b with
   | Some (x, y, z) => show_q x ++ colon ++ show_q y ++ colon ++ show_q z
   | None => s2l "None"
   end)%list.
Definition show_conn (k : conn str) : str :=
  (hex (ka k) ++ colon ++ hex (kb k) ++ colon ++ show_nat (kdir k) ++ colon ++ show_q (kda k) ++ colon ++
   show_q (kdb k) ++ colon ++ show_q (karea k) ++ colon ++ show_q (kdcn k) ++ colon ++ show_q (kdcr k))%list.
Definition show_pos (p : posres) : str :=
  match p with
  | PosAx x y ax ay => (show_q x ++ colon ++ show_q y ++ colon ++ show_q ax ++ colon ++ show_q ay)%list
  | PosNaN => s2l "NAN"
  end.
Definition show_result (r : res (result str)) : str :=
  match r with
  | Raise e => (s2l "RAISE " ++ show_exn e)%list
  | Ok r =>
      (s2l "OK" ++ tab :: join_with ";" (map show_q (r_dx r)) ++ tab :: join_with ";" (map show_q (r_dy r)) ++ tab ::
       join_with ";" (map show_q (r_dz r)) ++ tab :: show_pos (r_pos r) ++ tab :: show_q (r_oz r) ++ tab ::
       join_with ";" (map show_q (r_surf r)) ++ tab ::
       join_with ";" (map (fun p => hex (fst p) ++ colon ++ hex (snd p)) (r_map r)))%list
  end.

Definition run_case (line : str) : str :=
  match split_fast tab line with
  | [fl; at_; av_; ac_; ox; oy; oz; ax; ay; dx; dy; dz; sf; cv; ls; cs; rav; rsnap; rat; rcv; rls; rcs; cn; obk] =>
      let dxs := map parse_q (items ";" dx) in
      let dys := map parse_q (items ";" dy) in
      let dzs := map parse_q (items ";" dz) in
      let n := length dxs in
      let sfl := map parse_q (items ";" sf) in
      let g := mkRgeo (parse_q ox) (parse_q oy) (parse_q oz) (parse_q ax) (parse_q ay) dxs dys dzs (nat_of_str at_) (parse_q av_) (parse_q ac_) (parse_q oz)
                      (list_surf n sfl (parse_q oz)) in
      let nm := str_naming (nat_of_str cv) (map unhex (items ";" ls)) (map unhex (items ";" cs)) n in
      let nm' := str_naming (nat_of_str rcv) (map unhex (items ";" rls)) (map unhex (items ";" rcs)) n in
      let tbl := map parse_cn (items ";" cn) in
      let gr0 := mkGrid (rect_blocks nm g) (rect_conns nm g) (cn_fun tbl) in
      (* flag 4: the grid went through a data file *)
      let gr := if str_eqb (slice 3 4 fl) (s2l "1") then file_grid str gr0 else gr0 in
      (join_with ";" (map show_block (blocks gr)) ++ tab :: join_with ";" (map show_conn (conns gr)) ++ tab ::
       show_result (rectgeo str str_eqb heading_exact (str_eqb (slice 0 1 fl) (s2l "1")) (str_eqb (slice 1 2 fl) (s2l "1")) gr
                            (match obk with "-" :: _ => None | _ => Some (unhex obk) end) (parse_q rav) (str_eqb (slice 2 3 fl) (s2l "1")) (parse_q rsnap) (nat_of_str rat) nm'))%list
  | _ => s2l "BADCASE"
  end.

Require Extraction.
Require Import ExtrOcamlBasic ExtrOcamlString.
Extraction "Drv.ml" run_case.
