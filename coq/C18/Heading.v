(** C18 -- an exact, executable heading function (the unit vector along a rational vector whose length is
    rational) and the proof that it meets [Main.heading_spec].  It stands for
    vector_heading / degrees / rotate of the implementation, whose floating-point evaluation is compared
    with it in the correspondence. *)
From Coq Require Import List Bool Arith ZArith QArith Qcanon Lia Znumtheory.
From P Require Import Rectgeo QcFacts Main.
Open Scope Qc_scope.

Definition zsqrt_exact (n : Z) : option Z := let r := Z.sqrt n in if (r * r =? n)%Z then Some r else None.
Definition qsqrt (x : Qc) : option Qc :=
  match zsqrt_exact (Qnum x), zsqrt_exact (Zpos (Qden x)) with
  | Some rn, Some rd => Some (Q2Qc (rn # Z.to_pos rd))
  | _, _ => None
  end.
(** [None]: the zero vector (NaN in the implementation), or a vector of irrational length (outside the
    exact model; never the case for a grid generated from a geometry with a rational unit axis) *)
Definition heading_exact (vx vy : Qc) : option (Qc * Qc) :=
  match qsqrt (vx * vx + vy * vy) with
  | Some n => if qle n 0 then None else Some (vx / n, vy / n)
  | None => None
  end.

Lemma zsqrt_square p : (0 <= p)%Z -> zsqrt_exact (p * p) = Some p.
Proof. intros H. unfold zsqrt_exact. rewrite Z.sqrt_square by exact H. rewrite Z.eqb_refl. reflexivity. Qed.

Lemma qsqrt_square (L : Qc) : 0 < L -> qsqrt (L * L) = Some L.
Proof.
  intros HL. destruct L as [[p q] CAN]. unfold Qclt in HL. cbn [this] in HL.
  assert (Hp : (0 < p)%Z). { unfold Qlt in HL. cbn in HL. lia. }
  assert (G : Z.gcd p (Zpos q) = 1%Z) by (apply Qred_identity2 in CAN; exact CAN).
  assert (G2 : Z.gcd (p * p) (Zpos (q * q)) = 1%Z).
  { apply Zgcd_1_rel_prime. apply Zgcd_1_rel_prime in G. rewrite Pos2Z.inj_mul.
    apply rel_prime_mult; apply rel_prime_sym; apply rel_prime_mult; apply rel_prime_sym; exact G. }
  assert (T : this (Qcmake (p # q) CAN * Qcmake (p # q) CAN) = (p * p # q * q)%Q).
  { unfold Qcmult, Q2Qc. cbn [this]. unfold Qmult. cbn [Qnum Qden]. apply Qred_identity. exact G2. }
  unfold qsqrt. rewrite T. cbn [Qnum Qden]. rewrite (zsqrt_square p) by lia. rewrite Pos2Z.inj_mul.
  rewrite (zsqrt_square (Zpos q)) by lia. cbn [Z.to_pos]. f_equal. apply Qc_is_canon. cbn [this Q2Qc].
  rewrite CAN. reflexivity.
Qed.

Lemma heading_exact_spec : heading_spec heading_exact.
Proof.
  split.
  - intros L a b HL U. unfold heading_exact.
    replace (L * a * (L * a) + L * b * (L * b)) with (L * L) by (transitivity (L * L * (a * a + b * b)); [rewrite U; ring|ring]).
    rewrite (qsqrt_square L HL). assert (Q : qle L 0 = false) by qc_lra. rewrite Q.
    assert (N : L <> 0) by (apply qpos_ne0; exact HL). f_equal. f_equal; field; exact N.
  - reflexivity.
Qed.
