(** C18 -- the topmost block and block_spacings on the grid generated from a rectangular geometry. *)
From Coq Require Import List Bool Arith ZArith QArith Qcanon Lia FinFun.
From PTBase Require Import Exn.
From P Require Import Rectgeo QcFacts GeoFacts ListFacts Forward Walk Track Origin.
Import ListNotations.
Open Scope Qc_scope.

Lemma map_nth_seq {A} (l : list A) d : map (fun k => nth k l d) (seq 0 (length l)) = l.
Proof.
  induction l as [|a l IH]; [reflexivity|]. cbn [length seq map nth]. f_equal.
  rewrite <- seq_shift, map_map. exact IH.
Qed.
Lemma last_of_map_seq {A} (f : nat -> A) a m : last_of (map f (seq a (S m))) = Some (f (a + m)%nat).
Proof. rewrite seq_S, map_app. cbn [map]. apply last_of_app_single. Qed.
Lemma last_of_nth (l : list Qc) : l <> [] -> last_of l = Some (nth (length l - 1) l 0).
Proof.
  intros H. destruct (exists_last H) as [l' [x ->]]. rewrite last_of_app_single. rewrite app_length. cbn [length].
  replace (length l' + 1 - 1)%nat with (length l') by lia. rewrite app_nth2 by lia. rewrite Nat.sub_diag. reflexivity.
Qed.
Lemma single_list (l : list Qc) : length l = 1%nat -> l = [nth 0 l 0].
Proof. destruct l as [|a [|b l]]; cbn; intros H; try lia. reflexivity. Qed.
Lemma filter_first_unique {A} (p : A -> bool) l x :
  In x l -> p x = true -> (forall y, In y l -> p y = true -> y = x) -> exists rest, filter p l = x :: rest.
Proof.
  induction l as [|a l IH]; intros Hin Hp Hu; [destruct Hin|]. cbn [filter]. destruct (p a) eqn:E.
  - rewrite (Hu a (or_introl eq_refl) E). eexists. reflexivity.
  - destruct Hin as [->|Hin]; [congruence|]. apply IH; auto. intros y Hy. apply Hu. right. exact Hy.
Qed.
Lemma filter_none {A} (p : A -> bool) l : (forall y, In y l -> p y = false) -> filter p l = [].
Proof.
  induction l as [|a l IH]; intros H; [reflexivity|]. cbn [filter]. rewrite (H a (or_introl eq_refl)). apply IH.
  intros y Hy. apply H. right. exact Hy.
Qed.

Section Sp.
Set Default Proof Using "All".
Variable K : Type.
Variable keqb : K -> K -> bool.
Hypothesis keqb_spec : forall a b, keqb a b = true <-> a = b.
Variable g : rgeo.
Hypothesis W : wf g.
Variable nm : cid -> K.
Hypothesis nm_inj : forall a b, latt g a -> latt g b -> nm a = nm b -> a = b.
Variable cn : K -> list (K * K).
Hypothesis CN : cn_ok K g nm cn.
Variable av : Qc.
Hypothesis ACT : forall k i j, present g (Cell (S k) i j) -> volume g (S k) i j < av.
Hypothesis INACT : gatm g <> 2%nat -> vol_ok (Some av) (gatmvol g) = false.

Notation GG := (G K g nm cn).
Notation blk := (blk K g nm).
Notation key := (key K nm).
Local Notation HY lem := (lem K keqb keqb_spec g W nm nm_inj cn CN av ACT INACT) (only parsing).

Lemma thick_list : map (thick g) (seq 1 (nz g)) = gdz g.
Proof.
  unfold thick, nz. rewrite <- seq_shift, map_map. rewrite <- (map_nth_seq (gdz g) 0) at 2.
  apply map_ext. intros k. replace (S k - 1)%nat with k by lia. reflexivity.
Qed.
Lemma dx_list : map (dxi g) (seq 0 (nx g)) = gdx g.
Proof. unfold dxi, nx. apply map_nth_seq. Qed.
Lemma dy_list : map (dyj g) (seq 0 (ny g)) = gdy g.
Proof. unfold dyj, ny. apply map_nth_seq. Qed.

Lemma elev_rock k i j : present g (Cell (S k) i j) -> elev K (Some av) (blk (Cell (S k) i j)) = Some (zc g (S k) i j).
Proof.
  intros P. unfold elev. change (bcen (blk (Cell (S k) i j))) with (Some (px g i j, py g i j, zc g (S k) i j)).
  change (bvol (blk (Cell (S k) i j))) with (cvol (cellof g (Cell (S k) i j))).
  rewrite (HY volok_rock (Some av) k i j (or_intror eq_refl) P). reflexivity.
Qed.

(** the block with the highest centre among the active blocks is a layer-1 block of a column that
    reaches the top of layer 1, provided there is such a column *)
Lemma topmost (i0 j0 : nat) : (i0 < nx g)%nat -> (j0 < ny g)%nat -> goz g <= gsurf g i0 j0 ->
  exists i j, (i < nx g)%nat /\ (j < ny g)%nat /\ goz g <= gsurf g i j /\ topmost_block K GG av = Some (blk (Cell 1 i j)).
Proof.
  intros Hi0 Hj0 Hs0. pose proof (wf_nz g W) as NZ.
  assert (P0 := HY present_1 i0 j0 Hi0 Hj0 Hs0).
  assert (E0 : elev K (Some av) (blk (Cell 1 i0 j0)) = Some (lcen g 1)).
  { rewrite (elev_rock 0 i0 j0 P0). rewrite (HY zc1_reach i0 j0 Hi0 Hj0 Hs0). reflexivity. }
  assert (In0 : In (blk (Cell 1 i0 j0)) (blocks GG)).
  { unfold G, rect_blocks, Walk.blk. cbn [blocks]. apply in_map. apply present_in_cells. exact P0. }
  unfold topmost_block. pose proof (argmax_spec K (Some av) (blocks GG) None I) as M.
  destruct (argbest K (fun a b => qlt b a) (Some av) (blocks GG) None) as [x|].
  - destruct M as [zx [Ex [[Hin|[zb X]] [Mx _]]]]; [|discriminate].
    pose proof (Mx _ In0 _ E0) as Hz.
    unfold G, rect_blocks in Hin. cbn [blocks] in Hin. apply in_map_iff in Hin. destruct Hin as [c [<- Hc]].
    apply in_cells_iff in Hc. destruct Hc as [P Ec]. rewrite Ec in Ex |- *.
    destruct (cc c) as [|[|k] i j] eqn:ECC.
    + unfold elev in Ex. cbn in Ex. discriminate.
    + unfold elev in Ex. cbn [mk_block bcen bvol cellof ccen cvol] in Ex. cbn [present] in P. destruct P as [A _].
      rewrite INACT in Ex by (rewrite A; discriminate). discriminate.
    + change (mk_block nm (cellof g (Cell (S k) i j))) with (blk (Cell (S k) i j)) in *.
      rewrite (elev_rock k i j P) in Ex. inversion Ex; subst zx. cbn [present] in P. destruct P as [Hk [Hi [Hj Hh]]].
      destruct k as [|k].
      * exists i, j. split; [exact Hi|]. split; [exact Hj|]. split; [|reflexivity].
        destruct (qlt (gsurf g i j) (goz g)) eqn:Q; [|qc_lra]. exfalso.
        rewrite (zc_trunc g W 1 i j ltac:(lia) Hh) in Hz by (rewrite (top1 g W); qc_lra).
        rewrite (lcen_eq g W 1) in Hz by lia. pose proof (top_eq g W 1 ltac:(lia)) as T. rewrite (top1 g W) in T. qc_lra.
      * exfalso. pose proof (zc_le_lcen g W (S (S k)) i j Hk) as Z. pose proof (lcen_lt_top g W (S (S k)) ltac:(lia)) as L.
        pose proof (top_le_bot g W 1 (S (S k)) ltac:(lia) ltac:(lia)) as T. pose proof (bot_lt_lcen g W 1 ltac:(lia)) as B. qc_lra.
  - destruct M as [_ N]. rewrite (N _ In0) in E0. discriminate.
Qed.

(** ** the 2-D rule *)

Notation obc := (Cell (nz g) 0 0).
Lemma ob_present : present g obc.
Proof.
  pose proof (wf_nz g W). pose proof (wf_nx g W). pose proof (wf_ny g W).
  apply rock_present; try lia. apply has_bottom; [exact W|lia|lia].
Qed.
Lemma ob_vol : bvol (blk obc) = thick g (nz g) * (dxi g 0 * dyj g 0).
Proof.
  pose proof (wf_nz g W) as NZ. pose proof (wf_nx g W). pose proof (wf_ny g W).
  destruct (nz g) as [|m] eqn:EM; [lia|]. change (bvol (blk (Cell (S m) 0 0))) with (volume g (S m) 0 0).
  unfold volume, area. rewrite <- EM. rewrite (HY height_bottom 0%nat 0%nat) by lia. reflexivity.
Qed.

Lemma first_dir_unique dir l : link_shape g l -> incident l obc -> ldir l = dir ->
  (forall l', link_shape g l' -> incident l' obc -> ldir l' = dir -> l' = l) ->
  first_dir_conn K keqb GG (blk obc) dir = Ok (key l).
Proof.
  intros S I D U. unfold first_dir_conn. rewrite (HY bkey_blk). cbn [cnames G].
  destruct (filter_first_unique (has_dir K keqb GG dir) (cn (nm obc)) (key l)) as [rest E].
  - apply (in_cn K keqb keqb_spec g nm nm_inj cn CN obc _ (present_latt g _ ob_present)). exists l. auto.
  - unfold Walk.key. rewrite (has_dir_link K keqb keqb_spec g nm nm_inj cn CN l dir S). apply Nat.eqb_eq. exact D.
  - intros y Hy Py. apply (in_cn K keqb keqb_spec g nm nm_inj cn CN obc _ (present_latt g _ ob_present)) in Hy.
    destruct Hy as [l' [S' [I' ->]]]. rewrite (has_dir_link K keqb keqb_spec g nm nm_inj cn CN l' dir S') in Py.
    apply Nat.eqb_eq in Py. rewrite (U l' S' I' Py). reflexivity.
  - rewrite E. reflexivity.
Qed.
Lemma first_dir_none dir : (forall l', link_shape g l' -> incident l' obc -> ldir l' = dir -> False) ->
  first_dir_conn K keqb GG (blk obc) dir = Raise IndexError.
Proof.
  intros U. unfold first_dir_conn. rewrite (HY bkey_blk). cbn [cnames G]. rewrite filter_none; [reflexivity|].
  intros y Hy. apply (in_cn K keqb keqb_spec g nm nm_inj cn CN obc _ (present_latt g _ ob_present)) in Hy.
  destruct Hy as [l' [S' [I' ->]]]. rewrite (has_dir_link K keqb keqb_spec g nm nm_inj cn CN l' dir S').
  apply Nat.eqb_neq. intro D. exact (U l' S' I' D).
Qed.

Local Notation DAL := (dist_at_link K keqb keqb_spec g nm nm_inj cn CN).

Lemma own1_code : (2 <= nx g)%nat ->
  (do p <- first_dir_conn K keqb GG (blk obc) 1; Ok (two * dist_at K keqb GG p (bkey (blk obc)))) = Ok (dxi g 0).
Proof.
  intros NX. pose proof (wf_nz g W) as NZ. pose proof (wf_ny g W) as NY.
  assert (S0 : link_shape g (xlink g (nz g) 0 0)) by (apply LX; try lia; apply has_bottom; try exact W; lia).
  rewrite (first_dir_unique 1 (xlink g (nz g) 0 0) S0 (or_introl eq_refl) eq_refl).
  - cbn [bind]. rewrite (HY bkey_blk). unfold Walk.key. rewrite (DAL _ obc S0 (present_latt g _ ob_present)).
    cbn [xlink la lda]. rewrite cid_eqb_refl. rewrite two_half. reflexivity.
  - intros l' S' I' D'. destruct (shape_dir1 g W l' (nz g) 0 0 S' D' I') as [[-> _]|[i' [X _]]]; [reflexivity|lia].
Qed.
Lemma own2_code : (2 <= ny g)%nat ->
  (do p <- first_dir_conn K keqb GG (blk obc) 2; Ok (two * dist_at K keqb GG p (bkey (blk obc)))) = Ok (dyj g 0).
Proof.
  intros NY. pose proof (wf_nz g W) as NZ. pose proof (wf_nx g W) as NX.
  assert (S0 : link_shape g (ylink g (nz g) 0 0)) by (apply LY; try lia; apply has_bottom; try exact W; lia).
  rewrite (first_dir_unique 2 (ylink g (nz g) 0 0) S0 (or_introl eq_refl) eq_refl).
  - cbn [bind]. rewrite (HY bkey_blk). unfold Walk.key. rewrite (DAL _ obc S0 (present_latt g _ ob_present)).
    cbn [ylink la lda]. rewrite cid_eqb_refl. rewrite two_half. reflexivity.
  - intros l' S' I' D'. destruct (shape_dir2 g W l' (nz g) 0 0 S' D' I') as [[-> _]|[j' [X _]]]; [reflexivity|lia].
Qed.
(** the origin block's own vertical connection: to the block above it, or to the atmosphere *)
Lemma own3_link l : vlink g (nz g) (0%nat, 0%nat) = Some l -> lda l = thick g (nz g) * half ->
  (do p <- first_dir_conn K keqb GG (blk obc) 3; Ok (two * dist_at K keqb GG p (bkey (blk obc)))) = Ok (thick g (nz g)).
Proof.
  intros V D. pose proof (wf_nz g W) as NZ. pose proof (wf_nx g W) as NX. pose proof (wf_ny g W) as NY.
  assert (S0 : link_shape g l) by (apply (LV g (nz g) 0 0); try lia; auto; apply has_bottom; try exact W; lia).
  destruct (vlink_dir g W _ _ _ _ V) as [D3 LA].
  rewrite (first_dir_unique 3 l S0 (or_introl LA) D3).
  - cbn [bind]. rewrite (HY bkey_blk). unfold Walk.key. rewrite (DAL _ obc S0 (present_latt g _ ob_present)).
    rewrite LA, cid_eqb_refl, D. rewrite two_half. reflexivity.
  - intros l' S' I' D'. destruct (shape_dir3 g W l' (nz g) 0 0 S' D' I' ltac:(lia)) as [V'|[_ [_ X]]]; [|lia].
    rewrite V in V'. inversion V'. reflexivity.
Qed.
Lemma own3_code : has g (nz g - 1) 0 0 = true \/ (gatm g < 2)%nat ->
  (do p <- first_dir_conn K keqb GG (blk obc) 3; Ok (two * dist_at K keqb GG p (bkey (blk obc)))) = Ok (thick g (nz g)).
Proof.
  intros GU. pose proof (wf_nz g W) as NZ. pose proof (wf_nx g W) as NX. pose proof (wf_ny g W) as NY.
  destruct (has g (nz g - 1) 0 0) eqn:Hh.
  - apply (own3_link _ (vlink_up g W (nz g) 0 0 ltac:(lia) Hh)). cbn [lda].
    rewrite (top_eq g W (nz g)) by lia. rewrite (lcen_eq g W (nz g)) by lia. qc_lra.
  - destruct GU as [X|GU]; [discriminate|].
    assert (T : is_top g (nz g) 0 0) by (right; exact Hh).
    assert (D : gsurf g 0 0 - zc g (nz g) 0 0 = thick g (nz g) * half).
    { rewrite (HY zc_bottom 0%nat 0%nat) by lia. pose proof (no_above_surface g W (nz g) 0 0 ltac:(lia) Hh) as N.
      pose proof (wf_bottom g W 0 0 ltac:(lia) ltac:(lia)) as B. rewrite (lcen_eq g W (nz g)) by lia.
      pose proof (top_eq g W (nz g) ltac:(lia)) as TE. qc_lra. }
    destruct (atm_cases g W) as [A|[A|A]]; [| |lia].
    + apply (own3_link _ (vlink_top0 g W (nz g) 0 0 ltac:(lia) T A)). exact D.
    + apply (own3_link _ (vlink_top1 g W (nz g) 0 0 ltac:(lia) T A)). exact D.
Qed.
(** the recorded defect: a 2-D grid without atmosphere blocks whose origin column holds a single block *)
Lemma own3_defect : has g (nz g - 1) 0 0 = false -> (2 <= gatm g)%nat ->
  first_dir_conn K keqb GG (blk obc) 3 = Raise IndexError.
Proof.
  intros Hh A. pose proof (wf_nz g W) as NZ. apply first_dir_none.
  intros l' S' I' D'. destruct (shape_dir3 g W l' (nz g) 0 0 S' D' I' ltac:(lia)) as [V'|[_ [_ X]]]; [|lia].
  rewrite (vlink_top2 g W (nz g) 0 0 ltac:(lia) (or_intror Hh) A) in V'. discriminate.
Qed.

Definition sp1 : list Qc := if (nx g =? 1)%nat then [] else gdx g.
Definition sp2 : list Qc := if (ny g =? 1)%nat then [] else gdy g.
Hypothesis D2 : (2 <= nx g)%nat \/ (2 <= ny g)%nat.

Lemma gdz_last : last_of (gdz g) = Some (thick g (nz g)).
Proof.
  pose proof (wf_nz g W) as NZ. rewrite last_of_nth; [reflexivity|]. intro E. unfold nz in NZ. rewrite E in NZ. cbn in NZ. lia.
Qed.

Lemma spacings_2d_ok fx2 :
  (fx2 = false -> (nx g = 1%nat \/ ny g = 1%nat) -> has g (nz g - 1) 0 0 = true \/ (gatm g < 2)%nat) ->
  spacings_2d K keqb fx2 GG (blk obc) sp1 sp2 (gdz g) = Ok (gdx g, gdy g, gdz g).
Proof.
  intros GU. pose proof (wf_nz g W) as NZ. pose proof (wf_nx g W) as NX. pose proof (wf_ny g W) as NY.
  pose proof (dxi_pos g W 0 ltac:(lia)) as PX. pose proof (dyj_pos g W 0 ltac:(lia)) as PY.
  pose proof (thick_pos g W (nz g) ltac:(lia)) as PZ.
  assert (LZ : (length (gdz g) =? 0)%nat = false) by (apply Nat.eqb_neq; unfold nz in NZ; lia).
  unfold spacings_2d, sp1, sp2. rewrite LZ.
  destruct (Nat.eqb_spec (nx g) 1) as [E1|E1]; destruct (Nat.eqb_spec (ny g) 1) as [E2|E2]; try lia.
  - (* a single block in direction 1 *)
    assert (LY : (length (gdy g) =? 0)%nat = false) by (apply Nat.eqb_neq; unfold ny in NY; lia).
    rewrite LY. cbn [length Nat.eqb Nat.add fold_left].
    assert (O2 : (if fx2 then match gdy g with x :: _ => Ok x | [] => Raise IndexError end
                  else do p <- first_dir_conn K keqb GG (blk obc) 2; Ok (two * dist_at K keqb GG p (bkey (blk obc)))) = Ok (dyj g 0)).
    { destruct fx2; [|apply own2_code; lia]. unfold dyj. destruct (gdy g); [cbn in LY; discriminate|reflexivity]. }
    assert (O3 : (if fx2 then match last_of (gdz g) with Some x => Ok x | None => Raise IndexError end
                  else do p <- first_dir_conn K keqb GG (blk obc) 3; Ok (two * dist_at K keqb GG p (bkey (blk obc)))) = Ok (thick g (nz g))).
    { destruct fx2; [rewrite gdz_last; reflexivity|]. apply own3_code. apply GU; auto. }
    cbn [bind]. rewrite O2. cbn [bind]. rewrite O3. cbn [bind]. rewrite ob_vol.
    rewrite (single_list (gdx g) E1). fold (dxi g 0). repeat f_equal.
    field. split; apply qpos_ne0; assumption.
  - (* a single block in direction 2 *)
    assert (LX : (length (gdx g) =? 0)%nat = false) by (apply Nat.eqb_neq; unfold nx in NX; lia).
    rewrite LX. cbn [length Nat.eqb Nat.add fold_left].
    assert (O1 : (if fx2 then match gdx g with x :: _ => Ok x | [] => Raise IndexError end
                  else do p <- first_dir_conn K keqb GG (blk obc) 1; Ok (two * dist_at K keqb GG p (bkey (blk obc)))) = Ok (dxi g 0)).
    { destruct fx2; [|apply own1_code; lia]. unfold dxi. destruct (gdx g); [cbn in LX; discriminate|reflexivity]. }
    assert (O3 : (if fx2 then match last_of (gdz g) with Some x => Ok x | None => Raise IndexError end
                  else do p <- first_dir_conn K keqb GG (blk obc) 3; Ok (two * dist_at K keqb GG p (bkey (blk obc)))) = Ok (thick g (nz g))).
    { destruct fx2; [rewrite gdz_last; reflexivity|]. apply own3_code. apply GU; auto. }
    cbn [bind]. rewrite O1. cbn [bind]. rewrite O3. cbn [bind]. rewrite ob_vol.
    rewrite (single_list (gdy g) E2). fold (dyj g 0). repeat f_equal.
    field. split; apply qpos_ne0; assumption.
  - assert (LX : (length (gdx g) =? 0)%nat = false) by (apply Nat.eqb_neq; unfold nx in NX; lia).
    assert (LY : (length (gdy g) =? 0)%nat = false) by (apply Nat.eqb_neq; unfold ny in NY; lia).
    rewrite LX, LY. reflexivity.
Qed.

Lemma cen_z_rock k i j : (1 <= k)%nat -> cen_z K (blk (Cell k i j)) = Ok (zc g k i j).
Proof. intros Hk. destruct k; [lia|]. reflexivity. Qed.

(** block_spacings recovers the three spacing lists, provided some column reaches the top of layer 1 *)
Lemma block_spacings_ok fx2 (i0 j0 : nat) : (i0 < nx g)%nat -> (j0 < ny g)%nat -> goz g <= gsurf g i0 j0 ->
  (fx2 = false -> (nx g = 1%nat \/ ny g = 1%nat) -> has g (nz g - 1) 0 0 = true \/ (gatm g < 2)%nat) ->
  block_spacings K keqb fx2 GG (blk obc) av = Ok (gdx g, gdy g, gdz g).
Proof.
  intros Hi0 Hj0 Hs0 GU. pose proof (wf_nz g W) as NZ. pose proof (wf_nx g W) as NX. pose proof (wf_ny g W) as NY.
  unfold block_spacings.
  rewrite (HY track1_start (Some av) (or_intror eq_refl) 0%nat ltac:(lia) (fuel_of K GG) (HY fuel_nx)). cbn [bind].
  rewrite (HY track2_start (Some av) (or_intror eq_refl) 0%nat ltac:(lia) (fuel_of K GG) (HY fuel_ny)). cbn [bind].
  destruct (topmost i0 j0 Hi0 Hj0 Hs0) as [i [j [Hi [Hj [Hs ET]]]]]. rewrite ET.
  rewrite (HY track3_down_start i j Hi Hj (fuel_of K GG) (HY fuel_nz i j Hi Hj Hs) Hs). cbn [bind fst snd].
  set (L := map blk (map (fun k => Cell k i j) (seq 1 (nz g)))).
  assert (EL : exists rest, L = blk (Cell 1 i j) :: rest).
  { unfold L. destruct (nz g) as [|m]; [lia|]. cbn [seq map]. eexists. reflexivity. }
  assert (LL : last_of L = Some (blk (Cell (nz g) i j))).
  { unfold L. rewrite map_map. destruct (nz g) as [|m] eqn:EM; [lia|]. rewrite last_of_map_seq. replace (1 + m)%nat with (S m) by lia. reflexivity. }
  destruct EL as [rest EL]. rewrite LL, EL. rewrite (cen_z_rock 1 i j ltac:(lia)), (cen_z_rock (nz g) i j ltac:(lia)). cbn [bind].
  assert (Q : qlt (zc g 1 i j) (zc g (nz g) i j) = false).
  { rewrite (HY zc1_reach i j Hi Hj Hs). rewrite (HY zc_bottom i j Hi Hj).
    pose proof (lcen_lt_top g W (nz g) ltac:(lia)) as A. pose proof (top_le_bot g W 1 (nz g) ltac:(lia) ltac:(lia)) as B.
    pose proof (bot_lt_lcen g W 1 ltac:(lia)) as C. qc_lra. }
  rewrite Q. rewrite thick_list, dx_list, dy_list. apply spacings_2d_ok. exact GU.
Qed.

(** the recorded defect "2-D grid, no atmosphere blocks, origin column holds a single block": the code
    as it stands raises IndexError *)
Lemma spacings_2d_defect : (nx g = 1%nat \/ ny g = 1%nat) -> has g (nz g - 1) 0 0 = false -> (2 <= gatm g)%nat ->
  spacings_2d K keqb false GG (blk obc) sp1 sp2 (gdz g) = Raise IndexError.
Proof.
  intros E Hh A. pose proof (wf_nz g W) as NZ. pose proof (wf_nx g W) as NX. pose proof (wf_ny g W) as NY.
  assert (LZ : (length (gdz g) =? 0)%nat = false) by (apply Nat.eqb_neq; unfold nz in NZ; lia).
  pose proof (own3_defect Hh A) as O3.
  unfold spacings_2d, sp1, sp2. rewrite LZ.
  destruct (Nat.eqb_spec (nx g) 1) as [E1|E1]; destruct (Nat.eqb_spec (ny g) 1) as [E2|E2]; try lia.
  - assert (LY : (length (gdy g) =? 0)%nat = false) by (apply Nat.eqb_neq; unfold ny in NY; lia).
    rewrite LY. cbn [length Nat.eqb Nat.add fold_left bind]. rewrite (own2_code ltac:(lia)). cbn [bind]. rewrite O3. reflexivity.
  - assert (LX : (length (gdx g) =? 0)%nat = false) by (apply Nat.eqb_neq; unfold nx in NX; lia).
    rewrite LX. cbn [length Nat.eqb Nat.add fold_left bind]. rewrite (own1_code ltac:(lia)). cbn [bind]. rewrite O3. reflexivity.
Qed.
Lemma block_spacings_defect (i0 j0 : nat) : (i0 < nx g)%nat -> (j0 < ny g)%nat -> goz g <= gsurf g i0 j0 ->
  (nx g = 1%nat \/ ny g = 1%nat) -> has g (nz g - 1) 0 0 = false -> (2 <= gatm g)%nat ->
  block_spacings K keqb false GG (blk obc) av = Raise IndexError.
Proof.
  intros Hi0 Hj0 Hs0 E Hh A. pose proof (wf_nz g W) as NZ. pose proof (wf_nx g W) as NX. pose proof (wf_ny g W) as NY.
  unfold block_spacings.
  rewrite (HY track1_start (Some av) (or_intror eq_refl) 0%nat ltac:(lia) (fuel_of K GG) (HY fuel_nx)). cbn [bind].
  rewrite (HY track2_start (Some av) (or_intror eq_refl) 0%nat ltac:(lia) (fuel_of K GG) (HY fuel_ny)). cbn [bind].
  destruct (topmost i0 j0 Hi0 Hj0 Hs0) as [i [j [Hi [Hj [Hs ET]]]]]. rewrite ET.
  rewrite (HY track3_down_start i j Hi Hj (fuel_of K GG) (HY fuel_nz i j Hi Hj Hs) Hs). cbn [bind fst snd].
  set (L := map blk (map (fun k => Cell k i j) (seq 1 (nz g)))).
  assert (EL : exists rest, L = blk (Cell 1 i j) :: rest).
  { unfold L. destruct (nz g) as [|m]; [lia|]. cbn [seq map]. eexists. reflexivity. }
  assert (LL : last_of L = Some (blk (Cell (nz g) i j))).
  { unfold L. rewrite map_map. destruct (nz g) as [|m] eqn:EM; [lia|]. rewrite last_of_map_seq. replace (1 + m)%nat with (S m) by lia. reflexivity. }
  destruct EL as [rest EL]. rewrite LL, EL. rewrite (cen_z_rock 1 i j ltac:(lia)), (cen_z_rock (nz g) i j ltac:(lia)). cbn [bind].
  assert (Q : qlt (zc g 1 i j) (zc g (nz g) i j) = false).
  { rewrite (HY zc1_reach i j Hi Hj Hs). rewrite (HY zc_bottom i j Hi Hj).
    pose proof (lcen_lt_top g W (nz g) ltac:(lia)) as A'. pose proof (top_le_bot g W 1 (nz g) ltac:(lia) ltac:(lia)) as B.
    pose proof (bot_lt_lcen g W 1 ltac:(lia)) as C. qc_lra. }
  rewrite Q. rewrite thick_list, dx_list, dy_list. apply spacings_2d_defect; assumption.
Qed.
End Sp.
