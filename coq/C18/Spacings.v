(** C18 -- the topmost block and block_spacings on the grid generated from a rectangular geometry. *)
From Coq Require Import List Bool Arith ZArith QArith Qcanon Lia FinFun.
From PTBase Require Import Exn.
From P Require Import Rectgeo QcFacts GeoFacts ListFacts Forward Walk Track Origin.
Import ListNotations.
Open Scope Qc_scope.

Lemma map_nth_seq {A} (l : list A) d : map (fun k => nth k l d) (seq 0 (length l)) = l.
Proof.
  induction l as [|a l IH]; [reflexivity|]. cbn [length seq map nth]. f_equal.
  rewrite <- seq_shift, map_map. exact IH.
Qed.
Lemma last_of_map_seq {A} (f : nat -> A) a m : last_of (map f (seq a (S m))) = Some (f (a + m)%nat).
Proof. rewrite seq_S, map_app. cbn [map]. apply last_of_app_single. Qed.
Lemma last_of_nth (l : list Qc) : l <> [] -> last_of l = Some (nth (length l - 1) l 0).
Proof.
  intros H. destruct (exists_last H) as [l' [x ->]]. rewrite last_of_app_single. rewrite app_length. cbn [length].
  replace (length l' + 1 - 1)%nat with (length l') by lia. rewrite app_nth2 by lia. rewrite Nat.sub_diag. reflexivity.
Qed.
Lemma single_list (l : list Qc) : length l = 1%nat -> l = [nth 0 l 0].
Proof. destruct l as [|a [|b l]]; cbn; intros H; try lia. reflexivity. Qed.
Lemma filter_first_unique {A} (p : A -> bool) l x :
  In x l -> p x = true -> (forall y, In y l -> p y = true -> y = x) -> exists rest, filter p l = x :: rest.
Proof.
  induction l as [|a l IH]; intros Hin Hp Hu; [destruct Hin|]. cbn [filter]. destruct (p a) eqn:E.
  - rewrite (Hu a (or_introl eq_refl) E). eexists. reflexivity.
  - destruct Hin as [->|Hin]; [congruence|]. apply IH; auto. intros y Hy. apply Hu. right. exact Hy.
Qed.
Lemma filter_none {A} (p : A -> bool) l : (forall y, In y l -> p y = false) -> filter p l = [].
Proof.
  induction l as [|a l IH]; intros H; [reflexivity|]. cbn [filter]. rewrite (H a (or_introl eq_refl)). apply IH.
  intros y Hy. apply H. right. exact Hy.
Qed.

Section Sp.
Set Default Proof Using "All".
Variable K : Type.
Variable keqb : K -> K -> bool.
Hypothesis keqb_spec : forall a b, keqb a b = true <-> a = b.
Variable g : rgeo.
Hypothesis W : wf g.
Variable nm : cid -> K.
Hypothesis nm_inj : forall a b, latt g a -> latt g b -> nm a = nm b -> a = b.
Variable cn : K -> list (K * K).
Hypothesis CN : cn_ok K g nm cn.
Variable av : Qc.
Hypothesis ACT : forall k i j, present g (Cell (S k) i j) -> volume g (S k) i j < av.
Hypothesis INACT : gatm g <> 2%nat -> vol_ok (Some av) (gatmvol g) = false.

Notation GG := (G K g nm cn).
Notation blk := (blk K g nm).
Notation key := (key K nm).
Local Notation HY lem := (lem K keqb keqb_spec g W nm nm_inj cn CN av ACT INACT) (only parsing).

Lemma thick_list : map (thick g) (seq 1 (nz g)) = gdz g.
Proof.
  unfold thick, nz. rewrite <- seq_shift, map_map. rewrite <- (map_nth_seq (gdz g) 0) at 2.
  apply map_ext. intros k. replace (S k - 1)%nat with k by lia. reflexivity.
Qed.
Lemma dx_list : map (dxi g) (seq 0 (nx g)) = gdx g.
Proof. unfold dxi, nx. apply map_nth_seq. Qed.
Lemma dy_list : map (dyj g) (seq 0 (ny g)) = gdy g.
Proof. unfold dyj, ny. apply map_nth_seq. Qed.

Lemma elev_rock k i j : present g (Cell (S k) i j) -> elev K (Some av) (blk (Cell (S k) i j)) = Some (zc g (S k) i j).
Proof.
  intros P. unfold elev. change (bcen (blk (Cell (S k) i j))) with (Some (ccx g i, ccy g j, zc g (S k) i j)).
  change (bvol (blk (Cell (S k) i j))) with (cvol (cellof g (Cell (S k) i j))).
  rewrite (HY volok_rock (Some av) k i j (or_intror eq_refl) P). reflexivity.
Qed.

(** the block with the highest centre among the active blocks is a layer-1 block of a column that
    reaches the top of layer 1, provided there is such a column *)
Lemma topmost (i0 j0 : nat) : (i0 < nx g)%nat -> (j0 < ny g)%nat -> goz g <= gsurf g i0 j0 ->
  exists i j, (i < nx g)%nat /\ (j < ny g)%nat /\ goz g <= gsurf g i j /\ topmost_block K GG av = Some (blk (Cell 1 i j)).
Proof.
  intros Hi0 Hj0 Hs0. pose proof (wf_nz g W) as NZ.
  assert (P0 := HY present_1 i0 j0 Hi0 Hj0 Hs0).
  assert (E0 : elev K (Some av) (blk (Cell 1 i0 j0)) = Some (lcen g 1)).
  { rewrite (elev_rock 0 i0 j0 P0). rewrite (HY zc1_reach i0 j0 Hi0 Hj0 Hs0). reflexivity. }
  assert (In0 : In (blk (Cell 1 i0 j0)) (blocks GG)).
  { unfold G, rect_blocks, Walk.blk. cbn [blocks]. apply in_map. apply present_in_cells. exact P0. }
  unfold topmost_block. pose proof (argmax_spec K (Some av) (blocks GG) None I) as M.
  destruct (argbest K (fun a b => qlt b a) (Some av) (blocks GG) None) as [x|].
  - destruct M as [zx [Ex [[Hin|[zb X]] [Mx _]]]]; [|discriminate].
    pose proof (Mx _ In0 _ E0) as Hz.
    unfold G, rect_blocks in Hin. cbn [blocks] in Hin. apply in_map_iff in Hin. destruct Hin as [c [<- Hc]].
    apply in_cells_iff in Hc. destruct Hc as [P Ec]. rewrite Ec in Ex |- *.
    destruct (cc c) as [|[|k] i j] eqn:ECC.
    + unfold elev in Ex. cbn in Ex. discriminate.
    + unfold elev in Ex. cbn [mk_block bcen bvol cellof ccen cvol] in Ex. cbn [present] in P. destruct P as [A _].
      rewrite INACT in Ex by (rewrite A; discriminate). discriminate.
    + change (mk_block nm (cellof g (Cell (S k) i j))) with (blk (Cell (S k) i j)) in *.
      rewrite (elev_rock k i j P) in Ex. inversion Ex; subst zx. cbn [present] in P. destruct P as [Hk [Hi [Hj Hh]]].
      destruct k as [|k].
      * exists i, j. split; [exact Hi|]. split; [exact Hj|]. split; [|reflexivity].
        destruct (qlt (gsurf g i j) (goz g)) eqn:Q; [|qc_lra]. exfalso.
        rewrite (zc_trunc g W 1 i j ltac:(lia) Hh) in Hz by (rewrite (top1 g W); qc_lra).
        rewrite (lcen_eq g W 1) in Hz by lia. pose proof (top_eq g W 1 ltac:(lia)) as T. rewrite (top1 g W) in T. qc_lra.
      * exfalso. pose proof (zc_le_lcen g W (S (S k)) i j Hk) as Z. pose proof (lcen_lt_top g W (S (S k)) ltac:(lia)) as L.
        pose proof (top_le_bot g W 1 (S (S k)) ltac:(lia) ltac:(lia)) as T. pose proof (bot_lt_lcen g W 1 ltac:(lia)) as B. qc_lra.
  - destruct M as [_ N]. rewrite (N _ In0) in E0. discriminate.
Qed.
End Sp.
