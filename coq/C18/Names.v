(** C18 -- the concrete block names used by the extracted driver (copied from coq/C04/FromGeo.v:
    mulgrids.py fix_blockname, block_name, atmosphere_column_name).  The theorems of C18 are
    stated over an abstract injective naming; this file only instantiates it for the
    correspondence with the implementation. *)
From Coq Require Import Ascii String List Bool Arith.
From PTBase Require Import PyStr.
From P Require Import Rectgeo.
Import ListNotations.

Open Scope char_scope.
Definition fix_blockname (n : str) : str :=
  match n with
  | c0 :: c1 :: c2 :: c3 :: c4 :: _ =>
      if is_digit c2 && is_digit c4 && ceqb c3 " " then [c0; c1; c2; "0"; c4] else n
  | _ => n
  end.
Close Scope char_scope.

Definition block_name0 (conv : nat) (ln cn : str) : str :=
  fix_blockname
    (match conv with
     | 0%nat | 3%nat => slice 0 3 cn ++ slice 0 2 ln
     | 1%nat => slice 0 3 ln ++ slice 0 2 cn
     | _ => slice 0 2 ln ++ slice 0 3 cn
     end)%list.
Definition atm_colname (conv : nat) : str :=
  nth conv [s2l "ATM"; s2l " 0"; s2l "  0"; s2l "ATM"] [].

(** the names a geometry with layer names [lays] (atmosphere layer first), column names [cols]
    (columnlist order, [n] columns per row) and convention [conv] gives its blocks *)
Definition str_naming (conv : nat) (lays cols : list str) (n : nat) (c : cid) : str :=
  match c with
  | Atm0 => block_name0 conv (nth 0 lays []) (atm_colname conv)
  | Cell k i j => block_name0 conv (nth k lays []) (nth (j * n + i) cols [])
  end.
