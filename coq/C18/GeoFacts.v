(** C18 -- the class of rectangular geometries of the property and elementary facts about layers,
    block heights and block centres. *)
From Coq Require Import List Bool Arith ZArith QArith Qcanon Lia Lqa.
From P Require Import Rectgeo QcFacts.
Import ListNotations.
Open Scope Qc_scope.

(** the geometries of the property: at least one block in each horizontal direction, at least two
    layers, positive spacings, atmosphere type 0/1/2, surfaces that leave the bottom layer complete *)
Record wf (g : rgeo) : Prop := mkWf {
  wf_nx : (1 <= nx g)%nat; wf_ny : (1 <= ny g)%nat; wf_nz : (2 <= nz g)%nat;
  wf_dx : Forall (fun d => 0 < d) (gdx g);
  wf_dy : Forall (fun d => 0 < d) (gdy g);
  wf_dz : Forall (fun d => 0 < d) (gdz g);
  wf_atm : (gatm g <= 2)%nat;
  wf_atmz : goz g <= gatmz g;                       (* the atmosphere layer is not below the top of layer 1 *)
  wf_bottom : forall i j, (i < nx g)%nat -> (j < ny g)%nat -> top g (nz g) <= gsurf g i j
}.

Lemma has_spec g k i j : has g k i j = true <-> bot g k < gsurf g i j.
Proof. unfold has. apply qlt_spec. Qed.

Lemma bot0 g : bot g 0 = goz g.
Proof. unfold bot. cbn [firstn qsum]. ring. Qed.

Section Geo.
Set Default Proof Using "All".
Variable g : rgeo.
Hypothesis W : wf g.

Lemma thick_pos k : (1 <= k <= nz g)%nat -> 0 < thick g k.
Proof. intros H. unfold thick. apply Forall_nth_pos; [apply W|]. unfold nz in H. lia. Qed.
Lemma dxi_pos i : (i < nx g)%nat -> 0 < dxi g i.
Proof. intros H. unfold dxi. apply Forall_nth_pos; [apply W|exact H]. Qed.
Lemma dyj_pos j : (j < ny g)%nat -> 0 < dyj g j.
Proof. intros H. unfold dyj. apply Forall_nth_pos; [apply W|exact H]. Qed.
Lemma area_pos i j : (i < nx g)%nat -> (j < ny g)%nat -> 0 < area g i j.
Proof. intros. apply qmul_pos; [apply dxi_pos|apply dyj_pos]; assumption. Qed.

Lemma bot_pred k : (1 <= k <= nz g)%nat -> bot g (k - 1) = bot g k + thick g k.
Proof.
  intros H. unfold bot, thick. destruct k as [|k]; [lia|].
  replace (S k - 1)%nat with k by lia. rewrite (qsum_firstn_S (gdz g) k) by (unfold nz in H; lia). ring.
Qed.
Lemma top_eq k : (1 <= k <= nz g)%nat -> top g k = bot g k + thick g k.
Proof. intros. unfold top. apply bot_pred. assumption. Qed.
Lemma bot_mono k m : (k <= m)%nat -> (m <= nz g)%nat -> bot g m <= bot g k.
Proof.
  intros Hkm Hm. unfold bot. pose proof (qsum_firstn_mono (gdz g) k m (wf_dz g W) Hkm Hm) as M. qc_lra.
Qed.
Lemma bot_strict k m : (k < m)%nat -> (m <= nz g)%nat -> bot g m < bot g k.
Proof.
  intros Hkm Hm. unfold bot. pose proof (qsum_firstn_strict (gdz g) k m (wf_dz g W) Hkm Hm) as M. qc_lra.
Qed.
Lemma lcen_eq k : (1 <= k)%nat -> lcen g k = bot g k + thick g k * half.
Proof. destruct k; [lia|reflexivity]. Qed.
Lemma bot_lt_lcen k : (1 <= k <= nz g)%nat -> bot g k < lcen g k.
Proof. intros H. rewrite lcen_eq by lia. pose proof (thick_pos k H). qc_lra. Qed.
Lemma lcen_lt_top k : (1 <= k <= nz g)%nat -> lcen g k < top g k.
Proof. intros H. rewrite lcen_eq by lia. rewrite top_eq by lia. pose proof (thick_pos k H). qc_lra. Qed.
Lemma top_le_bot k m : (k < m)%nat -> (m <= nz g)%nat -> top g m <= bot g k.
Proof. intros. unfold top. apply bot_mono; lia. Qed.

Lemma has_mono k m i j : has g k i j = true -> (k <= m)%nat -> (m <= nz g)%nat -> has g m i j = true.
Proof.
  rewrite !has_spec. intros H Hkm Hm. pose proof (bot_mono k m Hkm Hm). qc_lra.
Qed.
Lemma has_bottom i j : (i < nx g)%nat -> (j < ny g)%nat -> has g (nz g) i j = true.
Proof.
  intros Hi Hj. rewrite has_spec. pose proof (wf_bottom g W i j Hi Hj) as B.
  pose proof (wf_nz g W). rewrite top_eq in B by lia. pose proof (thick_pos (nz g) ltac:(lia)). qc_lra.
Qed.
(** a block below another block of its column is complete *)
Lemma has_above_surface k i j : (2 <= k <= nz g)%nat -> has g (k - 1) i j = true -> top g k < gsurf g i j.
Proof. intros Hk. rewrite has_spec. unfold top. auto. Qed.
Lemma no_above_surface k i j : (2 <= k <= nz g)%nat -> has g (k - 1) i j = false -> gsurf g i j <= top g k.
Proof. intros Hk H. unfold has in H. unfold top. qc_lra. Qed.

Lemma height_full k i j : (2 <= k <= nz g)%nat -> top g k < gsurf g i j -> height g k i j = thick g k.
Proof.
  intros Hk Hs. unfold height, block_surface.
  assert (E1 : qlt (gsurf g i j) (top g k) = false) by qc_lra. rewrite E1.
  replace (k =? 1)%nat with false by (symmetry; apply Nat.eqb_neq; lia).
  rewrite top_eq by lia. destruct (qlt (goz g) (gsurf g i j)); ring.
Qed.
Lemma zc_full k i j : (1 <= k <= nz g)%nat -> top g k < gsurf g i j -> zc g k i j = lcen g k.
Proof.
  intros Hk Hs. unfold zc. assert (E : qle (gsurf g i j) (top g k) = false) by qc_lra.
  rewrite E, andb_false_r. reflexivity.
Qed.
(** the top block of a column: truncated, exact or (layer 1 only) reaching above the top *)
Lemma zc_trunc k i j : (1 <= k <= nz g)%nat -> has g k i j = true -> gsurf g i j <= top g k ->
  zc g k i j = half * (bot g k + gsurf g i j).
Proof.
  intros Hk Hh Hs. unfold zc. unfold has in Hh. rewrite Hh.
  assert (E : qle (gsurf g i j) (top g k) = true) by qc_lra. rewrite E. reflexivity.
Qed.
Lemma height_trunc k i j : (1 <= k <= nz g)%nat -> gsurf g i j <= top g k -> height g k i j = gsurf g i j - bot g k.
Proof.
  intros Hk Hs. unfold height, block_surface.
  destruct (qlt (gsurf g i j) (top g k)) eqn:E1; [reflexivity|].
  assert (Es : gsurf g i j = top g k) by qc_lra.
  assert (E2 : qlt (goz g) (gsurf g i j) = false).
  { pose proof (bot_mono 0 (k - 1) ltac:(lia) ltac:(lia)) as M. unfold top in Es. unfold bot in M at 2. cbn [firstn qsum] in M.
    rewrite Es. qc_lra. }
  rewrite E2. rewrite Es. reflexivity.
Qed.
Lemma height_above i j : goz g < gsurf g i j -> height g 1 i j = gsurf g i j - bot g 1.
Proof.
  intros Hs. unfold height, block_surface.
  assert (T : top g 1 = goz g). { unfold top, bot. cbn [Nat.sub firstn qsum]. ring. }
  rewrite T. assert (E1 : qlt (gsurf g i j) (goz g) = false) by qc_lra. rewrite E1.
  assert (E2 : qlt (goz g) (gsurf g i j) = true) by qc_lra. rewrite E2. reflexivity.
Qed.
Lemma top1 : top g 1 = goz g.
Proof. unfold top, bot. cbn [Nat.sub firstn qsum]. ring. Qed.
Lemma height_pos k i j : (1 <= k <= nz g)%nat -> has g k i j = true -> 0 < height g k i j.
Proof.
  intros Hk Hh. rewrite has_spec in Hh. unfold height, block_surface.
  pose proof (thick_pos k Hk) as T. pose proof (top_eq k Hk) as E.
  destruct (qlt (gsurf g i j) (top g k)) eqn:E1; [qc_lra|].
  destruct (qlt (goz g) (gsurf g i j)) eqn:E2; [destruct (k =? 1)%nat|]; qc_lra.
Qed.
Lemma volume_pos k i j : (1 <= k <= nz g)%nat -> (i < nx g)%nat -> (j < ny g)%nat -> has g k i j = true -> 0 < volume g k i j.
Proof. intros. apply qmul_pos; [apply height_pos|apply area_pos]; assumption. Qed.
Lemma zc_gt_bot k i j : (1 <= k <= nz g)%nat -> has g k i j = true -> bot g k < zc g k i j.
Proof.
  intros Hk Hh. unfold zc. pose proof (bot_lt_lcen k Hk). rewrite has_spec in Hh.
  destruct (qlt (bot g k) (gsurf g i j) && qle (gsurf g i j) (top g k)); qc_lra.
Qed.
Lemma zc_le_lcen k i j : (1 <= k <= nz g)%nat -> zc g k i j <= lcen g k.
Proof.
  intros Hk. unfold zc. destruct (qlt (bot g k) (gsurf g i j) && qle (gsurf g i j) (top g k)) eqn:E.
  - apply andb_prop in E. destruct E as [E1 E2]. rewrite lcen_eq by lia. rewrite top_eq in E2 by lia. qc_lra.
  - apply Qcle_refl.
Qed.
End Geo.
