(** C18 -- block_mapping on the grid generated from a rectangular geometry: the assignment log and
    what the resulting dictionary answers. *)
From Coq Require Import List Bool Arith ZArith QArith Qcanon Lia.
From PTBase Require Import Exn.
From P Require Import Rectgeo QcFacts GeoFacts ListFacts Forward Walk Track Origin Spacings.
Import ListNotations.
Open Scope Qc_scope.

Lemma rev_seq_S n : rev (seq 0 (S n)) = n :: rev (seq 0 n).
Proof. rewrite seq_S. rewrite rev_app_distr. reflexivity. Qed.

Section Map.
Set Default Proof Using "All".
Variable K : Type.
Variable keqb : K -> K -> bool.
Hypothesis keqb_spec : forall a b, keqb a b = true <-> a = b.
Variable g : rgeo.
Hypothesis W : wf g.
Variable nm : cid -> K.
Hypothesis nm_inj : forall a b, latt g a -> latt g b -> nm a = nm b -> a = b.
Variable cn : K -> list (K * K).
Hypothesis CN : cn_ok K g nm cn.
Variable av : Qc.
Hypothesis ACT : forall k i j, present g (Cell (S k) i j) -> volume g (S k) i j < av.
Hypothesis INACT : gatm g <> 2%nat -> vol_ok (Some av) (gatmvol g) = false.
(** the naming of the new geometry *)
Variable nm' : cid -> K.
Hypothesis nm'_inj : forall a b, latt g a -> latt g b -> nm' a = nm' b -> a = b.

Notation GG := (G K g nm cn).
Notation blk := (blk K g nm).
Notation key := (key K nm).
Local Notation HY lem := (lem K keqb keqb_spec g W nm nm_inj cn CN av ACT INACT) (only parsing).

(** ** the expected log *)
Definition atm_entry (a : nat) (i j : nat) : list (K * K) :=
  match a with
  | 0%nat => [(nm' Atm0, nm Atm0)]
  | 1%nat => [(nm' (Cell 0 i j), nm (Cell 0 i j))]
  | _ => []
  end.
Fixpoint col_log (i j k : nat) : list (K * K) :=
  match k with
  | O => []
  | S k' => (nm' (Cell (S k') i j), nm (Cell (S k') i j)) ::
            (if (2 <=? S k')%nat && has g k' i j then col_log i j k' else atm_entry (gatm g) i j)
  end.
Definition full_log : list (K * K) :=
  flat_map (fun j => flat_map (fun i => col_log i j (nz g)) (seq 0 (nx g))) (seq 0 (ny g)).

Lemma col_walk_ok i j : (i < nx g)%nat -> (j < ny g)%nat -> forall k last, (1 <= k <= nz g)%nat -> present g (Cell k i j) -> from_below g last k i j ->
  col_walk K keqb GG av (gatm g) nm' i j (rev (seq 0 (S k))) (blk (Cell k i j)) (option_map nm last) = col_log i j k.
Proof.
  intros Hi Hj. induction k as [|k IH]; intros last Hk P FB; [lia|].
  rewrite rev_seq_S. cbn [col_walk col_log]. rewrite (HY bkey_blk). f_equal.
  destruct ((2 <=? S k)%nat && has g k i j) eqn:E.
  - apply andb_prop in E. destruct E as [E1 E2]. apply Nat.leb_le in E1.
    assert (Hh : has g (S k - 1) i j = true) by (replace (S k - 1)%nat with k by lia; exact E2).
    rewrite (HY next3_up_some last (S k) i j ltac:(lia) P Hh FB). replace (S k - 1)%nat with k by lia.
    change (Some (nm (Cell (S k) i j))) with (option_map nm (Some (Cell (S k) i j))).
    apply IH; [lia| |right; split; [reflexivity|lia]].
    destruct (present_rock g (S k) i j P ltac:(lia)) as [_ [_ [_ _]]]. apply rock_present; auto; lia.
  - assert (T : is_top g (S k) i j).
    { unfold is_top. apply andb_false_elim in E. destruct E as [E|E]; [apply Nat.leb_gt in E; left; lia|right].
      replace (S k - 1)%nat with k by lia. exact E. }
    rewrite (HY next3_up_none last (S k) i j ltac:(lia) P T FB).
    destruct (atm_cases g W) as [A|[A|A]].
    + rewrite (HY next3_atm0 last (S k) i j ltac:(lia) P T FB A). rewrite A. cbn [atm_entry]. rewrite (HY bkey_blk). reflexivity.
    + rewrite (HY next3_atm1 last (S k) i j ltac:(lia) P T FB A). rewrite A. cbn [atm_entry]. rewrite (HY bkey_blk). reflexivity.
    + rewrite (HY next3_atm2 last (S k) i j ltac:(lia) P T FB A). destruct (gatm g) as [|[|n]]; [lia|lia|reflexivity].
Qed.

Notation kz := (nz g).
Lemma bottom_cell_present i j : (i < nx g)%nat -> (j < ny g)%nat -> present g (Cell kz i j).
Proof. intros Hi Hj. pose proof (wf_nz g W). apply rock_present; try lia. apply has_bottom; assumption. Qed.

Lemma row_walk_ok j : (j < ny g)%nat -> forall n i, (i + n = nx g)%nat ->
  row_walk K keqb GG av (gatm g) nm' kz j (seq i n) (if (n =? 0)%nat then None else Some (blk (Cell kz i j))) (option_map nm (last1 kz i j)) =
  Ok (flat_map (fun i' => col_log i' j kz) (seq i n)).
Proof.
  intros Hj. pose proof (wf_nz g W) as NZ. induction n as [|n IH]; intros i Hn; [reflexivity|].
  change (seq i (S n)) with (i :: seq (S i) n). cbn [Nat.eqb row_walk flat_map]. assert (P := bottom_cell_present i j ltac:(lia) Hj).
  pose proof (col_walk_ok i j ltac:(lia) Hj kz None ltac:(lia) P ltac:(left; split; reflexivity)) as CW. cbn [option_map] in CW.
  rewrite CW. clear CW. rewrite (HY bkey_blk).
  destruct (Nat.eqb_spec n 0) as [E|E].
  - subst n. cbn [seq row_walk bind flat_map]. destruct (next_block K keqb GG (nm (Cell kz i j)) (option_map nm (last1 kz i j)) 1 (Some av)) as [[b c]|]; reflexivity.
  - rewrite (HY next1_some (Some av) kz i j (or_intror eq_refl) ltac:(lia) P ltac:(lia)) by (apply has_bottom; [exact W|lia|exact Hj]).
    change (Some (nm (Cell kz i j))) with (option_map nm (last1 kz (S i) j)).
    specialize (IH (S i) ltac:(lia)). replace (n =? 0)%nat with false in IH by (symmetry; apply Nat.eqb_neq; exact E).
    rewrite IH. reflexivity.
Qed.

Lemma rows_walk_ok : forall n j, (j + n = ny g)%nat ->
  rows_walk K keqb GG av (gatm g) nm' (nx g) kz (seq j n) (if (n =? 0)%nat then None else Some (blk (Cell kz 0 j))) (option_map nm (last2 kz 0 j)) =
  Ok (flat_map (fun j' => flat_map (fun i' => col_log i' j' kz) (seq 0 (nx g))) (seq j n)).
Proof.
  pose proof (wf_nz g W) as NZ. pose proof (wf_nx g W) as NX. induction n as [|n IH]; intros j Hn; [reflexivity|].
  change (seq j (S n)) with (j :: seq (S j) n). cbn [Nat.eqb rows_walk flat_map]. assert (P := bottom_cell_present 0 j ltac:(lia) ltac:(lia)).
  pose proof (row_walk_ok j ltac:(lia) (nx g) 0 ltac:(lia)) as R. replace (nx g =? 0)%nat with false in R by (symmetry; apply Nat.eqb_neq; lia).
  cbn [last1 option_map] in R. rewrite R. cbn [bind]. rewrite (HY bkey_blk).
  destruct (Nat.eqb_spec n 0) as [E|E].
  - subst n. cbn [seq rows_walk bind flat_map]. destruct (next_block K keqb GG (nm (Cell kz 0 j)) (option_map nm (last2 kz 0 j)) 2 (Some av)) as [[b c]|]; reflexivity.
  - rewrite (HY next2_some (Some av) kz 0 j (or_intror eq_refl) ltac:(lia) P ltac:(lia)) by (apply has_bottom; [exact W|lia|lia]).
    change (Some (nm (Cell kz 0 j))) with (option_map nm (last2 kz 0 (S j))).
    specialize (IH (S j) ltac:(lia)). replace (n =? 0)%nat with false in IH by (symmetry; apply Nat.eqb_neq; exact E).
    rewrite IH. reflexivity.
Qed.

Lemma block_mapping_ok :
  block_mapping K keqb GG (blk (Cell kz 0 0)) (nx g) (ny g) kz av (gatm g) nm' = Ok full_log.
Proof.
  pose proof (wf_ny g W) as NY. unfold block_mapping, full_log.
  pose proof (rows_walk_ok (ny g) 0 ltac:(lia)) as R. replace (ny g =? 0)%nat with false in R by (symmetry; apply Nat.eqb_neq; lia).
  exact R.
Qed.

(** ** what the dictionary answers *)
Lemma lookup_in k log w : lookup K keqb k log = Some w -> In (k, w) log.
Proof.
  induction log as [|[a v] r IH]; cbn [lookup]; [discriminate|]. destruct (lookup K keqb k r) as [w'|] eqn:E.
  - intros X. inversion X; subst. right. apply IH. reflexivity.
  - destruct (keqb a k) eqn:Q; [|discriminate]. intros X. inversion X; subst. apply keqb_spec in Q. subst. left. reflexivity.
Qed.
Lemma lookup_of_in k v log : In (k, v) log -> lookup K keqb k log <> None.
Proof.
  induction log as [|[a v'] r IH]; cbn [lookup In]; [tauto|]. intros [X|X].
  - inversion X; subst. destruct (lookup K keqb k r); [discriminate|]. rewrite (proj2 (keqb_spec k k) eq_refl). discriminate.
  - specialize (IH X). destruct (lookup K keqb k r); [discriminate|]. congruence.
Qed.
Definition functional (log : list (K * K)) : Prop := forall a v, In (a, v) log -> exists c, latt g c /\ a = nm' c /\ v = nm c.
Lemma lookup_functional log c : functional log -> latt g c -> In (nm' c, nm c) log -> lookup K keqb (nm' c) log = Some (nm c).
Proof.
  intros F L Hin. destruct (lookup K keqb (nm' c) log) as [w|] eqn:E.
  - apply lookup_in in E. destruct (F _ _ E) as [c' [L' [E1 E2]]]. apply nm'_inj in E1; auto. subst. reflexivity.
  - exfalso. exact (lookup_of_in _ _ _ Hin E).
Qed.

Lemma atm_entry_functional i j : (i < nx g)%nat -> (j < ny g)%nat -> functional (atm_entry (gatm g) i j).
Proof.
  intros Hi Hj a v Hin. unfold atm_entry in Hin. destruct (gatm g) as [|[|n]].
  - destruct Hin as [X|[]]. inversion X. exists Atm0. cbn. auto.
  - destruct Hin as [X|[]]. inversion X. exists (Cell 0 i j). cbn. repeat split; auto; lia.
  - destruct Hin.
Qed.
Lemma col_log_functional i j : (i < nx g)%nat -> (j < ny g)%nat -> forall k, (k <= nz g)%nat -> functional (col_log i j k).
Proof.
  intros Hi Hj. induction k as [|k IH]; intros Hk a v Hin; [destruct Hin|]. cbn [col_log] in Hin. destruct Hin as [X|Hin].
  - inversion X. exists (Cell (S k) i j). cbn. repeat split; auto.
  - destruct ((2 <=? S k)%nat && has g k i j); [apply (IH ltac:(lia)); exact Hin|apply (atm_entry_functional i j Hi Hj); exact Hin].
Qed.
Lemma full_log_functional : functional full_log.
Proof.
  intros a v Hin. unfold full_log in Hin. apply in_flat_map in Hin. destruct Hin as [j [Hj Hin]]. apply in_seq in Hj.
  apply in_flat_map in Hin. destruct Hin as [i [Hi Hin]]. apply in_seq in Hi.
  apply (col_log_functional i j ltac:(lia) ltac:(lia) (nz g) ltac:(lia)). exact Hin.
Qed.
Lemma col_log_in i j k' : (1 <= k')%nat -> has g k' i j = true -> forall k, (k' <= k <= nz g)%nat ->
  In (nm' (Cell k' i j), nm (Cell k' i j)) (col_log i j k).
Proof.
  intros Hk' Hh. induction k as [|k IH]; intros Hk; [lia|]. cbn [col_log].
  destruct (Nat.eq_dec k' (S k)) as [->|N]; [left; reflexivity|]. right.
  assert (E : (2 <=? S k)%nat && has g k i j = true).
  { apply andb_true_intro. split; [apply Nat.leb_le; lia|]. apply (has_mono g W k' k i j Hh); lia. }
  rewrite E. apply IH. lia.
Qed.
Lemma col_log_atm i j : forall k, (1 <= k)%nat -> incl (atm_entry (gatm g) i j) (col_log i j k).
Proof.
  induction k as [|k IH]; intros Hk; [lia|]. cbn [col_log]. intros e He. right.
  destruct ((2 <=? S k)%nat && has g k i j) eqn:E; [|exact He]. apply andb_prop in E. destruct E as [E _]. apply Nat.leb_le in E.
  apply IH; [lia|exact He].
Qed.
Lemma in_full_log i j e : (i < nx g)%nat -> (j < ny g)%nat -> In e (col_log i j (nz g)) -> In e full_log.
Proof.
  intros Hi Hj He. unfold full_log. apply in_flat_map. exists j. split; [apply in_seq; lia|]. apply in_flat_map. exists i.
  split; [apply in_seq; lia|exact He].
Qed.
(** the block map sends the name the new geometry gives a cell to the name the original grid gives it *)
Lemma full_log_lookup c : present g c -> lookup K keqb (nm' c) full_log = Some (nm c).
Proof.
  intros P. pose proof (wf_nz g W) as NZ. pose proof (wf_nx g W) as NX. pose proof (wf_ny g W) as NY.
  apply lookup_functional; [exact full_log_functional|exact (present_latt g c P)|].
  destruct c as [|[|k] i j]; cbn [present] in P.
  - apply (in_full_log 0 0); try lia. apply (col_log_atm 0 0 (nz g)); [lia|]. rewrite P. left. reflexivity.
  - destruct P as [A [Hi Hj]]. apply (in_full_log i j _ Hi Hj). apply (col_log_atm i j (nz g)); [lia|]. rewrite A. left. reflexivity.
  - destruct P as [Hk [Hi [Hj Hh]]]. apply (in_full_log i j _ Hi Hj). apply col_log_in; auto; lia.
Qed.
(** pruning keeps the keys of the new geometry's blocks *)
Lemma lookup_filter (p : K -> bool) k log : p k = true -> lookup K keqb k (filter (fun e => p (fst e)) log) = lookup K keqb k log.
Proof.
  intros Pk. induction log as [|[a v] r IH]; [reflexivity|]. cbn [filter fst]. destruct (p a) eqn:Pa.
  - cbn [lookup]. rewrite IH. reflexivity.
  - cbn [lookup]. rewrite IH. destruct (lookup K keqb k r); [reflexivity|].
    destruct (keqb a k) eqn:Q; [|reflexivity]. apply keqb_spec in Q. subst. congruence.
Qed.
End Map.
