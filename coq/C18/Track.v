(** C18 -- block_direction_track on the grid generated from a rectangular geometry. *)
From Coq Require Import List Bool Arith ZArith QArith Qcanon Lia.
From PTBase Require Import Exn.
From P Require Import Rectgeo QcFacts GeoFacts ListFacts Forward Walk.
Import ListNotations.
Open Scope Qc_scope.

Lemma last_of_cons_some {A} (x : A) l y : last_of l = Some y -> last_of (x :: l) = Some y.
Proof. intros H. rewrite last_of_cons; [exact H|]. intros ->. discriminate H. Qed.

(** the top layer index of column (i, j) seen from layer k upwards *)
Fixpoint ktop_from (g : rgeo) (i j k : nat) : nat :=
  match k with
  | O => O
  | S k' => if (2 <=? S k')%nat && has g k' i j then ktop_from g i j k' else S k'
  end.
Definition ktop (g : rgeo) (i j : nat) : nat := ktop_from g i j (nz g).

Section Tracks.
Set Default Proof Using "All".
Variable K : Type.
Variable keqb : K -> K -> bool.
Hypothesis keqb_spec : forall a b, keqb a b = true <-> a = b.
Variable g : rgeo.
Hypothesis W : wf g.
Variable nm : cid -> K.
Hypothesis nm_inj : forall a b, latt g a -> latt g b -> nm a = nm b -> a = b.
Variable cn : K -> list (K * K).
Hypothesis CN : cn_ok K g nm cn.
Variable av : Qc.
Hypothesis ACT : forall k i j, present g (Cell (S k) i j) -> volume g (S k) i j < av.
Hypothesis INACT : gatm g <> 2%nat -> vol_ok (Some av) (gatmvol g) = false.

Notation GG := (G K g nm cn).
Notation blk := (blk K g nm).
Notation key := (key K nm).
Notation mvok := (mvok av).
Local Notation DAL := (dist_at_link K keqb keqb_spec g nm nm_inj cn CN).
Local Notation HY := (K keqb keqb_spec g W nm nm_inj cn CN av ACT INACT) (only parsing).
Local Notation N1S := (next1_some K keqb keqb_spec g W nm nm_inj cn CN av ACT INACT).
Local Notation N1N := (next1_none K keqb keqb_spec g W nm nm_inj cn CN av ACT INACT).
Local Notation N2S := (next2_some K keqb keqb_spec g W nm nm_inj cn CN av ACT INACT).
Local Notation N2N := (next2_none K keqb keqb_spec g W nm nm_inj cn CN av ACT INACT).
Local Notation VOLOK := (volok_rock K keqb keqb_spec g W nm nm_inj cn CN av ACT INACT).

Lemma bkey_blk c : bkey (blk c) = nm c.
Proof. unfold Walk.blk, mk_block. cbn [bkey]. rewrite cc_cellof. reflexivity. Qed.
Lemma bvol_blk c : bvol (blk c) = cvol (cellof g c).
Proof. reflexivity. Qed.
Lemma bcen_blk c : bcen (blk c) = ccen (cellof g c).
Proof. reflexivity. Qed.

Lemma ktop_from_spec i j k : (1 <= k <= nz g)%nat -> has g k i j = true ->
  (1 <= ktop_from g i j k <= k)%nat /\ has g (ktop_from g i j k) i j = true /\ is_top g (ktop_from g i j k) i j.
Proof.
  induction k as [|k IH]; intros Hk Hh; [lia|]. cbn [ktop_from].
  destruct ((2 <=? S k)%nat && has g k i j) eqn:E.
  - apply andb_prop in E. destruct E as [E1 E2]. apply Nat.leb_le in E1.
    destruct (IH ltac:(lia) E2) as [A [B C]]. split; [lia|]. split; assumption.
  - split; [lia|]. split; [exact Hh|]. unfold is_top. apply andb_false_elim in E. destruct E as [E|E].
    + apply Nat.leb_gt in E. left. lia.
    + right. replace (S k - 1)%nat with k by lia. exact E.
Qed.

(** ** rows: direction 1 along the bottom layer *)
Section Row.
Variable mv : option Qc.
Hypothesis MV : mvok mv.
Variable j : nat.
Hypothesis Hj : (j < ny g)%nat.
Notation kz := (nz g).

Lemma bottom_present i : (i < nx g)%nat -> present g (Cell kz i j).
Proof. intros Hi. pose proof (wf_nz g W). apply rock_present; auto; try lia. apply has_bottom; assumption. Qed.

Lemma volok_blk k i' j' : (1 <= k)%nat -> present g (Cell k i' j') -> vol_ok mv (bvol (blk (Cell k i' j'))) = true.
Proof. intros Hk P. rewrite bvol_blk. destruct k; [lia|]. apply VOLOK; assumption. Qed.

Lemma track1_inner n : forall i0 f, (S i0 + n = nx g - 1)%nat -> (n < f)%nat ->
  track K keqb f GG 1 mv (blk (Cell kz (S i0) j)) (Some (nm (Cell kz i0 j))) (Some (key (xlink g kz i0 j))) =
  Ok (map blk (map (fun i' => Cell kz i' j) (seq (S i0) (S n))), map (dxi g) (seq (S i0) (S n))).
Proof.
  pose proof (wf_nz g W) as NZ.
  induction n as [|n IH]; intros i0 f Hn Hf; (destruct f as [|f]; [lia|]); cbn [track].
  - assert (P := bottom_present (S i0) ltac:(lia)). rewrite bkey_blk.
    rewrite (volok_blk kz (S i0) j ltac:(lia) P).
    change (Some (nm (Cell kz i0 j))) with (option_map nm (last1 kz (S i0) j)).
    rewrite (N1N mv kz (S i0) j ltac:(lia) P) by lia.
    assert (S0 : link_shape g (xlink g kz i0 j)) by (apply LX; try lia; try assumption; apply has_bottom; auto; lia).
    unfold key. rewrite (DAL (xlink g kz i0 j) (Cell kz (S i0) j) S0 (present_latt g _ P)).
    cbn [xlink la lda ldb]. replace (cid_eqb (Cell kz i0 j) (Cell kz (S i0) j)) with false
      by (symmetry; apply cid_eqb_neq; intro X; inversion X; lia).
    cbn [seq map]. rewrite two_half. reflexivity.
  - assert (P := bottom_present (S i0) ltac:(lia)). rewrite bkey_blk.
    rewrite (volok_blk kz (S i0) j ltac:(lia) P).
    change (Some (nm (Cell kz i0 j))) with (option_map nm (last1 kz (S i0) j)).
    rewrite (N1S mv kz (S i0) j MV ltac:(lia) P ltac:(lia)) by (apply has_bottom; auto; lia).
    rewrite (IH (S i0) f ltac:(lia) ltac:(lia)). cbn [bind fst snd app].
    assert (S0 : link_shape g (xlink g kz (S i0) j)) by (apply LX; try lia; try assumption; apply has_bottom; auto; lia).
    unfold key. rewrite (DAL (xlink g kz (S i0) j) (Cell kz (S i0) j) S0 (present_latt g _ P)).
    cbn [xlink la lda]. rewrite cid_eqb_refl. rewrite two_half.
    change (seq (S i0) (S (S n))) with (S i0 :: seq (S (S i0)) (S n)). reflexivity.
Qed.

Lemma track1_start f : (nx g <= f)%nat ->
  track K keqb f GG 1 mv (blk (Cell kz 0 j)) None None =
  Ok (map blk (map (fun i' => Cell kz i' j) (seq 0 (nx g))), if (nx g =? 1)%nat then [] else map (dxi g) (seq 0 (nx g))).
Proof.
  intros Hf. pose proof (wf_nz g W) as NZ. pose proof (wf_nx g W) as NX.
  destruct f as [|f]; [lia|]. cbn [track].
  assert (P := bottom_present 0 ltac:(lia)). rewrite bkey_blk.
  rewrite (volok_blk kz 0 j ltac:(lia) P).
  change (@None K) with (option_map nm (last1 kz 0 j)) at 1.
  destruct (Nat.eqb_spec (nx g) 1) as [E1|E1].
  - rewrite (N1N mv kz 0 j ltac:(lia) P) by lia. rewrite E1. reflexivity.
  - rewrite (N1S mv kz 0 j MV ltac:(lia) P ltac:(lia)) by (apply has_bottom; auto; lia).
    rewrite (track1_inner (nx g - 2) 0 f ltac:(lia) ltac:(lia)). cbn [bind fst snd app].
    assert (S0 : link_shape g (xlink g kz 0 j)) by (apply LX; try lia; try assumption; apply has_bottom; auto; lia).
    unfold key. rewrite (DAL (xlink g kz 0 j) (Cell kz 0 j) S0 (present_latt g _ P)).
    cbn [xlink la lda]. rewrite cid_eqb_refl. rewrite two_half.
    replace (nx g) with (S (S (nx g - 2))) at 3 4 by lia. reflexivity.
Qed.
End Row.

(** ** columns of the bottom layer: direction 2 *)
Section Col.
Variable mv : option Qc.
Hypothesis MV : mvok mv.
Variable i : nat.
Hypothesis Hi : (i < nx g)%nat.
Notation kz := (nz g).

Lemma bottom_present' j : (j < ny g)%nat -> present g (Cell kz i j).
Proof. intros Hj. pose proof (wf_nz g W). apply rock_present; auto; try lia. apply has_bottom; assumption. Qed.
Lemma volok_blk2 k i' j' : (1 <= k)%nat -> present g (Cell k i' j') -> vol_ok mv (bvol (blk (Cell k i' j'))) = true.
Proof. intros Hk P. rewrite bvol_blk. destruct k; [lia|]. apply VOLOK; assumption. Qed.

Lemma track2_inner n : forall j0 f, (S j0 + n = ny g - 1)%nat -> (n < f)%nat ->
  track K keqb f GG 2 mv (blk (Cell kz i (S j0))) (Some (nm (Cell kz i j0))) (Some (key (ylink g kz i j0))) =
  Ok (map blk (map (fun j' => Cell kz i j') (seq (S j0) (S n))), map (dyj g) (seq (S j0) (S n))).
Proof.
  pose proof (wf_nz g W) as NZ.
  induction n as [|n IH]; intros j0 f Hn Hf; (destruct f as [|f]; [lia|]); cbn [track].
  - assert (P := bottom_present' (S j0) ltac:(lia)). rewrite bkey_blk.
    rewrite (volok_blk2 kz i (S j0) ltac:(lia) P).
    change (Some (nm (Cell kz i j0))) with (option_map nm (last2 kz i (S j0))).
    rewrite (N2N mv kz i (S j0) ltac:(lia) P) by lia.
    assert (S0 : link_shape g (ylink g kz i j0)) by (apply LY; try lia; try assumption; apply has_bottom; auto; lia).
    unfold key. rewrite (DAL (ylink g kz i j0) (Cell kz i (S j0)) S0 (present_latt g _ P)).
    cbn [ylink la lda ldb]. replace (cid_eqb (Cell kz i j0) (Cell kz i (S j0))) with false
      by (symmetry; apply cid_eqb_neq; intro X; inversion X; lia).
    cbn [seq map]. rewrite two_half. reflexivity.
  - assert (P := bottom_present' (S j0) ltac:(lia)). rewrite bkey_blk.
    rewrite (volok_blk2 kz i (S j0) ltac:(lia) P).
    change (Some (nm (Cell kz i j0))) with (option_map nm (last2 kz i (S j0))).
    rewrite (N2S mv kz i (S j0) MV ltac:(lia) P ltac:(lia)) by (apply has_bottom; auto; lia).
    rewrite (IH (S j0) f ltac:(lia) ltac:(lia)). cbn [bind fst snd app].
    assert (S0 : link_shape g (ylink g kz i (S j0))) by (apply LY; try lia; try assumption; apply has_bottom; auto; lia).
    unfold key. rewrite (DAL (ylink g kz i (S j0)) (Cell kz i (S j0)) S0 (present_latt g _ P)).
    cbn [ylink la lda]. rewrite cid_eqb_refl. rewrite two_half.
    change (seq (S j0) (S (S n))) with (S j0 :: seq (S (S j0)) (S n)). reflexivity.
Qed.

Lemma track2_start f : (ny g <= f)%nat ->
  track K keqb f GG 2 mv (blk (Cell kz i 0)) None None =
  Ok (map blk (map (fun j' => Cell kz i j') (seq 0 (ny g))), if (ny g =? 1)%nat then [] else map (dyj g) (seq 0 (ny g))).
Proof.
  intros Hf. pose proof (wf_nz g W) as NZ. pose proof (wf_ny g W) as NX.
  destruct f as [|f]; [lia|]. cbn [track].
  assert (P := bottom_present' 0 ltac:(lia)). rewrite bkey_blk.
  rewrite (volok_blk2 kz i 0 ltac:(lia) P).
  change (@None K) with (option_map nm (last2 kz i 0)) at 1.
  destruct (Nat.eqb_spec (ny g) 1) as [E1|E1].
  - rewrite (N2N mv kz i 0 ltac:(lia) P) by lia. rewrite E1. reflexivity.
  - rewrite (N2S mv kz i 0 MV ltac:(lia) P ltac:(lia)) by (apply has_bottom; auto; lia).
    rewrite (track2_inner (ny g - 2) 0 f ltac:(lia) ltac:(lia)). cbn [bind fst snd app].
    assert (S0 : link_shape g (ylink g kz i 0)) by (apply LY; try lia; try assumption; apply has_bottom; auto; lia).
    unfold key. rewrite (DAL (ylink g kz i 0) (Cell kz i 0) S0 (present_latt g _ P)).
    cbn [ylink la lda]. rewrite cid_eqb_refl. rewrite two_half.
    replace (ny g) with (S (S (ny g - 2))) at 3 4 by lia. reflexivity.
Qed.
End Col.

(** ** a column: direction 3 *)
Section Vert.
Variable i j : nat.
Hypothesis Hi : (i < nx g)%nat.
Hypothesis Hj : (j < ny g)%nat.
Local Notation N3US := (next3_up_some K keqb keqb_spec g W nm nm_inj cn CN av ACT INACT).
Local Notation N3UN := (next3_up_none K keqb keqb_spec g W nm nm_inj cn CN av ACT INACT).
Local Notation N3DS := (next3_down_some K keqb keqb_spec g W nm nm_inj cn CN av ACT INACT).
Local Notation N3DN := (next3_down_none K keqb keqb_spec g W nm nm_inj cn CN av ACT INACT).
Local Notation USH := (uplink_shape K keqb keqb_spec g W nm nm_inj cn CN av ACT INACT).

Lemma volok_blk3 k : (1 <= k)%nat -> present g (Cell k i j) -> vol_ok (Some av) (bvol (blk (Cell k i j))) = true.
Proof. intros Hk P. rewrite bvol_blk. destruct k; [lia|]. apply VOLOK; [right; reflexivity|assumption]. Qed.

Lemma present_below k : (1 <= k)%nat -> (S k <= nz g)%nat -> present g (Cell k i j) -> present g (Cell (S k) i j).
Proof.
  intros Hk Hs P. destruct (present_rock g k i j P Hk) as [Hk' [_ [_ Hh]]].
  apply rock_present; auto; try lia. apply (has_mono g W k (S k) i j Hh); lia.
Qed.
Lemma uplink_S_shape k : (1 <= k)%nat -> (S k <= nz g)%nat -> present g (Cell k i j) -> link_shape g (uplink g (S k) i j).
Proof.
  intros Hk Hs P. destruct (present_rock g k i j P Hk) as [Hk' [_ [_ Hh]]].
  apply USH; auto; try lia. replace (S k - 1)%nat with k by lia. exact Hh.
Qed.
(** the distance of the upper block of a vertical connection, doubled: the height of the part of the
    upper block below its centre, doubled *)
Lemma dist_upper k : (1 <= k)%nat -> (S k <= nz g)%nat -> present g (Cell k i j) ->
  two * dist_at K keqb GG (key (uplink g (S k) i j)) (nm (Cell k i j)) = two * (zc g k i j - bot g k).
Proof.
  intros Hk Hs P. unfold Walk.key. rewrite (DAL (uplink g (S k) i j) (Cell k i j) (uplink_S_shape k Hk Hs P) (present_latt g _ P)).
  cbn [uplink la ldb]. replace (cid_eqb (Cell (S k) i j) (Cell k i j)) with false by (symmetry; apply cid_eqb_neq; intro X; inversion X; lia).
  replace (S k - 1)%nat with k by lia. reflexivity.
Qed.
Lemma dist_lower k : (1 <= k)%nat -> (S k <= nz g)%nat -> present g (Cell k i j) ->
  two * dist_at K keqb GG (key (uplink g (S k) i j)) (nm (Cell (S k) i j)) = thick g (S k).
Proof.
  intros Hk Hs P. unfold Walk.key.
  rewrite (DAL (uplink g (S k) i j) (Cell (S k) i j) (uplink_S_shape k Hk Hs P) (present_latt g _ (present_below k Hk Hs P))).
  cbn [uplink la lda]. rewrite cid_eqb_refl. rewrite (top_eq g W (S k)) by lia. rewrite (lcen_eq g W (S k)) by lia. qc_lra.
Qed.
Lemma full_below k : (1 <= k)%nat -> (S k <= nz g)%nat -> present g (Cell k i j) -> zc g (S k) i j = lcen g (S k).
Proof.
  intros Hk Hs P. destruct (present_rock g k i j P Hk) as [Hk' [_ [_ Hh]]]. apply (zc_full g W); [lia|].
  apply (has_above_surface g W (S k) i j); [lia|]. replace (S k - 1)%nat with k by lia. exact Hh.
Qed.
Lemma from_above_S k : (1 <= k)%nat -> present g (Cell k i j) -> from_above g (Some (Cell k i j)) (S k) i j.
Proof.
  intros Hk P. destruct (present_rock g k i j P Hk) as [Hk' [_ [_ Hh]]]. right.
  replace (S k - 1)%nat with k by lia. repeat split; auto; lia.
Qed.

Lemma track3_down_inner n : forall k0 f, (1 <= k0)%nat -> (S k0 + n = nz g)%nat -> (n < f)%nat -> present g (Cell k0 i j) ->
  track K keqb f GG 3 (Some av) (blk (Cell (S k0) i j)) (Some (nm (Cell k0 i j))) (Some (key (uplink g (S k0) i j))) =
  Ok (map blk (map (fun k => Cell k i j) (seq (S k0) (S n))), map (thick g) (seq (S k0) (S n))).
Proof.
  induction n as [|n IH]; intros k0 f Hk Hn Hf P0; (destruct f as [|f]; [lia|]); cbn [track].
  - assert (P := present_below k0 Hk ltac:(lia) P0). rewrite bkey_blk. rewrite (volok_blk3 (S k0) ltac:(lia) P).
    change (Some (nm (Cell k0 i j))) with (option_map nm (Some (Cell k0 i j))).
    rewrite (N3DN (Some (Cell k0 i j)) (S k0) i j ltac:(lia) P (from_above_S k0 Hk P0)).
    rewrite (dist_lower k0 Hk ltac:(lia) P0). reflexivity.
  - assert (P := present_below k0 Hk ltac:(lia) P0). rewrite bkey_blk. rewrite (volok_blk3 (S k0) ltac:(lia) P).
    change (Some (nm (Cell k0 i j))) with (option_map nm (Some (Cell k0 i j))).
    rewrite (N3DS (Some (Cell k0 i j)) (S k0) i j ltac:(lia) ltac:(lia) P (from_above_S k0 Hk P0)).
    rewrite (IH (S k0) f ltac:(lia) ltac:(lia) ltac:(lia) P). cbn [bind fst snd app].
    rewrite (dist_upper (S k0) ltac:(lia) ltac:(lia) P). rewrite (full_below k0 Hk ltac:(lia) P0).
    rewrite (lcen_eq g W (S k0)) by lia.
    change (seq (S k0) (S (S n))) with (S k0 :: seq (S (S k0)) (S n)). cbn [map]. f_equal. f_equal. f_equal. qc_lra.
Qed.

Lemma present_1 : goz g <= gsurf g i j -> present g (Cell 1 i j).
Proof.
  intros Hs. pose proof (wf_nz g W) as NZ. apply rock_present; auto; try lia. apply has_spec.
  pose proof (bot_strict g W 0 1 ltac:(lia) ltac:(lia)) as B. rewrite bot0 in B. qc_lra.
Qed.
Lemma zc1_reach : goz g <= gsurf g i j -> zc g 1 i j = lcen g 1.
Proof.
  intros Hs. pose proof (wf_nz g W) as NZ. unfold zc. destruct (qlt (bot g 1) (gsurf g i j) && qle (gsurf g i j) (top g 1)) eqn:E; [|reflexivity].
  apply andb_prop in E. destruct E as [_ E]. rewrite (top1 g W) in E. rewrite (lcen_eq g W 1) by lia.
  pose proof (top_eq g W 1 ltac:(lia)) as T. rewrite (top1 g W) in T. qc_lra.
Qed.
(** the track that yields the vertical spacings: down the column of the topmost block *)
Lemma track3_down_start f : (nz g <= f)%nat -> goz g <= gsurf g i j ->
  track K keqb f GG 3 (Some av) (blk (Cell 1 i j)) None None =
  Ok (map blk (map (fun k => Cell k i j) (seq 1 (nz g))), map (thick g) (seq 1 (nz g))).
Proof.
  intros Hf Hs. pose proof (wf_nz g W) as NZ. destruct f as [|f]; [lia|]. cbn [track].
  assert (P := present_1 Hs). rewrite bkey_blk. rewrite (volok_blk3 1 ltac:(lia) P).
  change (@None K) with (option_map nm (@None cid)) at 1.
  rewrite (N3DS None 1 i j ltac:(lia) ltac:(lia) P) by (left; split; [reflexivity|left; reflexivity]).
  rewrite (track3_down_inner (nz g - 2) 1 f ltac:(lia) ltac:(lia) ltac:(lia) P). cbn [bind fst snd app].
  rewrite (dist_upper 1 ltac:(lia) ltac:(lia) P). rewrite (zc1_reach Hs). rewrite (lcen_eq g W 1) by lia.
  replace (nz g) with (S (S (nz g - 2))) at 3 4 by lia.
  change (seq 1 (S (S (nz g - 2)))) with (1%nat :: seq 2 (S (nz g - 2))). cbn [map]. f_equal. f_equal. f_equal. qc_lra.
Qed.

(** walking up from the bottom block (find_surface): the top block and the last size *)
Lemma track3_up_inner k : forall f, (1 <= k)%nat -> (S k <= nz g)%nat -> (k <= f)%nat -> present g (Cell k i j) ->
  exists bl sz,
    track K keqb f GG 3 (Some av) (blk (Cell k i j)) (Some (nm (Cell (S k) i j))) (Some (key (uplink g (S k) i j))) = Ok (bl, sz) /\
    last_of bl = Some (blk (Cell (ktop_from g i j k) i j)) /\
    last_of sz = Some (two * (zc g (ktop_from g i j k) i j - bot g (ktop_from g i j k))).
Proof.
  induction k as [|k IH]; intros f Hk Hs Hf P; [lia|]. destruct f as [|f]; [lia|]. cbn [track ktop_from].
  rewrite bkey_blk. rewrite (volok_blk3 (S k) ltac:(lia) P).
  assert (FB : from_below g (Some (Cell (S (S k)) i j)) (S k) i j) by (right; split; [reflexivity|lia]).
  change (Some (nm (Cell (S (S k)) i j))) with (option_map nm (Some (Cell (S (S k)) i j))).
  destruct ((2 <=? S k)%nat && has g k i j) eqn:E.
  - apply andb_prop in E. destruct E as [E1 E2]. apply Nat.leb_le in E1.
    assert (Hh : has g (S k - 1) i j = true) by (replace (S k - 1)%nat with k by lia; exact E2).
    rewrite (N3US (Some (Cell (S (S k)) i j)) (S k) i j ltac:(lia) P Hh FB).
    replace (S k - 1)%nat with k by lia.
    destruct (present_rock g (S k) i j P ltac:(lia)) as [Hk' [_ [_ Hh']]].
    assert (Pk : present g (Cell k i j)) by (apply rock_present; auto; lia).
    destruct (IH f ltac:(lia) ltac:(lia) ltac:(lia) Pk) as [bl [sz [T [LB LS]]]].
    rewrite T. cbn [bind fst snd app]. eexists. eexists. split; [reflexivity|]. split; apply last_of_cons_some; assumption.
  - assert (T : is_top g (S k) i j).
    { unfold is_top. apply andb_false_elim in E. destruct E as [E|E]; [apply Nat.leb_gt in E; left; lia|right].
      replace (S k - 1)%nat with k by lia. exact E. }
    rewrite (N3UN (Some (Cell (S (S k)) i j)) (S k) i j ltac:(lia) P T FB).
    eexists. eexists. split; [reflexivity|]. split; [reflexivity|].
    rewrite (dist_upper (S k) ltac:(lia) Hs P). reflexivity.
Qed.

Lemma track3_up_start f : (nz g <= f)%nat ->
  exists bl sz,
    track K keqb f GG 3 (Some av) (blk (Cell (nz g) i j)) None None = Ok (bl, sz) /\
    last_of bl = Some (blk (Cell (ktop g i j) i j)) /\
    last_of sz = (if (ktop g i j =? nz g)%nat then None else Some (two * (zc g (ktop g i j) i j - bot g (ktop g i j)))).
Proof.
  intros Hf. pose proof (wf_nz g W) as NZ. unfold ktop. destruct (nz g) as [|k] eqn:EK; [lia|]. rewrite <- EK in *.
  assert (P : present g (Cell (nz g) i j)) by (apply rock_present; auto; try lia; apply has_bottom; auto).
  rewrite EK in P |- *. destruct f as [|f]; [lia|]. cbn [track ktop_from].
  rewrite bkey_blk. rewrite (volok_blk3 (S k) ltac:(lia) P).
  assert (FB : from_below g None (S k) i j) by (left; split; [reflexivity|symmetry; exact EK]).
  change (@None K) with (option_map nm (@None cid)) at 1.
  destruct ((2 <=? S k)%nat && has g k i j) eqn:E.
  - apply andb_prop in E. destruct E as [E1 E2]. apply Nat.leb_le in E1.
    assert (Hh : has g (S k - 1) i j = true) by (replace (S k - 1)%nat with k by lia; exact E2).
    rewrite (N3US None (S k) i j ltac:(lia) P Hh FB).
    replace (S k - 1)%nat with k by lia.
    assert (Pk : present g (Cell k i j)) by (apply rock_present; auto; lia).
    destruct (track3_up_inner k f ltac:(lia) ltac:(lia) ltac:(lia) Pk) as [bl [sz [T [LB LS]]]].
    rewrite T. cbn [bind fst snd app]. eexists. eexists. split; [reflexivity|].
    destruct (ktop_from_spec i j k ltac:(lia) E2) as [[A1 A2] _].
    replace (ktop_from g i j k =? S k)%nat with false by (symmetry; apply Nat.eqb_neq; lia).
    split; apply last_of_cons_some; assumption.
  - assert (T : is_top g (S k) i j).
    { unfold is_top. apply andb_false_elim in E. destruct E as [E|E]; [apply Nat.leb_gt in E; left; lia|right].
      replace (S k - 1)%nat with k by lia. exact E. }
    rewrite (N3UN None (S k) i j ltac:(lia) P T FB). rewrite Nat.eqb_refl.
    eexists. eexists. split; [reflexivity|]. split; reflexivity.
Qed.
End Vert.
End Tracks.
