(** C18 -- the origin block (np.nanargmin of the block elevations) and the topmost block
    (np.nanargmax over the active blocks) of the grid generated from a rectangular geometry;
    the fuel of the tracks. *)
From Coq Require Import List Bool Arith ZArith QArith Qcanon Lia FinFun.
From PTBase Require Import Exn.
From P Require Import Rectgeo QcFacts GeoFacts ListFacts Forward Walk Track.
Import ListNotations.
Open Scope Qc_scope.

(** * first minimum / a maximum *)
Section Arg.
Variable K : Type.
Variable mv : option Qc.
Notation elev := (elev K mv).

Lemma argmin_post l2 (x : block K) zx : (forall y, In y l2 -> forall z, elev y = Some z -> zx <= z) ->
  argbest K qlt mv l2 (Some (x, zx)) = Some x.
Proof.
  induction l2 as [|y l2 IH]; intros H; [reflexivity|]. cbn [argbest].
  destruct (elev y) as [z|] eqn:E.
  - assert (Q : qlt z zx = false) by (pose proof (H y (or_introl eq_refl) z E); qc_lra). rewrite Q.
    apply IH. intros y' Hy'. apply H. right. exact Hy'.
  - apply IH. intros y' Hy'. apply H. right. exact Hy'.
Qed.
Lemma argmin_first l1 (x : block K) l2 zx : elev x = Some zx ->
  (forall y, In y l1 -> forall z, elev y = Some z -> zx < z) ->
  (forall y, In y l2 -> forall z, elev y = Some z -> zx <= z) ->
  argbest K qlt mv (l1 ++ x :: l2) None = Some x.
Proof.
  intros Ex H1 H2.
  assert (Gen : forall best, (best = None \/ exists b zb, best = Some (b, zb) /\ zx < zb) ->
                             argbest K qlt mv (l1 ++ x :: l2) best = Some x).
  { induction l1 as [|y l1 IH]; intros best Hb.
    - cbn [app argbest]. rewrite Ex. destruct Hb as [->|[b [zb [-> Hz]]]].
      + apply argmin_post. exact H2.
      + assert (Q : qlt zx zb = true) by qc_lra. rewrite Q. apply argmin_post. exact H2.
    - cbn [app argbest]. assert (H1' : forall y0, In y0 l1 -> forall z, elev y0 = Some z -> zx < z) by (intros y0 Hy0; apply H1; right; exact Hy0).
      destruct (elev y) as [z|] eqn:E.
      + pose proof (H1 y (or_introl eq_refl) z E) as Hz.
        destruct Hb as [->|[b [zb [-> Hzb]]]].
        * apply (IH H1'). right. eauto.
        * destruct (qlt z zb); apply (IH H1'); right; eauto.
      + apply (IH H1'). exact Hb. }
  apply Gen. left. reflexivity.
Qed.

Lemma argmax_spec l : forall best,
  match best with Some (b, zb) => elev b = Some zb | None => True end ->
  match argbest K (fun a b => qlt b a) mv l best with
  | Some x => exists zx, elev x = Some zx /\ (In x l \/ exists zb, best = Some (x, zb)) /\
                         (forall y, In y l -> forall z, elev y = Some z -> z <= zx) /\
                         (forall b zb, best = Some (b, zb) -> zb <= zx)
  | None => best = None /\ forall y, In y l -> elev y = None
  end.
Proof.
  induction l as [|y l IH]; intros best Hb.
  - cbn [argbest]. destruct best as [[b zb]|].
    + exists zb. split; [exact Hb|]. split; [right; eauto|]. split; [intros y []|]. intros b' zb' X. inversion X. apply Qcle_refl.
    + split; [reflexivity|intros y []].
  - cbn [argbest]. destruct (elev y) as [z|] eqn:E.
    + destruct best as [[b zb]|].
      * destruct (qlt zb z) eqn:Q.
        -- specialize (IH (Some (y, z)) E). destruct (argbest K (fun a b0 => qlt b0 a) mv l (Some (y, z))) as [x|].
           ++ destruct IH as [zx [Ex [I [M B]]]]. exists zx. split; [exact Ex|]. split.
              ** destruct I as [I|[zb' I]]; [left; right; exact I|]. inversion I; subst. left. left. reflexivity.
              ** split.
                 --- intros y' [<-|Hy'] z' E'; [|eapply M; eauto]. rewrite E in E'. inversion E'; subst. apply (B y z'). reflexivity.
                 --- intros b' zb' X. inversion X; subst. pose proof (B y z eq_refl). qc_lra.
           ++ destruct IH as [X _]. discriminate.
        -- specialize (IH (Some (b, zb)) Hb). destruct (argbest K (fun a b0 => qlt b0 a) mv l (Some (b, zb))) as [x|].
           ++ destruct IH as [zx [Ex [I [M B]]]]. exists zx. split; [exact Ex|]. split.
              ** destruct I as [I|I]; [left; right; exact I|right; exact I].
              ** split; [|exact B].
                 intros y' [<-|Hy'] z' E'; [|eapply M; eauto]. rewrite E in E'. inversion E'; subst. pose proof (B b zb eq_refl). qc_lra.
           ++ destruct IH as [X _]. discriminate.
      * specialize (IH (Some (y, z)) E). destruct (argbest K (fun a b0 => qlt b0 a) mv l (Some (y, z))) as [x|].
        -- destruct IH as [zx [Ex [I [M B]]]]. exists zx. split; [exact Ex|]. split.
           ++ destruct I as [I|[zb' I]]; [left; right; exact I|]. inversion I; subst. left. left. reflexivity.
           ++ split; [|intros b' zb' X; discriminate].
              intros y' [<-|Hy'] z' E'; [|eapply M; eauto]. rewrite E in E'. inversion E'; subst. apply (B y z'). reflexivity.
        -- destruct IH as [X _]. discriminate.
    + specialize (IH best Hb). destruct (argbest K (fun a b0 => qlt b0 a) mv l best) as [x|].
      * destruct IH as [zx [Ex [I [M B]]]]. exists zx. split; [exact Ex|]. split.
        -- destruct I as [I|I]; [left; right; exact I|right; exact I].
        -- split; [|exact B]. intros y' [<-|Hy'] z' E'; [congruence|eapply M; eauto].
      * destruct IH as [-> N]. split; [reflexivity|]. intros y' [<-|Hy']; [exact E|apply N; exact Hy'].
Qed.
End Arg.

Lemma filter_all {A} (p : A -> bool) l : (forall x, In x l -> p x = true) -> filter p l = l.
Proof.
  induction l as [|a l IH]; intros H; [reflexivity|]. cbn [filter]. rewrite (H a (or_introl eq_refl)).
  f_equal. apply IH. intros x Hx. apply H. right. exact Hx.
Qed.
Lemma colidx_head n m : (1 <= n)%nat -> (1 <= m)%nat -> exists rest, colidx n m = (0%nat, 0%nat) :: rest.
Proof.
  intros Hn Hm. destruct n as [|n]; [lia|]. destruct m as [|m]; [lia|]. unfold colidx. cbn [seq flat_map map app]. eexists. reflexivity.
Qed.

Section OT.
Set Default Proof Using "All".
Variable K : Type.
Variable keqb : K -> K -> bool.
Hypothesis keqb_spec : forall a b, keqb a b = true <-> a = b.
Variable g : rgeo.
Hypothesis W : wf g.
Variable nm : cid -> K.
Hypothesis nm_inj : forall a b, latt g a -> latt g b -> nm a = nm b -> a = b.
Variable cn : K -> list (K * K).
Hypothesis CN : cn_ok K g nm cn.
Variable av : Qc.
Hypothesis ACT : forall k i j, present g (Cell (S k) i j) -> volume g (S k) i j < av.
Hypothesis INACT : gatm g <> 2%nat -> vol_ok (Some av) (gatmvol g) = false.

Notation GG := (G K g nm cn).
Notation blk := (blk K g nm).

(** ** blocks of the complete bottom layer *)
Lemma zc_bottom i j : (i < nx g)%nat -> (j < ny g)%nat -> zc g (nz g) i j = lcen g (nz g).
Proof.
  intros Hi Hj. pose proof (wf_nz g W) as NZ. pose proof (wf_bottom g W i j Hi Hj) as B.
  unfold zc. destruct (qlt (bot g (nz g)) (gsurf g i j) && qle (gsurf g i j) (top g (nz g))) eqn:E; [|reflexivity].
  apply andb_prop in E. destruct E as [_ E]. rewrite (lcen_eq g W (nz g)) by lia.
  pose proof (top_eq g W (nz g) ltac:(lia)) as T. qc_lra.
Qed.
Lemma height_bottom i j : (i < nx g)%nat -> (j < ny g)%nat -> height g (nz g) i j = thick g (nz g).
Proof.
  intros Hi Hj. pose proof (wf_nz g W) as NZ. pose proof (wf_bottom g W i j Hi Hj) as B.
  destruct (qlt (top g (nz g)) (gsurf g i j)) eqn:E.
  - apply height_full; [exact W|lia|qc_lra].
  - rewrite (height_trunc g W (nz g) i j) by (try lia; qc_lra). pose proof (top_eq g W (nz g) ltac:(lia)) as T. qc_lra.
Qed.

(** ** fuel: a track visits distinct present cells *)
Lemma cells_bound (cs : list cid) : NoDup cs -> (forall c, In c cs -> present g c) -> (length cs <= length (cells g))%nat.
Proof.
  intros ND P. rewrite <- (map_length (cellof g) cs). apply NoDup_incl_length.
  - apply Injective_map_NoDup; [|exact ND]. intros a b E. rewrite <- (cc_cellof g a), <- (cc_cellof g b), E. reflexivity.
  - intros x Hx. apply in_map_iff in Hx. destruct Hx as [c [<- Hc]]. apply present_in_cells. apply P. exact Hc.
Qed.
Lemma fuel_blocks : fuel_of K GG = S (length (cells g)).
Proof. unfold fuel_of, G, rect_blocks. cbn [blocks]. rewrite map_length. reflexivity. Qed.
Lemma fuel_nx : (nx g <= fuel_of K GG)%nat.
Proof.
  rewrite fuel_blocks. pose proof (wf_ny g W) as NY. pose proof (wf_nz g W) as NZ.
  pose proof (cells_bound (map (fun i => Cell (nz g) i 0) (seq 0 (nx g)))) as B. rewrite map_length, seq_length in B.
  assert (nx g <= length (cells g))%nat; [|lia]. apply B.
  - apply Injective_map_NoDup; [|apply seq_NoDup]. intros a b E. inversion E. reflexivity.
  - intros c Hc. apply in_map_iff in Hc. destruct Hc as [i [<- Hi]]. apply in_seq in Hi.
    apply rock_present; try lia. apply has_bottom; [exact W|lia|lia].
Qed.
Lemma fuel_ny : (ny g <= fuel_of K GG)%nat.
Proof.
  rewrite fuel_blocks. pose proof (wf_nx g W) as NX. pose proof (wf_nz g W) as NZ.
  pose proof (cells_bound (map (fun j => Cell (nz g) 0 j) (seq 0 (ny g)))) as B. rewrite map_length, seq_length in B.
  assert (ny g <= length (cells g))%nat; [|lia]. apply B.
  - apply Injective_map_NoDup; [|apply seq_NoDup]. intros a b E. inversion E. reflexivity.
  - intros c Hc. apply in_map_iff in Hc. destruct Hc as [j [<- Hj]]. apply in_seq in Hj.
    apply rock_present; try lia. apply has_bottom; [exact W|lia|lia].
Qed.
(** a column that reaches the top of layer 1 has a block in every layer *)
Lemma fuel_nz i j : (i < nx g)%nat -> (j < ny g)%nat -> goz g <= gsurf g i j -> (nz g <= fuel_of K GG)%nat.
Proof.
  intros Hi Hj Hs. rewrite fuel_blocks.
  pose proof (cells_bound (map (fun k => Cell k i j) (seq 1 (nz g)))) as B. rewrite map_length, seq_length in B.
  assert (nz g <= length (cells g))%nat; [|lia]. apply B.
  - apply Injective_map_NoDup; [|apply seq_NoDup]. intros a b E. inversion E. reflexivity.
  - intros c Hc. apply in_map_iff in Hc. destruct Hc as [k [<- Hk]]. apply in_seq in Hk.
    apply rock_present; try lia. apply has_spec.
    pose proof (bot_strict g W 0 k ltac:(lia) ltac:(lia)) as S. rewrite bot0 in S. qc_lra.
Qed.
(** every column has its bottom block: the vertical walks from the bottom need at most nz steps *)
Lemma fuel_nz' : (nz g <= fuel_of K GG)%nat -> True.
Proof. trivial. Qed.

(** ** the origin block *)
Lemma elev_none_blk c : elev K None (blk c) = match ccen (cellof g c) with Some (_, _, z) => Some z | None => None end.
Proof. unfold elev. change (bcen (blk c)) with (ccen (cellof g c)). destruct (ccen (cellof g c)) as [[[x y] z]|]; reflexivity. Qed.

Lemma cells_split : exists l1 l2,
  cells g = l1 ++ cellof g (Cell (nz g) 0 0) :: l2 /\
  (forall c, In c l1 -> In c (cells g) /\ forall i j, cc c <> Cell (nz g) i j) /\
  (forall c, In c l2 -> In c (cells g) /\ exists i j, cc c = Cell (nz g) i j).
Proof.
  pose proof (wf_nz g W) as NZ. pose proof (wf_nx g W) as NX. pose proof (wf_ny g W) as NY.
  destruct (colidx_head (nx g) (ny g) NX NY) as [rest ER].
  assert (LC : layer_cols g (nz g) = (0%nat, 0%nat) :: rest).
  { unfold layer_cols. rewrite filter_all; [exact ER|]. intros [i j] Hin. apply in_colidx in Hin. cbn [fst snd]. apply has_bottom; tauto. }
  destruct (nz g) as [|m] eqn:EM; [lia|].
  exists (atm_cells g ++ flat_map (fun k => map (rock_cell g k) (layer_cols g k)) (seq 1 m)), (map (rock_cell g (S m)) rest).
  assert (EC : cells g = (atm_cells g ++ flat_map (fun k => map (rock_cell g k) (layer_cols g k)) (seq 1 m)) ++
                         cellof g (Cell (S m) 0 0) :: map (rock_cell g (S m)) rest).
  { unfold cells, rock_cells. rewrite EM. rewrite seq_S. rewrite flat_map_app. cbn [flat_map Nat.add]. rewrite app_nil_r.
    rewrite <- EM in LC |- *. rewrite LC. cbn [map]. rewrite EM. rewrite <- app_assoc. reflexivity. }
  split; [exact EC|]. split.
  - intros c Hc. split; [rewrite EC; apply in_or_app; left; exact Hc|].
    intros i j E. apply in_app_or in Hc. destruct Hc as [Hc|Hc].
    + unfold atm_cells in Hc. destruct (gatm g) as [|[|n]].
      * destruct Hc as [<-|[]]. discriminate.
      * apply in_map_iff in Hc. destruct Hc as [[i' j'] [<- _]]. cbn [cc] in E. inversion E.
      * destruct Hc.
    + apply in_flat_map in Hc. destruct Hc as [k [Hk Hc]]. apply in_seq in Hk. apply in_map_iff in Hc. destruct Hc as [[i' j'] [<- _]].
      cbn [rock_cell cc fst snd] in E. inversion E. lia.
  - intros c Hc. split.
    + rewrite EC. apply in_or_app. right. right. exact Hc.
    + apply in_map_iff in Hc. destruct Hc as [[i' j'] [<- _]]. cbn [rock_cell cc fst snd]. eauto.
Qed.

Lemma origin_block : find_origin_block K GG = Some (blk (Cell (nz g) 0 0)).
Proof.
  pose proof (wf_nz g W) as NZ. pose proof (wf_nx g W) as NX. pose proof (wf_ny g W) as NY.
  unfold find_origin_block, G, rect_blocks. cbn [blocks].
  destruct cells_split as [l1 [l2 [EC [H1 H2]]]]. rewrite EC. rewrite map_app. cbn [map].
  change (mk_block nm (cellof g (Cell (nz g) 0 0))) with (blk (Cell (nz g) 0 0)).
  apply (argmin_first K None) with (zx := lcen g (nz g)).
  - rewrite elev_none_blk. destruct (nz g) as [|m] eqn:EM; [lia|]. cbn [cellof rock_cell ccen fst snd]. rewrite <- EM. rewrite zc_bottom by lia. reflexivity.
  - intros y Hy z Ez. apply in_map_iff in Hy. destruct Hy as [c [<- Hc]]. destruct (H1 c Hc) as [Hin Hne].
    apply in_cells_iff in Hin. destruct Hin as [P Ec]. unfold elev in Ez. cbn [mk_block bcen vol_ok] in Ez. rewrite Ec in Ez.
    pose proof (lcen_lt_top g W (nz g) ltac:(lia)) as LT.
    destruct (cc c) as [|[|k] i j] eqn:ECC; cbn [cellof ccen rock_cell fst snd] in Ez; [discriminate| |].
    + inversion Ez; subst z. pose proof (top_le_bot g W 0 (nz g) ltac:(lia) ltac:(lia)) as T. rewrite bot0 in T. pose proof (wf_atmz g W) as AZ. qc_lra.
    + inversion Ez; subst z. cbn [present] in P. destruct P as [Hk [Hi [Hj Hh]]].
      assert (S k <> nz g) by (intro X; apply (Hne i j); rewrite X; reflexivity).
      pose proof (zc_gt_bot g W (S k) i j Hk Hh) as Z. pose proof (top_le_bot g W (S k) (nz g) ltac:(lia) ltac:(lia)) as T. qc_lra.
  - intros y Hy z Ez. apply in_map_iff in Hy. destruct Hy as [c [<- Hc]]. destruct (H2 c Hc) as [Hin [i [j E]]].
    apply in_cells_iff in Hin. destruct Hin as [P Ec]. unfold elev in Ez. cbn [mk_block bcen vol_ok] in Ez. rewrite Ec, E in Ez.
    rewrite E in P. destruct (nz g) as [|m] eqn:EM; [lia|]. cbn [cellof ccen rock_cell fst snd] in Ez. inversion Ez; subst z.
    cbn [present] in P. rewrite <- EM. rewrite zc_bottom by tauto. apply Qcle_refl.
Qed.
End OT.
