(** C18 -- list lemmas: find, the column order, option lists, the assignment log of the block map. *)
From Coq Require Import List Bool Arith Lia.
From P Require Import Rectgeo.
Import ListNotations.

Lemma find_unique {A} (p : A -> bool) l x :
  In x l -> p x = true -> (forall y, In y l -> p y = true -> y = x) -> find p l = Some x.
Proof.
  induction l as [|a l IH]; intros Hin Hp Hu; [destruct Hin|].
  cbn [find]. destruct (p a) eqn:E.
  - f_equal. apply Hu; [left; reflexivity|exact E].
  - destruct Hin as [->|Hin]; [congruence|]. apply IH; auto. intros y Hy. apply Hu. right. exact Hy.
Qed.
Lemma find_none' {A} (p : A -> bool) l : (forall y, In y l -> p y = false) -> find p l = None.
Proof.
  induction l as [|a l IH]; intros H; [reflexivity|]. cbn [find]. rewrite (H a (or_introl eq_refl)).
  apply IH. intros y Hy. apply H. right. exact Hy.
Qed.
Lemma find_filter {A} (p q : A -> bool) l : find q (filter p l) = find (fun x => p x && q x) l.
Proof.
  induction l as [|a l IH]; [reflexivity|]. cbn [filter find]. destruct (p a); cbn [find andb]; rewrite IH; reflexivity.
Qed.

Lemma in_colidx n m i j : In (i, j) (colidx n m) <-> (i < n /\ j < m).
Proof.
  unfold colidx. rewrite in_flat_map. split.
  - intros [j' [Hj Hin]]. apply in_map_iff in Hin. destruct Hin as [i' [E Hi]]. inversion E; subst.
    apply in_seq in Hj. apply in_seq in Hi. lia.
  - intros [Hi Hj]. exists j. split; [apply in_seq; lia|]. apply in_map_iff. exists i. split; [reflexivity|apply in_seq; lia].
Qed.
Lemma in_colidx' n m c : In c (colidx n m) <-> (fst c < n /\ snd c < m).
Proof. destruct c as [i j]. apply in_colidx. Qed.

Lemma in_cat_some {A} (l : list (option A)) x : In x (cat_some l) <-> In (Some x) l.
Proof.
  induction l as [|[a|] l IH]; cbn [cat_some In]; [tauto| |].
  - rewrite IH. split; intros [H|H]; auto; left; congruence.
  - rewrite IH. split; [auto|]. intros [H|H]; [discriminate|exact H].
Qed.

Lemma last_of_app_single {A} (l : list A) x : last_of (l ++ [x]) = Some x.
Proof. unfold last_of. rewrite rev_app_distr. reflexivity. Qed.
Lemma last_of_cons {A} (a : A) l : l <> [] -> last_of (a :: l) = last_of l.
Proof.
  intros H. destruct (exists_last H) as [l' [x ->]]. rewrite app_comm_cons. rewrite !last_of_app_single. reflexivity.
Qed.
Lemma last_of_single {A} (a : A) : last_of [a] = Some a.
Proof. reflexivity. Qed.
