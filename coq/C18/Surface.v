(** C18 -- find_surface on the grid generated from a rectangular geometry. *)
From Coq Require Import List Bool Arith ZArith QArith Qcanon Lia.
From PTBase Require Import Exn.
From P Require Import Rectgeo QcFacts GeoFacts ListFacts Forward Walk Track Origin Spacings Mapping.
Import ListNotations.
Open Scope Qc_scope.

Lemma mapM_ok {A B} (f : A -> res B) (h : A -> B) l : (forall x, In x l -> f x = Ok (h x)) -> mapM f l = Ok (map h l).
Proof.
  induction l as [|a l IH]; intros H; [reflexivity|]. cbn [mapM map]. rewrite (H a (or_introl eq_refl)). cbn [bind].
  rewrite IH; [reflexivity|]. intros x Hx. apply H. right. exact Hx.
Qed.

(** the surface formula of find_surface gives back the column surface *)
Section Formula.
Set Default Proof Using "All".
Variable g : rgeo.
Hypothesis W : wf g.

Lemma surface_formula i j kt : (i < nx g)%nat -> (j < ny g)%nat -> (1 <= kt <= nz g)%nat -> has g kt i j = true -> is_top g kt i j ->
  let h := height g kt i j in
  let lt := if (kt =? nz g)%nat then h else two * (zc g kt i j - bot g kt) in
  (if qle h lt then zc g kt i j + half * h else zc g kt i j - half * lt + h) = gsurf g i j.
Proof.
  intros Hi Hj Hk Hh T h lt. pose proof (wf_nz g W) as NZ.
  destruct (qle (gsurf g i j) (top g kt)) eqn:Q.
  - (* truncated or exact top block *)
    assert (S : gsurf g i j <= top g kt) by qc_lra.
    assert (EZ := zc_trunc g W kt i j Hk Hh S). assert (EH : h = gsurf g i j - bot g kt) by (apply height_trunc; assumption).
    assert (EL : lt = h).
    { unfold lt. destruct (kt =? nz g)%nat; [reflexivity|]. rewrite EZ, EH. qc_lra. }
    rewrite EL. assert (QQ : qle h h = true) by (apply qle_spec; apply Qcle_refl). rewrite QQ. rewrite EZ, EH. qc_lra.
  - (* the column reaches above the top of layer 1 *)
    assert (S : top g kt < gsurf g i j) by qc_lra.
    assert (K1 : kt = 1%nat).
    { destruct T as [T|T]; [exact T|]. exfalso. destruct (Nat.eq_dec kt 1) as [E|E]; [subst; cbn in T; rewrite has_spec in *|].
      - rewrite (top1 g W) in S. pose proof (bot0 g). unfold has in T. cbn [Nat.sub] in T. qc_lra.
      - pose proof (no_above_surface g W kt i j ltac:(lia) T). qc_lra. }
    subst kt. rewrite (top1 g W) in S.
    assert (EZ := zc_full g W 1 i j Hk ltac:(rewrite (top1 g W); exact S)).
    assert (EH : h = gsurf g i j - bot g 1) by (apply height_above; assumption).
    assert (EL : lt = thick g 1).
    { unfold lt. replace (1 =? nz g)%nat with false by (symmetry; apply Nat.eqb_neq; lia). rewrite EZ. rewrite (lcen_eq g W 1) by lia. qc_lra. }
    pose proof (top_eq g W 1 ltac:(lia)) as TE. rewrite (top1 g W) in TE.
    assert (QQ : qle h lt = false) by (rewrite EL, EH; qc_lra). rewrite QQ. rewrite EZ, EL, EH. rewrite (lcen_eq g W 1) by lia. qc_lra.
Qed.
End Formula.

Section Surf.
Set Default Proof Using "All".
Variable K : Type.
Variable keqb : K -> K -> bool.
Hypothesis keqb_spec : forall a b, keqb a b = true <-> a = b.
Variable g : rgeo.
Hypothesis W : wf g.
Variable nm : cid -> K.
Hypothesis nm_inj : forall a b, latt g a -> latt g b -> nm a = nm b -> a = b.
Variable cn : K -> list (K * K).
Hypothesis CN : cn_ok K g nm cn.
Variable av : Qc.
Hypothesis ACT : forall k i j, present g (Cell (S k) i j) -> volume g (S k) i j < av.
Hypothesis INACT : gatm g <> 2%nat -> vol_ok (Some av) (gatmvol g) = false.
Variable nm' : cid -> K.
Hypothesis nm'_inj : forall a b, latt g a -> latt g b -> nm' a = nm' b -> a = b.

Notation GG := (G K g nm cn).
Notation blk := (blk K g nm).
Local Notation HY lem := (lem K keqb keqb_spec g W nm nm_inj cn CN av ACT INACT) (only parsing).
Local Notation HZ lem := (lem K keqb keqb_spec g W nm nm_inj cn CN av ACT INACT nm' nm'_inj) (only parsing).

(** the new geometry as find_surface sees it: the recovered spacings, any position, default surfaces *)
Variable x0 y0 ax0 ay0 : Qc.
Variable a' : nat.
Variable s0 : nat -> nat -> Qc.
Variable az0 : Qc.
Notation g1 := (mkRgeo x0 y0 (goz g) ax0 ay0 (gdx g) (gdy g) (gdz g) a' 0 0 az0 s0).

Lemma filter_nokeys (l : list (block K)) : filter (fun b => key_in K keqb (bkey b) []) l = [].
Proof. induction l as [|a l IH]; [reflexivity|]. cbn [filter key_in existsb]. exact IH. Qed.

Lemma cen_z_rock' k i j : (1 <= k)%nat -> cen_z K (blk (Cell k i j)) = Ok (zc g k i j).
Proof. intros Hk. destruct k; [lia|]. reflexivity. Qed.

Lemma find_col_surface_ok i j : (i < nx g)%nat -> (j < ny g)%nat -> (nz g <= fuel_of K GG)%nat ->
  find_col_surface K keqb GG g1 (full_log K g nm nm') av nm' [] (i, j) = Ok (gsurf g i j).
Proof.
  intros Hi Hj FU. pose proof (wf_nz g W) as NZ. unfold find_col_surface.
  change (nz g1) with (nz g).
  assert (PB : present g (Cell (nz g) i j)) by (apply rock_present; try lia; auto; apply has_bottom; assumption).
  rewrite (HZ full_log_lookup (Cell (nz g) i j) PB).
  rewrite (find_block_present K keqb keqb_spec g nm nm_inj cn CN (Cell (nz g) i j) PB).
  destruct (HY track3_up_start i j Hi Hj (fuel_of K GG) FU) as [bl [sz [T [LB LS]]]].
  change (mk_block nm (cellof g (Cell (nz g) i j))) with (blk (Cell (nz g) i j)). rewrite T. cbn [bind fst snd]. rewrite LB. rewrite filter_nokeys. cbn [remove_all bind fst snd]. rewrite LB.
  destruct (HY ktop_from_spec i j (nz g) ltac:(lia) ltac:(apply has_bottom; assumption)) as [KT [HT TT]]. fold (ktop g i j) in KT, HT, TT.
  rewrite (cen_z_rock' (ktop g i j) i j ltac:(lia)). cbn [bind].
  assert (PT : present g (Cell (ktop g i j) i j)) by (apply rock_present; auto; lia).
  assert (VP : 0 < volume g (ktop g i j) i j) by (apply volume_pos; auto; lia).
  assert (BV : bvol (blk (Cell (ktop g i j) i j)) = volume g (ktop g i j) i j).
  { destruct (ktop g i j) as [|k]; [lia|]. reflexivity. }
  rewrite BV. assert (Q0 : qlt 0 (volume g (ktop g i j) i j) = true) by qc_lra. rewrite Q0.
  change (area g1 i j) with (area g i j).
  assert (BH : volume g (ktop g i j) i j / area g i j = height g (ktop g i j) i j).
  { unfold volume. pose proof (area_pos g W i j Hi Hj) as AP. field. apply qpos_ne0. exact AP. }
  rewrite BH. rewrite LS.
  pose proof (surface_formula g W i j (ktop g i j) Hi Hj KT HT TT) as SF. cbv zeta in SF.
  destruct (ktop g i j =? nz g)%nat.
  - destruct (qle (height g (ktop g i j) i j) (height g (ktop g i j) i j)); rewrite <- SF; reflexivity.
  - destruct (qle (height g (ktop g i j) i j) (two * (zc g (ktop g i j) i j - bot g (ktop g i j)))); rewrite <- SF; reflexivity.
Qed.
End Surf.
