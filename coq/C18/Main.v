(** C18 -- rectgeo on the grid generated from a rectangular geometry: the exact result. *)
From Coq Require Import List Bool Arith ZArith QArith Qcanon Lia.
From PTBase Require Import Exn.
From P Require Import Rectgeo QcFacts GeoFacts ListFacts Forward Walk Track Origin Spacings Mapping Surface.
Import ListNotations.
Open Scope Qc_scope.

(** the reconstructed geometry at the origin has the layer centres of the original, shifted *)
Lemma lcen_shift g k : (1 <= k)%nat ->
  lcen g k - lcen (mkRgeo 0 0 0 1 0 (gdx g) (gdy g) (gdz g) 0 0 0 0 (fun _ _ => 0)) k = goz g.
Proof. intros Hk. destruct k; [lia|]. unfold lcen, bot, thick. cbn [goz gdz]. ring. Qed.

Lemma ccx_increasing g m : wf g -> (1 <= m)%nat -> (m < nx g)%nat -> ccx g 0 < ccx g m.
Proof.
  intros W Hm Hn. unfold ccx, xlo. cbn [firstn qsum].
  pose proof (qsum_firstn_mono (gdx g) 1 m (wf_dx g W) Hm ltac:(unfold nx in Hn; lia)) as M.
  rewrite (qsum_firstn_S (gdx g) 0) in M by (unfold nx in Hn; lia). cbn [firstn qsum] in M. fold (dxi g 0) in M.
  pose proof (dxi_pos g W m Hn) as P. pose proof (dxi_pos g W 0 ltac:(lia)) as P0. qc_lra.
Qed.
Lemma ccy_increasing g m : wf g -> (1 <= m)%nat -> (m < ny g)%nat -> ccy g 0 < ccy g m.
Proof.
  intros W Hm Hn. unfold ccy, ylo. cbn [firstn qsum].
  pose proof (qsum_firstn_mono (gdy g) 1 m (wf_dy g W) Hm ltac:(unfold ny in Hn; lia)) as M.
  rewrite (qsum_firstn_S (gdy g) 0) in M by (unfold ny in Hn; lia). cbn [firstn qsum] in M. fold (dyj g 0) in M.
  pose proof (dyj_pos g W m Hn) as P. pose proof (dyj_pos g W 0 ltac:(lia)) as P0. qc_lra.
Qed.

(** what the theorems need of the heading function: it normalises a non-zero vector given as a positive
    multiple of a unit vector, and has no value (NaN) on the zero vector *)
Definition heading_spec (heading : Qc -> Qc -> option (Qc * Qc)) : Prop :=
  (forall L a b, 0 < L -> a * a + b * b = 1 -> heading (L * a) (L * b) = Some (a, b)) /\ heading 0 0 = None.

Section Main.
Set Default Proof Using "All".
Variable K : Type.
Variable keqb : K -> K -> bool.
Hypothesis keqb_spec : forall a b, keqb a b = true <-> a = b.
Variable g : rgeo.
Hypothesis W : wf g.
Variable nm : cid -> K.
Hypothesis nm_inj : forall a b, latt g a -> latt g b -> nm a = nm b -> a = b.
Variable cn : K -> list (K * K).
Hypothesis CN : cn_ok K g nm cn.
Variable av : Qc.
Hypothesis ACT : forall k i j, present g (Cell (S k) i j) -> volume g (S k) i j < av.
Hypothesis INACT : gatm g <> 2%nat -> vol_ok (Some av) (gatmvol g) = false.
Variable nm' : cid -> K.
Hypothesis nm'_inj : forall a b, latt g a -> latt g b -> nm' a = nm' b -> a = b.
(** the geometry is rotated: its x-axis points along the unit vector (gax g, gay g) *)
Hypothesis UNIT : gax g * gax g + gay g * gay g = 1.
Variable heading : Qc -> Qc -> option (Qc * Qc).
Hypothesis HS : heading_spec heading.

Notation GG := (G K g nm cn).
Notation blk := (blk K g nm).
Notation obc := (Cell (nz g) 0 0).
Local Notation HY lem := (lem K keqb keqb_spec g W nm nm_inj cn CN av ACT INACT) (only parsing).
Local Notation HZ lem := (lem K keqb keqb_spec g W nm nm_inj cn CN av ACT INACT nm' nm'_inj) (only parsing).

Lemma bcen_rock k i j : (1 <= k)%nat -> bcen (blk (Cell k i j)) = Some (px g i j, py g i j, zc g k i j).
Proof. intros Hk. destruct k; [lia|]. reflexivity. Qed.

(** required_centres_present *)
Lemma required_ok :
  forallb (fun b => negb (vol_ok (Some av) (bvol b)) || match bcen b with Some _ => true | None => false end) (blocks GG) = true.
Proof.
  apply forallb_forall. intros b Hb. unfold G, rect_blocks in Hb. cbn [blocks] in Hb. apply in_map_iff in Hb.
  destruct Hb as [c [<- Hc]]. apply in_cells_iff in Hc. destruct Hc as [P E]. rewrite E.
  destruct (cc c) as [|[|k] i j]; cbn [mk_block bvol bcen cellof rock_cell cvol ccen].
  - cbn [present] in P. rewrite INACT by (rewrite P; discriminate). reflexivity.
  - apply orb_true_r.
  - apply orb_true_r.
Qed.

(** ** match_position *)
Lemma match_position_ok fxp : (fxp = false -> (2 <= nx g)%nat) -> (2 <= nx g)%nat \/ (2 <= ny g)%nat ->
  match_position K keqb heading fxp GG (blk obc) (gdx g) (gdy g) (gdz g) = Ok (PosAx (gox g) (goy g) (gax g) (gay g), goz g).
Proof.
  intros GP D2. pose proof (wf_nz g W) as NZ. pose proof (wf_nx g W) as NX. pose proof (wf_ny g W) as NY.
  destruct HS as [HS1 _]. unfold match_position.
  rewrite (HY track1_start None (or_introl eq_refl) 0%nat ltac:(lia) (fuel_of K GG) (HY fuel_nx)). cbn [bind fst].
  rewrite !map_length, seq_length. rewrite (bcen_rock (nz g) 0 0 ltac:(lia)).
  change (nz (mkRgeo 0 0 0 1 0 (gdx g) (gdy g) (gdz g) 0 0 0 0 (fun _ _ => 0))) with (nz g).
  change (ccx (mkRgeo 0 0 0 1 0 (gdx g) (gdy g) (gdz g) 0 0 0 0 (fun _ _ => 0)) 0) with (ccx g 0).
  change (ccy (mkRgeo 0 0 0 1 0 (gdx g) (gdy g) (gdz g) 0 0 0 0 (fun _ _ => 0)) 0) with (ccy g 0).
  rewrite (HY zc_bottom 0%nat 0%nat ltac:(lia) ltac:(lia)). rewrite (lcen_shift g (nz g) ltac:(lia)).
  destruct (Nat.leb_spec (nx g) 1) as [L|L].
  - (* a single block in direction 1: the direction-2 track gives the heading *)
    destruct fxp; [|specialize (GP eq_refl); lia]. cbn [andb].
    rewrite (HY track2_start None (or_introl eq_refl) 0%nat ltac:(lia) (fuel_of K GG) (HY fuel_ny)). cbn [bind fst].
    rewrite map_map. destruct (ny g) as [|m] eqn:EM; [lia|]. rewrite last_of_map_seq. cbn [Nat.add].
    rewrite (bcen_rock (nz g) 0 m ltac:(lia)).
    pose proof (ccy_increasing g m W ltac:(lia) ltac:(lia)) as CI.
    replace (px g 0 m - px g 0 0) with ((ccy g m - ccy g 0) * (- gay g)) by (unfold px; ring).
    replace (py g 0 m - py g 0 0) with ((ccy g m - ccy g 0) * gax g) by (unfold py; ring).
    rewrite (HS1 (ccy g m - ccy g 0) (- gay g) (gax g)); [|qc_lra|rewrite <- UNIT; ring].
    f_equal. f_equal. f_equal; unfold px, py; ring.
  - rewrite andb_false_r. cbn [bind fst].
    rewrite map_map. destruct (nx g) as [|m] eqn:EM; [lia|]. rewrite last_of_map_seq. cbn [Nat.add].
    rewrite (bcen_rock (nz g) m 0 ltac:(lia)).
    pose proof (ccx_increasing g m W ltac:(lia) ltac:(lia)) as CI.
    replace (px g m 0 - px g 0 0) with ((ccx g m - ccx g 0) * gax g) by (unfold px; ring).
    replace (py g m 0 - py g 0 0) with ((ccx g m - ccx g 0) * gay g) by (unfold py; ring).
    rewrite (HS1 (ccx g m - ccx g 0) (gax g) (gay g)); [|qc_lra|exact UNIT].
    f_equal. f_equal. f_equal; unfold px, py; ring.
Qed.
(** before 0d340ee: a single block in direction 1 gave the heading of the zero vector: NaN position *)
Lemma match_position_defect : nx g = 1%nat ->
  match_position K keqb heading false GG (blk obc) (gdx g) (gdy g) (gdz g) = Ok (PosNaN, goz g).
Proof.
  intros E1. pose proof (wf_nz g W) as NZ. pose proof (wf_ny g W) as NY. destruct HS as [_ HS0].
  unfold match_position.
  rewrite (HY track1_start None (or_introl eq_refl) 0%nat ltac:(lia) (fuel_of K GG) (HY fuel_nx)). cbn [bind fst andb].
  rewrite (bcen_rock (nz g) 0 0 ltac:(lia)).
  change (nz (mkRgeo 0 0 0 1 0 (gdx g) (gdy g) (gdz g) 0 0 0 0 (fun _ _ => 0))) with (nz g).
  rewrite (HY zc_bottom 0%nat 0%nat ltac:(lia) ltac:(lia)). rewrite (lcen_shift g (nz g) ltac:(lia)).
  rewrite map_map. rewrite E1. cbn [seq map]. rewrite last_of_single. rewrite (bcen_rock (nz g) 0 0 ltac:(lia)).
  replace (px g 0 0 - px g 0 0) with 0 by ring. replace (py g 0 0 - py g 0 0) with 0 by ring. rewrite HS0. reflexivity.
Qed.

(** ** find_surface, snapping, pruning *)
Variable snap : Qc.
(** rectgeo's snapping moves no column surface (in particular whenever layer_snap <= 0) *)
Hypothesis NOSNAP : forall i j, (i < nx g)%nat -> (j < ny g)%nat -> snap_surface g snap (gsurf g i j) = gsurf g i j.
(** remove_inactive: allowed when no block has a non-positive volume (huge-volume atmosphere blocks) *)
Variable rminact : bool.
Hypothesis RM : rminact = true -> gatm g <> 2%nat -> 0 < gatmvol g.

Definition surf_list : list Qc := map (fun c => gsurf g (fst c) (snd c)) (colidx (nx g) (ny g)).
(** the reconstructed geometry *)
Definition regeo (p : posres) : rgeo :=
  mkRgeo (pos_x p) (pos_y p) (goz g) (pos_ax p) (pos_ay p) (gdx g) (gdy g) (gdz g) (gatm g) 0 0 (goz g) (list_surf (nx g) surf_list (goz g)).
Definition pruned_log (p : posres) : list (K * K) :=
  filter (fun e => key_in K keqb (fst e) (map (fun c => nm' (cc c)) (cells (regeo p)))) (full_log K g nm nm').

Lemma rm_scan_nil l : (forall b, In b l -> rminact && qle (bvol b) 0 = false) -> rm_scan K rminact false l = [].
Proof.
  induction l as [|b l IH]; intros H; [reflexivity|]. cbn [rm_scan orb]. rewrite (H b (or_introl eq_refl)). cbn [app].
  apply IH. intros b' Hb'. apply H. right. exact Hb'.
Qed.
Lemma remove_nil : remove_blocks K rminact GG = [].
Proof.
  unfold remove_blocks. apply rm_scan_nil. intros b Hb. destruct rminact eqn:ER; [|reflexivity]. cbn [andb].
  unfold G, rect_blocks in Hb. cbn [blocks] in Hb. apply in_map_iff in Hb. destruct Hb as [c [<- Hc]].
  apply in_cells_iff in Hc. destruct Hc as [P E]. rewrite E.
  destruct (cc c) as [|[|k] i j]; cbn [mk_block bvol cellof rock_cell cvol fst snd]; cbn [present] in P.
  - assert (0 < gatmvol g) by (apply RM; [reflexivity|rewrite P; discriminate]). qc_lra.
  - destruct P as [A _]. assert (0 < gatmvol g) by (apply RM; [reflexivity|rewrite A; discriminate]). qc_lra.
  - destruct P as [Hk [Hi [Hj Hh]]]. pose proof (volume_pos g W (S k) i j Hk Hi Hj Hh). qc_lra.
Qed.

Lemma finish_ok pos : (nz g <= fuel_of K GG)%nat ->
  finish K keqb GG av snap (gatm g) nm' [] (gdx g) (gdy g) (gdz g) (full_log K g nm nm') pos (goz g) =
  Ok (mkResult (gdx g) (gdy g) (gdz g) pos (goz g) surf_list (pruned_log pos)).
Proof.
  intros FU. unfold finish. cbv zeta.
  set (g1 := mkRgeo (pos_x pos) (pos_y pos) (goz g) (pos_ax pos) (pos_ay pos) (gdx g) (gdy g) (gdz g) (gatm g) 0 0 (goz g) (fun _ _ => goz g)).
  change (nx g1) with (nx g). change (ny g1) with (ny g).
  rewrite (mapM_ok _ (fun c => gsurf g (fst c) (snd c))).
  - cbn [bind]. fold surf_list.
    assert (SN : map (snap_surface g1 snap) surf_list = surf_list).
    { unfold surf_list. rewrite map_map. apply map_ext_in. intros [i j] Hin. apply in_colidx in Hin. cbn [fst snd].
      change (snap_surface g1 snap (gsurf g i j)) with (snap_surface g snap (gsurf g i j)). apply NOSNAP; tauto. }
    rewrite SN. reflexivity.
  - intros [i j] Hin. apply in_colidx in Hin. cbn [fst snd].
    apply (HZ find_col_surface_ok (pos_x pos) (pos_y pos) (pos_ax pos) (pos_ay pos) (gatm g) (fun _ _ => goz g) (goz g) i j); tauto.
Qed.

(** ** the whole of rectgeo *)
Variable i0 j0 : nat.
Hypothesis Hi0 : (i0 < nx g)%nat.
Hypothesis Hj0 : (j0 < ny g)%nat.
(** some column reaches the top of layer 1 *)
Hypothesis TOP : goz g <= gsurf g i0 j0.
Hypothesis D2 : (2 <= nx g)%nat \/ (2 <= ny g)%nat.
(** origin_block: not given, or the name of the first block of the bottom layer *)
Variable obk : option K.
Hypothesis OBK : obk = None \/ obk = Some (nm obc).

Lemma origin_ok :
  match obk with
  | Some k => match find_block K keqb GG k with Some b => Ok b | None => Raise KeyError end
  | None => match find_origin_block K GG with Some b => Ok b | None => Raise ValueError end
  end = Ok (blk obc).
Proof.
  destruct OBK as [-> | ->].
  - rewrite (HY origin_block). reflexivity.
  - rewrite (find_block_present K keqb keqb_spec g nm nm_inj cn CN obc (HY ob_present)). reflexivity.
Qed.

Theorem rectgeo_exact fxp fx2 :
  (fxp = false -> (2 <= nx g)%nat) ->
  (fx2 = false -> (nx g = 1%nat \/ ny g = 1%nat) -> has g (nz g - 1) 0 0 = true \/ (gatm g < 2)%nat) ->
  rectgeo K keqb heading fxp fx2 GG obk av rminact snap (gatm g) nm' =
  Ok (mkResult (gdx g) (gdy g) (gdz g) (PosAx (gox g) (goy g) (gax g) (gay g)) (goz g) surf_list
               (pruned_log (PosAx (gox g) (goy g) (gax g) (gay g)))).
Proof.
  intros GP G2. unfold rectgeo. rewrite required_ok. cbn [negb]. rewrite origin_ok. cbn [bind].
  rewrite (HY block_spacings_ok D2 fx2 i0 j0 Hi0 Hj0 TOP G2). cbn [bind].
  change (length (gdx g)) with (nx g). change (length (gdy g)) with (ny g). change (length (gdz g)) with (nz g).
  rewrite (HZ block_mapping_ok). cbn [bind].
  rewrite (match_position_ok fxp GP D2). cbn [bind fst snd]. rewrite remove_nil.
  rewrite (finish_ok _ (HY fuel_nz i0 j0 Hi0 Hj0 TOP)). reflexivity.
Qed.
(** the defect repaired by 0d340ee, "single block in direction 1", in full generality: everything but the
    horizontal position is recovered, the position is NaN *)
Theorem rectgeo_single_block_nan fx2 : nx g = 1%nat ->
  (fx2 = false -> has g (nz g - 1) 0 0 = true \/ (gatm g < 2)%nat) ->
  rectgeo K keqb heading false fx2 GG obk av rminact snap (gatm g) nm' =
  Ok (mkResult (gdx g) (gdy g) (gdz g) PosNaN (goz g) surf_list (pruned_log PosNaN)).
Proof.
  intros E1 G2. unfold rectgeo. rewrite required_ok. cbn [negb]. rewrite origin_ok. cbn [bind].
  rewrite (HY block_spacings_ok D2 fx2 i0 j0 Hi0 Hj0 TOP ltac:(intros; apply G2; assumption)). cbn [bind].
  change (length (gdx g)) with (nx g). change (length (gdy g)) with (ny g). change (length (gdz g)) with (nz g).
  rewrite (HZ block_mapping_ok). cbn [bind].
  rewrite (match_position_defect E1). cbn [bind fst snd]. rewrite remove_nil.
  rewrite (finish_ok PosNaN (HY fuel_nz i0 j0 Hi0 Hj0 TOP)). reflexivity.
Qed.

(** the defect repaired by 8b5d11e, "2-D grid, no atmosphere blocks, origin column holds a single block", in
    full generality: IndexError *)
Theorem rectgeo_2d_indexerror fxp : (nx g = 1%nat \/ ny g = 1%nat) -> has g (nz g - 1) 0 0 = false -> (2 <= gatm g)%nat ->
  rectgeo K keqb heading fxp false GG obk av rminact snap (gatm g) nm' = Raise IndexError.
Proof.
  intros E Hh A. unfold rectgeo. rewrite required_ok. cbn [negb]. rewrite origin_ok. cbn [bind].
  rewrite (HY block_spacings_defect D2 i0 j0 Hi0 Hj0 TOP E Hh A). reflexivity.
Qed.
End Main.
