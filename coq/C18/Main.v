(** C18 -- rectgeo on the grid generated from a rectangular geometry: the exact result. *)
From Coq Require Import List Bool Arith ZArith QArith Qcanon Lia.
From PTBase Require Import Exn.
From P Require Import Rectgeo QcFacts GeoFacts ListFacts Forward Walk Track Origin Spacings Mapping Surface.
Import ListNotations.
Open Scope Qc_scope.

(** the reconstructed geometry at the origin has the layer centres of the original, shifted *)
Lemma lcen_shift g k : (1 <= k)%nat ->
  lcen g k - lcen (mkRgeo 0 0 0 (gdx g) (gdy g) (gdz g) 0 0 0 (fun _ _ => 0)) k = goz g.
Proof. intros Hk. destruct k; [lia|]. unfold lcen, bot, thick. cbn [goz gdz]. ring. Qed.
Lemma ccx_shift g : ccx g 0 - ccx (mkRgeo 0 0 0 (gdx g) (gdy g) (gdz g) 0 0 0 (fun _ _ => 0)) 0 = gox g.
Proof. unfold ccx, xlo, dxi. cbn [gox gdx firstn qsum]. ring. Qed.
Lemma ccy_shift g : ccy g 0 - ccy (mkRgeo 0 0 0 (gdx g) (gdy g) (gdz g) 0 0 0 (fun _ _ => 0)) 0 = goy g.
Proof. unfold ccy, ylo, dyj. cbn [goy gdy firstn qsum]. ring. Qed.

Lemma ccx_increasing g m : wf g -> (1 <= m)%nat -> (m < nx g)%nat -> ccx g 0 < ccx g m.
Proof.
  intros W Hm Hn. unfold ccx, xlo. cbn [firstn qsum].
  pose proof (qsum_firstn_mono (gdx g) 1 m (wf_dx g W) Hm ltac:(unfold nx in Hn; lia)) as M.
  rewrite (qsum_firstn_S (gdx g) 0) in M by (unfold nx in Hn; lia). cbn [firstn qsum] in M. fold (dxi g 0) in M.
  pose proof (dxi_pos g W m Hn) as P. pose proof (dxi_pos g W 0 ltac:(lia)) as P0. qc_lra.
Qed.
Lemma ccy_increasing g m : wf g -> (1 <= m)%nat -> (m < ny g)%nat -> ccy g 0 < ccy g m.
Proof.
  intros W Hm Hn. unfold ccy, ylo. cbn [firstn qsum].
  pose proof (qsum_firstn_mono (gdy g) 1 m (wf_dy g W) Hm ltac:(unfold ny in Hn; lia)) as M.
  rewrite (qsum_firstn_S (gdy g) 0) in M by (unfold ny in Hn; lia). cbn [firstn qsum] in M. fold (dyj g 0) in M.
  pose proof (dyj_pos g W m Hn) as P. pose proof (dyj_pos g W 0 ltac:(lia)) as P0. qc_lra.
Qed.
Lemma heading_x vx vy : 0 < vx -> vy = 0 -> heading_class vx vy = 1%nat.
Proof.
  intros Hx ->. unfold heading_class.
  assert (A : qle vx 0 = false) by qc_lra. rewrite A. cbn [andb].
  assert (B : qlt 0 vx = true) by qc_lra. assert (C : qle 0 0 = true) by (apply qle_spec; apply Qcle_refl). rewrite B, C. reflexivity.
Qed.
Lemma heading_y vx vy : 0 < vy -> vx = 0 -> heading_class vx vy = 2%nat.
Proof.
  intros Hy ->. unfold heading_class.
  assert (C : qle 0 0 = true) by (apply qle_spec; apply Qcle_refl). rewrite C. cbn [andb].
  assert (A : qle vy 0 = false) by qc_lra. rewrite A. cbn [andb].
  assert (D : qlt 0 0 = false) by (apply qlt_false; apply Qcle_refl). rewrite D. cbn [andb].
  assert (B : qlt 0 vy = true) by qc_lra. rewrite B. reflexivity.
Qed.
Lemma heading_zero : heading_class 0 0 = 0%nat.
Proof. reflexivity. Qed.

Section Main.
Set Default Proof Using "All".
Variable K : Type.
Variable keqb : K -> K -> bool.
Hypothesis keqb_spec : forall a b, keqb a b = true <-> a = b.
Variable g : rgeo.
Hypothesis W : wf g.
Variable nm : cid -> K.
Hypothesis nm_inj : forall a b, latt g a -> latt g b -> nm a = nm b -> a = b.
Variable cn : K -> list (K * K).
Hypothesis CN : cn_ok K g nm cn.
Variable av : Qc.
Hypothesis ACT : forall k i j, present g (Cell (S k) i j) -> volume g (S k) i j < av.
Hypothesis INACT : gatm g <> 2%nat -> vol_ok (Some av) (gatmvol g) = false.
Variable nm' : cid -> K.
Hypothesis nm'_inj : forall a b, latt g a -> latt g b -> nm' a = nm' b -> a = b.

Notation GG := (G K g nm cn).
Notation blk := (blk K g nm).
Notation obc := (Cell (nz g) 0 0).
Local Notation HY lem := (lem K keqb keqb_spec g W nm nm_inj cn CN av ACT INACT) (only parsing).
Local Notation HZ lem := (lem K keqb keqb_spec g W nm nm_inj cn CN av ACT INACT nm' nm'_inj) (only parsing).

Lemma bcen_rock k i j : (1 <= k)%nat -> bcen (blk (Cell k i j)) = Some (ccx g i, ccy g j, zc g k i j).
Proof. intros Hk. destruct k; [lia|]. reflexivity. Qed.

(** required_centres_present *)
Lemma required_ok :
  forallb (fun b => negb (vol_ok (Some av) (bvol b)) || match bcen b with Some _ => true | None => false end) (blocks GG) = true.
Proof.
  apply forallb_forall. intros b Hb. unfold G, rect_blocks in Hb. cbn [blocks] in Hb. apply in_map_iff in Hb.
  destruct Hb as [c [<- Hc]]. apply in_cells_iff in Hc. destruct Hc as [P E]. rewrite E.
  destruct (cc c) as [|[|k] i j]; cbn [mk_block bvol bcen cellof rock_cell cvol ccen].
  - cbn [present] in P. rewrite INACT by (rewrite P; discriminate). reflexivity.
  - apply orb_true_r.
  - apply orb_true_r.
Qed.

(** ** match_position *)
Lemma match_position_ok fxp : (fxp = false -> (2 <= nx g)%nat) -> (2 <= nx g)%nat \/ (2 <= ny g)%nat ->
  match_position K keqb fxp GG (blk obc) (gdx g) (gdy g) (gdz g) = Ok (PosXY (gox g) (goy g), goz g).
Proof.
  intros GP D2. pose proof (wf_nz g W) as NZ. pose proof (wf_nx g W) as NX. pose proof (wf_ny g W) as NY.
  unfold match_position.
  rewrite (HY track1_start None (or_introl eq_refl) 0%nat ltac:(lia) (fuel_of K GG) (HY fuel_nx)). cbn [bind fst].
  rewrite !map_length, seq_length. rewrite (bcen_rock (nz g) 0 0 ltac:(lia)).
  change (nz (mkRgeo 0 0 0 (gdx g) (gdy g) (gdz g) 0 0 0 (fun _ _ => 0))) with (nz g).
  rewrite (HY zc_bottom 0%nat 0%nat ltac:(lia) ltac:(lia)). rewrite (lcen_shift g (nz g) ltac:(lia)). rewrite ccx_shift, ccy_shift.
  destruct (Nat.leb_spec (nx g) 1) as [L|L].
  - (* a single block in direction 1: only the repaired code finds a heading *)
    destruct fxp; [|specialize (GP eq_refl); lia]. cbn [andb].
    rewrite (HY track2_start None (or_introl eq_refl) 0%nat ltac:(lia) (fuel_of K GG) (HY fuel_ny)). cbn [bind fst].
    rewrite map_map. destruct (ny g) as [|m] eqn:EM; [lia|]. rewrite last_of_map_seq. cbn [Nat.add].
    rewrite (bcen_rock (nz g) 0 m ltac:(lia)).
    rewrite (heading_y (ccx g 0 - ccx g 0) (ccy g m - ccy g 0)); [reflexivity| |ring].
    pose proof (ccy_increasing g m W ltac:(lia) ltac:(lia)). qc_lra.
  - rewrite andb_false_r. cbn [bind fst].
    rewrite map_map. destruct (nx g) as [|m] eqn:EM; [lia|]. rewrite last_of_map_seq. cbn [Nat.add].
    rewrite (bcen_rock (nz g) m 0 ltac:(lia)).
    rewrite (heading_x (ccx g m - ccx g 0) (ccy g 0 - ccy g 0)); [reflexivity| |ring].
    pose proof (ccx_increasing g m W ltac:(lia) ltac:(lia)). qc_lra.
Qed.
(** the recorded defect: a single block in direction 1, code as it stands: NaN position *)
Lemma match_position_defect : nx g = 1%nat ->
  match_position K keqb false GG (blk obc) (gdx g) (gdy g) (gdz g) = Ok (PosNaN, goz g).
Proof.
  intros E1. pose proof (wf_nz g W) as NZ. pose proof (wf_ny g W) as NY.
  unfold match_position.
  rewrite (HY track1_start None (or_introl eq_refl) 0%nat ltac:(lia) (fuel_of K GG) (HY fuel_nx)). cbn [bind fst andb].
  rewrite (bcen_rock (nz g) 0 0 ltac:(lia)).
  change (nz (mkRgeo 0 0 0 (gdx g) (gdy g) (gdz g) 0 0 0 (fun _ _ => 0))) with (nz g).
  rewrite (HY zc_bottom 0%nat 0%nat ltac:(lia) ltac:(lia)). rewrite (lcen_shift g (nz g) ltac:(lia)).
  rewrite map_map. rewrite E1. cbn [seq map]. rewrite last_of_single. rewrite (bcen_rock (nz g) 0 0 ltac:(lia)).
  replace (ccx g 0 - ccx g 0) with 0 by ring. replace (ccy g 0 - ccy g 0) with 0 by ring. rewrite heading_zero. reflexivity.
Qed.

(** ** find_surface, snapping, pruning *)
Variable snap : Qc.
(** rectgeo's snapping moves no column surface (in particular whenever layer_snap <= 0) *)
Hypothesis NOSNAP : forall i j, (i < nx g)%nat -> (j < ny g)%nat -> snap_surface g snap (gsurf g i j) = gsurf g i j.

Definition surf_list : list Qc := map (fun c => gsurf g (fst c) (snd c)) (colidx (nx g) (ny g)).
(** the reconstructed geometry *)
Definition regeo (x0 y0 : Qc) : rgeo :=
  mkRgeo x0 y0 (goz g) (gdx g) (gdy g) (gdz g) (gatm g) 0 0 (list_surf (nx g) surf_list (goz g)).
Definition pruned_log (x0 y0 : Qc) : list (K * K) :=
  filter (fun p => key_in K keqb (fst p) (map (fun c => nm' (cc c)) (cells (regeo x0 y0)))) (full_log K g nm nm').

Lemma finish_ok pos : (nz g <= fuel_of K GG)%nat ->
  finish K keqb GG av snap (gatm g) nm' (gdx g) (gdy g) (gdz g) (full_log K g nm nm') pos (goz g) =
  Ok (mkResult (gdx g) (gdy g) (gdz g) pos (goz g) surf_list
               (pruned_log (match pos with PosXY x _ => x | _ => 0 end) (match pos with PosXY _ y => y | _ => 0 end))).
Proof.
  intros FU. unfold finish. cbv zeta.
  set (x0 := match pos with PosXY x _ => x | _ => 0 end). set (y0 := match pos with PosXY _ y => y | _ => 0 end).
  change (nx (mkRgeo x0 y0 (goz g) (gdx g) (gdy g) (gdz g) (gatm g) 0 0 (fun _ _ => goz g))) with (nx g).
  change (ny (mkRgeo x0 y0 (goz g) (gdx g) (gdy g) (gdz g) (gatm g) 0 0 (fun _ _ => goz g))) with (ny g).
  rewrite (mapM_ok _ (fun c => gsurf g (fst c) (snd c))).
  - cbn [bind]. fold surf_list.
    assert (SN : map (snap_surface (mkRgeo x0 y0 (goz g) (gdx g) (gdy g) (gdz g) (gatm g) 0 0 (fun _ _ => goz g)) snap) surf_list = surf_list).
    { unfold surf_list. rewrite map_map. apply map_ext_in. intros [i j] Hin. apply in_colidx in Hin. cbn [fst snd].
      change (snap_surface (mkRgeo x0 y0 (goz g) (gdx g) (gdy g) (gdz g) (gatm g) 0 0 (fun _ _ => goz g)) snap (gsurf g i j))
        with (snap_surface g snap (gsurf g i j)). apply NOSNAP; tauto. }
    rewrite SN. reflexivity.
  - intros [i j] Hin. apply in_colidx in Hin. cbn [fst snd].
    apply (HZ find_col_surface_ok x0 y0 (gatm g) (fun _ _ => goz g) i j); tauto.
Qed.

(** ** the whole of rectgeo *)
Variable i0 j0 : nat.
Hypothesis Hi0 : (i0 < nx g)%nat.
Hypothesis Hj0 : (j0 < ny g)%nat.
(** some column reaches the top of layer 1 *)
Hypothesis TOP : goz g <= gsurf g i0 j0.
Hypothesis D2 : (2 <= nx g)%nat \/ (2 <= ny g)%nat.

Theorem rectgeo_exact fxp fx2 :
  (fxp = false -> (2 <= nx g)%nat) ->
  (fx2 = false -> (nx g = 1%nat \/ ny g = 1%nat) -> has g (nz g - 1) 0 0 = true \/ (gatm g < 2)%nat) ->
  rectgeo K keqb fxp fx2 GG av snap (gatm g) nm' =
  Ok (mkResult (gdx g) (gdy g) (gdz g) (PosXY (gox g) (goy g)) (goz g) surf_list (pruned_log (gox g) (goy g))).
Proof.
  intros GP G2. unfold rectgeo. rewrite required_ok. cbn [negb].
  rewrite (HY origin_block).
  rewrite (HY block_spacings_ok D2 fx2 i0 j0 Hi0 Hj0 TOP G2). cbn [bind].
  change (length (gdx g)) with (nx g). change (length (gdy g)) with (ny g). change (length (gdz g)) with (nz g).
  rewrite (HZ block_mapping_ok). cbn [bind].
  rewrite (match_position_ok fxp GP D2). cbn [bind fst snd].
  rewrite (finish_ok (PosXY (gox g) (goy g)) (HY fuel_nz i0 j0 Hi0 Hj0 TOP)). reflexivity.
Qed.
(** the recorded defect "single block in direction 1" in full generality: everything but the
    horizontal position is recovered, the position is NaN *)
Theorem rectgeo_single_block_nan fx2 : nx g = 1%nat ->
  (fx2 = false -> has g (nz g - 1) 0 0 = true \/ (gatm g < 2)%nat) ->
  rectgeo K keqb false fx2 GG av snap (gatm g) nm' =
  Ok (mkResult (gdx g) (gdy g) (gdz g) PosNaN (goz g) surf_list (pruned_log 0 0)).
Proof.
  intros E1 G2. unfold rectgeo. rewrite required_ok. cbn [negb].
  rewrite (HY origin_block).
  rewrite (HY block_spacings_ok D2 fx2 i0 j0 Hi0 Hj0 TOP ltac:(intros; apply G2; assumption)). cbn [bind].
  change (length (gdx g)) with (nx g). change (length (gdy g)) with (ny g). change (length (gdz g)) with (nz g).
  rewrite (HZ block_mapping_ok). cbn [bind].
  rewrite (match_position_defect E1). cbn [bind fst snd].
  rewrite (finish_ok PosNaN (HY fuel_nz i0 j0 Hi0 Hj0 TOP)). reflexivity.
Qed.

(** the recorded defect "2-D grid, no atmosphere blocks, origin column holds a single block" in full
    generality: the code as it stands raises IndexError *)
Theorem rectgeo_2d_indexerror fxp : (nx g = 1%nat \/ ny g = 1%nat) -> has g (nz g - 1) 0 0 = false -> (2 <= gatm g)%nat ->
  rectgeo K keqb fxp false GG av snap (gatm g) nm' = Raise IndexError.
Proof.
  intros E Hh A. unfold rectgeo. rewrite required_ok. cbn [negb].
  rewrite (HY origin_block).
  rewrite (HY block_spacings_defect D2 i0 j0 Hi0 Hj0 TOP E Hh A). reflexivity.
Qed.
End Main.
