(** C18 -- the grid generated from a rectangular geometry: which cells and links it has, and the
    look-ups rectgeo performs on it (by block name, by connection name, along connection_name sets). *)
From Coq Require Import List Bool Arith ZArith QArith Qcanon Lia.
From PTBase Require Import Exn.
From P Require Import Rectgeo QcFacts GeoFacts ListFacts.
Import ListNotations.
Open Scope Qc_scope.

Lemma cid_eqb_eq a b : cid_eqb a b = true <-> a = b.
Proof.
  destruct a as [|k i j], b as [|k' i' j']; cbn; split; intro H; try reflexivity; try discriminate.
  - apply andb_prop in H. destruct H as [H H3]. apply andb_prop in H. destruct H as [H1 H2].
    apply Nat.eqb_eq in H1, H2, H3. subst. reflexivity.
  - inversion H; subst. rewrite !Nat.eqb_refl. reflexivity.
Qed.
Lemma cid_eqb_refl a : cid_eqb a a = true.
Proof. apply cid_eqb_eq. reflexivity. Qed.
Lemma cid_eqb_neq a b : cid_eqb a b = false <-> a <> b.
Proof. rewrite <- cid_eqb_eq. destruct (cid_eqb a b); split; congruence. Qed.

(** * cells *)
Definition cellof (g : rgeo) (c : cid) : cellrec :=
  match c with
  | Atm0 => mkCell Atm0 (gatmvol g) None
  | Cell O i j => mkCell (Cell 0 i j) (gatmvol g) (Some (px g i j, py g i j, gatmz g))
  | Cell k i j => rock_cell g k (i, j)
  end.
Definition present (g : rgeo) (c : cid) : Prop :=
  match c with
  | Atm0 => gatm g = 0%nat
  | Cell O i j => gatm g = 1%nat /\ (i < nx g)%nat /\ (j < ny g)%nat
  | Cell k i j => (1 <= k <= nz g)%nat /\ (i < nx g)%nat /\ (j < ny g)%nat /\ has g k i j = true
  end.
(** the block lattice of the geometry: where its naming has to be one-to-one *)
Definition latt (g : rgeo) (c : cid) : Prop :=
  match c with Atm0 => True | Cell k i j => (k <= nz g)%nat /\ (i < nx g)%nat /\ (j < ny g)%nat end.

Lemma cc_cellof g c : cc (cellof g c) = c.
Proof. destruct c as [|[|k] i j]; reflexivity. Qed.
Lemma present_latt g c : present g c -> latt g c.
Proof. destruct c as [|[|k] i j]; cbn; intuition lia. Qed.

Lemma present_rock g k i j : present g (Cell k i j) -> (1 <= k)%nat ->
  (1 <= k <= nz g)%nat /\ (i < nx g)%nat /\ (j < ny g)%nat /\ has g k i j = true.
Proof. destruct k; [lia|]. cbn. tauto. Qed.
Lemma rock_present g k i j : (1 <= k <= nz g)%nat -> (i < nx g)%nat -> (j < ny g)%nat -> has g k i j = true -> present g (Cell k i j).
Proof. destruct k; [lia|]. cbn. tauto. Qed.

Lemma in_cells_iff g c : In c (cells g) <-> present g (cc c) /\ c = cellof g (cc c).
Proof.
  unfold cells. rewrite in_app_iff. split.
  - intros [H|H].
    + unfold atm_cells in H. destruct (gatm g) as [|[|n]] eqn:E.
      * destruct H as [<-|[]]. cbn. auto.
      * apply in_map_iff in H. destruct H as [[i j] [<- Hin]]. apply in_colidx in Hin. cbn. rewrite E. intuition.
      * destruct H.
    + unfold rock_cells in H. apply in_flat_map in H. destruct H as [k [Hk H]]. apply in_seq in Hk.
      apply in_map_iff in H. destruct H as [[i j] [<- Hin]]. unfold layer_cols in Hin. apply filter_In in Hin.
      destruct Hin as [Hin Hh]. apply in_colidx in Hin. cbn [fst snd] in Hh. cbn [rock_cell cc fst snd].
      destruct k as [|k]; [lia|]. cbn. split; [repeat split; try lia; auto|reflexivity].
  - intros [P E]. rewrite E. clear E. destruct (cc c) as [|[|k] i j]; cbn [present] in P.
    + left. unfold atm_cells. rewrite P. left. reflexivity.
    + left. unfold atm_cells. destruct P as [P [Hi Hj]]. rewrite P. apply in_map_iff. exists (i, j). split; [reflexivity|].
      apply in_colidx. auto.
    + right. destruct P as [Hk [Hi [Hj Hh]]]. unfold rock_cells. apply in_flat_map. exists (S k). split; [apply in_seq; lia|].
      apply in_map_iff. exists (i, j). split; [reflexivity|]. unfold layer_cols. apply filter_In. split; [apply in_colidx; auto|exact Hh].
Qed.
Lemma present_in_cells g c : present g c -> In (cellof g c) (cells g).
Proof. intros P. apply in_cells_iff. rewrite cc_cellof. auto. Qed.

(** * links *)
Inductive link_shape (g : rgeo) : linkrec -> Prop :=
| LV k i j l : (1 <= k <= nz g)%nat -> (i < nx g)%nat -> (j < ny g)%nat -> has g k i j = true ->
               vlink g k (i, j) = Some l -> link_shape g l
| LX k i j : (1 <= k <= nz g)%nat -> (S i < nx g)%nat -> (j < ny g)%nat -> has g k i j = true -> has g k (S i) j = true ->
             link_shape g (xlink g k i j)
| LY k i j : (1 <= k <= nz g)%nat -> (i < nx g)%nat -> (S j < ny g)%nat -> has g k i j = true -> has g k i (S j) = true ->
             link_shape g (ylink g k i j).

Lemma in_links_iff g l : In l (links g) <-> link_shape g l.
Proof.
  unfold links. rewrite in_flat_map. split.
  - intros [k [Hk H]]. apply in_seq in Hk. unfold layer_links in H. rewrite !in_app_iff in H. destruct H as [H|[H|H]].
    + apply in_cat_some in H. apply in_map_iff in H. destruct H as [[i j] [E Hin]].
      unfold layer_cols in Hin. apply filter_In in Hin. destruct Hin as [Hin Hh]. apply in_colidx in Hin.
      cbn [fst snd] in Hh. apply (LV g k i j l); [lia|tauto|tauto|exact Hh|exact E].
    + unfold xlinks in H. apply in_flat_map in H. destruct H as [j [Hj H]]. apply in_seq in Hj.
      apply in_flat_map in H. destruct H as [i [Hi H]]. apply in_seq in Hi.
      destruct (has g k i j && has g k (S i) j) eqn:E; [|destruct H]. destruct H as [<-|[]].
      apply andb_prop in E. destruct E. apply LX; auto; lia.
    + unfold ylinks in H. apply in_flat_map in H. destruct H as [i [Hi H]]. apply in_seq in Hi.
      apply in_flat_map in H. destruct H as [j [Hj H]]. apply in_seq in Hj.
      destruct (has g k i j && has g k i (S j)) eqn:E; [|destruct H]. destruct H as [<-|[]].
      apply andb_prop in E. destruct E. apply LY; auto; lia.
  - intros S. destruct S as [k i j l Hk Hi Hj Hh E | k i j Hk Hi Hj H1 H2 | k i j Hk Hi Hj H1 H2];
      exists k; (split; [apply in_seq; lia|]); unfold layer_links; rewrite !in_app_iff.
    + left. apply in_cat_some. apply in_map_iff. exists (i, j). split; [exact E|]. unfold layer_cols. apply filter_In.
      split; [apply in_colidx; auto|exact Hh].
    + right. left. unfold xlinks. apply in_flat_map. exists j. split; [apply in_seq; lia|]. apply in_flat_map. exists i.
      split; [apply in_seq; lia|]. rewrite H1, H2. left. reflexivity.
    + right. right. unfold ylinks. apply in_flat_map. exists i. split; [apply in_seq; lia|]. apply in_flat_map. exists j.
      split; [apply in_seq; lia|]. rewrite H1, H2. left. reflexivity.
Qed.

(** the three forms of a vertical link *)
Lemma vlink_cases g k i j l : vlink g k (i, j) = Some l ->
  ((k =? 1)%nat || qle (gsurf g i j) (top g k) = true /\ gatm g = 0%nat /\
     l = mkLink (Cell k i j) Atm0 3 (gsurf g i j - zc g k i j) (gatmconn g) (area g i j) neg1 1) \/
  ((k =? 1)%nat || qle (gsurf g i j) (top g k) = true /\ gatm g = 1%nat /\
     l = mkLink (Cell k i j) (Cell 0 i j) 3 (gsurf g i j - zc g k i j) (gatmconn g) (area g i j) neg1 1) \/
  ((k =? 1)%nat || qle (gsurf g i j) (top g k) = false /\
     l = mkLink (Cell k i j) (Cell (k - 1) i j) 3 (top g k - lcen g k) (zc g (k - 1) i j - bot g (k - 1)) (area g i j) neg1 1).
Proof.
  unfold vlink. destruct ((k =? 1)%nat || qle (gsurf g i j) (top g k)) eqn:E.
  - destruct (gatm g) as [|[|n]]; intros H; inversion H; subst; auto.
  - intros H. inversion H; subst. auto.
Qed.

Section Links.
Variable g : rgeo.

Lemma vlink_up_has k i j : (1 <= k <= nz g)%nat -> (k =? 1)%nat || qle (gsurf g i j) (top g k) = false ->
  (2 <= k)%nat /\ has g (k - 1) i j = true /\ top g k < gsurf g i j.
Proof.
  intros Hk E. apply orb_false_elim in E. destruct E as [E1 E2]. apply Nat.eqb_neq in E1.
  assert (T : top g k < gsurf g i j) by qc_lra. split; [lia|]. split; [|exact T]. apply has_spec. exact T.
Qed.

Lemma link_ends_present l : link_shape g l -> present g (la l) /\ present g (lb l).
Proof.
  intros S. destruct S as [k i j l Hk Hi Hj Hh E | k i j Hk Hi Hj H1 H2 | k i j Hk Hi Hj H1 H2].
  - apply vlink_cases in E. destruct E as [[E [A ->]]|[[E [A ->]]|[E ->]]]; cbn [la lb].
    + split; [|exact A]. destruct k; [lia|]. cbn. auto.
    + split; [destruct k; [lia|]; cbn; auto|]. cbn. auto.
    + destruct (vlink_up_has k i j Hk E) as [K2 [Hh' _]]. split; [destruct k; [lia|]; cbn; auto|].
      destruct k as [|[|k]]; try lia. cbn [Nat.sub] in *. replace (S k - 0)%nat with (S k) in * by lia. cbn. repeat split; auto; lia.
  - cbn [xlink la lb]. destruct k; [lia|]. cbn. repeat split; auto; lia.
  - cbn [ylink la lb]. destruct k; [lia|]. cbn. repeat split; auto; lia.
Qed.

(** a link is determined by its two ends *)
Lemma link_by_ends l l' : link_shape g l -> link_shape g l' -> la l' = la l -> lb l' = lb l -> l' = l.
Proof.
  intros S S'.
  destruct S as [k i j l Hk Hi Hj Hh E | k i j Hk Hi Hj H1 H2 | k i j Hk Hi Hj H1 H2];
  destruct S' as [k' i' j' l' Hk' Hi' Hj' Hh' E' | k' i' j' Hk' Hi' Hj' H1' H2' | k' i' j' Hk' Hi' Hj' H1' H2'].
  - apply vlink_cases in E, E'.
    destruct E as [[E [A ->]]|[[E [A ->]]|[E ->]]]; destruct E' as [[E' [A' ->]]|[[E' [A' ->]]|[E' ->]]]; cbn [la lb];
      intros X Y; inversion X; subst; try congruence; try discriminate; try reflexivity.
  - apply vlink_cases in E. destruct E as [[E [A ->]]|[[E [A ->]]|[E ->]]]; cbn [xlink la lb]; intros X Y; inversion X; subst; inversion Y; lia.
  - apply vlink_cases in E. destruct E as [[E [A ->]]|[[E [A ->]]|[E ->]]]; cbn [ylink la lb]; intros X Y; inversion X; subst; inversion Y; lia.
  - apply vlink_cases in E'. destruct E' as [[E' [A' ->]]|[[E' [A' ->]]|[E' ->]]]; cbn [xlink la lb]; intros X Y; inversion X; subst; inversion Y; lia.
  - cbn [xlink la lb]. intros X Y. inversion X; subst. reflexivity.
  - cbn [xlink ylink la lb]. intros X Y. inversion X; subst. inversion Y. lia.
  - apply vlink_cases in E'. destruct E' as [[E' [A' ->]]|[[E' [A' ->]]|[E' ->]]]; cbn [ylink la lb]; intros X Y; inversion X; subst; inversion Y; lia.
  - cbn [xlink ylink la lb]. intros X Y. inversion X; subst. inversion Y. lia.
  - cbn [ylink la lb]. intros X Y. inversion X; subst. reflexivity.
Qed.

(** the two ends of a link differ *)
Lemma link_ends_differ l : link_shape g l -> la l <> lb l.
Proof.
  intros S. destruct S as [k i j l Hk Hi Hj Hh E | k i j Hk Hi Hj H1 H2 | k i j Hk Hi Hj H1 H2].
  - apply vlink_cases in E. destruct E as [[E [A ->]]|[[E [A ->]]|[E ->]]]; cbn [la lb]; intro X; inversion X. lia.
    destruct (vlink_up_has k i j Hk E). lia.
  - cbn [xlink la lb]. intro X. inversion X. lia.
  - cbn [ylink la lb]. intro X. inversion X. lia.
Qed.
End Links.

(** * the named grid and its look-ups *)
Definition other (l : linkrec) (c : cid) : cid := if cid_eqb (la l) c then lb l else la l.
Definition incident (l : linkrec) (c : cid) : Prop := la l = c \/ lb l = c.
Definition lastok (last : option cid) (l : linkrec) : Prop :=
  match last with None => True | Some x => la l <> x /\ lb l <> x end.

Lemma other_la l c : la l = c -> other l c = lb l.
Proof. intros <-. unfold other. rewrite cid_eqb_refl. reflexivity. Qed.
Lemma other_lb l c : la l <> c -> other l c = la l.
Proof. intros H. unfold other. apply cid_eqb_neq in H. rewrite H. reflexivity. Qed.


Section Named.
Set Default Proof Using "All".
Variable K : Type.
Variable keqb : K -> K -> bool.
Hypothesis keqb_spec : forall a b, keqb a b = true <-> a = b.
Variable g : rgeo.
Variable nm : cid -> K.
Hypothesis nm_inj : forall a b, latt g a -> latt g b -> nm a = nm b -> a = b.
Variable cn : K -> list (K * K).

Definition G : grid K := mkGrid (rect_blocks nm g) (rect_conns nm g) cn.
(** every block's connection_name list holds exactly the names of the connections that mention it *)
Definition cn_ok : Prop :=
  forall k p, In p (cn k) <-> (In p (map (fun c => (ka c, kb c)) (rect_conns nm g)) /\ (fst p = k \/ snd p = k)).
Hypothesis CN : cn_ok.

Lemma keqb_refl a : keqb a a = true.
Proof. apply keqb_spec. reflexivity. Qed.
Lemma keqb_nm a b : latt g a -> latt g b -> keqb (nm a) (nm b) = cid_eqb a b.
Proof.
  intros La Lb. destruct (cid_eqb a b) eqn:E.
  - apply cid_eqb_eq in E. subst. apply keqb_refl.
  - apply cid_eqb_neq in E. destruct (keqb (nm a) (nm b)) eqn:E2; [|reflexivity].
    apply keqb_spec in E2. exfalso. apply E. apply nm_inj; assumption.
Qed.

Lemma find_block_present c : present g c -> find_block K keqb G (nm c) = Some (mk_block nm (cellof g c)).
Proof.
  intros P. unfold find_block, G, rect_blocks. cbn [blocks]. apply find_unique.
  - apply in_map. apply present_in_cells. exact P.
  - cbn [mk_block bkey]. rewrite cc_cellof. apply keqb_refl.
  - intros y Hy Ey. apply in_map_iff in Hy. destruct Hy as [c' [<- Hc']]. apply in_cells_iff in Hc'. destruct Hc' as [P' E'].
    cbn [mk_block bkey] in Ey. apply keqb_spec in Ey. apply nm_inj in Ey; try (apply present_latt; assumption).
    rewrite E', Ey. reflexivity.
Qed.

Lemma find_conn_link l : link_shape g l -> find_conn K keqb G (nm (la l), nm (lb l)) = Some (mk_conn nm l).
Proof.
  intros S. unfold find_conn, G, rect_conns. cbn [conns fst snd]. apply find_unique.
  - apply in_map. apply in_links_iff. exact S.
  - cbn [mk_conn ka kb]. rewrite !keqb_refl. reflexivity.
  - intros y Hy Ey. apply in_map_iff in Hy. destruct Hy as [l' [<- Hl']]. apply in_links_iff in Hl'.
    cbn [mk_conn ka kb] in Ey. apply andb_prop in Ey. destruct Ey as [E1 E2]. apply keqb_spec in E1, E2.
    destruct (link_ends_present g l S) as [Pa Pb]. destruct (link_ends_present g l' Hl') as [Pa' Pb'].
    apply nm_inj in E1; try (apply present_latt; assumption). apply nm_inj in E2; try (apply present_latt; assumption).
    f_equal. apply (link_by_ends g); assumption.
Qed.

(** the connection names a present block sees *)
Lemma in_cn c p : latt g c -> (In p (cn (nm c)) <-> exists l, link_shape g l /\ incident l c /\ p = (nm (la l), nm (lb l))).
Proof.
  intros L. rewrite (CN (nm c) p). split.
  - intros [Hin Hk]. apply in_map_iff in Hin. destruct Hin as [x [<- Hx]]. unfold rect_conns in Hx. apply in_map_iff in Hx.
    destruct Hx as [l [<- Hl]]. apply in_links_iff in Hl. exists l. split; [exact Hl|]. split; [|reflexivity].
    destruct (link_ends_present g l Hl) as [Pa Pb]. cbn [mk_conn ka kb fst snd] in Hk.
    destruct Hk as [Hk|Hk]; apply nm_inj in Hk; try (apply present_latt; assumption); try assumption; [left|right]; exact Hk.
  - intros [l [S [I ->]]]. split.
    + apply in_map_iff. exists (mk_conn nm l). split; [reflexivity|]. apply in_map. apply in_links_iff. exact S.
    + cbn [fst snd]. destruct I as [<-|<-]; auto.
Qed.

Definition cand (c : cid) (last : option cid) (dir : nat) (mv : option Qc) (l : linkrec) : Prop :=
  link_shape g l /\ incident l c /\ ldir l = dir /\ lastok last l /\ vol_ok mv (cvol (cellof g (other l c))) = true.

Lemma other_present l c : link_shape g l -> incident l c -> present g (other l c).
Proof.
  intros S I. destruct (link_ends_present g l S) as [Pa Pb]. unfold other. destruct (cid_eqb (la l) c); assumption.
Qed.

Definition okp (k : K) (mv : option Qc) (p : K * K) : bool :=
  match find_block K keqb G (other_end K keqb p k) with Some nb => vol_ok mv (bvol nb) | None => false end.
(** the predicate next_block_in_direction evaluates on a connection name of block c *)
Lemma scan_pred l c last dir mv : link_shape g l -> incident l c -> latt g c -> (forall x, last = Some x -> latt g x) ->
  let p := (nm (la l), nm (lb l)) in
  (has_dir K keqb G dir p && match option_map nm last with Some x => negb (in_pair K keqb x p) | None => true end &&
   okp (nm c) mv p) = true
  <-> cand c last dir mv l.
Proof.
  intros S I L LL p. destruct (link_ends_present g l S) as [Pa Pb].
  assert (La := present_latt g _ Pa). assert (Lb := present_latt g _ Pb).
  unfold has_dir, dir_of, okp. subst p. rewrite (find_conn_link l S). cbn [mk_conn kdir].
  unfold other_end. cbn [fst snd]. rewrite (keqb_nm (la l) c La L).
  replace (if cid_eqb (la l) c then nm (lb l) else nm (la l)) with (nm (other l c)) by (unfold other; destruct (cid_eqb (la l) c); reflexivity).
  rewrite (find_block_present (other l c) (other_present l c S I)). cbn [mk_block bvol].
  unfold cand. rewrite !andb_true_iff, Nat.eqb_eq.
  assert (LK : match option_map nm last with Some x => negb (in_pair K keqb x (nm (la l), nm (lb l))) | None => true end = true <-> lastok last l).
  { destruct last as [x|]; cbn [option_map lastok]; [|tauto]. unfold in_pair. cbn [fst snd].
    specialize (LL x eq_refl). rewrite (keqb_nm (la l) x La LL), (keqb_nm (lb l) x Lb LL).
    rewrite negb_true_iff, orb_false_iff, !cid_eqb_neq. tauto. }
  rewrite LK. tauto.
Qed.

Lemma scan_filter_find k mv (f1 f2 : K * K -> bool) L :
  scan K keqb G k mv (filter f2 (filter f1 L)) =
  match find (fun p => f1 p && f2 p && okp k mv p) L with
  | Some p => match find_block K keqb G (other_end K keqb p k) with Some nb => Some (nb, p) | None => None end
  | None => None
  end.
Proof.
  induction L as [|p r IH]; [reflexivity|]. cbn [filter find]. destruct (f1 p); cbn [andb]; [|exact IH].
  cbn [filter]. destruct (f2 p); cbn [andb]; [|exact IH]. cbn [scan]. unfold okp at 1.
  destruct (find_block K keqb G (other_end K keqb p k)) as [nb|] eqn:E; [|exact IH].
  destruct (vol_ok mv (bvol nb)); [rewrite E; reflexivity|exact IH].
Qed.
Lemma filter_true {A} (l : list A) : filter (fun _ => true) l = l.
Proof. induction l as [|a l IH]; [reflexivity|]. cbn. rewrite IH. reflexivity. Qed.

Lemma next_block_eq c last dir mv :
  next_block K keqb G (nm c) (option_map nm last) dir mv =
  match find (fun p => has_dir K keqb G dir p && match option_map nm last with Some x => negb (in_pair K keqb x p) | None => true end &&
                       okp (nm c) mv p) (cn (nm c)) with
  | Some p => match find_block K keqb G (other_end K keqb p (nm c)) with Some nb => Some (nb, p) | None => None end
  | None => None
  end.
Proof.
  unfold next_block. cbn [cnames G]. destruct (option_map nm last) as [x|].
  - apply scan_filter_find.
  - rewrite <- (filter_true (filter _ _)). apply scan_filter_find.
Qed.

Lemma next_block_some c last dir mv l : present g c -> (forall x, last = Some x -> latt g x) ->
  cand c last dir mv l -> (forall l', cand c last dir mv l' -> l' = l) ->
  next_block K keqb G (nm c) (option_map nm last) dir mv = Some (mk_block nm (cellof g (other l c)), (nm (la l), nm (lb l))).
Proof.
  intros P LL C U. assert (L := present_latt g c P). rewrite next_block_eq.
  destruct C as [S [I C']].
  erewrite find_unique with (x := (nm (la l), nm (lb l))).
  - unfold other_end. cbn [fst snd]. destruct (link_ends_present g l S) as [Pa Pb].
    rewrite (keqb_nm (la l) c (present_latt g _ Pa) L).
    replace (if cid_eqb (la l) c then nm (lb l) else nm (la l)) with (nm (other l c)) by (unfold other; destruct (cid_eqb (la l) c); reflexivity).
    rewrite (find_block_present (other l c) (other_present l c S I)). reflexivity.
  - apply in_cn; [exact L|]. exists l. auto.
  - apply (scan_pred l c last dir mv S I L LL). unfold cand. auto.
  - intros y Hy Qy. apply in_cn in Hy; [|exact L]. destruct Hy as [l' [S' [I' ->]]].
    apply (scan_pred l' c last dir mv S' I' L LL) in Qy. rewrite (U l' Qy). reflexivity.
Qed.

Lemma next_block_none c last dir mv : present g c -> (forall x, last = Some x -> latt g x) ->
  (forall l', ~ cand c last dir mv l') ->
  next_block K keqb G (nm c) (option_map nm last) dir mv = None.
Proof.
  intros P LL U. assert (L := present_latt g c P). rewrite next_block_eq.
  rewrite find_none'; [reflexivity|]. intros y Hy. apply in_cn in Hy; [|exact L]. destruct Hy as [l' [S' [I' ->]]].
  match goal with |- ?b = false => destruct b eqn:E; [|reflexivity] end.
  exfalso. apply (U l'). apply (scan_pred l' c last dir mv S' I' L LL). exact E.
Qed.

(** distances and directions read through a connection name *)
Lemma has_dir_link l dir : link_shape g l -> has_dir K keqb G dir (nm (la l), nm (lb l)) = (ldir l =? dir)%nat.
Proof. intros S. unfold has_dir, dir_of. rewrite (find_conn_link l S). reflexivity. Qed.

Lemma dist_at_link l c : link_shape g l -> latt g c ->
  dist_at K keqb G (nm (la l), nm (lb l)) (nm c) = if cid_eqb (la l) c then lda l else ldb l.
Proof.
  intros S L. unfold dist_at. rewrite (find_conn_link l S). cbn [fst mk_conn kda kdb].
  destruct (link_ends_present g l S) as [Pa Pb]. rewrite (keqb_nm (la l) c (present_latt g _ Pa) L). reflexivity.
Qed.
End Named.
