(** C18 -- symbolic execution of rectgeo's walks on the grid generated from a rectangular geometry:
    which block next_block_in_direction finds, for the queries rectgeo makes. *)
From Coq Require Import List Bool Arith ZArith QArith Qcanon Lia.
From PTBase Require Import Exn.
From P Require Import Rectgeo QcFacts GeoFacts ListFacts Forward.
Import ListNotations.
Open Scope Qc_scope.

(** * shapes of the links at a rock cell *)
Section Shapes.
Set Default Proof Using "All".
Variable g : rgeo.
Hypothesis W : wf g.

Lemma vlink_dir k i j l : vlink g k (i, j) = Some l -> ldir l = 3%nat /\ la l = Cell k i j.
Proof. intros E. apply vlink_cases in E. destruct E as [[E [A ->]]|[[E [A ->]]|[E ->]]]; auto. Qed.

Lemma vlink_up k i j : (2 <= k <= nz g)%nat -> has g (k - 1) i j = true ->
  vlink g k (i, j) = Some (mkLink (Cell k i j) (Cell (k - 1) i j) 3 (top g k - lcen g k) (zc g (k - 1) i j - bot g (k - 1)) (area g i j) neg1 1).
Proof.
  intros Hk Hh. unfold vlink. replace (k =? 1)%nat with false by (symmetry; apply Nat.eqb_neq; lia).
  pose proof (has_above_surface g W k i j Hk Hh) as T.
  assert (E : qle (gsurf g i j) (top g k) = false) by qc_lra. rewrite E. reflexivity.
Qed.
(** the top block of a column: no block above it *)
Definition is_top (k i j : nat) : Prop := k = 1%nat \/ has g (k - 1) i j = false.
Lemma vlink_top_cond k i j : (1 <= k <= nz g)%nat -> is_top k i j -> (k =? 1)%nat || qle (gsurf g i j) (top g k) = true.
Proof.
  intros Hk [->|Hh]; [reflexivity|]. destruct (Nat.eqb_spec k 1); [reflexivity|]. cbn [orb].
  pose proof (no_above_surface g W k i j ltac:(lia) Hh). qc_lra.
Qed.
Lemma vlink_top k i j : (1 <= k <= nz g)%nat -> is_top k i j ->
  vlink g k (i, j) =
  match gatm g with
  | 0%nat => Some (mkLink (Cell k i j) Atm0 3 (gsurf g i j - zc g k i j) (gatmconn g) (area g i j) neg1 1)
  | 1%nat => Some (mkLink (Cell k i j) (Cell 0 i j) 3 (gsurf g i j - zc g k i j) (gatmconn g) (area g i j) neg1 1)
  | _ => None
  end.
Proof. intros Hk T. unfold vlink. rewrite (vlink_top_cond k i j Hk T). reflexivity. Qed.

Lemma vlink_top0 k i j : (1 <= k <= nz g)%nat -> is_top k i j -> gatm g = 0%nat ->
  vlink g k (i, j) = Some (mkLink (Cell k i j) Atm0 3 (gsurf g i j - zc g k i j) (gatmconn g) (area g i j) neg1 1).
Proof. intros Hk T A. rewrite (vlink_top k i j Hk T), A. reflexivity. Qed.
Lemma vlink_top1 k i j : (1 <= k <= nz g)%nat -> is_top k i j -> gatm g = 1%nat ->
  vlink g k (i, j) = Some (mkLink (Cell k i j) (Cell 0 i j) 3 (gsurf g i j - zc g k i j) (gatmconn g) (area g i j) neg1 1).
Proof. intros Hk T A. rewrite (vlink_top k i j Hk T), A. reflexivity. Qed.
Lemma vlink_top2 k i j : (1 <= k <= nz g)%nat -> is_top k i j -> (2 <= gatm g)%nat -> vlink g k (i, j) = None.
Proof. intros Hk T A. rewrite (vlink_top k i j Hk T). destruct (gatm g) as [|[|n]]; [lia|lia|reflexivity]. Qed.
Lemma atm_cases : gatm g = 0%nat \/ gatm g = 1%nat \/ (2 <= gatm g)%nat.
Proof. lia. Qed.

Lemma top_or_not k i j : (1 <= k)%nat -> is_top k i j \/ ((2 <= k)%nat /\ has g (k - 1) i j = true).
Proof.
  intros Hk. unfold is_top. destruct (Nat.eq_dec k 1); [auto|]. destruct (has g (k - 1) i j); [right; split; [lia|reflexivity]|auto].
Qed.

Lemma shape_dir3 l k i j : link_shape g l -> ldir l = 3%nat -> incident l (Cell k i j) -> (1 <= k)%nat ->
  vlink g k (i, j) = Some l \/ (vlink g (S k) (i, j) = Some l /\ lb l = Cell k i j /\ (S k <= nz g)%nat).
Proof.
  intros S D I Hk. destruct S as [k' i' j' l Hk' Hi' Hj' Hh' E | k' i' j' Hk' Hi' Hj' H1 H2 | k' i' j' Hk' Hi' Hj' H1 H2];
    [|cbn in D; discriminate|cbn in D; discriminate].
  pose proof E as E0. apply vlink_cases in E. destruct I as [I|I].
  - destruct E as [[E [A ->]]|[[E [A ->]]|[E ->]]]; cbn [la] in I; inversion I; subst; left; exact E0.
  - destruct E as [[E [A ->]]|[[E [A ->]]|[E ->]]]; cbn [lb] in I; inversion I; subst; try lia.
    destruct (vlink_up_has g k' i j Hk' E) as [K2 _]. right. replace (S (k' - 1)) with k' by lia. cbn [lb]. repeat split; auto; lia.
Qed.

Lemma shape_dir1 l k i j : link_shape g l -> ldir l = 1%nat -> incident l (Cell k i j) ->
  (l = xlink g k i j /\ (S i < nx g)%nat /\ has g k (S i) j = true) \/ (exists i', i = S i' /\ l = xlink g k i' j).
Proof.
  intros S D I. destruct S as [k' i' j' l Hk' Hi' Hj' Hh' E | k' i' j' Hk' Hi' Hj' H1 H2 | k' i' j' Hk' Hi' Hj' H1 H2].
  - apply vlink_dir in E. destruct E as [E _]. congruence.
  - destruct I as [I|I]; cbn [xlink la lb] in I; inversion I; subst; [left; auto|right; eauto].
  - cbn in D. discriminate.
Qed.
Lemma shape_dir2 l k i j : link_shape g l -> ldir l = 2%nat -> incident l (Cell k i j) ->
  (l = ylink g k i j /\ (S j < ny g)%nat /\ has g k i (S j) = true) \/ (exists j', j = S j' /\ l = ylink g k i j').
Proof.
  intros S D I. destruct S as [k' i' j' l Hk' Hi' Hj' Hh' E | k' i' j' Hk' Hi' Hj' H1 H2 | k' i' j' Hk' Hi' Hj' H1 H2].
  - apply vlink_dir in E. destruct E as [E _]. congruence.
  - cbn in D. discriminate.
  - destruct I as [I|I]; cbn [ylink la lb] in I; inversion I; subst; [left; auto|right; eauto].
Qed.
End Shapes.

(** * next_block_in_direction on the generated grid *)
Section Walks.
Set Default Proof Using "All".
Variable K : Type.
Variable keqb : K -> K -> bool.
Hypothesis keqb_spec : forall a b, keqb a b = true <-> a = b.
Variable g : rgeo.
Hypothesis W : wf g.
Variable nm : cid -> K.
Hypothesis nm_inj : forall a b, latt g a -> latt g b -> nm a = nm b -> a = b.
Variable cn : K -> list (K * K).
Hypothesis CN : cn_ok K g nm cn.
Variable av : Qc.
(** rock blocks are active, atmosphere blocks are inactive (zero or huge volume) *)
Hypothesis ACT : forall k i j, present g (Cell (S k) i j) -> volume g (S k) i j < av.
Hypothesis INACT : gatm g <> 2%nat -> vol_ok (Some av) (gatmvol g) = false.

Notation GG := (G K g nm cn).
Local Notation NBS := (next_block_some K keqb keqb_spec g nm nm_inj cn CN).
Local Notation NBN := (next_block_none K keqb keqb_spec g nm nm_inj cn CN).
Definition blk (c : cid) : block K := mk_block nm (cellof g c).
Definition key (l : linkrec) : K * K := (nm (la l), nm (lb l)).
Definition mvok (mv : option Qc) : Prop := mv = None \/ mv = Some av.

Lemma volok_rock mv k i j : mvok mv -> present g (Cell (S k) i j) -> vol_ok mv (cvol (cellof g (Cell (S k) i j))) = true.
Proof.
  intros [->| ->] P; [reflexivity|]. cbn [cellof rock_cell cvol fst snd vol_ok].
  pose proof (ACT k i j P) as A. destruct P as [Hk [Hi [Hj Hh]]].
  pose proof (volume_pos g W (S k) i j Hk Hi Hj Hh) as V.
  apply andb_true_intro. split; qc_lra.
Qed.
Lemma volok_atm c : (c = Atm0 \/ exists i j, c = Cell 0 i j) -> present g c -> vol_ok (Some av) (cvol (cellof g c)) = false.
Proof.
  intros [->|[i [j ->]]] P; cbn [cellof cvol]; apply INACT; cbn in P; [|destruct P as [P _]]; rewrite P; discriminate.
Qed.

(** ** direction 1 *)
Definition last1 (k i j : nat) : option cid := match i with O => None | S i' => Some (Cell k i' j) end.
Lemma next1_some mv k i j : mvok mv -> (1 <= k)%nat -> present g (Cell k i j) -> (S i < nx g)%nat -> has g k (S i) j = true ->
  next_block K keqb GG (nm (Cell k i j)) (option_map nm (last1 k i j)) 1 mv = Some (blk (Cell k (S i) j), key (xlink g k i j)).
Proof.
  intros MV Hk P Hi Hh. destruct (present_rock g k i j P Hk) as [Hk' [Hi' [Hj' Hh']]].
  assert (S0 : link_shape g (xlink g k i j)) by (apply LX; auto).
  rewrite (NBS (Cell k i j) (last1 k i j) 1 mv (xlink g k i j)).
  - rewrite other_la by reflexivity. reflexivity.
  - exact P.
  - intros x Hx. destruct i; cbn in Hx; inversion Hx; subst. cbn. lia.
  - split; [exact S0|]. split; [left; reflexivity|]. split; [reflexivity|]. split.
    + destruct i; cbn; [exact I|]. split; intro X; inversion X; lia.
    + rewrite other_la by reflexivity. cbn [xlink lb]. destruct k; [lia|]. apply volok_rock; [exact MV|]. cbn. repeat split; auto; lia.
  - intros l' [S' [I' [D' [L' V']]]]. destruct (shape_dir1 g W l' k i j S' D' I') as [[-> _]|[i' [-> ->]]]; [reflexivity|].
    cbn in L'. destruct L' as [L' _]. exfalso. apply L'. reflexivity.
Qed.
Lemma next1_none mv k i j : (1 <= k)%nat -> present g (Cell k i j) -> ((S i < nx g)%nat -> has g k (S i) j = false) ->
  next_block K keqb GG (nm (Cell k i j)) (option_map nm (last1 k i j)) 1 mv = None.
Proof.
  intros Hk P Hn. destruct (present_rock g k i j P Hk) as [Hk' [Hi' [Hj' Hh']]].
  apply NBN.
  - exact P.
  - intros x Hx. destruct i; cbn in Hx; inversion Hx; subst. cbn. lia.
  - intros l' [S' [I' [D' [L' V']]]]. destruct (shape_dir1 g W l' k i j S' D' I') as [[-> [A B]]|[i' [-> ->]]].
    + rewrite (Hn A) in B. discriminate.
    + cbn in L'. destruct L' as [L' _]. apply L'. reflexivity.
Qed.

(** ** direction 2 *)
Definition last2 (k i j : nat) : option cid := match j with O => None | S j' => Some (Cell k i j') end.
Lemma next2_some mv k i j : mvok mv -> (1 <= k)%nat -> present g (Cell k i j) -> (S j < ny g)%nat -> has g k i (S j) = true ->
  next_block K keqb GG (nm (Cell k i j)) (option_map nm (last2 k i j)) 2 mv = Some (blk (Cell k i (S j)), key (ylink g k i j)).
Proof.
  intros MV Hk P Hj Hh. destruct (present_rock g k i j P Hk) as [Hk' [Hi' [Hj' Hh']]].
  assert (S0 : link_shape g (ylink g k i j)) by (apply LY; auto).
  rewrite (NBS (Cell k i j) (last2 k i j) 2 mv (ylink g k i j)).
  - rewrite other_la by reflexivity. reflexivity.
  - exact P.
  - intros x Hx. destruct j; cbn in Hx; inversion Hx; subst. cbn. lia.
  - split; [exact S0|]. split; [left; reflexivity|]. split; [reflexivity|]. split.
    + destruct j; cbn; [exact I|]. split; intro X; inversion X; lia.
    + rewrite other_la by reflexivity. cbn [ylink lb]. destruct k; [lia|]. apply volok_rock; [exact MV|]. cbn. repeat split; auto; lia.
  - intros l' [S' [I' [D' [L' V']]]]. destruct (shape_dir2 g W l' k i j S' D' I') as [[-> _]|[j' [-> ->]]]; [reflexivity|].
    cbn in L'. destruct L' as [L' _]. exfalso. apply L'. reflexivity.
Qed.
Lemma next2_none mv k i j : (1 <= k)%nat -> present g (Cell k i j) -> ((S j < ny g)%nat -> has g k i (S j) = false) ->
  next_block K keqb GG (nm (Cell k i j)) (option_map nm (last2 k i j)) 2 mv = None.
Proof.
  intros Hk P Hn. destruct (present_rock g k i j P Hk) as [Hk' [Hi' [Hj' Hh']]].
  apply NBN.
  - exact P.
  - intros x Hx. destruct j; cbn in Hx; inversion Hx; subst. cbn. lia.
  - intros l' [S' [I' [D' [L' V']]]]. destruct (shape_dir2 g W l' k i j S' D' I') as [[-> [A B]]|[j' [-> ->]]].
    + rewrite (Hn A) in B. discriminate.
    + cbn in L'. destruct L' as [L' _]. apply L'. reflexivity.
Qed.

(** ** direction 3 *)
Definition uplink (k i j : nat) : linkrec :=
  mkLink (Cell k i j) (Cell (k - 1) i j) 3 (top g k - lcen g k) (zc g (k - 1) i j - bot g (k - 1)) (area g i j) neg1 1.
Definition atmlink (k i j : nat) (a : cid) : linkrec :=
  mkLink (Cell k i j) a 3 (gsurf g i j - zc g k i j) (gatmconn g) (area g i j) neg1 1.
(** walking up: we came from the block below (or start at the bottom layer) *)
Definition from_below (last : option cid) (k i j : nat) : Prop :=
  (last = None /\ k = nz g) \/ (last = Some (Cell (S k) i j) /\ (S k <= nz g)%nat).
(** walking down: we came from the block above (or start at the top block of the column) *)
Definition from_above (last : option cid) (k i j : nat) : Prop :=
  (last = None /\ is_top g k i j) \/ (last = Some (Cell (k - 1) i j) /\ (2 <= k)%nat /\ has g (k - 1) i j = true).

Lemma uplink_shape k i j : (2 <= k <= nz g)%nat -> (i < nx g)%nat -> (j < ny g)%nat -> has g (k - 1) i j = true ->
  link_shape g (uplink k i j).
Proof.
  intros Hk Hi Hj Hh. apply (LV g k i j); auto; try lia.
  - apply (has_mono g W (k - 1) k i j Hh); lia.
  - apply vlink_up; assumption.
Qed.
Lemma latt_last_below last k i j : present g (Cell k i j) -> (1 <= k)%nat -> from_below last k i j -> forall x, last = Some x -> latt g x.
Proof.
  intros P Hk [[-> _]|[-> Hs]] x Hx; inversion Hx; subst. destruct (present_rock g k i j P Hk) as [Hk' [Hi' [Hj' Hh']]]. cbn. lia.
Qed.
Lemma latt_last_above last k i j : present g (Cell k i j) -> (1 <= k)%nat -> from_above last k i j -> forall x, last = Some x -> latt g x.
Proof.
  intros P Hk [[-> _]|[-> Hs]] x Hx; inversion Hx; subst. destruct (present_rock g k i j P Hk) as [Hk' [Hi' [Hj' Hh']]]. cbn. lia.
Qed.
Lemma below_excluded last k i j l' : from_below last k i j -> vlink g (S k) (i, j) = Some l' -> (S k <= nz g)%nat -> lastok last l' -> False.
Proof.
  intros [[-> E]|[-> Hs]] V Hk L; [lia|]. apply (vlink_dir g W) in V. destruct V as [_ V]. cbn in L. destruct L as [L _]. apply L. exact V.
Qed.
Lemma top_link_inactive k i j l' : (1 <= k <= nz g)%nat -> (i < nx g)%nat -> (j < ny g)%nat -> is_top g k i j -> vlink g k (i, j) = Some l' ->
  vol_ok (Some av) (cvol (cellof g (other l' (Cell k i j)))) = false.
Proof.
  intros Hk Hi Hj T V. destruct (atm_cases g W) as [A|[A|A]].
  - rewrite (vlink_top0 g W k i j Hk T A) in V. inversion V; subst.
    rewrite other_la by reflexivity. cbn [lb]. apply volok_atm; [left; reflexivity|exact A].
  - rewrite (vlink_top1 g W k i j Hk T A) in V. inversion V; subst.
    rewrite other_la by reflexivity. cbn [lb]. apply volok_atm; [right; eauto|]. cbn. auto.
  - rewrite (vlink_top2 g W k i j Hk T A) in V. discriminate.
Qed.
Lemma above_excluded last k i j l' : (1 <= k <= nz g)%nat -> (i < nx g)%nat -> (j < ny g)%nat -> from_above last k i j ->
  vlink g k (i, j) = Some l' -> lastok last l' -> vol_ok (Some av) (cvol (cellof g (other l' (Cell k i j)))) = true -> False.
Proof.
  intros Hk Hi Hj [[-> T]|[-> [K2 Hh]]] V L O.
  - rewrite (top_link_inactive k i j l' Hk Hi Hj T V) in O. discriminate.
  - rewrite (vlink_up g W k i j ltac:(lia) Hh) in V. inversion V; subst. cbn in L. destruct L as [_ L]. apply L. reflexivity.
Qed.

Lemma next3_up_some last k i j : (2 <= k)%nat -> present g (Cell k i j) -> has g (k - 1) i j = true -> from_below last k i j ->
  next_block K keqb GG (nm (Cell k i j)) (option_map nm last) 3 (Some av) = Some (blk (Cell (k - 1) i j), key (uplink k i j)).
Proof.
  intros Hk P Hh FB. destruct (present_rock g k i j P ltac:(lia)) as [Hk' [Hi' [Hj' Hh']]].
  assert (S0 := uplink_shape k i j ltac:(lia) Hi' Hj' Hh).
  rewrite (NBS (Cell k i j) last 3 (Some av) (uplink k i j)).
  - rewrite other_la by reflexivity. reflexivity.
  - exact P.
  - apply (latt_last_below last k i j P); [lia|exact FB].
  - split; [exact S0|]. split; [left; reflexivity|]. split; [reflexivity|]. split.
    + destruct FB as [[-> _]|[-> _]]; cbn; [exact I|]. split; intro X; inversion X; lia.
    + rewrite other_la by reflexivity. cbn [uplink lb]. destruct k as [|[|k]]; try lia. cbn [Nat.sub]. replace (S k - 0)%nat with (S k) by lia.
      apply volok_rock; [right; reflexivity|]. cbn [Nat.sub] in Hh. replace (S k - 0)%nat with (S k) in Hh by lia. cbn. repeat split; auto; lia.
  - intros l' [S' [I' [D' [L' V']]]]. destruct (shape_dir3 g W l' k i j S' D' I' ltac:(lia)) as [V|[V [_ Hs]]].
    + rewrite (vlink_up g W k i j ltac:(lia) Hh) in V. inversion V. reflexivity.
    + exfalso. exact (below_excluded last k i j l' FB V Hs L').
Qed.
Lemma next3_up_none last k i j : (1 <= k)%nat -> present g (Cell k i j) -> is_top g k i j -> from_below last k i j ->
  next_block K keqb GG (nm (Cell k i j)) (option_map nm last) 3 (Some av) = None.
Proof.
  intros Hk P T FB. destruct (present_rock g k i j P Hk) as [Hk' [Hi' [Hj' Hh']]].
  apply NBN.
  - exact P.
  - apply (latt_last_below last k i j P Hk FB).
  - intros l' [S' [I' [D' [L' V']]]]. destruct (shape_dir3 g W l' k i j S' D' I' Hk) as [V|[V [_ Hs]]].
    + rewrite (top_link_inactive k i j l' Hk' Hi' Hj' T V) in V'. discriminate.
    + exact (below_excluded last k i j l' FB V Hs L').
Qed.
(** the atmosphere block above the top block of a column (no volume restriction) *)
Lemma next3_atm_gen last k i j a : (1 <= k)%nat -> present g (Cell k i j) -> is_top g k i j -> from_below last k i j ->
  vlink g k (i, j) = Some (atmlink k i j a) -> (a = Atm0 \/ a = Cell 0 i j) ->
  next_block K keqb GG (nm (Cell k i j)) (option_map nm last) 3 None = Some (blk a, key (atmlink k i j a)).
Proof.
  intros Hk P T FB VT AA. destruct (present_rock g k i j P Hk) as [Hk' [Hi' [Hj' Hh']]].
  assert (LL := latt_last_below last k i j P Hk FB).
  assert (S0 : link_shape g (atmlink k i j a)) by (apply (LV g k i j); auto).
  rewrite (NBS (Cell k i j) last 3 None (atmlink k i j a)); [rewrite other_la by reflexivity; reflexivity|exact P|exact LL| |].
  - split; [exact S0|]. split; [left; reflexivity|]. split; [reflexivity|]. split; [|reflexivity].
    destruct FB as [[-> _]|[-> _]]; cbn [lastok]; [exact I|]. cbn [atmlink la lb].
    split; intro X; inversion X; try lia. destruct AA as [AA|AA]; rewrite AA in *; discriminate.
  - intros l' [S' [I' [D' [L' V']]]]. destruct (shape_dir3 g W l' k i j S' D' I' Hk) as [V|[V [_ Hs]]].
    + rewrite VT in V. inversion V. reflexivity.
    + exfalso. exact (below_excluded last k i j l' FB V Hs L').
Qed.
Lemma next3_atm0 last k i j : (1 <= k)%nat -> present g (Cell k i j) -> is_top g k i j -> from_below last k i j -> gatm g = 0%nat ->
  next_block K keqb GG (nm (Cell k i j)) (option_map nm last) 3 None = Some (blk Atm0, key (atmlink k i j Atm0)).
Proof.
  intros Hk P T FB A. destruct (present_rock g k i j P Hk) as [Hk' _]. apply next3_atm_gen; auto. apply vlink_top0; auto.
Qed.
Lemma next3_atm1 last k i j : (1 <= k)%nat -> present g (Cell k i j) -> is_top g k i j -> from_below last k i j -> gatm g = 1%nat ->
  next_block K keqb GG (nm (Cell k i j)) (option_map nm last) 3 None = Some (blk (Cell 0 i j), key (atmlink k i j (Cell 0 i j))).
Proof.
  intros Hk P T FB A. destruct (present_rock g k i j P Hk) as [Hk' _]. apply next3_atm_gen; auto. apply vlink_top1; auto.
Qed.
Lemma next3_atm2 last k i j : (1 <= k)%nat -> present g (Cell k i j) -> is_top g k i j -> from_below last k i j -> (2 <= gatm g)%nat ->
  next_block K keqb GG (nm (Cell k i j)) (option_map nm last) 3 None = None.
Proof.
  intros Hk P T FB A. destruct (present_rock g k i j P Hk) as [Hk' [Hi' [Hj' Hh']]].
  apply NBN; [exact P|exact (latt_last_below last k i j P Hk FB)|].
  intros l' [S' [I' [D' [L' V']]]]. destruct (shape_dir3 g W l' k i j S' D' I' Hk) as [V|[V [_ Hs]]].
  - rewrite (vlink_top2 g W k i j Hk' T A) in V. discriminate.
  - exact (below_excluded last k i j l' FB V Hs L').
Qed.

Lemma next3_down_some last k i j : (1 <= k)%nat -> (k < nz g)%nat -> present g (Cell k i j) -> from_above last k i j ->
  next_block K keqb GG (nm (Cell k i j)) (option_map nm last) 3 (Some av) = Some (blk (Cell (S k) i j), key (uplink (S k) i j)).
Proof.
  intros Hk Hn P FA. destruct (present_rock g k i j P Hk) as [Hk' [Hi' [Hj' Hh']]].
  assert (Hh1 : has g (S k - 1) i j = true) by (replace (S k - 1)%nat with k by lia; exact Hh').
  assert (S0 := uplink_shape (S k) i j ltac:(lia) Hi' Hj' Hh1).
  assert (LB : lb (uplink (S k) i j) = Cell k i j) by (cbn [uplink lb]; replace (S k - 1)%nat with k by lia; reflexivity).
  rewrite (NBS (Cell k i j) last 3 (Some av) (uplink (S k) i j)).
  - rewrite other_lb by (cbn [uplink la]; intro X; inversion X; lia). reflexivity.
  - exact P.
  - apply (latt_last_above last k i j P Hk FA).
  - split; [exact S0|]. split; [right; exact LB|]. split; [reflexivity|]. split.
    + destruct FA as [[-> _]|[-> [K2 _]]]; cbn [lastok]; [exact I|]. rewrite LB. cbn [uplink la]. split; intro X; inversion X; lia.
    + rewrite other_lb by (cbn [uplink la]; intro X; inversion X; lia). cbn [uplink la].
      apply volok_rock; [right; reflexivity|]. apply rock_present; auto; try lia. apply (has_mono g W k (S k) i j Hh'); lia.
  - intros l' [S' [I' [D' [L' V']]]]. destruct (shape_dir3 g W l' k i j S' D' I' Hk) as [V|[V [_ Hs]]].
    + exfalso. exact (above_excluded last k i j l' Hk' Hi' Hj' FA V L' V').
    + rewrite (vlink_up g W (S k) i j ltac:(lia) Hh1) in V. inversion V. reflexivity.
Qed.
Lemma next3_down_none last k i j : k = nz g -> present g (Cell k i j) -> from_above last k i j ->
  next_block K keqb GG (nm (Cell k i j)) (option_map nm last) 3 (Some av) = None.
Proof.
  intros Hn P FA. pose proof (wf_nz g W) as NZ. destruct (present_rock g k i j P ltac:(lia)) as [Hk' [Hi' [Hj' Hh']]].
  apply NBN.
  - exact P.
  - apply (latt_last_above last k i j P ltac:(lia) FA).
  - intros l' [S' [I' [D' [L' V']]]]. destruct (shape_dir3 g W l' k i j S' D' I' ltac:(lia)) as [V|[V [_ Hs]]].
    + exact (above_excluded last k i j l' Hk' Hi' Hj' FA V L' V').
    + lia.
Qed.
End Walks.
