(** C04 -- hand model (H) of the geometry -> TOUGH2 grid conversion.

    Two *separately written* transcriptions, as the code has them:
      (1) [block_name_list] / [block_connection_name_list]
          from mulgrids.py  setup_block_name_index / block_name_list_layer_column /
          block_name_list_dmplex / setup_block_connection_name_index   (lines 790-865)
      (2) [fromgeo_blocks] / [fromgeo_conns]
          from t2grids.py   fromgeo -> add_blocks / add_connections / add_atmosphereblocks /
          add_underground_blocks / add_vertical_layer_connections /
          add_horizontal_layer_connections                               (lines 341-434)
    plus the mulgrid helpers both use: block_name, layer_name, column_name, block_surface,
    block_volume, block_centre, connection_params (mulgrids.py 867-881, 1381-1455) and
    geometry.line_projection.

    Numbers are exact rationals (Q).  Square roots never enter the model: a quantity the
    code computes with a norm is represented as a [surd]  coef * sqrt(rad)  with rational
    [coef] and [rad].  Python [None] is [None]; Python exceptions are [Raise]. *)
From Coq Require Import Ascii String List Bool Arith ZArith NArith QArith Qabs Lia.
From PTBase Require Import Exn PyStr.
Import ListNotations.
Open Scope Q_scope.

(** * numbers *)

(** value-preserving normalisation: strips the common factors of two of numerator and
    denominator (all inputs are doubles, i.e. dyadic; this keeps the extracted model fast) *)
Fixpoint strip2 (n d : positive) : positive * positive :=
  match n, d with
  | xO n', xO d' => strip2 n' d'
  | _, _ => (n, d)
  end.
Definition nq (q : Q) : Q :=
  match Qnum q with
  | Z0 => 0
  | Zpos n => let (a, b) := strip2 n (Qden q) in Zpos a # b
  | Zneg n => let (a, b) := strip2 n (Qden q) in Zneg a # b
  end.
(** the operations of the model.  They are Q's own (up to [==], see Arith.v); the products are
    written with the (power-of-two) denominators first, which is the cheap argument order of
    the binary multiplication once extracted. *)
Definition qadd (a b : Q) : Q :=
  nq ((Zpos (Qden b) * Qnum a + Zpos (Qden a) * Qnum b) # (Qden a * Qden b)).
Definition qsub (a b : Q) : Q := qadd a (- b).
Definition qmul (a b : Q) : Q := nq (a * b).
Definition qdiv (a b : Q) : Q := nq (a / b).
Definition qleb (a b : Q) : bool := (Zpos (Qden b) * Qnum a <=? Zpos (Qden a) * Qnum b)%Z.   (* a <= b *)
Definition Qgtb (a b : Q) : bool := negb (qleb a b).     (* a > b *)
Definition Qltb (a b : Q) : bool := negb (qleb b a).     (* a < b *)
(** Python [min([a, b])]: the first minimal element *)
Definition qmin (a b : Q) : Q := if qleb a b then a else b.
Definition qabs (a : Q) : Q := Qabs a.

(** coef * sqrt(rad) *)
Record surd := mkSurd { coef : Q; rad : Q }.
Definition rat (q : Q) : surd := mkSurd q 1.

(** * the abstract geometry *)
Record layer := mkLayer { lname : str; lbot : Q; lcen : Q; ltop : Q }.
(** [cpoly]: the positions of the column's nodes, in the column's node order ([col.polygon]);
    [carea] is the stored [col.area] -- set by [column.get_area] to [polygon_area cpoly], see
    [areas_from_nodes] below *)
Record column := mkColumn { cname : str; csurf : Q; carea : Q; ccx : Q; ccy : Q; cnn : nat; cpoly : list (Q * Q) }.
(** a column connection: the two columns ([con.column]) and the end points of the shared
    edge ([con.node[0].pos], [con.node[1].pos]) *)
Record hconn := mkHconn { hcolA : column; hcolB : column; hax : Q; hay : Q; hbx : Q; hby : Q }.
Record geom := mkGeom {
  layers : list layer;            (* layerlist; element 0 is the atmosphere layer *)
  columns : list column;          (* columnlist *)
  hconns : list hconn;            (* connectionlist *)
  atm_type : nat;                 (* atmosphere_type *)
  atm_vol : Q;                    (* atmosphere_volume *)
  atm_conn : Q;                   (* atmosphere_connection *)
  convention : nat;
  dmplex : bool;                  (* block_order == 'dmplex' (otherwise None / 'layer_column') *)
  tiltx : Q; tilty : Q; tiltz : Q;  (* tilt_vector *)
  pcos : Q; psin : Q              (* cos / sin of radians(permeability_angle) *)
}.

(** * geometry.polygon_area / polygon_centroid (geometry.py 89-114) *)
Definition pt := (Q * Q)%type.
Definition psub (p s : pt) : pt := (qsub (fst p) (fst s), qsub (snd p) (snd s)).
(** the pairs (p_j, p_{(j+1) mod n}) of [for j, p1 in enumerate(polygon): p2 = polygon[(j+1) % n]] *)
Definition cyc_pairs (l : list pt) : list (pt * pt) :=
  match l with [] => [] | p :: r => combine l (r ++ [p]) end.
(** one pass of the loop of polygon_area: area += p1[0] * p2[1] - p2[0] * p1[1] *)
Definition area_step (a : Q) (p1 p2 : pt) : Q :=
  qadd a (qsub (qmul (fst p1) (snd p2)) (qmul (fst p2) (snd p1))).
Definition polygon_area (l : list pt) : Q :=
  match l with
  | [] => qmul (1 # 2) 0
  | s :: _ =>                                     (* polygon -= polygon[0] *)
      qmul (1 # 2) (fold_left (fun a pq => area_step a (fst pq) (snd pq)) (cyc_pairs (map (fun p => psub p s) l)) 0)
  end.
(** one pass of the loop of polygon_centroid: t = cross; area += t; c += (p1 + p2) * t *)
Definition cen_step (acc : Q * pt) (p1 p2 : pt) : Q * pt :=
  let t := qsub (qmul (fst p1) (snd p2)) (qmul (fst p2) (snd p1)) in
  (qadd (fst acc) t,
   (qadd (fst (snd acc)) (qmul (qadd (fst p1) (fst p2)) t), qadd (snd (snd acc)) (qmul (qadd (snd p1) (snd p2)) t))).
(** area *= 0.5; return c / (6. * area) + shift *)
Definition cen_final (acc : Q * pt) (shift : pt) : pt :=
  let d := qmul 6 (qmul (fst acc) (1 # 2)) in
  (qadd (qdiv (fst (snd acc)) d) (fst shift), qadd (qdiv (snd (snd acc)) d) (snd shift)).
(** polygons of three or more nodes (the n < 3 branch, a mean of the points, is not modelled) *)
Definition polygon_centroid (l : list pt) : option pt :=
  match l with
  | s :: _ :: _ :: _ =>
      Some (cen_final (fold_left (fun a pq => cen_step a (fst pq) (snd pq)) (cyc_pairs (map (fun p => psub p s) l)) (0, (0, 0))) s)
  | _ => None
  end.

(** * names (mulgrids.py 54-59, 867-881, 1446-1455) *)
Open Scope char_scope.
Definition fix_blockname (n : str) : str :=
  match n with
  | c0 :: c1 :: c2 :: c3 :: c4 :: _ =>
      if is_digit c2 && is_digit c4 && ceqb c3 " " then [c0; c1; c2; "0"; c4] else n
  | _ => n
  end.
Close Scope char_scope.

Definition block_name0 (conv : nat) (ln cn : str) : str :=
  fix_blockname
    (match conv with
     | 0%nat | 3%nat => slice 0 3 cn ++ slice 0 2 ln
     | 1%nat => slice 0 3 ln ++ slice 0 2 cn
     | _ => slice 0 2 ln ++ slice 0 3 cn
     end)%list.

Fixpoint assoc (k : str) (m : list (str * str)) : option str :=
  match m with
  | [] => None
  | (a, b) :: r => if str_eqb a k then Some b else assoc k r
  end.
(** [blockmap[n] if n in blockmap else n] *)
Definition apply_map (bm : list (str * str)) (n : str) : str :=
  match assoc n bm with Some v => v | None => n end.
(** mulgrid.block_name(layername, colname, blockmap) *)
Definition block_name (conv : nat) (ln cn : str) (bm : list (str * str)) : str :=
  apply_map bm (block_name0 conv ln cn).

Definition column_name (conv : nat) (b : str) : str :=
  match conv with
  | 0%nat => slice 0 3 b | 1%nat => slice 3 5 b | 2%nat => slice 2 5 b | 3%nat => slice 0 3 b
  | _ => [] end.
Definition layer_name (conv : nat) (b : str) : str :=
  match conv with
  | 0%nat => slice 3 5 b | 1%nat => slice 0 3 b | 2%nat => slice 0 2 b | 3%nat => slice 3 5 b
  | _ => [] end.
Definition atm_colname (conv : nat) : str :=
  nth conv [s2l "ATM"; s2l " 0"; s2l "  0"; s2l "ATM"] [].

(** the name of the block of layer [l] and column [c], as the geometry (no map) sees it *)
Definition bn (g : geom) (l : layer) (c : column) : str :=
  block_name0 (convention g) (lname l) (cname c).

(** * mulgrid helpers used by both sides (mulgrids.py 1381-1444) *)

Definition block_surface (g : geom) (l : layer) (c : column) : option Q :=
  match layers g with
  | [] => None
  | l0 :: rest =>
      if str_eqb (lname l) (lname l0) then
        (if (atm_type g =? 1)%nat then Some (ltop l) else None)
      else if Qltb (csurf c) (ltop l) then
        (if Qltb (lbot l) (csurf c) then Some (csurf c) else None)
      else if Qgtb (csurf c) (ltop l0) then
        match rest with
        | l1 :: _ => if str_eqb (lname l) (lname l1) then Some (csurf c) else Some (ltop l)
        | [] => None
        end
      else Some (ltop l)
  end.

Definition block_volume (g : geom) (l : layer) (c : column) : option Q :=
  match layers g with
  | [] => None
  | l0 :: _ =>
      if str_eqb (lname l) (lname l0) then
        if (atm_type g =? 0)%nat && str_eqb (cname c) (atm_colname (convention g)) then Some (atm_vol g)
        else if (atm_type g =? 1)%nat then Some (atm_vol g)
        else None
      else match block_surface g l c with
           | Some s => Some (qmul (qsub s (lbot l)) (carea c))
           | None => None
           end
  end.

Definition block_centre (g : geom) (l : layer) (c : column) : option (Q * Q * Q) :=
  match layers g with
  | [] => None
  | l0 :: _ =>
      if str_eqb (lname l) (lname l0) then
        (if (atm_type g =? 1)%nat then Some (ccx c, ccy c, lcen l) else None)
      else if Qltb (lbot l) (csurf c) && qleb (csurf c) (ltop l) then
        Some (ccx c, ccy c, qmul (1 # 2) (qadd (lbot l) (csurf c)))
      else if qleb (csurf c) (lbot l) then None
      else Some (ccx c, ccy c, lcen l)
  end.

(** geometry.line_projection(a, [p, q]) *)
Definition line_projection (ax ay px py qx qy : Q) : Q * Q :=
  let dx := qsub qx px in
  let dy := qsub qy py in
  let xi := qdiv (qadd (qmul (qsub ax px) dx) (qmul (qsub ay py) dy)) (qadd (qmul dx dx) (qmul dy dy)) in
  (qadd px (qmul dx xi), qadd py (qmul dy xi)).

Definition sqdist (ax ay bx by_ : Q) : Q :=
  let dx := qsub ax bx in let dy := qsub ay by_ in qadd (qmul dx dx) (qmul dy dy).

(** the layer-independent part of connection_params: squared edge length and the squared
    distances of the two column centres from their projections on the edge line *)
Definition hstatic (h : hconn) : Q * Q * Q :=
  let side2 := sqdist (hax h) (hay h) (hbx h) (hby h) in
  let pa := line_projection (ccx (hcolA h)) (ccy (hcolA h)) (hax h) (hay h) (hbx h) (hby h) in
  let pb := line_projection (ccx (hcolB h)) (ccy (hcolB h)) (hax h) (hay h) (hbx h) (hby h) in
  (side2,
   sqdist (fst pa) (snd pa) (ccx (hcolA h)) (ccy (hcolA h)),
   sqdist (fst pb) (snd pb) (ccx (hcolB h)) (ccy (hcolB h))).

(** connection_params(con, lay) = [[dist1, dist2], area];
    [None] models the TypeError of [None - lay.bottom] *)
Definition connection_params (g : geom) (h : hconn) (st : Q * Q * Q) (l : layer)
  : option (surd * surd * surd) :=
  match block_surface g l (hcolA h), block_surface g l (hcolB h) with
  | Some sa, Some sb =>
      let height := qmin (qsub sa (lbot l)) (qsub sb (lbot l)) in
      let '(side2, da2, db2) := st in
      Some (mkSurd 1 da2, mkSurd 1 db2, mkSurd height side2)
  | _, _ => None
  end.

(** [[col for col in columnlist if col.surface > lay.bottom]] *)
Definition layercols (g : geom) (l : layer) : list column :=
  filter (fun c => Qgtb (csurf c) (lbot l)) (columns g).
(** [[con for con in connectionlist if set(con.column).issubset(layercolset)]]
    (connection columns are members of columnlist) *)
Definition hconn_in_layer (l : layer) (h : hconn) : bool :=
  Qgtb (csurf (hcolA h)) (lbot l) && Qgtb (csurf (hcolB h)) (lbot l).

Fixpoint enum_from {A} (i : nat) (l : list A) : list (nat * A) :=
  match l with [] => [] | a :: r => (i, a) :: enum_from (S i) r end.
Fixpoint cat_some {A} (l : list (option A)) : list A :=
  match l with [] => [] | Some a :: r => a :: cat_some r | None :: r => cat_some r end.

(** * (1) the geometry's own lists: mulgrids.py 790-865 *)

Definition atm_names (g : geom) : list str :=
  match layers g with
  | [] => []
  | l0 :: _ =>
      match atm_type g with
      | 0%nat => [block_name0 (convention g) (lname l0) (atm_colname (convention g))]
      | 1%nat => map (fun c => block_name0 (convention g) (lname l0) (cname c)) (columns g)
      | _ => []
      end
  end.

(** block_name_list_layer_column *)
Definition name_list_layer_column (g : geom) : list str :=
  flat_map (fun l => map (fun c => bn g l c) (layercols g l)) (tl (layers g)).

(** block_name_list_dmplex: hexahedra (4-node columns) first, then wedges (3-node columns);
    any other column raises *)
Definition name_list_dmplex (g : geom) : res (list str) :=
  let all := flat_map (fun l => map (fun c => (cnn c, bn g l c)) (layercols g l)) (tl (layers g)) in
  if forallb (fun p => (fst p =? 4)%nat || (fst p =? 3)%nat) all then
    Ok (map snd (filter (fun p => (fst p =? 4)%nat) all) ++ map snd (filter (fun p => (fst p =? 3)%nat) all))%list
  else Raise PlainException.

(** setup_block_name_index *)
Definition block_name_list (g : geom) : res (list str) :=
  match layers g with
  | [] => Ok []
  | _ :: _ =>
      do ug <- (if dmplex g then name_list_dmplex g else Ok (name_list_layer_column g));
      Ok (atm_names g ++ ug)%list
  end.

(** one vertical connection of setup_block_connection_name_index; [None] is [continue] *)
Definition mul_vconn (g : geom) (names : list str) (ilay : nat) (l : layer) (c : column)
  : res (option (str * str)) :=
  let thisblkname := bn g l c in
  if (ilay =? 0)%nat || qleb (csurf c) (ltop l) then
    match nth_error (layers g) 0 with
    | None => Raise IndexError
    | Some abovelayer =>
        match atm_type g with
        | 0%nat => match names with
                   | a :: _ => Ok (Some (thisblkname, a))         (* self.block_name_list[0] *)
                   | [] => Raise IndexError
                   end
        | 1%nat => Ok (Some (thisblkname, block_name0 (convention g) (lname abovelayer) (cname c)))
        | _ => Ok None
        end
    end
  else
    match nth_error (layers g) ilay with
    | None => Raise IndexError
    | Some abovelayer => Ok (Some (thisblkname, block_name0 (convention g) (lname abovelayer) (cname c)))
    end.

Definition mul_layer_conns (g : geom) (names : list str) (il : nat * layer) : res (list (str * str)) :=
  let (ilay, l) := il in
  do v <- mapM (mul_vconn g names ilay l) (layercols g l);
  Ok (cat_some v ++
      map (fun h => (bn g l (hcolA h), bn g l (hcolB h)))
          (filter (hconn_in_layer l) (hconns g)))%list.

(** setup_block_connection_name_index ([names] is the cached self.block_name_list) *)
Definition block_connection_name_list (g : geom) : res (list (str * str)) :=
  do names <- block_name_list g;
  do per <- mapM (mul_layer_conns g names) (enum_from 0 (tl (layers g)));
  Ok (concat per).

(** * (2) t2grid.fromgeo: t2grids.py 341-434 *)

Record block := mkBlock { bname : str; bvol : option Q; bcentre : option (Q * Q * Q); batm : bool }.
Record conn := mkConn {
  k1 : str; k2 : str;            (* names of con.block[0], con.block[1] *)
  kdir : nat;                    (* permeability direction 1/2/3 *)
  kd1 : surd; kd2 : surd;        (* distance[0], distance[1] *)
  karea : surd;
  kcos : surd                    (* dircos *)
}.

(** t2grid.add_block: replaces in place on a duplicate name, else appends *)
Definition add_block (bl : list block) (b : block) : list block :=
  if existsb (fun x => str_eqb (bname x) (bname b)) bl
  then map (fun x => if str_eqb (bname x) (bname b) then b else x) bl
  else (bl ++ [b])%list.
Definition same_key (x y : conn) : bool := str_eqb (k1 x) (k1 y) && str_eqb (k2 x) (k2 y).
(** t2grid.add_connection *)
Definition add_connection (cl : list conn) (k : conn) : list conn :=
  if existsb (fun x => same_key x k) cl
  then map (fun x => if same_key x k then k else x) cl
  else (cl ++ [k])%list.

(** self.block[name] *)
Definition find_block (bl : list block) (nm : str) : res block :=
  match find (fun b => str_eqb (bname b) nm) bl with Some b => Ok b | None => Raise KeyError end.
(** geo.layer[name], geo.column[name] *)
Definition lookup_layer (g : geom) (nm : str) : res layer :=
  match find (fun l => str_eqb (lname l) nm) (layers g) with Some l => Ok l | None => Raise KeyError end.
Definition lookup_column (g : geom) (nm : str) : res column :=
  match find (fun c => str_eqb (cname c) nm) (columns g) with Some c => Ok c | None => Raise KeyError end.
(** geo.layerlist.index(lay): layer objects are identified by their (unique) names *)
Fixpoint index_from (i : nat) (nm : str) (ls : list layer) : res nat :=
  match ls with
  | [] => Raise ValueError
  | l :: r => if str_eqb (lname l) nm then Ok i else index_from (S i) nm r
  end.
Definition layer_index (g : geom) (l : layer) : res nat := index_from 0 (lname l) (layers g).
Definition nth_layer (g : geom) (i : nat) : res layer :=
  match nth_error (layers g) i with Some l => Ok l | None => Raise IndexError end.

(** add_atmosphereblocks: the blocks it passes to add_block, in order *)
Definition atm_blocks (g : geom) (bm : list (str * str)) : res (list block) :=
  match atm_type g with
  | 0%nat =>
      do l0 <- nth_layer g 0;
      Ok [mkBlock (block_name (convention g) (lname l0) (atm_colname (convention g)) bm)
                  (Some (atm_vol g)) None true]
  | 1%nat =>
      match columns g with
      | [] => Ok []
      | _ :: _ =>
          do l0 <- nth_layer g 0;
          Ok (map (fun c => mkBlock (block_name (convention g) (lname l0) (cname c) bm)
                                    (Some (atm_vol g)) (block_centre g l0 c) true) (columns g))
      end
  | _ => Ok []
  end.

(** geo.num_atmosphere_blocks = [1, num_columns, 0][atmosphere_type] *)
Definition num_atm (g : geom) : res nat :=
  match atm_type g with
  | 0%nat => Ok 1%nat | 1%nat => Ok (length (columns g)) | 2%nat => Ok 0%nat
  | _ => Raise IndexError end.

(** one iteration of add_underground_blocks *)
Definition ug_block (g : geom) (bm : list (str * str)) (blkname : str) : res block :=
  do l <- lookup_layer g (layer_name (convention g) blkname);
  do c <- lookup_column g (column_name (convention g) blkname);
  Ok (mkBlock (apply_map bm blkname) (block_volume g l c) (block_centre g l c) false).

(** the sequence of add_block calls of add_blocks *)
Definition fromgeo_block_calls (g : geom) (bm : list (str * str)) : res (list block) :=
  do a <- atm_blocks g bm;
  do names <- block_name_list g;         (* the geometry's cached list *)
  do n <- num_atm g;
  do u <- mapM (ug_block g bm) (skipn n names);
  Ok (a ++ u)%list.
(** grid.blocklist after add_blocks *)
Definition fromgeo_blocks (g : geom) (bm : list (str * str)) : res (list block) :=
  do calls <- fromgeo_block_calls g bm;
  Ok (fold_left add_block calls []).

Definition centre_of (b : block) : res (Q * Q * Q) :=
  match bcentre b with Some c => Ok c | None => Raise TypeError end.

(** one iteration of add_vertical_layer_connections; [Ok None] is [continue] *)
Definition vconn (g : geom) (bm : list (str * str)) (bl : list block) (l : layer) (c : column)
  : res (option conn) :=
  do thisblk <- find_block bl (block_name (convention g) (lname l) (cname c) bm);
  do idx <- layer_index g l;
  if (idx =? 1)%nat || qleb (csurf c) (ltop l) then
    (* connection to atmosphere *)
    do abovelayer <- nth_layer g 0;
    let abovedist := atm_conn g in
    do tc <- centre_of thisblk;
    let belowdist := qsub (csurf c) (snd tc) in
    let mk (aboveblk : block) :=
      mkConn (bname thisblk) (bname aboveblk) 3 (rat belowdist) (rat abovedist) (rat (carea c)) (rat (tiltz g)) in
    match atm_type g with
    | 0%nat => match bl with
               | b0 :: _ => Ok (Some (mk b0))                    (* self.blocklist[0] *)
               | [] => Raise IndexError
               end
    | 1%nat => do aboveblk <- find_block bl (block_name (convention g) (lname abovelayer) (cname c) bm);
               Ok (Some (mk aboveblk))
    | _ => Ok None
    end
  else
    do abovelayer <- nth_layer g (idx - 1);
    do aboveblk <- find_block bl (block_name (convention g) (lname abovelayer) (cname c) bm);
    do ac <- centre_of aboveblk;
    let abovedist := qsub (snd ac) (lbot abovelayer) in
    let belowdist := qsub (ltop l) (lcen l) in
    Ok (Some (mkConn (bname thisblk) (bname aboveblk) 3 (rat belowdist) (rat abovedist)
                     (rat (carea c)) (rat (tiltz g)))).

(** one iteration of add_horizontal_layer_connections *)
Definition hconn_conn (g : geom) (bm : list (str * str)) (bl : list block) (l : layer)
           (hs : hconn * (Q * Q * Q)) : res conn :=
  let (h, st) := hs in
  do b1 <- find_block bl (block_name (convention g) (lname l) (cname (hcolA h)) bm);
  do b2 <- find_block bl (block_name (convention g) (lname l) (cname (hcolB h)) bm);
  match connection_params g h st l with
  | None => Raise TypeError
  | Some (dist1, dist2, area) =>
      do c1 <- centre_of b1;
      do c2 <- centre_of b2;
      let dx := qsub (fst (fst c2)) (fst (fst c1)) in
      let dy := qsub (snd (fst c2)) (snd (fst c1)) in
      let dz := qsub (snd c2) (snd c1) in
      let d2x := qadd (qmul (pcos g) dx) (qmul (psin g) dy) in
      let d2y := qadd (qmul (- psin g) dx) (qmul (pcos g) dy) in
      let direction := if qleb (qabs d2y) (qabs d2x) then 1%nat else 2%nat in    (* argmax + 1 *)
      let dot := qadd (qadd (qmul dx (tiltx g)) (qmul dy (tilty g))) (qmul dz (tiltz g)) in
      let nrm2 := qadd (qadd (qmul dx dx) (qmul dy dy)) (qmul dz dz) in
      Ok (mkConn (bname b1) (bname b2) direction dist1 dist2 area (mkSurd dot (/ nrm2)))
  end.

Definition layer_conns (g : geom) (bm : list (str * str)) (bl : list block)
           (hst : list (hconn * (Q * Q * Q))) (l : layer) : res (list conn) :=
  do v <- mapM (vconn g bm bl l) (layercols g l);
  do h <- mapM (hconn_conn g bm bl l) (filter (fun hs => hconn_in_layer l (fst hs)) hst);
  Ok (cat_some v ++ h)%list.

(** the sequence of add_connection calls of add_connections, given grid.blocklist *)
Definition fromgeo_conn_calls (g : geom) (bm : list (str * str)) (bl : list block) : res (list conn) :=
  let hst := map (fun h => (h, hstatic h)) (hconns g) in
  do per <- mapM (layer_conns g bm bl hst) (tl (layers g));
  Ok (concat per).
(** grid.connectionlist after fromgeo *)
Definition fromgeo_conns (g : geom) (bm : list (str * str)) : res (list conn) :=
  do bl <- fromgeo_blocks g bm;
  do calls <- fromgeo_conn_calls g bm bl;
  Ok (fold_left add_connection calls []).
