(** C04 -- block tops, block volumes, and the telescoping of the volumes of a column. *)
From Coq Require Import Ascii String List Bool Arith ZArith QArith Lia Lqa Permutation Setoid Morphisms.
From PTBase Require Import Exn PyStr.
From P Require Import FromGeo Arith Lists NamesAgree.
Import ListNotations.
Open Scope Q_scope.

(** * elevations of a valid layer stack *)
Record layers_wf (g : geom) : Prop := mkLayersWf {
  (** the atmosphere layer (element 0) has no thickness *)
  lw_flat : forall l0, nth_error (layers g) 0 = Some l0 -> ltop l0 == lbot l0;
  (** no layer has negative thickness *)
  lw_thick : forall l, In l (tl (layers g)) -> lbot l <= ltop l
}.

(** the bottom of the model *)
Definition bottom_of (g : geom) : Q := lbot (last (layers g) (mkLayer [] 0 0 0)).

(** * the specification of a block's top and height (independent of the code's case analysis):
    the top block of a column (the one connected to the atmosphere: first layer below the
    atmosphere layer, or column surface not above the layer top) reaches the column surface,
    every other block reaches the layer top *)
Definition is_top (i : nat) (l : layer) (c : column) : bool := (i =? 0)%nat || qleb (csurf c) (ltop l).
Definition block_top (i : nat) (l : layer) (c : column) : Q := if is_top i l c then csurf c else ltop l.
Definition block_height (i : nat) (l : layer) (c : column) : Q := block_top i l c - lbot l.
(** elevation of the block centre *)
Definition zcentre (l : layer) (c : column) : Q :=
  if qleb (csurf c) (ltop l) then (1 # 2) * (lbot l + csurf c) else lcen l.

Lemma nodup_nth_names (ls : list layer) i j a b :
  NoDup (map lname ls) -> nth_error ls i = Some a -> nth_error ls j = Some b -> lname a = lname b -> i = j.
Proof.
  intros ND Ha Hb E.
  apply (proj1 (NoDup_nth_error (map lname ls)) ND i j).
  - rewrite map_length. apply nth_error_Some. congruence.
  - rewrite !nth_error_map, Ha, Hb. cbn. congruence.
Qed.

Ltac qb :=
  repeat match goal with
  | H : qleb _ _ = true |- _ => apply qleb_iff in H
  | H : qleb _ _ = false |- _ => apply qleb_false in H
  | H : Qltb _ _ = true |- _ => apply Qltb_iff in H
  | H : Qltb _ _ = false |- _ => apply Qltb_false in H
  | H : Qgtb _ _ = true |- _ => apply Qgtb_iff in H
  | H : Qgtb _ _ = false |- _ => apply Qgtb_false in H
  end.

Section Tops.
  Variable g : geom.
  Hypothesis W : wf g.
  Hypothesis LW : layers_wf g.

  Lemma top_of_first l0 l1 : nth_error (layers g) 0 = Some l0 -> nth_error (layers g) 1 = Some l1 -> ltop l1 == ltop l0.
  Proof.
    intros H0 H1. rewrite (wf_contig g W 0 l0 l1 H0 H1). symmetry. apply (lw_flat g LW). exact H0.
  Qed.

  (** [block_surface] computes the specified top *)
  Lemma block_surface_spec i l c :
    nth_error (layers g) (S i) = Some l -> lbot l < csurf c ->
    exists s, block_surface g l c = Some s /\ s == block_top i l c.
  Proof.
    intros Hn Hs. unfold block_surface, block_top, is_top.
    destruct (layers g) as [|l0 ls] eqn:EL; [discriminate|].
    assert (Hin : In l ls) by (cbn [nth_error] in Hn; eapply nth_error_In; exact Hn).
    rewrite (ug_not_atm g l0 ls l (wf_lnames g W) EL Hin).
    destruct (Qltb (csurf c) (ltop l)) eqn:E1.
    - pose proof Hs as Hs'. apply Qltb_iff in Hs'. rewrite Hs'. eexists. split; [reflexivity|].
      qb. assert (Q1 : qleb (csurf c) (ltop l) = true) by (apply qleb_iff; lra).
      rewrite Q1, orb_true_r. reflexivity.
    - qb. destruct ls as [|l1 ls']; [destruct i; discriminate|].
      assert (T1 : ltop l1 == ltop l0).
      { apply top_of_first; rewrite EL; reflexivity. }
      assert (Hfirst : str_eqb (lname l) (lname l1) = (i =? 0)%nat).
      { destruct (str_eqb (lname l) (lname l1)) eqn:S1.
        - apply str_eqb_eq in S1.
          assert (S i = 1)%nat.
          { apply (nodup_nth_names (layers g) (S i) 1 l l1 (wf_lnames g W)); [rewrite EL; exact Hn|rewrite EL; reflexivity|exact S1]. }
          replace i with 0%nat by lia. reflexivity.
        - destruct i as [|i]; [|reflexivity]. cbn [nth_error] in Hn. inversion Hn; subst.
          rewrite str_eqb_refl in S1. discriminate. }
      destruct (Qgtb (csurf c) (ltop l0)) eqn:E2.
      + rewrite Hfirst. destruct (i =? 0)%nat eqn:I0; cbn [orb].
        * eexists. split; reflexivity.
        * eexists. split; [reflexivity|]. destruct (qleb (csurf c) (ltop l)) eqn:E3; qb; [lra|reflexivity].
      + qb. eexists. split; [reflexivity|].
        destruct (i =? 0)%nat eqn:I0; cbn [orb].
        * apply Nat.eqb_eq in I0. subst i. cbn [nth_error] in Hn. inversion Hn; subst. lra.
        * destruct (qleb (csurf c) (ltop l)) eqn:E3; qb; [lra|reflexivity].
  Qed.

  (** volume = column area x (block top - layer bottom) *)
  Lemma block_volume_spec i l c :
    nth_error (layers g) (S i) = Some l -> lbot l < csurf c ->
    exists v, block_volume g l c = Some v /\ v == carea c * block_height i l c.
  Proof.
    intros Hn Hs. destruct (block_surface_spec i l c Hn Hs) as [s [E Q]].
    unfold block_volume. destruct (layers g) as [|l0 ls] eqn:EL; [discriminate|].
    assert (Hin : In l ls) by (cbn [nth_error] in Hn; eapply nth_error_In; exact Hn).
    rewrite (ug_not_atm g l0 ls l (wf_lnames g W) EL Hin), E.
    eexists. split; [reflexivity|].
    rewrite qmul_eq, qsub_eq, Q. unfold block_height. ring.
  Qed.

  (** the block centre elevation *)
  Lemma block_centre_spec i l c :
    nth_error (layers g) (S i) = Some l -> lbot l < csurf c ->
    exists z, block_centre g l c = Some (ccx c, ccy c, z) /\ z == zcentre l c.
  Proof.
    intros Hn Hs. unfold block_centre, zcentre.
    destruct (layers g) as [|l0 ls] eqn:EL; [discriminate|].
    assert (Hin : In l ls) by (cbn [nth_error] in Hn; eapply nth_error_In; exact Hn).
    rewrite (ug_not_atm g l0 ls l (wf_lnames g W) EL Hin).
    pose proof Hs as Hs'. apply Qltb_iff in Hs'. rewrite Hs'. cbn [andb].
    destruct (qleb (csurf c) (ltop l)) eqn:E1.
    - eexists. split; [reflexivity|]. rewrite qmul_eq, qadd_eq. reflexivity.
    - destruct (qleb (csurf c) (lbot l)) eqn:E2; qb; [lra|]. eexists. split; reflexivity.
  Qed.
End Tops.

(** * sums of rationals *)
Definition qsum (l : list Q) : Q := fold_right Qplus 0 l.

Lemma qsum_cons x l : qsum (x :: l) = x + qsum l.
Proof. reflexivity. Qed.

Lemma qsum_app a b : qsum (a ++ b) == qsum a + qsum b.
Proof. induction a as [|x a IH]; cbn [app]; [unfold qsum at 2; cbn [fold_right]; ring|]. rewrite !qsum_cons, IH. ring. Qed.

Lemma qsum_perm l l' : Permutation l l' -> qsum l == qsum l'.
Proof.
  induction 1 as [|x l l' P IH|x y l|l l' l'' P1 IH1 P2 IH2]; rewrite ?qsum_cons.
  - reflexivity.
  - rewrite IH. reflexivity.
  - ring.
  - rewrite IH1. exact IH2.
Qed.

Lemma qsum_map_ext {A} (f h : A -> Q) l : (forall x, In x l -> f x == h x) -> qsum (map f l) == qsum (map h l).
Proof.
  induction l as [|a l IH]; intro H; cbn [map]; [reflexivity|]. rewrite !qsum_cons.
  rewrite (H a (or_introl eq_refl)), IH; [reflexivity|]. intros x Hx. apply H. right. exact Hx.
Qed.

Lemma qsum_filter {A} (p : A -> bool) (f : A -> Q) l :
  qsum (map f (filter p l)) == qsum (map (fun x => if p x then f x else 0) l).
Proof.
  induction l as [|a l IH]; cbn [filter map]; [reflexivity|]. rewrite qsum_cons.
  destruct (p a); cbn [map]; rewrite ?qsum_cons, IH; ring.
Qed.

Lemma qsum_zero {A} (l : list A) : qsum (map (fun _ => 0) l) == 0.
Proof. induction l as [|a l IH]; cbn [map]; [reflexivity|]. rewrite qsum_cons, IH. ring. Qed.

Lemma qsum_plus {A} (f h : A -> Q) l : qsum (map (fun x => f x + h x) l) == qsum (map f l) + qsum (map h l).
Proof.
  induction l as [|a l IH]; cbn [map]; [unfold qsum; cbn [fold_right]; ring|]. rewrite !qsum_cons, IH. ring.
Qed.

Lemma qsum_swap {A B} (F : A -> B -> Q) la lb :
  qsum (map (fun a => qsum (map (F a) lb)) la) == qsum (map (fun b => qsum (map (fun a => F a b) la)) lb).
Proof.
  induction la as [|a la IH]; cbn [map].
  - symmetry. apply qsum_zero.
  - rewrite qsum_cons, IH, <- qsum_plus. apply qsum_map_ext. intros b _. rewrite qsum_cons. reflexivity.
Qed.

Lemma qsum_flat_map {A B} (h : A -> list B) (f : B -> Q) l :
  qsum (map f (flat_map h l)) == qsum (map (fun a => qsum (map f (h a))) l).
Proof.
  induction l as [|a l IH]; cbn [flat_map map]; [reflexivity|].
  rewrite map_app, qsum_app, qsum_cons, IH. reflexivity.
Qed.

Lemma qsum_scal {A} (k : Q) (f : A -> Q) l : qsum (map (fun x => k * f x) l) == k * qsum (map f l).
Proof.
  induction l as [|a l IH]; cbn [map]; [unfold qsum; cbn [fold_right]; ring|]. rewrite !qsum_cons, IH. ring.
Qed.

(** * telescoping of the heights of one column *)
Fixpoint contig (ls : list layer) : Prop :=
  match ls with
  | a :: r => match r with b :: _ => ltop b == lbot a | [] => True end /\ contig r
  | [] => True
  end.

Definition dlayer : layer := mkLayer [] 0 0 0.

(** the specified heights of the blocks of a column with surface [s], summed down a layer stack
    whose first element has index [i] below the atmosphere layer *)
Fixpoint heights (i : nat) (s : Q) (ls : list layer) : Q :=
  match ls with
  | [] => 0
  | l :: r => (if Qgtb s (lbot l)
               then (if (i =? 0)%nat || qleb s (ltop l) then s else ltop l) - lbot l
               else 0) + heights (S i) s r
  end.

(** below the top block every layer is full: the heights telescope to top - bottom *)
Lemma heights_full : forall ls i s l,
  contig (l :: ls) -> (forall x, In x (l :: ls) -> lbot x <= ltop x) -> ltop l < s -> i <> 0%nat ->
  heights i s (l :: ls) == ltop l - lbot (last (l :: ls) dlayer).
Proof.
  induction ls as [|r ls IH]; intros i s l C T Hs Hi.
  - cbn [heights last]. pose proof (T l (or_introl eq_refl)) as Tl.
    assert (E1 : Qgtb s (lbot l) = true) by (apply Qgtb_iff; lra). rewrite E1.
    assert (E2 : qleb s (ltop l) = false) by (apply qleb_false; lra). rewrite E2.
    destruct i; [contradiction|]. cbn [Nat.eqb orb]. ring.
  - destruct C as [C1 C2].
    pose proof (T l (or_introl eq_refl)) as Tl.
    assert (Hr : ltop r < s) by lra.
    specialize (IH (S i) s r C2 (fun x Hx => T x (or_intror Hx)) Hr (Nat.neq_succ_0 i)).
    change (heights i s (l :: r :: ls)) with
      ((if Qgtb s (lbot l) then (if (i =? 0)%nat || qleb s (ltop l) then s else ltop l) - lbot l else 0) + heights (S i) s (r :: ls)).
    rewrite IH.
    assert (E1 : Qgtb s (lbot l) = true) by (apply Qgtb_iff; lra). rewrite E1.
    assert (E2 : qleb s (ltop l) = false) by (apply qleb_false; lra). rewrite E2.
    destruct i; [contradiction|]. cbn [Nat.eqb orb].
    change (last (l :: r :: ls) dlayer) with (last (r :: ls) dlayer). rewrite C1. ring.
Qed.

(** the heights of the blocks of a column add up to surface - bottom of the stack *)
Lemma heights_telescope : forall ls i s l,
  contig (l :: ls) -> (forall x, In x (l :: ls) -> lbot x <= ltop x) ->
  lbot (last (l :: ls) dlayer) < s -> (i = 0%nat \/ s <= ltop l) ->
  heights i s (l :: ls) == s - lbot (last (l :: ls) dlayer).
Proof.
  induction ls as [|r ls IH]; intros i s l C T Hs Hi.
  - cbn [heights last] in *.
    assert (E1 : Qgtb s (lbot l) = true) by (apply Qgtb_iff; lra). rewrite E1.
    assert (E2 : (i =? 0)%nat || qleb s (ltop l) = true).
    { destruct Hi as [->|Hi]; [reflexivity|]. apply orb_true_iff. right. apply qleb_iff. exact Hi. }
    rewrite E2. ring.
  - destruct C as [C1 C2].
    change (heights i s (l :: r :: ls)) with
      ((if Qgtb s (lbot l) then (if (i =? 0)%nat || qleb s (ltop l) then s else ltop l) - lbot l else 0) + heights (S i) s (r :: ls)).
    change (last (l :: r :: ls) dlayer) with (last (r :: ls) dlayer) in *.
    destruct (Qgtb s (lbot l)) eqn:E1; qb.
    + (* this is the column's top block; everything below is full *)
      assert (E2 : (i =? 0)%nat || qleb s (ltop l) = true).
      { destruct Hi as [->|Hi]; [reflexivity|]. apply orb_true_iff. right. apply qleb_iff. exact Hi. }
      rewrite E2.
      rewrite (heights_full ls (S i) s r C2 (fun x Hx => T x (or_intror Hx))); [|lra|lia].
      rewrite C1. ring.
    + (* the column does not reach this layer *)
      rewrite (IH (S i) s r C2 (fun x Hx => T x (or_intror Hx)) Hs); [ring|]. right. lra.
Qed.

(** * the volume of a column *)
Definition vol_of (g : geom) (l : layer) (c : column) : Q :=
  match block_volume g l c with Some v => v | None => 0 end.
(** the layers in which the column has a block *)
Definition col_layers (g : geom) (c : column) : list layer :=
  filter (fun l => Qgtb (csurf c) (lbot l)) (tl (layers g)).
Definition col_volume (g : geom) (c : column) : Q := qsum (map (fun l => vol_of g l c) (col_layers g c)).

Section Column.
  Variable g : geom.
  Hypothesis W : wf g.
  Hypothesis LW : layers_wf g.

  Lemma contig_suffix : forall ls k,
    (forall j l, nth_error ls j = Some l -> nth_error (layers g) (S (k + j)) = Some l) -> contig ls.
  Proof.
    induction ls as [|a ls IH]; intros k H; [exact I|]. cbn [contig]. split.
    - destruct ls as [|b ls']; [exact I|].
      apply (wf_contig g W (S k) a b).
      + rewrite <- (Nat.add_0_r k). apply H. reflexivity.
      + replace (S (S k)) with (S (k + 1)) by lia. apply H. reflexivity.
    - apply (IH (S k)). intros j l Hj. replace (S (S k + j)) with (S (k + S j)) by lia. apply H. exact Hj.
  Qed.

  Lemma col_sum_heights c : forall ls k,
    (forall j l, nth_error ls j = Some l -> nth_error (layers g) (S (k + j)) = Some l) ->
    qsum (map (fun l => vol_of g l c) (filter (fun l => Qgtb (csurf c) (lbot l)) ls)) == carea c * heights k (csurf c) ls.
  Proof.
    induction ls as [|a ls IH]; intros k H; [cbn; ring|].
    cbn [filter heights].
    assert (IH' := IH (S k)). 
    assert (Hk : nth_error (layers g) (S k) = Some a) by (rewrite <- (Nat.add_0_r k); apply H; reflexivity).
    assert (Hrest : forall j l, nth_error ls j = Some l -> nth_error (layers g) (S (S k + j)) = Some l).
    { intros j l Hj. replace (S (S k + j)) with (S (k + S j)) by lia. apply H. exact Hj. }
    specialize (IH' Hrest).
    destruct (Qgtb (csurf c) (lbot a)) eqn:E1.
    - cbn [map qsum fold_right]. fold (qsum (map (fun l => vol_of g l c) (filter (fun l => Qgtb (csurf c) (lbot l)) ls))).
      rewrite IH'. qb.
      destruct (block_volume_spec g W LW k a c Hk E1) as [v [Ev Qv]].
      unfold vol_of. rewrite Ev, Qv. unfold block_height, block_top, is_top. ring.
    - rewrite IH'. ring.
  Qed.

  (** the volumes of the blocks of one column add up to area x (surface - bottom of the model) *)
  Theorem column_volume_telescopes_lemma c :
    tl (layers g) <> [] -> bottom_of g < csurf c -> col_volume g c == carea c * (csurf c - bottom_of g).
  Proof.
    intros NE Hs. unfold col_volume, col_layers.
    assert (Hsuf : forall j l, nth_error (tl (layers g)) j = Some l -> nth_error (layers g) (S (0 + j)) = Some l).
    { intros j l Hj. rewrite nth_error_tl in Hj. exact Hj. }
    rewrite (col_sum_heights c (tl (layers g)) 0%nat Hsuf).
    pose proof (contig_suffix _ _ Hsuf) as C.
    unfold bottom_of in *.
    destruct (layers g) as [|l0 ls] eqn:EL; [exfalso; exact (wf_layers g W EL)|].
    cbn [tl] in *.
    destruct ls as [|l1 ls].
    - contradiction.
    - change (last (l0 :: l1 :: ls) (mkLayer [] 0 0 0)) with (last (l1 :: ls) dlayer) in *.
      rewrite (heights_telescope ls 0%nat (csurf c) l1 C); [reflexivity| |exact Hs|left; reflexivity].
      intros x Hx. apply (lw_thick g LW). rewrite EL. exact Hx.
  Qed.
End Column.

(** * the rock volume of the whole grid *)
Definition bvol0 (b : block) : Q := match bvol b with Some v => v | None => 0 end.
Definition rock_volume (bl : list block) : Q := qsum (map bvol0 (filter (fun b => negb (batm b)) bl)).

Lemma filter_all {A} (p : A -> bool) l : (forall x, In x l -> p x = true) -> filter p l = l.
Proof.
  induction l as [|a l IH]; intro H; [reflexivity|]. cbn [filter]. rewrite (H a (or_introl eq_refl)).
  rewrite IH; [reflexivity|]. intros x Hx. apply H. right. exact Hx.
Qed.
Lemma filter_none {A} (p : A -> bool) l : (forall x, In x l -> p x = false) -> filter p l = [].
Proof.
  induction l as [|a l IH]; intro H; [reflexivity|]. cbn [filter]. rewrite (H a (or_introl eq_refl)).
  apply IH. intros x Hx. apply H. right. exact Hx.
Qed.

Lemma atm_bl_atm g bm b : In b (atm_bl g bm) -> batm b = true.
Proof.
  unfold atm_bl. destruct (layers g) as [|l0 ls]; [intros []|].
  destruct (atm_type g) as [|[|n]]; cbn [In].
  - intros [<-|[]]. reflexivity.
  - intro H. apply in_map_iff in H as [c [<- _]]. reflexivity.
  - intros [].
Qed.

Section Total.
  Variable g : geom.
  Hypothesis W : wf g.
  Hypothesis LW : layers_wf g.

  Lemma rock_volume_shape bm ps : Permutation ps (ug_pairs g) ->
    rock_volume (atm_bl g bm ++ map (mk_ug g bm) ps) ==
    qsum (map (fun c => col_volume g c) (columns g)).
  Proof.
    intro P. unfold rock_volume. rewrite filter_app.
    rewrite (filter_none _ (atm_bl g bm)) by (intros b Hb; rewrite (atm_bl_atm g bm b Hb); reflexivity).
    rewrite (filter_all _ (map (mk_ug g bm) ps)) by (intros b Hb; apply in_map_iff in Hb as [p [<- _]]; reflexivity).
    cbn [app]. rewrite map_map.
    change (fun x => bvol0 (mk_ug g bm x)) with (fun x : layer * column => vol_of g (fst x) (snd x)).
    rewrite (qsum_perm _ _ (Permutation_map _ P)).
    unfold ug_pairs. rewrite qsum_flat_map.
    (* sum over layers of sum over the columns that reach the layer *)
    transitivity (qsum (map (fun l => qsum (map (fun c => if Qgtb (csurf c) (lbot l) then vol_of g l c else 0) (columns g))) (tl (layers g)))).
    { apply qsum_map_ext. intros l _. rewrite map_map. cbn [fst snd]. unfold layercols. apply qsum_filter. }
    rewrite qsum_swap. apply qsum_map_ext. intros c _.
    unfold col_volume, col_layers. symmetry. apply (qsum_filter (fun l => Qgtb (csurf c) (lbot l)) (fun l => vol_of g l c)).
  Qed.

  (** total rock volume = sum over columns of area x depth from the surface to the bottom *)
  Theorem total_volume_lemma bm names bl :
    tl (layers g) <> [] -> (forall c, In c (columns g) -> bottom_of g < csurf c) ->
    block_name_list g = Ok names -> NoDup (map (apply_map bm) names) ->
    fromgeo_blocks g bm = Ok bl ->
    rock_volume bl == qsum (map (fun c => carea c * (csurf c - bottom_of g)) (columns g)).
  Proof.
    intros NE Hs Hn ND Hb.
    destruct (blocks_shape g bm names W Hn ND) as [ps [P [_ F]]].
    rewrite F in Hb. inversion Hb; subst bl.
    rewrite (rock_volume_shape bm ps P). apply qsum_map_ext. intros c Hc.
    apply column_volume_telescopes_lemma; auto.
  Qed.

  (** every rock block of the grid is the block of one announced (layer, column) pair, carries
      the mapped name of that pair, and has volume area x height *)
  Theorem block_volumes_lemma bm names bl :
    block_name_list g = Ok names -> NoDup (map (apply_map bm) names) ->
    fromgeo_blocks g bm = Ok bl ->
    Forall (fun b => batm b = false ->
              exists i l c v, nth_error (layers g) (S i) = Some l /\ In c (columns g) /\ lbot l < csurf c /\
                              bname b = block_name (convention g) (lname l) (cname c) bm /\
                              bvol b = Some v /\ v == carea c * block_height i l c) bl.
  Proof.
    intros Hn ND Hb.
    destruct (blocks_shape g bm names W Hn ND) as [ps [P [_ F]]].
    rewrite F in Hb. inversion Hb; subst bl. apply Forall_forall. intros b Hin Hatm.
    apply in_app_or in Hin as [Hin|Hin]; [rewrite (atm_bl_atm g bm b Hin) in Hatm; discriminate|].
    apply in_map_iff in Hin as [[l c] [<- Hp]].
    apply (Permutation_in _ P) in Hp. apply in_ug_pairs in Hp as [Hl [Hc Hs]].
    apply In_nth_error in Hl as [i Hi]. rewrite nth_error_tl in Hi.
    destruct (block_volume_spec g W LW i l c Hi Hs) as [v [Ev Qv]].
    exists i, l, c, v. repeat split; auto.
  Qed.
End Total.
