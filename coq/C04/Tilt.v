(** C04 -- mulgrid.get_tilt_vector over the reals, its closed form, and the gravity cosines of a
    tilted geometry.  The executable model takes the tilt vector as three rational inputs; the first
    two components are exactly GDCX and GDCY, the third is -sqrt(1 - GDCX^2 - GDCY^2): rational only
    when that radicand is a rational square ([tilt_from_angles] states exactly this), otherwise the
    double the implementation computed. *)
From Coq Require Import List QArith Qreals Reals Lra Lia.
From PTBase Require Import Exn PyStr.
From P Require Import FromGeo Arith Lists NamesAgree Volume ConnGeom SurdR.
Open Scope R_scope.

(** transcription of get_tilt_vector (mulgrids.py): cosfromsin(s) = sqrt(1 - min(s*s, 1)) *)
Definition cosfromsin (s : R) : R := sqrt (1 - Rmin (s * s) 1).
Definition tilt_vector_R (gdcx gdcy : R) : R * R * R :=
  let sintheta := - gdcy in
  let costheta := cosfromsin sintheta in
  let sinphi := gdcx / costheta in
  let cosphi := cosfromsin sinphi in
  (costheta * sinphi, - sintheta, - costheta * cosphi).

Lemma tilt_vector_closed_form_lemma gx gy :
  gx * gx + gy * gy <= 1 -> gy * gy < 1 ->
  tilt_vector_R gx gy = (gx, gy, - sqrt (1 - gx * gx - gy * gy)).
Proof.
  intros H1 H2. unfold tilt_vector_R, cosfromsin.
  replace (- gy * - gy) with (gy * gy) by ring.
  rewrite (Rmin_left (gy * gy) 1) by lra.
  set (ct := sqrt (1 - gy * gy)).
  assert (P : 0 < 1 - gy * gy) by lra.
  assert (Pct : 0 < ct) by (apply sqrt_lt_R0; exact P).
  assert (Sq : ct * ct = 1 - gy * gy) by (apply sqrt_sqrt; lra).
  assert (E1 : ct * (gx / ct) = gx) by (field; lra).
  assert (E2 : gx / ct * (gx / ct) = gx * gx / (1 - gy * gy)).
  { rewrite <- Sq. field. lra. }
  assert (L : gx * gx / (1 - gy * gy) <= 1).
  { apply (Rmult_le_reg_r (1 - gy * gy)); [exact P|]. unfold Rdiv. rewrite Rmult_assoc, Rinv_l by lra. lra. }
  rewrite E1, E2, (Rmin_left _ 1 L).
  f_equal; [f_equal; ring|].
  replace (- ct * sqrt (1 - gx * gx / (1 - gy * gy))) with (- (ct * sqrt (1 - gx * gx / (1 - gy * gy)))) by ring.
  f_equal. unfold ct. rewrite <- sqrt_mult; [|lra|lra]. f_equal. field. lra.
Qed.

Lemma tilt_vector_unit_lemma gx gy :
  gx * gx + gy * gy <= 1 -> gy * gy < 1 ->
  let '(x, y, z) := tilt_vector_R gx gy in x * x + y * y + z * z = 1.
Proof.
  intros H1 H2. rewrite (tilt_vector_closed_form_lemma gx gy H1 H2).
  replace (- sqrt (1 - gx * gx - gy * gy) * - sqrt (1 - gx * gx - gy * gy))
    with (sqrt (1 - gx * gx - gy * gy) * sqrt (1 - gx * gx - gy * gy)) by ring.
  rewrite sqrt_sqrt by lra. ring.
Qed.

Lemma tilt_vector_untilted_lemma : tilt_vector_R 0 0 = (0, 0, -1).
Proof.
  rewrite tilt_vector_closed_form_lemma by lra.
  replace (1 - 0 * 0 - 0 * 0) with 1 by ring. rewrite sqrt_1. reflexivity.
Qed.

(** the model's rational tilt inputs are the tilt vector of (GDCX, GDCY) -- possible exactly when
    1 - GDCX^2 - GDCY^2 is the square of a rational *)
Definition tilt_from_angles (g : geom) (gx gy : Q) : Prop :=
  (tiltx g == gx /\ tilty g == gy /\ tiltz g <= 0 /\ tiltz g * tiltz g == 1 - gx * gx - gy * gy /\ gy * gy < 1)%Q.

Lemma tilt_from_angles_R g gx gy : tilt_from_angles g gx gy ->
  (Q2R (tiltx g), Q2R (tilty g), Q2R (tiltz g)) = tilt_vector_R (Q2R gx) (Q2R gy) /\
  Q2R (tiltz g) = - sqrt (1 - Q2R gx * Q2R gx - Q2R gy * Q2R gy).
Proof.
  intros [Hx [Hy [Hn [Hs Hl]]]].
  apply Qeq_eqR in Hx. apply Qeq_eqR in Hy. apply Qeq_eqR in Hs. apply Qle_Rle in Hn. apply Qlt_Rlt in Hl.
  rewrite Q2R_minus, Q2R_minus, !Q2R_mult in Hs. rewrite Q2R_mult in Hl.
  replace (Q2R 1) with 1 in * by (unfold Q2R; simpl; lra). replace (Q2R 0) with 0 in Hn by (unfold Q2R; simpl; lra).
  assert (Z : Q2R (tiltz g) = - sqrt (1 - Q2R gx * Q2R gx - Q2R gy * Q2R gy)).
  { rewrite <- Hs. replace (Q2R (tiltz g) * Q2R (tiltz g)) with ((- Q2R (tiltz g)) * (- Q2R (tiltz g))) by ring.
    rewrite sqrt_square by lra. ring. }
  split; [|exact Z].
  assert (NN : 0 <= Q2R (tiltz g) * Q2R (tiltz g)) by (apply Rle_0_sqr).
  rewrite tilt_vector_closed_form_lemma by lra. rewrite Hx, Hy, Z. reflexivity.
Qed.

(** gravity cosines of a tilted geometry *)
Lemma vertical_dircos_tilted_lemma g bm i l c k gx gy :
  vertical_spec_at g bm i l c k -> tilt_from_angles g gx gy ->
  surdR (kcos k) = - sqrt (1 - Q2R gx * Q2R gx - Q2R gy * Q2R gy).
Proof.
  intros [d1 [d2 [_ [_ [_ [_ [_ [_ [Hc _]]]]]]]]] T. rewrite Hc, surdR_rat.
  exact (proj2 (tilt_from_angles_R g gx gy T)).
Qed.

Lemma horizontal_dircos_tilted_lemma g bm i l h k gx gy :
  horizontal_spec_at g bm i l h k -> tilt_from_angles g gx gy ->
  let dx := (ccx (hcolB h) - ccx (hcolA h))%Q in
  let dy := (ccy (hcolB h) - ccy (hcolA h))%Q in
  let dz := (zcentre l (hcolB h) - zcentre l (hcolA h))%Q in
  ~ (dx ^ 2 + dy ^ 2 + dz ^ 2 == 0)%Q ->
  surdR (kcos k) =
    (Q2R dx * Q2R gx + Q2R dy * Q2R gy - Q2R dz * sqrt (1 - Q2R gx * Q2R gx - Q2R gy * Q2R gy)) /
    sqrt ((Q2R dx)² + (Q2R dy)² + (Q2R dz)²).
Proof.
  intros H T dx dy dz NZ. rewrite (horizontal_dircos_R g bm i l h k H NZ).
  destruct T as [Hx [Hy T']]. pose proof (proj2 (tilt_from_angles_R g gx gy (conj Hx (conj Hy T')))) as Z.
  rewrite (Qeq_eqR _ _ Hx), (Qeq_eqR _ _ Hy), Z. unfold Rdiv. apply Rmult_eq_compat_r. unfold dx, dy, dz. ring.
Qed.

(** a tilted example: GDCX = 3/5, GDCY = 0 gives the tilt vector (3/5, 0, -4/5) *)
Example ex_tilted :
  tilt_from_angles (mkGeom nil nil nil 0%nat 1%Q 1%Q 0%nat false (3 # 5)%Q 0%Q (- (4 # 5))%Q 1%Q 0%Q) (3 # 5)%Q 0%Q.
Proof. repeat split; try reflexivity; discriminate. Qed.
