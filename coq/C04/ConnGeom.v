(** C04 -- the numbers carried by the connections [fromgeo] builds. *)
From Coq Require Import Ascii String List Bool Arith ZArith QArith Qabs Qminmax Lia Lqa Permutation Setoid Morphisms.
From PTBase Require Import Exn PyStr.
From P Require Import FromGeo Arith Lists NamesAgree Volume.
Import ListNotations.
Open Scope Q_scope.

Ltac qnorm := repeat first [rewrite qadd_eq | rewrite qsub_eq | rewrite qmul_eq | rewrite qdiv_eq].

Lemma qmin_comp a a' b b' : a == a' -> b == b' -> qmin a b == qmin a' b'.
Proof. intros Ha Hb. unfold qmin. rewrite (qleb_comp a a' b b' Ha Hb). destruct (qleb a' b'); assumption. Qed.
Lemma qmin_Qmin a b : qmin a b == Qmin a b.
Proof.
  unfold qmin. destruct (qleb a b) eqn:E.
  - apply qleb_iff in E. symmetry. apply Q.min_l. exact E.
  - apply qleb_false in E. symmetry. apply Q.min_r. apply Qlt_le_weak. exact E.
Qed.

(** * the shared edge of a column connection *)
(** squared length of the edge *)
Definition edge2 (h : hconn) : Q := (hax h - hbx h) ^ 2 + (hay h - hby h) ^ 2.
(** [d2] is the squared distance from (cx, cy) to the foot of the perpendicular dropped on the
    line through the end points of the edge *)
Definition perp_sq (h : hconn) (cx cy d2 : Q) : Prop :=
  exists px py t,
    px == hax h + t * (hbx h - hax h) /\ py == hay h + t * (hby h - hay h) /\      (* on the line *)
    (px - cx) * (hbx h - hax h) + (py - cy) * (hby h - hay h) == 0 /\              (* perpendicular *)
    d2 == (px - cx) ^ 2 + (py - cy) ^ 2.
(** twice the signed area of the triangle (edge, point) *)
Definition cross (h : hconn) (cx cy : Q) : Q :=
  (hbx h - hax h) * (cy - hay h) - (hby h - hay h) * (cx - hax h).

(** the closed form of the perpendicular distance: d^2 |e|^2 = cross^2 *)
Lemma perp_sq_closed h cx cy d2 : perp_sq h cx cy d2 -> d2 * edge2 h == cross h cx cy ^ 2.
Proof.
  intros [px [py [t [Hx [Hy [Ho Hd]]]]]].
  assert (L : d2 * edge2 h - cross h cx cy ^ 2 == ((px - cx) * (hbx h - hax h) + (py - cy) * (hby h - hay h)) ^ 2).
  { rewrite Hd. unfold edge2, cross. rewrite Hx, Hy. ring. }
  rewrite Ho in L. lra.
Qed.

Lemma line_projection_spec ax ay px py qx qy :
  ~ (qx - px) ^ 2 + (qy - py) ^ 2 == 0 ->
  let r := line_projection ax ay px py qx qy in
  let t := ((ax - px) * (qx - px) + (ay - py) * (qy - py)) / ((qx - px) ^ 2 + (qy - py) ^ 2) in
  fst r == px + t * (qx - px) /\ snd r == py + t * (qy - py) /\
  (fst r - ax) * (qx - px) + (snd r - ay) * (qy - py) == 0.
Proof.
  intros NZ r t.
  assert (E1 : fst r == px + t * (qx - px)).
  { unfold r, line_projection. cbn [fst]. qnorm. unfold t. field. exact NZ. }
  assert (E2 : snd r == py + t * (qy - py)).
  { unfold r, line_projection. cbn [snd]. qnorm. unfold t. field. exact NZ. }
  split; [exact E1|]. split; [exact E2|].
  rewrite E1, E2. unfold t. field. exact NZ.
Qed.

Lemma sqdist_eq ax ay bx by_ : sqdist ax ay bx by_ == (ax - bx) ^ 2 + (ay - by_) ^ 2.
Proof. unfold sqdist. qnorm. ring. Qed.

Lemma hstatic_spec h : ~ edge2 h == 0 ->
  fst (fst (hstatic h)) == edge2 h /\
  perp_sq h (ccx (hcolA h)) (ccy (hcolA h)) (snd (fst (hstatic h))) /\
  perp_sq h (ccx (hcolB h)) (ccy (hcolB h)) (snd (hstatic h)).
Proof.
  intro NZ.
  assert (NZ' : ~ (hbx h - hax h) ^ 2 + (hby h - hay h) ^ 2 == 0).
  { intro H. apply NZ. unfold edge2. rewrite <- H. ring. }
  unfold hstatic. cbn [fst snd]. split; [apply sqdist_eq|]. split.
  - destruct (line_projection_spec (ccx (hcolA h)) (ccy (hcolA h)) (hax h) (hay h) (hbx h) (hby h) NZ') as [E1 [E2 E3]].
    eexists _, _, _. split; [exact E1|]. split; [exact E2|]. split; [exact E3|]. apply sqdist_eq.
  - destruct (line_projection_spec (ccx (hcolB h)) (ccy (hcolB h)) (hax h) (hay h) (hbx h) (hby h) NZ') as [E1 [E2 E3]].
    eexists _, _, _. split; [exact E1|]. split; [exact E2|]. split; [exact E3|]. apply sqdist_eq.
Qed.

(** * what a vertical / horizontal connection of the grid must look like *)

(** name of the atmosphere block above column [c] *)
Definition atm_block_name (g : geom) (bm : list (str * str)) (l0 : layer) (c : column) : str :=
  block_name (convention g) (lname l0)
             (if (atm_type g =? 0)%nat then atm_colname (convention g) else cname c) bm.

Definition vertical_spec_at (g : geom) (bm : list (str * str)) (i : nat) (l : layer) (c : column) (k : conn) : Prop :=
  exists d1 d2,
    nth_error (layers g) (S i) = Some l /\ In c (columns g) /\ lbot l < csurf c /\
    k1 k = block_name (convention g) (lname l) (cname c) bm /\            (* the lower block first *)
    kdir k = 3%nat /\ karea k = rat (carea c) /\ kcos k = rat (tiltz g) /\
    kd1 k = rat d1 /\ kd2 k = rat d2 /\
    if is_top i l c
    then (* connection to the atmosphere *)
      (atm_type g < 2)%nat /\
      (exists l0, nth_error (layers g) 0 = Some l0 /\ k2 k = atm_block_name g bm l0 c) /\
      d1 == csurf c - zcentre l c /\ d2 = atm_conn g
    else (* connection to the block of the layer above *)
      exists al, nth_error (layers g) i = Some al /\ (0 < i)%nat /\
        k2 k = block_name (convention g) (lname al) (cname c) bm /\
        d1 + d2 == zcentre al c - zcentre l c.
Definition vertical_spec (g : geom) (bm : list (str * str)) (k : conn) : Prop :=
  exists i l c, vertical_spec_at g bm i l c k.

Definition horizontal_spec_at (g : geom) (bm : list (str * str)) (i : nat) (l : layer) (h : hconn) (k : conn) : Prop :=
    nth_error (layers g) (S i) = Some l /\ In h (hconns g) /\
    lbot l < csurf (hcolA h) /\ lbot l < csurf (hcolB h) /\
    k1 k = block_name (convention g) (lname l) (cname (hcolA h)) bm /\      (* con.column order *)
    k2 k = block_name (convention g) (lname l) (cname (hcolB h)) bm /\
    (kdir k = 1%nat \/ kdir k = 2%nat) /\
    (* area = |edge| x lower of the two block heights *)
    rad (karea k) == edge2 h /\
    coef (karea k) == Qmin (block_height i l (hcolA h)) (block_height i l (hcolB h)) /\
    (* distances = perpendicular distances of the column centres from the edge line *)
    coef (kd1 k) == 1 /\ perp_sq h (ccx (hcolA h)) (ccy (hcolA h)) (rad (kd1 k)) /\
    coef (kd2 k) == 1 /\ perp_sq h (ccx (hcolB h)) (ccy (hcolB h)) (rad (kd2 k)) /\
    (* gravity cosine = (d . tilt) / |d| with d the line between the block centres *)
    let dx := ccx (hcolB h) - ccx (hcolA h) in
    let dy := ccy (hcolB h) - ccy (hcolA h) in
    let dz := zcentre l (hcolB h) - zcentre l (hcolA h) in
    coef (kcos k) == dx * tiltx g + dy * tilty g + dz * tiltz g /\
    rad (kcos k) == / (dx ^ 2 + dy ^ 2 + dz ^ 2) /\
    (* permeability direction: the larger component of the centre line, turned by the
       permeability angle (the first one on a tie) *)
    let d2x := pcos g * dx + psin g * dy in
    let d2y := - psin g * dx + pcos g * dy in
    (Qabs d2y <= Qabs d2x -> kdir k = 1%nat) /\ (Qabs d2x < Qabs d2y -> kdir k = 2%nat).

Definition horizontal_spec (g : geom) (bm : list (str * str)) (k : conn) : Prop :=
  exists i l h, horizontal_spec_at g bm i l h k.

(** non-degenerate edges *)
Definition edges_wf (g : geom) : Prop := forall h, In h (hconns g) -> ~ edge2 h == 0.

Section ConnSpec.
  Variables (g : geom) (bm : list (str * str)) (names : list str) (ps : list (layer * column)).
  Hypothesis W : wf g.
  Hypothesis LW : layers_wf g.
  Hypothesis Hperm : Permutation ps (ug_pairs g).
  Hypothesis Hnames : names = (atm_names g ++ map (bnp g) ps)%list.
  Hypothesis ND : NoDup (map (apply_map bm) names).
  Let bl := (atm_bl g bm ++ map (mk_ug g bm) ps)%list.

  Lemma centre_of_ug_spec i l c :
    nth_error (layers g) (S i) = Some l -> lbot l < csurf c ->
    exists z, centre_of (mk_ug g bm (l, c)) = Ok (ccx c, ccy c, z) /\ z == zcentre l c.
  Proof.
    intros Hn Hs. destruct (block_centre_spec g W i l c Hn Hs) as [z [E Q]].
    exists z. split; [|exact Q]. unfold centre_of, mk_ug. cbn [bcentre fst snd]. rewrite E. reflexivity.
  Qed.

  Lemma nth_tl_in i l : nth_error (layers g) (S i) = Some l -> In l (tl (layers g)).
  Proof. intro H. rewrite <- nth_error_tl in H. eapply nth_error_In. exact H. Qed.

  Lemma vconn_spec i l c k :
    nth_error (layers g) (S i) = Some l -> In c (layercols g l) ->
    vconn g bm bl l c = Ok (Some k) -> vertical_spec g bm k.
  Proof.
    intros Hnth Hc. apply in_layercols in Hc as [Hc Hs].
    pose proof (nth_tl_in i l Hnth) as Hl.
    assert (Hidx : layer_index g l = Ok (S i)).
    { unfold layer_index. rewrite (index_from_nth (layers g) 0 (S i) l (wf_lnames g W) Hnth). reflexivity. }
    destruct (centre_of_ug_spec i l c Hnth Hs) as [z [Hcz Qz]].
    unfold vconn. unfold bl. rewrite (find_ug g bm names ps Hperm Hnames ND l c Hl Hc Hs). cbn [bind].
    rewrite Hidx. cbn [bind]. change (S i =? 1)%nat with (i =? 0)%nat.
    fold (is_top i l c).
    destruct (is_top i l c) eqn:Cond.
    - (* connection to the atmosphere *)
      destruct (layers g) as [|l0 ls] eqn:EL; [discriminate|].
      unfold nth_layer. rewrite EL. cbn [nth_error bind]. rewrite Hcz. cbn [bind snd].
      pose proof (wf_atm g W) as LE.
      destruct (atm_type g) as [|[|[|n]]] eqn:A; [| | |lia].
      + assert (Eb : atm_bl g bm = [mkBlock (block_name (convention g) (lname l0) (atm_colname (convention g)) bm) (Some (atm_vol g)) None true]).
        { unfold atm_bl. rewrite EL, A. reflexivity. }
        rewrite Eb. cbn [app]. intro H. inversion H; subst k; clear H.
        exists i, l, c. exists (qsub (csurf c) z), (atm_conn g). rewrite EL, Cond.
        cbn [k1 k2 kdir kd1 kd2 karea kcos bname].
        split; [exact Hnth|]. split; [exact Hc|]. split; [exact Hs|]. do 6 (split; [reflexivity|]).
        split; [rewrite A; lia|]. split; [|split; [qnorm; rewrite Qz; reflexivity|reflexivity]].
        exists l0. split; [reflexivity|]. unfold atm_block_name. rewrite A. reflexivity.
      + destruct (find_atm1 g bm names ps Hnames ND l0 ls c EL A Hc) as [b [Hb Hbn]].
        rewrite Hb. cbn [bind]. intro H. inversion H; subst k; clear H.
        exists i, l, c. exists (qsub (csurf c) z), (atm_conn g). rewrite EL, Cond.
        cbn [k1 k2 kdir kd1 kd2 karea kcos bname].
        split; [exact Hnth|]. split; [exact Hc|]. split; [exact Hs|]. do 6 (split; [reflexivity|]).
        split; [rewrite A; lia|]. split; [|split; [qnorm; rewrite Qz; reflexivity|reflexivity]].
        exists l0. split; [reflexivity|]. unfold atm_block_name. rewrite A. exact Hbn.
      + discriminate.
    - (* interior connection *)
      unfold is_top in Cond. apply orb_false_iff in Cond as [Ci Cq]. apply Nat.eqb_neq in Ci.
      destruct i as [|j]; [contradiction|].
      replace (S (S j) - 1)%nat with (S j) by lia.
      assert (Hal : exists al, nth_error (layers g) (S j) = Some al).
      { destruct (nth_error (layers g) (S j)) as [al|] eqn:N; [eauto|].
        apply nth_error_None in N. assert (nth_error (layers g) (S (S j)) <> None) by congruence.
        apply nth_error_Some in H. lia. }
      destruct Hal as [al Hal].
      pose proof (nth_tl_in j al Hal) as Hal_in.
      assert (Hcont : ltop l == lbot al) by (apply (wf_contig g W (S j) al l); assumption).
      assert (Hsa : lbot al < csurf c) by (rewrite <- Hcont; apply qleb_false; exact Cq).
      destruct (centre_of_ug_spec j al c Hal Hsa) as [za [Hcza Qza]].
      unfold nth_layer. rewrite Hal. cbn [bind].
      rewrite (find_ug g bm names ps Hperm Hnames ND al c Hal_in Hc Hsa). cbn [bind]. rewrite Hcza. cbn [bind snd].
      intro H. inversion H; subst k; clear H.
      exists (S j), l, c. exists (qsub (ltop l) (lcen l)), (qsub za (lbot al)).
      assert (Cond : is_top (S j) l c = false) by (unfold is_top; rewrite Cq; reflexivity).
      rewrite Cond. cbn [k1 k2 kdir kd1 kd2 karea kcos bname].
      split; [exact Hnth|]. split; [exact Hc|]. split; [exact Hs|]. do 6 (split; [reflexivity|]).
      exists al. split; [exact Hal|]. split; [lia|]. split; [reflexivity|].
      assert (Zl : zcentre l c = lcen l) by (unfold zcentre; rewrite Cq; reflexivity).
      rewrite Zl. qnorm. rewrite Qza, Hcont. ring.
  Qed.

  Lemma hconn_spec i l h k :
    edges_wf g ->
    nth_error (layers g) (S i) = Some l -> In h (hconns g) -> hconn_in_layer l h = true ->
    hconn_conn g bm bl l (h, hstatic h) = Ok k -> horizontal_spec g bm k.
  Proof.
    intros EW Hnth Hh Hin. pose proof (nth_tl_in i l Hnth) as Hl.
    unfold hconn_in_layer in Hin. apply andb_prop in Hin as [HA HB].
    apply Qgtb_iff in HA. apply Qgtb_iff in HB.
    destruct (wf_hcols g W h Hh) as [CA CB].
    unfold hconn_conn, bl.
    rewrite (find_ug g bm names ps Hperm Hnames ND l _ Hl CA HA). cbn [bind].
    rewrite (find_ug g bm names ps Hperm Hnames ND l _ Hl CB HB). cbn [bind].
    unfold connection_params.
    destruct (block_surface_spec g W LW i l (hcolA h) Hnth HA) as [sa [Ea Qa]].
    destruct (block_surface_spec g W LW i l (hcolB h) Hnth HB) as [sb [Eb Qb]].
    rewrite Ea, Eb.
    destruct (hstatic_spec h (EW h Hh)) as [S1 [S2 S3]].
    destruct (hstatic h) as [[s2 da] db]. cbn [fst snd] in S1, S2, S3.
    destruct (centre_of_ug_spec i l _ Hnth HA) as [za [-> Qza]].
    destruct (centre_of_ug_spec i l _ Hnth HB) as [zb [-> Qzb]].
    cbn [bind fst snd]. intro H. inversion H; subst k; clear H.
    exists i, l, h. unfold horizontal_spec_at. cbn [k1 k2 kdir kd1 kd2 karea kcos bname coef rad].
    split; [exact Hnth|]. split; [exact Hh|]. split; [exact HA|]. split; [exact HB|].
    do 2 (split; [reflexivity|]).
    split; [match goal with |- (if ?b then _ else _) = _ \/ _ => destruct b; auto end|].
    split; [exact S1|].
    split; [rewrite <- qmin_Qmin; apply qmin_comp; qnorm; unfold block_height; [rewrite Qa|rewrite Qb]; reflexivity|].
    split; [reflexivity|]. split; [exact S2|]. split; [reflexivity|]. split; [exact S3|].
    split; [qnorm; rewrite Qza, Qzb; reflexivity|].
    split; [qnorm; rewrite Qza, Qzb; apply Qinv_comp; ring|].
    match goal with |- context [if qleb ?a ?b then _ else _] => destruct (qleb a b) eqn:Q end; unfold qabs in Q;
      [apply qleb_iff in Q|apply qleb_false in Q];
      repeat (rewrite qadd_eq in Q || rewrite qsub_eq in Q || rewrite qmul_eq in Q);
      (split; intro HQ; [try reflexivity|try reflexivity]).
    - exfalso. exact (Qlt_not_le _ _ HQ Q).
    - exfalso. exact (Qlt_not_le _ _ Q HQ).
  Qed.
End ConnSpec.

(** * every connection of the grid comes from one iteration of one of the two loops *)
Lemma Forall2_in_r {A B} (R : A -> B -> Prop) xs ys y :
  Forall2 R xs ys -> In y ys -> exists j x, nth_error xs j = Some x /\ R x y.
Proof.
  induction 1 as [|x y' xs ys HR F IH]; intro Hin; [contradiction|].
  destruct Hin as [->|Hin].
  - exists 0%nat, x. split; [reflexivity|exact HR].
  - destruct (IH Hin) as [j [x' [Hj HR']]]. exists (S j), x'. split; assumption.
Qed.

Lemma add_connection_in cl k x : In x (add_connection cl k) -> x = k \/ In x cl.
Proof.
  unfold add_connection. destruct (existsb _ cl).
  - intro H. apply in_map_iff in H as [y [E Hy]]. destruct (same_key y k); [left; auto|right; subst; exact Hy].
  - intro H. apply in_app_or in H as [H|[H|[]]]; auto.
Qed.
Lemma fold_add_connection_in calls : forall acc x,
  In x (fold_left add_connection calls acc) -> In x acc \/ In x calls.
Proof.
  induction calls as [|k calls IH]; intros acc x H; cbn [fold_left] in H; [left; exact H|].
  apply IH in H as [H|H]; [|right; right; exact H].
  apply add_connection_in in H as [->|H]; [right; left; reflexivity|left; exact H].
Qed.

Theorem conns_geometry_lemma g bm names cs :
  wf g -> layers_wf g -> edges_wf g ->
  block_name_list g = Ok names -> NoDup (map (apply_map bm) names) ->
  fromgeo_conns g bm = Ok cs ->
  Forall (fun k => vertical_spec g bm k \/ horizontal_spec g bm k) cs.
Proof.
  intros W LW EW Hn ND Hc.
  destruct (blocks_shape g bm names W Hn ND) as [ps [P [E F]]].
  unfold fromgeo_conns in Hc. rewrite F in Hc. cbn [bind] in Hc.
  destruct (fromgeo_conn_calls g bm _) as [calls|e] eqn:C; [|discriminate]. cbn [bind] in Hc.
  inversion Hc; subst cs; clear Hc.
  apply Forall_forall. intros k Hk.
  apply fold_add_connection_in in Hk as [[]|Hk].
  unfold fromgeo_conn_calls in C.
  destruct (mapM _ (tl (layers g))) as [per|e] eqn:M; [|discriminate]. cbn [bind] in C.
  inversion C; subst calls; clear C.
  apply in_concat in Hk as [r [Hr Hk]].
  apply mapM_inv in M.
  destruct (Forall2_in_r _ _ _ _ M Hr) as [i [l [Hi HL]]]. rewrite nth_error_tl in Hi.
  unfold layer_conns in HL.
  destruct (mapM (vconn g bm _ l) (layercols g l)) as [v|e] eqn:MV; [|discriminate]. cbn [bind] in HL.
  destruct (mapM (hconn_conn g bm _ l) _) as [hh|e] eqn:MH; [|discriminate]. cbn [bind] in HL.
  inversion HL; subst r; clear HL.
  apply in_app_or in Hk as [Hk|Hk].
  - left. apply in_cat_some in Hk. apply mapM_inv in MV.
    destruct (Forall2_in_r _ _ _ _ MV Hk) as [j [c [Hj HV]]].
    apply (vconn_spec g bm names ps W P E ND i l c k Hi); [eapply nth_error_In; exact Hj|exact HV].
  - right. apply mapM_inv in MH.
    destruct (Forall2_in_r _ _ _ _ MH Hk) as [j [hs [Hj HH]]].
    apply nth_error_In in Hj. apply filter_In in Hj as [Hj1 Hj2].
    apply in_map_iff in Hj1 as [h [<- Hh]]. cbn [fst] in Hj2.
    apply (hconn_spec g bm names ps W LW P E ND i l h k EW Hi Hh Hj2 HH).
Qed.

(** * readings of the specifications *)
Definition untilted (g : geom) : Prop := tiltx g == 0 /\ tilty g == 0 /\ tiltz g == -1.

Lemma zcentre_full l c : ltop l < csurf c -> zcentre l c = lcen l.
Proof. intro H. unfold zcentre. apply qleb_false in H. rewrite H. reflexivity. Qed.
Lemma zcentre_truncated l c : csurf c <= ltop l -> zcentre l c = (1 # 2) * (lbot l + csurf c).
Proof. intro H. unfold zcentre. apply qleb_iff in H. rewrite H. reflexivity. Qed.

(** vertical connection: column area, gravity cosine -1 when untilted *)
Lemma vertical_area_dircos_lemma g bm i l c k :
  vertical_spec_at g bm i l c k ->
  karea k = rat (carea c) /\ kdir k = 3%nat /\ (untilted g -> rad (kcos k) = 1 /\ coef (kcos k) == -1).
Proof.
  intros [d1 [d2 [_ [_ [_ [_ [Hd [Ha [Hc _]]]]]]]]]. split; [exact Ha|]. split; [exact Hd|].
  intros [_ [_ Tz]]. rewrite Hc. cbn [rat rad coef]. split; [reflexivity|exact Tz].
Qed.

(** vertical connection between two rock blocks: lower block first, and the two distances add up
    to the separation of the block centres *)
Lemma vertical_interior_lemma g bm i l c k :
  vertical_spec_at g bm i l c k -> is_top i l c = false ->
  exists al d1 d2, nth_error (layers g) i = Some al /\ nth_error (layers g) (S i) = Some l /\
    k1 k = block_name (convention g) (lname l) (cname c) bm /\
    k2 k = block_name (convention g) (lname al) (cname c) bm /\
    kd1 k = rat d1 /\ kd2 k = rat d2 /\ d1 + d2 == zcentre al c - zcentre l c.
Proof.
  intros [d1 [d2 [Hn [_ [_ [H1 [_ [_ [_ [Hd1 [Hd2 H]]]]]]]]]]] T. rewrite T in H.
  destruct H as [al [Hal [_ [H2 Hs]]]]. exists al, d1, d2. repeat split; assumption.
Qed.

(** connection to the atmosphere: rock block first; distance from the block centre to the ground
    surface, and the geometry's atmosphere connection distance *)
Lemma vertical_atmosphere_lemma g bm i l c k :
  vertical_spec_at g bm i l c k -> is_top i l c = true ->
  exists l0 d1, nth_error (layers g) 0 = Some l0 /\
    k1 k = block_name (convention g) (lname l) (cname c) bm /\ k2 k = atm_block_name g bm l0 c /\
    kd1 k = rat d1 /\ d1 == csurf c - zcentre l c /\ kd2 k = rat (atm_conn g).
Proof.
  intros [d1 [d2 [Hn [_ [_ [H1 [_ [_ [_ [Hd1 [Hd2 H]]]]]]]]]]] T. rewrite T in H.
  destruct H as [_ [[l0 [H0 H2]] [Hs Ha]]]. exists l0, d1. subst d2. repeat split; assumption.
Qed.

(** horizontal connection in an untilted geometry: the cosine is (minus) the elevation
    difference of the block centres over their distance; it vanishes exactly when the two
    centres are at the same elevation *)
Lemma horizontal_dircos_lemma g bm i l h k :
  horizontal_spec_at g bm i l h k -> untilted g ->
  coef (kcos k) == zcentre l (hcolA h) - zcentre l (hcolB h) /\
  (coef (kcos k) == 0 <-> zcentre l (hcolA h) == zcentre l (hcolB h)) /\
  (~ (ccx (hcolA h) == ccx (hcolB h) /\ ccy (hcolA h) == ccy (hcolB h)) -> 0 < rad (kcos k)).
Proof.
  intros H [Tx [Ty Tz]]. unfold horizontal_spec_at in H.
  destruct H as [_ [_ [_ [_ [_ [_ [_ [_ [_ [_ [_ [_ [_ [Hc [Hr _]]]]]]]]]]]]]]]. cbn zeta in Hc, Hr.
  assert (E : coef (kcos k) == zcentre l (hcolA h) - zcentre l (hcolB h)).
  { rewrite Hc, Tx, Ty, Tz. ring. }
  split; [exact E|]. split.
  - rewrite E. split; intro H; lra.
  - intro NE. rewrite Hr. apply Qinv_lt_0_compat.
    set (dx := ccx (hcolB h) - ccx (hcolA h)) in *. set (dy := ccy (hcolB h) - ccy (hcolA h)) in *.
    set (dz := zcentre l (hcolB h) - zcentre l (hcolA h)) in *.
    assert (0 <= dx ^ 2 /\ 0 <= dy ^ 2 /\ 0 <= dz ^ 2) as [Px [Py Pz]].
    { repeat split; rewrite <- Qpower_0_le_iff_pos_even || (simpl; nra). }
    destruct (Qlt_le_dec 0 (dx ^ 2 + dy ^ 2 + dz ^ 2)) as [L|L]; [exact L|].
    exfalso. apply NE.
    assert (dx ^ 2 == 0 /\ dy ^ 2 == 0) as [Zx Zy] by (split; lra).
    assert (Sq : forall q, q ^ 2 == 0 -> q == 0).
    { intros q Hq. simpl in Hq. destruct (Qeq_dec q 0) as [|N]; [assumption|]. exfalso.
      apply (Qmult_integral q q) in Hq. tauto. }
    apply Sq in Zx. apply Sq in Zy. unfold dx in Zx. unfold dy in Zy. split; lra.
Qed.

(** beside a truncated surface block: one block cut by the surface strictly below the layer
    top, the other full, in a layer whose centre is its mid-point: the cosine is not zero;
    between two full blocks it is zero *)
Lemma horizontal_dircos_cases_lemma g bm i l h k :
  horizontal_spec_at g bm i l h k -> untilted g ->
  (ltop l < csurf (hcolA h) -> ltop l < csurf (hcolB h) -> coef (kcos k) == 0) /\
  (lcen l == (1 # 2) * (lbot l + ltop l) ->
   csurf (hcolA h) < ltop l -> ltop l <= csurf (hcolB h) -> ~ coef (kcos k) == 0) /\
  (lcen l == (1 # 2) * (lbot l + ltop l) ->
   csurf (hcolB h) < ltop l -> ltop l <= csurf (hcolA h) -> ~ coef (kcos k) == 0) /\
  (csurf (hcolA h) <= ltop l -> csurf (hcolB h) <= ltop l ->
   (coef (kcos k) == 0 <-> csurf (hcolA h) == csurf (hcolB h))).
Proof.
  intros H U. destruct (horizontal_dircos_lemma g bm i l h k H U) as [E _]. rewrite E.
  assert (ZB : forall c, ltop l <= csurf c -> lcen l == (1 # 2) * (lbot l + ltop l) -> zcentre l c == lcen l).
  { intros c Hc Hm. unfold zcentre. destruct (qleb (csurf c) (ltop l)) eqn:Q; [|reflexivity].
    apply qleb_iff in Q. rewrite Hm. assert (csurf c == ltop l) by lra. rewrite H0. reflexivity. }
  repeat split.
  - intros HA HB. rewrite (zcentre_full l _ HA), (zcentre_full l _ HB). ring.
  - intros Hm HA HB. rewrite (zcentre_truncated l (hcolA h)) by lra. rewrite (ZB _ HB Hm), Hm. lra.
  - intros Hm HB HA. rewrite (zcentre_truncated l (hcolB h)) by lra. rewrite (ZB _ HA Hm), Hm. lra.
  - rewrite (zcentre_truncated l (hcolA h)), (zcentre_truncated l (hcolB h)) by assumption. lra.
  - rewrite (zcentre_truncated l (hcolA h)), (zcentre_truncated l (hcolB h)) by assumption. lra.
Qed.

(** horizontal connection: the squared distances and the squared edge length in closed form *)
Lemma horizontal_area_distance_lemma g bm i l h k :
  horizontal_spec_at g bm i l h k ->
  rad (karea k) == edge2 h /\
  coef (karea k) == Qmin (block_height i l (hcolA h)) (block_height i l (hcolB h)) /\
  coef (kd1 k) == 1 /\ rad (kd1 k) * edge2 h == cross h (ccx (hcolA h)) (ccy (hcolA h)) ^ 2 /\
  coef (kd2 k) == 1 /\ rad (kd2 k) * edge2 h == cross h (ccx (hcolB h)) (ccy (hcolB h)) ^ 2.
Proof.
  unfold horizontal_spec_at.
  intros [_ [_ [_ [_ [_ [_ [_ [Ha [Hh [C1 [P1 [C2 [P2 _]]]]]]]]]]]]].
  repeat split; try assumption; apply perp_sq_closed; assumption.
Qed.

Lemma model_arith_lemma a b :
  qadd a b == a + b /\ qsub a b == a - b /\ qmul a b == a * b /\ qdiv a b == a / b /\
  (qleb a b = true <-> a <= b) /\ qmin a b == Qmin a b.
Proof.
  split; [apply qadd_eq|]. split; [apply qsub_eq|]. split; [apply qmul_eq|]. split; [apply qdiv_eq|].
  split; [apply qleb_iff|apply qmin_Qmin].
Qed.

(** horizontal connection: the permeability direction *)
Lemma horizontal_direction_lemma g bm i l h k :
  horizontal_spec_at g bm i l h k ->
  let dx := ccx (hcolB h) - ccx (hcolA h) in
  let dy := ccy (hcolB h) - ccy (hcolA h) in
  let d2x := pcos g * dx + psin g * dy in
  let d2y := - psin g * dx + pcos g * dy in
  (Qabs d2y <= Qabs d2x -> kdir k = 1%nat) /\ (Qabs d2x < Qabs d2y -> kdir k = 2%nat).
Proof.
  unfold horizontal_spec_at.
  intros [_ [_ [_ [_ [_ [_ [_ [_ [_ [_ [_ [_ [_ [_ [_ H]]]]]]]]]]]]]]]. exact H.
Qed.
