(** C04 -- the centres of the blocks of the grid, and the atmosphere blocks (volume, centre,
    how many), for every well-formed geometry. *)
From Coq Require Import Ascii String List Bool Arith ZArith QArith Lia Lqa Permutation.
From PTBase Require Import Exn PyStr.
From P Require Import FromGeo Arith Lists NamesAgree Volume Witness.
Import ListNotations.
Open Scope Q_scope.

(** every rock block of the grid is the block of one announced (layer, column) pair and its
    centre is the column centre at the elevation [zcentre] of that pair *)
Theorem block_centres_lemma g bm names bl :
  wf g -> block_name_list g = Ok names -> NoDup (map (apply_map bm) names) ->
  fromgeo_blocks g bm = Ok bl ->
  Forall (fun b => batm b = false ->
            exists i l c z, nth_error (layers g) (S i) = Some l /\ In c (columns g) /\ lbot l < csurf c /\
                            bname b = block_name (convention g) (lname l) (cname c) bm /\
                            bcentre b = Some (ccx c, ccy c, z) /\ z == zcentre l c) bl.
Proof.
  intros W Hn ND Hb.
  destruct (blocks_shape g bm names W Hn ND) as [ps [P [_ F]]].
  rewrite F in Hb. inversion Hb; subst bl. apply Forall_forall. intros b Hin Hatm.
  apply in_app_or in Hin as [Hin|Hin]; [rewrite (atm_bl_atm g bm b Hin) in Hatm; discriminate|].
  apply in_map_iff in Hin as [[l c] [<- Hp]].
  apply (Permutation_in _ P) in Hp. apply in_ug_pairs in Hp as [Hl [Hc Hs]].
  apply In_nth_error in Hl as [i Hi]. rewrite nth_error_tl in Hi.
  destruct (block_centre_spec g W i l c Hi Hs) as [z [Ez Qz]].
  exists i, l, c, z. repeat split; auto.
Qed.

(** the elevation of a block centre: the layer centre in a full block, and half way between the
    layer bottom and the block top (the column surface) in a block whose column surface does not
    rise above the layer top *)
Lemma zcentre_cases_lemma i l c :
  (ltop l < csurf c -> zcentre l c == lcen l) /\
  (csurf c <= ltop l -> block_top i l c == csurf c /\ zcentre l c == (lbot l + block_top i l c) / 2).
Proof.
  split.
  - intro H. unfold zcentre. apply qleb_false in H. rewrite H. reflexivity.
  - intro H. unfold zcentre, block_top, is_top. apply qleb_iff in H. rewrite H, orb_true_r.
    split; [reflexivity|]. field.
Qed.

(** a truncated block's centre lies strictly inside the block *)
Lemma zcentre_inside_lemma i l c :
  lbot l < csurf c -> csurf c <= ltop l -> lbot l < zcentre l c /\ zcentre l c < block_top i l c.
Proof.
  intros Hs H. unfold zcentre, block_top, is_top. pose proof H as H'. apply qleb_iff in H'.
  rewrite H', orb_true_r. split; lra.
Qed.

(** the atmosphere blocks: volume, centre, names and number, by atmosphere type *)
Theorem atm_blocks_lemma g bm names bl :
  wf g -> block_name_list g = Ok names -> NoDup (map (apply_map bm) names) ->
  fromgeo_blocks g bm = Ok bl ->
  exists l0 ls, layers g = l0 :: ls /\
  filter batm bl = firstn (length (atm_names g)) bl /\
  map bvol (filter batm bl) = map (fun _ => Some (atm_vol g)) (atm_names g) /\
  (atm_type g = 0%nat ->
     map bname (filter batm bl) = [block_name (convention g) (lname l0) (atm_colname (convention g)) bm] /\
     map bcentre (filter batm bl) = [None]) /\
  (atm_type g = 1%nat ->
     map bname (filter batm bl) = map (fun c => block_name (convention g) (lname l0) (cname c) bm) (columns g) /\
     map bcentre (filter batm bl) = map (fun c => Some (ccx c, ccy c, lcen l0)) (columns g)) /\
  (atm_type g = 2%nat -> filter batm bl = []).
Proof.
  intros W Hn ND Hb.
  destruct (blocks_shape g bm names W Hn ND) as [ps [P [_ F]]].
  rewrite F in Hb. inversion Hb; subst bl.
  assert (FA : filter batm (atm_bl g bm ++ map (mk_ug g bm) ps) = atm_bl g bm).
  { rewrite filter_app.
    rewrite (filter_all _ (atm_bl g bm)) by (intros b Hb'; apply (atm_bl_atm g bm b Hb')).
    rewrite (filter_none _ (map (mk_ug g bm) ps)) by (intros b Hb'; apply in_map_iff in Hb' as [p [<- _]]; reflexivity).
    apply app_nil_r. }
  assert (LA : length (atm_names g) = length (atm_bl g bm)).
  { rewrite <- (map_length (apply_map bm)), <- atm_bl_names, map_length. reflexivity. }
  rewrite FA, LA.
  pose proof (wf_layers g W) as NE.
  destruct (layers g) as [|l0 ls] eqn:EL; [congruence|].
  exists l0, ls. split; [reflexivity|].
  split. { rewrite firstn_app, Nat.sub_diag, firstn_all. cbn [firstn]. rewrite app_nil_r. reflexivity. }
  pose proof (wf_atm g W) as HA.
  unfold atm_bl, atm_names. rewrite EL.
  destruct (atm_type g) as [|[|[|n]]] eqn:EA; try lia.
  - cbn [map]. repeat split; try reflexivity; try discriminate.
  - rewrite !map_map. cbn [bvol bname bcentre]. split; [reflexivity|]. split; [discriminate|].
    split; [|discriminate]. intros _. split; [reflexivity|].
    apply map_ext. intro c. unfold block_centre. rewrite EL, str_eqb_refl. rewrite EA. reflexivity.
  - cbn [map]. repeat split; try reflexivity; try discriminate.
Qed.

(** the example geometry (Witness.v): full blocks at the layer centres (-5, -15, -25), truncated
    blocks half way up to the column surface (-7 = (-10 + -4)/2, -16 = (-20 + -12)/2); with one
    atmosphere block per column the atmosphere blocks sit at the column centres *)
Example ex_centres :
  (exists bl, fromgeo_blocks (g_ex 0) bm_ex = Ok bl /\
    map bcentre bl = [None; Some (1 # 2, 1 # 2, -5); Some (3 # 2, 1 # 2, -7);
                      Some (1 # 2, 1 # 2, -15); Some (3 # 2, 1 # 2, -15); Some (3, 1 # 2, -16);
                      Some (1 # 2, 1 # 2, -25); Some (3 # 2, 1 # 2, -25); Some (3, 1 # 2, -25)]) /\
  (exists bl, fromgeo_blocks (g_ex 1) bm_ex = Ok bl /\
    map bcentre (filter batm bl) = [Some (1 # 2, 1 # 2, 0); Some (3 # 2, 1 # 2, 0); Some (3, 1 # 2, 0)] /\
    map bvol (filter batm bl) = [Some (atm_vol (g_ex 1)); Some (atm_vol (g_ex 1)); Some (atm_vol (g_ex 1))]).
Proof.
  split; eexists; (split; [vm_compute; reflexivity|]); [|split]; vm_compute; reflexivity.
Qed.
