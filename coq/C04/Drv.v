(** C04 -- extraction of the executable model for the correspondence.
    One case line = one abstract geometry (+ block map); one result line = the four lists
    of the model: block_name_list, block_connection_name_list, fromgeo_blocks, fromgeo_conns. *)
From Coq Require Import Ascii String List Bool Arith ZArith NArith QArith.
From PTBase Require Import Exn PyStr PyNum PyVal Wire.
From P Require Import FromGeo.
Import ListNotations.
Open Scope char_scope.

(** ** parsing *)
Definition nonempty (l : list str) : list str := filter (fun s => match s with [] => false | _ => true end) l.
(** [PyStr.split_c] with a linear reversal (stdlib [rev] is quadratic once extracted) *)
Fixpoint split_fast_aux (ch : ascii) (cur : str) (s : str) : list str :=
  match s with
  | [] => [rev_append cur []]
  | c :: r => if ceqb c ch then rev_append cur [] :: split_fast_aux ch [] r else split_fast_aux ch (c :: cur) r
  end.
Definition split_fast (ch : ascii) (s : str) : list str := split_fast_aux ch [] s.
Definition items (sep : ascii) (s : str) : list str := nonempty (split_fast sep s).
Definition parse_q (s : str) : Q :=
  match split_c "/" s with
  | [n; d] => Qmake (z_of_str n) (Z.to_pos (z_of_str d))
  | _ => Qmake (z_of_str s) 1
  end.
Definition dummy_col : column := mkColumn [] 0 0 0 0 0 [].
Definition parse_pt (s : str) : Q * Q :=
  match split_c "_" s with [x; y] => (parse_q x, parse_q y) | _ => (0, 0) end.
Definition parse_layer (s : str) : layer :=
  match split_c "," s with
  | [n; b; c; t] => mkLayer (unhex n) (parse_q b) (parse_q c) (parse_q t)
  | _ => mkLayer [] 0 0 0
  end.
Definition parse_column (s : str) : column :=
  match split_c "," s with
  | [n; sf; a; x; y; k; poly] =>
      (* the model computes the column area itself, from the node positions; the area the
         implementation holds ([a]) is not used *)
      let pl := map parse_pt (items "|" poly) in
      mkColumn (unhex n) (parse_q sf) (polygon_area pl) (parse_q x) (parse_q y) (nat_of_str k) pl
  | _ => dummy_col
  end.
Definition parse_hconn (cols : list column) (s : str) : hconn :=
  match split_c "," s with
  | [i; j; ax; ay; bx; by_] =>
      mkHconn (nth (nat_of_str i) cols dummy_col) (nth (nat_of_str j) cols dummy_col)
              (parse_q ax) (parse_q ay) (parse_q bx) (parse_q by_)
  | _ => mkHconn dummy_col dummy_col 0 0 0 0
  end.
Definition parse_pair (s : str) : str * str :=
  match split_c "," s with
  | [a; b] => (unhex a, unhex b)
  | _ => ([], [])
  end.

(** ** printing *)
Fixpoint pos_bits (p : positive) : list bool :=
  match p with xH => [true] | xO q => false :: pos_bits q | xI q => true :: pos_bits q end.
Definition b2n (b : bool) : nat := if b then 1%nat else 0%nat.
(** little-endian bits -> big-endian hex digits (accumulated) *)
Fixpoint hex_acc (bits : list bool) (acc : str) : str :=
  match bits with
  | b0 :: b1 :: b2 :: b3 :: r => hex_acc r (hexdigit (b2n b0 + 2 * b2n b1 + 4 * b2n b2 + 8 * b2n b3) :: acc)
  | [b0; b1; b2] => hexdigit (b2n b0 + 2 * b2n b1 + 4 * b2n b2) :: acc
  | [b0; b1] => hexdigit (b2n b0 + 2 * b2n b1) :: acc
  | [b0] => hexdigit (b2n b0) :: acc
  | [] => acc
  end.
Definition show_pos_hex (p : positive) : str := hex_acc (pos_bits p) [].
Definition show_z_hex (z : Z) : str :=
  match z with Z0 => ["0"] | Zpos p => show_pos_hex p | Zneg p => "-" :: show_pos_hex p end.
Definition show_q (q : Q) : str := let r := nq q in (show_z_hex (Qnum r) ++ "/" :: show_pos_hex (Qden r))%list.
Definition show_oq (o : option Q) : str := match o with Some q => show_q q | None => s2l "None" end.
Definition colon : str := [":"].
Definition show_surd (s : surd) : str := (show_q (coef s) ++ colon ++ show_q (rad s))%list.
Definition show_block (b : block) : str :=
  (hex (bname b) ++ colon ++ show_oq (bvol b) ++ colon ++
   match bcentre b with
   | Some (x, y, z) => show_q x ++ colon ++ show_q y ++ colon ++ show_q z
   | None => s2l "None"
   end ++ colon ++ show_bool (batm b))%list.
Definition show_conn (k : conn) : str :=
  (hex (k1 k) ++ colon ++ hex (k2 k) ++ colon ++ show_nat (kdir k) ++ colon ++ show_surd (kd1 k) ++ colon ++
   show_surd (kd2 k) ++ colon ++ show_surd (karea k) ++ colon ++ show_surd (kcos k))%list.
Fixpoint join_with (sep : ascii) (l : list str) : str :=
  match l with [] => [] | [a] => a | a :: r => (a ++ sep :: join_with sep r)%list end.
Definition show_list {A} (f : A -> str) (r : res (list A)) : str :=
  match r with
  | Ok l => "=" :: join_with ";" (map f l)
  | Raise e => (s2l "RAISE " ++ show_exn e)%list
  end.

(** [fromgeo_conns] with the block list shared (computed once) *)
Definition conns_of (g : geom) (bm : list (str * str)) (rb : res (list block)) : res (list conn) :=
  do bl <- rb; do calls <- fromgeo_conn_calls g bm bl; Ok (fold_left add_connection calls []).
Lemma conns_of_eq g bm : conns_of g bm (fromgeo_blocks g bm) = fromgeo_conns g bm.
Proof. reflexivity. Qed.

Definition run_case (line : str) : str :=
  match split_fast tab line with
  | [k; cv; at_; av; ac; dm; tx; ty; tz; pc; ps; ls; cs; hs; bmap] =>
      let cols := map parse_column (items ";" cs) in
      let g := mkGeom (map parse_layer (items ";" ls)) cols (map (parse_hconn cols) (items ";" hs))
                      (nat_of_str at_) (parse_q av) (parse_q ac) (nat_of_str cv)
                      (str_eqb dm (s2l "1")) (parse_q tx) (parse_q ty) (parse_q tz) (parse_q pc) (parse_q ps) in
      let bm := map parse_pair (items ";" bmap) in
      let rb := fromgeo_blocks g bm in
      (show_list hex (block_name_list g) ++ tab ::
       show_list (fun p => hex (fst p) ++ colon ++ hex (snd p)) (block_connection_name_list g) ++ tab ::
       show_list show_block rb ++ tab ::
       show_list show_conn (conns_of g bm rb) ++ tab ::
       show_list (fun c => match polygon_centroid (cpoly c) with
                           | Some p => show_q (fst p) ++ colon ++ show_q (snd p)
                           | None => s2l "None" end) (Ok cols))%list
  | _ => s2l "BADCASE"
  end.

Require Extraction.
Require Import ExtrOcamlBasic ExtrOcamlString.
Extraction "Drv.ml" run_case.
