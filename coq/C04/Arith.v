(** C04 -- the model's number operations are Q's own, up to [==]. *)
From Coq Require Import List Bool ZArith QArith Qabs Lia.
From P Require Import FromGeo.
Open Scope Q_scope.

Lemma strip2_eq : forall n d,
  (Zpos (fst (strip2 n d)) * Zpos d = Zpos n * Zpos (snd (strip2 n d)))%Z.
Proof.
  induction n as [n IH | n IH |]; destruct d as [d | d |]; cbn [strip2 fst snd]; try reflexivity.
  specialize (IH d). rewrite (Pos2Z.inj_xO d), (Pos2Z.inj_xO n). lia.
Qed.

Lemma nq_eq q : nq q == q.
Proof.
  destruct q as [[|p|p] d]; unfold nq; cbn [Qnum Qden].
  - unfold Qeq; cbn; reflexivity.
  - pose proof (strip2_eq p d) as H. destruct (strip2 p d) as [a b]. cbn [fst snd] in H.
    unfold Qeq; cbn [Qnum Qden]. exact H.
  - pose proof (strip2_eq p d) as H. destruct (strip2 p d) as [a b]. cbn [fst snd] in H.
    unfold Qeq; cbn [Qnum Qden]. rewrite <- (Pos2Z.opp_pos a), <- (Pos2Z.opp_pos p). lia.
Qed.

Lemma qadd_eq a b : qadd a b == a + b.
Proof.
  unfold qadd. rewrite nq_eq. unfold Qeq, Qplus; cbn [Qnum Qden]. ring.
Qed.
Lemma qsub_eq a b : qsub a b == a - b.
Proof. unfold qsub. rewrite qadd_eq. reflexivity. Qed.
Lemma qmul_eq a b : qmul a b == a * b.
Proof. unfold qmul. apply nq_eq. Qed.
Lemma qdiv_eq a b : qdiv a b == a / b.
Proof. unfold qdiv. apply nq_eq. Qed.

Lemma qleb_eq a b : qleb a b = Qle_bool a b.
Proof.
  unfold qleb, Qle_bool. rewrite (Z.mul_comm (Zpos (Qden b))), (Z.mul_comm (Zpos (Qden a))). reflexivity.
Qed.
Lemma qleb_iff a b : qleb a b = true <-> a <= b.
Proof. rewrite qleb_eq. apply Qle_bool_iff. Qed.
Lemma qleb_false a b : qleb a b = false <-> b < a.
Proof.
  split; intro H.
  - apply Qnot_le_lt. intro L. apply qleb_iff in L. congruence.
  - destruct (qleb a b) eqn:E; [|reflexivity]. apply qleb_iff in E. exfalso. exact (Qlt_not_le _ _ H E).
Qed.
Lemma Qgtb_iff a b : Qgtb a b = true <-> b < a.
Proof. unfold Qgtb. rewrite negb_true_iff. apply qleb_false. Qed.
Lemma Qgtb_false a b : Qgtb a b = false <-> a <= b.
Proof. unfold Qgtb. rewrite negb_false_iff. apply qleb_iff. Qed.
Lemma Qltb_iff a b : Qltb a b = true <-> a < b.
Proof. unfold Qltb. rewrite negb_true_iff. apply qleb_false. Qed.
Lemma Qltb_false a b : Qltb a b = false <-> b <= a.
Proof. unfold Qltb. rewrite negb_false_iff. apply qleb_iff. Qed.

(** comparisons respect [==] *)
Lemma qleb_comp a a' b b' : a == a' -> b == b' -> qleb a b = qleb a' b'.
Proof.
  intros Ha Hb. destruct (qleb a' b') eqn:E.
  - apply qleb_iff. rewrite Ha, Hb. apply qleb_iff. exact E.
  - apply qleb_false. rewrite Ha, Hb. apply qleb_false. exact E.
Qed.

Lemma qmin_le_l a b : qmin a b <= a.
Proof. unfold qmin. destruct (qleb a b) eqn:E; [apply Qle_refl|]. apply qleb_false in E. apply Qlt_le_weak. exact E. Qed.
Lemma qmin_le_r a b : qmin a b <= b.
Proof. unfold qmin. destruct (qleb a b) eqn:E; [apply qleb_iff; exact E|apply Qle_refl]. Qed.
Lemma qmin_cases a b : qmin a b = a \/ qmin a b = b.
Proof. unfold qmin. destruct (qleb a b); auto. Qed.
