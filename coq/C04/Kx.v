(** C04 -- the expression / decision trees the translator (tools/props/c04_translate.py)
    regenerates from the Python source on every run, and their evaluation over the numbers of
    the hand model (FromGeo.v): rationals with the model's own operations, surds for norms. *)
From Coq Require Import Ascii String List Bool Arith ZArith QArith Qabs.
From PTBase Require Import Exn PyStr.
From P Require Import FromGeo.
Import ListNotations.

Inductive cmpop := CLt | CLe | CGt | CGe | CEq | CNe | CIn.

Inductive kx :=
| KAtom (s : string)                  (* access path: canonical source text of a look-up *)
| KNum (q : Q) | KInt (z : Z) | KNone
| KNeg (a : kx) | KAdd (a b : kx) | KSub (a b : kx) | KMul (a b : kx) | KDiv (a b : kx)
| KCmp (o : cmpop) (a b : kx) | KAnd (a b : kx) | KOr (a b : kx) | KNot (a : kx)
| KIsNone (a : kx) | KIsNotNone (a : kx) | KIfE (c a b : kx)
| KList (l : list kx) | KIndex (a : kx) (i : nat) | KSlice (a : kx) (i j : nat)
| KDrop (n a : kx)                    (* a[n:] *)
| KCall (f : string) (args : list kx).

Inductive kt := KIf (c : kx) (t e : kt) | KRet (e : kx) | KEmit (e : kx) | KSkip.

Inductive val :=
| VQ (q : Q) | VN (n : nat) | VNone | VB (b : bool) | VS (s : str)
| VSurd (c r : Q)                     (* c * sqrt r *)
| VL (l : list val)
| VT (f : string) (args : list val)   (* t2connection(...) / t2block(...) *)
| VErr.

Inductive outcome := ORet (v : val) | OEmit (v : val) | OSkip | OErr.

Definition world := list (string * val).
Fixpoint lookup (w : world) (s : string) : val :=
  match w with [] => VErr | (k, v) :: r => if String.eqb k s then v else lookup r s end.

(** ** operations *)
Fixpoint qs_of (l : list val) : option (list Q) :=
  match l with
  | [] => Some []
  | VQ q :: r => match qs_of r with Some qs => Some (q :: qs) | None => None end
  | _ => None
  end.
Fixpoint map2q (f : Q -> Q -> Q) (a b : list Q) : option (list Q) :=
  match a, b with
  | [], [] => Some []
  | x :: a', y :: b' => match map2q f a' b' with Some r => Some (f x y :: r) | None => None end
  | _, _ => None
  end.
Definition vq (l : list Q) : val := VL (map VQ l).
Definition vec2 (f : Q -> Q -> Q) (a b : list val) : val :=
  match qs_of a, qs_of b with
  | Some x, Some y => match map2q f x y with Some r => vq r | None => VErr end
  | _, _ => VErr
  end.
(** x1*y1 + x2*y2 + ... associated to the left, as numpy / the hand model add them *)
Definition dotq (a b : list Q) : option Q :=
  match a, b with
  | x :: a', y :: b' =>
      if (length a' =? length b')%nat
      then Some (fold_left (fun acc p => qadd acc (qmul (fst p) (snd p))) (combine a' b') (qmul x y))
      else None
  | _, _ => None
  end.
Definition vdot1 (a b : list val) : val :=
  match qs_of a, qs_of b with
  | Some x, Some y => match dotq x y with Some d => VQ d | None => VErr end
  | _, _ => VErr
  end.

Definition vadd (a b : val) : val :=
  match a, b with
  | VQ x, VQ y => VQ (qadd x y) | VN x, VN y => VN (x + y) | VL x, VL y => vec2 qadd x y | _, _ => VErr
  end.
Definition vsub (a b : val) : val :=
  match a, b with VQ x, VQ y => VQ (qsub x y) | VL x, VL y => vec2 qsub x y | _, _ => VErr end.
Definition vmul (a b : val) : val :=
  match a, b with
  | VQ x, VQ y => VQ (qmul x y)
  | VL x, VQ s => match qs_of x with Some xs => vq (map (fun e => qmul e s) xs) | None => VErr end
  | VSurd c r, VQ h => VSurd (qmul c h) r
  | _, _ => VErr
  end.
Definition vdiv (a b : val) : val :=
  match a, b with
  | VQ x, VQ y => VQ (qdiv x y)
  | VQ x, VSurd c r => VSurd (qdiv x c) (/ r)
  | VL x, VQ s => match qs_of x with Some xs => vq (map (fun e => qdiv e s) xs) | None => VErr end
  | _, _ => VErr
  end.
Definition vneg (a : val) : val := match a with VQ x => VQ (- x) | _ => VErr end.
Definition veqb (a b : val) : val :=
  match a, b with
  | VQ x, VQ y => VB (Qeq_bool x y) | VN x, VN y => VB (x =? y)%nat | VS x, VS y => VB (str_eqb x y)
  | _, _ => VErr
  end.
Definition vin (a b : val) : val :=
  match a, b with
  | VS x, VL l => VB (existsb (fun e => match e with VS y => str_eqb y x | _ => false end) l)
  | _, _ => VErr
  end.
Definition vcmp (o : cmpop) (a b : val) : val :=
  match o with
  | CEq => veqb a b
  | CNe => match veqb a b with VB r => VB (negb r) | _ => VErr end
  | CIn => vin a b
  | _ => match a, b with
         | VQ x, VQ y => VB (match o with CLt => Qltb x y | CLe => qleb x y | CGt => Qgtb x y | _ => qleb y x end)
         | _, _ => VErr
         end
  end.
Definition vand (a b : val) : val := match a, b with VB x, VB y => VB (x && y) | _, _ => VErr end.
Definition vor (a b : val) : val := match a, b with VB x, VB y => VB (x || y) | _, _ => VErr end.
Definition vnot (a : val) : val := match a with VB x => VB (negb x) | _ => VErr end.
Definition visnone (a : val) : val := match a with VNone => VB true | VErr => VErr | _ => VB false end.

Definition vcall (f : string) (args : list val) : val :=
  if String.eqb f "min" then
    match args with
    | [VL l] => match qs_of l with Some (x :: r) => VQ (fold_left qmin r x) | _ => VErr end    (* the first minimal element *)
    | _ => VErr
    end
  else if String.eqb f "norm" then
    match args with
    | [VL l] => match qs_of l with Some xs => match dotq xs xs with Some d => VSurd 1 d | None => VErr end | None => VErr end
    | _ => VErr
    end
  else if String.eqb f "dot" then
    match args with
    | [VL (VL r1 :: rows); VL v] => VL (map (fun row => match row with VL r => vdot1 r v | _ => VErr end) (VL r1 :: rows))
    | [VL a; VL b] => vdot1 a b
    | _ => VErr
    end
  else if String.eqb f "abs" then
    match args with
    | [VQ x] => VQ (qabs x)
    | [VL l] => match qs_of l with Some xs => vq (map qabs xs) | None => VErr end
    | _ => VErr
    end
  else if String.eqb f "argmax" then
    match args with
    | [VL [VQ a; VQ b]] => VN (if qleb b a then 0 else 1)          (* index of the first maximum *)
    | _ => VErr
    end
  else if String.eqb f "t2connection" || String.eqb f "t2block" then VT f args
  else VErr.

Fixpoint ev (w : world) (e : kx) : val :=
  match e with
  | KAtom s => lookup w s
  | KNum q => VQ q
  | KInt z => if (z <? 0)%Z then VErr else VN (Z.to_nat z)
  | KNone => VNone
  | KNeg a => vneg (ev w a)
  | KAdd a b => vadd (ev w a) (ev w b)
  | KSub a b => vsub (ev w a) (ev w b)
  | KMul a b => vmul (ev w a) (ev w b)
  | KDiv a b => vdiv (ev w a) (ev w b)
  | KCmp o a b => vcmp o (ev w a) (ev w b)
  | KAnd a b => vand (ev w a) (ev w b)
  | KOr a b => vor (ev w a) (ev w b)
  | KNot a => vnot (ev w a)
  | KIsNone a => visnone (ev w a)
  | KIsNotNone a => vnot (visnone (ev w a))
  | KIfE c a b => match ev w c with VB true => ev w a | VB false => ev w b | _ => VErr end
  | KList l => VL (map (ev w) l)
  | KIndex a i => match ev w a with VL l => nth i l VErr | _ => VErr end
  | KSlice a i j => match ev w a with VL l => VL (firstn (j - i) (skipn i l)) | _ => VErr end
  | KDrop n a => match ev w n, ev w a with VN k, VL l => VL (skipn k l) | _, _ => VErr end
  | KCall f args => vcall f (map (ev w) args)
  end.

Fixpoint run (w : world) (t : kt) : outcome :=
  match t with
  | KIf c a b => match ev w c with VB true => run w a | VB false => run w b | _ => OErr end
  | KRet e => ORet (ev w e)
  | KEmit e => OEmit (ev w e)
  | KSkip => OSkip
  end.
