(** C04 -- tie T for the loop structure of the conversion: which list each loop of t2grid.fromgeo /
    add_blocks / add_connections (and of the geometry's own name-list functions) runs over, in which
    order the steps are called and what is appended.  The iterated lists are expression trees evaluated
    against the model ([tie_iter_*]); the statements around the translated loop bodies are compared as
    canonical text with the text the hand model FromGeo.v was written against ([exp_glue_*], next to the
    Gallina definition that transcribes each).  Regenerated from the source on every run: iterating
    layers x columns instead of block_name_list, calling the horizontal before the vertical loop,
    appending to another list ... each break an obligation here. *)
From Coq Require Import Ascii String List Bool Arith ZArith QArith.
From PTBase Require Import Exn PyStr.
From P Require Import FromGeo Kx.
From Gen Require Import GenKernels.
Import ListNotations.
Open Scope string_scope.

(** transcribed by: atm_blocks *)
Definition exp_glue_add_atmosphereblocks : list string :=
 ["def add_atmosphereblocks(self, geo, blockmap={}):";
  "    atmosrocktype = self.rocktypelist[0]";
  "    if geo.atmosphere_type == 0:";
  "        atmblockname = geo.block_name(geo.layerlist[0].name, geo.atmosphere_column_name, blockmap)";
  "        centre = None";
  "        self.add_block(t2block(atmblockname, geo.atmosphere_volume, atmosrocktype, centre=centre, atmosphere=True))";
  "    elif geo.atmosphere_type == 1:";
  "        for col in geo.columnlist:";
  "            pass"].

(** transcribed by: fromgeo_block_calls: atmosphere blocks, then underground blocks *)
Definition exp_glue_add_blocks : list string :=
 ["def add_blocks(self, geo, blockmap={}):";
  "    self.add_atmosphereblocks(geo, blockmap)";
  "    self.add_underground_blocks(geo, blockmap)"].

(** transcribed by: fromgeo_conn_calls / layer_conns: per layer of tl (layers g): layercols, vertical, then horizontal *)
Definition exp_glue_add_connections : list string :=
 ["def add_connections(self, geo, blockmap={}):";
  "    tilt = geo.tilt_vector";
  "    for lay in geo.layerlist[1:]:";
  "        layercols = [col for col in geo.columnlist if col.surface > lay.bottom]";
  "        self.add_vertical_layer_connections(geo, lay, layercols, tilt, blockmap)";
  "        self.add_horizontal_layer_connections(geo, lay, layercols, tilt, blockmap)"].

(** transcribed by: layer_conns: mapM (hconn_conn g bm bl l) (filter hconn_in_layer ...) *)
Definition exp_glue_add_horizontal_layer_connections : list string :=
 ["def add_horizontal_layer_connections(self, geo, lay, layercols=[], tilt=None, blockmap={}):";
  "    if tilt is None:";
  "        tilt = np.array([0.0, 0.0, -1.0])";
  "    from math import cos, sin, radians";
  "    layercolset = set(layercols)";
  "    anglerad = radians(geo.permeability_angle)";
  "    c, s = (cos(anglerad), sin(anglerad))";
  "    rotation = np.array([[c, s], [-s, c]])";
  "    for con in [con for con in geo.connectionlist if set(con.column).issubset(layercolset)]:";
  "        pass"].

(** transcribed by: fromgeo_block_calls: mapM (ug_block g bm) (skipn n names) *)
Definition exp_glue_add_underground_blocks : list string :=
 ["def add_underground_blocks(self, geo, blockmap={}):";
  "    for blkname in geo.block_name_list[geo.num_atmosphere_blocks:]:";
  "        pass"].

(** transcribed by: layer_conns: mapM (vconn g bm bl l) (layercols g l) *)
Definition exp_glue_add_vertical_layer_connections : list string :=
 ["def add_vertical_layer_connections(self, geo, lay, layercols=[], tilt=None, blockmap={}):";
  "    if tilt is None:";
  "        tilt = np.array([0.0, 0.0, -1.0])";
  "    for col in layercols:";
  "        pass"].

(** transcribed by: name_list_dmplex *)
Definition exp_glue_block_name_list_dmplex : list string :=
 ["def block_name_list_dmplex(self):";
  "    blocknames = {6: [], 8: []}";
  "    for lay in self.layerlist[1:]:";
  "        for col in [col for col in self.columnlist if col.surface > lay.bottom]:";
  "            blkname = self.block_name(lay.name, col.name)";
  "            num_block_nodes = 2 * col.num_nodes";
  "            try:";
  "                blocknames[num_block_nodes].append(blkname)";
  "            except KeyError:";
  "                raise Exception('Blocks with %d nodes not supported by DMPlex ordering' % num_block_nodes)";
  "    return blocknames[8] + blocknames[6]"].

(** transcribed by: name_list_layer_column *)
Definition exp_glue_block_name_list_layer_column : list string :=
 ["def block_name_list_layer_column(self):";
  "    names = []";
  "    for lay in self.layerlist[1:]:";
  "        for col in [col for col in self.columnlist if col.surface > lay.bottom]:";
  "            blkname = self.block_name(lay.name, col.name)";
  "            names.append(blkname)";
  "    return names"].

(** transcribed by: fromgeo_blocks, fromgeo_conns *)
Definition exp_glue_fromgeo : list string :=
 ["def fromgeo(self, geo, blockmap={}):";
  "    self.empty()";
  "    self.add_rocktype(rocktype())";
  "    self.add_blocks(geo, blockmap)";
  "    self.add_connections(geo, blockmap)";
  "    return self"].

(** transcribed by: block_connection_name_list / mul_layer_conns *)
Definition exp_glue_setup_block_connection_name_index : list string :=
 ["def setup_block_connection_name_index(self):";
  "    self.block_connection_name_list = []";
  "    for ilay, lay in enumerate(self.layerlist[1:]):";
  "        layercols = [col for col in self.columnlist if col.surface > lay.bottom]";
  "        for col in layercols:";
  "            pass";
  "        layercolset = set(layercols)";
  "        cons = [con for con in self.connectionlist if set(con.column).issubset(layercolset)]";
  "        for con in cons:";
  "            pass";
  "    self.block_connection_name_index = dict([(con, i) for i, con in enumerate(self.block_connection_name_list)])"].

(** transcribed by: block_name_list / atm_names *)
Definition exp_glue_setup_block_name_index : list string :=
 ["def setup_block_name_index(self):";
  "    self.block_name_list = []";
  "    if self.num_layers > 0:";
  "        if self.atmosphere_type == 0:";
  "            self.block_name_list.append(self.block_name(self.layerlist[0].name, self.atmosphere_column_name))";
  "        elif self.atmosphere_type == 1:";
  "            for col in self.columnlist:";
  "                self.block_name_list.append(self.block_name(self.layerlist[0].name, col.name))";
  "        if self.block_order is None or self.block_order == 'layer_column':";
  "            self.block_name_list += self.block_name_list_layer_column()";
  "        elif self.block_order == 'dmplex':";
  "            self.block_name_list += self.block_name_list_dmplex()";
  "        else:";
  "            raise Exception('Unrecognised mulgrid block order: %s' % self.block_order)";
  "    self.block_name_index = dict([(blk, i) for i, blk in enumerate(self.block_name_list)])"].

(** transcribed by: tilt_vector_R (Tilt.v), over the reals *)
Definition exp_glue_get_tilt_vector : list string :=
 ["def get_tilt_vector(self):";
  "    from math import sqrt";
  "    gdcx = 0.0 if self.gdcx is None else self.gdcx";
  "    gdcy = 0.0 if self.gdcy is None else self.gdcy";
  "";
  "    def cosfromsin(sinangle):";
  "        return sqrt(1.0 - min(sinangle * sinangle, 1.0))";
  "    sintheta = -gdcy";
  "    costheta = cosfromsin(sintheta)";
  "    try:";
  "        sinphi = gdcx / costheta";
  "        cosphi = cosfromsin(sinphi)";
  "        return np.array([costheta * sinphi, -sintheta, -costheta * cosphi])";
  "    except ZeroDivisionError:";
  "        return np.array([0.0, -sintheta, 0.0])"].

(** keeps block_name_list / block_connection_name_list current (hypothesis: the lists are current) *)
Definition exp_glue_set_atmosphere_type : list string :=
 ["def set_atmosphere_type(self, atmos_type):";
  "    self._atmosphere_type = atmos_type";
  "    self.set_secondary_variables()";
  "    self.setup_block_name_index()";
  "    self.setup_block_connection_name_index()"].

(** keeps block_name_list / block_connection_name_list current (hypothesis: the lists are current) *)
Definition exp_glue_set_convention : list string :=
 ["def set_convention(self, convention):";
  "    self._convention = convention";
  "    self.set_secondary_variables()";
  "    self.setup_block_name_index()";
  "    self.setup_block_connection_name_index()"].

(** keeps block_name_list / block_connection_name_list current (hypothesis: the lists are current) *)
Definition exp_glue_set_block_order : list string :=
 ["def set_block_order(self, block_order):";
  "    self._block_order = block_order";
  "    self.set_block_order_int()";
  "    self.setup_block_name_index()"].

(** keeps block_name_list / block_connection_name_list current (hypothesis: the lists are current) *)
Definition exp_glue_copy_layers_from : list string :=
 ["def copy_layers_from(self, geo):";
  "    self.clear_layers()";
  "    from copy import deepcopy";
  "    for lay in geo.layerlist:";
  "        self.add_layer(deepcopy(lay))";
  "    for col in self.columnlist:";
  "        self.set_column_num_layers(col)";
  "    self.setup_block_name_index()";
  "    self.setup_block_connection_name_index()"].

Theorem tie_glue :
  gen_glue_add_atmosphereblocks = exp_glue_add_atmosphereblocks /\
  gen_glue_add_blocks = exp_glue_add_blocks /\
  gen_glue_add_connections = exp_glue_add_connections /\
  gen_glue_add_horizontal_layer_connections = exp_glue_add_horizontal_layer_connections /\
  gen_glue_add_underground_blocks = exp_glue_add_underground_blocks /\
  gen_glue_add_vertical_layer_connections = exp_glue_add_vertical_layer_connections /\
  gen_glue_block_name_list_dmplex = exp_glue_block_name_list_dmplex /\
  gen_glue_block_name_list_layer_column = exp_glue_block_name_list_layer_column /\
  gen_glue_get_tilt_vector = exp_glue_get_tilt_vector /\
  gen_glue_set_atmosphere_type = exp_glue_set_atmosphere_type /\
  gen_glue_set_convention = exp_glue_set_convention /\
  gen_glue_set_block_order = exp_glue_set_block_order /\
  gen_glue_copy_layers_from = exp_glue_copy_layers_from /\
  gen_glue_fromgeo = exp_glue_fromgeo /\
  gen_glue_setup_block_connection_name_index = exp_glue_setup_block_connection_name_index /\
  gen_glue_setup_block_name_index = exp_glue_setup_block_name_index.
Proof. repeat split; reflexivity. Qed.

(** ** the iterated lists *)
Lemma skipn_map {A B} (f : A -> B) n l : skipn n (map f l) = map f (skipn n l).
Proof. revert l; induction n as [|n IH]; intros [|a l]; cbn; try reflexivity. apply IH. Qed.

(** add_underground_blocks runs over geo.block_name_list[geo.num_atmosphere_blocks:] -- the model's
    [skipn n names] *)
Theorem tie_iter_underground_blocks names n :
  ev [("geo.block_name_list", VL (map VS names)); ("geo.num_atmosphere_blocks", VN n)] gen_iter_underground_blocks
  = VL (map VS (skipn n names)).
Proof. cbn. rewrite skipn_map. reflexivity. Qed.

(** add_connections and the geometry's two name-list functions run over layerlist[1:] -- [tl (layers g)] *)
Theorem tie_iter_layers (ls : list layer) :
  ev [("geo.layerlist", VL (map (fun l => VS (lname l)) ls))] gen_iter_add_connections = VL (map (fun l => VS (lname l)) (tl ls)) /\
  ev [("self.layerlist", VL (map (fun l => VS (lname l)) ls))] gen_iter_name_list_layers = VL (map (fun l => VS (lname l)) (tl ls)) /\
  gen_iter_connection_names_layers = KAtom "enumerate(self.layerlist[1:])".
Proof. repeat split; cbn; destruct ls; reflexivity. Qed.

(** the atmosphere blocks run over geo.columnlist, the vertical connections over the layer's columns
    handed over by add_connections, the horizontal ones over the connections inside that column set *)
Theorem tie_iter_columns :
  gen_iter_atmosphere_blocks = KAtom "geo.columnlist" /\ gen_iter_vertical = KAtom "layercols" /\
  gen_iter_horizontal = KAtom "[con for con in geo.connectionlist if set(con.column).issubset(layercolset)]".
Proof. repeat split; reflexivity. Qed.
