(** C04 -- property theorems only.  Model: FromGeo.v (exact rationals; a quantity the code
    computes with a square root is carried as a [surd] coef * sqrt(rad)).  [wf], [layers_wf],
    [edges_wf]: NamesAgree.v, Volume.v, ConnGeom.v.  Satisfiability of every hypothesis: the
    example_* theorems at the end (Witness.v). *)
From Coq Require Import Ascii String List Bool ZArith QArith Qabs Qminmax Permutation.
From PTBase Require Import Exn PyStr.
From P Require Import FromGeo Arith Lists NamesAgree Volume Area ConnGeom ConnNoDup Decode Witness Centre.
Import ListNotations.
Open Scope Q_scope.

(** ** the model's arithmetic is Q's *)
Theorem model_arithmetic_exact : forall a b,
  qadd a b == a + b /\ qsub a b == a - b /\ qmul a b == a * b /\ qdiv a b == a / b /\
  (qleb a b = true <-> a <= b) /\ qmin a b == Qmin a b.
Proof. exact model_arith_lemma. Qed.
Print Assumptions model_arithmetic_exact.

(** ** blocks and connections are the announced ones, in order and orientation *)
Theorem fromgeo_blocks_eq_name_list : forall g bm names,
  wf g -> block_name_list g = Ok names -> NoDup (map (apply_map bm) names) ->
  exists bl, fromgeo_blocks g bm = Ok bl /\ map bname bl = map (apply_map bm) names.
Proof. exact fromgeo_blocks_names. Qed.
Print Assumptions fromgeo_blocks_eq_name_list.

Theorem fromgeo_blocks_eq_name_list_no_map : forall g names,
  wf g -> block_name_list g = Ok names -> NoDup names ->
  exists bl, fromgeo_blocks g [] = Ok bl /\ map bname bl = names.
Proof. exact fromgeo_blocks_names_nomap. Qed.
Print Assumptions fromgeo_blocks_eq_name_list_no_map.

(** the rock blocks are, up to the announced order, the (layer, column) pairs with the column
    surface above the layer bottom, each carrying the volume and centre of its own pair *)
Theorem fromgeo_blocks_are_the_pairs_below_surface : forall g bm names,
  wf g -> block_name_list g = Ok names -> NoDup (map (apply_map bm) names) ->
  exists ps, Permutation ps (ug_pairs g) /\ names = (atm_names g ++ map (bnp g) ps)%list /\
             fromgeo_blocks g bm = Ok (atm_bl g bm ++ map (mk_ug g bm) ps)%list.
Proof. exact blocks_shape. Qed.
Print Assumptions fromgeo_blocks_are_the_pairs_below_surface.

Theorem pairs_below_surface : forall g l c,
  In (l, c) (ug_pairs g) <-> In l (tl (layers g)) /\ In c (columns g) /\ lbot l < csurf c.
Proof. exact in_ug_pairs. Qed.
Print Assumptions pairs_below_surface.

Theorem fromgeo_conns_eq_name_list : forall g bm names,
  wf g -> block_name_list g = Ok names -> NoDup (map (apply_map bm) names) ->
  exists cnl, block_connection_name_list g = Ok cnl /\
    (NoDup (map (map_pair bm) cnl) ->
     exists cs, fromgeo_conns g bm = Ok cs /\ map ckey cs = map (map_pair bm) cnl).
Proof. exact fromgeo_conns_names. Qed.
Print Assumptions fromgeo_conns_eq_name_list.

Theorem fromgeo_conns_eq_name_list_no_map : forall g names,
  wf g -> block_name_list g = Ok names -> NoDup names ->
  exists cnl, block_connection_name_list g = Ok cnl /\
    (NoDup cnl -> exists cs, fromgeo_conns g [] = Ok cs /\ map ckey cs = cnl).
Proof. exact fromgeo_conns_names_nomap. Qed.
Print Assumptions fromgeo_conns_eq_name_list_no_map.

(** the distinctness hypotheses are exactly what is needed: a grid never holds two blocks of one
    name nor two connections of one key *)
Theorem fromgeo_blocks_eq_name_list_iff : forall g bm names,
  wf g -> block_name_list g = Ok names ->
  (NoDup (map (apply_map bm) names) <->
   exists bl, fromgeo_blocks g bm = Ok bl /\ map bname bl = map (apply_map bm) names).
Proof. exact fromgeo_blocks_names_iff. Qed.
Print Assumptions fromgeo_blocks_eq_name_list_iff.

Theorem fromgeo_conns_eq_name_list_iff : forall g bm names cnl,
  wf g -> block_name_list g = Ok names -> NoDup (map (apply_map bm) names) ->
  block_connection_name_list g = Ok cnl ->
  (NoDup (map (map_pair bm) cnl) <->
   exists cs, fromgeo_conns g bm = Ok cs /\ map ckey cs = map (map_pair bm) cnl).
Proof. exact fromgeo_conns_names_iff. Qed.
Print Assumptions fromgeo_conns_eq_name_list_iff.

(** ... and the distinctness of the announced connection names need not be assumed: it follows from
    the distinct block names when no two column connections join the same ordered pair of columns *)
Theorem fromgeo_conns_eq_name_list_derived : forall g bm names,
  wf g -> hpairs_distinct g -> block_name_list g = Ok names -> NoDup (map (apply_map bm) names) ->
  exists cnl cs, block_connection_name_list g = Ok cnl /\ fromgeo_conns g bm = Ok cs /\
                 map ckey cs = map (map_pair bm) cnl /\ NoDup (map (map_pair bm) cnl).
Proof. exact fromgeo_conns_names_derived. Qed.
Print Assumptions fromgeo_conns_eq_name_list_derived.

(** the [names_decode] clause of [wf] follows from name lengths that fit the convention and
    [fix_blockname] leaving the composed names alone (third character not a digit) *)
Theorem names_decode_sufficient : forall g,
  (convention g <= 3)%nat ->
  (forall l, In l (tl (layers g)) -> length (lname l) = lay_len (convention g)) ->
  (forall c, In c (columns g) -> length (cname c) = col_len (convention g)) ->
  (forall l c, In l (tl (layers g)) -> In c (columns g) ->
     fix_blockname (raw_name (convention g) (lname l) (cname c)) = raw_name (convention g) (lname l) (cname c)) ->
  names_decode g.
Proof. exact names_decode_suff. Qed.
Print Assumptions names_decode_sufficient.

Theorem fix_blockname_untouched : forall n,
  is_digit (nth 2 n " "%char) = false -> fix_blockname n = n.
Proof. exact fix_blockname_id. Qed.
Print Assumptions fix_blockname_untouched.

(** ** volumes *)
(** the code's case analysis of the block top is the specified one *)
Theorem block_top_is_surface_or_layer_top : forall g,
  wf g -> layers_wf g -> forall i l c, nth_error (layers g) (S i) = Some l -> lbot l < csurf c ->
  exists s, block_surface g l c = Some s /\ s == block_top i l c.
Proof. exact block_surface_spec. Qed.
Print Assumptions block_top_is_surface_or_layer_top.

Theorem block_volume_formula : forall g,
  wf g -> layers_wf g -> forall bm names bl, block_name_list g = Ok names -> NoDup (map (apply_map bm) names) ->
  fromgeo_blocks g bm = Ok bl ->
  Forall (fun b => batm b = false ->
            exists i l c v, nth_error (layers g) (S i) = Some l /\ In c (columns g) /\ lbot l < csurf c /\
                            bname b = block_name (convention g) (lname l) (cname c) bm /\
                            bvol b = Some v /\ v == carea c * block_height i l c) bl.
Proof. exact block_volumes_lemma. Qed.
Print Assumptions block_volume_formula.

Theorem column_volume_telescopes : forall g,
  wf g -> layers_wf g -> forall c, tl (layers g) <> [] -> bottom_of g < csurf c ->
  col_volume g c == carea c * (csurf c - bottom_of g).
Proof. exact column_volume_telescopes_lemma. Qed.
Print Assumptions column_volume_telescopes.

Theorem total_rock_volume : forall g,
  wf g -> layers_wf g -> forall bm names bl, tl (layers g) <> [] -> (forall c, In c (columns g) -> bottom_of g < csurf c) ->
  block_name_list g = Ok names -> NoDup (map (apply_map bm) names) ->
  fromgeo_blocks g bm = Ok bl ->
  rock_volume bl == qsum (map (fun c => carea c * (csurf c - bottom_of g)) (columns g)).
Proof. exact total_volume_lemma. Qed.
Print Assumptions total_rock_volume.

(** ** ... with the column area computed from the node coordinates by the modelled
    geometry.polygon_area ([areas_from_nodes]: column.get_area stores exactly that) *)
Theorem polygon_area_is_half_shoelace : forall l, polygon_area l == shoelace l / 2.
Proof. exact polygon_area_shoelace_lemma. Qed.
Print Assumptions polygon_area_is_half_shoelace.

Theorem block_volume_formula_from_nodes : forall g,
  wf g -> layers_wf g -> areas_from_nodes g -> forall bm names bl,
  block_name_list g = Ok names -> NoDup (map (apply_map bm) names) -> fromgeo_blocks g bm = Ok bl ->
  Forall (fun b => batm b = false ->
            exists i l c v, nth_error (layers g) (S i) = Some l /\ In c (columns g) /\ lbot l < csurf c /\
                            bname b = block_name (convention g) (lname l) (cname c) bm /\
                            bvol b = Some v /\ v == shoelace (cpoly c) / 2 * block_height i l c) bl.
Proof. exact block_volume_from_nodes_lemma. Qed.
Print Assumptions block_volume_formula_from_nodes.

Theorem total_rock_volume_from_nodes : forall g,
  wf g -> layers_wf g -> areas_from_nodes g -> forall bm names bl,
  tl (layers g) <> [] -> (forall c, In c (columns g) -> bottom_of g < csurf c) ->
  block_name_list g = Ok names -> NoDup (map (apply_map bm) names) -> fromgeo_blocks g bm = Ok bl ->
  rock_volume bl == qsum (map (fun c => shoelace (cpoly c) / 2 * (csurf c - bottom_of g)) (columns g)).
Proof. exact total_volume_from_nodes_lemma. Qed.
Print Assumptions total_rock_volume_from_nodes.

(** ** block centres (t2block.centre) and the atmosphere blocks *)
Theorem block_centre_formula : forall g bm names bl,
  wf g -> block_name_list g = Ok names -> NoDup (map (apply_map bm) names) ->
  fromgeo_blocks g bm = Ok bl ->
  Forall (fun b => batm b = false ->
            exists i l c z, nth_error (layers g) (S i) = Some l /\ In c (columns g) /\ lbot l < csurf c /\
                            bname b = block_name (convention g) (lname l) (cname c) bm /\
                            bcentre b = Some (ccx c, ccy c, z) /\ z == zcentre l c) bl.
Proof. exact block_centres_lemma. Qed.
Print Assumptions block_centre_formula.

Theorem block_centre_elevation_cases : forall i l c,
  (ltop l < csurf c -> zcentre l c == lcen l) /\
  (csurf c <= ltop l -> block_top i l c == csurf c /\ zcentre l c == (lbot l + block_top i l c) / 2).
Proof. exact zcentre_cases_lemma. Qed.
Print Assumptions block_centre_elevation_cases.

Theorem truncated_block_centre_inside_block : forall i l c,
  lbot l < csurf c -> csurf c <= ltop l -> lbot l < zcentre l c /\ zcentre l c < block_top i l c.
Proof. exact zcentre_inside_lemma. Qed.
Print Assumptions truncated_block_centre_inside_block.

Theorem atmosphere_blocks_by_type : forall g bm names bl,
  wf g -> block_name_list g = Ok names -> NoDup (map (apply_map bm) names) ->
  fromgeo_blocks g bm = Ok bl ->
  exists l0 ls, layers g = l0 :: ls /\
  filter batm bl = firstn (length (atm_names g)) bl /\
  map bvol (filter batm bl) = map (fun _ => Some (atm_vol g)) (atm_names g) /\
  (atm_type g = 0%nat ->
     map bname (filter batm bl) = [block_name (convention g) (lname l0) (atm_colname (convention g)) bm] /\
     map bcentre (filter batm bl) = [None]) /\
  (atm_type g = 1%nat ->
     map bname (filter batm bl) = map (fun c => block_name (convention g) (lname l0) (cname c) bm) (columns g) /\
     map bcentre (filter batm bl) = map (fun c => Some (ccx c, ccy c, lcen l0)) (columns g)) /\
  (atm_type g = 2%nat -> filter batm bl = []).
Proof. exact atm_blocks_lemma. Qed.
Print Assumptions atmosphere_blocks_by_type.

(** ** connections *)
Theorem connections_are_vertical_or_horizontal : forall g bm names cs,
  wf g -> layers_wf g -> edges_wf g ->
  block_name_list g = Ok names -> NoDup (map (apply_map bm) names) ->
  fromgeo_conns g bm = Ok cs ->
  Forall (fun k => vertical_spec g bm k \/ horizontal_spec g bm k) cs.
Proof. exact conns_geometry_lemma. Qed.
Print Assumptions connections_are_vertical_or_horizontal.

Theorem vertical_conn_area_dircos : forall g bm i l c k,
  vertical_spec_at g bm i l c k ->
  karea k = rat (carea c) /\ kdir k = 3%nat /\ (untilted g -> rad (kcos k) = 1 /\ coef (kcos k) == -1).
Proof. exact vertical_area_dircos_lemma. Qed.
Print Assumptions vertical_conn_area_dircos.

Theorem vertical_distances_sum : forall g bm i l c k,
  vertical_spec_at g bm i l c k -> is_top i l c = false ->
  exists al d1 d2, nth_error (layers g) i = Some al /\ nth_error (layers g) (S i) = Some l /\
    k1 k = block_name (convention g) (lname l) (cname c) bm /\
    k2 k = block_name (convention g) (lname al) (cname c) bm /\
    kd1 k = rat d1 /\ kd2 k = rat d2 /\ d1 + d2 == zcentre al c - zcentre l c.
Proof. exact vertical_interior_lemma. Qed.
Print Assumptions vertical_distances_sum.

Theorem vertical_atmosphere_distances : forall g bm i l c k,
  vertical_spec_at g bm i l c k -> is_top i l c = true ->
  exists l0 d1, nth_error (layers g) 0 = Some l0 /\
    k1 k = block_name (convention g) (lname l) (cname c) bm /\ k2 k = atm_block_name g bm l0 c /\
    kd1 k = rat d1 /\ d1 == csurf c - zcentre l c /\ kd2 k = rat (atm_conn g).
Proof. exact vertical_atmosphere_lemma. Qed.
Print Assumptions vertical_atmosphere_distances.

Theorem horiz_conn_exact : forall g bm i l h k,
  horizontal_spec_at g bm i l h k ->
  rad (karea k) == edge2 h /\
  coef (karea k) == Qmin (block_height i l (hcolA h)) (block_height i l (hcolB h)) /\
  coef (kd1 k) == 1 /\ rad (kd1 k) * edge2 h == cross h (ccx (hcolA h)) (ccy (hcolA h)) ^ 2 /\
  coef (kd2 k) == 1 /\ rad (kd2 k) * edge2 h == cross h (ccx (hcolB h)) (ccy (hcolB h)) ^ 2.
Proof. exact horizontal_area_distance_lemma. Qed.
Print Assumptions horiz_conn_exact.

Theorem perpendicular_distance_closed_form : forall h cx cy d2,
  perp_sq h cx cy d2 -> d2 * edge2 h == cross h cx cy ^ 2.
Proof. exact perp_sq_closed. Qed.
Print Assumptions perpendicular_distance_closed_form.

Theorem horiz_dircos_sign : forall g bm i l h k,
  horizontal_spec_at g bm i l h k -> untilted g ->
  coef (kcos k) == zcentre l (hcolA h) - zcentre l (hcolB h) /\
  (coef (kcos k) == 0 <-> zcentre l (hcolA h) == zcentre l (hcolB h)) /\
  (~ (ccx (hcolA h) == ccx (hcolB h) /\ ccy (hcolA h) == ccy (hcolB h)) -> 0 < rad (kcos k)).
Proof. exact horizontal_dircos_lemma. Qed.
Print Assumptions horiz_dircos_sign.

Theorem horiz_dircos_level_and_truncated : forall g bm i l h k,
  horizontal_spec_at g bm i l h k -> untilted g ->
  (ltop l < csurf (hcolA h) -> ltop l < csurf (hcolB h) -> coef (kcos k) == 0) /\
  (lcen l == (1 # 2) * (lbot l + ltop l) ->
   csurf (hcolA h) < ltop l -> ltop l <= csurf (hcolB h) -> ~ coef (kcos k) == 0) /\
  (lcen l == (1 # 2) * (lbot l + ltop l) ->
   csurf (hcolB h) < ltop l -> ltop l <= csurf (hcolA h) -> ~ coef (kcos k) == 0) /\
  (csurf (hcolA h) <= ltop l -> csurf (hcolB h) <= ltop l ->
   (coef (kcos k) == 0 <-> csurf (hcolA h) == csurf (hcolB h))).
Proof. exact horizontal_dircos_cases_lemma. Qed.
Print Assumptions horiz_dircos_level_and_truncated.

Theorem horiz_conn_permeability_direction : forall g bm i l h k,
  horizontal_spec_at g bm i l h k ->
  let dx := ccx (hcolB h) - ccx (hcolA h) in
  let dy := ccy (hcolB h) - ccy (hcolA h) in
  let d2x := pcos g * dx + psin g * dy in
  let d2y := - psin g * dx + pcos g * dy in
  (Qabs d2y <= Qabs d2x -> kdir k = 1%nat) /\ (Qabs d2x < Qabs d2y -> kdir k = 2%nat).
Proof. exact horizontal_direction_lemma. Qed.
Print Assumptions horiz_conn_permeability_direction.

(** ** the hypotheses are satisfiable: a concrete geometry *)
Theorem example_geometry_meets_hypotheses : forall atm, (atm <= 2)%nat ->
  wf (g_ex atm) /\ layers_wf (g_ex atm) /\ edges_wf (g_ex atm) /\ untilted (g_ex atm) /\
  tl (layers (g_ex atm)) <> [] /\ (forall c, In c (columns (g_ex atm)) -> bottom_of (g_ex atm) < csurf c).
Proof. exact ex_hyps. Qed.
Print Assumptions example_geometry_meets_hypotheses.

Theorem example_areas_from_nodes : forall atm, areas_from_nodes (g_ex atm).
Proof. exact ex_areas. Qed.
Print Assumptions example_areas_from_nodes.

Theorem example_column_pairs_distinct : forall atm, hpairs_distinct (g_ex atm).
Proof. exact ex_hpairs. Qed.
Print Assumptions example_column_pairs_distinct.

Theorem example_names_nodup :
  block_name_list (g_ex 0) = Ok names_ex0 /\ NoDup (map (apply_map bm_ex) names_ex0) /\
  map (apply_map bm_ex) names_ex0 <> names_ex0 /\
  block_connection_name_list (g_ex 0) = Ok cnl_ex0 /\ NoDup (map (map_pair bm_ex) cnl_ex0).
Proof. exact ex_names_all. Qed.
Print Assumptions example_names_nodup.

Theorem example_grid :
  (exists bl, fromgeo_blocks (g_ex 0) bm_ex = Ok bl /\
    map bname bl = map (apply_map bm_ex) names_ex0 /\
    map bvol bl = [Some 1; Some 13; Some 6; Some 10; Some 10; Some 16; Some 10; Some 10; Some 20] /\
    rock_volume bl == 1 * (3 - -30) + 1 * (-4 - -30) + 2 * (-12 - -30)) /\
  (exists cs, fromgeo_conns (g_ex 0) bm_ex = Ok cs /\ map ckey cs = map (map_pair bm_ex) cnl_ex0 /\
    map (fun k => Qeq_bool (coef (kcos k)) 0) cs =
      [false; false; false;  false; false; false; true; false;  false; false; false; true; true]).
Proof. exact (conj ex_blocks ex_conns). Qed.
Print Assumptions example_grid.

Theorem example_other_atmosphere_types :
  (exists names cnl bl cs, block_name_list (g_ex 1) = Ok names /\ NoDup (map (apply_map bm_ex) names) /\
    block_connection_name_list (g_ex 1) = Ok cnl /\ NoDup (map (map_pair bm_ex) cnl) /\
    fromgeo_blocks (g_ex 1) bm_ex = Ok bl /\ fromgeo_conns (g_ex 1) bm_ex = Ok cs /\
    length bl = 11%nat /\ length cs = 13%nat) /\
  (exists names cnl bl cs, block_name_list (g_ex 2) = Ok names /\ NoDup (map (apply_map bm_ex) names) /\
    block_connection_name_list (g_ex 2) = Ok cnl /\ NoDup (map (map_pair bm_ex) cnl) /\
    fromgeo_blocks (g_ex 2) bm_ex = Ok bl /\ fromgeo_conns (g_ex 2) bm_ex = Ok cs /\
    length bl = 8%nat /\ length cs = 10%nat).
Proof. exact (conj ex_atm1 ex_atm2). Qed.
Print Assumptions example_other_atmosphere_types.

Theorem example_block_centres :
  (exists bl, fromgeo_blocks (g_ex 0) bm_ex = Ok bl /\
    map bcentre bl = [None; Some (1 # 2, 1 # 2, -5); Some (3 # 2, 1 # 2, -7);
                      Some (1 # 2, 1 # 2, -15); Some (3 # 2, 1 # 2, -15); Some (3, 1 # 2, -16);
                      Some (1 # 2, 1 # 2, -25); Some (3 # 2, 1 # 2, -25); Some (3, 1 # 2, -25)]) /\
  (exists bl, fromgeo_blocks (g_ex 1) bm_ex = Ok bl /\
    map bcentre (filter batm bl) = [Some (1 # 2, 1 # 2, 0); Some (3 # 2, 1 # 2, 0); Some (3, 1 # 2, 0)] /\
    map bvol (filter batm bl) = [Some (atm_vol (g_ex 1)); Some (atm_vol (g_ex 1)); Some (atm_vol (g_ex 1))]).
Proof. exact ex_centres. Qed.
Print Assumptions example_block_centres.
