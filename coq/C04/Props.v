(** C04 -- property theorems only (stub while the proofs are being written). *)
From Coq Require Import List Bool ZArith QArith.
From P Require Import FromGeo Arith.
Open Scope Q_scope.
Theorem nq_preserves_value : forall q, nq q == q.
Proof. exact nq_eq. Qed.
Print Assumptions nq_preserves_value.
