(** C04 -- the same statements read in the real numbers: a [surd] coef * sqrt(rad) denotes the
    real number [surdR]; lengths, perpendicular distances and cosines are then the usual
    expressions with square roots.  (Uses the axioms of Coq's classical real numbers.) *)
From Coq Require Import List QArith Qminmax Qreals Reals Lra.
From PTBase Require Import Exn PyStr.
From P Require Import FromGeo Arith Lists NamesAgree Volume ConnGeom.
Open Scope R_scope.

Definition surdR (s : surd) : R := Q2R (coef s) * sqrt (Q2R (rad s)).

Lemma Q2R_1 : Q2R 1 = 1.
Proof. unfold Q2R. simpl. lra. Qed.
Lemma Q2R_0 : Q2R 0 = 0.
Proof. unfold Q2R. simpl. lra. Qed.

Lemma surdR_rat q : surdR (rat q) = Q2R q.
Proof. unfold surdR, rat. cbn [coef rad]. rewrite Q2R_1, sqrt_1. lra. Qed.

Lemma Q2R_Qmin a b : Q2R (Qmin a b) = Rmin (Q2R a) (Q2R b).
Proof.
  destruct (Q.min_spec a b) as [[H E]|[H E]]; rewrite (Qeq_eqR _ _ E).
  - symmetry. apply Rmin_left. apply Qle_Rle. apply Qlt_le_weak. exact H.
  - symmetry. apply Rmin_right. apply Qle_Rle. exact H.
Qed.

Lemma Q2R_sq q : Q2R (q ^ 2) = (Q2R q)².
Proof. simpl. rewrite Q2R_mult. reflexivity. Qed.

(** length of the shared edge *)
Definition edge_len (h : hconn) : R :=
  sqrt ((Q2R (hax h) - Q2R (hbx h))² + (Q2R (hay h) - Q2R (hby h))²).
Lemma Q2R_edge2 h : Q2R (edge2 h) = (Q2R (hax h) - Q2R (hbx h))² + (Q2R (hay h) - Q2R (hby h))².
Proof. unfold edge2. rewrite Q2R_plus, !Q2R_sq, !Q2R_minus. reflexivity. Qed.
Lemma edge2_nonneg h : 0 <= Q2R (edge2 h).
Proof. rewrite Q2R_edge2. apply Rplus_le_le_0_compat; apply Rle_0_sqr. Qed.
Lemma edge_len_sqrt h : edge_len h = sqrt (Q2R (edge2 h)).
Proof. unfold edge_len. rewrite Q2R_edge2. reflexivity. Qed.
Lemma edge2_pos h : ~ (edge2 h == 0)%Q -> 0 < Q2R (edge2 h).
Proof.
  intro NZ. destruct (edge2_nonneg h) as [L|E]; [exact L|]. exfalso. apply NZ.
  apply eqR_Qeq. rewrite Q2R_0. symmetry. exact E.
Qed.

(** horizontal connection: area = edge length x lower of the two block heights *)
Lemma horizontal_area_R g bm i l h k :
  horizontal_spec_at g bm i l h k ->
  surdR (karea k) = edge_len h * Rmin (Q2R (block_height i l (hcolA h))) (Q2R (block_height i l (hcolB h))).
Proof.
  intro H. destruct (horizontal_area_distance_lemma g bm i l h k H) as [Hr [Hc _]].
  unfold surdR. rewrite (Qeq_eqR _ _ Hr), (Qeq_eqR _ _ Hc), Q2R_Qmin, edge_len_sqrt. ring.
Qed.

(** the distance carried by a connection whose squared value [d2] satisfies the closed form *)
Lemma perp_distance_R h cx cy d2 :
  ~ (edge2 h == 0)%Q -> (d2 * edge2 h == cross h cx cy ^ 2)%Q ->
  sqrt (Q2R d2) = Rabs (Q2R (cross h cx cy)) / edge_len h.
Proof.
  intros NZ E. pose proof (edge2_pos h NZ) as P.
  apply Qeq_eqR in E. rewrite Q2R_mult, Q2R_sq in E.
  assert (D : Q2R d2 = (Q2R (cross h cx cy))² / Q2R (edge2 h)).
  { field_simplify_eq; [|lra]. rewrite <- E. ring. }
  rewrite D, edge_len_sqrt. rewrite sqrt_div_alt by exact P. rewrite sqrt_Rsqr_abs. reflexivity.
Qed.

(** horizontal connection: each distance is |cross| / |edge|, the perpendicular distance of the
    column centre from the line through the edge *)
Lemma horizontal_distances_R g bm i l h k :
  horizontal_spec_at g bm i l h k -> ~ (edge2 h == 0)%Q ->
  surdR (kd1 k) = Rabs (Q2R (cross h (ccx (hcolA h)) (ccy (hcolA h)))) / edge_len h /\
  surdR (kd2 k) = Rabs (Q2R (cross h (ccx (hcolB h)) (ccy (hcolB h)))) / edge_len h.
Proof.
  intros H NZ. destruct (horizontal_area_distance_lemma g bm i l h k H) as [_ [_ [C1 [P1 [C2 P2]]]]].
  unfold surdR. rewrite (Qeq_eqR _ _ C1), (Qeq_eqR _ _ C2), Q2R_1.
  rewrite (perp_distance_R h _ _ _ NZ P1), (perp_distance_R h _ _ _ NZ P2). split; ring.
Qed.

(** horizontal connection: the gravity cosine is (d . tilt) / |d| *)
Lemma horizontal_dircos_R g bm i l h k :
  horizontal_spec_at g bm i l h k ->
  let dx := (ccx (hcolB h) - ccx (hcolA h))%Q in
  let dy := (ccy (hcolB h) - ccy (hcolA h))%Q in
  let dz := (zcentre l (hcolB h) - zcentre l (hcolA h))%Q in
  ~ (dx ^ 2 + dy ^ 2 + dz ^ 2 == 0)%Q ->
  surdR (kcos k) =
    (Q2R dx * Q2R (tiltx g) + Q2R dy * Q2R (tilty g) + Q2R dz * Q2R (tiltz g)) /
    sqrt ((Q2R dx)² + (Q2R dy)² + (Q2R dz)²).
Proof.
  intros H dx dy dz NZ. unfold horizontal_spec_at in H.
  destruct H as [_ [_ [_ [_ [_ [_ [_ [_ [_ [_ [_ [_ [_ [Hc [Hr _]]]]]]]]]]]]]]]. cbn zeta in Hc, Hr.
  fold dx in Hc, Hr. fold dy in Hc, Hr. fold dz in Hc, Hr.
  unfold surdR. rewrite (Qeq_eqR _ _ Hc), (Qeq_eqR _ _ Hr).
  rewrite Q2R_inv by exact NZ. rewrite !Q2R_plus, !Q2R_mult, !Q2R_sq.
  assert (P : 0 < (Q2R dx)² + (Q2R dy)² + (Q2R dz)²).
  { assert (N : 0 <= (Q2R dx)² + (Q2R dy)² + (Q2R dz)²).
    { repeat apply Rplus_le_le_0_compat; apply Rle_0_sqr. }
    destruct N as [L|E]; [exact L|]. exfalso. apply NZ. apply eqR_Qeq.
    rewrite Q2R_0, !Q2R_plus, !Q2R_sq. symmetry. exact E. }
  rewrite sqrt_inv. unfold Rdiv. reflexivity.
Qed.

(** vertical connection: column area, cosine -1 when untilted, and the distances as numbers *)
Lemma vertical_R g bm i l c k :
  vertical_spec_at g bm i l c k ->
  surdR (karea k) = Q2R (carea c) /\
  (untilted g -> surdR (kcos k) = -1) /\
  (is_top i l c = false -> exists al, nth_error (layers g) i = Some al /\
     surdR (kd1 k) + surdR (kd2 k) = Q2R (zcentre al c) - Q2R (zcentre l c)) /\
  (is_top i l c = true ->
     surdR (kd1 k) = Q2R (csurf c) - Q2R (zcentre l c) /\ surdR (kd2 k) = Q2R (atm_conn g)).
Proof.
  intro H. split; [|split; [|split]].
  - destruct (vertical_area_dircos_lemma g bm i l c k H) as [Ha _]. rewrite Ha. apply surdR_rat.
  - intros [_ [_ Tz]]. destruct H as [d1 [d2 [_ [_ [_ [_ [_ [_ [Hc _]]]]]]]]]. rewrite Hc, surdR_rat.
    rewrite (Qeq_eqR _ _ Tz). unfold Q2R. simpl. lra.
  - intro T. destruct (vertical_interior_lemma g bm i l c k H T) as [al [d1 [d2 [Hal [_ [_ [_ [E1 [E2 S]]]]]]]]].
    exists al. split; [exact Hal|]. rewrite E1, E2, !surdR_rat, <- Q2R_plus, (Qeq_eqR _ _ S), Q2R_minus. reflexivity.
  - intro T. destruct (vertical_atmosphere_lemma g bm i l c k H T) as [l0 [d1 [_ [_ [_ [E1 [S E2]]]]]]].
    rewrite E1, E2, !surdR_rat, (Qeq_eqR _ _ S), Q2R_minus. split; reflexivity.
Qed.
