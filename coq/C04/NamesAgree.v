(** C04 -- the two independently coded loops agree: the blocks and connections built by
    [fromgeo] are the ones the geometry's own name lists announce, in order and orientation. *)
From Coq Require Import Ascii String List Bool Arith ZArith QArith Lia Permutation.
From PTBase Require Import Exn PyStr.
From P Require Import FromGeo Arith Lists.
Import ListNotations.
Open Scope Q_scope.

(** * well-formed geometries *)

(** slicing a composed block name gives back the layer and column names
    ([add_underground_blocks] finds the layer and column of a block this way) *)
Definition names_decode (g : geom) : Prop :=
  forall l c, In l (tl (layers g)) -> In c (columns g) ->
    layer_name (convention g) (bn g l c) = lname l /\ column_name (convention g) (bn g l c) = cname c.

Record wf (g : geom) : Prop := mkWf {
  wf_layers : layers g <> [];
  wf_atm : (atm_type g <= 2)%nat;
  wf_lnames : NoDup (map lname (layers g));
  wf_cnames : NoDup (map cname (columns g));
  wf_decode : names_decode g;
  wf_hcols : forall h, In h (hconns g) -> In (hcolA h) (columns g) /\ In (hcolB h) (columns g);
  (** identify_layer_tops: the top of a layer is the bottom of the layer above *)
  wf_contig : forall i a b, nth_error (layers g) i = Some a -> nth_error (layers g) (S i) = Some b -> ltop b == lbot a
}.

Definition map_pair (bm : list (str * str)) (p : str * str) : str * str :=
  (apply_map bm (fst p), apply_map bm (snd p)).

(** * the blocks *)
Definition bnp (g : geom) (p : layer * column) : str := bn g (fst p) (snd p).
Definition ug_pairs (g : geom) : list (layer * column) :=
  flat_map (fun l => map (pair l) (layercols g l)) (tl (layers g)).
Definition mk_ug (g : geom) (bm : list (str * str)) (p : layer * column) : block :=
  mkBlock (apply_map bm (bnp g p)) (block_volume g (fst p) (snd p)) (block_centre g (fst p) (snd p)) false.
Definition atm_bl (g : geom) (bm : list (str * str)) : list block :=
  match layers g with
  | [] => []
  | l0 :: _ =>
      match atm_type g with
      | 0%nat => [mkBlock (block_name (convention g) (lname l0) (atm_colname (convention g)) bm) (Some (atm_vol g)) None true]
      | 1%nat => map (fun c => mkBlock (block_name (convention g) (lname l0) (cname c) bm) (Some (atm_vol g)) (block_centre g l0 c) true)
                     (columns g)
      | _ => []
      end
  end.

Lemma in_layercols g l c : In c (layercols g l) <-> In c (columns g) /\ lbot l < csurf c.
Proof. unfold layercols. rewrite filter_In, Qgtb_iff. tauto. Qed.

Lemma in_ug_pairs g l c :
  In (l, c) (ug_pairs g) <-> In l (tl (layers g)) /\ In c (columns g) /\ lbot l < csurf c.
Proof.
  unfold ug_pairs. rewrite in_flat_map. split.
  - intros [l' [Hl H]]. apply in_map_iff in H as [c' [E Hc]]. inversion E; subst.
    apply in_layercols in Hc. tauto.
  - intros [Hl [Hc Hs]]. exists l. split; [exact Hl|]. apply in_map. apply in_layercols. tauto.
Qed.

Lemma in_tl {A} (x : A) l : In x (tl l) -> In x l.
Proof. destruct l; cbn; auto. Qed.

Lemma name_list_lc g : name_list_layer_column g = map (bnp g) (ug_pairs g).
Proof.
  unfold name_list_layer_column, ug_pairs. rewrite map_flat_map.
  apply flat_map_ext. intro l. rewrite map_map. reflexivity.
Qed.

Lemma name_list_dm g ns :
  name_list_dmplex g = Ok ns -> exists ps, Permutation ps (ug_pairs g) /\ ns = map (bnp g) ps.
Proof.
  unfold name_list_dmplex.
  assert (E : flat_map (fun l => map (fun c => (cnn c, bn g l c)) (layercols g l)) (tl (layers g))
              = map (fun p => (cnn (snd p), bnp g p)) (ug_pairs g)).
  { unfold ug_pairs. rewrite map_flat_map. apply flat_map_ext. intro l. rewrite map_map. reflexivity. }
  rewrite E. clear E.
  destruct (forallb _ _) eqn:F; [|discriminate]. intro H. inversion H; subst; clear H.
  exists (filter (fun p => (cnn (snd p) =? 4)%nat) (ug_pairs g) ++ filter (fun p => (cnn (snd p) =? 3)%nat) (ug_pairs g))%list.
  split.
  - apply filter_partition_perm. intros x Hx.
    rewrite forallb_forall in F. specialize (F _ (in_map _ _ _ Hx)). cbn [fst] in F.
    destruct (cnn (snd x) =? 4)%nat eqn:E4; destruct (cnn (snd x) =? 3)%nat eqn:E3; try reflexivity; try discriminate.
    apply Nat.eqb_eq in E4. apply Nat.eqb_eq in E3. lia.
  - rewrite map_app. rewrite !filter_map_comm. cbn [fst]. rewrite !map_map. cbn [snd]. reflexivity.
Qed.

Lemma block_name_list_shape g names :
  layers g <> [] -> block_name_list g = Ok names ->
  exists ps, Permutation ps (ug_pairs g) /\ names = (atm_names g ++ map (bnp g) ps)%list.
Proof.
  intros NE H. unfold block_name_list in H. destruct (layers g) as [|l0 ls] eqn:EL; [contradiction|].
  destruct (dmplex g).
  - destruct (name_list_dmplex g) as [ns|e] eqn:D; [|discriminate]. cbn [bind] in H. inversion H; subst.
    apply name_list_dm in D as [ps [P ->]]. exists ps. auto.
  - cbn [bind] in H. inversion H; subst. exists (ug_pairs g). split; [apply Permutation_refl|].
    rewrite name_list_lc. reflexivity.
Qed.

Lemma num_atm_ok g : layers g <> [] -> (atm_type g <= 2)%nat -> num_atm g = Ok (length (atm_names g)).
Proof.
  intros NE LE. unfold num_atm, atm_names. destruct (layers g) as [|l0 ls]; [contradiction|].
  destruct (atm_type g) as [|[|[|n]]]; try reflexivity; [rewrite map_length; reflexivity|lia].
Qed.

Lemma skipn_app_exact {A} (a b : list A) : skipn (length a) (a ++ b) = b.
Proof. induction a as [|x a IH]; [reflexivity|exact IH]. Qed.

Lemma mapM_map {A B C} (f : B -> res C) (h : A -> B) l : mapM f (map h l) = mapM (fun x => f (h x)) l.
Proof. induction l as [|a l IH]; [reflexivity|]. cbn [map mapM]. rewrite IH. reflexivity. Qed.

Lemma lookup_layer_ok g l : NoDup (map lname (layers g)) -> In l (layers g) -> lookup_layer g (lname l) = Ok l.
Proof. intros ND Hin. unfold lookup_layer. rewrite (find_key_nodup lname _ _ ND Hin). reflexivity. Qed.
Lemma lookup_column_ok g c : NoDup (map cname (columns g)) -> In c (columns g) -> lookup_column g (cname c) = Ok c.
Proof. intros ND Hin. unfold lookup_column. rewrite (find_key_nodup cname _ _ ND Hin). reflexivity. Qed.

Lemma ug_block_ok g bm p : wf g -> In p (ug_pairs g) -> ug_block g bm (bnp g p) = Ok (mk_ug g bm p).
Proof.
  intros W Hin. destruct p as [l c]. apply in_ug_pairs in Hin as [Hl [Hc Hs]].
  unfold ug_block, bnp. cbn [fst snd].
  destruct (wf_decode g W l c Hl Hc) as [D1 D2]. rewrite D1, D2.
  rewrite (lookup_layer_ok g l (wf_lnames g W) (in_tl _ _ Hl)). cbn [bind].
  rewrite (lookup_column_ok g c (wf_cnames g W) Hc). cbn [bind]. reflexivity.
Qed.

Lemma atm_blocks_ok g bm : layers g <> [] -> (atm_type g <= 2)%nat -> atm_blocks g bm = Ok (atm_bl g bm).
Proof.
  intros NE LE. unfold atm_blocks, atm_bl, nth_layer. destruct (layers g) as [|l0 ls]; [contradiction|].
  cbn [nth_error]. destruct (atm_type g) as [|[|[|n]]]; try reflexivity.
  destruct (columns g); reflexivity.
Qed.

Lemma atm_bl_names g bm : map bname (atm_bl g bm) = map (apply_map bm) (atm_names g).
Proof.
  unfold atm_bl, atm_names. destruct (layers g) as [|l0 ls]; [reflexivity|].
  destruct (atm_type g) as [|[|n]]; try reflexivity.
  rewrite !map_map. cbn [bname]. reflexivity.
Qed.

Lemma mk_ug_names g bm ps : map bname (map (mk_ug g bm) ps) = map (apply_map bm) (map (bnp g) ps).
Proof. rewrite !map_map. reflexivity. Qed.

(** the block list built by [fromgeo]: the atmosphere blocks, then one block per announced
    underground name, carrying the volume and centre of its own layer and column *)
Theorem blocks_shape g bm names :
  wf g -> block_name_list g = Ok names -> NoDup (map (apply_map bm) names) ->
  exists ps, Permutation ps (ug_pairs g) /\ names = (atm_names g ++ map (bnp g) ps)%list /\
             fromgeo_blocks g bm = Ok (atm_bl g bm ++ map (mk_ug g bm) ps)%list.
Proof.
  intros W Hn ND.
  destruct (block_name_list_shape g names (wf_layers g W) Hn) as [ps [P E]].
  exists ps. split; [exact P|]. split; [exact E|].
  unfold fromgeo_blocks, fromgeo_block_calls.
  rewrite (atm_blocks_ok g bm (wf_layers g W) (wf_atm g W)). cbn [bind].
  rewrite Hn. cbn [bind]. rewrite (num_atm_ok g (wf_layers g W) (wf_atm g W)). cbn [bind].
  rewrite E, skipn_app_exact, mapM_map.
  rewrite (mapM_ok _ (mk_ug g bm)).
  2:{ intros p Hp. apply ug_block_ok; [exact W|]. eapply Permutation_in; eassumption. }
  cbn [bind]. f_equal. apply (fold_add_block_nodup _ []). cbn [app].
  rewrite map_app, atm_bl_names, mk_ug_names, <- map_app, <- E. exact ND.
Qed.

Theorem fromgeo_blocks_names g bm names :
  wf g -> block_name_list g = Ok names -> NoDup (map (apply_map bm) names) ->
  exists bl, fromgeo_blocks g bm = Ok bl /\ map bname bl = map (apply_map bm) names.
Proof.
  intros W Hn ND. destruct (blocks_shape g bm names W Hn ND) as [ps [P [E F]]].
  eexists. split; [exact F|]. rewrite map_app, atm_bl_names, mk_ug_names, <- map_app, <- E. reflexivity.
Qed.

(** * the connections *)

Lemma ug_not_atm g l0 ls l : NoDup (map lname (layers g)) -> layers g = l0 :: ls -> In l ls ->
  str_eqb (lname l) (lname l0) = false.
Proof.
  intros ND E Hin. rewrite E in ND. cbn [map] in ND. inversion ND as [|x xs Hnot _]; subst.
  destruct (str_eqb (lname l) (lname l0)) eqn:S; [|reflexivity].
  apply str_eqb_eq in S. exfalso. apply Hnot. rewrite <- S. apply in_map. exact Hin.
Qed.

Lemma block_centre_ug g l c : NoDup (map lname (layers g)) -> In l (tl (layers g)) -> lbot l < csurf c ->
  exists z, block_centre g l c = Some (ccx c, ccy c, z).
Proof.
  intros ND Hl Hs. unfold block_centre. destruct (layers g) as [|l0 ls] eqn:E; [contradiction|].
  cbn [tl] in Hl. rewrite (ug_not_atm g l0 ls l); [|rewrite E; exact ND|exact E|exact Hl].
  destruct (Qltb (lbot l) (csurf c) && qleb (csurf c) (ltop l)); [eexists; reflexivity|].
  destruct (qleb (csurf c) (lbot l)) eqn:Q; [|eexists; reflexivity].
  apply qleb_iff in Q. exfalso. exact (Qlt_not_le _ _ Hs Q).
Qed.

Lemma block_surface_ug g l c : NoDup (map lname (layers g)) -> In l (tl (layers g)) -> lbot l < csurf c ->
  exists s, block_surface g l c = Some s.
Proof.
  intros ND Hl Hs. unfold block_surface. destruct (layers g) as [|l0 ls] eqn:E; [contradiction|].
  cbn [tl] in Hl. rewrite (ug_not_atm g l0 ls l); [|rewrite E; exact ND|exact E|exact Hl].
  destruct (Qltb (csurf c) (ltop l)).
  - apply Qltb_iff in Hs. rewrite Hs. eexists; reflexivity.
  - destruct (Qgtb (csurf c) (ltop l0)); [|eexists; reflexivity].
    destruct ls as [|l1 ls']; [contradiction|]. destruct (str_eqb (lname l) (lname l1)); eexists; reflexivity.
Qed.

Section Conns.
  Variables (g : geom) (bm : list (str * str)) (names : list str) (ps : list (layer * column)).
  Hypothesis W : wf g.
  Hypothesis Hperm : Permutation ps (ug_pairs g).
  Hypothesis Hnames : names = (atm_names g ++ map (bnp g) ps)%list.
  Hypothesis ND : NoDup (map (apply_map bm) names).
  Hypothesis Hbnl : block_name_list g = Ok names.
  Let bl := (atm_bl g bm ++ map (mk_ug g bm) ps)%list.

  Lemma bl_nodup : NoDup (map bname bl).
  Proof. unfold bl. rewrite map_app, atm_bl_names, mk_ug_names, <- map_app, <- Hnames. exact ND. Qed.

  Lemma find_ug l c : In l (tl (layers g)) -> In c (columns g) -> lbot l < csurf c ->
    find_block bl (block_name (convention g) (lname l) (cname c) bm) = Ok (mk_ug g bm (l, c)).
  Proof.
    intros Hl Hc Hs. unfold find_block.
    change (block_name (convention g) (lname l) (cname c) bm) with (bname (mk_ug g bm (l, c))).
    rewrite (find_key_nodup bname bl (mk_ug g bm (l, c)) bl_nodup); [reflexivity|].
    unfold bl. apply in_or_app. right. apply in_map. eapply Permutation_in; [apply Permutation_sym; exact Hperm|].
    apply in_ug_pairs. tauto.
  Qed.

  Lemma find_atm1 l0 ls c : layers g = l0 :: ls -> atm_type g = 1%nat -> In c (columns g) ->
    exists b, find_block bl (block_name (convention g) (lname l0) (cname c) bm) = Ok b /\
              bname b = block_name (convention g) (lname l0) (cname c) bm.
  Proof.
    intros E A Hc.
    set (b := mkBlock (block_name (convention g) (lname l0) (cname c) bm) (Some (atm_vol g)) (block_centre g l0 c) true).
    exists b. split; [|reflexivity]. unfold find_block.
    change (block_name (convention g) (lname l0) (cname c) bm) with (bname b).
    rewrite (find_key_nodup bname bl b bl_nodup); [reflexivity|].
    unfold bl. apply in_or_app. left. unfold atm_bl. rewrite E, A.
    apply (in_map (fun c => mkBlock (block_name (convention g) (lname l0) (cname c) bm) (Some (atm_vol g)) (block_centre g l0 c) true)).
    exact Hc.
  Qed.

  Lemma centre_of_ug l c : In l (tl (layers g)) -> lbot l < csurf c ->
    exists z, centre_of (mk_ug g bm (l, c)) = Ok (ccx c, ccy c, z) /\ block_centre g l c = Some (ccx c, ccy c, z).
  Proof.
    intros Hl Hs. destruct (block_centre_ug g l c (wf_lnames g W) Hl Hs) as [z Hz].
    exists z. split; [|exact Hz]. unfold centre_of, mk_ug. cbn [bcentre fst snd]. rewrite Hz. reflexivity.
  Qed.

  (** one vertical connection: the two loops take the same branch and name the same blocks *)
  Lemma vconn_agrees i l c :
    nth_error (layers g) (S i) = Some l -> In c (layercols g l) ->
    exists r r', mul_vconn g names i l c = Ok r /\ vconn g bm bl l c = Ok r' /\
                 option_map ckey r' = option_map (map_pair bm) r.
  Proof.
    intros Hnth Hc. apply in_layercols in Hc as [Hc Hs].
    destruct (layers g) as [|l0 ls] eqn:EL; [destruct i; discriminate|].
    assert (Hl : In l (tl (layers g))).
    { rewrite EL. cbn [tl]. cbn [nth_error] in Hnth. eapply nth_error_In. exact Hnth. }
    assert (Hidx : layer_index g l = Ok (S i)).
    { unfold layer_index. rewrite (index_from_nth (layers g) 0 (S i) l (wf_lnames g W)); [reflexivity|].
      rewrite EL. exact Hnth. }
    destruct (centre_of_ug l c Hl Hs) as [z [Hcz _]].
    unfold vconn, mul_vconn. rewrite (find_ug l c Hl Hc Hs). cbn [bind]. rewrite Hidx. cbn [bind].
    change (S i =? 1)%nat with (i =? 0)%nat.
    destruct ((i =? 0)%nat || qleb (csurf c) (ltop l)) eqn:Cond.
    - (* connection to the atmosphere *)
      unfold nth_layer. rewrite EL. cbn [nth_error bind]. rewrite Hcz. cbn [bind].
      pose proof (wf_atm g W) as LE.
      destruct (atm_type g) as [|[|[|n]]] eqn:A; [| | |lia].
      + (* single atmosphere block *)
        assert (Ea : atm_names g = [block_name0 (convention g) (lname l0) (atm_colname (convention g))]).
        { unfold atm_names. rewrite EL, A. reflexivity. }
        assert (Eb : atm_bl g bm = [mkBlock (block_name (convention g) (lname l0) (atm_colname (convention g)) bm) (Some (atm_vol g)) None true]).
        { unfold atm_bl. rewrite EL, A. reflexivity. }
        rewrite Hnames, Ea. cbn [app]. unfold bl. rewrite Eb. cbn [app].
        eexists. eexists. split; [reflexivity|]. split; [reflexivity|]. reflexivity.
      + (* one atmosphere block per column *)
        destruct (find_atm1 l0 ls c EL A Hc) as [b [Hb Hbn]]. rewrite Hb. cbn [bind].
        eexists. eexists. split; [reflexivity|]. split; [reflexivity|].
        cbn [option_map ckey k1 k2 map_pair fst snd]. rewrite Hbn. reflexivity.
      + eexists. eexists. split; [reflexivity|]. split; [reflexivity|]. reflexivity.
    - (* interior connection to the block above *)
      apply orb_false_iff in Cond as [Ci Cq]. apply Nat.eqb_neq in Ci.
      destruct i as [|j]; [contradiction|].
      replace (S (S j) - 1)%nat with (S j) by lia.
      assert (Hal : exists al, nth_error (l0 :: ls) (S j) = Some al).
      { destruct (nth_error (l0 :: ls) (S j)) as [al|] eqn:N; [eauto|].
        apply nth_error_None in N. assert (nth_error (l0 :: ls) (S (S j)) <> None) by congruence.
        apply nth_error_Some in H. lia. }
      destruct Hal as [al Hal].
      assert (Hal_in : In al (tl (layers g))).
      { rewrite EL. cbn [tl]. cbn [nth_error] in Hal. eapply nth_error_In. exact Hal. }
      assert (Hcont : ltop l == lbot al).
      { apply (wf_contig g W (S j) al l); rewrite EL; assumption. }
      assert (Hsa : lbot al < csurf c).
      { rewrite <- Hcont. apply qleb_false. exact Cq. }
      destruct (centre_of_ug al c Hal_in Hsa) as [za [Hcza _]].
      unfold nth_layer. rewrite EL, Hal. cbn [bind].
      rewrite (find_ug al c Hal_in Hc Hsa). cbn [bind]. rewrite Hcza. cbn [bind].
      eexists. eexists. split; [reflexivity|]. split; [reflexivity|]. reflexivity.
  Qed.

  (** one horizontal connection *)
  Lemma hconn_agrees l h :
    In l (tl (layers g)) -> In h (hconns g) -> hconn_in_layer l h = true ->
    exists k, hconn_conn g bm bl l (h, hstatic h) = Ok k /\
              ckey k = map_pair bm (bn g l (hcolA h), bn g l (hcolB h)).
  Proof.
    intros Hl Hh Hin. unfold hconn_in_layer in Hin. apply andb_prop in Hin as [HA HB].
    apply Qgtb_iff in HA. apply Qgtb_iff in HB.
    destruct (wf_hcols g W h Hh) as [CA CB].
    unfold hconn_conn. rewrite (find_ug l _ Hl CA HA). cbn [bind]. rewrite (find_ug l _ Hl CB HB). cbn [bind].
    unfold connection_params.
    destruct (block_surface_ug g l (hcolA h) (wf_lnames g W) Hl HA) as [sa ->].
    destruct (block_surface_ug g l (hcolB h) (wf_lnames g W) Hl HB) as [sb ->].
    destruct (hstatic h) as [[s2 da] db].
    destruct (centre_of_ug l _ Hl HA) as [za [-> _]]. destruct (centre_of_ug l _ Hl HB) as [zb [-> _]].
    cbn [bind]. eexists. split; reflexivity.
  Qed.

  Lemma mapM_keyed {A} (f : A -> res conn) (h : A -> str * str) l :
    (forall x, In x l -> exists k, f x = Ok k /\ ckey k = h x) ->
    exists ks, mapM f l = Ok ks /\ map ckey ks = map h l.
  Proof.
    induction l as [|a l IH]; intro H; [exists []; split; reflexivity|].
    destruct (H a (or_introl eq_refl)) as [k [E K]].
    destruct IH as [ks [M Ks]]; [intros x Hx; apply H; right; exact Hx|].
    exists (k :: ks). cbn [mapM map]. rewrite E, M. cbn [bind]. split; [reflexivity|]. rewrite K, Ks. reflexivity.
  Qed.

  (** the connections of one layer *)
  Lemma layer_agrees i l :
    nth_error (layers g) (S i) = Some l ->
    exists r r', mul_layer_conns g names (i, l) = Ok r /\
                 layer_conns g bm bl (map (fun h => (h, hstatic h)) (hconns g)) l = Ok r' /\
                 map ckey r' = map (map_pair bm) r.
  Proof.
    intro Hnth.
    assert (Hl : In l (tl (layers g))).
    { destruct (layers g) as [|l0 ls]; [destruct i; discriminate|]. cbn [tl]. cbn [nth_error] in Hnth.
      eapply nth_error_In. exact Hnth. }
    destruct (mapM_rel (fun r r' => option_map ckey r' = option_map (map_pair bm) r)
                (mul_vconn g names i l) (vconn g bm bl l) (layercols g l)) as [vs [vs' [Mv [Mv' Fv]]]].
    { intros c Hc. apply vconn_agrees; assumption. }
    unfold mul_layer_conns, layer_conns. rewrite Mv, Mv'. cbn [bind].
    rewrite filter_map_comm. cbn [fst]. rewrite mapM_map.
    destruct (mapM_keyed (fun h => hconn_conn g bm bl l (h, hstatic h))
                (fun h => map_pair bm (bn g l (hcolA h), bn g l (hcolB h)))
                (filter (hconn_in_layer l) (hconns g))) as [hs [Mh Kh]].
    { intros h Hh. apply filter_In in Hh as [Hh1 Hh2]. apply hconn_agrees; assumption. }
    change (filter (fun x : hconn => hconn_in_layer l x) (hconns g)) with (filter (hconn_in_layer l) (hconns g)).
    rewrite Mh. cbn [bind]. eexists. eexists. split; [reflexivity|]. split; [reflexivity|].
    rewrite !map_app. f_equal.
    - apply cat_some_rel. clear -Fv. induction Fv; constructor; auto.
    - rewrite Kh, map_map. reflexivity.
  Qed.

  Lemma concat_rel (rs : list (list (str * str))) (rs' : list (list conn)) :
    Forall2 (fun r r' => map ckey r' = map (map_pair bm) r) rs rs' ->
    map ckey (concat rs') = map (map_pair bm) (concat rs).
  Proof.
    induction 1 as [|r r' rs rs' H F IH]; [reflexivity|].
    cbn [concat]. rewrite !map_app, H, IH. reflexivity.
  Qed.

  Lemma nth_error_tl {A} (l : list A) i : nth_error (tl l) i = nth_error l (S i).
  Proof. destruct l; destruct i; reflexivity. Qed.

  Theorem conns_agree :
    exists cnl calls, block_connection_name_list g = Ok cnl /\
                      fromgeo_conn_calls g bm bl = Ok calls /\
                      map ckey calls = map (map_pair bm) cnl.
  Proof.
    unfold block_connection_name_list, fromgeo_conn_calls. rewrite Hbnl. cbn [bind].
    destruct (mapM_rel (fun r r' => map ckey r' = map (map_pair bm) r)
                (mul_layer_conns g names)
                (fun il => layer_conns g bm bl (map (fun h => (h, hstatic h)) (hconns g)) (snd il))
                (enum_from 0 (tl (layers g)))) as [rs [rs' [M [M' F]]]].
    { intros [i l] Hin. apply enum_from_nth in Hin as [_ Hn]. rewrite Nat.sub_0_r, nth_error_tl in Hn.
      cbn [snd]. apply layer_agrees. exact Hn. }
    rewrite M. cbn [bind].
    assert (M2 : mapM (layer_conns g bm bl (map (fun h => (h, hstatic h)) (hconns g))) (tl (layers g)) = Ok rs').
    { transitivity (mapM (layer_conns g bm bl (map (fun h => (h, hstatic h)) (hconns g)))
                         (map snd (enum_from 0 (tl (layers g))))).
      - rewrite map_snd_enum_from. reflexivity.
      - rewrite mapM_map. exact M'. }
    rewrite M2. cbn [bind].
    exists (concat rs), (concat rs'). split; [reflexivity|]. split; [reflexivity|].
    apply concat_rel. exact F.
  Qed.
End Conns.

(** [fromgeo] builds exactly the announced connections, in order and orientation *)
Theorem fromgeo_conns_names g bm names :
  wf g -> block_name_list g = Ok names -> NoDup (map (apply_map bm) names) ->
  exists cnl, block_connection_name_list g = Ok cnl /\
    (NoDup (map (map_pair bm) cnl) ->
     exists cs, fromgeo_conns g bm = Ok cs /\ map ckey cs = map (map_pair bm) cnl).
Proof.
  intros W Hn ND. destruct (blocks_shape g bm names W Hn ND) as [ps [P [E F]]].
  destruct (conns_agree g bm names ps W P E ND Hn) as [cnl [calls [C1 [C2 C3]]]].
  exists cnl. split; [exact C1|]. intro NDc.
  unfold fromgeo_conns. rewrite F. cbn [bind]. rewrite C2. cbn [bind].
  eexists. split; [reflexivity|].
  rewrite (fold_add_connection_nodup calls []); cbn [app]; [exact C3|]. rewrite C3. exact NDc.
Qed.

(** without a block-name mapping *)
Lemma apply_map_nil n : apply_map [] n = n.
Proof. reflexivity. Qed.
Lemma map_apply_map_nil ns : map (apply_map []) ns = ns.
Proof. induction ns as [|a ns IH]; [reflexivity|]. cbn [map]. rewrite IH. reflexivity. Qed.
Lemma map_pair_nil cnl : map (map_pair []) cnl = cnl.
Proof. induction cnl as [|[a b] cnl IH]; [reflexivity|]. cbn [map]. rewrite IH. reflexivity. Qed.

Theorem fromgeo_blocks_names_nomap g names :
  wf g -> block_name_list g = Ok names -> NoDup names ->
  exists bl, fromgeo_blocks g [] = Ok bl /\ map bname bl = names.
Proof.
  intros W Hn ND. rewrite <- (map_apply_map_nil names) in ND.
  destruct (fromgeo_blocks_names g [] names W Hn ND) as [bl [F E]].
  exists bl. split; [exact F|]. rewrite E. apply map_apply_map_nil.
Qed.
Theorem fromgeo_conns_names_nomap g names :
  wf g -> block_name_list g = Ok names -> NoDup names ->
  exists cnl, block_connection_name_list g = Ok cnl /\
    (NoDup cnl -> exists cs, fromgeo_conns g [] = Ok cs /\ map ckey cs = cnl).
Proof.
  intros W Hn ND. rewrite <- (map_apply_map_nil names) in ND.
  destruct (fromgeo_conns_names g [] names W Hn ND) as [cnl [C H]].
  exists cnl. split; [exact C|]. intro NDc. rewrite <- (map_pair_nil cnl) in NDc.
  destruct (H NDc) as [cs [F E]]. exists cs. split; [exact F|]. rewrite E. apply map_pair_nil.
Qed.

(** * the distinctness hypotheses are necessary: a grid never holds two blocks of one name or two
    connections of one key *)
Lemma NoDup_app_single {A} (l : list A) a : NoDup l -> ~ In a l -> NoDup (l ++ [a]).
Proof.
  intros ND Hn. apply (Permutation_NoDup (l := a :: l)); [apply Permutation_cons_append|].
  constructor; assumption.
Qed.
Lemma add_block_names_nodup bl b : NoDup (map bname bl) -> NoDup (map bname (add_block bl b)).
Proof.
  intro ND. unfold add_block. destruct (existsb _ bl) eqn:E.
  - assert (M : map bname (map (fun x => if str_eqb (bname x) (bname b) then b else x) bl) = map bname bl).
    { rewrite map_map. apply map_ext. intro x. destruct (str_eqb (bname x) (bname b)) eqn:S; [|reflexivity].
      apply str_eqb_eq in S. symmetry. exact S. }
    rewrite M. exact ND.
  - rewrite map_app. cbn [map]. apply NoDup_app_single; [exact ND|].
    intro Hin. apply in_map_iff in Hin as [x [Hx Hin]].
    assert (existsb (fun x0 => str_eqb (bname x0) (bname b)) bl = true).
    { apply existsb_exists. exists x. split; [exact Hin|]. rewrite Hx. apply str_eqb_refl. }
    congruence.
Qed.
Lemma fold_add_block_names_nodup calls : forall acc,
  NoDup (map bname acc) -> NoDup (map bname (fold_left add_block calls acc)).
Proof.
  induction calls as [|b calls IH]; intros acc ND; cbn [fold_left]; [exact ND|].
  apply IH. apply add_block_names_nodup. exact ND.
Qed.
Lemma fromgeo_blocks_nodup g bm bl : fromgeo_blocks g bm = Ok bl -> NoDup (map bname bl).
Proof.
  unfold fromgeo_blocks. destruct (fromgeo_block_calls g bm) as [calls|e]; [|discriminate]. cbn [bind].
  intro H. inversion H; subst. apply fold_add_block_names_nodup. constructor.
Qed.

Lemma add_connection_keys_nodup cl k : NoDup (map ckey cl) -> NoDup (map ckey (add_connection cl k)).
Proof.
  intro ND. unfold add_connection. destruct (existsb _ cl) eqn:E.
  - assert (M : map ckey (map (fun x => if same_key x k then k else x) cl) = map ckey cl).
    { rewrite map_map. apply map_ext. intro x. destruct (same_key x k) eqn:S; [|reflexivity].
      unfold same_key in S. apply andb_prop in S as [S1 S2]. apply str_eqb_eq in S1. apply str_eqb_eq in S2.
      unfold ckey. congruence. }
    rewrite M. exact ND.
  - rewrite map_app. cbn [map]. apply NoDup_app_single; [exact ND|].
    intro Hin. apply in_map_iff in Hin as [x [Hx Hin]].
    assert (existsb (fun x0 => same_key x0 k) cl = true).
    { apply existsb_exists. exists x. split; [exact Hin|]. unfold ckey in Hx. inversion Hx as [[H1 H2]].
      unfold same_key. rewrite H1, H2, !str_eqb_refl. reflexivity. }
    congruence.
Qed.
Lemma fold_add_connection_keys_nodup calls : forall acc,
  NoDup (map ckey acc) -> NoDup (map ckey (fold_left add_connection calls acc)).
Proof.
  induction calls as [|b calls IH]; intros acc ND; cbn [fold_left]; [exact ND|].
  apply IH. apply add_connection_keys_nodup. exact ND.
Qed.
Lemma fromgeo_conns_nodup g bm cs : fromgeo_conns g bm = Ok cs -> NoDup (map ckey cs).
Proof.
  unfold fromgeo_conns. destruct (fromgeo_blocks g bm) as [bl|e]; [|discriminate]. cbn [bind].
  destruct (fromgeo_conn_calls g bm bl) as [calls|e]; [|discriminate]. cbn [bind].
  intro H. inversion H; subst. apply fold_add_connection_keys_nodup. constructor.
Qed.

(** the two headline statements as equivalences *)
Theorem fromgeo_blocks_names_iff g bm names :
  wf g -> block_name_list g = Ok names ->
  (NoDup (map (apply_map bm) names) <->
   exists bl, fromgeo_blocks g bm = Ok bl /\ map bname bl = map (apply_map bm) names).
Proof.
  intros W Hn. split.
  - apply fromgeo_blocks_names; assumption.
  - intros [bl [F E]]. rewrite <- E. eapply fromgeo_blocks_nodup. exact F.
Qed.
Theorem fromgeo_conns_names_iff g bm names cnl :
  wf g -> block_name_list g = Ok names -> NoDup (map (apply_map bm) names) ->
  block_connection_name_list g = Ok cnl ->
  (NoDup (map (map_pair bm) cnl) <->
   exists cs, fromgeo_conns g bm = Ok cs /\ map ckey cs = map (map_pair bm) cnl).
Proof.
  intros W Hn ND Hc. destruct (fromgeo_conns_names g bm names W Hn ND) as [cnl' [C H]].
  rewrite Hc in C. inversion C; subst cnl'. split; [exact H|].
  intros [cs [F E]]. rewrite <- E. eapply fromgeo_conns_nodup. exact F.
Qed.
