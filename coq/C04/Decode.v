(** C04 -- a syntactic sufficient condition for the [names_decode] hypothesis of [wf]: layer and
    column names have the lengths of the naming convention, and the TOUGH2 (a3,i2) repair
    [fix_blockname] does not fire on the composed names (e.g. because the third character of
    the composed name is not a digit: alphabetic column names in conventions 0 and 3). *)
From Coq Require Import Ascii String List Bool Arith Lia.
From PTBase Require Import Exn PyStr.
From P Require Import FromGeo NamesAgree.
Import ListNotations.

Definition lay_len (conv : nat) : nat := match conv with 1%nat => 3%nat | _ => 2%nat end.
Definition col_len (conv : nat) : nat := match conv with 1%nat => 2%nat | _ => 3%nat end.
Definition raw_name (conv : nat) (ln cn : str) : str :=
  match conv with 0%nat | 3%nat => cn ++ ln | _ => ln ++ cn end.

Lemma names_decode_suff g :
  (convention g <= 3)%nat ->
  (forall l, In l (tl (layers g)) -> length (lname l) = lay_len (convention g)) ->
  (forall c, In c (columns g) -> length (cname c) = col_len (convention g)) ->
  (forall l c, In l (tl (layers g)) -> In c (columns g) ->
     fix_blockname (raw_name (convention g) (lname l) (cname c)) = raw_name (convention g) (lname l) (cname c)) ->
  names_decode g.
Proof.
  intros LE HL HC HF l c Hl Hc. specialize (HL l Hl). specialize (HC c Hc). specialize (HF l c Hl Hc).
  unfold bn, block_name0. unfold raw_name in HF.
  destruct (lname l) as [|l0 [|l1 [|l2 [|l3 lr]]]]; destruct (cname c) as [|c0 [|c1 [|c2 [|c3 cr]]]];
    destruct (convention g) as [|[|[|[|n]]]]; cbn [lay_len col_len length] in HL, HC; try discriminate; try lia;
    cbn [slice firstn skipn Nat.sub app] in *; rewrite HF; split; reflexivity.
Qed.

(** [fix_blockname] only touches names whose third character is a digit *)
Lemma fix_blockname_id n : is_digit (nth 2 n " "%char) = false -> fix_blockname n = n.
Proof.
  intro H. unfold fix_blockname. destruct n as [|a [|b [|c [|d [|e r]]]]]; try reflexivity.
  cbn [nth] in H. rewrite H. reflexivity.
Qed.
