(** C04 -- tie T, property theorems only: the kernels regenerated from the current Python source
    (Gen/GenKernels.v) are the hand model's.  Kept apart from Props.v so that an edit of the Python
    kernels breaks exactly these obligations. *)
From Coq Require Import Ascii String List Bool ZArith QArith.
From PTBase Require Import Exn PyStr.
From P Require Import FromGeo Arith Kx KernelTie LoopTie.
From Gen Require Import GenKernels.
Import ListNotations.
Open Scope Q_scope.

(** ** tie T: the kernels regenerated from the current Python source (Gen/GenKernels.v, by
    tools/props/c04_translate.py), evaluated ([run], Kx.v) in the environment that names the
    model's quantities, are what the hand model computes -- for all inputs.  An edit of those
    Python lines changes the generated tree and breaks the corresponding proof below. *)
Theorem kernel_block_surface : forall g l0 l1 rest l c,
  layers g = l0 :: l1 :: rest ->
  run (w_block g l0 l1 l c) gen_block_surface = ORet (of_oq (block_surface g l c)).
Proof. exact tie_block_surface. Qed.
Print Assumptions kernel_block_surface.

Theorem kernel_block_volume : forall g l0 l1 rest l c,
  layers g = l0 :: l1 :: rest ->
  run (w_block g l0 l1 l c) gen_block_volume = ORet (of_oq (block_volume g l c)).
Proof. exact tie_block_volume. Qed.
Print Assumptions kernel_block_volume.

Theorem kernel_block_centre : forall g l0 l1 rest l c,
  layers g = l0 :: l1 :: rest ->
  run (w_block g l0 l1 l c) gen_block_centre = ORet (of_centre (block_centre g l c)).
Proof. exact tie_block_centre. Qed.
Print Assumptions kernel_block_centre.

Theorem kernel_layer_column_filters : forall l c,
  run (w_filter l c) gen_filter_add_connections = ORet (VB (Qgtb (csurf c) (lbot l))) /\
  run (w_filter l c) gen_filter_name_list = ORet (VB (Qgtb (csurf c) (lbot l))) /\
  run (w_filter l c) gen_filter_name_list_dmplex = ORet (VB (Qgtb (csurf c) (lbot l))) /\
  run (w_filter l c) gen_filter_connection_names = ORet (VB (Qgtb (csurf c) (lbot l))).
Proof. exact tie_filters. Qed.
Print Assumptions kernel_layer_column_filters.

Theorem kernel_line_projection : forall ax ay px py qx qy,
  run (w_proj ax ay px py qx qy) gen_line_projection =
  ORet (let r := line_projection ax ay px py qx qy in VL [VQ (fst r); VQ (snd r)]).
Proof. exact tie_line_projection. Qed.
Print Assumptions kernel_line_projection.

Theorem kernel_connection_params : forall g l h d1 d2 a,
  connection_params g h (hstatic h) l = Some (d1, d2, a) ->
  run (w_params g l h) gen_connection_params =
  ORet (VL [VL [vsurd d1; vsurd d2]; VSurd (qmul 1 (coef a)) (rad a)]).
Proof. exact tie_connection_params. Qed.
Print Assumptions kernel_connection_params.

Theorem kernel_announced_vertical_name : forall g n names ilay l c l0 al,
  nth_error (layers g) 0 = Some l0 -> nth_error (layers g) ilay = Some al ->
  run (w_mulv g (n :: names) ilay l c l0 al) gen_mul_vertical_name = out_of_pair (mul_vconn g (n :: names) ilay l c).
Proof. exact tie_mul_vertical_name. Qed.
Print Assumptions kernel_announced_vertical_name.

Theorem kernel_announced_horizontal_name : forall g l h,
  run (w_mulh g l h) gen_mul_horizontal_name = OEmit (VL [VS (bn g l (hcolA h)); VS (bn g l (hcolB h))]).
Proof. exact tie_mul_horizontal_name. Qed.
Print Assumptions kernel_announced_horizontal_name.

Theorem kernel_vertical_connection : forall g bm bl l c idx this tc l0 a1 al ab ac,
  find_block bl (block_name (convention g) (lname l) (cname c) bm) = Ok this ->
  layer_index g l = Ok idx -> centre_of this = Ok tc -> nth_layer g 0 = Ok l0 ->
  (atm_type g = 1%nat -> find_block bl (block_name (convention g) (lname l0) (cname c) bm) = Ok a1) ->
  ((idx =? 1)%nat || qleb (csurf c) (ltop l) = false ->
     nth_layer g (idx - 1) = Ok al /\
     find_block bl (block_name (convention g) (lname al) (cname c) bm) = Ok ab /\ centre_of ab = Ok ac) ->
  match vconn g bm bl l c with
  | Ok (Some k) => run (w_vert g bl l c idx this tc a1 al ab ac) gen_vertical_connection = OEmit (vconn_val k) /\
                   rad (kd1 k) = 1%Q /\ rad (kd2 k) = 1%Q /\ rad (karea k) = 1%Q /\ rad (kcos k) = 1%Q
  | Ok None => run (w_vert g bl l c idx this tc a1 al ab ac) gen_vertical_connection = OSkip
  | Raise _ => False
  end.
Proof. exact tie_vertical_connection. Qed.
Print Assumptions kernel_vertical_connection.

Theorem kernel_horizontal_connection : forall g bm bl l h st b1 b2 c1 c2 d1 d2 a,
  find_block bl (block_name (convention g) (lname l) (cname (hcolA h)) bm) = Ok b1 ->
  find_block bl (block_name (convention g) (lname l) (cname (hcolB h)) bm) = Ok b2 ->
  connection_params g h st l = Some (d1, d2, a) ->
  centre_of b1 = Ok c1 -> centre_of b2 = Ok c2 ->
  exists k, hconn_conn g bm bl l (h, st) = Ok k /\
            run (w_horiz g b1 b2 c1 c2 d1 d2 a) gen_horizontal_connection = OEmit (hconn_val k).
Proof. exact tie_horizontal_connection. Qed.
Print Assumptions kernel_horizontal_connection.

Theorem kernel_atmosphere_blocks : forall g bm l0 c,
  run (w_atm g bm l0 c) gen_atmosphere_blocks =
  match atm_type g with
  | 0%nat => OEmit (block_val (mkBlock (block_name (convention g) (lname l0) (atm_colname (convention g)) bm) (Some (atm_vol g)) None true))
  | 1%nat => OEmit (block_val (mkBlock (block_name (convention g) (lname l0) (cname c) bm) (Some (atm_vol g)) (block_centre g l0 c) true))
  | _ => OSkip
  end.
Proof. exact tie_atmosphere_blocks. Qed.
Print Assumptions kernel_atmosphere_blocks.

Theorem kernel_underground_block : forall g bm n l c,
  run (w_ug g bm n l c) gen_underground_block =
  OEmit (block_val (mkBlock (apply_map bm n) (block_volume g l c) (block_centre g l c) false)).
Proof. exact tie_underground_block. Qed.
Print Assumptions kernel_underground_block.


(** geometry.polygon_area / polygon_centroid: one pass of the loop, the final expression, the text around *)
Theorem kernel_polygon_area : forall a c p1 p2 shift,
  run (w_poly a c p1 p2 shift) gen_polygon_area_step = ORet (VL [VQ (area_step a p1 p2)]) /\
  run (w_poly a c p1 p2 shift) gen_polygon_area_final = ORet (VQ (qmul (1 # 2) a)) /\
  gen_polygon_area_glue =
    ["def polygon_area(polygon):"; "    area = 0.0"; "    n = len(polygon)"; "    if n > 0:";
     "        polygon -= polygon[0]"; "        for j, p1 in enumerate(polygon):"; "            pass";
     "    return 0.5 * area"]%string.
Proof. exact tie_polygon_area. Qed.
Print Assumptions kernel_polygon_area.

Theorem kernel_polygon_centroid : forall a c p1 p2 shift,
  run (w_poly a c p1 p2 shift) gen_polygon_centroid_step =
    ORet (let r := cen_step (a, c) p1 p2 in VL [VQ (fst r); vpt (snd r)]) /\
  run (w_poly a c p1 p2 shift) gen_polygon_centroid_final = ORet (vpt (cen_final (a, c) shift)) /\
  gen_polygon_centroid_glue =
    ["def polygon_centroid(polygon):"; "    c, area = (np.zeros(2), 0.0)"; "    n = len(polygon)";
     "    shift = polygon[0]"; "    polygon -= shift"; "    if n < 3:"; "        return sum(polygon) / n + shift";
     "    else:"; "        for j, p1 in enumerate(polygon):"; "            pass"; "        area *= 0.5";
     "        return c / (6.0 * area) + shift"]%string.
Proof. exact tie_polygon_centroid. Qed.
Print Assumptions kernel_polygon_centroid.

(** the loop structure: which list is iterated, the order of the steps, what is appended *)
Theorem loop_underground_blocks_over_name_list : forall names n,
  ev [("geo.block_name_list"%string, VL (map VS names)); ("geo.num_atmosphere_blocks"%string, VN n)] gen_iter_underground_blocks
  = VL (map VS (skipn n names)).
Proof. exact tie_iter_underground_blocks. Qed.
Print Assumptions loop_underground_blocks_over_name_list.

Theorem loops_over_rock_layers : forall ls : list layer,
  ev [("geo.layerlist"%string, VL (map (fun l => VS (lname l)) ls))] gen_iter_add_connections = VL (map (fun l => VS (lname l)) (tl ls)) /\
  ev [("self.layerlist"%string, VL (map (fun l => VS (lname l)) ls))] gen_iter_name_list_layers = VL (map (fun l => VS (lname l)) (tl ls)) /\
  gen_iter_connection_names_layers = KAtom "enumerate(self.layerlist[1:])".
Proof. exact tie_iter_layers. Qed.
Print Assumptions loops_over_rock_layers.

Theorem loops_over_columns_and_connections :
  gen_iter_atmosphere_blocks = KAtom "geo.columnlist" /\ gen_iter_vertical = KAtom "layercols" /\
  gen_iter_horizontal = KAtom "[con for con in geo.connectionlist if set(con.column).issubset(layercolset)]".
Proof. exact tie_iter_columns. Qed.
Print Assumptions loops_over_columns_and_connections.

Theorem loop_structure_text :
  gen_glue_add_atmosphereblocks = exp_glue_add_atmosphereblocks /\
  gen_glue_add_blocks = exp_glue_add_blocks /\
  gen_glue_add_connections = exp_glue_add_connections /\
  gen_glue_add_horizontal_layer_connections = exp_glue_add_horizontal_layer_connections /\
  gen_glue_add_underground_blocks = exp_glue_add_underground_blocks /\
  gen_glue_add_vertical_layer_connections = exp_glue_add_vertical_layer_connections /\
  gen_glue_block_name_list_dmplex = exp_glue_block_name_list_dmplex /\
  gen_glue_block_name_list_layer_column = exp_glue_block_name_list_layer_column /\
  gen_glue_get_tilt_vector = exp_glue_get_tilt_vector /\
  gen_glue_set_atmosphere_type = exp_glue_set_atmosphere_type /\
  gen_glue_set_convention = exp_glue_set_convention /\
  gen_glue_set_block_order = exp_glue_set_block_order /\
  gen_glue_copy_layers_from = exp_glue_copy_layers_from /\
  gen_glue_fromgeo = exp_glue_fromgeo /\
  gen_glue_setup_block_connection_name_index = exp_glue_setup_block_connection_name_index /\
  gen_glue_setup_block_name_index = exp_glue_setup_block_name_index.
Proof. exact tie_glue. Qed.
Print Assumptions loop_structure_text.
