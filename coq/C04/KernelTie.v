(** C04 -- tie T for the arithmetic kernels: the trees regenerated from the Python source
    (Gen/GenKernels.v), evaluated in the environment that names the hand model's quantities,
    give exactly what the hand model (FromGeo.v) computes -- for all inputs. *)
From Coq Require Import Ascii String List Bool Arith ZArith QArith Qabs Lia.
From PTBase Require Import Exn PyStr.
From P Require Import FromGeo Arith Kx.
From Gen Require Import GenKernels.
Import ListNotations.
Open Scope string_scope.

Definition of_oq (o : option Q) : val := match o with Some q => VQ q | None => VNone end.
Definition of_centre (o : option (Q * Q * Q)) : val :=
  match o with Some (x, y, z) => VL [VQ x; VQ y; VQ z] | None => VNone end.

Ltac kred :=
  lazy -[qadd qsub qmul qdiv qleb Qltb Qgtb qmin qabs Qeq_bool str_eqb Qopp Qinv Nat.eqb
         block_surface block_volume block_centre line_projection hstatic sqdist area_step cen_step cen_final
         block_name block_name0 apply_map atm_colname assoc of_oq of_centre
         lname lbot lcen ltop cname csurf carea ccx ccy cnn hcolA hcolB hax hay hbx hby
         layers columns hconns atm_type atm_vol atm_conn convention dmplex tiltx tilty tiltz pcos psin
         bname bvol bcentre batm k1 k2 kdir kd1 kd2 karea kcos coef rad bn s2l orb andb negb fst snd].

Ltac kfin := cbn [orb andb negb Nat.eqb coef rad k1 k2 kdir kd1 kd2 karea kcos rat bname bvol bcentre batm].

(** ** mulgrid.block_surface *)
Definition w_block (g : geom) (l0 l1 l : layer) (c : column) : world :=
  [("lay.name", VS (lname l)); ("lay.top", VQ (ltop l)); ("lay.bottom", VQ (lbot l)); ("lay.centre", VQ (lcen l));
   ("col.name", VS (cname c)); ("col.surface", VQ (csurf c)); ("col.area", VQ (carea c));
   ("col.centre", VL [VQ (ccx c); VQ (ccy c)]);
   ("self.layerlist[0].name", VS (lname l0)); ("self.layerlist[0].top", VQ (ltop l0));
   ("self.layerlist[1].name", VS (lname l1));
   ("self.atmosphere_type", VN (atm_type g)); ("self.atmosphere_volume", VQ (atm_vol g));
   ("self.atmosphere_column_name", VS (atm_colname (convention g)));
   ("self.block_surface(lay, col)", of_oq (block_surface g l c))].

Theorem tie_block_surface g l0 l1 rest l c :
  layers g = l0 :: l1 :: rest ->
  run (w_block g l0 l1 l c) gen_block_surface = ORet (of_oq (block_surface g l c)).
Proof.
  intro EL. unfold block_surface. rewrite EL. kred.
  destruct (str_eqb (lname l) (lname l0)).
  - destruct (atm_type g) as [|[|n]]; reflexivity.
  - destruct (Qltb (csurf c) (ltop l)).
    + destruct (Qltb (lbot l) (csurf c)); reflexivity.
    + destruct (Qgtb (csurf c) (ltop l0)); [|reflexivity].
      destruct (str_eqb (lname l) (lname l1)); reflexivity.
Qed.

(** ** mulgrid.block_volume *)
Theorem tie_block_volume g l0 l1 rest l c :
  layers g = l0 :: l1 :: rest ->
  run (w_block g l0 l1 l c) gen_block_volume = ORet (of_oq (block_volume g l c)).
Proof.
  intro EL. unfold block_volume. rewrite EL. kred.
  destruct (str_eqb (lname l) (lname l0)).
  - destruct (atm_type g) as [|[|n]]; cbn [Nat.eqb andb];
      try destruct (str_eqb (cname c) (atm_colname (convention g))); reflexivity.
  - destruct (block_surface g l c); reflexivity.
Qed.

(** ** mulgrid.block_centre *)
Theorem tie_block_centre g l0 l1 rest l c :
  layers g = l0 :: l1 :: rest ->
  run (w_block g l0 l1 l c) gen_block_centre = ORet (of_centre (block_centre g l c)).
Proof.
  intro EL. unfold block_centre. rewrite EL. kred.
  destruct (str_eqb (lname l) (lname l0)).
  - destruct (atm_type g) as [|[|n]]; reflexivity.
  - destruct (Qltb (lbot l) (csurf c)); destruct (qleb (csurf c) (ltop l)); cbn [andb]; try reflexivity;
      destruct (qleb (csurf c) (lbot l)); reflexivity.
Qed.

(** ** the four `col.surface > lay.bottom` filters *)
Definition w_filter (l : layer) (c : column) : world :=
  [("col.surface", VQ (csurf c)); ("lay.bottom", VQ (lbot l))].
Theorem tie_filters l c :
  run (w_filter l c) gen_filter_add_connections = ORet (VB (Qgtb (csurf c) (lbot l))) /\
  run (w_filter l c) gen_filter_name_list = ORet (VB (Qgtb (csurf c) (lbot l))) /\
  run (w_filter l c) gen_filter_name_list_dmplex = ORet (VB (Qgtb (csurf c) (lbot l))) /\
  run (w_filter l c) gen_filter_connection_names = ORet (VB (Qgtb (csurf c) (lbot l))).
Proof. repeat split; reflexivity. Qed.

(** ** geometry.line_projection *)
Definition w_proj (ax ay px py qx qy : Q) : world :=
  [("a", VL [VQ ax; VQ ay]); ("line", VL [VL [VQ px; VQ py]; VL [VQ qx; VQ qy]]); ("return_xi", VB false)].
Theorem tie_line_projection ax ay px py qx qy :
  run (w_proj ax ay px py qx qy) gen_line_projection =
  ORet (let r := line_projection ax ay px py qx qy in VL [VQ (fst r); VQ (snd r)]).
Proof. reflexivity. Qed.

(** ** mulgrid.connection_params *)
Definition vsurd (s : surd) : val := VSurd (coef s) (rad s).
Definition w_params (g : geom) (l : layer) (h : hconn) : world :=
  let pa := line_projection (ccx (hcolA h)) (ccy (hcolA h)) (hax h) (hay h) (hbx h) (hby h) in
  let pb := line_projection (ccx (hcolB h)) (ccy (hcolB h)) (hax h) (hay h) (hbx h) (hby h) in
  [("con", VS (s2l "con")); ("self.connectionlist", VL [VS (s2l "con")]);
   ("lay.bottom", VQ (lbot l));
   ("con.node[0].pos", VL [VQ (hax h); VQ (hay h)]); ("con.node[1].pos", VL [VQ (hbx h); VQ (hby h)]);
   ("con.column[0].centre", VL [VQ (ccx (hcolA h)); VQ (ccy (hcolA h))]);
   ("con.column[1].centre", VL [VQ (ccx (hcolB h)); VQ (ccy (hcolB h))]);
   ("line_projection(con.column[0].centre, [con.node[0].pos, con.node[1].pos])", VL [VQ (fst pa); VQ (snd pa)]);
   ("line_projection(con.column[1].centre, [con.node[0].pos, con.node[1].pos])", VL [VQ (fst pb); VQ (snd pb)]);
   ("self.block_surface(lay, con.column[0])", of_oq (block_surface g l (hcolA h)));
   ("self.block_surface(lay, con.column[1])", of_oq (block_surface g l (hcolB h)))].
(** the tree multiplies the edge length 1*sqrt(side2) by the height: coefficient [qmul 1 height] *)
Theorem tie_connection_params g l h d1 d2 a :
  connection_params g h (hstatic h) l = Some (d1, d2, a) ->
  run (w_params g l h) gen_connection_params =
  ORet (VL [VL [vsurd d1; vsurd d2]; VSurd (qmul 1 (coef a)) (rad a)]).
Proof.
  unfold connection_params, hstatic.
  destruct (block_surface g l (hcolA h)) as [sa|] eqn:EA; [|discriminate].
  destruct (block_surface g l (hcolB h)) as [sb|] eqn:EB; [|discriminate].
  intro H. inversion H; subst; clear H. unfold w_params. rewrite EA, EB. reflexivity.
Qed.

(** ** mulgrid.setup_block_connection_name_index: the name pair of a vertical connection *)
Definition w_mulv (g : geom) (names : list str) (ilay : nat) (l : layer) (c : column) (l0 al : layer) : world :=
  [("ilay", VN ilay); ("col.surface", VQ (csurf c)); ("lay.top", VQ (ltop l));
   ("self.atmosphere_type", VN (atm_type g));
   ("self.block_name(lay.name, col.name)", VS (bn g l c));
   ("self.block_name_list", VL (map VS names));
   ("self.block_name(self.layerlist[0].name, col.name)", VS (block_name0 (convention g) (lname l0) (cname c)));
   ("self.block_name(self.layerlist[ilay].name, col.name)", VS (block_name0 (convention g) (lname al) (cname c)))].
Definition out_of_pair (r : res (option (str * str))) : outcome :=
  match r with Ok (Some (a, b)) => OEmit (VL [VS a; VS b]) | Ok None => OSkip | Raise _ => OErr end.
Theorem tie_mul_vertical_name g n names ilay l c l0 al :
  nth_error (layers g) 0 = Some l0 -> nth_error (layers g) ilay = Some al ->
  run (w_mulv g (n :: names) ilay l c l0 al) gen_mul_vertical_name = out_of_pair (mul_vconn g (n :: names) ilay l c).
Proof.
  intros H0 Hi. unfold mul_vconn. rewrite H0, Hi. kred.
  destruct (ilay =? 0)%nat; destruct (qleb (csurf c) (ltop l)); cbn [orb];
    try (destruct (atm_type g) as [|[|k]]; reflexivity); reflexivity.
Qed.
Definition w_mulh (g : geom) (l : layer) (h : hconn) : world :=
  [("tuple([self.block_name(lay.name, con.column[0].name), self.block_name(lay.name, con.column[1].name)])",
    VL [VS (bn g l (hcolA h)); VS (bn g l (hcolB h))])].
Theorem tie_mul_horizontal_name g l h :
  run (w_mulh g l h) gen_mul_horizontal_name = OEmit (VL [VS (bn g l (hcolA h)); VS (bn g l (hcolB h))]).
Proof. reflexivity. Qed.

(** ** t2grid.add_vertical_layer_connections: one iteration *)
Definition vc3 (p : Q * Q * Q) : val := VL [VQ (fst (fst p)); VQ (snd (fst p)); VQ (snd p)].
Definition w_vert (g : geom) (bl : list block) (l : layer) (c : column) (idx : nat) (this : block) (tc : Q * Q * Q)
           (a1 : block) (al : layer) (ab : block) (ac : Q * Q * Q) : world :=
  [("tilt", VL [VQ (tiltx g); VQ (tilty g); VQ (tiltz g)]);
   ("geo.layerlist.index(lay)", VN idx); ("col.surface", VQ (csurf c)); ("lay.top", VQ (ltop l));
   ("lay.centre", VQ (lcen l)); ("col.area", VQ (carea c));
   ("geo.atmosphere_type", VN (atm_type g)); ("geo.atmosphere_connection", VQ (atm_conn g));
   ("self.block[geo.block_name(lay.name, col.name, blockmap)]", VS (bname this));
   ("self.block[geo.block_name(lay.name, col.name, blockmap)].centre", vc3 tc);
   ("self.blocklist", VL (match bl with b0 :: _ => [VS (bname b0)] | [] => [] end));
   ("self.block[geo.block_name(geo.layerlist[0].name, col.name, blockmap)]", VS (bname a1));
   ("self.block[geo.block_name(geo.layerlist[geo.layerlist.index(lay) - 1].name, col.name, blockmap)]", VS (bname ab));
   ("self.block[geo.block_name(geo.layerlist[geo.layerlist.index(lay) - 1].name, col.name, blockmap)].centre", vc3 ac);
   ("geo.layerlist[geo.layerlist.index(lay) - 1].bottom", VQ (lbot al))].
(** a vertical connection of the model as the tree's t2connection(...) value: plain numbers *)
Definition vconn_val (k : conn) : val :=
  VT "t2connection" [VL [VS (k1 k); VS (k2 k)]; VN (kdir k); VL [VQ (coef (kd1 k)); VQ (coef (kd2 k))];
                     VQ (coef (karea k)); VQ (coef (kcos k))].
Theorem tie_vertical_connection g bm bl l c idx this tc l0 a1 al ab ac :
  find_block bl (block_name (convention g) (lname l) (cname c) bm) = Ok this ->
  layer_index g l = Ok idx -> centre_of this = Ok tc -> nth_layer g 0 = Ok l0 ->
  (atm_type g = 1%nat -> find_block bl (block_name (convention g) (lname l0) (cname c) bm) = Ok a1) ->
  ((idx =? 1)%nat || qleb (csurf c) (ltop l) = false ->
     nth_layer g (idx - 1) = Ok al /\
     find_block bl (block_name (convention g) (lname al) (cname c) bm) = Ok ab /\ centre_of ab = Ok ac) ->
  match vconn g bm bl l c with
  | Ok (Some k) => run (w_vert g bl l c idx this tc a1 al ab ac) gen_vertical_connection = OEmit (vconn_val k) /\
                   rad (kd1 k) = 1%Q /\ rad (kd2 k) = 1%Q /\ rad (karea k) = 1%Q /\ rad (kcos k) = 1%Q
  | Ok None => run (w_vert g bl l c idx this tc a1 al ab ac) gen_vertical_connection = OSkip
  | Raise _ => False
  end.
Proof.
  intros H1 H2 H3 H4 H5 H6. unfold vconn, w_vert. rewrite H1. cbn [bind]. rewrite H2. cbn [bind].
  destruct ((idx =? 1)%nat || qleb (csurf c) (ltop l)) eqn:Cond.
  - rewrite H4. cbn [bind]. rewrite H3. cbn [bind].
    destruct bl as [|b0 bl']; [discriminate|].
    destruct (atm_type g) as [|[|k]] eqn:A.
    + kred. rewrite Cond. unfold vconn_val. kfin. repeat split; reflexivity.
    + rewrite (H5 eq_refl). cbn [bind]. kred. rewrite Cond. unfold vconn_val. kfin. repeat split; reflexivity.
    + kred. rewrite Cond. unfold vconn_val. kfin. reflexivity.
  - destruct (H6 eq_refl) as [E1 [E2 E3]]. rewrite E1. cbn [bind]. rewrite E2. cbn [bind]. rewrite E3. cbn [bind].
    kred. rewrite Cond. unfold vconn_val. kfin. repeat split; reflexivity.
Qed.

(** ** t2grid.add_horizontal_layer_connections: one iteration *)
Definition w_horiz (g : geom) (b1 b2 : block) (c1 c2 : Q * Q * Q) (d1 d2 a : surd) : world :=
  [("tilt", VL [VQ (tiltx g); VQ (tilty g); VQ (tiltz g)]);
   ("self.block[geo.block_name(lay.name, con.column[0].name, blockmap)]", VS (bname b1));
   ("self.block[geo.block_name(lay.name, con.column[1].name, blockmap)]", VS (bname b2));
   ("self.block[geo.block_name(lay.name, con.column[0].name, blockmap)].centre", vc3 c1);
   ("self.block[geo.block_name(lay.name, con.column[1].name, blockmap)].centre", vc3 c2);
   ("cos(radians(geo.permeability_angle))", VQ (pcos g)); ("sin(radians(geo.permeability_angle))", VQ (psin g));
   ("geo.connection_params(con, lay)", VL [VL [vsurd d1; vsurd d2]; vsurd a])].
(** the tree divides d.tilt by the norm 1*sqrt(|d|^2): coefficient [qdiv (d.tilt) 1] *)
Definition hconn_val (k : conn) : val :=
  VT "t2connection" [VL [VS (k1 k); VS (k2 k)]; VN (kdir k); VL [vsurd (kd1 k); vsurd (kd2 k)]; vsurd (karea k);
                     VSurd (qdiv (coef (kcos k)) 1) (rad (kcos k))].
Theorem tie_horizontal_connection g bm bl l h st b1 b2 c1 c2 d1 d2 a :
  find_block bl (block_name (convention g) (lname l) (cname (hcolA h)) bm) = Ok b1 ->
  find_block bl (block_name (convention g) (lname l) (cname (hcolB h)) bm) = Ok b2 ->
  connection_params g h st l = Some (d1, d2, a) ->
  centre_of b1 = Ok c1 -> centre_of b2 = Ok c2 ->
  exists k, hconn_conn g bm bl l (h, st) = Ok k /\
            run (w_horiz g b1 b2 c1 c2 d1 d2 a) gen_horizontal_connection = OEmit (hconn_val k).
Proof.
  intros H1 H2 H3 H4 H5. unfold hconn_conn, w_horiz. rewrite H1. cbn [bind]. rewrite H2. cbn [bind].
  rewrite H3, H4. cbn [bind]. rewrite H5. cbn [bind]. eexists. split; [reflexivity|].
  kred. unfold hconn_val. kfin.
  destruct (qleb _ _); reflexivity.
Qed.

(** ** t2grid.add_atmosphereblocks / add_underground_blocks: the block handed to add_block *)
Definition kw (s : string) : val := VS (s2l s).
Definition block_val (b : block) : val :=
  VT "t2block" ([VS (bname b); of_oq (bvol b); VNone] ++
                (if batm b then [VL [kw "atmosphere="; VB true]] else []) ++
                [VL [kw "centre="; of_centre (bcentre b)]]).
Definition w_atm (g : geom) (bm : list (str * str)) (l0 : layer) (c : column) : world :=
  [("geo.atmosphere_type", VN (atm_type g)); ("geo.atmosphere_volume", VQ (atm_vol g));
   ("self.rocktypelist", VL [VNone]); ("atmosphere=", kw "atmosphere="); ("centre=", kw "centre="); ("True", VB true);
   ("geo.block_name(geo.layerlist[0].name, geo.atmosphere_column_name, blockmap)",
    VS (block_name (convention g) (lname l0) (atm_colname (convention g)) bm));
   ("geo.block_name(geo.layerlist[0].name, col.name, blockmap)", VS (block_name (convention g) (lname l0) (cname c) bm));
   ("geo.block_centre(geo.layerlist[0], col)", of_centre (block_centre g l0 c))].
Theorem tie_atmosphere_blocks g bm l0 c :
  run (w_atm g bm l0 c) gen_atmosphere_blocks =
  match atm_type g with
  | 0%nat => OEmit (block_val (mkBlock (block_name (convention g) (lname l0) (atm_colname (convention g)) bm) (Some (atm_vol g)) None true))
  | 1%nat => OEmit (block_val (mkBlock (block_name (convention g) (lname l0) (cname c) bm) (Some (atm_vol g)) (block_centre g l0 c) true))
  | _ => OSkip
  end.
Proof. unfold w_atm. destruct (atm_type g) as [|[|k]]; reflexivity. Qed.

Lemma in_keys_assoc n bm :
  existsb (fun e => match e with VS y => str_eqb y n | _ => false end) (map (fun p : str * str => VS (fst p)) bm) =
  match assoc n bm with Some _ => true | None => false end.
Proof.
  induction bm as [|[a b] bm IH]; [reflexivity|]. cbn [map existsb assoc fst].
  destruct (str_eqb a n); [reflexivity|exact IH].
Qed.
Definition w_ug (g : geom) (bm : list (str * str)) (n : str) (l : layer) (c : column) : world :=
  [("blkname", VS n); ("blockmap", VL (map (fun p : str * str => VS (fst p)) bm));
   ("blockmap[blkname]", match assoc n bm with Some v => VS v | None => VErr end);
   ("self.rocktypelist", VL [VNone]); ("centre=", kw "centre=");
   ("geo.block_volume(geo.layer[geo.layer_name(blkname)], geo.column[geo.column_name(blkname)])", of_oq (block_volume g l c));
   ("geo.block_centre(geo.layer[geo.layer_name(blkname)], geo.column[geo.column_name(blkname)])", of_centre (block_centre g l c))].
Theorem tie_underground_block g bm n l c :
  run (w_ug g bm n l c) gen_underground_block =
  OEmit (block_val (mkBlock (apply_map bm n) (block_volume g l c) (block_centre g l c) false)).
Proof.
  unfold w_ug, gen_underground_block, run, ev. cbn [lookup String.eqb Ascii.eqb Bool.eqb map].
  unfold vcmp, vin. rewrite in_keys_assoc. unfold apply_map.
  destruct (assoc n bm); reflexivity.
Qed.

(** ** geometry.polygon_area / polygon_centroid: one pass of the loop, the final expression, and the
    text around them (what is iterated: [enumerate(polygon)] with p2 = polygon[(j + 1) % n]) *)
Definition vpt (p : pt) : val := VL [VQ (fst p); VQ (snd p)].
Definition w_poly (a : Q) (c p1 p2 shift : pt) : world :=
  [("area", VQ a); ("c", vpt c); ("p1", vpt p1); ("polygon[(j + 1) % n]", vpt p2); ("shift", vpt shift)].
Theorem tie_polygon_area a c p1 p2 shift :
  run (w_poly a c p1 p2 shift) gen_polygon_area_step = ORet (VL [VQ (area_step a p1 p2)]) /\
  run (w_poly a c p1 p2 shift) gen_polygon_area_final = ORet (VQ (qmul (1 # 2) a)) /\
  gen_polygon_area_glue =
    ["def polygon_area(polygon):"; "    area = 0.0"; "    n = len(polygon)"; "    if n > 0:";
     "        polygon -= polygon[0]"; "        for j, p1 in enumerate(polygon):"; "            pass";
     "    return 0.5 * area"].
Proof. repeat split; reflexivity. Qed.
Theorem tie_polygon_centroid a c p1 p2 shift :
  run (w_poly a c p1 p2 shift) gen_polygon_centroid_step =
    ORet (let r := cen_step (a, c) p1 p2 in VL [VQ (fst r); vpt (snd r)]) /\
  run (w_poly a c p1 p2 shift) gen_polygon_centroid_final = ORet (vpt (cen_final (a, c) shift)) /\
  gen_polygon_centroid_glue =
    ["def polygon_centroid(polygon):"; "    c, area = (np.zeros(2), 0.0)"; "    n = len(polygon)";
     "    shift = polygon[0]"; "    polygon -= shift"; "    if n < 3:"; "        return sum(polygon) / n + shift";
     "    else:"; "        for j, p1 in enumerate(polygon):"; "            pass"; "        area *= 0.5";
     "        return c / (6.0 * area) + shift"].
Proof. repeat split; reflexivity. Qed.
