(** C04 -- generic list / result-monad lemmas used by the proofs. *)
From Coq Require Import Ascii String List Bool Arith Lia Permutation.
From PTBase Require Import Exn PyStr.
From P Require Import FromGeo.
Import ListNotations.

(** ** mapM *)
Lemma mapM_ok {A B} (f : A -> res B) (h : A -> B) l :
  (forall x, In x l -> f x = Ok (h x)) -> mapM f l = Ok (map h l).
Proof.
  induction l as [|a l IH]; intro H; [reflexivity|].
  cbn [mapM map]. rewrite (H a (or_introl eq_refl)). cbn [bind].
  rewrite IH by (intros x Hx; apply H; right; exact Hx). reflexivity.
Qed.

Lemma mapM_rel {A B C} (R : B -> C -> Prop) (f : A -> res B) (f' : A -> res C) l :
  (forall x, In x l -> exists r r', f x = Ok r /\ f' x = Ok r' /\ R r r') ->
  exists rs rs', mapM f l = Ok rs /\ mapM f' l = Ok rs' /\ Forall2 R rs rs'.
Proof.
  induction l as [|a l IH]; intro H.
  - exists [], []. repeat split; constructor.
  - destruct (H a (or_introl eq_refl)) as [r [r' [E [E' HR]]]].
    destruct IH as [rs [rs' [M [M' F]]]]; [intros x Hx; apply H; right; exact Hx|].
    exists (r :: rs), (r' :: rs'). cbn [mapM]. rewrite E, E', M, M'. cbn [bind].
    repeat split. constructor; assumption.
Qed.

Lemma mapM_inv {A B} (f : A -> res B) l rs :
  mapM f l = Ok rs -> Forall2 (fun x r => f x = Ok r) l rs.
Proof.
  revert rs; induction l as [|a l IH]; intros rs H; cbn [mapM] in H.
  - inversion H; constructor.
  - destruct (f a) as [b|e] eqn:E; [|discriminate]. cbn [bind] in H.
    destruct (mapM f l) as [bs|e] eqn:M; [|discriminate]. cbn [bind] in H. inversion H; subst.
    constructor; [exact E|apply IH; reflexivity].
Qed.

(** ** cat_some *)
Lemma cat_some_rel {A B C} (fa : A -> C) (fb : B -> C) (xs : list (option A)) (ys : list (option B)) :
  Forall2 (fun x y => option_map fa x = option_map fb y) xs ys ->
  map fa (cat_some xs) = map fb (cat_some ys).
Proof.
  induction 1 as [|x y xs ys H F IH]; [reflexivity|].
  destruct x as [x|], y as [y|]; cbn [option_map] in H; try discriminate; cbn [cat_some map].
  - inversion H. rewrite IH. reflexivity.
  - exact IH.
Qed.
Lemma in_cat_some {A} (x : A) l : In x (cat_some l) <-> In (Some x) l.
Proof.
  induction l as [|[a|] l IH]; cbn [cat_some In]; [tauto| |].
  - rewrite IH. split; intros [H|H]; auto; [left; congruence|left; inversion H; reflexivity].
  - rewrite IH. split; [auto|intros [H|H]; [discriminate|exact H]].
Qed.

(** ** enum_from *)
Lemma enum_from_nth {A} (l : list A) : forall k i x,
  In (i, x) (enum_from k l) -> (k <= i)%nat /\ nth_error l (i - k) = Some x.
Proof.
  induction l as [|a l IH]; intros k i x H; cbn [enum_from In] in H; [contradiction|].
  destruct H as [H|H].
  - inversion H; subst. split; [lia|]. rewrite Nat.sub_diag. reflexivity.
  - apply IH in H as [Hk Hn]. split; [lia|].
    replace (i - k)%nat with (S (i - S k)) by lia. exact Hn.
Qed.
Lemma map_snd_enum_from {A} (l : list A) k : map snd (enum_from k l) = l.
Proof. revert k; induction l as [|a l IH]; intro k; cbn [enum_from map snd]; [reflexivity|]. rewrite IH. reflexivity. Qed.

(** ** map / flat_map / filter *)
Lemma map_flat_map {A B C} (f : B -> C) (h : A -> list B) l :
  map f (flat_map h l) = flat_map (fun x => map f (h x)) l.
Proof. induction l as [|a l IH]; cbn [flat_map map]; [reflexivity|]. rewrite map_app, IH. reflexivity. Qed.
Lemma filter_map_comm {A B} (p : B -> bool) (f : A -> B) l :
  filter p (map f l) = map f (filter (fun x => p (f x)) l).
Proof.
  induction l as [|a l IH]; cbn [map filter]; [reflexivity|].
  destruct (p (f a)); cbn [map]; rewrite IH; reflexivity.
Qed.
Lemma concat_map_flat_map {A B} (h : A -> list B) l : concat (map h l) = flat_map h l.
Proof. symmetry. apply flat_map_concat_map. Qed.

(** a list splits into the elements that satisfy [p] and those that satisfy [q] when every
    element satisfies exactly one of them *)
Lemma filter_partition_perm {A} (p q : A -> bool) l :
  (forall x, In x l -> p x = negb (q x)) -> Permutation (filter p l ++ filter q l) l.
Proof.
  induction l as [|a l IH]; intro H; cbn [filter]; [constructor|].
  pose proof (H a (or_introl eq_refl)) as Ha.
  assert (IH' : Permutation (filter p l ++ filter q l) l) by (apply IH; intros x Hx; apply H; right; exact Hx).
  destruct (q a); cbn [negb] in Ha; rewrite Ha.
  - apply Permutation_sym. apply Permutation_cons_app. apply Permutation_sym. exact IH'.
  - cbn [app]. constructor. exact IH'.
Qed.

(** ** keyed lists without duplicate keys *)
Section Keyed.
  Context {A : Type} (key : A -> str).

  Lemma find_key_nodup (l : list A) x :
    NoDup (map key l) -> In x l -> find (fun y => str_eqb (key y) (key x)) l = Some x.
  Proof.
    induction l as [|a l IH]; intros ND Hin; [contradiction|].
    cbn [map] in ND. inversion ND as [|k ks Hnot ND']; subst.
    cbn [find]. destruct Hin as [->|Hin].
    - rewrite str_eqb_refl. reflexivity.
    - destruct (str_eqb (key a) (key x)) eqn:E.
      + apply str_eqb_eq in E. exfalso. apply Hnot. rewrite E. apply in_map. exact Hin.
      + apply IH; assumption.
  Qed.

  Lemma find_key_some (l : list A) k x :
    find (fun y => str_eqb (key y) k) l = Some x -> In x l /\ key x = k.
  Proof.
    intro H. apply find_some in H as [H1 H2]. apply str_eqb_eq in H2. auto.
  Qed.

  Lemma existsb_key_false (l : list A) k :
    ~ In k (map key l) -> existsb (fun y => str_eqb (key y) k) l = false.
  Proof.
    induction l as [|a l IH]; intro H; [reflexivity|]. cbn [existsb map In] in *.
    destruct (str_eqb (key a) k) eqn:E.
    - apply str_eqb_eq in E. exfalso. apply H. left. exact E.
    - cbn [orb]. apply IH. intro Hin. apply H. right. exact Hin.
  Qed.
End Keyed.

(** adding blocks with pairwise different names just appends them *)
Lemma fold_add_block_nodup calls : forall acc,
  NoDup (map bname (acc ++ calls)) -> fold_left add_block calls acc = (acc ++ calls)%list.
Proof.
  induction calls as [|b calls IH]; intros acc ND; cbn [fold_left].
  - rewrite app_nil_r. reflexivity.
  - assert (E : add_block acc b = (acc ++ [b])%list).
    { unfold add_block. rewrite existsb_key_false; [reflexivity|].
      rewrite map_app in ND. cbn [map] in ND. apply NoDup_remove_2 in ND.
      intro H. apply ND. apply in_or_app. left. exact H. }
    rewrite E. rewrite IH; rewrite <- app_assoc; cbn [app]; [reflexivity|exact ND].
Qed.

Definition ckey (k : conn) : str * str := (k1 k, k2 k).
Lemma existsb_same_key_false cl k :
  ~ In (ckey k) (map ckey cl) -> existsb (fun x => same_key x k) cl = false.
Proof.
  induction cl as [|a cl IH]; intro H; [reflexivity|]. cbn [existsb map In] in *.
  destruct (same_key a k) eqn:E.
  - unfold same_key in E. apply andb_prop in E as [E1 E2].
    apply str_eqb_eq in E1. apply str_eqb_eq in E2. exfalso. apply H. left. unfold ckey. congruence.
  - cbn [orb]. apply IH. intro Hin. apply H. right. exact Hin.
Qed.
Lemma fold_add_connection_nodup calls : forall acc,
  NoDup (map ckey (acc ++ calls)) -> fold_left add_connection calls acc = (acc ++ calls)%list.
Proof.
  induction calls as [|b calls IH]; intros acc ND; cbn [fold_left].
  - rewrite app_nil_r. reflexivity.
  - assert (E : add_connection acc b = (acc ++ [b])%list).
    { unfold add_connection. rewrite existsb_same_key_false; [reflexivity|].
      rewrite map_app in ND. cbn [map] in ND. apply NoDup_remove_2 in ND.
      intro H. apply ND. apply in_or_app. left. exact H. }
    rewrite E. rewrite IH; rewrite <- app_assoc; cbn [app]; [reflexivity|exact ND].
Qed.

(** index of a layer in a list with distinct names *)
Lemma index_from_nth ls : forall k i l,
  NoDup (map lname ls) -> nth_error ls i = Some l -> index_from k (lname l) ls = Ok (k + i)%nat.
Proof.
  induction ls as [|a ls IH]; intros k i l ND H; [destruct i; discriminate|].
  cbn [map] in ND. inversion ND as [|x xs Hnot ND']; subst.
  destruct i as [|i]; cbn [nth_error] in H; cbn [index_from].
  - inversion H; subst. rewrite str_eqb_refl. f_equal. lia.
  - destruct (str_eqb (lname a) (lname l)) eqn:E.
    + apply str_eqb_eq in E. exfalso. apply Hnot. rewrite E. apply in_map. eapply nth_error_In. exact H.
    + rewrite (IH (S k) i l ND' H). f_equal. lia.
Qed.
