(** C04 -- a concrete geometry that meets every hypothesis of the theorems (three columns in a
    row, three rock layers; one column pokes above the top layer, one is cut inside layer 1,
    one only starts in layer 2), with a block-name mapping. *)
From Coq Require Import Ascii String List Bool Arith ZArith QArith Qminmax Lia Lqa Permutation.
From PTBase Require Import Exn PyStr.
From P Require Import FromGeo Arith Lists NamesAgree Volume ConnGeom ConnNoDup Area.
Import ListNotations.
Open Scope Q_scope.

Definition la0 := mkLayer (s2l " 0") 0 0 0.
Definition la1 := mkLayer (s2l " 1") (-10) (-5) 0.
Definition la2 := mkLayer (s2l " 2") (-20) (-15) (-10).
Definition la3 := mkLayer (s2l " 3") (-30) (-25) (-20).
Definition ca := mkColumn (s2l "  a") 3 1 (1 # 2) (1 # 2) 4 [(0, 0); (1, 0); (1, 1); (0, 1)].
Definition cb := mkColumn (s2l "  b") (-4) 1 (3 # 2) (1 # 2) 4 [(1, 0); (2, 0); (2, 1); (1, 1)].
Definition cc := mkColumn (s2l "  c") (-12) 2 (3) (1 # 2) 4 [(2, 0); (4, 0); (4, 1); (2, 1)].
Definition hab := mkHconn ca cb 1 0 1 1.
Definition hbc := mkHconn cb cc 2 0 2 1.
Definition g_ex (atm : nat) : geom :=
  mkGeom [la0; la1; la2; la3] [ca; cb; cc] [hab; hbc] atm (1 # 1) (1 # 1000) 0 false 0 0 (-1) 1 0.
Definition bm_ex : list (str * str) := [(s2l "  b 2", s2l "XYZ 7"); (s2l "nope1", s2l "nope2")].

Fixpoint nodupb {A} (eqb : A -> A -> bool) (l : list A) : bool :=
  match l with [] => true | a :: r => negb (existsb (eqb a) r) && nodupb eqb r end.
Lemma nodupb_sound {A} (eqb : A -> A -> bool) (l : list A) :
  (forall a b, a = b -> eqb a b = true) -> nodupb eqb l = true -> NoDup l.
Proof.
  intro R. induction l as [|a l IH]; intro H; [constructor|].
  cbn [nodupb] in H. apply andb_prop in H as [H1 H2]. constructor; [|apply IH; exact H2].
  intro Hin. apply negb_true_iff in H1.
  assert (existsb (eqb a) l = true) by (apply existsb_exists; exists a; split; [exact Hin|apply R; reflexivity]).
  congruence.
Qed.
Definition pair_eqb (a b : str * str) : bool := str_eqb (fst a) (fst b) && str_eqb (snd a) (snd b).
Lemma str_eqb_r a b : a = b -> str_eqb a b = true.
Proof. intros ->. apply str_eqb_refl. Qed.
Lemma pair_eqb_r a b : a = b -> pair_eqb a b = true.
Proof. intros ->. unfold pair_eqb. rewrite !str_eqb_refl. reflexivity. Qed.

Example ex_wf atm : (atm <= 2)%nat -> wf (g_ex atm).
Proof.
  intro LE. constructor.
  - discriminate.
  - exact LE.
  - apply (nodupb_sound str_eqb _ str_eqb_r). reflexivity.
  - apply (nodupb_sound str_eqb _ str_eqb_r). reflexivity.
  - intros l c Hl Hc. cbn in Hl, Hc.
    destruct Hl as [<-|[<-|[<-|[]]]]; destruct Hc as [<-|[<-|[<-|[]]]]; split; reflexivity.
  - intros h Hh. cbn in Hh. destruct Hh as [<-|[<-|[]]]; cbn; tauto.
  - intros i a b Ha Hb. cbn [g_ex layers] in Ha, Hb.
    destruct i as [|[|[|[|i]]]]; cbn [nth_error] in Ha, Hb; try discriminate;
      inversion Ha; inversion Hb; subst; reflexivity.
Qed.
Example ex_layers_wf atm : layers_wf (g_ex atm).
Proof.
  constructor.
  - intros l0 H. cbn in H. inversion H. reflexivity.
  - intros l Hl. cbn in Hl. destruct Hl as [<-|[<-|[<-|[]]]]; cbn; lra.
Qed.
Example ex_edges_wf atm : edges_wf (g_ex atm).
Proof. intros h Hh. cbn in Hh. destruct Hh as [<-|[<-|[]]]; vm_compute; discriminate. Qed.
Example ex_surfaces atm : tl (layers (g_ex atm)) <> [] /\ forall c, In c (columns (g_ex atm)) -> bottom_of (g_ex atm) < csurf c.
Proof.
  split; [discriminate|]. intros c Hc. cbn in Hc. destruct Hc as [<-|[<-|[<-|[]]]]; reflexivity.
Qed.
Example ex_untilted atm : untilted (g_ex atm).
Proof. repeat split; reflexivity. Qed.

Definition names_ex0 : list str :=
  map s2l ["ATM 0"; "  a 1"; "  b 1"; "  a 2"; "  b 2"; "  c 2"; "  a 3"; "  b 3"; "  c 3"]%string.

Example ex_names : block_name_list (g_ex 0) = Ok names_ex0.
Proof. vm_compute. reflexivity. Qed.
Example ex_names_nodup : NoDup (map (apply_map bm_ex) names_ex0).
Proof. apply (nodupb_sound str_eqb _ str_eqb_r). vm_compute. reflexivity. Qed.
(** the mapping is not the identity on the announced names *)
Example ex_map_used : map (apply_map bm_ex) names_ex0 <> names_ex0.
Proof. vm_compute. discriminate. Qed.

Definition cnl_ex0 : list (str * str) :=
  map (fun p => (s2l (fst p), s2l (snd p)))
    [("  a 1", "ATM 0"); ("  b 1", "ATM 0"); ("  a 1", "  b 1");
     ("  a 2", "  a 1"); ("  b 2", "  b 1"); ("  c 2", "ATM 0"); ("  a 2", "  b 2"); ("  b 2", "  c 2");
     ("  a 3", "  a 2"); ("  b 3", "  b 2"); ("  c 3", "  c 2"); ("  a 3", "  b 3"); ("  b 3", "  c 3")]%string.
Example ex_cnames : block_connection_name_list (g_ex 0) = Ok cnl_ex0.
Proof. vm_compute. reflexivity. Qed.
Example ex_cnames_nodup : NoDup (map (map_pair bm_ex) cnl_ex0).
Proof. apply (nodupb_sound pair_eqb _ pair_eqb_r). vm_compute. reflexivity. Qed.

(** the grid of the example: names, volumes, total volume *)
Example ex_blocks :
  exists bl, fromgeo_blocks (g_ex 0) bm_ex = Ok bl /\
    map bname bl = map (apply_map bm_ex) names_ex0 /\
    map bvol bl = [Some 1; Some 13; Some 6; Some 10; Some 10; Some 16; Some 10; Some 10; Some 20] /\
    rock_volume bl == 1 * (3 - -30) + 1 * (-4 - -30) + 2 * (-12 - -30).
Proof. eexists. split; [vm_compute; reflexivity|]. split; [|split]; vm_compute; reflexivity. Qed.

Example ex_conns :
  exists cs, fromgeo_conns (g_ex 0) bm_ex = Ok cs /\ map ckey cs = map (map_pair bm_ex) cnl_ex0 /\
    (* a truncated block beside a full one, and two full blocks *)
    map (fun k => Qeq_bool (coef (kcos k)) 0) cs =
      [false; false; false;  false; false; false; true; false;  false; false; false; true; true].
Proof. eexists. split; [vm_compute; reflexivity|]. split; vm_compute; reflexivity. Qed.

(** one atmosphere block per column, and no atmosphere blocks *)
Example ex_atm1 :
  exists names cnl bl cs, block_name_list (g_ex 1) = Ok names /\ NoDup (map (apply_map bm_ex) names) /\
    block_connection_name_list (g_ex 1) = Ok cnl /\ NoDup (map (map_pair bm_ex) cnl) /\
    fromgeo_blocks (g_ex 1) bm_ex = Ok bl /\ fromgeo_conns (g_ex 1) bm_ex = Ok cs /\
    length bl = 11%nat /\ length cs = 13%nat.
Proof.
  eexists _, _, _, _. split; [vm_compute; reflexivity|].
  split; [apply (nodupb_sound str_eqb _ str_eqb_r); vm_compute; reflexivity|].
  split; [vm_compute; reflexivity|].
  split; [apply (nodupb_sound pair_eqb _ pair_eqb_r); vm_compute; reflexivity|].
  split; [vm_compute; reflexivity|]. split; [vm_compute; reflexivity|]. split; reflexivity.
Qed.
Example ex_atm2 :
  exists names cnl bl cs, block_name_list (g_ex 2) = Ok names /\ NoDup (map (apply_map bm_ex) names) /\
    block_connection_name_list (g_ex 2) = Ok cnl /\ NoDup (map (map_pair bm_ex) cnl) /\
    fromgeo_blocks (g_ex 2) bm_ex = Ok bl /\ fromgeo_conns (g_ex 2) bm_ex = Ok cs /\
    length bl = 8%nat /\ length cs = 10%nat.
Proof.
  eexists _, _, _, _. split; [vm_compute; reflexivity|].
  split; [apply (nodupb_sound str_eqb _ str_eqb_r); vm_compute; reflexivity|].
  split; [vm_compute; reflexivity|].
  split; [apply (nodupb_sound pair_eqb _ pair_eqb_r); vm_compute; reflexivity|].
  split; [vm_compute; reflexivity|]. split; [vm_compute; reflexivity|]. split; reflexivity.
Qed.

Example ex_hyps atm : (atm <= 2)%nat ->
  wf (g_ex atm) /\ layers_wf (g_ex atm) /\ edges_wf (g_ex atm) /\ untilted (g_ex atm) /\
  tl (layers (g_ex atm)) <> [] /\ (forall c, In c (columns (g_ex atm)) -> bottom_of (g_ex atm) < csurf c).
Proof.
  intro LE. split; [exact (ex_wf atm LE)|]. split; [exact (ex_layers_wf atm)|]. split; [exact (ex_edges_wf atm)|].
  split; [exact (ex_untilted atm)|]. exact (ex_surfaces atm).
Qed.
Example ex_names_all :
  block_name_list (g_ex 0) = Ok names_ex0 /\ NoDup (map (apply_map bm_ex) names_ex0) /\
  map (apply_map bm_ex) names_ex0 <> names_ex0 /\
  block_connection_name_list (g_ex 0) = Ok cnl_ex0 /\ NoDup (map (map_pair bm_ex) cnl_ex0).
Proof. exact (conj ex_names (conj ex_names_nodup (conj ex_map_used (conj ex_cnames ex_cnames_nodup)))). Qed.

Example ex_hpairs atm : hpairs_distinct (g_ex atm).
Proof. apply (nodupb_sound pair_eqb _ pair_eqb_r). vm_compute. reflexivity. Qed.

Example ex_areas atm : areas_from_nodes (g_ex atm).
Proof. intros c Hc. cbn in Hc. destruct Hc as [<-|[<-|[<-|[]]]]; vm_compute; reflexivity. Qed.
