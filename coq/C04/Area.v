(** C04 -- the column area from the node coordinates: [polygon_area] (the code's loop, after the shift
    by the first node) is half the shoelace sum of the unshifted coordinates, and the volume theorems
    read with that area. *)
From Coq Require Import Ascii String List Bool Arith ZArith QArith Lia Lqa Permutation Setoid.
From PTBase Require Import Exn PyStr.
From P Require Import FromGeo Arith Lists NamesAgree Volume.
Import ListNotations.
Open Scope Q_scope.

(** [column.get_area]: the stored area is polygon_area of the node positions *)
Definition areas_from_nodes (g : geom) : Prop :=
  forall c, In c (columns g) -> carea c = polygon_area (cpoly c).

Definition cross2 (p q : pt) : Q := fst p * snd q - fst q * snd p.
(** twice the signed area: sum over the edges (p_j, p_j+1), cyclically *)
Definition shoelace (l : list pt) : Q := qsum (map (fun pq => cross2 (fst pq) (snd pq)) (cyc_pairs l)).

Lemma fold_area_step (l : list (pt * pt)) : forall a,
  fold_left (fun a pq => area_step a (fst pq) (snd pq)) l a == a + qsum (map (fun pq => cross2 (fst pq) (snd pq)) l).
Proof.
  induction l as [|x l IH]; intro a; cbn [fold_left map]; [unfold qsum; cbn; ring|].
  rewrite IH, qsum_cons. unfold area_step, cross2. rewrite qadd_eq, qsub_eq, !qmul_eq. ring.
Qed.

Lemma combine_map_l {A B C} (f : A -> C) (a : list A) (b : list B) :
  combine (map f a) b = map (fun p => (f (fst p), snd p)) (combine a b).
Proof. revert b; induction a as [|x a IH]; intros [|y b]; cbn; try reflexivity. rewrite IH. reflexivity. Qed.
Lemma cyc_pairs_map (f : pt -> pt) l : cyc_pairs (map f l) = map (fun pq => (f (fst pq), f (snd pq))) (cyc_pairs l).
Proof.
  destruct l as [|p r]; [reflexivity|]. unfold cyc_pairs. cbn [map].
  replace (map f r ++ [f p])%list with (map f (r ++ [p])) by (rewrite map_app; reflexivity).
  change (f p :: map f r) with (map f (p :: r)).
  generalize (p :: r) (r ++ [p])%list. intros a b. revert b. induction a as [|x a IH]; intros [|y b]; cbn; try reflexivity.
  rewrite IH. reflexivity.
Qed.
Lemma map_fst_combine {A B} (a : list A) (b : list B) : length a = length b -> map fst (combine a b) = a.
Proof. revert b; induction a as [|x a IH]; intros [|y b] H; cbn in *; try discriminate; [reflexivity|]. rewrite IH; [reflexivity|lia]. Qed.
Lemma map_snd_combine {A B} (a : list A) (b : list B) : length a = length b -> map snd (combine a b) = b.
Proof. revert b; induction a as [|x a IH]; intros [|y b] H; cbn in *; try discriminate; [reflexivity|]. rewrite IH; [reflexivity|lia]. Qed.

(** a sum over the second end points of the cyclic edges is the sum over the first end points *)
Lemma cyc_sum_shift (f : pt -> Q) l :
  qsum (map (fun pq => f (snd pq)) (cyc_pairs l)) == qsum (map (fun pq => f (fst pq)) (cyc_pairs l)).
Proof.
  destruct l as [|p r]; [reflexivity|]. unfold cyc_pairs.
  assert (L : length (p :: r) = length (r ++ [p])%list) by (rewrite app_length; cbn; lia).
  rewrite <- (map_map snd f), <- (map_map fst f), (map_snd_combine _ _ L), (map_fst_combine _ _ L).
  rewrite map_app, qsum_app. cbn [map]. rewrite !qsum_cons. unfold qsum at 2. cbn [fold_right]. ring.
Qed.

(** polygon_area's shift by the first node does not change the value: half the shoelace sum *)
Theorem polygon_area_shoelace_lemma l : polygon_area l == shoelace l / 2.
Proof.
  destruct l as [|s r]; [unfold polygon_area, shoelace; rewrite qmul_eq; unfold cyc_pairs, qsum; cbn [map fold_right]; field|].
  unfold polygon_area. rewrite qmul_eq, fold_area_step, cyc_pairs_map, map_map. cbn [fst snd].
  set (l := s :: r). unfold shoelace.
  assert (E : qsum (map (fun x : pt * pt => cross2 (psub (fst x) s) (psub (snd x) s)) (cyc_pairs l)) ==
              qsum (map (fun pq => cross2 (fst pq) (snd pq)) (cyc_pairs l))
              + (qsum (map (fun pq => cross2 s (fst pq)) (cyc_pairs l)) - qsum (map (fun pq => cross2 s (snd pq)) (cyc_pairs l)))).
  { generalize (cyc_pairs l). intro ps. induction ps as [|x ps IH]; [unfold qsum; cbn; ring|].
    cbn [map]. rewrite !qsum_cons, IH. unfold cross2, psub. cbn [fst snd]. rewrite !qsub_eq. ring. }
  rewrite E, (cyc_sum_shift (fun q => cross2 s q) l). field.
Qed.

Section FromNodes.
  Variable g : geom.
  Hypothesis W : wf g.
  Hypothesis LW : layers_wf g.
  Hypothesis AN : areas_from_nodes g.

  Theorem block_volume_from_nodes_lemma bm names bl :
    block_name_list g = Ok names -> NoDup (map (apply_map bm) names) -> fromgeo_blocks g bm = Ok bl ->
    Forall (fun b => batm b = false ->
              exists i l c v, nth_error (layers g) (S i) = Some l /\ In c (columns g) /\ lbot l < csurf c /\
                              bname b = block_name (convention g) (lname l) (cname c) bm /\
                              bvol b = Some v /\ v == shoelace (cpoly c) / 2 * block_height i l c) bl.
  Proof.
    intros Hn ND Hb. pose proof (block_volumes_lemma g W LW bm names bl Hn ND Hb) as F.
    eapply Forall_impl; [|exact F]. intros b H Hatm.
    destruct (H Hatm) as [i [l [c [v [H1 [H2 [H3 [H4 [H5 H6]]]]]]]]].
    exists i, l, c, v. repeat split; auto. rewrite H6, (AN c H2), polygon_area_shoelace_lemma. reflexivity.
  Qed.

  Theorem total_volume_from_nodes_lemma bm names bl :
    tl (layers g) <> [] -> (forall c, In c (columns g) -> bottom_of g < csurf c) ->
    block_name_list g = Ok names -> NoDup (map (apply_map bm) names) -> fromgeo_blocks g bm = Ok bl ->
    rock_volume bl == qsum (map (fun c => shoelace (cpoly c) / 2 * (csurf c - bottom_of g)) (columns g)).
  Proof.
    intros NE Hs Hn ND Hb. rewrite (total_volume_lemma g W LW bm names bl NE Hs Hn ND Hb).
    apply qsum_map_ext. intros c Hc. rewrite (AN c Hc), polygon_area_shoelace_lemma. reflexivity.
  Qed.
End FromNodes.
