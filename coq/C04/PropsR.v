(** C04 -- the connection theorems read in the real numbers ([surdR s] = coef s * sqrt (rad s)):
    these rest on the axioms of Coq's classical real numbers; their rational cores in Props.v
    do not. *)
From Coq Require Import List QArith Qminmax Qreals Reals.
From PTBase Require Import Exn PyStr.
From P Require Import FromGeo Arith Lists NamesAgree Volume ConnGeom SurdR Tilt.
Open Scope R_scope.

Theorem horiz_conn_area_real : forall g bm i l h k,
  horizontal_spec_at g bm i l h k ->
  surdR (karea k) = edge_len h * Rmin (Q2R (block_height i l (hcolA h))) (Q2R (block_height i l (hcolB h))).
Proof. exact horizontal_area_R. Qed.
Print Assumptions horiz_conn_area_real.

Theorem horiz_conn_distances_real : forall g bm i l h k,
  horizontal_spec_at g bm i l h k -> ~ (edge2 h == 0)%Q ->
  surdR (kd1 k) = Rabs (Q2R (cross h (ccx (hcolA h)) (ccy (hcolA h)))) / edge_len h /\
  surdR (kd2 k) = Rabs (Q2R (cross h (ccx (hcolB h)) (ccy (hcolB h)))) / edge_len h.
Proof. exact horizontal_distances_R. Qed.
Print Assumptions horiz_conn_distances_real.

Theorem horiz_conn_dircos_real : forall g bm i l h k,
  horizontal_spec_at g bm i l h k ->
  let dx := (ccx (hcolB h) - ccx (hcolA h))%Q in
  let dy := (ccy (hcolB h) - ccy (hcolA h))%Q in
  let dz := (zcentre l (hcolB h) - zcentre l (hcolA h))%Q in
  ~ (dx ^ 2 + dy ^ 2 + dz ^ 2 == 0)%Q ->
  surdR (kcos k) =
    (Q2R dx * Q2R (tiltx g) + Q2R dy * Q2R (tilty g) + Q2R dz * Q2R (tiltz g)) /
    sqrt ((Q2R dx)² + (Q2R dy)² + (Q2R dz)²).
Proof. exact horizontal_dircos_R. Qed.
Print Assumptions horiz_conn_dircos_real.

Theorem vertical_conn_real : forall g bm i l c k,
  vertical_spec_at g bm i l c k ->
  surdR (karea k) = Q2R (carea c) /\
  (untilted g -> surdR (kcos k) = -1) /\
  (is_top i l c = false -> exists al, nth_error (layers g) i = Some al /\
     surdR (kd1 k) + surdR (kd2 k) = Q2R (zcentre al c) - Q2R (zcentre l c)) /\
  (is_top i l c = true ->
     surdR (kd1 k) = Q2R (csurf c) - Q2R (zcentre l c) /\ surdR (kd2 k) = Q2R (atm_conn g)).
Proof. exact vertical_R. Qed.
Print Assumptions vertical_conn_real.

(** ** tilted geometries: mulgrid.get_tilt_vector over the reals *)
Theorem tilt_vector_closed_form : forall gx gy,
  gx * gx + gy * gy <= 1 -> gy * gy < 1 ->
  tilt_vector_R gx gy = (gx, gy, - sqrt (1 - gx * gx - gy * gy)).
Proof. exact tilt_vector_closed_form_lemma. Qed.
Print Assumptions tilt_vector_closed_form.

Theorem tilt_vector_unit : forall gx gy,
  gx * gx + gy * gy <= 1 -> gy * gy < 1 ->
  let '(x, y, z) := tilt_vector_R gx gy in x * x + y * y + z * z = 1.
Proof. exact tilt_vector_unit_lemma. Qed.
Print Assumptions tilt_vector_unit.

Theorem tilt_vector_untilted : tilt_vector_R 0 0 = (0, 0, -1).
Proof. exact tilt_vector_untilted_lemma. Qed.
Print Assumptions tilt_vector_untilted.

Theorem tilt_inputs_are_the_tilt_vector : forall g gx gy, tilt_from_angles g gx gy ->
  (Q2R (tiltx g), Q2R (tilty g), Q2R (tiltz g)) = tilt_vector_R (Q2R gx) (Q2R gy) /\
  Q2R (tiltz g) = - sqrt (1 - Q2R gx * Q2R gx - Q2R gy * Q2R gy).
Proof. exact tilt_from_angles_R. Qed.
Print Assumptions tilt_inputs_are_the_tilt_vector.

Theorem vertical_dircos_tilted : forall g bm i l c k gx gy,
  vertical_spec_at g bm i l c k -> tilt_from_angles g gx gy ->
  surdR (kcos k) = - sqrt (1 - Q2R gx * Q2R gx - Q2R gy * Q2R gy).
Proof. exact vertical_dircos_tilted_lemma. Qed.
Print Assumptions vertical_dircos_tilted.

Theorem horizontal_dircos_tilted : forall g bm i l h k gx gy,
  horizontal_spec_at g bm i l h k -> tilt_from_angles g gx gy ->
  let dx := (ccx (hcolB h) - ccx (hcolA h))%Q in
  let dy := (ccy (hcolB h) - ccy (hcolA h))%Q in
  let dz := (zcentre l (hcolB h) - zcentre l (hcolA h))%Q in
  ~ (dx ^ 2 + dy ^ 2 + dz ^ 2 == 0)%Q ->
  surdR (kcos k) =
    (Q2R dx * Q2R gx + Q2R dy * Q2R gy - Q2R dz * sqrt (1 - Q2R gx * Q2R gx - Q2R gy * Q2R gy)) /
    sqrt ((Q2R dx)² + (Q2R dy)² + (Q2R dz)²).
Proof. exact horizontal_dircos_tilted_lemma. Qed.
Print Assumptions horizontal_dircos_tilted.

Theorem example_tilted_inputs :
  tilt_from_angles (mkGeom nil nil nil 0%nat 1%Q 1%Q 0%nat false (3 # 5)%Q 0%Q (- (4 # 5))%Q 1%Q 0%Q) (3 # 5)%Q 0%Q.
Proof. exact ex_tilted. Qed.
Print Assumptions example_tilted_inputs.
