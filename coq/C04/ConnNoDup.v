(** C04 -- the announced connection names are pairwise distinct as soon as the (mapped) block
    names are and no two column connections join the same ordered pair of columns: the
    hypothesis [NoDup (map (map_pair bm) cnl)] of the connection theorem is derived. *)
From Coq Require Import Ascii String List Bool Arith ZArith QArith Lia Permutation.
From PTBase Require Import Exn PyStr.
From P Require Import FromGeo Arith Lists NamesAgree Volume.
Import ListNotations.
Open Scope Q_scope.

(** ** list facts *)
Lemma NoDup_map_inj {A B} (f : A -> B) l x y :
  NoDup (map f l) -> In x l -> In y l -> f x = f y -> x = y.
Proof.
  induction l as [|a l IH]; intros ND Hx Hy E; [contradiction|].
  cbn [map] in ND. inversion ND as [|? ? Hn ND']; subst.
  destruct Hx as [->|Hx], Hy as [->|Hy]; auto.
  - exfalso. apply Hn. rewrite E. apply in_map. exact Hy.
  - exfalso. apply Hn. rewrite <- E. apply in_map. exact Hx.
Qed.
Lemma NoDup_map_on {A B} (f : A -> B) l :
  NoDup l -> (forall x y, In x l -> In y l -> f x = f y -> x = y) -> NoDup (map f l).
Proof.
  induction 1 as [|a l Hn ND IH]; intro Inj; cbn [map]; constructor.
  - intro Hin. apply in_map_iff in Hin as [y [E Hy]]. apply Hn.
    rewrite (Inj a y (or_introl eq_refl) (or_intror Hy) (eq_sym E)). exact Hy.
  - apply IH. intros x y Hx Hy. apply Inj; right; assumption.
Qed.
Lemma NoDup_app_intro {A} (a b : list A) :
  NoDup a -> NoDup b -> (forall x, In x a -> In x b -> False) -> NoDup (a ++ b).
Proof.
  induction 1 as [|x a Hn ND IH]; intros NDb D; cbn [app]; [exact NDb|]. constructor.
  - intro Hin. apply in_app_or in Hin as [Hin|Hin]; [exact (Hn Hin)|exact (D x (or_introl eq_refl) Hin)].
  - apply IH; [exact NDb|]. intros y Hy. apply D. right. exact Hy.
Qed.
Lemma NoDup_app_disjoint {A} (a b : list A) x : NoDup (a ++ b) -> In x a -> In x b -> False.
Proof.
  induction a as [|y a IH]; intros ND Ha Hb; [contradiction|]. cbn [app] in ND. inversion ND as [|? ? Hn ND']; subst.
  destruct Ha as [->|Ha]; [apply Hn; apply in_or_app; right; exact Hb|exact (IH ND' Ha Hb)].
Qed.
Lemma NoDup_app_r {A} (a b : list A) : NoDup (a ++ b) -> NoDup b.
Proof. induction a as [|y a IH]; intro ND; [exact ND|]. inversion ND; subst. apply IH. assumption. Qed.
Lemma NoDup_concat_idx {A} (chunks : list (list A)) :
  (forall i c, nth_error chunks i = Some c -> NoDup c) ->
  (forall i j ci cj x, nth_error chunks i = Some ci -> nth_error chunks j = Some cj -> In x ci -> In x cj -> i = j) ->
  NoDup (concat chunks).
Proof.
  induction chunks as [|c chunks IH]; intros H1 H2; cbn [concat]; [constructor|].
  apply NoDup_app_intro.
  - apply (H1 0%nat). reflexivity.
  - apply IH; [intros i c' Hi; apply (H1 (S i)); exact Hi|].
    intros i j ci cj x Hi Hj Hx Hy. assert (S i = S j) by (apply (H2 (S i) (S j) ci cj x); assumption). lia.
  - intros x Hx Hin. apply in_concat in Hin as [c' [Hc' Hx']]. apply In_nth_error in Hc' as [j Hj].
    assert (0 = S j)%nat by (apply (H2 0%nat (S j) c c' x); auto). discriminate.
Qed.
Lemma nth_error_enum_from {A} (l : list A) : forall k i p,
  nth_error (enum_from k l) i = Some p -> fst p = (k + i)%nat /\ nth_error l i = Some (snd p).
Proof.
  induction l as [|a l IH]; intros k i p H; [destruct i; discriminate|].
  destruct i as [|i]; cbn [enum_from nth_error] in H.
  - inversion H; subst. cbn. split; [lia|reflexivity].
  - apply IH in H as [H1 H2]. split; [lia|exact H2].
Qed.
Lemma Forall2_nth_r {A B} (R : A -> B -> Prop) xs ys i y :
  Forall2 R xs ys -> nth_error ys i = Some y -> exists x, nth_error xs i = Some x /\ R x y.
Proof.
  intro F. revert i. induction F as [|x y' xs ys HR F IH]; intros i Hi; [destruct i; discriminate|].
  destruct i as [|i]; cbn [nth_error] in *; [inversion Hi; subst; eauto|apply IH; exact Hi].
Qed.

(** no two column connections join the same ordered pair of columns *)
Definition hpairs_distinct (g : geom) : Prop :=
  NoDup (map (fun h => (cname (hcolA h), cname (hcolB h))) (hconns g)).

Section CN.
  Variables (g : geom) (bm : list (str * str)) (names : list str) (ps : list (layer * column)).
  Hypothesis W : wf g.
  Hypothesis Hperm : Permutation ps (ug_pairs g).
  Hypothesis Hnames : names = (atm_names g ++ map (bnp g) ps)%list.
  Hypothesis ND : NoDup (map (apply_map bm) names).
  Hypothesis HP : hpairs_distinct g.
  Let f := apply_map bm.
  Let F (p : layer * column) : str := f (bnp g p).
  Let fp := map_pair bm.

  Lemma F_inj p q : In p (ug_pairs g) -> In q (ug_pairs g) -> F p = F q -> p = q.
  Proof.
    intros Hp Hq E.
    assert (NDF : NoDup (map F ps)).
    { rewrite Hnames, map_app, map_map in ND. apply NoDup_app_r in ND. exact ND. }
    apply (NoDup_map_inj F ps p q NDF); [| |exact E]; eapply Permutation_in; try eassumption; apply Permutation_sym; exact Hperm.
  Qed.
  Lemma atm_ug_disjoint a p : In a (atm_names g) -> In p (ug_pairs g) -> f a <> F p.
  Proof.
    intros Ha Hp E. rewrite Hnames, map_app, map_map in ND.
    apply (NoDup_app_disjoint _ _ (f a) ND); [apply in_map; exact Ha|].
    rewrite E. apply (in_map F). eapply Permutation_in; [apply Permutation_sym; exact Hperm|exact Hp].
  Qed.
  Lemma columns_nodup : NoDup (columns g).
  Proof. apply (NoDup_map_inv cname). exact (wf_cnames g W). Qed.
  Lemma hconns_nodup : NoDup (hconns g).
  Proof. eapply NoDup_map_inv. exact HP. Qed.

  (** the shape of one announced vertical connection *)
  Lemma mul_vconn_shape i l c r :
    nth_error (layers g) (S i) = Some l -> In c (layercols g l) -> mul_vconn g names i l c = Ok (Some r) ->
    fst r = bn g l c /\
    (In (snd r) (atm_names g) \/
     exists al, nth_error (layers g) i = Some al /\ (0 < i)%nat /\ snd r = bn g al c /\ In (al, c) (ug_pairs g)).
  Proof.
    intros Hnth Hc. apply in_layercols in Hc as [Hc Hs]. unfold mul_vconn.
    destruct (layers g) as [|l0 ls] eqn:EL; [destruct i; discriminate|].
    destruct ((i =? 0)%nat || qleb (csurf c) (ltop l)) eqn:Cond.
    - cbn [nth_error]. destruct (atm_type g) as [|[|k]] eqn:A.
      + assert (Ea : atm_names g = [block_name0 (convention g) (lname l0) (atm_colname (convention g))]).
        { unfold atm_names. rewrite EL, A. reflexivity. }
        rewrite Hnames, Ea. cbn [app]. intro H. inversion H; subst r. cbn [fst snd]. split; [reflexivity|].
        left. left. reflexivity.
      + intro H. inversion H; subst r. cbn [fst snd]. split; [reflexivity|]. left.
        unfold atm_names. rewrite EL, A.
        apply (in_map (fun c0 => block_name0 (convention g) (lname l0) (cname c0))). exact Hc.
      + discriminate.
    - apply orb_false_iff in Cond as [Ci Cq]. apply Nat.eqb_neq in Ci.
      destruct i as [|j]; [contradiction|].
      destruct (nth_error (l0 :: ls) (S j)) as [al|] eqn:Hal.
      2:{ apply nth_error_None in Hal. assert (nth_error (l0 :: ls) (S (S j)) <> None) by congruence.
          apply nth_error_Some in H. lia. }
      intro H. inversion H; subst r. cbn [fst snd]. split; [reflexivity|]. right.
      exists al. split; [reflexivity|]. split; [lia|]. split; [reflexivity|].
      apply in_ug_pairs. split; [|split; [exact Hc|]].
      + rewrite EL. cbn [tl]. cbn [nth_error] in Hal. eapply nth_error_In. exact Hal.
      + assert (Hcont : ltop l == lbot al).
        { apply (wf_contig g W (S j) al l); rewrite EL; assumption. }
        rewrite <- Hcont. apply qleb_false. exact Cq.
  Qed.

  Lemma layer_in_tl i l : nth_error (layers g) (S i) = Some l -> In l (tl (layers g)).
  Proof. intro H. rewrite <- nth_error_tl in H. eapply nth_error_In. exact H. Qed.

  (** the announced connections of one layer, mapped: distinct, and each one starts at a block of
      that layer *)
  Lemma chunk_facts i l r :
    nth_error (layers g) (S i) = Some l -> mul_layer_conns g names (i, l) = Ok r ->
    NoDup (map fp r) /\
    forall x, In x (map fp r) -> exists c, In (l, c) (ug_pairs g) /\ fst x = F (l, c).
  Proof.
    intros Hnth H. pose proof (layer_in_tl i l Hnth) as Hl.
    unfold mul_layer_conns in H.
    destruct (mapM (mul_vconn g names i l) (layercols g l)) as [v|e] eqn:MV; [|discriminate]. cbn [bind] in H.
    inversion H; subst r; clear H. apply mapM_inv in MV.
    set (Hl_ := filter (hconn_in_layer l) (hconns g)).
    set (hn := fun h : hconn => (bn g l (hcolA h), bn g l (hcolB h))).
    (* every vertical entry comes from a column of the layer *)
    assert (VS : forall cols v', Forall2 (fun c o => mul_vconn g names i l c = Ok o) cols v' ->
                 (forall c, In c cols -> In c (layercols g l)) ->
                 forall x, In x (cat_some v') -> exists c, In c cols /\ mul_vconn g names i l c = Ok (Some x)).
    { intros cols v' F2. induction F2 as [|c o cols v' E F2 IH]; intros Sub x Hx; [contradiction|].
      destruct o as [r|]; cbn [cat_some] in Hx.
      - destruct Hx as [->|Hx]; [exists c; split; [left; reflexivity|exact E]|].
        destruct (IH (fun c0 H0 => Sub c0 (or_intror H0)) x Hx) as [c' [H1 H2]]. exists c'. split; [right; exact H1|exact H2].
      - destruct (IH (fun c0 H0 => Sub c0 (or_intror H0)) x Hx) as [c' [H1 H2]]. exists c'. split; [right; exact H1|exact H2]. }
    assert (INJ : forall c c', In c (layercols g l) -> In c' (layercols g l) -> F (l, c) = F (l, c') -> c = c').
    { intros c c' Hc Hc' E. apply in_layercols in Hc as [Hc Hs]. apply in_layercols in Hc' as [Hc' Hs'].
      assert (P : (l, c) = (l, c')) by (apply F_inj; [apply in_ug_pairs; tauto|apply in_ug_pairs; tauto|exact E]).
      inversion P. reflexivity. }
    (* vertical part: distinct first components *)
    assert (NDV : forall cols v', Forall2 (fun c o => mul_vconn g names i l c = Ok o) cols v' ->
                  NoDup cols -> (forall c, In c cols -> In c (layercols g l)) -> NoDup (map fp (cat_some v'))).
    { intros cols v' F2. induction F2 as [|c o cols v' E F2 IH]; intros NDc Sub; [constructor|].
      apply NoDup_cons_iff in NDc as [Hn NDc'].
      destruct o as [r|]; cbn [cat_some map]; [|apply IH; [exact NDc'|intros c0 H0; apply Sub; right; exact H0]].
      constructor; [|apply IH; [exact NDc'|intros c0 H0; apply Sub; right; exact H0]].
      intro Hin. apply in_map_iff in Hin as [r' [E' Hr']].
      destruct (VS cols v' F2 (fun c0 H0 => Sub c0 (or_intror H0)) r' Hr') as [c' [Hc' E2]].
      destruct (mul_vconn_shape i l c r Hnth (Sub c (or_introl eq_refl)) E) as [S1 _].
      destruct (mul_vconn_shape i l c' r' Hnth (Sub c' (or_intror Hc')) E2) as [S2 _].
      assert (c = c').
      { apply INJ; [apply Sub; left; reflexivity|apply Sub; right; exact Hc'|].
        unfold F, bnp. cbn [fst snd]. rewrite <- S1, <- S2.
        unfold fp, map_pair in E'. inversion E'. unfold f. congruence. }
      subst c'. exact (Hn Hc'). }
    assert (NDcols : NoDup (layercols g l)) by (apply NoDup_filter; exact columns_nodup).
    (* horizontal part *)
    assert (HIN : forall h, In h Hl_ -> In h (hconns g) /\ In (l, hcolA h) (ug_pairs g) /\ In (l, hcolB h) (ug_pairs g)).
    { intros h Hh. apply filter_In in Hh as [Hh Hin]. unfold hconn_in_layer in Hin. apply andb_prop in Hin as [HA HB].
      apply Qgtb_iff in HA. apply Qgtb_iff in HB. destruct (wf_hcols g W h Hh) as [CA CB].
      split; [exact Hh|]. split; apply in_ug_pairs; tauto. }
    assert (NDH : NoDup (map fp (map hn Hl_))).
    { rewrite map_map. apply NoDup_map_on; [apply NoDup_filter; exact hconns_nodup|].
      intros h h' Hh Hh' E. destruct (HIN h Hh) as [I1 [I2 I3]]. destruct (HIN h' Hh') as [J1 [J2 J3]].
      unfold fp, map_pair, hn in E. cbn [fst snd] in E. inversion E as [[E1 E2]].
      assert (PA : (l, hcolA h) = (l, hcolA h')) by (apply F_inj; assumption).
      assert (PB : (l, hcolB h) = (l, hcolB h')) by (apply F_inj; assumption).
      inversion PA as [EA]. inversion PB as [EB].
      apply (NoDup_map_inj (fun h0 => (cname (hcolA h0), cname (hcolB h0))) (hconns g) h h' HP I1 J1).
      cbn. rewrite EA, EB. reflexivity. }
    split.
    - rewrite map_app. apply NoDup_app_intro; [apply (NDV _ _ MV NDcols); auto|exact NDH|].
      intros x Hx Hy. apply in_map_iff in Hx as [r [Er Hr]]. apply in_map_iff in Hy as [r' [Er' Hr']].
      apply in_map_iff in Hr' as [h [Eh Hh]]. subst r'.
      destruct (VS _ _ MV (fun c0 H0 => H0) r Hr) as [c [Hc Ec]].
      destruct (mul_vconn_shape i l c r Hnth Hc Ec) as [S1 S2].
      destruct (HIN h Hh) as [I1 [I2 I3]].
      pose proof Hc as Hc2. apply in_layercols in Hc2 as [Hc3 Hs3].
      assert (E : fp r = fp (hn h)) by congruence.
      unfold fp, map_pair, hn in E. cbn [fst snd] in E. inversion E as [[E1 E2]]. rewrite S1 in E1.
      destruct S2 as [Ha|[al [Hal [Hpos [Sn Hug]]]]].
      + exact (atm_ug_disjoint _ (l, hcolB h) Ha I3 E2).
      + rewrite Sn in E2. assert (P : (al, c) = (l, hcolB h)) by (apply F_inj; assumption).
        inversion P as [[Eal Ec']]. subst al.
        assert (i = S i) by (apply (nodup_nth_names (layers g) i (S i) l l (wf_lnames g W)); auto). lia.
    - intros x Hx. rewrite map_app in Hx. apply in_app_or in Hx as [Hx|Hx].
      + apply in_map_iff in Hx as [r [Er Hr]]. destruct (VS _ _ MV (fun c0 H0 => H0) r Hr) as [c [Hc Ec]].
        destruct (mul_vconn_shape i l c r Hnth Hc Ec) as [S1 _]. apply in_layercols in Hc as [Hc Hs].
        exists c. split; [apply in_ug_pairs; tauto|]. subst x. unfold fp, map_pair, F, bnp. cbn [fst snd]. rewrite S1. reflexivity.
      + apply in_map_iff in Hx as [r [Er Hr]]. apply in_map_iff in Hr as [h [Eh Hh]]. subst r x.
        destruct (HIN h Hh) as [I1 [I2 I3]]. exists (hcolA h). split; [exact I2|reflexivity].
  Qed.

  Theorem conn_names_nodup_lemma cnl :
    block_name_list g = Ok names -> block_connection_name_list g = Ok cnl -> NoDup (map fp cnl).
  Proof.
    intros Hbnl H. unfold block_connection_name_list in H. rewrite Hbnl in H. cbn [bind] in H.
    destruct (mapM _ _) as [per|e] eqn:M; [|discriminate]. cbn [bind] in H. inversion H; subst cnl; clear H.
    apply mapM_inv in M. rewrite concat_map.
    assert (CH : forall i c, nth_error (map (map fp) per) i = Some c ->
                 exists l r, nth_error (layers g) (S i) = Some l /\ mul_layer_conns g names (i, l) = Ok r /\ c = map fp r).
    { intros i c Hi. rewrite nth_error_map in Hi. destruct (nth_error per i) as [r|] eqn:Hr; [|discriminate].
      inversion Hi; subst c. destruct (Forall2_nth_r _ _ _ i r M Hr) as [[i' l] [He Hm]].
      apply nth_error_enum_from in He as [E1 E2]. cbn [fst snd] in E1, E2. rewrite nth_error_tl in E2.
      cbn in E1. subst i'. exists l, r. auto. }
    apply NoDup_concat_idx.
    - intros i c Hi. destruct (CH i c Hi) as [l [r [Hl [Hm ->]]]]. apply (chunk_facts i l r Hl Hm).
    - intros i j ci cj x Hi Hj Hx Hy.
      destruct (CH i ci Hi) as [l [r [Hl [Hm ->]]]]. destruct (CH j cj Hj) as [l' [r' [Hl' [Hm' ->]]]].
      destruct (chunk_facts i l r Hl Hm) as [_ K]. destruct (chunk_facts j l' r' Hl' Hm') as [_ K'].
      destruct (K x Hx) as [c [U E]]. destruct (K' x Hy) as [c' [U' E']].
      assert (P : (l, c) = (l', c')) by (apply F_inj; [exact U|exact U'|congruence]).
      inversion P; subst l'.
      assert (S i = S j) by (apply (nodup_nth_names (layers g) (S i) (S j) l l (wf_lnames g W)); auto). lia.
  Qed.
End CN.

(** the connection theorem without the assumption on the announced connection names *)
Theorem fromgeo_conns_names_derived g bm names :
  wf g -> hpairs_distinct g -> block_name_list g = Ok names -> NoDup (map (apply_map bm) names) ->
  exists cnl cs, block_connection_name_list g = Ok cnl /\ fromgeo_conns g bm = Ok cs /\
                 map ckey cs = map (map_pair bm) cnl /\ NoDup (map (map_pair bm) cnl).
Proof.
  intros W HP Hn ND.
  destruct (block_name_list_shape g names (wf_layers g W) Hn) as [ps [P E]].
  destruct (fromgeo_conns_names g bm names W Hn ND) as [cnl [C H]].
  pose proof (conn_names_nodup_lemma g bm names ps W P E ND HP cnl Hn C) as NDc.
  destruct (H NDc) as [cs [F K]]. exists cnl, cs. auto.
Qed.
