(** Exceptions and the result monad used by every model of Python code. *)
From Coq Require Import List Bool.
Import ListNotations.

Inductive exn :=
  | ValueError | TypeError | IndexError | KeyError | ZeroDivisionError
  | NamingConventionError | AttributeError | OverflowError | PlainException | OutOfFuel.

Definition exn_eqb (a b : exn) : bool :=
  match a, b with
  | ValueError, ValueError | TypeError, TypeError | IndexError, IndexError | KeyError, KeyError
  | ZeroDivisionError, ZeroDivisionError | NamingConventionError, NamingConventionError
  | AttributeError, AttributeError | OverflowError, OverflowError | PlainException, PlainException
  | OutOfFuel, OutOfFuel => true
  | _, _ => false
  end.

Lemma exn_eqb_eq a b : exn_eqb a b = true <-> a = b.
Proof. destruct a, b; cbn; split; intro H; try reflexivity; try discriminate. Qed.

Inductive res (A : Type) : Type := Ok (a : A) | Raise (e : exn).
Arguments Ok {A} a.
Arguments Raise {A} e.

Definition bind {A B} (r : res A) (f : A -> res B) : res B :=
  match r with Ok a => f a | Raise e => Raise e end.
Definition ret {A} (a : A) : res A := Ok a.

(** [try: body  except <classes>: h1  except: h2] -- handlers are tried in order.
    A handler list entry is (predicate on the exception, handler).  [OutOfFuel] is a
    modelling artefact (non-termination) and is never caught. *)
Fixpoint handle {A} (e : exn) (hs : list ((exn -> bool) * res A)) : res A :=
  match hs with
  | [] => Raise e
  | (p, h) :: r => if p e then h else handle e r
  end.
Definition try_ {A} (body : res A) (hs : list ((exn -> bool) * res A)) : res A :=
  match body with
  | Ok a => Ok a
  | Raise OutOfFuel => Raise OutOfFuel
  | Raise e => handle e hs
  end.
Definition catch_all (e : exn) : bool := true.
Definition catch (c : exn) (e : exn) : bool := exn_eqb c e.

Notation "'do' x <- r ; k" := (bind r (fun x => k)) (at level 200, x name, r at level 100, k at level 200, right associativity).

Fixpoint mapM {A B} (f : A -> res B) (l : list A) : res (list B) :=
  match l with
  | [] => Ok []
  | a :: r => bind (f a) (fun b => bind (mapM f r) (fun bs => Ok (b :: bs)))
  end.

Lemma bind_Ok {A B} (a : A) (f : A -> res B) : bind (Ok a) f = f a.
Proof. reflexivity. Qed.

(** a [try] body that starts with an assignment [x = e]: if [e] raises, the handlers
    run with the old binding of [x]; otherwise the rest of the body (and the handlers
    that guard it, which then see the new [x]) is the continuation [k]. *)
Definition try_bind {A B} (r : res A) (k : A -> res B) (hs : list ((exn -> bool) * res B)) : res B :=
  match r with
  | Ok a => k a
  | Raise OutOfFuel => Raise OutOfFuel
  | Raise e => handle e hs
  end.
