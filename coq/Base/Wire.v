(** Wire format of the correspondence drivers: one case per line, TAB-separated
    fields, strings hex-encoded; results are printed as one canonical line.
    The extracted [run_case : str -> str] of each property is wrapped by the
    universal OCaml main (ocaml/main.ml). *)
From Coq Require Import Ascii String List Bool Arith ZArith NArith Lia.
From Coq Require Import DecimalString DecimalZ DecimalN.
From PTBase Require Import Exn PyStr PyNum PyVal.
Import ListNotations.
Open Scope char_scope.

Definition tab : ascii := "009".
Definition fields (s : str) : list str := split_c tab s.

Definition hexval (c : ascii) : nat :=
  let n := nat_of_ascii c in
  if (48 <=? n)%nat && (n <=? 57)%nat then n - 48
  else if (97 <=? n)%nat && (n <=? 102)%nat then n - 87
  else if (65 <=? n)%nat && (n <=? 70)%nat then n - 55 else 0.
Fixpoint unhex (s : str) : str :=
  match s with
  | a :: b :: r => ascii_of_nat (16 * hexval a + hexval b) :: unhex r
  | _ => []
  end.
Definition hexdigit (n : nat) : ascii := if (n <? 10)%nat then ascii_of_nat (48 + n) else ascii_of_nat (87 + n).
Fixpoint hex (s : str) : str :=
  match s with
  | c :: r => let n := nat_of_ascii c in hexdigit (n / 16) :: hexdigit (n mod 16) :: hex r
  | [] => []
  end.

(** decimal integers *)
Fixpoint nat_digits_val (acc : Z) (s : str) : Z :=
  match s with c :: r => nat_digits_val (acc * 10 + Z.of_nat (dval c)) r | [] => acc end.
Definition z_of_str (s : str) : Z :=
  match s with
  | "-" :: r => (- nat_digits_val 0 r)%Z
  | _ => nat_digits_val 0 s
  end.
Definition nat_of_str (s : str) : nat := Z.to_nat (z_of_str s).
Definition show_z (z : Z) : str := z_to_str z.
Definition show_n (n : N) : str := n_to_str n.
Definition show_nat (n : nat) : str := z_to_str (Z.of_nat n).
Definition show_bool (b : bool) : str := if b then s2l "1" else s2l "0".

Definition sp : str := [" "].
Definition show_fval (f : fval) : str :=
  match f with
  | Fin ng m e => s2l "F " ++ show_bool ng ++ sp ++ show_n m ++ sp ++ show_z e
  | Inf ng => s2l "INF " ++ show_bool ng
  | NaN => s2l "NAN"
  end.
Definition show_exn (e : exn) : str :=
  s2l match e with
  | ValueError => "ValueError" | TypeError => "TypeError" | IndexError => "IndexError" | KeyError => "KeyError"
  | ZeroDivisionError => "ZeroDivisionError" | NamingConventionError => "NamingConventionError"
  | AttributeError => "AttributeError" | OverflowError => "OverflowError" | PlainException => "Exception"
  | OutOfFuel => "OutOfFuel" end.
Fixpoint show_pyval (v : pyval) : str :=
  let fix show_list (l : list pyval) : str :=
    match l with [] => [] | x :: r => show_pyval x ++ s2l "," ++ show_list r end in
  match v with
  | VNone => s2l "NONE"
  | VBool b => s2l "B " ++ show_bool b
  | VInt z => s2l "I " ++ show_z z
  | VStr s => s2l "S " ++ hex s
  | VFloat f => show_fval f
  | VList l => s2l "L[" ++ show_list l ++ s2l "]"
  | VTuple l => s2l "T[" ++ show_list l ++ s2l "]"
  | VDict _ => s2l "DICT"
  | VFn F_rjust => s2l "FN rjust"
  | VFn F_ljust => s2l "FN ljust"
  end.
Definition show_res (r : res pyval) : str :=
  match r with Ok v => show_pyval v | Raise e => s2l "RAISE " ++ show_exn e end.
Definition show_opt {A} (f : A -> str) (o : option A) : str :=
  match o with Some a => f a | None => s2l "ERR" end.
Fixpoint join_sp (l : list str) : str :=
  match l with [] => [] | [a] => a | a :: r => a ++ sp ++ join_sp r end.
