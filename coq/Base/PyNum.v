(** CPython's [float(str)] and [int(str)] on ASCII strings.

    [py_float] returns the *denoted decimal* [(-1)^neg * mant * 10^e10]; the final
    correctly-rounded decimal->double conversion is CPython's strtod, which is the
    same on both sides of every statement made with it (DESIGN.md section 5). *)
From Coq Require Import Ascii String List Bool Arith ZArith NArith Lia.
From PTBase Require Import Exn PyStr.
Import ListNotations.
Open Scope char_scope.

Inductive fval := Fin (neg : bool) (mant : N) (e10 : Z) | Inf (neg : bool) | NaN.

Definition ndval (c : ascii) : N := N.of_nat (dval c).

(** digitpart ::= digit (["_"] digit)*  ; returns (value, number of digits, rest) *)
Fixpoint digits_tail (acc : N) (cnt : nat) (s : str) : N * nat * str :=
  match s with
  | c :: r => if is_digit c then digits_tail (acc * 10 + ndval c) (S cnt) r
              else if ceqb c "_" then
                match r with
                | c2 :: r2 => if is_digit c2 then digits_tail (acc * 10 + ndval c2) (S cnt) r2 else (acc, cnt, s)
                | [] => (acc, cnt, s) end
              else (acc, cnt, s)
  | [] => (acc, cnt, s)
  end.
Definition digitpart (acc : N) (s : str) : option (N * nat * str) :=
  match s with c :: r => if is_digit c then Some (digits_tail (acc * 10 + ndval c) 1 r) else None | [] => None end.

Definition sign (s : str) : bool * str :=
  match s with
  | c :: r => if ceqb c "-" then (true, r) else if ceqb c "+" then (false, r) else (false, s)
  | [] => (false, s) end.

(** [s] must be entirely an exponent part, or empty *)
Definition exponent (s : str) : option Z :=
  match s with
  | [] => Some 0%Z
  | c :: r => if ceqb (lower_c c) "e" then
                let '(ng, r1) := sign r in
                match digitpart 0 r1 with
                | Some (v, _, []) => Some (if ng then (- Z.of_N v)%Z else Z.of_N v)
                | _ => None end
              else None
  end.

Definition finish_exp (ng : bool) (m : N) (nd : nat) (r : str) : option fval :=
  match exponent r with Some e => Some (Fin ng m (e - Z.of_nat nd)) | None => None end.
(** after an optional integer part [ip] (if [have_ip]) : [. digits] exponent *)
Definition float_tail (ng : bool) (have_ip : bool) (ip : N) (r1 : str) : option fval :=
  match r1 with
  | c :: r2 =>
      if ceqb c "." then
        match digitpart ip r2 with
        | Some (m, nd, r3) => finish_exp ng m nd r3
        | None => if have_ip then finish_exp ng ip 0 r2 else None
        end
      else if have_ip then finish_exp ng ip 0 r1 else None
  | [] => if have_ip then finish_exp ng ip 0 r1 else None
  end.
Definition float_body (ng : bool) (r : str) : option fval :=
  let lr := lower r in
  if str_eqb lr (s2l "inf") || str_eqb lr (s2l "infinity") then Some (Inf ng)
  else if str_eqb lr (s2l "nan") then Some NaN
  else match digitpart 0 r with
       | Some (ip, _, r1) => float_tail ng true ip r1
       | None => float_tail ng false 0 r
       end.
Definition py_float_opt (s0 : str) : option fval :=
  let s := cstrip s0 in float_body (fst (sign s)) (snd (sign s)).
Definition py_float (s : str) : res fval :=
  match py_float_opt s with Some v => Ok v | None => Raise ValueError end.

(** [int(str)], base 10 *)
Definition int_body (ng : bool) (r : str) : option Z :=
  match digitpart 0 r with
  | Some (v, _, []) => Some (if ng then (- Z.of_N v)%Z else Z.of_N v)
  | _ => None
  end.
Definition py_int_opt (s0 : str) : option Z :=
  let s := cstrip s0 in int_body (fst (sign s)) (snd (sign s)).
Definition py_int (s : str) : res Z :=
  match py_int_opt s with Some v => Ok v | None => Raise ValueError end.

(** value equality of finite decimals (used only by statements, never by the models) *)
Definition fin_eqv (m1 : N) (e1 : Z) (m2 : N) (e2 : Z) : bool :=
  if (m1 =? 0)%N then (m2 =? 0)%N else
  if (e1 <=? e2)%Z then (Z.of_N m1 =? Z.of_N m2 * 10 ^ (e2 - e1))%Z
  else (Z.of_N m1 * 10 ^ (e1 - e2) =? Z.of_N m2)%Z.
Definition fval_eqv (a b : fval) : bool :=
  match a, b with
  | Fin n1 m1 e1, Fin n2 m2 e2 => Bool.eqb n1 n2 && fin_eqv m1 e1 m2 e2
  | Inf a, Inf b => Bool.eqb a b
  | NaN, NaN => true
  | _, _ => false
  end.
