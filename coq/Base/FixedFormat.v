(** Model of [fixed_format_file]: [preprocess_specification] (running column sums),
    [parse_string] (slices + read function per type), [write_values_to_string] with its
    width guard [fit_value]; and the core theorems of C02: every written field has
    exactly its width, hence slicing the written line returns every field's own text
    whatever the other values are (no value is ever displaced). *)
From Coq Require Import Ascii String List Bool Arith ZArith NArith Lia.
From PTBase Require Import Exn PyStr PyNum PyVal Fmt.
Import ListNotations.
Open Scope char_scope.

Definition width (f : fspec) : nat := Z.to_nat (Z.abs (fw f)).

(** [fit_value]: precisions [n-1, ..., 0] of the same width and type *)
Fixpoint fit_loop (f : fspec) (v : value) (n : nat) : res str :=
  match n with
  | O => Raise ValueError
  | S k => match fmt_raw f (Z.of_nat k) v with
           | Ok s => if (length s <=? width f)%nat then Ok s else fit_loop f v k
           | Raise e => Raise e
           end
  end.
Definition is_real_ty (t : fty) : bool := match t with Te | Tf | Tg => true | _ => false end.
Definition fmt_field (f : fspec) (v : value) : res str :=
  match v, ft f with
  | XNone, _ => Ok (spaces (width f))
  | _, Tx => Ok (spaces (width f))
  | _, _ => do s <- fmt_raw f (prec f) v;
            if (length s <=? width f)%nat then Ok s
            else if is_real_ty (ft f) then fit_loop f v (Z.to_nat (prec f)) else Raise ValueError
  end.

(** [zip(vals, fmt)] truncates to the shorter list *)
Fixpoint write_fields (specs : list fspec) (vals : list value) : res (list str) :=
  match specs, vals with
  | f :: fs, v :: vs => do s <- fmt_field f v; do r <- write_fields fs vs; Ok (s :: r)
  | _, _ => Ok []
  end.
Definition write_values (specs : list fspec) (vals : list value) : res str :=
  do l <- write_fields specs vals; Ok (concat l).

(** [line_spec]: running sum of widths *)
Fixpoint line_spec (pos : nat) (ws : list nat) : list (nat * nat) :=
  match ws with [] => [] | w :: r => (pos, pos + w)%nat :: line_spec (pos + w) r end.
Definition field_slices (specs : list fspec) (line : str) : list str :=
  map (fun ab => slice (fst ab) (snd ab) line) (line_spec 0 (map width specs)).

(** ** every formatted field is at least as wide as its field, so the guard makes it exact *)
Lemma fmt_raw_length f p v s : fmt_raw f p v = Ok s -> (width f <= length s)%nat.
Proof.
  unfold fmt_raw, width. destruct (ft f), v; intro H; inversion H; subst;
    unfold fmt_str, fmt_int, fmt_e, fmt_f; apply pad_length.
Qed.
Lemma fit_loop_width f v n s : fit_loop f v n = Ok s -> length s = width f.
Proof.
  induction n as [|k IH]; cbn [fit_loop]; [discriminate|].
  destruct (fmt_raw f (Z.of_nat k) v) as [t|e] eqn:E; [|discriminate].
  destruct (length t <=? width f)%nat eqn:L; [|exact IH].
  intro H; inversion H; subst. apply Nat.leb_le in L. apply fmt_raw_length in E. lia.
Qed.
Theorem fmt_field_width f v s : fmt_field f v = Ok s -> length s = width f.
Proof.
  unfold fmt_field.
  assert (B : forall t, Ok (spaces (width f)) = Ok t -> length t = width f).
  { intros t H. inversion H. apply spaces_length. }
  assert (G : (do s0 <- fmt_raw f (prec f) v;
               if (length s0 <=? width f)%nat then Ok s0
               else if is_real_ty (ft f) then fit_loop f v (Z.to_nat (prec f)) else Raise ValueError) = Ok s ->
              length s = width f).
  { destruct (fmt_raw f (prec f) v) as [t|e] eqn:E; cbn [bind]; [|discriminate].
    destruct (length t <=? width f)%nat eqn:L.
    - intro H; inversion H; subst. apply Nat.leb_le in L. apply fmt_raw_length in E. lia.
    - destruct (is_real_ty (ft f)); [apply fit_loop_width|discriminate]. }
  destruct v; destruct (ft f); auto.
Qed.
Lemma write_fields_widths specs : forall vals l, write_fields specs vals = Ok l ->
  map (@length ascii) l = firstn (length l) (map width specs) /\ length l = Nat.min (length specs) (length vals).
Proof.
  induction specs as [|f fs IH]; intros vals l; cbn [write_fields].
  - intro H; inversion H; subst. auto.
  - destruct vals as [|v vs]; [intro H; inversion H; subst; auto|].
    destruct (fmt_field f v) as [s|e] eqn:E; cbn [bind]; [|discriminate].
    destruct (write_fields fs vs) as [r|e] eqn:R; cbn [bind]; [|discriminate].
    intro H; inversion H; subst. destruct (IH _ _ R) as [A B]. cbn. rewrite (fmt_field_width _ _ _ E), A, B. auto.
Qed.

(** ** slicing the concatenation of exact-width fields returns the fields *)
Lemma parse_shift (p : str) ws line pos :
  map (fun ab => slice (fst ab) (snd ab) (p ++ line)) (line_spec (length p + pos) ws)
  = map (fun ab => slice (fst ab) (snd ab) line) (line_spec pos ws).
Proof.
  revert pos. induction ws as [|w r IH]; intro pos; cbn [line_spec map]; [reflexivity|].
  cbn [fst snd]. rewrite <- Nat.add_assoc. rewrite slice_app_skip. f_equal.
  rewrite Nat.add_assoc. rewrite <- (IH (pos + w)%nat). rewrite Nat.add_assoc. reflexivity.
Qed.
Theorem parse_write (fields : list str) rest :
  map (fun ab => slice (fst ab) (snd ab) (concat fields ++ rest)) (line_spec 0 (map (@length ascii) fields)) = fields.
Proof.
  induction fields as [|f r IH]; [reflexivity|].
  cbn [map concat line_spec fst snd]. rewrite <- app_assoc. f_equal.
  - unfold slice. cbn [skipn]. rewrite Nat.sub_0_r, Nat.add_0_l. rewrite firstn_app, firstn_all, Nat.sub_diag. cbn. apply app_nil_r.
  - rewrite Nat.add_0_l. rewrite <- (Nat.add_0_r (length f)) at 1. rewrite parse_shift. exact IH.
Qed.
Lemma line_spec_firstn n : forall pos ws, line_spec pos (firstn n ws) = firstn n (line_spec pos ws).
Proof. induction n as [|n IH]; intros pos ws; [reflexivity|]. destruct ws as [|w r]; [reflexivity|]. cbn. rewrite IH. reflexivity. Qed.

(** THE no-spill theorem: if the writer returns a line at all, then for every field that
    was written, the columns of that field hold exactly that field's own text, which has
    exactly the field's width -- whatever the other values were and whatever follows. *)
Theorem written_fields_in_place specs vals l rest :
  write_fields specs vals = Ok l ->
  firstn (length l) (field_slices specs (concat l ++ rest)) = l.
Proof.
  intro H. destruct (write_fields_widths _ _ _ H) as [A B].
  unfold field_slices. rewrite firstn_map. rewrite <- line_spec_firstn, <- A. apply parse_write.
Qed.
Corollary written_line_length specs vals l :
  write_fields specs vals = Ok l -> (length l = length specs) ->
  length (concat l) = list_sum (map width specs).
Proof.
  intros H L. destruct (write_fields_widths _ _ _ H) as [A _]. rewrite L, <- map_length with (f := width), firstn_all in A.
  rewrite <- A. clear. induction l as [|a l IH]; [reflexivity|]. cbn. rewrite app_length, IH. reflexivity.
Qed.
(** each written field is the formatting of its own value only *)
Lemma write_fields_nth specs : forall vals l i f v, write_fields specs vals = Ok l ->
  nth_error specs i = Some f -> nth_error vals i = Some v -> exists s, nth_error l i = Some s /\ fmt_field f v = Ok s.
Proof.
  induction specs as [|f0 fs IH]; intros vals l i f v; cbn [write_fields]; [destruct i; discriminate|].
  destruct vals as [|v0 vs]; [destruct i; discriminate|].
  destruct (fmt_field f0 v0) as [s0|e] eqn:E; cbn [bind]; [|discriminate].
  destruct (write_fields fs vs) as [r|e] eqn:R; cbn [bind]; [|discriminate].
  intro H; inversion H; subst. destruct i as [|i]; cbn [nth_error].
  - intros Hf Hv. inversion Hf; inversion Hv; subst. eauto.
  - intros Hf Hv. eapply IH; eauto.
Qed.

(** ** parsing *)
Inductive rvalue := RStr (s : str) | RInt (z : Z) | RFloat (f : fval) | RNone.
Definition readfn := fty -> str -> rvalue.
Definition parse_string (rf : readfn) (specs : list fspec) (line : str) : list rvalue :=
  map (fun p => rf (ft (fst p)) (snd p)) (combine specs (field_slices specs line)).
(** [default_read_function]: float()/int() with ValueError -> None, str.rstrip('\n'), 'x' -> None *)
Definition newline : ascii := "010".
Definition default_rf : readfn := fun t s =>
  match t with
  | Ts => RStr (rstrip_c newline s)
  | Tx => RNone
  | Td => match py_int_opt s with Some z => RInt z | None => RNone end
  | Te | Tf | Tg => match py_float_opt s with Some v => RFloat v | None => RNone end
  end.
Lemma parse_string_length rf specs line : length (parse_string rf specs line) = length specs.
Proof.
  unfold parse_string, field_slices. rewrite map_length, combine_length, map_length.
  assert (L : forall pos ws, length (line_spec pos ws) = length ws).
  { intros pos ws; revert pos; induction ws as [|w r IH]; intro pos; cbn; [reflexivity|]. rewrite IH. reflexivity. }
  rewrite L, map_length. apply Nat.min_id.
Qed.
