(** Python %-formatting of the format kinds PyTOUGH's fixed-format tables use
    ([%wd], [%ws], [%-ws], [%w.pe], [%w.pf]) on exact values, and the field model of
    [fixed_format_file].  A real is an exact double [(-1)^neg * m * 2^e].
    Validated against CPython by the C02 correspondence on every run. *)
From Coq Require Import Ascii String List Bool Arith ZArith NArith Lia.
From PTBase Require Import Exn PyStr PyNum PyVal.
Import ListNotations.
Open Scope char_scope.
Open Scope Z_scope.

Definition zdigits (z : Z) : str := n_to_str (Z.to_N z).
Definition ndig (z : Z) : Z := Z.of_nat (length (zdigits z)).

(** round-half-even of n/d, n >= 0, d > 0 *)
Definition rhe (n d : Z) : Z :=
  let q := n / d in let r := n mod d in
  match Z.compare (2 * r) d with
  | Lt => q | Gt => q + 1 | Eq => if Z.even q then q else q + 1 end.

Definition pow10 (k : Z) : Z := 10 ^ k.

(** floor(log10 (num/den)) for num, den > 0 *)
Definition ilog10 (num den : Z) : Z :=
  let k0 := ndig num - ndig den in
  let ge k := if 0 <=? k then den * pow10 k <=? num else den <=? num * pow10 (- k) in
  if ge k0 then k0 else k0 - 1.

(** scaled mantissa with p fractional digits, and decimal exponent *)
Definition sci (p : Z) (num den : Z) : Z * Z :=
  let k := ilog10 num den in
  let s := p - k in
  let N := if 0 <=? s then rhe (num * pow10 s) den else rhe num (den * pow10 (- s)) in
  if N =? pow10 (p + 1) then (pow10 p, k + 1) else (N, k).

(** width handling of [%]: positive width right-justifies, negative left-justifies;
    never truncates *)
Definition pad (w : Z) (s : str) : str :=
  if w <? 0 then ljust (Z.to_nat (- w)) s else rjust (Z.to_nat w) s.

Definition two_digits (k : Z) : str :=
  let s := zdigits k in if (length s <? 2)%nat then "0" :: s else s.

Definition zeros (n : Z) : str := repeat "0" (Z.to_nat n).

Definition num_den (m e : Z) : Z * Z := if 0 <=? e then (m * 2 ^ e, 1) else (m, 2 ^ (- e)).

(** ['%w.pe' % x] *)
Definition fmt_e_body (p : Z) (m e : Z) : str :=
  if m =? 0 then
    ("0" :: (if 0 <? p then "." :: zeros p else [])) ++ s2l "e+00"
  else
    let '(num, den) := num_den m e in
    let '(N, k) := sci p num den in
    let ds := zdigits N in
    let mant := match ds with
                | c :: rest => if 0 <? p then c :: "." :: rest else [c]
                | [] => [] end in
    mant ++ ["e"; if k <? 0 then "-" else "+"] ++ two_digits (Z.abs k).
Definition fmt_e (w p : Z) (neg : bool) (m e : Z) : str :=
  pad w (if neg then "-" :: fmt_e_body p m e else fmt_e_body p m e).

(** ['%w.pf' % x] *)
Definition fmt_f_body (p : Z) (m e : Z) : str :=
  let '(num, den) := num_den m e in
  let N := rhe (num * pow10 p) den in
  let ip := N / pow10 p in let fp := N mod pow10 p in
  let fs := zdigits fp in
  let fs := zeros (p - Z.of_nat (length fs)) ++ fs in
  if 0 <? p then zdigits ip ++ "." :: fs else zdigits ip.
Definition fmt_f (w p : Z) (neg : bool) (m e : Z) : str :=
  pad w (if neg then "-" :: fmt_f_body p m e else fmt_f_body p m e).

(** ['%wd' % z] *)
Definition fmt_int (w : Z) (z : Z) : str := pad w (z_to_str z).
(** ['%ws' % s] *)
Definition fmt_str (w : Z) (s : str) : str := pad w s.

Lemma pad_length w s : (Z.to_nat (Z.abs w) <= length (pad w s))%nat.
Proof.
  unfold pad. destruct (w <? 0) eqn:E.
  - rewrite ljust_length. apply Z.ltb_lt in E. replace (Z.abs w) with (- w) by lia. lia.
  - rewrite rjust_length. apply Z.ltb_ge in E. replace (Z.abs w) with w by lia. lia.
Qed.
Lemma pad_length_ge w s : (length s <= length (pad w s))%nat.
Proof. unfold pad. destruct (w <? 0); rewrite ?ljust_length, ?rjust_length; lia. Qed.
Lemma pad_exact w s : (length s <= Z.to_nat (Z.abs w))%nat -> length (pad w s) = Z.to_nat (Z.abs w).
Proof.
  unfold pad. destruct (w <? 0) eqn:E; intro H.
  - rewrite ljust_length. apply Z.ltb_lt in E. replace (Z.abs w) with (- w) in * by lia. lia.
  - rewrite rjust_length. apply Z.ltb_ge in E. replace (Z.abs w) with w in * by lia. lia.
Qed.

(** ** fields of a fixed-format record *)
Inductive fty := Ts | Td | Te | Tf | Tg | Tx.
Record fspec := { fw : Z; fp : option Z; ft : fty }.
Inductive value := XStr (s : str) | XInt (z : Z) | XReal (neg : bool) (m e : Z) | XNone.

Definition fty_eqb (a b : fty) : bool :=
  match a, b with Ts, Ts | Td, Td | Te, Te | Tf, Tf | Tg, Tg | Tx, Tx => true | _, _ => false end.

(** precision of ['%w.pe']: absent means 6 in Python *)
Definition prec (f : fspec) : Z := match fp f with Some p => p | None => 6 end.

(** [('%' + f) % val] -- the raw Python formatting, with no width guard.  Combinations
    outside the modelled fragment ([%s] of a float uses repr; [%g]) raise [TypeError]. *)
Definition fmt_raw (f : fspec) (p : Z) (v : value) : res str :=
  match ft f, v with
  | Ts, XStr s => Ok (fmt_str (fw f) s)
  | Ts, XInt z => Ok (fmt_str (fw f) (z_to_str z))
  | Td, XInt z => Ok (fmt_int (fw f) z)
  | Te, XReal ng m e => Ok (fmt_e (fw f) p ng m e)
  | Te, XInt z => Ok (fmt_e (fw f) p (z <? 0) (Z.abs z) 0)
  | Tf, XReal ng m e => Ok (fmt_f (fw f) p ng m e)
  | Tf, XInt z => Ok (fmt_f (fw f) p (z <? 0) (Z.abs z) 0)
  | _, _ => Raise TypeError
  end.
Definition blank_field (f : fspec) : str := spaces (Z.to_nat (fw f)).
