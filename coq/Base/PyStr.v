(** Python [str] (ASCII) as [list ascii], with the slice / strip / justify semantics
    the PyTOUGH code relies on. *)
From Coq Require Import Ascii String List Bool Arith ZArith Lia.
Import ListNotations.
Open Scope char_scope.

Definition str := list ascii.
Definition s2l (s : string) : str := list_ascii_of_string s.
Definition l2s (s : str) : string := string_of_list_ascii s.

Definition ceqb (a b : ascii) : bool := Ascii.eqb a b.
Fixpoint str_eqb (a b : str) : bool :=
  match a, b with
  | [], [] => true
  | x :: a', y :: b' => ceqb x y && str_eqb a' b'
  | _, _ => false
  end.
Lemma str_eqb_eq a b : str_eqb a b = true <-> a = b.
Proof.
  revert b; induction a as [|x a IH]; destruct b as [|y b]; cbn; split; intro H; try reflexivity; try discriminate.
  - apply andb_prop in H as [H1 H2]. apply Ascii.eqb_eq in H1. apply IH in H2. congruence.
  - inversion H; subst. unfold ceqb. rewrite Ascii.eqb_refl. cbn. apply IH. reflexivity.
Qed.
Lemma str_eqb_refl a : str_eqb a a = true.
Proof. apply str_eqb_eq. reflexivity. Qed.
Lemma str_eqb_spec a b : reflect (a = b) (str_eqb a b).
Proof. destruct (str_eqb a b) eqn:E; constructor; [apply str_eqb_eq; exact E|]. intro H. apply str_eqb_eq in H. congruence. Qed.

Definition is_digit (c : ascii) : bool := let n := nat_of_ascii c in (48 <=? n)%nat && (n <=? 57)%nat.
Definition is_upper (c : ascii) : bool := let n := nat_of_ascii c in (65 <=? n)%nat && (n <=? 90)%nat.
Definition is_lower (c : ascii) : bool := let n := nat_of_ascii c in (97 <=? n)%nat && (n <=? 122)%nat.
Definition is_alpha (c : ascii) : bool := is_upper c || is_lower c.
(** whitespace as [str.strip()] and [float()] see it on ASCII *)
Definition is_space (c : ascii) : bool :=
  let n := nat_of_ascii c in (n =? 32)%nat || ((9 <=? n)%nat && (n <=? 13)%nat) || ((28 <=? n)%nat && (n <=? 31)%nat).
Definition lower_c (c : ascii) : ascii := if is_upper c then ascii_of_nat (nat_of_ascii c + 32) else c.
Definition upper_c (c : ascii) : ascii := if is_lower c then ascii_of_nat (nat_of_ascii c - 32) else c.
Definition dval (c : ascii) : nat := nat_of_ascii c - 48.
Definition dchar (n : nat) : ascii := ascii_of_nat (48 + n).

Definition lower (s : str) : str := map lower_c s.
Definition upper (s : str) : str := map upper_c s.
(** [str.isdigit()] on ASCII: non-empty and all digits *)
Definition isdigit (s : str) : bool := match s with [] => false | _ => forallb is_digit s end.

(** stripping by a character class; [str.strip()] uses [is_space], C's isspace()
    (what [float()]/[int()] strip on ASCII input) is the smaller [is_cspace] *)
Definition is_cspace (c : ascii) : bool :=
  let n := nat_of_ascii c in (n =? 32)%nat || ((9 <=? n)%nat && (n <=? 13)%nat).
Fixpoint lstrip_by (p : ascii -> bool) (s : str) : str :=
  match s with c :: r => if p c then lstrip_by p r else s | [] => [] end.
Definition rstrip_by p (s : str) : str := rev (lstrip_by p (rev s)).
Definition strip_by p (s : str) : str := rstrip_by p (lstrip_by p s).
Definition lstrip := lstrip_by is_space.
Definition rstrip := rstrip_by is_space.
Definition strip := strip_by is_space.
Definition cstrip := strip_by is_cspace.
(** [s.rstrip('\n')] *)
Fixpoint lstrip_c (ch : ascii) (s : str) : str := match s with c :: r => if ceqb c ch then lstrip_c ch r else s | [] => [] end.
Definition rstrip_c (ch : ascii) (s : str) : str := rev (lstrip_c ch (rev s)).

(** [s.replace(c, new)] for a one-character pattern *)
Definition replace1 (c : ascii) (new : str) (s : str) : str :=
  flat_map (fun x => if ceqb x c then new else [x]) s.

Definition spaces (n : nat) : str := repeat " " n.
Definition ljust (w : nat) (s : str) : str := s ++ spaces (w - length s).
Definition rjust (w : nat) (s : str) : str := spaces (w - length s) ++ s.
Definition zjust (w : nat) (s : str) : str := repeat "0" (w - length s) ++ s.

Fixpoint join (sep : str) (l : list str) : str :=
  match l with [] => [] | [a] => a | a :: r => a ++ sep ++ join sep r end.

(** Python slice [s[lo:hi]] (step 1) with optional, possibly negative bounds *)
Definition norm_idx (n : nat) (i : Z) : nat :=
  if (i <? 0)%Z then Z.to_nat (Z.max 0 (i + Z.of_nat n)) else Nat.min (Z.to_nat i) n.
Definition pyslice {A} (lo hi : option Z) (s : list A) : list A :=
  let n := length s in
  let a := match lo with Some i => norm_idx n i | None => 0%nat end in
  let b := match hi with Some i => norm_idx n i | None => n end in
  firstn (b - a) (skipn a s).
(** simple non-negative slice *)
Definition slice {A} (a b : nat) (s : list A) : list A := firstn (b - a) (skipn a s).
(** Python [s[i]]: [None] models IndexError *)
Definition pyindex {A} (i : Z) (s : list A) : option A :=
  let n := Z.of_nat (length s) in
  let j := if (i <? 0)%Z then (i + n)%Z else i in
  if ((j <? 0) || (n <=? j))%Z then None else nth_error s (Z.to_nat j).

Fixpoint prefix (p s : str) : bool :=
  match p, s with
  | [], _ => true
  | x :: p', y :: s' => ceqb x y && prefix p' s'
  | _ :: _, [] => false
  end.
(** [p in s] for strings *)
Fixpoint substr (p s : str) : bool :=
  prefix p s || match s with [] => false | _ :: r => substr p r end.
(** [s.find(c)] for a one-character needle *)
Fixpoint find_c (c : ascii) (s : str) (i : nat) : option nat :=
  match s with [] => None | x :: r => if ceqb x c then Some i else find_c c r (S i) end.
Definition has_c (c : ascii) (s : str) : bool := existsb (ceqb c) s.
(** first-occurrence de-duplication: [''.join(sorted(set(s), key = s.index))] *)
Fixpoint uniq_acc (seen : str) (s : str) : str :=
  match s with [] => [] | c :: r => if has_c c seen then uniq_acc seen r else c :: uniq_acc (c :: seen) r end.
Definition uniq (s : str) : str := uniq_acc [] s.
(** whitespace split *)
Fixpoint split_ws_aux (cur : str) (s : str) : list str :=
  match s with
  | [] => match cur with [] => [] | _ => [rev cur] end
  | c :: r => if is_space c then match cur with [] => split_ws_aux [] r | _ => rev cur :: split_ws_aux [] r end
              else split_ws_aux (c :: cur) r
  end.
Definition split_ws (s : str) : list str := split_ws_aux [] s.
Fixpoint split_c_aux (ch : ascii) (cur : str) (s : str) : list str :=
  match s with
  | [] => [rev cur]
  | c :: r => if ceqb c ch then rev cur :: split_c_aux ch [] r else split_c_aux ch (c :: cur) r
  end.
Definition split_c (ch : ascii) (s : str) : list str := split_c_aux ch [] s.

(** ** basic lemmas *)
Lemma spaces_length n : length (spaces n) = n.
Proof. apply repeat_length. Qed.
Lemma ljust_length w s : length (ljust w s) = Nat.max w (length s).
Proof. unfold ljust. rewrite app_length, spaces_length. lia. Qed.
Lemma rjust_length w s : length (rjust w s) = Nat.max w (length s).
Proof. unfold rjust. rewrite app_length, spaces_length. lia. Qed.
Lemma slice_length {A} a b (s : list A) : length (slice a b s) = Nat.min (b - a) (length s - a).
Proof. unfold slice. rewrite firstn_length, skipn_length. reflexivity. Qed.
Lemma slice_app_skip {A} (p : list A) a b s : slice (length p + a) (length p + b) (p ++ s) = slice a b s.
Proof.
  unfold slice. rewrite skipn_app. rewrite skipn_all2 by lia.
  replace (length p + a - length p)%nat with a by lia.
  replace (length p + b - (length p + a))%nat with (b - a)%nat by lia. reflexivity.
Qed.
Lemma is_digit_cases c : is_digit c = true -> In c ["0";"1";"2";"3";"4";"5";"6";"7";"8";"9"].
Proof. destruct c as [[] [] [] [] [] [] [] []]; cbv; intro H; try discriminate H; tauto. Qed.
Lemma lstrip_by_split p s : exists ws, s = ws ++ lstrip_by p s /\ forallb p ws = true.
Proof.
  induction s as [|c r [ws [E F]]]; [exists []; auto|]. cbn [lstrip_by].
  destruct (p c) eqn:S; [|exists []; auto].
  exists (c :: ws). cbn. rewrite S, F. split; [f_equal; exact E|reflexivity].
Qed.
Lemma lstrip_by_head p s c r : lstrip_by p s = c :: r -> p c = false.
Proof.
  induction s as [|x s IH]; cbn; [discriminate|]. destruct (p x) eqn:S; [exact IH|].
  intro H; inversion H; subst; exact S.
Qed.
Lemma forallb_rev {A} (p : A -> bool) l : forallb p (rev l) = forallb p l.
Proof.
  induction l as [|a l IH]; [reflexivity|]. cbn. rewrite forallb_app, IH. cbn. rewrite andb_true_r. apply andb_comm.
Qed.
Lemma strip_by_split p s : exists a b, s = a ++ strip_by p s ++ b /\ forallb p a = true /\ forallb p b = true.
Proof.
  unfold strip_by, rstrip_by. destruct (lstrip_by_split p s) as [a [E Fa]].
  destruct (lstrip_by_split p (rev (lstrip_by p s))) as [b [E2 Fb]].
  exists a, (rev b). split; [|split; [exact Fa|rewrite forallb_rev; exact Fb]].
  rewrite E at 1. f_equal. rewrite <- rev_app_distr, <- E2, rev_involutive. reflexivity.
Qed.
Lemma strip_by_head p s c r : strip_by p s = c :: r -> p c = false.
Proof.
  unfold strip_by, rstrip_by. intro H.
  destruct (lstrip_by_split p (rev (lstrip_by p s))) as [b [E2 Fb]].
  assert (E : lstrip_by p s = rev (lstrip_by p (rev (lstrip_by p s))) ++ rev b).
  { rewrite <- rev_app_distr, <- E2, rev_involutive. reflexivity. }
  rewrite H in E. cbn in E. eapply lstrip_by_head. exact E.
Qed.
Lemma lstrip_by_all p s : forallb p s = true -> lstrip_by p s = [].
Proof. induction s as [|c r IH]; cbn; [reflexivity|]. intro H. apply andb_prop in H as [H1 H2]. rewrite H1. exact (IH H2). Qed.
Lemma strip_by_nil_all p s : strip_by p s = [] -> forallb p s = true.
Proof.
  intro H. destruct (strip_by_split p s) as [a [b [E [Fa Fb]]]]. rewrite H in E. cbn in E.
  rewrite E, forallb_app, Fa, Fb. reflexivity.
Qed.
Lemma pyslice_tail {A} (c : A) r : pyslice (Some 1%Z) None (c :: r) = r.
Proof.
  unfold pyslice, norm_idx. change (1 <? 0)%Z with false. cbv iota.
  change (Z.to_nat 1) with 1%nat. cbn [length Nat.min skipn]. cbn [Nat.sub]. rewrite Nat.sub_0_r. apply firstn_all.
Qed.
