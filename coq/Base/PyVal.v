(** A dynamically typed value universe and the Python operations the AST translator
    (tools/translate/pyfun.py) emits calls to.  Every operation that can raise in
    Python returns [res]; anything outside the modelled fragment raises [TypeError]
    (and the correspondence run of each check compares the generated functions with
    the real ones, so a type confusion shows up as a disagreement). *)
From Coq Require Import Ascii String List Bool Arith ZArith NArith Lia.
From Coq Require Import DecimalString DecimalZ DecimalN.
From PTBase Require Import Exn PyStr PyNum.
Import ListNotations.
Open Scope char_scope.

Inductive fnid := F_rjust | F_ljust.

Inductive pyval :=
  | VNone | VBool (b : bool) | VInt (z : Z) | VStr (s : str) | VFloat (f : fval)
  | VList (l : list pyval) | VTuple (l : list pyval) | VDict (d : list (pyval * pyval)) | VFn (f : fnid).

Definition fval_eqb (a b : fval) : bool :=
  match a, b with
  | Fin n1 m1 e1, Fin n2 m2 e2 => fin_eqv m1 e1 m2 e2 && (Bool.eqb n1 n2 || (m1 =? 0)%N)
  | Inf a, Inf b => Bool.eqb a b
  | _, _ => false       (* nan != nan *)
  end.

Fixpoint py_eqb (a b : pyval) : bool :=
  let fix list_eqb (x y : list pyval) : bool :=
    match x, y with
    | [], [] => true
    | u :: x', v :: y' => py_eqb u v && list_eqb x' y'
    | _, _ => false
    end in
  match a, b with
  | VNone, VNone => true
  | VBool x, VBool y => Bool.eqb x y
  | VInt x, VInt y => Z.eqb x y
  | VBool x, VInt y => Z.eqb (if x then 1 else 0) y
  | VInt x, VBool y => Z.eqb x (if y then 1 else 0)
  | VStr x, VStr y => str_eqb x y
  | VFloat x, VFloat y => fval_eqb x y
  | VList x, VList y => list_eqb x y
  | VTuple x, VTuple y => list_eqb x y
  | _, _ => false
  end.

Definition fin_nonzero (f : fval) : bool := match f with Fin _ m _ => negb (m =? 0)%N | _ => true end.
Definition truthy (v : pyval) : bool :=
  match v with
  | VNone => false | VBool b => b | VInt z => negb (z =? 0)%Z
  | VStr s => match s with [] => false | _ => true end
  | VFloat f => fin_nonzero f
  | VList l | VTuple l => match l with [] => false | _ => true end
  | VDict d => match d with [] => false | _ => true end
  | VFn _ => true
  end.

Definition z_to_str (z : Z) : str := s2l (NilZero.string_of_int (Z.to_int z)).
Definition n_to_str (n : N) : str := s2l (NilZero.string_of_uint (N.to_uint n)).

Definition as_int (v : pyval) : option Z :=
  match v with VInt z => Some z | VBool b => Some (if b then 1 else 0)%Z | _ => None end.

Definition py_add (a b : pyval) : res pyval :=
  match a, b with
  | VStr x, VStr y => Ok (VStr (x ++ y))
  | VList x, VList y => Ok (VList (x ++ y))
  | VTuple x, VTuple y => Ok (VTuple (x ++ y))
  | _, _ => match as_int a, as_int b with Some x, Some y => Ok (VInt (x + y)) | _, _ => Raise TypeError end
  end.
Definition py_sub (a b : pyval) : res pyval :=
  match as_int a, as_int b with Some x, Some y => Ok (VInt (x - y)) | _, _ => Raise TypeError end.
Definition rep_str (s : str) (n : Z) : str := concat (repeat s (Z.to_nat n)).
Definition py_mul (a b : pyval) : res pyval :=
  match a, b with
  | VStr s, VInt n | VInt n, VStr s => Ok (VStr (rep_str s n))
  | VStr s, VBool n | VBool n, VStr s => Ok (VStr (rep_str s (if n then 1 else 0)))
  | VList l, VInt n | VInt n, VList l => Ok (VList (concat (repeat l (Z.to_nat n))))
  | _, _ => match as_int a, as_int b with Some x, Some y => Ok (VInt (x * y)) | _, _ => Raise TypeError end
  end.
Definition py_floordiv (a b : pyval) : res pyval :=
  match as_int a, as_int b with
  | Some x, Some y => if (y =? 0)%Z then Raise ZeroDivisionError else Ok (VInt (x / y))
  | _, _ => Raise TypeError end.
Definition py_mod (a b : pyval) : res pyval :=
  match as_int a, as_int b with
  | Some x, Some y => if (y =? 0)%Z then Raise ZeroDivisionError else Ok (VInt (x mod y))
  | _, _ => Raise TypeError end.
Definition py_neg (a : pyval) : res pyval :=
  match as_int a with Some x => Ok (VInt (- x)) | None => Raise TypeError end.

Fixpoint str_ltb (a b : str) : bool :=
  match a, b with
  | _, [] => false
  | [], _ :: _ => true
  | x :: a', y :: b' => (nat_of_ascii x <? nat_of_ascii y)%nat || ((nat_of_ascii x =? nat_of_ascii y)%nat && str_ltb a' b')
  end.
Definition py_lt (a b : pyval) : res bool :=
  match a, b with
  | VStr x, VStr y => Ok (str_ltb x y)
  | _, _ => match as_int a, as_int b with Some x, Some y => Ok (x <? y)%Z | _, _ => Raise TypeError end
  end.
Definition py_le (a b : pyval) : res bool :=
  match a, b with
  | VStr x, VStr y => Ok (negb (str_ltb y x))
  | _, _ => match as_int a, as_int b with Some x, Some y => Ok (x <=? y)%Z | _, _ => Raise TypeError end
  end.
Definition py_gt (a b : pyval) : res bool := py_lt b a.
Definition py_ge (a b : pyval) : res bool := py_le b a.

Fixpoint dict_get (d : list (pyval * pyval)) (k : pyval) : option pyval :=
  match d with [] => None | (k', v) :: r => if py_eqb k k' then Some v else dict_get r k end.

Definition py_in (x c : pyval) : res bool :=
  match c with
  | VStr s => match x with VStr p => Ok (substr p s) | _ => Raise TypeError end
  | VList l | VTuple l => Ok (existsb (py_eqb x) l)
  | VDict d => Ok (match dict_get d x with Some _ => true | None => false end)
  | _ => Raise TypeError
  end.

Definition py_getitem (c i : pyval) : res pyval :=
  match c with
  | VStr s => match as_int i with
              | Some z => match pyindex z s with Some ch => Ok (VStr [ch]) | None => Raise IndexError end
              | None => Raise TypeError end
  | VList l | VTuple l => match as_int i with
              | Some z => match pyindex z l with Some v => Ok v | None => Raise IndexError end
              | None => Raise TypeError end
  | VDict d => match dict_get d i with Some v => Ok v | None => Raise KeyError end
  | _ => Raise TypeError
  end.

Definition as_bound (v : pyval) : res (option Z) :=
  match v with VNone => Ok None | _ => match as_int v with Some z => Ok (Some z) | None => Raise TypeError end end.
Definition py_slice (c lo hi : pyval) : res pyval :=
  do a <- as_bound lo; do b <- as_bound hi;
  match c with
  | VStr s => Ok (VStr (pyslice a b s))
  | VList l => Ok (VList (pyslice a b l))
  | VTuple l => Ok (VTuple (pyslice a b l))
  | _ => Raise TypeError
  end.

Definition py_len (v : pyval) : res pyval :=
  match v with
  | VStr s => Ok (VInt (Z.of_nat (length s)))
  | VList l | VTuple l => Ok (VInt (Z.of_nat (length l)))
  | VDict d => Ok (VInt (Z.of_nat (length d)))
  | _ => Raise TypeError end.

Definition b_float (v : pyval) : res pyval :=
  match v with
  | VStr s => do f <- py_float s; Ok (VFloat f)
  | VFloat f => Ok v
  | _ => match as_int v with Some z => Ok (VFloat (Fin (z <? 0)%Z (Z.to_N (Z.abs z)) 0)) | None => Raise TypeError end
  end.
Definition b_int (v : pyval) : res pyval :=
  match v with
  | VStr s => do z <- py_int s; Ok (VInt z)
  | _ => match as_int v with Some z => Ok (VInt z) | None => Raise TypeError end
  end.
Definition b_str (v : pyval) : res pyval :=
  match v with
  | VStr s => Ok v
  | VInt z => Ok (VStr (z_to_str z))
  | VNone => Ok (VStr (s2l "None"))
  | VBool b => Ok (VStr (s2l (if b then "True" else "False")))
  | _ => Raise TypeError end.

Definition as_str (v : pyval) : res str := match v with VStr s => Ok s | _ => Raise AttributeError end.
Definition as_list (v : pyval) : res (list pyval) :=
  match v with
  | VList l | VTuple l => Ok l
  | VStr s => Ok (map (fun c => VStr [c]) s)
  | _ => Raise TypeError end.

Definition m_strip (v : pyval) : res pyval := do s <- as_str v; Ok (VStr (strip s)).
Definition m_lstrip (v : pyval) : res pyval := do s <- as_str v; Ok (VStr (lstrip s)).
Definition m_rstrip (v : pyval) : res pyval := do s <- as_str v; Ok (VStr (rstrip s)).
Definition m_lower (v : pyval) : res pyval := do s <- as_str v; Ok (VStr (lower s)).
Definition m_upper (v : pyval) : res pyval := do s <- as_str v; Ok (VStr (upper s)).
Definition m_isdigit (v : pyval) : res pyval := do s <- as_str v; Ok (VBool (isdigit s)).
(** [replace] with a one-character pattern (the translator refuses anything else) *)
Definition m_replace (v : pyval) (old : ascii) (new : pyval) : res pyval :=
  do s <- as_str v; match new with VStr n => Ok (VStr (replace1 old n s)) | _ => Raise TypeError end.
Definition just (f : fnid) (s : str) (w : Z) : str :=
  match f with F_rjust => rjust (Z.to_nat w) s | F_ljust => ljust (Z.to_nat w) s end.
Definition m_just (f : fnid) (v w : pyval) : res pyval :=
  match v, as_int w with
  | VStr s, Some n => Ok (VStr (just f s n))
  | _, _ => Raise TypeError end.
Definition m_join (sep l : pyval) : res pyval :=
  do s <- as_str sep; do xs <- as_list l;
  do ss <- mapM (fun x => match x with VStr t => Ok t | _ => Raise TypeError end) xs;
  Ok (VStr (join s ss)).
(** calling a function value: [justfn(s, n)] *)
Definition call_fn (f s w : pyval) : res pyval :=
  match f with VFn g => m_just g s w | _ => Raise TypeError end.
(** [''.join(sorted(set(s), key = s.index))] *)
Definition b_uniqstring (v : pyval) : res pyval := do s <- as_str v; Ok (VStr (uniq s)).

(** %-formatting items with a literal template: [%ws], [%-ws], [%wd] *)
Definition fmt_s (w : Z) (v : pyval) : res str :=
  do t <- b_str v; do s <- as_str t;
  Ok (if (w <? 0)%Z then ljust (Z.to_nat (- w)) s else rjust (Z.to_nat w) s).
Definition fmt_d (w : Z) (v : pyval) : res str :=
  match as_int v with
  | Some z => let s := z_to_str z in Ok (if (w <? 0)%Z then ljust (Z.to_nat (- w)) s else rjust (Z.to_nat w) s)
  | None => Raise TypeError end.
Definition fmt_lit (s : str) : res str := Ok s.
Fixpoint fmt_concat (l : list (res str)) : res pyval :=
  match l with
  | [] => Ok (VStr [])
  | r :: rest => do s <- r; do t <- fmt_concat rest; match t with VStr u => Ok (VStr (s ++ u)) | _ => Raise TypeError end
  end.

Definition py_all (l : list pyval) : bool := forallb truthy l.
Definition py_any (l : list pyval) : bool := existsb truthy l.

Definition vstr (s : string) : pyval := VStr (s2l s).

(** small evaluation lemmas used by the bridging proofs *)
Lemma getitem_str_0 c r : py_getitem (VStr (c :: r)) (VInt 0) = Ok (VStr [c]).
Proof. reflexivity. Qed.
Lemma slice_str_1 c r : py_slice (VStr (c :: r)) (VInt 1) VNone = Ok (VStr r).
Proof. cbn [py_slice as_bound as_int bind]. rewrite pyslice_tail. reflexivity. Qed.

(** fuel for a call of a fuel-recursive generated function from another function:
    the recursion of [int_to_chars] strictly decreases its integer argument *)
Definition fuel_of (v : pyval) : nat := match v with VInt z => S (Z.to_nat z) | _ => 1%nat end.
