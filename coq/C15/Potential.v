(** C15 -- "density and energy come from ONE potential" for the IFC-67 routines.

    cowat and supst each compute a reduced volume CHI(theta, beta) and a reduced enthalpy
    EPS(theta, beta) (theta = (t + 273.15) / 647.3, beta = p / 2.212e7) and return
        D = 1 / (CHI * vstar),    U = EPS * hstar - p * (CHI * vstar).
    A reduced Gibbs function ZETA with CHI = dZETA/dbeta and EPS = ZETA - theta dZETA/dtheta
    exists iff the Maxwell relation
        dEPS/dbeta  =  CHI  -  theta * dCHI/dtheta                                  (M)
    holds (ZETA is then the beta-antiderivative of CHI plus a function of theta fixed by EPS).
    This file proves (M) for the DAGs traced from the current source, for ALL real coefficient
    values and all states at which the computation is defined:
      - the derivatives are those of the traced DAG itself (forward-mode differentiation of the
        DAG, proved correct against Coquelicot's [is_derive]: Jet.v);
      - the jets are read as pairs of Laurent polynomials in atoms (PolyJet.v); the atoms that
        stand for non-polynomial quantities (sqrt, exp, **, the divisors) are tied to the DAG by
        the claims below, each checked by the run;
      - (M) then is the vanishing of one polynomial modulo the atoms' definitions (Expand.v),
        decided by [vm_compute].
    cowat raises Z to the power 5./17., a double that is not exactly 5/17: (M) holds exactly for
    the exponent 5/17 and the theorem is stated for the DAG with that exponent ([fixpow]);
    Tables.cowat_exponent_b checks that the source's exponent is the double nearest 5/17. *)
Set Warnings "-ambiguous-paths,-notation-overridden".
From Coq Require Import ZArith QArith Qreals Reals List Bool Lia Lra.
From Coquelicot Require Import Coquelicot.
From P Require Import Expr Laurent Expand Jet PolyJet.
From Gen Require Import GenThermo GenTraced.
Import ListNotations.
Close Scope Q_scope.
Open Scope R_scope.

Definition fixpow (q0 : Q) (ns : list node) : list node :=
  map (fun n => match n with NPow h a _ f => NPow h a q0 f | _ => n end) ns.

(** positions (in the final environment) of the reduced volume and reduced enthalpy nodes:
    the outputs are D = 1 / cut(V), V = CHI * vstar, and U = H - p * V, H = EPS * hstar *)
Definition node_at (ns : list node) (pos : nat) : option node := nth_error (rev ns) pos.
Definition ret_outs (t : traced) : list nat :=
  match t_paths t with p :: _ => match p_out p with ORet l => l | _ => [] end | [] => [] end.
Definition chi_eps_pos (ns : list node) (outs : list nat) : option (nat * nat) :=
  match outs with
  | [pD; pU] =>
      match node_at ns pD, node_at ns pU with
      | Some (NDiv _ cv), Some (NSub h _) =>
          let pc := (pD + 1 + cv)%nat in let pH := (pU + 1 + h)%nat in
          match node_at ns pc, node_at ns pH with
          | Some (NCut _ v), Some (NMul e _) =>
              let pV := (pc + 1 + v)%nat in
              match node_at ns pV with
              | Some (NMul m _) => Some ((pV + 1 + m)%nat, (pH + 1 + e)%nat)
              | _ => None
              end
          | _, _ => None
          end
      | _, _ => None
      end
  | _ => None
  end.

Definition fn0 : fnR := fun _ _ _ => 0.

(** zero exponents on the atoms lo .. hi-1 *)
Definition mono_skips (lo hi : nat) (m : mono) : bool :=
  forallb (fun j => (mget m j =? 0)%Z) (seq lo (hi - lo)).
Definition poly_skips (lo hi : nat) (p : poly) : bool := forallb (fun mc => mono_skips lo hi (fst mc)) p.

Lemma dmono_ext rho rho' lo hi m : forall i,
  (forall k, (k < lo \/ hi <= k)%nat -> rho k = rho' k) ->
  (forall j, (lo <= i + j < hi)%nat -> mget m j = 0%Z) ->
  dmono rho i m = dmono rho' i m.
Proof.
  induction m as [|e r IH]; intros i Hr Hz; [reflexivity|].
  cbn [dmono]. rewrite (IH (S i) Hr).
  - destruct (Nat.lt_ge_cases i lo) as [L|L]; [rewrite (Hr i (or_introl L)); reflexivity|].
    destruct (Nat.lt_ge_cases i hi) as [L'|L']; [|rewrite (Hr i (or_intror L')); reflexivity].
    specialize (Hz 0%nat). unfold mget in Hz. cbn [nth] in Hz. rewrite Hz by lia. reflexivity.
  - intros j Hj. specialize (Hz (S j)). unfold mget in *. cbn [nth] in Hz. apply Hz. lia.
Qed.

Lemma dpoly_ext rho rho' lo hi p :
  (forall k, (k < lo \/ hi <= k)%nat -> rho k = rho' k) -> poly_skips lo hi p = true ->
  dpoly rho p = dpoly rho' p.
Proof.
  intros Hr. induction p as [|[m c] r IH]; intros Hs; [reflexivity|].
  cbn [poly_skips forallb fst] in Hs. apply andb_true_iff in Hs as [H1 H2].
  cbn [dpoly fst snd]. rewrite (IH H2). f_equal. f_equal.
  apply (dmono_ext rho rho' lo hi m 0 Hr). intros j Hj.
  unfold mono_skips in H1. rewrite forallb_forall in H1.
  apply Z.eqb_eq. apply H1. apply in_seq. lia.
Qed.

Definition keys_nodup (l : list (nat * nat)) : bool :=
  forallb (fun hp => (length (filter (fun hp' => Nat.eqb (fst hp') (fst hp)) l) =? 1)%nat) l.

Lemma find_unique (l : list (nat * nat)) h pos : keys_nodup l = true -> In (h, pos) l ->
  find (fun hp => Nat.eqb (fst hp) h) l = Some (h, pos).
Proof.
  intros Hn Hin. unfold keys_nodup in Hn. rewrite forallb_forall in Hn.
  specialize (Hn _ Hin). cbn [fst] in Hn. apply Nat.eqb_eq in Hn.
  induction l as [|[h' p'] r IH]; [destruct Hin|].
  cbn [find fst]. cbn [filter fst] in Hn. destruct (Nat.eqb h' h) eqn:E.
  - apply Nat.eqb_eq in E. subst h'. cbn [length] in Hn.
    destruct Hin as [Hin|Hin]; [injection Hin as ->; reflexivity|].
    exfalso. assert (In (h, pos) (filter (fun hp' => Nat.eqb (fst hp') h) r)).
    { apply filter_In. split; [exact Hin|cbn; apply Nat.eqb_refl]. }
    destruct (filter (fun hp' => Nat.eqb (fst hp') h) r); [destruct H|discriminate].
  - destruct Hin as [Hin|Hin]; [injection Hin as -> ->; rewrite Nat.eqb_refl in E; discriminate|].
    apply IH; assumption.
Qed.

Section Maxwell.
  (** the DAG and its summary *)
  Variable ns : list node.
  Variables (N tb tvb vb cb : nat).            (* atoms: parameters < tb <= sqrt/exp/pow < tvb <= virtual < vb <= cuts < cb <= coefficients *)
  Variable claims : list claim.
  Variable st0 : st.                           (* definitions of the virtual atoms *)
  Variables (cK c0 ps : Q).                    (* t = cK * theta - c0, p = ps * beta *)
  Variables (pc pe : nat).                     (* positions of CHI and EPS *)
  Notation ub := (unitb cb).

  Definition varp : list poly :=
    [pden N (PSub (PMul (PC cK) (PA 0)) (PC c0)); pden N (PMul (PC ps) (PA 1))].
  Definition dvarp_x : list poly := [pconst N cK; []].
  Definition dvarp_y : list poly := [[]; pconst N ps].
  Definition run_x := run N tb vb cb claims varp dvarp_x st0 [] ns.
  Definition run_y := run N tb vb cb claims varp dvarp_y st0 [] ns.

  Definition layout_ok : bool :=
    (2 <=? tb)%nat && (tb <=? tvb)%nat && (tvb <=? vb)%nat && (vb <=? cb)%nat && (cb <=? N)%nat
    && keys_nodup (tnodes ns) && keys_nodup (cnodes ns)
    && forallb (fun hp => (tb + fst hp <? tvb)%nat) (tnodes ns)
    && forallb (fun cp => (vb + fst cp <? cb)%nat) (cnodes ns)
    && forallb (fun jd => (tvb <=? fst jd)%nat && (fst jd <? vb)%nat && poly_skips tvb vb (snd jd) && poly_ok ub (snd jd)
                          && (length (filter (fun jd' => Nat.eqb (fst jd') (fst jd)) st0) =? 1)%nat) st0
    && pwf N ub (PSub (PMul (PC cK) (PA 0)) (PC c0)) && pwf N ub (PMul (PC ps) (PA 1)).

  (** what the run must have produced *)
  Variables (envx envy : list (option pjet)) (sx sy : st) (chi chix eps epsy : poly).
  Hypothesis Hlayout : layout_ok = true.
  Hypothesis Hrun_x : run_x = Some (envx, sx).
  Hypothesis Hrun_y : run_y = Some (envy, sy).
  Hypothesis Hchi : nth_error envx pc = Some (Some (chi, chix)).
  Hypothesis Heps : nth_error envy pe = Some (Some (eps, epsy)).
  Definition maxwell_poly : poly := pclean (padd epsy (padd (pneg chi) (pmul (patom N 0) chix))).
  Hypothesis Hzero : zero_mod N ub sx maxwell_poly = true.

  (** the real side *)
  Variable coef : nat -> R.
  Definition vars (x y : R) (i : nat) : R := nth i [Q2R cK * x - Q2R c0; Q2R ps * y] 0.
  Definition value (k : nat) (x y : R) : R := nth k (evalR fn0 (vars x y) coef ns) 0.

  Variables (x0 y0 : R).
  Definition dvar_x (i : nat) : R := nth i [Q2R cK; 0] 0.
  Definition dvar_y (i : nat) : R := nth i [0; Q2R ps] 0.
  Definition EJx := evJ (fun s => vars s y0) dvar_x coef x0 [] ns.
  Definition EJy := evJ (fun s => vars x0 s) dvar_y coef y0 [] ns.

  (** the valuation of the atoms at the point *)
  Definition envR := evalR fn0 (vars x0 y0) coef ns.
  Definition lookup (l : list (nat * nat)) (k : nat) : R :=
    match find (fun hp => Nat.eqb (fst hp) k) l with Some hp => nth (snd hp) envR 0 | None => 1 end.
  Definition rho_base (j : nat) : R :=
    if (j <? tb)%nat then nth j [x0; y0] 0
    else if (j <? tvb)%nat then lookup (tnodes ns) (j - tb)
    else if (j <? vb)%nat then 1
    else if (j <? cb)%nat then lookup (cnodes ns) (j - vb)
    else coef (j - cb).
  Definition rho (j : nat) : R :=
    if (tvb <=? j)%nat && (j <? vb)%nat then
      match find (fun jd => Nat.eqb (fst jd) j) st0 with Some jd => dpoly rho_base (snd jd) | None => 1 end
    else rho_base j.

  (** the state is admissible: every divisor met is non-zero, every argument of sqrt / ** is
      positive, every atom standing for a divisor or a parameter is non-zero *)
  Definition admissible : Prop :=
    side_ok (fun s => vars s y0) dvar_x coef x0 [] ns /\
    side_ok (fun s => vars x0 s) dvar_y coef y0 [] ns /\
    forall i, (i < cb)%nat -> rho i <> 0.
  Hypothesis Hadm : admissible.

  Lemma rho_unit i : ub i = true -> rho i <> 0.
  Proof. unfold unitb. intros H. apply Nat.ltb_lt in H. destruct Hadm as [_ [_ A]]. apply A. exact H. Qed.

  Lemma layout_facts :
    (2 <= tb <= tvb)%nat /\ (tvb <= vb <= cb)%nat /\ (cb <= N)%nat /\
    keys_nodup (tnodes ns) = true /\ keys_nodup (cnodes ns) = true /\
    forallb (fun hp => (tb + fst hp <? tvb)%nat) (tnodes ns) = true /\
    forallb (fun cp => (vb + fst cp <? cb)%nat) (cnodes ns) = true /\
    forallb (fun jd => (tvb <=? fst jd)%nat && (fst jd <? vb)%nat && poly_skips tvb vb (snd jd) && poly_ok ub (snd jd)
                       && (length (filter (fun jd' => Nat.eqb (fst jd') (fst jd)) st0) =? 1)%nat) st0 = true /\
    pwf N ub (PSub (PMul (PC cK) (PA 0)) (PC c0)) = true /\ pwf N ub (PMul (PC ps) (PA 1)) = true.
  Proof.
    pose proof Hlayout as H. unfold layout_ok in H. rewrite !andb_true_iff in H. rewrite !Nat.leb_le in H. tauto.
  Qed.
  Ltac layout := destruct layout_facts as ([T1 T2] & [T3 T4] & T5 & Kt & Kc & Ft & Fc & Fs & W0 & W1).

  Lemma rho_outside k : (k < tvb \/ vb <= k)%nat -> rho k = rho_base k.
  Proof.
    intros H. unfold rho. destruct ((tvb <=? k)%nat && (k <? vb)%nat) eqn:E; [|reflexivity].
    apply andb_true_iff in E as [E1 E2]. apply Nat.leb_le in E1. apply Nat.ltb_lt in E2. lia.
  Qed.

  Lemma is_derive_vars_x i : is_derive (fun s => vars s y0 i) x0 (dvar_x i).
  Proof.
    unfold vars, dvar_x. destruct i as [|[|i]]; cbn [nth].
    - auto_derive; [exact I|ring].
    - auto_derive; [exact I|ring].
    - destruct i; cbn [nth]; (auto_derive; [exact I|ring]).
  Qed.
  Lemma is_derive_vars_y i : is_derive (fun s => vars x0 s i) y0 (dvar_y i).
  Proof.
    unfold vars, dvar_y. destruct i as [|[|i]]; cbn [nth].
    - auto_derive; [exact I|ring].
    - auto_derive; [exact I|ring].
    - destruct i; cbn [nth]; (auto_derive; [exact I|ring]).
  Qed.

  (** values: both jet evaluations carry the real values at the point *)
  Lemma jv_x k : jv (nth k EJx (0, 0)) = nth k envR 0.
  Proof. destruct Hadm as [Sx _]. apply (ad_sound (fun s => vars s y0) dvar_x coef fn0 x0 is_derive_vars_x ns Sx k). Qed.
  Lemma jv_y k : jv (nth k EJy (0, 0)) = nth k envR 0.
  Proof. destruct Hadm as [_ [Sy _]]. apply (ad_sound (fun s => vars x0 s) dvar_y coef fn0 y0 is_derive_vars_y ns Sy k). Qed.

  Lemma rho_tatom h pos : In (h, pos) (tnodes ns) -> rho (tatom tb h) = nth pos envR 0.
  Proof.
    intros Hin. layout.
    rewrite forallb_forall in Ft. specialize (Ft _ Hin). cbn [fst] in Ft. apply Nat.ltb_lt in Ft.
    unfold tatom. rewrite rho_outside by lia. unfold rho_base.
    assert ((tb + h <? tb)%nat = false) as -> by (apply Nat.ltb_ge; lia).
    assert ((tb + h <? tvb)%nat = true) as -> by (apply Nat.ltb_lt; lia).
    replace (tb + h - tb)%nat with h by lia. unfold lookup.
    rewrite (find_unique _ h pos Kt Hin). reflexivity.
  Qed.
  Lemma rho_catom c pos : In (c, pos) (cnodes ns) -> rho (vb + c)%nat = nth pos envR 0.
  Proof.
    intros Hin. layout.
    rewrite forallb_forall in Fc. specialize (Fc _ Hin). cbn [fst] in Fc. apply Nat.ltb_lt in Fc.
    rewrite rho_outside by lia. unfold rho_base.
    assert ((vb + c <? tb)%nat = false) as -> by (apply Nat.ltb_ge; lia).
    assert ((vb + c <? tvb)%nat = false) as -> by (apply Nat.ltb_ge; lia).
    assert ((vb + c <? vb)%nat = false) as -> by (apply Nat.ltb_ge; lia).
    assert ((vb + c <? cb)%nat = true) as -> by (apply Nat.ltb_lt; lia).
    replace (vb + c - vb)%nat with c by lia. unfold lookup.
    rewrite (find_unique _ c pos Kc Hin). reflexivity.
  Qed.
  Lemma rho_coef k : (cb + k < N)%nat -> rho (cb + k)%nat = coef k.
  Proof.
    intros _. layout.
    rewrite rho_outside by lia. unfold rho_base.
    assert ((cb + k <? tb)%nat = false) as -> by (apply Nat.ltb_ge; lia).
    assert ((cb + k <? tvb)%nat = false) as -> by (apply Nat.ltb_ge; lia).
    assert ((cb + k <? vb)%nat = false) as -> by (apply Nat.ltb_ge; lia).
    assert ((cb + k <? cb)%nat = false) as -> by (apply Nat.ltb_ge; lia).
    f_equal. lia.
  Qed.
  Lemma rho_0 : rho 0%nat = x0.
  Proof. layout. rewrite rho_outside by lia. unfold rho_base.
    assert ((0 <? tb)%nat = true) as -> by (apply Nat.ltb_lt; lia). reflexivity. Qed.
  Lemma rho_1 : rho 1%nat = y0.
  Proof. layout. rewrite rho_outside by lia. unfold rho_base.
    assert ((1 <? tb)%nat = true) as -> by (apply Nat.ltb_lt; lia). reflexivity. Qed.

  Lemma st0_holds : defs_hold rho ub st0.
  Proof.
    intros j d Hin. layout. rewrite forallb_forall in Fs. specialize (Fs _ Hin). cbn [fst snd] in Fs.
    rewrite !andb_true_iff in Fs. destruct Fs as [[[[S1 S2] S3] S4] S5].
    split; [|assumption].
    apply Nat.leb_le in S1. apply Nat.ltb_lt in S2.
    unfold rho at 1.
    assert (((tvb <=? j)%nat && (j <? vb)%nat) = true) as ->
      by (apply andb_true_iff; split; [apply Nat.leb_le|apply Nat.ltb_lt]; assumption).
    assert (F : find (fun jd => Nat.eqb (fst jd) j) st0 = Some (j, d)).
    { apply Nat.eqb_eq in S5. clear - Hin S5. induction st0 as [|[j' d'] r IH]; [destruct Hin|].
      cbn [find fst]. cbn [filter fst] in S5. destruct (Nat.eqb j' j) eqn:E.
      - apply Nat.eqb_eq in E. subst j'. destruct Hin as [Hin|Hin]; [injection Hin as ->; reflexivity|].
        exfalso. cbn [length] in S5.
        assert (In (j, d) (filter (fun jd' => Nat.eqb (fst jd') j) r)) by (apply filter_In; split; [exact Hin|cbn; apply Nat.eqb_refl]).
        destruct (filter (fun jd' => Nat.eqb (fst jd') j) r); [destruct H|discriminate].
      - destruct Hin as [Hin|Hin]; [injection Hin as -> ->; rewrite Nat.eqb_refl in E; discriminate|].
        apply IH; assumption. }
    rewrite F. cbn [snd]. symmetry. apply (dpoly_ext rho rho_base tvb vb d); [|assumption].
    intros k Hk. apply rho_outside. exact Hk.
  Qed.

  Lemma rho_varp i p dp dvarp dvar :
    (dvarp = dvarp_x /\ dvar = dvar_x) \/ (dvarp = dvarp_y /\ dvar = dvar_y) ->
    nth_error varp i = Some p -> nth_error dvarp i = Some dp ->
    dpoly rho p = vars x0 y0 i /\ dpoly rho dp = dvar i.
  Proof.
    intros Hd E1 E2. layout.
    assert (C : forall q, dpoly rho (pconst N q) = Q2R q) by (intros q; apply (pconst_sound rho ub N q)).
    unfold varp in E1.
    destruct i as [|[|i]]; cbn [nth_error] in E1; try (destruct i; discriminate);
      apply Some_inj_l in E1; subst p.
    - destruct (pden_sound N ub rho rho_unit _ W0) as [D _]. rewrite D.
      cbn [rden]. rewrite rho_0. split; [reflexivity|].
      destruct Hd as [[-> ->]|[-> ->]]; unfold dvarp_x, dvarp_y in E2; cbn [nth_error] in E2;
        apply Some_inj_l in E2; subst dp; [apply C|reflexivity].
    - destruct (pden_sound N ub rho rho_unit _ W1) as [D _]. rewrite D.
      cbn [rden]. rewrite rho_1. split; [reflexivity|].
      destruct Hd as [[-> ->]|[-> ->]]; unfold dvarp_x, dvarp_y in E2; cbn [nth_error] in E2;
        apply Some_inj_l in E2; subst dp; [reflexivity|apply C].
  Qed.

  (** the polynomial jets denote the real jets *)
  Lemma agree_x : agree cb rho envx EJx /\ defs_hold rho ub sx.
  Proof.
    apply (run_sound N tb vb cb claims varp dvarp_x (fun s => vars s y0) dvar_x coef x0 rho rho_unit) with (s := st0) (ps := []).
    - intros i p dp E1 E2. apply (rho_varp i p dp dvarp_x dvar_x); auto.
    - exact rho_coef.
    - constructor.
    - exact st0_holds.
    - intros h pos Hin. rewrite (rho_tatom h pos Hin). symmetry. apply jv_x.
    - intros c pos Hin _. rewrite (rho_catom c pos Hin). symmetry. apply jv_x.
    - exact Hrun_x.
  Qed.
  Lemma agree_y : agree cb rho envy EJy /\ defs_hold rho ub sy.
  Proof.
    apply (run_sound N tb vb cb claims varp dvarp_y (fun s => vars x0 s) dvar_y coef y0 rho rho_unit) with (s := st0) (ps := []).
    - intros i p dp E1 E2. apply (rho_varp i p dp dvarp_y dvar_y); auto.
    - exact rho_coef.
    - constructor.
    - exact st0_holds.
    - intros h pos Hin. rewrite (rho_tatom h pos Hin). symmetry. apply jv_y.
    - intros c pos Hin _. rewrite (rho_catom c pos Hin). symmetry. apply jv_y.
    - exact Hrun_y.
  Qed.

  (** the Maxwell relation at the point *)
  Theorem maxwell :
    is_derive (fun x => value pc x y0) x0 (jd (nth pc EJx (0, 0))) /\
    is_derive (fun y => value pe x0 y) y0 (value pc x0 y0 - x0 * jd (nth pc EJx (0, 0))).
  Proof.
    destruct Hadm as [Sx [Sy _]].
    destruct (ad_sound (fun s => vars s y0) dvar_x coef fn0 x0 is_derive_vars_x ns Sx pc) as [Vc Dc].
    destruct (ad_sound (fun s => vars x0 s) dvar_y coef fn0 y0 is_derive_vars_y ns Sy pe) as [_ De].
    split; [exact Dc|].
    destruct agree_x as [Ax Dx]. destruct agree_y as [Ay _].
    destruct (agree_nth cb rho envx EJx pc _ Ax Hchi) as (C1 & C2 & C3 & C4).
    destruct (agree_nth cb rho envy EJy pe _ Ay Heps) as (E1 & E2 & E3 & E4).
    assert (A0 : (0 < N)%nat) by (layout; lia).
    destruct (patom_sound rho ub N 0 A0) as [P1 P2].
    destruct (pmul_sound_ok rho ub rho_unit _ _ P2 C2) as [M1 M2].
    assert (OkE : poly_ok ub maxwell_poly = true).
    { unfold maxwell_poly. apply pclean_ok. apply padd_ok; [exact E2|]. apply padd_ok; [rewrite pneg_ok; exact C1|exact M2]. }
    pose proof (zero_mod_sound N rho ub rho_unit sx maxwell_poly Dx OkE Hzero) as Z.
    unfold maxwell_poly in Z. rewrite pclean_sound, !padd_sound, pneg_sound, M1, P1, rho_0, C3, C4, E4 in Z.
    replace (value pc x0 y0 - x0 * jd (nth pc EJx (0, 0))) with (jd (nth pe EJy (0, 0))); [exact De|].
    unfold value. fold envR. rewrite <- jv_x. fold EJx. lra.
  Qed.
End Maxwell.

(** ** One boolean that gathers everything the run must establish *)
Definition maxwell_check (ns : list node) (N tb tvb vb cb : nat) (claims : list claim) (st0 : st)
                         (cK c0 ps : Q) (pc pe : nat) : bool :=
  layout_ok ns N tb tvb vb cb st0 cK c0 ps &&
  match run_x ns N tb vb cb claims st0 cK c0 ps, run_y ns N tb vb cb claims st0 cK c0 ps with
  | Some (envx, sx), Some (envy, _) =>
      match nth_error envx pc, nth_error envy pe with
      | Some (Some (chi, chix)), Some (Some (_, epsy)) =>
          zero_mod N (unitb cb) sx (maxwell_poly N chi chix epsy)
      | _, _ => false
      end
  | _, _ => false
  end.

Theorem maxwell_from_check ns N tb tvb vb cb claims st0 cK c0 ps pc pe :
  maxwell_check ns N tb tvb vb cb claims st0 cK c0 ps pc pe = true ->
  forall (coef : nat -> R) (x0 y0 : R),
  admissible ns tb tvb vb cb st0 cK c0 ps coef x0 y0 ->
  exists dchi,
    is_derive (fun x => value ns cK c0 ps coef pc x y0) x0 dchi /\
    is_derive (fun y => value ns cK c0 ps coef pe x0 y) y0 (value ns cK c0 ps coef pc x0 y0 - x0 * dchi).
Proof.
  unfold maxwell_check. intros H coef x0 y0 Hadm.
  apply andb_true_iff in H as [HL H].
  destruct (run_x ns N tb vb cb claims st0 cK c0 ps) as [[envx sx]|] eqn:Ex; [|discriminate].
  destruct (run_y ns N tb vb cb claims st0 cK c0 ps) as [[envy sy]|] eqn:Ey; [|discriminate].
  destruct (nth_error envx pc) as [[[chi chix]|]|] eqn:Ec; try discriminate.
  destruct (nth_error envy pe) as [[[eps epsy]|]|] eqn:Ee; try discriminate.
  eexists. exact (maxwell ns N tb tvb vb cb claims st0 cK c0 ps pc pe envx envy sx sy chi chix eps epsy HL Ex Ey Ec Ee H coef x0 y0 Hadm).
Qed.

(** ** The outputs in terms of CHI and EPS *)
Section Shape.
  Variables (fn : fnR) (var coef : nat -> R).
  Notation ev := (eval_nodes 0 (fun q _ => Q2R q) Rplus Rminus Rmult Rdiv Ropp (fun _ => sqrt)
             (fun _ x => exp x) (fun _ x q _ => Rpower x (Q2R q)) (fun _ fid out args => fn fid out args) var coef).
  Notation evn := (eval_node 0 (fun q _ => Q2R q) Rplus Rminus Rmult Rdiv Ropp (fun _ => sqrt)
             (fun _ x => exp x) (fun _ x q _ => Rpower x (Q2R q)) (fun _ fid out args => fn fid out args) var coef).

  Lemma ev_app a : forall b env, ev env (a ++ b) = ev (ev env a) b.
  Proof. induction a as [|n r IH]; intros b env; [reflexivity|]. cbn [app eval_nodes]. apply IH. Qed.

  Lemma node_value ns : forall pos n, node_at ns pos = Some n ->
    nth pos (ev [] ns) 0 = evn (skipn (S pos) (ev [] ns)) n.
  Proof.
    unfold node_at. induction ns as [|n' ns' IH] using rev_ind; intros pos n E.
    - destruct pos; discriminate.
    - rewrite rev_app_distr in E. cbn [rev app] in E. rewrite ev_app. cbn [eval_nodes].
      destruct pos as [|pos]; cbn [nth_error] in E.
      + injection E as <-. reflexivity.
      + cbn [nth skipn]. apply IH. exact E.
  Qed.

  Lemma nth_skipn {A} (l : list A) k d (dflt : A) : nth d (skipn k l) dflt = nth (k + d) l dflt.
  Proof. revert l. induction k as [|k IH]; intros l; [reflexivity|]. destruct l; [destruct d; reflexivity|]. cbn [skipn Nat.add nth]. apply IH. Qed.

  Lemma node_get ns pos d : get 0 (skipn (S pos) (ev [] ns)) d = nth (pos + 1 + d) (ev [] ns) 0.
  Proof. unfold get. rewrite nth_skipn. f_equal. lia. Qed.
End Shape.

Definition out_shape (ns : list node) (outs : list nat) : option (nat * nat * Q * Q) :=
  match outs with
  | [pD; pU] =>
      match node_at ns pD, node_at ns pU with
      | Some (NDiv one cv), Some (NSub h pv) =>
          let pcut := (pD + 1 + cv)%nat in let pH := (pU + 1 + h)%nat in let pPV := (pU + 1 + pv)%nat in
          match node_at ns (pD + 1 + one), node_at ns pcut, node_at ns pH, node_at ns pPV with
          | Some (NConst q1 _), Some (NCut _ v), Some (NMul e hc), Some (NMul pp vv) =>
              let pV := (pcut + 1 + v)%nat in
              match node_at ns pV, node_at ns (pH + 1 + hc), node_at ns (pPV + 1 + pp) with
              | Some (NMul m vc), Some (NConst hq _), Some (NVar 1) =>
                  match node_at ns (pV + 1 + vc) with
                  | Some (NConst vq _) =>
                      if Qeq_bool q1 1 && Nat.eqb (pPV + 1 + vv) pV
                      then Some ((pV + 1 + m)%nat, (pH + 1 + e)%nat, vq, hq) else None
                  | _ => None
                  end
              | _, _, _ => None
              end
          | _, _, _, _ => None
          end
      | _, _ => None
      end
  | _ => None
  end.

Theorem out_shape_sound ns pD pU pc pe vq hq : out_shape ns [pD; pU] = Some (pc, pe, vq, hq) ->
  forall (fn : fnR) (var coef : nat -> R),
  let env := evalR fn var coef ns in
  nth pD env 0 = 1 / (nth pc env 0 * Q2R vq) /\
  nth pU env 0 = nth pe env 0 * Q2R hq - var 1%nat * (nth pc env 0 * Q2R vq).
Proof.
  unfold out_shape.
  destruct (node_at ns pD) as [[| | | | | |one cv| | | | | |]|] eqn:ED; try (intros HH; discriminate HH).
  destruct (node_at ns pU) as [[| | | |h pv| | | | | | | |]|] eqn:EU; try (intros HH; discriminate HH).
  destruct (node_at ns (pD + 1 + one)) as [[q1 f1| | | | | | | | | | | |]|] eqn:E1; try (intros HH; discriminate HH).
  destruct (node_at ns (pD + 1 + cv)) as [[| | | | | | | | | | | |c v]|] eqn:Ecut; try (intros HH; discriminate HH).
  destruct (node_at ns (pU + 1 + h)) as [[| | | | |e hc| | | | | | |]|] eqn:EH; try (intros HH; discriminate HH).
  destruct (node_at ns (pU + 1 + pv)) as [[| | | | |pp vv| | | | | | |]|] eqn:EPV; try (intros HH; discriminate HH).
  destruct (node_at ns (pD + 1 + cv + 1 + v)) as [[| | | | |m vc| | | | | | |]|] eqn:EV; try (intros HH; discriminate HH).
  destruct (node_at ns (pU + 1 + h + 1 + hc)) as [[hq' fh| | | | | | | | | | | |]|] eqn:Ehq; try (intros HH; discriminate HH).
  destruct (node_at ns (pU + 1 + pv + 1 + pp)) as [[|[|[|i]]| | | | | | | | | | |]|] eqn:Epp; try (intros HH; discriminate HH).
  destruct (node_at ns (pD + 1 + cv + 1 + v + 1 + vc)) as [[vq' fv| | | | | | | | | | | |]|] eqn:Evq; try (intros HH; discriminate HH).
  destruct (Qeq_bool q1 1 && Nat.eqb (pU + 1 + pv + 1 + vv) (pD + 1 + cv + 1 + v)) eqn:Eb; [|intros HH; discriminate HH].
  intros H fn var coef. injection H as <- <- <- <-. apply andb_true_iff in Eb as [Eq1 Evv]. apply Nat.eqb_eq in Evv.
  apply Qeq_bool_eq in Eq1. apply Qeq_eqR in Eq1.
  unfold evalR.
  split.
  - rewrite (node_value fn var coef ns pD _ ED). cbn [eval_node]. rewrite !node_get.
    rewrite (node_value fn var coef ns _ _ E1). cbn [eval_node].
    rewrite (node_value fn var coef ns _ _ Ecut). cbn [eval_node]. rewrite !node_get.
    rewrite (node_value fn var coef ns _ _ EV). cbn [eval_node]. rewrite !node_get.
    rewrite (node_value fn var coef ns _ _ Evq). cbn [eval_node].
    rewrite Eq1. replace (Q2R 1) with 1 by (unfold Q2R; cbn; lra). reflexivity.
  - rewrite (node_value fn var coef ns pU _ EU). cbn [eval_node]. rewrite !node_get.
    rewrite (node_value fn var coef ns _ _ EH). cbn [eval_node]. rewrite !node_get.
    rewrite (node_value fn var coef ns _ _ Ehq). cbn [eval_node].
    rewrite (node_value fn var coef ns _ _ EPV). cbn [eval_node]. rewrite !node_get.
    rewrite (node_value fn var coef ns _ _ Epp). cbn [eval_node].
    rewrite Evv.
    rewrite (node_value fn var coef ns _ _ EV). cbn [eval_node]. rewrite !node_get.
    rewrite (node_value fn var coef ns _ _ Evq). cbn [eval_node]. reflexivity.
Qed.
