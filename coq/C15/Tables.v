(** C15 -- finite obligations over the tables and DAGs regenerated from the current t2thermo.py:
    every coefficient is the double nearest to the reference decimal (SpecTables.v), the dict
    keys are the reference keys, every literal of every traced function body is a reference
    literal and vice versa, and each literal carries one number (exact rational = double). *)
From Coq Require Import ZArith QArith Qabs List Bool.
From Gen Require Import GenThermo GenTraced.
From P Require Import Expr SpecTables.
Import ListNotations.
Open Scope Z_scope.

(** the double is the one nearest to the reference decimal: relative distance <= 2^-53 *)
Definition near_ref (g r : Q) : bool := Qle_bool (Qabs (g - r)) (Qabs r * (1 # 9007199254740992))%Q.
(** a difference of two doubles nearest to two references: two more roundings *)
Definition near_ref3 (g r : Q) : bool := Qle_bool (Qabs (g - r)) (Qabs r * (1 # 1125899906842624))%Q.   (* 2^-50 *)
Fixpoint all2 {A B} (f : A -> B -> bool) (a : list A) (b : list B) : bool :=
  match a, b with
  | [], [] => true
  | x :: a', y :: b' => f x y && all2 f a' b'
  | _, _ => false
  end.

Definition tables_match_reference_b : bool :=
  all2 near_ref cowat_a_Q ref_cowat_a && all2 near_ref cowat_sa_Q ref_cowat_sa
  && all2 near_ref supst_b_Q ref_supst_b && all2 Z.eqb supst_b_keys ref_supst_b_keys && all2 Z.eqb supst_b_index ref_supst_b_keys
  && all2 near_ref supst_sb_Q ref_supst_sb && all2 Z.eqb supst_sb_keys ref_supst_sb_keys
  && all2 near_ref sat_a_Q ref_sat_a
  && all2 near_ref [Pc1_Q; Tc1_Q; tc_k_Q; L0_Q; L1_Q; L2_Q] [ref_Pc1; ref_Tc1; ref_tc_k; ref_L0; ref_L1; ref_L2]
  && near_ref3 Tc1_C_Q (ref_Tc1 - ref_tc_k)%Q.

(** literals of a DAG *)
Definition dag_consts (ns : list node) : list Q :=
  flat_map (fun n => match n with NConst q _ => [q] | NPow _ _ q _ => [q] | _ => [] end) ns.
Definition qmem (q : Q) (l : list Q) : bool := existsb (Qeq_bool q) l.
Definition same_consts (ns : list node) (ref : list Q) : bool :=
  forallb (fun q => qmem q ref) (dag_consts ns) && forallb (fun q => qmem q (dag_consts ns)) ref.

Definition body_literals : list (list node * list Q) :=
  [(cowat_off_nodes, ref_consts_cowat_off); (cowat_on_nodes, ref_consts_cowat_on);
   (supst_off_nodes, ref_consts_supst_off); (supst_on_nodes, ref_consts_supst_on);
   (sat_off_nodes, ref_consts_sat_off); (sat_on_nodes, ref_consts_sat_on);
   (tsat_off_nodes, ref_consts_tsat_off); (tsat_on_nodes, ref_consts_tsat_on);
   (b23p67_nodes, ref_consts_b23p67); (region67_nodes, ref_consts_region67);
   (ssf1_nodes, ref_consts_ssf1); (ssf2_nodes, ref_consts_ssf2)].
Definition body_literals_match_reference_b : bool :=
  forallb (fun p => same_consts (fst p) (snd p)) body_literals.
(** which function departs (for the failure report) *)
Definition body_literal_mismatches : list nat :=
  map fst (filter (fun p => negb (same_consts (fst (snd p)) (snd (snd p)))) (combine (seq 0 (length body_literals)) body_literals)).

Definition all_dags : list (list node) :=
  [cowat_off_nodes; cowat_on_nodes; supst_off_nodes; supst_on_nodes; sat_off_nodes; sat_on_nodes; tsat_off_nodes; tsat_on_nodes;
   b23p67_nodes; region67_nodes; ssf1_nodes; ssf2_nodes; region97_nodes; sat97_nodes; b23p97_nodes].

(** the exponent of the only ** in cowat is the double nearest 5/17 *)
Definition pow_exponents (ns : list node) : list Q := flat_map (fun n => match n with NPow _ _ q _ => [q] | _ => [] end) ns.
Definition cowat_exponent_b : bool :=
  match pow_exponents cowat_off_nodes with
  | [q] => near_ref q (5 # 17)
  | _ => false
  end.

Lemma tables_match_reference_true : tables_match_reference_b = true.
Proof. vm_compute. reflexivity. Qed.
Lemma body_literals_match_reference_true : body_literals_match_reference_b = true.
Proof. vm_compute. reflexivity. Qed.
Lemma literals_consistent_true : forallb consts_consistent all_dags = true.
Proof. vm_compute. reflexivity. Qed.
Lemma cowat_exponent_true : cowat_exponent_b = true.
Proof. vm_compute. reflexivity. Qed.
