(** C15 -- numerical facts about the saturation line of the current source, proved by interval
    arithmetic (coq-interval) on the real-number reading of the traced DAGs:
      - [sat67_increasing]: t2thermo.sat is strictly increasing on 0.01 .. Tc1_C (derivative by
        Coquelicot's auto_derive, its positivity by [interval] with bisection, then the mean
        value theorem) -- the hypothesis [sat_increasing] of Tsat.v for the real sat;
      - [sat67_at_Tc1] : sat(Tc1_C) = Pc1 exactly (the reduced temperature is exactly 1);
      - [sat_agree]    : |sat67 - sat97| <= 0.2 % of sat97 on 0.01 .. tcritical(IAPWS-97);
      - [zp_in_range]  : the radicand ZP of cowat is >= 0 wherever range checking lets cowat run.
    These are statements about exact real arithmetic on the doubles' exact values, not about the
    rounded computation. *)
Set Warnings "-ambiguous-paths,-notation-overridden".
From Coq Require Import ZArith QArith Qreals Reals List Bool Lra.
From Coquelicot Require Import Coquelicot.
From Interval Require Import Tactic.
From P Require Import Expr Common BoundsDefs.
From Gen Require Import GenThermo GenTraced.
Import ListNotations.
Close Scope Q_scope.
Open Scope R_scope.

(** position of the i-th output of the value-returning (first) path *)
Definition out_pos (t : traced) (i : nat) : nat :=
  match t_paths t with p :: _ => match p_out p with ORet l => nth i l 0%nat | _ => 0%nat end | [] => 0%nat end.
Definition fn0 : fnR := fun _ _ _ => 0.
Definition coef0 : nat -> R := fun _ => 0.

(** the value t2thermo.sat / b23p and IAPWS97.sat compute (where they return one) *)
Definition sat67 (t : R) : R := nth (out_pos sat_off_traced 0) (evalR fn0 (fun i => nth i [t] 0) coef0 sat_off_nodes) 0.
Definition b23p67 (t : R) : R := nth (out_pos b23p67_traced 0) (evalR fn0 (fun i => nth i [t] 0) coef0 b23p67_nodes) 0.
Definition sat97 (t : R) : R := nth (out_pos sat97_traced 0) (evalR fn0 (fun i => nth i [t] 0) (coefQ sat97_coefs_Q) sat97_nodes) 0.

Ltac expose_sat67 :=
  unfold sat67; lazy [out_pos sat_off_traced t_paths p_out nth];
  lazy [evalR eval_nodes eval_node get nth map sat_off_nodes].
Ltac expose_sat97 :=
  unfold sat97; lazy [out_pos sat97_traced t_paths p_out nth];
  lazy [evalR eval_nodes eval_node get nth map sat97_nodes coefQ sat97_coefs_Q i97_nr4_Q app].
Ltac numerals := unfold Q2R; cbn [Qnum Qden].

(** sat67 is what the traced sat returns, for any interpretation of (absent) calls / coefficients *)
Lemma sat67_run fn coef t : Q2R d001 <= t <= Q2R (500 # 1) ->
  runR sat_off_traced fn coef [t] = RRet [sat67 t].
Proof.
  intros H.
  open_run sat_off_traced. ev_nodes sat_off_nodes. unfold d001 in H.
  split_cmps; try (exfalso; lra).
  expose_sat67. lazy [evalR eval_nodes eval_node get nth map sat_off_nodes]. reflexivity.
Qed.

(** *** strictly increasing *)
Lemma sat67_deriv_pos t : 1 / 100 <= t <= 37416 / 100 -> exists d, is_derive sat67 t d /\ 0 < d.
Proof.
  intros H. eexists. split.
  - expose_sat67. numerals.
    auto_derive; [|reflexivity].
    repeat split; interval.
  - interval with (i_bisect t, i_depth 20).
Qed.

Lemma sat67_increasing_num a b : 1 / 100 <= a -> a < b -> b <= 37416 / 100 -> sat67 a < sat67 b.
Proof.
  intros Ha Hab Hb.
  assert (Hd : forall x, a <= x <= b -> ex_derive sat67 x /\ 0 < Derive sat67 x).
  { intros x Hx. destruct (sat67_deriv_pos x ltac:(lra)) as [d [D P]].
    split; [exists d; exact D|]. rewrite (is_derive_unique _ _ _ D). exact P. }
  destruct (MVT_gen sat67 a b (Derive sat67)) as [c [Hc E]].
  - intros x Hx. rewrite Rmin_left, Rmax_right in Hx by lra.
    apply Derive_correct. apply Hd. lra.
  - intros x Hx. rewrite Rmin_left, Rmax_right in Hx by lra.
    apply continuity_pt_filterlim. apply (ex_derive_continuous sat67 x). apply Hd. lra.
  - rewrite Rmin_left, Rmax_right in Hc by lra.
    destruct (Hd c Hc) as [_ P].
    assert (0 < Derive sat67 c * (b - a)) by (apply Rmult_lt_0_compat; lra). lra.
Qed.

Lemma sat67_increasing a b : Q2R d001 <= a -> a < b -> b <= Q2R Tc1_C_Q -> sat67 a < sat67 b.
Proof.
  unfold d001, Tc1_C_Q. intros Ha Hab Hb. apply sat67_increasing_num; [|exact Hab|]; q2r; lra.
Qed.

(** *** the upper end point: the reduced temperature at Tc1_C is exactly 1, so sat = Pc1 exactly *)
Lemma reduced_critical_temperature_is_one : (Q2R Tc1_C_Q + Q2R tc_k_Q) / Q2R Tc1_Q = 1.
Proof. unfold Tc1_C_Q, tc_k_Q, Tc1_Q. numerals. field. Qed.

Lemma sat67_at_Tc1 : sat67 (Q2R Tc1_C_Q) = Q2R Pc1_Q.
Proof.
  expose_sat67.
  change (Q2R (2402652809016115 # 8796093022208)) with (Q2R tc_k_Q).
  change (Q2R (2846855506637619 # 4398046511104)) with (Q2R Tc1_Q).
  rewrite reduced_critical_temperature_is_one.
  replace (Q2R 1 - 1) with 0 by (unfold Q2R; cbn; lra).
  unfold Rdiv. rewrite !Rmult_0_r, !Rmult_0_l, Rminus_0_r, exp_0.
  unfold Pc1_Q. numerals. lra.
Qed.

(** *** agreement of the two saturation lines *)
Lemma sat_agree_num t : 1 / 100 <= t <= 373947 / 1000 ->
  Rabs ((sat67 t - sat97 t) / sat97 t) <= 2 / 1000.
Proof.
  intros H. expose_sat67. expose_sat97. numerals.
  interval with (i_bisect t, i_depth 20).
Qed.

Lemma sat97_pos t : 1 / 100 <= t <= 373947 / 1000 -> 0 < sat97 t.
Proof. intros H. expose_sat97. numerals. interval with (i_bisect t, i_depth 12). Qed.

Lemma sat_agree t : Q2R d001 <= t <= Q2R i97_tcritical_Q ->
  Rabs (sat67 t - sat97 t) <= 2 / 1000 * sat97 t.
Proof.
  unfold d001, i97_tcritical_Q. intros H.
  assert (Hn : 1 / 100 <= t <= 373947 / 1000).
  { q2r. split; [|lra]. apply Rle_trans with (2 := proj1 H).
    (* the double 0.01 is just above 1/100 *) lra. }
  pose proof (sat_agree_num t Hn) as A. pose proof (sat97_pos t Hn) as P.
  unfold Rdiv in A at 1. rewrite Rabs_mult, (Rabs_right (/ sat97 t)) in A
    by (apply Rle_ge, Rlt_le, Rinv_0_lt_compat; exact P).
  apply (Rmult_le_compat_r (sat97 t)) in A; [|lra].
  rewrite Rmult_assoc, Rinv_l, Rmult_1_r in A by lra. exact A.
Qed.

(** *** saturation temperatures: the inverse functions of the two saturation lines differ by < 0.18 K *)
Definition b23p97 (t : R) : R := nth (out_pos b23p97_traced 0) (evalR fn0 (fun i => nth i [t] 0) (coefQ b23p97_coefs_Q) b23p97_nodes) 0.

Lemma sat67_pos t : 1 / 100 <= t <= 37416 / 100 -> 0 < sat67 t.
Proof. intros H. expose_sat67. numerals. interval. Qed.

(** d ln(sat67) / dt >= 0.0115 per kelvin on the whole line (its minimum, 0.01185, is at the critical end) *)
Lemma sat67_logderiv t : 1 / 100 <= t <= 37416 / 100 ->
  exists d, is_derive sat67 t d /\ 115 / 10000 * sat67 t <= d.
Proof.
  intros H. eexists. split.
  - expose_sat67. numerals.
    auto_derive; [|reflexivity].
    repeat split; interval.
  - apply Rminus_le_0. expose_sat67. numerals. interval with (i_bisect t, i_depth 24).
Qed.

Opaque sat67.
Lemma ln_sat67_rate a b : 1 / 100 <= a -> a <= b -> b <= 37416 / 100 ->
  115 / 10000 * (b - a) <= ln (sat67 b) - ln (sat67 a).
Proof.
  intros Ha Hab Hb. destruct (Req_dec a b) as [->|Hne]; [lra|].
  set (L := fun t => ln (sat67 t)). set (dL := fun t => Derive sat67 t / sat67 t).
  assert (HL : forall x, a <= x <= b -> is_derive L x (dL x) /\ 115 / 10000 <= dL x).
  { intros x Hx. destruct (sat67_logderiv x ltac:(lra)) as [d [D M]].
    pose proof (sat67_pos x ltac:(lra)) as P. unfold dL. rewrite (is_derive_unique _ _ _ D). split.
    - unfold L. evar_last; [apply (is_derive_comp ln sat67 x (/ sat67 x) d); [apply is_derive_ln; exact P|exact D]|].
      change (d * / sat67 x = d / sat67 x). reflexivity.
    - apply (Rmult_le_reg_r (sat67 x)); [exact P|]. assert (Hs : sat67 x <> 0) by lra.
      replace (d / sat67 x * sat67 x) with d; [exact M|]. unfold Rdiv. rewrite Rmult_assoc, Rinv_l, Rmult_1_r; [reflexivity|exact Hs]. }
  destruct (MVT_gen L a b dL) as [c [Hc E]].
  - intros x Hx. rewrite Rmin_left, Rmax_right in Hx by lra. apply HL. lra.
  - intros x Hx. rewrite Rmin_left, Rmax_right in Hx by lra.
    apply continuity_pt_filterlim. apply (ex_derive_continuous L x). exists (dL x). apply HL. lra.
  - rewrite Rmin_left, Rmax_right in Hc by lra. destruct (HL c Hc) as [_ M].
    fold (L b) (L a). rewrite E. apply Rmult_le_compat_r; lra.
Qed.

Lemma ln_near_one r : 998 / 1000 <= r <= 1002 / 1000 -> - (201 / 100000) <= ln r <= 201 / 100000.
Proof. intros H. split; interval. Qed.

Lemma tsat_agree t67 t97 p :
  Q2R d001 <= t67 <= Q2R Tc1_C_Q -> Q2R d001 <= t97 <= Q2R i97_tcritical_Q ->
  sat67 t67 = p -> sat97 t97 = p -> Rabs (t67 - t97) <= 18 / 100.
Proof.
  unfold d001, Tc1_C_Q, i97_tcritical_Q. intros H67 H97 E67 E97.
  assert (N67 : 1 / 100 <= t67 <= 37416 / 100) by (q2r; lra).
  assert (N97 : 1 / 100 <= t97 <= 373947 / 1000) by (q2r; lra).
  pose proof (sat97_pos t97 N97) as Pp. rewrite E97 in Pp.
  pose proof (sat_agree_num t97 N97) as A. rewrite E97 in A.
  pose proof (sat67_pos t97 ltac:(lra)) as Px.
  set (r := sat67 t97 / p) in *.
  assert (Hr : 998 / 1000 <= r <= 1002 / 1000).
  { replace ((sat67 t97 - p) / p) with (r - 1) in A by (unfold r; field; lra).
    apply Rabs_le_between in A. lra. }
  assert (Hln : ln (sat67 t97) - ln p = ln r) by (unfold r; rewrite ln_div by assumption; reflexivity).
  destruct (ln_near_one r Hr) as [L1 L2].
  destruct (Rle_lt_dec t67 t97) as [C|C].
  - pose proof (ln_sat67_rate t67 t97 ltac:(lra) C ltac:(lra)) as R. rewrite E67 in R.
    rewrite Rabs_left1 by lra. lra.
  - pose proof (ln_sat67_rate t97 t67 ltac:(lra) ltac:(lra) ltac:(lra)) as R. rewrite E67 in R.
    rewrite Rabs_right by lra. lra.
Qed.

Transparent sat67.

(** *** the two B23 curves differ by < 0.05 % between 350 and 590 degC *)
Lemma b23_agree_num t : 350 <= t <= 590 ->
  0 < b23p97 t /\ Rabs (b23p67 t - b23p97 t) <= 5 / 10000 * b23p97 t.
Proof.
  intros H.
  assert (P : 0 < b23p97 t).
  { unfold b23p97. lazy [out_pos b23p97_traced t_paths p_out nth].
    lazy [evalR eval_nodes eval_node get nth map b23p97_nodes coefQ b23p97_coefs_Q i97_nr23_Q app]. numerals.
    interval with (i_bisect t, i_depth 12). }
  split; [exact P|].
  assert (A : Rabs ((b23p67 t - b23p97 t) / b23p97 t) <= 5 / 10000).
  { unfold b23p67, b23p97. lazy [out_pos b23p67_traced b23p97_traced t_paths p_out nth].
    lazy [evalR eval_nodes eval_node get nth map b23p67_nodes b23p97_nodes coefQ b23p97_coefs_Q i97_nr23_Q app]. numerals.
    interval with (i_bisect t, i_taylor t, i_degree 3, i_depth 12). }
  unfold Rdiv in A. rewrite Rabs_mult, (Rabs_right (/ b23p97 t)) in A by (apply Rle_ge, Rlt_le, Rinv_0_lt_compat; exact P).
  apply (Rmult_le_compat_r (b23p97 t)) in A; [|lra].
  rewrite Rmult_assoc, Rinv_l, Rmult_1_r in A by lra. exact A.
Qed.

(** *** cowat's radicand on the range that range checking admits *)
Definition fn67 : fnR := fun fid _ args =>
  if Nat.eqb fid f_sat then sat67 (hd 0 args) else if Nat.eqb fid f_b23p then b23p67 (hd 0 args) else 0.
Definition coef_cowat : nat -> R := coefQ cowat_on_coefs_Q.

Ltac expose_zp :=
  unfold cowat_zp; lazy [last_test cowat_on_traced t_paths p_conds rev app snd c_b];
  lazy [evalR eval_nodes eval_node get nth map cowat_on_nodes coef_cowat coefQ cowat_on_coefs_Q cowat_a_Q cowat_sa_Q app].

(** ZP is affine and increasing in the pressure *)
Lemma zp_mono_p t p q : q <= p -> cowat_zp fn67 coef_cowat t q <= cowat_zp fn67 coef_cowat t p.
Proof.
  intros H. expose_zp. numerals.
  match goal with |- ?a + ?c * (q / ?d) <= ?a' + ?c' * (p / ?d') =>
    assert (0 <= c) by lra; assert (0 < d) by lra;
    assert (q / d <= p / d) by (unfold Rdiv; apply Rmult_le_compat_r; [apply Rlt_le, Rinv_0_lt_compat; assumption|exact H]);
    apply Rplus_le_compat_l; apply Rmult_le_compat_l; assumption
  end.
Qed.

(** along the saturation line ZP stays positive (the minimum, about 0.014, is at 350 degC) *)
Lemma zp_on_saturation_line t : 1 / 100 <= t <= 350 -> 0 <= cowat_zp fn67 coef_cowat t (sat67 t).
Proof.
  intros H. expose_zp. expose_sat67. numerals.
  interval with (i_bisect t, i_depth 20).
Qed.

Lemma zp_in_range t p : cowat_in_range fn67 t p -> 0 <= cowat_zp fn67 coef_cowat t p.
Proof.
  unfold cowat_in_range, sat_, fn67, d001. cbn [Nat.eqb f_sat hd]. intros [[H1 H2] [H3 _]].
  apply Rle_trans with (cowat_zp fn67 coef_cowat t (sat67 t)); [|apply zp_mono_p; exact H3].
  apply zp_on_saturation_line. q2r. lra.
Qed.

