(** C15 -- property theorems (region classifiers; steam fraction).  Each is closed by [exact] of a lemma proved in the other
    files of coq/C15 and followed by Print Assumptions.
    [runR f_traced fn coef args]: the function as symbolically executed from the current
    t2thermo.py / IAPWS97.py (Gen/GenTraced.v), over the reals, with the functions it calls
    inside range tests (sat, b23p), scipy's fsolve (solve) and, for the steam fraction, tsat /
    cowat / supst interpreted by an arbitrary function family [fn]. *)
From Coq Require Import ZArith QArith Qreals Reals List Bool.
From Gen Require Import GenThermo GenTraced.
From P Require Import Expr Common Steam.
Import ListNotations.
Close Scope Q_scope.
Open Scope R_scope.

(** ** separated steam fraction: in [0, 1], non-decreasing in the enthalpy *)
Theorem steam_fraction_range_mono_1 : forall (fn : fnR) (coef : nat -> R) (h h' p1 : R),
  has_value (runR ssf1_traced fn coef [h; p1]) /\
  0 <= ssf1 fn coef h p1 <= 1 /\
  (hl fn p1 < hs fn p1 -> h <= h' -> ssf1 fn coef h p1 <= ssf1 fn coef h' p1).
Proof. exact ssf1_range_mono. Qed.
Print Assumptions steam_fraction_range_mono_1.

Theorem steam_fraction_range_mono_2 : forall (fn : fnR) (coef : nat -> R) (h h' p1 p2 : R),
  has_value (runR ssf2_traced fn coef [h; p1; p2]) /\
  0 <= ssf2 fn coef h p1 p2 <= 1 /\
  (hl fn p1 < hs fn p1 -> hl fn p2 < hs fn p2 -> hl fn p1 <= hs fn p2 -> h <= h' ->
   ssf2 fn coef h p1 p2 <= ssf2 fn coef h' p1 p2).
Proof. exact ssf2_range_mono. Qed.
Print Assumptions steam_fraction_range_mono_2.

