(** C15 -- substitution of defined atoms in Laurent polynomials, and a zero test modulo the
    definitions: [zero_mod defs E = true] implies that E denotes 0 under every valuation in
    which each defined atom has the value of its defining polynomial and unit atoms are
    non-zero.  (E may contain negative powers of defined atoms: it is first multiplied by the
    monomial that clears them, then the definitions are substituted, later atoms first.) *)
From Coq Require Import ZArith QArith Qreals Reals List Bool Lia Lra.
From P Require Import Expr Laurent.
Import ListNotations.
Close Scope Q_scope.

Definition mget (m : mono) (j : nat) : Z := nth j m 0%Z.
Fixpoint mzero (m : mono) (j : nat) : mono :=
  match m, j with
  | [], _ => []
  | _ :: r, O => 0%Z :: r
  | e :: r, S j' => e :: mzero r j'
  end.

Section Expand.
  Variable N : nat.
  Variable rho : nat -> R.
  Variable unitb : nat -> bool.
  Hypothesis rho_unit : forall i, unitb i = true -> rho i <> 0%R.
  Notation den := (dpoly rho).
  Notation ok := (poly_ok unitb).

  Lemma dmono_split m : forall i j,
    dmono rho i m = (powerRZ (rho (i + j)%nat) (mget m j) * dmono rho i (mzero m j))%R.
  Proof.
    induction m as [|e r IH]; intros i j.
    - unfold mget. destruct j; cbn [nth mzero dmono powerRZ]; ring.
    - destruct j as [|j].
      + unfold mget. cbn [nth mzero dmono powerRZ]. rewrite Nat.add_0_r. ring.
      + unfold mget in *. cbn [nth mzero dmono]. rewrite (IH (S i) j).
        replace (S i + j)%nat with (i + S j)%nat by lia. ring.
  Qed.

  Lemma mono_ok_mzero m : forall i j, mono_ok unitb i m = true -> mono_ok unitb i (mzero m j) = true.
  Proof.
    induction m as [|e r IH]; intros i j H; [destruct j; reflexivity|].
    cbn [mono_ok] in H. apply andb_true_iff in H as [H1 H2].
    destruct j as [|j]; cbn [mzero mono_ok].
    - rewrite H2, andb_true_r. apply orb_true_iff. right. reflexivity.
    - rewrite H1. apply IH. exact H2.
  Qed.

  (** d^n *)
  Fixpoint ppown (d : poly) (n : nat) : poly :=
    match n with O => pconst N 1%Q | S n' => pclean (pmul d (ppown d n')) end.

  Lemma ppown_sound d n : ok d = true -> den (ppown d n) = (den d ^ n)%R /\ ok (ppown d n) = true.
  Proof.
    intros Hd. induction n as [|n [IH1 IH2]]; cbn [ppown pow].
    - destruct (pconst_sound rho unitb N 1%Q) as [A B]. rewrite A. split; [unfold Q2R; cbn; lra|exact B].
    - destruct (pmul_sound_ok rho unitb rho_unit d _ Hd IH2) as [M1 M2].
      rewrite pclean_sound, M1, IH1. split; [reflexivity|apply pclean_ok; exact M2].
  Qed.

  (** replace atom j by the polynomial d (non-negative powers only) *)
  Definition subst_term (j : nat) (d : poly) (mc : mono * Q) : option poly :=
    let e := mget (fst mc) j in
    if (e <? 0)%Z then None else Some (pscale (mzero (fst mc) j) (snd mc) (ppown d (Z.to_nat e))).
  Fixpoint subst1 (j : nat) (d : poly) (p : poly) : option poly :=
    match p with
    | [] => Some []
    | mc :: r => match subst_term j d mc, subst1 j d r with
                 | Some t, Some a => Some (padd t a)
                 | _, _ => None
                 end
    end.

  Lemma subst1_sound j d : rho j = den d -> ok d = true ->
    forall p p', ok p = true -> subst1 j d p = Some p' -> den p' = den p /\ ok p' = true.
  Proof.
    intros Hj Hd. induction p as [|[m c] r IH]; intros p' Hp E.
    - cbn in E. injection E as <-. split; reflexivity.
    - cbn [subst1] in E. cbn [poly_ok forallb fst] in Hp. apply andb_true_iff in Hp as [Hm Hr].
      destruct (subst_term j d (m, c)) as [t|] eqn:Et; [|discriminate].
      destruct (subst1 j d r) as [a|] eqn:Ea; [|discriminate]. injection E as <-.
      destruct (IH a Hr eq_refl) as [IH1 IH2].
      unfold subst_term in Et. cbn [fst snd] in Et.
      destruct (mget m j <? 0)%Z eqn:Eneg; [discriminate|]. injection Et as <-.
      apply Z.ltb_ge in Eneg.
      destruct (ppown_sound d (Z.to_nat (mget m j)) Hd) as [P1 P2].
      pose proof (mono_ok_mzero m 0 j Hm) as Hz.
      split.
      + rewrite padd_sound, IH1, (pscale_sound rho unitb rho_unit _ _ _ Hz P2), P1.
        cbn [dpoly fst snd]. rewrite (dmono_split m 0 j). cbn [Nat.add]. rewrite Hj.
        rewrite <- (Z2Nat.id (mget m j) Eneg) at 2. rewrite <- pow_powerRZ. ring.
      + apply padd_ok; [apply pscale_ok; assumption|exact IH2].
  Qed.

  (** the definitions, newest first: each may mention atoms defined after it in the list *)
  Definition defs_hold (defs : list (nat * poly)) : Prop :=
    forall j d, In (j, d) defs -> rho j = den d /\ ok d = true.

  Fixpoint expand (defs : list (nat * poly)) (p : poly) : option poly :=
    match defs with
    | [] => Some p
    | (j, d) :: r => match subst1 j d p with Some p' => expand r (pclean p') | None => None end
    end.

  Lemma expand_sound defs : defs_hold defs -> forall p p', ok p = true -> expand defs p = Some p' ->
    den p' = den p /\ ok p' = true.
  Proof.
    induction defs as [|[j d] r IH]; intros H p p' Hp E.
    - cbn in E. injection E as <-. split; [reflexivity|exact Hp].
    - cbn [expand] in E. destruct (subst1 j d p) as [q|] eqn:Es; [|discriminate].
      destruct (H j d (or_introl eq_refl)) as [Hj Hd].
      destruct (subst1_sound j d Hj Hd p q Hp Es) as [S1 S2].
      assert (Hr : defs_hold r) by (intros j' d' Hin; apply H; right; exact Hin).
      destruct (IH Hr (pclean q) p' (pclean_ok unitb q S2) E) as [I1 I2].
      split; [rewrite I1, pclean_sound; exact S1|exact I2].
  Qed.

  (** the monomial that clears the negative powers of the defined atoms in p *)
  Definition minexp (j : nat) (p : poly) : Z := fold_right (fun mc acc => Z.min (mget (fst mc) j) acc) 0%Z p.
  Definition clearing (defs : list (nat * poly)) (p : poly) : mono :=
    fold_right (fun jd acc => madd (map (Z.mul (- minexp (fst jd) p)) (unit_vec N (fst jd))) acc) (repeat 0%Z N) defs.

  Lemma dmono_units_nonzero m : forall i, units_only unitb i m = true -> dmono rho i m <> 0%R.
  Proof.
    induction m as [|e r IH]; intros i H; cbn [dmono]; [lra|].
    cbn [units_only] in H. apply andb_true_iff in H as [H1 H2].
    apply Rmult_integral_contrapositive_currified; [|apply IH; exact H2].
    destruct (unitb i) eqn:U.
    - apply powerRZ_NOR. apply rho_unit. exact U.
    - cbn [orb] in H1. apply Z.eqb_eq in H1. subst e. cbn. lra.
  Qed.

  Definition zero_mod (defs : list (nat * poly)) (E : poly) : bool :=
    let M := clearing defs E in
    units_only unitb 0 M &&
    match expand defs (pclean (pmul [(M, 1%Q)] E)) with
    | Some [] => true
    | _ => false
    end.

  Theorem zero_mod_sound defs E : defs_hold defs -> ok E = true -> zero_mod defs E = true -> den E = 0%R.
  Proof.
    intros H HE Z. unfold zero_mod in Z. apply andb_true_iff in Z as [U Z].
    set (M := clearing defs E) in *.
    destruct (units_only_ok_neg unitb M 0 U) as [_ HM].
    assert (HM1 : ok [(M, 1%Q)] = true) by (cbn [poly_ok forallb fst]; rewrite HM; reflexivity).
    destruct (pmul_sound_ok rho unitb rho_unit _ _ HM1 HE) as [P1 P2].
    destruct (expand defs (pclean (pmul [(M, 1%Q)] E))) as [[|? ?]|] eqn:Ex; try discriminate.
    destruct (expand_sound defs H _ _ (pclean_ok unitb _ P2) Ex) as [X1 _].
    rewrite pclean_sound, P1 in X1. cbn [dpoly fst snd] in X1.
    assert (Hnz : dmono rho 0 M <> 0%R) by (apply dmono_units_nonzero; exact U).
    assert (Q1 : Q2R 1 = 1%R) by (unfold Q2R; cbn; lra). rewrite Q1 in X1.
    assert (dmono rho 0 M * den E = 0)%R by lra.
    apply Rmult_integral in H0 as [H0|H0]; [contradiction|exact H0].
  Qed.
End Expand.
