(** C15 -- range checking does not depend on earlier calls: the model statement.

    In the model every routine is a function of its arguments (and of the interpretation of the
    functions it calls): [answer] of a call is [runR] of the DAG traced for that routine and that
    bounds flag.  A sequence of calls is answered call by call; the answer to any call in any
    sequence is the answer to that call alone, so a checked call returns no value exactly when
    its own arguments are out of range, whatever was called before (checked or unchecked, with
    the same or other arguments).
    This is true of the model BY CONSTRUCTION (it has no state); that the implementation has no
    state either is NOT proved: the translator refuses traced functions that read module-level
    mutable containers other than the coefficient tables or declare globals, and the oracle runs
    the call sequences off->on and on->off->on with identical arguments on the real routines. *)
From Coq Require Import ZArith QArith Qreals Reals List Bool Lra Lia.
From P Require Import Expr Common BoundsDefs Bounds.
From Gen Require Import GenThermo GenTraced.
Import ListNotations.
Close Scope Q_scope.
Open Scope R_scope.

Inductive routine := Rcowat | Rsupst | Rsat | Rtsat.
Record call := { c_routine : routine; c_bounds : bool; c_args : list R }.

Definition trace_of (r : routine) (bounds : bool) : traced :=
  match r, bounds with
  | Rcowat, true => cowat_on_traced | Rcowat, false => cowat_off_traced
  | Rsupst, true => supst_on_traced | Rsupst, false => supst_off_traced
  | Rsat, true => sat_on_traced | Rsat, false => sat_off_traced
  | Rtsat, true => tsat_on_traced | Rtsat, false => tsat_off_traced
  end.

Section Stateless.
  Variables (fn : fnR) (coef : routine -> nat -> R).
  Definition answer (c : call) : rres := runR (trace_of (c_routine c) (c_bounds c)) fn (coef (c_routine c)) (c_args c).
  Definition answers (cs : list call) : list rres := map answer cs.

  Lemma answer_in_any_history before after c :
    nth (length before) (answers (before ++ c :: after)) RNoPath = answer c.
  Proof.
    unfold answers. rewrite map_app. rewrite app_nth2; rewrite map_length; [|lia].
    rewrite Nat.sub_diag. reflexivity.
  Qed.

  (** e.g. tsat (the routine of the seeded cache): after ANY calls, a checked call with an
      out-of-range pressure returns no value, and with an in-range pressure the solver's value *)
  Lemma tsat_checked_after_any_history before after p :
    let r := nth (length before) (answers (before ++ {| c_routine := Rtsat; c_bounds := true; c_args := [p] |} :: after)) RNoPath in
    (~ tsat_in_range fn p -> r = RNone) /\ (tsat_in_range fn p -> r = RRet [solve_ fn p]).
  Proof.
    cbv zeta. rewrite answer_in_any_history. unfold answer. cbn [c_routine c_bounds c_args trace_of].
    destruct (tsat_bounds fn (coef Rtsat) p) as [A B]. split; assumption.
  Qed.

  Lemma supst_checked_after_any_history before after t p :
    let r := nth (length before) (answers (before ++ {| c_routine := Rsupst; c_bounds := true; c_args := [t; p] |} :: after)) RNoPath in
    (~ supst_in_range fn t p -> r = RNone) /\ (supst_in_range fn t p -> has_value r).
  Proof.
    cbv zeta. rewrite answer_in_any_history. unfold answer. cbn [c_routine c_bounds c_args trace_of].
    destruct (supst_bounds fn (coef Rsupst) t p) as [A B]. split; assumption.
  Qed.
End Stateless.
