(** C15 -- property theorems, part 4: the numerical facts about the current source's saturation line (interval
    arithmetic over the reals; see SatFacts.v). *)
Set Warnings "-ambiguous-paths,-notation-overridden".
From Coq Require Import ZArith QArith Qreals Reals List Bool.
From Gen Require Import GenThermo GenTraced.
From P Require Import Expr Common BoundsDefs SatFacts.
Import ListNotations.
Close Scope Q_scope.
Open Scope R_scope.

(** [sat67 t] is what sat(t) returns on 0.01 .. 500 *)
Theorem sat67_is_traced_sat : forall (fn : fnR) (coef : nat -> R) (t : R),
  Q2R d001 <= t <= Q2R (500 # 1) -> runR sat_off_traced fn coef [t] = RRet [sat67 t].
Proof. exact sat67_run. Qed.
Print Assumptions sat67_is_traced_sat.

(** the saturation pressure of the current source is strictly increasing on 0.01 .. Tc1_C *)
Theorem sat67_strictly_increasing : forall a b : R,
  Q2R d001 <= a -> a < b -> b <= Q2R Tc1_C_Q -> sat67 a < sat67 b.
Proof. exact sat67_increasing. Qed.
Print Assumptions sat67_strictly_increasing.

Theorem sat67_at_critical_temperature : sat67 (Q2R Tc1_C_Q) = Q2R Pc1_Q.
Proof. exact sat67_at_Tc1. Qed.
Print Assumptions sat67_at_critical_temperature.

(** IFC-67 and IAPWS-97 saturation pressures agree to 0.2 % on the common saturation line *)
Theorem ifc67_vs_iapws97_saturation : forall t : R,
  Q2R d001 <= t <= Q2R i97_tcritical_Q -> Rabs (sat67 t - sat97 t) <= 2 / 1000 * sat97 t.
Proof. exact sat_agree. Qed.
Print Assumptions ifc67_vs_iapws97_saturation.

(** cowat's radicand is non-negative wherever range checking lets cowat run, hence for the
    current source with its own sat the bounds flag is exact with no side condition *)
Theorem cowat_radicand_nonneg_in_range : forall t p : R,
  cowat_in_range fn67 t p -> 0 <= cowat_zp fn67 coef_cowat t p.
Proof. exact zp_in_range. Qed.
Print Assumptions cowat_radicand_nonneg_in_range.


(** saturation TEMPERATURES: any temperatures at which the two saturation lines take the same
    pressure (what tsat of either module returns, whatever root finder it uses) differ by < 0.18 K.
    Corollary of the 0.2 % bound above and of d ln(sat67)/dt >= 0.0115 / K (interval arithmetic) *)
Theorem tsat67_vs_tsat97 : forall t67 t97 p : R,
  Q2R d001 <= t67 <= Q2R Tc1_C_Q -> Q2R d001 <= t97 <= Q2R i97_tcritical_Q ->
  sat67 t67 = p -> sat97 t97 = p -> Rabs (t67 - t97) <= 18 / 100.
Proof. exact tsat_agree. Qed.
Print Assumptions tsat67_vs_tsat97.

(** the B23 boundary curves of the two modules differ by < 0.05 % between 350 and 590 degC *)
Theorem b23p67_vs_b23p97 : forall t : R, 350 <= t <= 590 ->
  0 < b23p97 t /\ Rabs (b23p67 t - b23p97 t) <= 5 / 10000 * b23p97 t.
Proof. exact b23_agree_num. Qed.
Print Assumptions b23p67_vs_b23p97.
