(** C15 -- property theorems, part 2: the regenerated tables and literals against the reference
    snapshot, and the numerical facts about the current source's saturation line (interval
    arithmetic over the reals; see SatFacts.v). *)
From Coq Require Import ZArith QArith Qreals Reals List Bool.
From Gen Require Import GenThermo GenTraced.
From P Require Import Expr SpecTables Tables Bounds Tsat SatFacts.
Import ListNotations.
Close Scope Q_scope.
Open Scope R_scope.

(** every coefficient of the current source is the double nearest to the reference decimal, every
    dict key is the reference key *)
Theorem tables_match_reference : tables_match_reference_b = true.
Proof. exact tables_match_reference_true. Qed.
Print Assumptions tables_match_reference.

(** the literals met in each function body are exactly the reference literals *)
Theorem body_literals_match_reference : body_literals_match_reference_b = true.
Proof. exact body_literals_match_reference_true. Qed.
Print Assumptions body_literals_match_reference.

(** every literal of every traced DAG carries one number (its exact rational = its double) *)
Theorem literals_consistent : forallb consts_consistent all_dags = true.
Proof. exact literals_consistent_true. Qed.
Print Assumptions literals_consistent.

(** the exponent in cowat's Z ** (5. / 17.) is the double nearest 5/17 *)
Theorem cowat_exponent_is_5_17 : cowat_exponent_b = true.
Proof. exact cowat_exponent_true. Qed.
Print Assumptions cowat_exponent_is_5_17.

(** [sat67 t] is what sat(t) returns on 0.01 .. 500 *)
Theorem sat67_is_traced_sat : forall (fn : fnR) (coef : nat -> R) (t : R),
  Q2R d001 <= t <= Q2R (500 # 1) -> runR sat_off_traced fn coef [t] = RRet [sat67 t].
Proof. exact sat67_run. Qed.
Print Assumptions sat67_is_traced_sat.

(** the saturation pressure of the current source is strictly increasing on 0.01 .. Tc1_C *)
Theorem sat67_strictly_increasing : forall a b : R,
  Q2R d001 <= a -> a < b -> b <= Q2R Tc1_C_Q -> sat67 a < sat67 b.
Proof. exact sat67_increasing. Qed.
Print Assumptions sat67_strictly_increasing.

Theorem sat67_at_critical_temperature : sat67 (Q2R Tc1_C_Q) = Q2R Pc1_Q.
Proof. exact sat67_at_Tc1. Qed.
Print Assumptions sat67_at_critical_temperature.

(** tsat inverts the current source's sat on the whole closed interval, for any root finder that
    returns a root of sat(t) - p inside the interval *)
Theorem sat67_tsat67_inverse : forall (solve : R -> R) (coef : nat -> R),
  (forall p, sat67 (Q2R d001) <= p <= Q2R Pc1_Q -> Q2R d001 <= solve p <= Q2R Tc1_C_Q /\ sat67 (solve p) = p) ->
  forall t, Q2R d001 <= t <= Q2R Tc1_C_Q ->
  tsat_on sat67 solve coef (sat67 t) = RRet [t] /\ tsat_off sat67 solve coef (sat67 t) = RRet [t].
Proof. exact sat67_tsat_inverse. Qed.
Print Assumptions sat67_tsat67_inverse.

(** IFC-67 and IAPWS-97 saturation pressures agree to 0.2 % on the common saturation line *)
Theorem ifc67_vs_iapws97_saturation : forall t : R,
  Q2R d001 <= t <= Q2R i97_tcritical_Q -> Rabs (sat67 t - sat97 t) <= 2 / 1000 * sat97 t.
Proof. exact sat_agree. Qed.
Print Assumptions ifc67_vs_iapws97_saturation.

(** cowat's radicand is non-negative wherever range checking lets cowat run, hence for the
    current source with its own sat the bounds flag is exact with no side condition *)
Theorem cowat_radicand_nonneg_in_range : forall t p : R,
  cowat_in_range fn67 t p -> 0 <= cowat_zp fn67 coef_cowat t p.
Proof. exact zp_in_range. Qed.
Print Assumptions cowat_radicand_nonneg_in_range.

Theorem cowat_bounds_flag_exact_67 : forall t p : R,
  (cowat_in_range fn67 t p -> has_value (runR cowat_on_traced fn67 coef_cowat [t; p])) /\
  (~ cowat_in_range fn67 t p -> runR cowat_on_traced fn67 coef_cowat [t; p] = RNone).
Proof. exact cowat_bounds_67. Qed.
Print Assumptions cowat_bounds_flag_exact_67.
