(** C15 -- property theorems, part 2: the regenerated tables and literals against the reference snapshot. *)
Set Warnings "-ambiguous-paths,-notation-overridden".
From Coq Require Import ZArith QArith Qreals Reals List Bool.
From Gen Require Import GenThermo GenTraced.
From P Require Import Expr SpecTables Tables.
Import ListNotations.
Close Scope Q_scope.
Open Scope R_scope.

(** every coefficient of the current source is the double nearest to the reference decimal, every
    dict key is the reference key *)
Theorem tables_match_reference : tables_match_reference_b = true.
Proof. exact tables_match_reference_true. Qed.
Print Assumptions tables_match_reference.

(** the literals met in each function body are exactly the reference literals *)
Theorem body_literals_match_reference : body_literals_match_reference_b = true.
Proof. exact body_literals_match_reference_true. Qed.
Print Assumptions body_literals_match_reference.

(** every literal of every traced DAG carries one number (its exact rational = its double) *)
Theorem literals_consistent : forallb consts_consistent all_dags = true.
Proof. exact literals_consistent_true. Qed.
Print Assumptions literals_consistent.

(** the exponent in cowat's Z ** (5. / 17.) is the double nearest 5/17 *)
Theorem cowat_exponent_is_5_17 : cowat_exponent_b = true.
Proof. exact cowat_exponent_true. Qed.
Print Assumptions cowat_exponent_is_5_17.

