(** C15 -- "the optional range checking returns no value exactly when the state is outside the
    routine's stated range", over the reals, from the branch structure obtained by symbolic
    execution of the current t2thermo.py (Gen/GenTraced.v: every comparison the real function
    performs, every outcome).

    [runR f_traced fn coef args] is the traced function over R; the functions called inside the
    range tests (sat, b23p) and scipy's fsolve are abstract: the theorems hold for EVERY
    interpretation [fn] of them.  The comparison constants are the doubles the code compares
    with (0.01 is the double nearest 1/100, Tc1_C is the double 647.3 - 273.15). *)
From Coq Require Import ZArith QArith Qreals Reals List Bool Lra.
From P Require Import Expr Common BoundsDefs.
From Gen Require Import GenThermo GenTraced.
Import ListNotations.
Close Scope Q_scope.
Open Scope R_scope.

Section Bounds.
  Variables (fn : fnR) (coef : nat -> R).
  Notation sat_ := (sat_ fn).
  Notation b23p_ := (b23p_ fn).
  Notation solve_ := (solve_ fn).
  Notation cowat_in_range := (cowat_in_range fn).
  Notation cowat_zp := (cowat_zp fn coef).
  Notation supst_in_range := (supst_in_range fn).
  Notation tsat_in_range := (tsat_in_range fn).

  (** *** cowat: 0.01 <= t <= 350, sat(t) <= p <= 100 MPa *)
  (** the quantity ZP whose sign cowat tests before taking a square root *)

  Lemma cowat_bounds t p : (cowat_in_range t p -> 0 <= cowat_zp t p) ->
    (cowat_in_range t p -> has_value (runR cowat_on_traced fn coef [t; p])) /\
    (~ cowat_in_range t p -> runR cowat_on_traced fn coef [t; p] = RNone).
  Proof.
    (* all steps keep the two sides of every conversion syntactically aligned: the kernel never
       has to compare two unevaluated DAG values *)
    unfold BoundsDefs.cowat_zp. lazy [last_test cowat_on_traced t_paths p_conds rev app snd c_b].
    open_run cowat_on_traced.
    ev_nodes cowat_on_nodes.
    match goal with |- context [Rleb (Q2R 0) ?z] => generalize z; intros Z end.
    unfold BoundsDefs.cowat_in_range, BoundsDefs.sat_, f_sat, d001, has_value.
    replace (Q2R 0) with 0 by (unfold Q2R; cbn; lra).
    split_cmps; intros HZ; (split; [intros HR | intros HN]);
      try (eexists; reflexivity); try reflexivity;
      try (exfalso; apply HN; lra); try (specialize (HZ HR); lra); try lra.
  Qed.

  (** *** supst: 0.01 <= t <= 800, 0 <= p, and p <= sat(t) up to Tc1_C, <= b23p(t) up to 590, <= 100 MPa above *)

  Lemma supst_bounds t p :
    (supst_in_range t p -> has_value (runR supst_on_traced fn coef [t; p])) /\
    (~ supst_in_range t p -> runR supst_on_traced fn coef [t; p] = RNone).
  Proof.
    open_run supst_on_traced.
    ev_nodes supst_on_nodes.
    unfold BoundsDefs.supst_in_range, BoundsDefs.sat_, BoundsDefs.b23p_, f_sat, f_b23p, d001, Tc1_C_Q, has_value.
    replace (Q2R 0) with 0 by (unfold Q2R; cbn; lra).
    split_cmps; (split; [intros HR | intros HN]);
      try (eexists; reflexivity); try reflexivity;
      try (exfalso; apply HN; q2r; repeat split; intros; lra);
      try (exfalso; q2r; destruct HR as [[? ?] [? [H1 [H2 H3]]]];
           first [lra | specialize (H1 ltac:(lra)); lra | specialize (H2 ltac:(lra) ltac:(lra)); lra | specialize (H3 ltac:(lra)); lra]).
  Qed.

  (** *** sat: 0.01 <= t <= Tc1_C *)

  Lemma sat_bounds t :
    (sat_in_range t -> has_value (runR sat_on_traced fn coef [t])) /\
    (~ sat_in_range t -> runR sat_on_traced fn coef [t] = RNone).
  Proof.
    open_run sat_on_traced.
    ev_nodes sat_on_nodes.
    unfold BoundsDefs.sat_in_range, d001, Tc1_C_Q, has_value.
    split_cmps; (split; [intros HR | intros HN]);
      try (eexists; reflexivity); try reflexivity;
      try (exfalso; apply HN; q2r; lra); try (exfalso; q2r; lra).
  Qed.

  (** *** tsat: sat(0.01) <= p <= Pc1; inside, the value is whatever the root finder returns *)

  Lemma tsat_bounds p :
    (tsat_in_range p -> runR tsat_on_traced fn coef [p] = RRet [solve_ p]) /\
    (~ tsat_in_range p -> runR tsat_on_traced fn coef [p] = RNone).
  Proof.
    open_run tsat_on_traced.
    ev_nodes tsat_on_nodes.
    unfold BoundsDefs.tsat_in_range, BoundsDefs.sat_, BoundsDefs.solve_, f_sat, f_solve, d001, Pc1_Q.
    split_cmps; (split; [intros HR | intros HN]);
      try reflexivity; try (exfalso; apply HN; lra); try (exfalso; lra).
  Qed.

  (** with range checking off the routines never answer "no value" because of the state's
      position: sat still refuses outside 0.01..500 (its own limit), cowat only where ZP < 0 *)
  Lemma tsat_off_value p : runR tsat_off_traced fn coef [p] = RRet [solve_ p].
  Proof. open_run tsat_off_traced. ev_nodes tsat_off_nodes. reflexivity. Qed.

  Lemma supst_off_value t p : has_value (runR supst_off_traced fn coef [t; p]).
  Proof. open_run supst_off_traced. eexists. reflexivity. Qed.
End Bounds.

(** the hypotheses are satisfiable: a concrete interpretation and a state in / out of range *)
Example cowat_range_inhabited :
  let fn : fnR := fun _ _ _ => 1000 in
  cowat_in_range fn 20 100000 /\ ~ cowat_in_range fn 20 (Q2R (100000001 # 1)).
Proof.
  unfold cowat_in_range, sat_, d001. q2r. split; [lra|]. intros [_ [_ H]]. lra.
Qed.

Example supst_range_inhabited :
  let fn : fnR := fun _ _ _ => 1000000 in
  supst_in_range fn 200 100000 /\ ~ supst_in_range fn 200 2000000.
Proof.
  unfold supst_in_range, sat_, b23p_, d001, Tc1_C_Q. q2r. split.
  - repeat split; intros; lra.
  - intros [_ [_ [H _]]]. specialize (H ltac:(lra)). lra.
Qed.
