(** C15 -- arithmetic DAGs obtained by symbolic execution of the real Python functions of
    t2thermo.py / IAPWS97.py (tools/props/c15_trace.py), with their interpretations:
      - [evalF]: PrimFloat, the double computation itself.  + - * / sqrt and comparisons are
        IEEE-754 operations on both sides; the results of libm's exp / pow and of the functions
        traced as abstract calls are not computed by the model: they are read from a hint list
        supplied with each case (and the arguments they were computed from are checked);
      - [evalR]: real numbers (sqrt, exp, Rpower from the standard library; abstract calls
        interpreted by an arbitrary function family [fn]).
    A DAG is a list of nodes in evaluation order; operands are de Bruijn distances back from
    the node (0 = the node just before). *)
From Coq Require Import ZArith QArith List Bool PrimFloat FloatOps SpecFloat Reals Qreals.
Import ListNotations.

Inductive node :=
| NConst (q : Q) (f : float)     (* a literal / module constant: exact value and the double *)
| NVar (i : nat)                 (* i-th argument of the traced function *)
| NCoef (k : nat)                (* k-th entry of the function's coefficient list (symbolic) *)
| NAdd (a b : nat) | NSub (a b : nat) | NMul (a b : nat) | NDiv (a b : nat)
| NNeg (a : nat)
| NSqrt (h : nat) (a : nat)                     (* h: atom index for the normaliser (shares the hint numbering); sqrt itself is IEEE *)
| NExp (h : nat) (a : nat)                      (* math.exp; h = hint index *)
| NPow (h : nat) (a : nat) (q : Q) (f : float)  (* x ** c for the literal double c *)
| NCall (h : nat) (fid out : nat) (args : list nat)   (* out-th result of abstract function fid *)
| NCut (atom : nat) (a : nat).   (* same value as node a; an indeterminate for the normaliser *)

Inductive cmp := CLe | CLt.
Record cond := { c_cmp : cmp; c_a : nat; c_b : nat; c_expect : bool }.   (* positions in the final env *)
Inductive outcome := ORet (l : list nat) | ONone | ORaise.     (* values / returns None / raises *)
Record path := { p_conds : list cond; p_out : outcome }.
Record traced := { t_nodes : list node; t_paths : list path }.

(** function ids of the abstract calls (tools/props/c15_trace.py FIDS) *)
Definition f_sat := 0%nat.  Definition f_b23p := 1%nat.  Definition f_solve := 2%nat.
Definition f_cowat := 3%nat.  Definition f_supst := 4%nat.  Definition f_tsat := 5%nat.

Section Eval.
  Context {A : Type}.
  Variables (dflt : A) (cst : Q -> float -> A) (add sub mul div : A -> A -> A)
            (neg : A -> A) (sqrt_ exp_ : nat -> A -> A) (pow_ : nat -> A -> Q -> float -> A)
            (call_ : nat -> nat -> nat -> list A -> A) (var coef : nat -> A).

  Definition get (env : list A) (d : nat) : A := nth d env dflt.

  Definition eval_node (env : list A) (n : node) : A :=
    match n with
    | NConst q f => cst q f
    | NVar i => var i
    | NCoef k => coef k
    | NAdd a b => add (get env a) (get env b)
    | NSub a b => sub (get env a) (get env b)
    | NMul a b => mul (get env a) (get env b)
    | NDiv a b => div (get env a) (get env b)
    | NNeg a => neg (get env a)
    | NSqrt h a => sqrt_ h (get env a)
    | NExp h a => exp_ h (get env a)
    | NPow h a q f => pow_ h (get env a) q f
    | NCall h fid out args => call_ h fid out (map (get env) args)
    | NCut _ a => get env a
    end.

  (** the environment is kept newest-first *)
  Fixpoint eval_nodes (env : list A) (ns : list node) : list A :=
    match ns with
    | [] => env
    | n :: r => eval_nodes (eval_node env n :: env) r
    end.
End Eval.

(** ** PrimFloat *)
Definition evalF (vars coefs hints : list float) (ns : list node) : list float :=
  eval_nodes nan (fun _ f => f) PrimFloat.add PrimFloat.sub PrimFloat.mul PrimFloat.div
             PrimFloat.opp (fun _ => PrimFloat.sqrt)
             (fun h _ => nth h hints nan) (fun h _ _ _ => nth h hints nan) (fun h _ _ _ => nth h hints nan)
             (fun i => nth i vars nan) (fun k => nth k coefs nan) [] ns.

Definition cond_holdsF (env : list float) (c : cond) : bool :=
  let a := nth (c_a c) env nan in let b := nth (c_b c) env nan in
  Bool.eqb (match c_cmp c with CLe => PrimFloat.leb a b | CLt => PrimFloat.ltb a b end) (c_expect c).

Fixpoint select_path (env : list float) (ps : list path) : option path :=
  match ps with
  | [] => None
  | p :: r => if forallb (cond_holdsF env) (p_conds p) then Some p else select_path env r
  end.

(** result of the traced function on doubles *)
Inductive fres := FRet (l : list float) | FNone | FRaise | FNoPath.   (* FNoPath: no recorded path applies *)
Definition resF (t : traced) (env : list float) : fres :=
  match select_path env (t_paths t) with
  | None => FNoPath
  | Some p => match p_out p with
              | ORet l => FRet (map (fun i => nth i env nan) l)
              | ONone => FNone
              | ORaise => FRaise
              end
  end.
Definition runF (t : traced) (coefs vars hints : list float) : fres :=
  resF t (evalF vars coefs hints (t_nodes t)).

(** bit equality of doubles (nan = nan, +0 <> -0) *)
Definition sf_eqb (a b : spec_float) : bool :=
  match a, b with
  | S754_zero s, S754_zero s' => Bool.eqb s s'
  | S754_infinity s, S754_infinity s' => Bool.eqb s s'
  | S754_nan, S754_nan => true
  | S754_finite s m e, S754_finite s' m' e' => Bool.eqb s s' && Pos.eqb m m' && Z.eqb e e'
  | _, _ => false
  end.
Definition feqb (a b : float) : bool := sf_eqb (Prim2SF a) (Prim2SF b).

Fixpoint flist_eqb (a b : list float) : bool :=
  match a, b with
  | [], [] => true
  | x :: a', y :: b' => feqb x y && flist_eqb a' b'
  | _, _ => false
  end.

Definition fres_eqb (a b : fres) : bool :=
  match a, b with
  | FNone, FNone => true
  | FRaise, FRaise => true
  | FRet x, FRet y => flist_eqb x y
  | _, _ => false
  end.

(** a correspondence case: arguments, the hint list (libm / callee results in hint order), the
    probes (final-environment position, double the Python run had there: the arguments the
    hints were computed from), and what the real function returned *)
Record fcase := { k_id : Z; k_args : list float; k_hints : list float;
                  k_probes : list (nat * float); k_res : fres }.

Definition case_okF (t : traced) (coefs : list float) (c : fcase) : bool :=
  let env := evalF (k_args c) coefs (k_hints c) (t_nodes t) in
  fres_eqb (resF t env) (k_res c)
  && forallb (fun pr => feqb (nth (fst pr) env nan) (snd pr)) (k_probes c).

Definition bad_casesF (t : traced) (coefs : list float) (cs : list fcase) : list Z :=
  map k_id (filter (fun c => negb (case_okF t coefs c)) cs).

(** exact value of a finite double (only used in the literal-consistency check) *)
Definition float_to_Q (x : float) : option Q :=
  match Prim2SF x with
  | S754_zero _ => Some 0%Q
  | S754_finite s m e =>
      let mz := if s then Zneg m else Zpos m in
      Some (if (0 <=? e)%Z then inject_Z (mz * 2 ^ e) else Qmake mz (Z.to_pos (2 ^ (- e))))
  | _ => None
  end.

(** every literal of a DAG carries the same number twice (exact rational and double) *)
Definition consts_consistent (ns : list node) : bool :=
  forallb (fun n => match n with
                    | NConst q f | NPow _ _ q f => match float_to_Q f with Some q' => Qeq_bool q q' | None => false end
                    | _ => true end) ns.

(** ** Reals *)
Definition fnR := nat -> nat -> list R -> R.      (* function id, output index, arguments *)
Definition evalR (fn : fnR) (var coef : nat -> R) (ns : list node) : list R :=
  eval_nodes 0%R (fun q _ => Q2R q) Rplus Rminus Rmult Rdiv Ropp (fun _ => sqrt)
             (fun _ x => exp x) (fun _ x q _ => Rpower x (Q2R q)) (fun _ fid out args => fn fid out args)
             var coef [] ns.

Definition Rleb (a b : R) : bool := if Rle_dec a b then true else false.
Definition Rltb (a b : R) : bool := if Rlt_dec a b then true else false.

Definition cond_holdsR (env : list R) (c : cond) : bool :=
  let a := nth (c_a c) env 0%R in let b := nth (c_b c) env 0%R in
  Bool.eqb (match c_cmp c with CLe => Rleb a b | CLt => Rltb a b end) (c_expect c).

Fixpoint select_pathR (env : list R) (ps : list path) : option path :=
  match ps with
  | [] => None
  | p :: r => if forallb (cond_holdsR env) (p_conds p) then Some p else select_pathR env r
  end.

Inductive rres := RRet (l : list R) | RNone | RRaise | RNoPath.
Definition resR (t : traced) (env : list R) : rres :=
  match select_pathR env (t_paths t) with
  | None => RNoPath
  | Some p => match p_out p with
              | ORet l => RRet (map (fun i => nth i env 0%R) l)
              | ONone => RNone
              | ORaise => RRaise
              end
  end.
(** the traced function over the reals: arguments [args], coefficient valuation [coef] *)
Definition runR (t : traced) (fn : fnR) (coef : nat -> R) (args : list R) : rres :=
  resR t (evalR fn (fun i => nth i args 0%R) coef (t_nodes t)).

(** coefficient valuation from the regenerated tables *)
Definition coefQ (l : list Q) (k : nat) : R := Q2R (nth k l 0%Q).
