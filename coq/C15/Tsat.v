(** C15 -- saturation temperature inverts saturation pressure.

    t2thermo.tsat finds the root of  t |-> sat(t) - p  with scipy.optimize.fsolve.  The root
    finder is not modelled: it is the section variable [solve] (the interpretation of the
    abstract call the tracer records after checking that the residual handed to fsolve is
    literally sat(t) - p), with the specification [solve_root]: for a pressure inside tsat's
    range it returns some temperature of the saturation line's interval at which sat equals p.
    [sat_increasing] (strict monotonicity of sat on that interval) is a hypothesis of the generic
    theorem; for the sat of the current source it is a theorem (SatMono.v).
    The theorems are about ANY such solver: tsat(sat t) = t and sat(tsat p) = p. *)
From Coq Require Import ZArith QArith Qreals Reals List Bool Lra.
From P Require Import Expr Common BoundsDefs Bounds.
From Gen Require Import GenThermo GenTraced.
Import ListNotations.
Close Scope Q_scope.
Open Scope R_scope.

Section Tsat.
  Variables (sat solve : R -> R) (coef : nat -> R).
  Let tlo := Q2R d001.
  Let thi := Q2R Tc1_C_Q.
  Let pc := Q2R Pc1_Q.
  (** the interpretation of the abstract calls of the traced tsat *)
  Definition fn_of : fnR := fun fid _ args =>
    if Nat.eqb fid f_sat then sat (hd 0 args) else if Nat.eqb fid f_solve then solve (hd 0 args) else 0.
  Definition tsat_on (p : R) : rres := runR tsat_on_traced fn_of coef [p].
  Definition tsat_off (p : R) : rres := runR tsat_off_traced fn_of coef [p].

  Hypothesis solve_root : forall p, sat tlo <= p <= pc -> tlo <= solve p <= thi /\ sat (solve p) = p.
  Hypothesis sat_increasing : forall a b, tlo <= a -> a < b -> b <= thi -> sat a < sat b.

  Lemma sat_injective a b : tlo <= a <= thi -> tlo <= b <= thi -> sat a = sat b -> a = b.
  Proof.
    intros Ha Hb E. destruct (Rtotal_order a b) as [L|[L|L]]; [|exact L|].
    - pose proof (sat_increasing a b ltac:(lra) L ltac:(lra)). lra.
    - pose proof (sat_increasing b a ltac:(lra) L ltac:(lra)). lra.
  Qed.

  Lemma sat_le_mono a b : tlo <= a -> a <= b -> b <= thi -> sat a <= sat b.
  Proof.
    intros Ha Hab Hb. destruct (Req_dec a b) as [->|N]; [lra|].
    apply Rlt_le. apply sat_increasing; lra.
  Qed.

  (** sat(tsat(p)) = p for every pressure in tsat's range, range checking on or off *)
  Theorem sat_of_tsat p : sat tlo <= p <= pc ->
    exists t, tsat_on p = RRet [t] /\ tsat_off p = RRet [t] /\ tlo <= t <= thi /\ sat t = p.
  Proof.
    intros Hp. exists (solve p).
    destruct (tsat_bounds fn_of coef p) as [Hin _].
    unfold tsat_on, tsat_off. rewrite tsat_off_value.
    rewrite Hin; [|unfold tsat_in_range, sat_, fn_of; cbn [Nat.eqb f_sat hd]; exact Hp].
    unfold solve_, fn_of. cbn [Nat.eqb f_solve f_sat hd].
    destruct (solve_root p Hp) as [H1 H2]. repeat split; try assumption; try apply H1.
  Qed.

  (** tsat(sat(t)) = t on the whole saturation interval (the upper end needs sat(Tc1_C) <= Pc1) *)
  Theorem tsat_of_sat t : tlo <= t <= thi -> sat thi <= pc ->
    tsat_on (sat t) = RRet [t] /\ tsat_off (sat t) = RRet [t].
  Proof.
    intros Ht Hhi.
    assert (Hp : sat tlo <= sat t <= pc).
    { split; [apply sat_le_mono; lra|]. apply Rle_trans with (sat thi); [apply sat_le_mono; lra|exact Hhi]. }
    destruct (sat_of_tsat (sat t) Hp) as [t' [E1 [E2 [Ht' Es]]]].
    assert (t' = t) by (apply sat_injective; assumption). subst t'. split; assumption.
  Qed.

  (** outside its range tsat (range checking on) returns no value *)
  Theorem tsat_none p : ~ (sat tlo <= p <= pc) -> tsat_on p = RNone.
  Proof.
    intros HN. destruct (tsat_bounds fn_of coef p) as [_ Hout]. apply Hout.
    unfold tsat_in_range, sat_, fn_of. cbn [Nat.eqb f_sat hd]. exact HN.
  Qed.
End Tsat.

(** the hypotheses are satisfiable: a straight saturation line through (Tc1_C, Pc1) and its inverse *)
Example tsat_hypotheses_inhabited :
  let sat := fun t : R => Q2R Pc1_Q * t / Q2R Tc1_C_Q in
  let solve := fun p : R => p * Q2R Tc1_C_Q / Q2R Pc1_Q in
  (forall p, sat (Q2R d001) <= p <= Q2R Pc1_Q -> Q2R d001 <= solve p <= Q2R Tc1_C_Q /\ sat (solve p) = p) /\
  (forall a b, Q2R d001 <= a -> a < b -> b <= Q2R Tc1_C_Q -> sat a < sat b) /\
  sat (Q2R Tc1_C_Q) <= Q2R Pc1_Q.
Proof.
  cbv zeta. unfold d001, Tc1_C_Q, Pc1_Q. q2r. repeat split.
  - lra.
  - lra.
  - field.
  - intros a b _ H _. lra.
  - lra.
Qed.
