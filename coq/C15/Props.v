(** C15 -- property theorems only.  Each is closed by [exact] of a lemma proved in the other
    files of coq/C15 and followed by Print Assumptions.
    [runR f_traced fn coef args]: the function as symbolically executed from the current
    t2thermo.py / IAPWS97.py (Gen/GenTraced.v), over the reals, with the functions it calls
    inside range tests (sat, b23p), scipy's fsolve (solve) and, for the steam fraction, tsat /
    cowat / supst interpreted by an arbitrary function family [fn]. *)
From Coq Require Import ZArith QArith Qreals Reals List Bool.
From Gen Require Import GenThermo GenTraced.
From P Require Import Expr Common BoundsDefs Bounds Tsat Stateless.
Import ListNotations.
Close Scope Q_scope.
Open Scope R_scope.

(** ** range checking returns no value exactly when the state is outside the stated range *)

(** cowat(t, p, bounds=True): a value for 0.01 <= t <= 350, sat(t) <= p <= 100 MPa, None otherwise
    (given that the radicand ZP is non-negative on that range: ZpRange.v for the current source) *)
Theorem cowat_bounds_flag_exact : forall (fn : fnR) (coef : nat -> R) (t p : R),
  (cowat_in_range fn t p -> 0 <= cowat_zp fn coef t p) ->
  (cowat_in_range fn t p -> has_value (runR cowat_on_traced fn coef [t; p])) /\
  (~ cowat_in_range fn t p -> runR cowat_on_traced fn coef [t; p] = RNone).
Proof. exact cowat_bounds. Qed.
Print Assumptions cowat_bounds_flag_exact.

Theorem supst_bounds_flag_exact : forall (fn : fnR) (coef : nat -> R) (t p : R),
  (supst_in_range fn t p -> has_value (runR supst_on_traced fn coef [t; p])) /\
  (~ supst_in_range fn t p -> runR supst_on_traced fn coef [t; p] = RNone).
Proof. exact supst_bounds. Qed.
Print Assumptions supst_bounds_flag_exact.

Theorem sat_bounds_flag_exact : forall (fn : fnR) (coef : nat -> R) (t : R),
  (sat_in_range t -> has_value (runR sat_on_traced fn coef [t])) /\
  (~ sat_in_range t -> runR sat_on_traced fn coef [t] = RNone).
Proof. exact sat_bounds. Qed.
Print Assumptions sat_bounds_flag_exact.

Theorem tsat_bounds_flag_exact : forall (fn : fnR) (coef : nat -> R) (p : R),
  (tsat_in_range fn p -> runR tsat_on_traced fn coef [p] = RRet [solve_ fn p]) /\
  (~ tsat_in_range fn p -> runR tsat_on_traced fn coef [p] = RNone).
Proof. exact tsat_bounds. Qed.
Print Assumptions tsat_bounds_flag_exact.

(** ** saturation temperature inverts saturation pressure, for any root finder meeting its
       specification and any strictly increasing saturation curve *)
Theorem sat_tsat_inverse : forall (sat solve : R -> R) (coef : nat -> R),
  (forall p, sat (Q2R d001) <= p <= Q2R Pc1_Q -> Q2R d001 <= solve p <= Q2R Tc1_C_Q /\ sat (solve p) = p) ->
  (forall a b, Q2R d001 <= a -> a < b -> b <= Q2R Tc1_C_Q -> sat a < sat b) ->
  forall t, Q2R d001 <= t <= Q2R Tc1_C_Q -> sat (Q2R Tc1_C_Q) <= Q2R Pc1_Q ->
  tsat_on sat solve coef (sat t) = RRet [t] /\ tsat_off sat solve coef (sat t) = RRet [t].
Proof. exact tsat_of_sat. Qed.
Print Assumptions sat_tsat_inverse.

Theorem tsat_sat_inverse : forall (sat solve : R -> R) (coef : nat -> R),
  (forall p, sat (Q2R d001) <= p <= Q2R Pc1_Q -> Q2R d001 <= solve p <= Q2R Tc1_C_Q /\ sat (solve p) = p) ->
  forall p, sat (Q2R d001) <= p <= Q2R Pc1_Q ->
  exists t, tsat_on sat solve coef p = RRet [t] /\ tsat_off sat solve coef p = RRet [t] /\
            Q2R d001 <= t <= Q2R Tc1_C_Q /\ sat t = p.
Proof. exact sat_of_tsat. Qed.
Print Assumptions tsat_sat_inverse.

(** ** range checking does not depend on earlier calls (model statement; Stateless.v: the model has
       no state by construction, the implementation side is tested by the oracle's call sequences) *)
Theorem answer_independent_of_history : forall (fn : fnR) (coef : routine -> nat -> R) (before after : list call) (c : call),
  nth (length before) (answers fn coef (before ++ c :: after)) RNoPath = answer fn coef c.
Proof. exact answer_in_any_history. Qed.
Print Assumptions answer_independent_of_history.

Theorem tsat_range_check_after_any_history : forall (fn : fnR) (coef : routine -> nat -> R) (before after : list call) (p : R),
  let r := nth (length before) (answers fn coef (before ++ {| c_routine := Rtsat; c_bounds := true; c_args := [p] |} :: after)) RNoPath in
  (~ tsat_in_range fn p -> r = RNone) /\ (tsat_in_range fn p -> r = RRet [solve_ fn p]).
Proof. exact tsat_checked_after_any_history. Qed.
Print Assumptions tsat_range_check_after_any_history.
