(** C15 -- the stated ranges of the routines and the quantities the range theorems speak about
    (definitions only; the proofs are in Bounds.v). *)
From Coq Require Import ZArith QArith Qreals Reals List Bool Lra.
From P Require Import Expr Common.
From Gen Require Import GenThermo GenTraced.
Import ListNotations.
Close Scope Q_scope.
Open Scope R_scope.

Section BoundsDefs.
  Variables (fn : fnR) (coef : nat -> R).
  Definition sat_ (t : R) : R := fn f_sat 0%nat [t].
  Definition b23p_ (t : R) : R := fn f_b23p 0%nat [t].
  Definition solve_ (p : R) : R := fn f_solve 0%nat [p].
  (** *** cowat: 0.01 <= t <= 350, sat(t) <= p <= 100 MPa *)
  Definition cowat_in_range (t p : R) : Prop :=
    Q2R d001 <= t <= Q2R (350 # 1) /\ sat_ t <= p <= Q2R (100000000 # 1).
  (** the quantity ZP whose sign cowat tests before taking a square root *)
  Definition cowat_zp (t p : R) : R :=
    nth (snd (last_test cowat_on_traced)) (evalR fn (fun i => nth i [t; p] 0) coef cowat_on_nodes) 0.
  (** *** supst: 0.01 <= t <= 800, 0 <= p, and p <= sat(t) up to Tc1_C, <= b23p(t) up to 590, <= 100 MPa above *)
  Definition supst_in_range (t p : R) : Prop :=
    Q2R d001 <= t <= Q2R (800 # 1) /\ 0 <= p /\
    (t <= Q2R Tc1_C_Q -> p <= sat_ t) /\
    (Q2R Tc1_C_Q < t -> t <= Q2R (590 # 1) -> p <= b23p_ t) /\
    (Q2R (590 # 1) < t -> p <= Q2R (100000000 # 1)).
  (** *** sat: 0.01 <= t <= Tc1_C *)
  Definition sat_in_range (t : R) : Prop := Q2R d001 <= t <= Q2R Tc1_C_Q.
  (** *** tsat: sat(0.01) <= p <= Pc1; inside, the value is whatever the root finder returns *)
  Definition tsat_in_range (p : R) : Prop := sat_ (Q2R d001) <= p <= Q2R Pc1_Q.
End BoundsDefs.
