(** C15 -- property theorems (steam fraction: the value itself).  Each is closed by [exact] of a lemma
    proved in SteamEnds.v and followed by Print Assumptions.
    [ssf1 fn coef h p1] / [ssf2 fn coef h p1 p2]: the value returned by t2thermo.separated_steam_fraction
    (one / two separator pressures) as symbolically executed from the current source (Gen/GenTraced.v,
    Steam.v), over the reals, with tsat / cowat / supst interpreted by an arbitrary function family [fn];
    [hl fn p], [hs fn p]: the saturated liquid / steam enthalpies u + p / d the code forms at pressure p. *)
From Coq Require Import ZArith QArith Qreals Reals List Bool.
From Gen Require Import GenThermo GenTraced.
From P Require Import Expr Common Steam SteamEnds SteamStages.
Import ListNotations.
Close Scope Q_scope.
Open Scope R_scope.

(** ** one stage: the clamped lever rule -- exactly 0 up to the liquid enthalpy, exactly 1 from the steam
       enthalpy on, (h - hl) / (hs - hl) between *)
Theorem steam_fraction_lever_rule_1 : forall (fn : fnR) (coef : nat -> R) (h p1 : R),
  hl fn p1 < hs fn p1 ->
  ssf1 fn coef h p1 = clamp01 (lever h (hl fn p1) (hs fn p1)) /\
  (h <= hl fn p1 -> ssf1 fn coef h p1 = 0) /\
  (hs fn p1 <= h -> ssf1 fn coef h p1 = 1) /\
  (hl fn p1 <= h <= hs fn p1 -> ssf1 fn coef h p1 = (h - hl fn p1) / (hs fn p1 - hl fn p1)).
Proof. exact ssf1_lever_rule. Qed.
Print Assumptions steam_fraction_lever_rule_1.

(** ** two stages: first-stage fraction x1 plus the fraction of the remaining liquid (enthalpy hl1) that
       flashes at the second pressure, clamped *)
Theorem steam_fraction_mass_balance_2 : forall (fn : fnR) (coef : nat -> R) (h p1 p2 : R),
  hl fn p1 < hs fn p1 -> hl fn p2 < hs fn p2 ->
  ssf2 fn coef h p1 p2 =
    clamp01 (lever h (hl fn p1) (hs fn p1) +
             (1 - lever h (hl fn p1) (hs fn p1)) * lever (hl fn p1) (hl fn p2) (hs fn p2)).
Proof. exact ssf2_mass_balance. Qed.
Print Assumptions steam_fraction_mass_balance_2.

(** ** two stages vs one (SteamStages.v): a second separator at the same pressure changes nothing ... *)
Theorem steam_fraction_second_stage_at_same_pressure : forall (fn : fnR) (coef : nat -> R) (h p1 : R),
  hl fn p1 < hs fn p1 -> ssf2 fn coef h p1 p1 = ssf1 fn coef h p1.
Proof. exact ssf2_same_pressure. Qed.
Print Assumptions steam_fraction_second_stage_at_same_pressure.

(** ... and a second separator whose liquid enthalpy is not above the first one's (its steam enthalpy not
    below the first-stage liquid's) never yields less steam than the first stage alone *)
Theorem steam_fraction_second_stage_never_loses : forall (fn : fnR) (coef : nat -> R) (h p1 p2 : R),
  hl fn p1 < hs fn p1 -> hl fn p2 < hs fn p2 -> hl fn p2 <= hl fn p1 <= hs fn p2 ->
  ssf1 fn coef h p1 <= ssf2 fn coef h p1 p2.
Proof. exact ssf2_ge_ssf1. Qed.
Print Assumptions steam_fraction_second_stage_never_loses.
