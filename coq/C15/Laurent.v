(** C15 -- sparse Laurent polynomials over Q in numbered atoms (private copy of the polynomial
    part and of the structured expressions of coq/C14/Laurent.v, after DESIGN.md Appendix E.2;
    the DAG checker that uses them here is PolyJet.v).

    A monomial is a dense exponent vector (list Z, position = atom number); a polynomial is a
    list of (monomial, rational coefficient).  Atoms come in two kinds:
      - units (cut atoms: power_array arguments and divisors), assumed non-zero, may carry
        negative exponents;
      - non-units (function arguments, symbolic coefficients), arbitrary reals, only ever
        carry non-negative exponents -- an invariant ([poly_ok]) the operations maintain and
        inversion checks.
    Soundness ([run_sound], [check_sound]): if the checker accepts a DAG against a claimed
    summary (a polynomial definition for every cut atom, and polynomials for the outputs) then
    for every valuation of the atoms that satisfies the cut definitions and is non-zero on
    units, the real-number evaluation of the DAG equals the denotation of the claimed
    polynomials. *)
From Coq Require Import ZArith QArith Qreals Reals List Bool Lia Lra.
From P Require Import Expr.
Import ListNotations.
Close Scope Q_scope.

Definition mono := list Z.
Definition poly := list (mono * Q).

Fixpoint madd (a b : mono) : mono :=
  match a, b with
  | [], _ => b
  | _, [] => a
  | x :: a', y :: b' => (x + y)%Z :: madd a' b'
  end.
Definition mneg (a : mono) : mono := map Z.opp a.
Fixpoint mono_eqb (a b : mono) : bool :=
  match a, b with
  | [], [] => true
  | x :: a', y :: b' => (x =? y)%Z && mono_eqb a' b'
  | _, _ => false
  end.
Fixpoint mono_ltb (a b : mono) : bool :=
  match a, b with
  | [], [] => false
  | [], _ => true
  | _, [] => false
  | x :: a', y :: b' => (x <? y)%Z || ((x =? y)%Z && mono_ltb a' b')
  end.

Fixpoint insert (m : mono) (c : Q) (p : poly) : poly :=
  match p with
  | [] => [(m, c)]
  | (m', c') :: r =>
      if mono_eqb m m' then (m', Qred (c + c')%Q) :: r
      else if mono_ltb m m' then (m, c) :: p
      else (m', c') :: insert m c r
  end.
Definition padd (p q : poly) : poly := fold_right (fun mc acc => insert (fst mc) (snd mc) acc) q p.
Definition pscale (m : mono) (c : Q) (p : poly) : poly :=
  map (fun mc => (madd m (fst mc), Qred (c * snd mc)%Q)) p.
Definition pmul (p q : poly) : poly :=
  fold_right (fun mc acc => padd (pscale (fst mc) (snd mc) q) acc) [] p.
Definition pneg (p : poly) : poly := map (fun mc => (fst mc, Qopp (snd mc))) p.
Definition pclean (p : poly) : poly := filter (fun mc => negb (Qeq_bool (snd mc) 0)) p.
Fixpoint peqb (p q : poly) : bool :=
  match p, q with
  | [], [] => true
  | (m, c) :: p', (m', c') :: q' => mono_eqb m m' && Qeq_bool c c' && peqb p' q'
  | _, _ => false
  end.

Fixpoint unit_vec (n i : nat) : mono :=
  match n with
  | O => []
  | S n' => match i with O => 1%Z :: repeat 0%Z n' | S i' => 0%Z :: unit_vec n' i' end
  end.
Definition pconst (n : nat) (q : Q) : poly := [(repeat 0%Z n, q)].
Definition patom (n i : nat) : poly := [(unit_vec n i, 1%Q)].
(** atom^e *)
Definition ppow (n i : nat) (e : Z) : poly := [(map (Z.mul e) (unit_vec n i), 1%Q)].

Section Sem.
  Variable rho : nat -> R.
  Variable unitb : nat -> bool.
  Hypothesis rho_unit : forall i, unitb i = true -> rho i <> 0%R.

  Fixpoint dmono (i : nat) (m : mono) : R :=
    match m with
    | [] => 1%R
    | e :: r => (powerRZ (rho i) e * dmono (S i) r)%R
    end.
  Notation dterm mc := (Q2R (snd mc) * dmono 0 (fst mc))%R.
  Fixpoint dpoly (p : poly) : R :=
    match p with
    | [] => 0%R
    | mc :: r => (dterm mc + dpoly r)%R
    end.

  Fixpoint mono_ok (i : nat) (m : mono) : bool :=
    match m with
    | [] => true
    | e :: r => (unitb i || (0 <=? e)%Z) && mono_ok (S i) r
    end.
  Definition poly_ok (p : poly) : bool := forallb (fun mc => mono_ok 0 (fst mc)) p.
  (** only unit atoms occur (needed to invert a monomial) *)
  Fixpoint units_only (i : nat) (m : mono) : bool :=
    match m with
    | [] => true
    | e :: r => (unitb i || (e =? 0)%Z) && units_only (S i) r
    end.

  Definition pinv (p : poly) : option poly :=
    match p with
    | [(m, c)] => if Qeq_bool c 0 then None
                  else if units_only 0 m then Some [(mneg m, Qinv c)] else None
    | _ => None
    end.

  (** *** powers *)
  Lemma powerRZ_add_ok x a b :
    x <> 0%R \/ (0 <= a /\ 0 <= b)%Z -> powerRZ x (a + b) = (powerRZ x a * powerRZ x b)%R.
  Proof.
    intros [H|[Ha Hb]]; [apply powerRZ_add; exact H|].
    rewrite <- (Z2Nat.id a Ha), <- (Z2Nat.id b Hb), <- Nat2Z.inj_add, <- !pow_powerRZ.
    apply pow_add.
  Qed.

  Lemma mono_eqb_eq a : forall b, mono_eqb a b = true -> a = b.
  Proof.
    induction a as [|x a IH]; intros [|y b] H; cbn [mono_eqb] in H; try discriminate; [reflexivity|].
    apply andb_true_iff in H as [H1 H2]. apply Z.eqb_eq in H1. subst. f_equal. apply IH. exact H2.
  Qed.

  Lemma dmono_madd a : forall b i, mono_ok i a = true -> mono_ok i b = true ->
    dmono i (madd a b) = (dmono i a * dmono i b)%R.
  Proof.
    induction a as [|x a IH]; intros b i Ha Hb.
    - cbn [madd dmono]. ring.
    - destruct b as [|y b]; cbn [madd dmono]; [ring|].
      cbn [mono_ok] in Ha, Hb. apply andb_true_iff in Ha as [Ha1 Ha2]. apply andb_true_iff in Hb as [Hb1 Hb2].
      rewrite (IH b (S i) Ha2 Hb2). rewrite powerRZ_add_ok; [ring|].
      destruct (unitb i) eqn:U; [left; apply rho_unit; exact U|right].
      cbn [orb] in Ha1, Hb1. apply Z.leb_le in Ha1, Hb1. split; assumption.
  Qed.

  Lemma mono_ok_madd a : forall b i, mono_ok i a = true -> mono_ok i b = true -> mono_ok i (madd a b) = true.
  Proof.
    induction a as [|x a IH]; intros b i Ha Hb; [exact Hb|].
    destruct b as [|y b]; [exact Ha|]. cbn [madd mono_ok] in *.
    apply andb_true_iff in Ha as [Ha1 Ha2]. apply andb_true_iff in Hb as [Hb1 Hb2].
    rewrite (IH b (S i) Ha2 Hb2), andb_true_r.
    destruct (unitb i); [reflexivity|]. cbn [orb] in *. apply Z.leb_le in Ha1, Hb1. apply Z.leb_le. lia.
  Qed.

  Lemma Q2R_Qred q : Q2R (Qred q) = Q2R q.
  Proof. apply Qeq_eqR. apply Qred_correct. Qed.

  (** *** insert / add *)
  Lemma insert_sound m c p : dpoly (insert m c p) = (Q2R c * dmono 0 m + dpoly p)%R.
  Proof.
    induction p as [|[m' c'] r IH]; cbn [insert dpoly fst snd]; [ring|].
    destruct (mono_eqb m m') eqn:E.
    - apply mono_eqb_eq in E. subst m'. cbn [dpoly fst snd]. rewrite Q2R_Qred, Q2R_plus. ring.
    - destruct (mono_ltb m m'); cbn [dpoly fst snd]; [ring|]. rewrite IH. ring.
  Qed.
  Lemma insert_ok m c p : mono_ok 0 m = true -> poly_ok p = true -> poly_ok (insert m c p) = true.
  Proof.
    intros Hm. induction p as [|[m' c'] r IH]; intros Hp; cbn [insert].
    - cbn. rewrite Hm. reflexivity.
    - cbn [poly_ok forallb fst] in Hp. apply andb_true_iff in Hp as [H1 H2].
      destruct (mono_eqb m m'); [cbn [poly_ok forallb fst]; rewrite H1; exact H2|].
      destruct (mono_ltb m m'); cbn [poly_ok forallb fst].
      + rewrite Hm, H1. exact H2.
      + rewrite H1. apply IH. exact H2.
  Qed.

  Lemma padd_sound p q : dpoly (padd p q) = (dpoly p + dpoly q)%R.
  Proof.
    induction p as [|[m c] r IH]; cbn [padd fold_right dpoly fst snd]; [ring|].
    fold (padd r q). rewrite insert_sound, IH. ring.
  Qed.
  Lemma padd_ok p q : poly_ok p = true -> poly_ok q = true -> poly_ok (padd p q) = true.
  Proof.
    induction p as [|[m c] r IH]; intros Hp Hq; [exact Hq|].
    cbn [poly_ok forallb fst] in Hp. apply andb_true_iff in Hp as [H1 H2].
    cbn [padd fold_right fst snd]. fold (padd r q). apply insert_ok; [exact H1|apply IH; assumption].
  Qed.

  (** *** scale / mul *)
  Lemma pscale_sound m c p : mono_ok 0 m = true -> poly_ok p = true ->
    dpoly (pscale m c p) = (Q2R c * dmono 0 m * dpoly p)%R.
  Proof.
    intros Hm. induction p as [|[m' c'] r IH]; intros Hp; cbn [pscale map dpoly fst snd]; [ring|].
    cbn [poly_ok forallb fst] in Hp. apply andb_true_iff in Hp as [H1 H2].
    fold (pscale m c r). rewrite (IH H2), Q2R_Qred, Q2R_mult, (dmono_madd m m' 0 Hm H1). ring.
  Qed.
  Lemma pscale_ok m c p : mono_ok 0 m = true -> poly_ok p = true -> poly_ok (pscale m c p) = true.
  Proof.
    intros Hm. induction p as [|[m' c'] r IH]; intros Hp; [reflexivity|].
    cbn [poly_ok forallb fst] in Hp. apply andb_true_iff in Hp as [H1 H2].
    cbn [pscale map poly_ok forallb fst]. rewrite (mono_ok_madd m m' 0 Hm H1). apply IH. exact H2.
  Qed.

  Lemma pmul_sound_ok p q : poly_ok p = true -> poly_ok q = true ->
    dpoly (pmul p q) = (dpoly p * dpoly q)%R /\ poly_ok (pmul p q) = true.
  Proof.
    intros Hp Hq. induction p as [|[m c] r IH]; [cbn; split; [ring|reflexivity]|].
    cbn [poly_ok forallb fst] in Hp. apply andb_true_iff in Hp as [H1 H2].
    destruct (IH H2) as [IH1 IH2].
    cbn [pmul fold_right fst snd]. fold (pmul r q). split.
    - rewrite padd_sound, pscale_sound, IH1 by assumption. cbn [dpoly fst snd]. ring.
    - apply padd_ok; [apply pscale_ok; assumption|exact IH2].
  Qed.

  (** *** neg / clean / eq *)
  Lemma pneg_sound p : dpoly (pneg p) = (- dpoly p)%R.
  Proof.
    induction p as [|[m c] r IH]; cbn [pneg map dpoly fst snd]; [ring|].
    fold (pneg r). rewrite IH, Q2R_opp. ring.
  Qed.
  Lemma pneg_ok p : poly_ok (pneg p) = poly_ok p.
  Proof. unfold poly_ok, pneg. induction p as [|[m c] r IH]; [reflexivity|]. cbn [map forallb fst]. rewrite IH. reflexivity. Qed.

  Lemma pclean_sound p : dpoly (pclean p) = dpoly p.
  Proof.
    induction p as [|[m c] r IH]; [reflexivity|]. cbn [pclean filter snd]. fold (pclean r).
    destruct (Qeq_bool c 0) eqn:E; cbn [negb dpoly fst snd]; rewrite IH; [|reflexivity].
    apply Qeq_bool_eq in E. rewrite (Qeq_eqR _ _ E). unfold Q2R. cbn. lra.
  Qed.
  Lemma pclean_ok p : poly_ok p = true -> poly_ok (pclean p) = true.
  Proof.
    induction p as [|[m c] r IH]; intros Hp; [reflexivity|].
    cbn [poly_ok forallb fst] in Hp. apply andb_true_iff in Hp as [H1 H2].
    cbn [pclean filter snd]. fold (pclean r). destruct (negb (Qeq_bool c 0)); [|apply IH; exact H2].
    cbn [poly_ok forallb fst]. rewrite H1. apply IH. exact H2.
  Qed.

  Lemma peqb_sound p : forall q, peqb p q = true -> dpoly p = dpoly q.
  Proof.
    induction p as [|[m c] r IH]; intros [|[m' c'] q] H; cbn [peqb] in H; try discriminate; [reflexivity|].
    apply andb_true_iff in H as [H H3]. apply andb_true_iff in H as [H1 H2].
    apply mono_eqb_eq in H1. subst m'. apply Qeq_bool_eq in H2.
    cbn [dpoly fst snd]. rewrite (IH q H3), (Qeq_eqR _ _ H2). reflexivity.
  Qed.

  (** *** inverse of a monomial *)
  Lemma dmono_mneg m : forall i, dmono i (mneg m) = (/ dmono i m)%R.
  Proof.
    induction m as [|e r IH]; intros i; cbn [mneg map dmono]; [rewrite Rinv_1; reflexivity|].
    fold (mneg r). rewrite IH, powerRZ_neg', Rinv_mult. reflexivity.
  Qed.
  Lemma units_only_ok_neg m : forall i, units_only i m = true -> mono_ok i (mneg m) = true /\ mono_ok i m = true.
  Proof.
    induction m as [|e r IH]; intros i H; [split; reflexivity|].
    cbn [units_only] in H. apply andb_true_iff in H as [H1 H2]. destruct (IH (S i) H2) as [A B].
    cbn [mneg map mono_ok]. fold (mneg r). rewrite A, B, !andb_true_r.
    destruct (unitb i); [split; reflexivity|]. cbn [orb] in *. apply Z.eqb_eq in H1. subst e. split; reflexivity.
  Qed.
  Lemma pinv_sound p q : pinv p = Some q -> dpoly q = (/ dpoly p)%R /\ poly_ok q = true.
  Proof.
    unfold pinv. destruct p as [|[m c] [|? ?]]; try discriminate.
    destruct (Qeq_bool c 0) eqn:E; [discriminate|].
    destruct (units_only 0 m) eqn:U; [|discriminate]. intros [= <-].
    destruct (units_only_ok_neg m 0 U) as [A _]. split.
    - cbn [dpoly fst snd]. rewrite dmono_mneg, !Rplus_0_r, Rinv_mult. f_equal.
      apply Q2R_inv. intros H. apply Qeq_bool_neq in E. apply E. exact H.
    - cbn [poly_ok forallb fst]. rewrite A. reflexivity.
  Qed.

  (** *** constants and atoms *)
  Lemma dmono_zeros n : forall i, dmono i (repeat 0%Z n) = 1%R.
  Proof. induction n as [|n IH]; intros i; cbn [repeat dmono]; [reflexivity|]. rewrite IH. cbn. ring. Qed.
  Lemma mono_ok_zeros n : forall i, mono_ok i (repeat 0%Z n) = true.
  Proof. induction n as [|n IH]; intros i; cbn [repeat mono_ok]; [reflexivity|]. rewrite IH, orb_true_r. reflexivity. Qed.
  Lemma dmono_unit_vec n : forall i j, (i < n)%nat -> dmono j (unit_vec n i) = rho (j + i)%nat.
  Proof.
    induction n as [|n IH]; intros i j Hi; [lia|]. destruct i as [|i]; cbn [unit_vec dmono].
    - rewrite dmono_zeros, powerRZ_1, Nat.add_0_r. ring.
    - rewrite IH by lia. cbn [powerRZ]. replace (j + S i)%nat with (S j + i)%nat by lia. ring.
  Qed.
  Lemma mono_ok_unit_vec n : forall i j, mono_ok j (unit_vec n i) = true.
  Proof.
    induction n as [|n IH]; intros i j; [reflexivity|]. destruct i as [|i]; cbn [unit_vec mono_ok].
    - rewrite mono_ok_zeros, orb_true_r. reflexivity.
    - rewrite IH, orb_true_r. reflexivity.
  Qed.
  Lemma pconst_sound n q : dpoly (pconst n q) = Q2R q /\ poly_ok (pconst n q) = true.
  Proof.
    unfold pconst. cbn [dpoly fst snd poly_ok forallb]. rewrite dmono_zeros, mono_ok_zeros. split; [ring|reflexivity].
  Qed.
  Lemma patom_sound n i : (i < n)%nat -> dpoly (patom n i) = rho i /\ poly_ok (patom n i) = true.
  Proof.
    intros Hi. unfold patom. cbn [dpoly fst snd poly_ok forallb].
    rewrite (dmono_unit_vec n i 0 Hi), mono_ok_unit_vec. split; [|reflexivity].
    unfold Q2R. cbn. rewrite Rinv_1. ring.
  Qed.

  (** atom^e for a unit atom (any e) or e >= 0 *)
  Lemma dmono_pow_vec n e : forall i j, (i < n)%nat ->
    dmono j (map (Z.mul e) (unit_vec n i)) = powerRZ (rho (j + i)%nat) e.
  Proof.
    induction n as [|n IH]; intros i j Hi; [lia|]. destruct i as [|i]; cbn [unit_vec map dmono].
    - rewrite Z.mul_1_r, Nat.add_0_r.
      assert (forall k, dmono k (map (Z.mul e) (repeat 0%Z n)) = 1%R) as ->; [|ring].
      clear. induction n as [|n IH]; intros k; cbn [repeat map dmono]; [reflexivity|].
      rewrite IH, Z.mul_0_r. cbn. ring.
    - rewrite IH by lia. rewrite Z.mul_0_r. cbn [powerRZ]. replace (j + S i)%nat with (S j + i)%nat by lia. ring.
  Qed.
  Lemma mono_ok_pow_vec n e : forall i j, (unitb (j + i)%nat = true \/ (0 <= e)%Z) ->
    mono_ok j (map (Z.mul e) (unit_vec n i)) = true.
  Proof.
    induction n as [|n IH]; intros i j H; [reflexivity|]. destruct i as [|i]; cbn [unit_vec map mono_ok].
    - rewrite Z.mul_1_r, Nat.add_0_r in *.
      assert (forall k, mono_ok k (map (Z.mul e) (repeat 0%Z n)) = true) as ->.
      { clear. induction n as [|n IH]; intros k; cbn [repeat map mono_ok]; [reflexivity|].
        rewrite IH, Z.mul_0_r, orb_true_r. reflexivity. }
      rewrite andb_true_r. destruct H as [H|H]; [rewrite H; reflexivity|].
      apply Z.leb_le in H. rewrite H, orb_true_r. reflexivity.
    - rewrite Z.mul_0_r, orb_true_r. cbn [andb]. apply IH.
      replace (S j + i)%nat with (j + S i)%nat by lia. exact H.
  Qed.
  Lemma ppow_sound n i e : (i < n)%nat -> (unitb i = true \/ (0 <= e)%Z) ->
    dpoly (ppow n i e) = powerRZ (rho i) e /\ poly_ok (ppow n i e) = true.
  Proof.
    intros Hi H. unfold ppow. cbn [dpoly fst snd poly_ok forallb].
    rewrite (dmono_pow_vec n e i 0 Hi), (mono_ok_pow_vec n e i 0 H). split; [|reflexivity].
    unfold Q2R. cbn. rewrite Rinv_1. ring.
  Qed.
End Sem.

Lemma Some_inj_l {A} (x y : A) : Some x = Some y -> x = y.
Proof. congruence. Qed.

(** ** Structured polynomial expressions: one syntax, two readings
    ([pden]: the normal-form polynomial the checker compares with; [rden]: the real number) *)
Inductive pexp :=
| PC (q : Q) | PA (i : nat) | PP (i : nat) (e : Z)
| PAdd (a b : pexp) | PSub (a b : pexp) | PMul (a b : pexp) | PNeg (a : pexp).

Definition psum (l : list pexp) : pexp := fold_right PAdd (PC 0%Q) l.

Section PExp.
  Variable N : nat.
  Variable unitb : nat -> bool.

  Fixpoint pden (e : pexp) : poly :=
    match e with
    | PC q => pconst N q
    | PA i => patom N i
    | PP i e => ppow N i e
    | PAdd a b => pclean (padd (pden a) (pden b))
    | PSub a b => pclean (padd (pden a) (pneg (pden b)))
    | PMul a b => pclean (pmul (pden a) (pden b))
    | PNeg a => pneg (pden a)
    end.

  Fixpoint pwf (e : pexp) : bool :=
    match e with
    | PC _ => true
    | PA i => (i <? N)%nat
    | PP i e => (i <? N)%nat && (unitb i || (0 <=? e)%Z)
    | PAdd a b | PSub a b | PMul a b => pwf a && pwf b
    | PNeg a => pwf a
    end.

  Variable rho : nat -> R.
  Hypothesis rho_unit : forall i, unitb i = true -> rho i <> 0%R.

  Fixpoint rden (e : pexp) : R :=
    match e with
    | PC q => Q2R q
    | PA i => rho i
    | PP i e => powerRZ (rho i) e
    | PAdd a b => (rden a + rden b)%R
    | PSub a b => (rden a - rden b)%R
    | PMul a b => (rden a * rden b)%R
    | PNeg a => (- rden a)%R
    end.

  Lemma pden_sound e : pwf e = true -> dpoly rho (pden e) = rden e /\ poly_ok unitb (pden e) = true.
  Proof.
    induction e as [q|i|i z|a IHa b IHb|a IHa b IHb|a IHa b IHb|a IHa]; cbn [pwf pden rden]; intros H.
    - apply pconst_sound.
    - apply Nat.ltb_lt in H. apply patom_sound. exact H.
    - apply andb_true_iff in H as [H1 H2]. apply Nat.ltb_lt in H1. apply ppow_sound; [exact H1|].
      apply orb_true_iff in H2 as [H2|H2]; [left; exact H2|right; apply Z.leb_le; exact H2].
    - apply andb_true_iff in H as [H1 H2]. destruct (IHa H1) as [A1 A2]. destruct (IHb H2) as [B1 B2].
      rewrite pclean_sound, padd_sound, A1, B1. split; [reflexivity|apply pclean_ok, padd_ok; assumption].
    - apply andb_true_iff in H as [H1 H2]. destruct (IHa H1) as [A1 A2]. destruct (IHb H2) as [B1 B2].
      rewrite pclean_sound, padd_sound, pneg_sound, A1, B1. split; [reflexivity|].
      apply pclean_ok, padd_ok; [assumption|rewrite pneg_ok; assumption].
    - apply andb_true_iff in H as [H1 H2]. destruct (IHa H1) as [A1 A2]. destruct (IHb H2) as [B1 B2].
      destruct (pmul_sound_ok rho unitb rho_unit _ _ A2 B2) as [M1 M2].
      rewrite pclean_sound, M1, A1, B1. split; [reflexivity|apply pclean_ok; exact M2].
    - destruct (IHa H) as [A1 A2]. rewrite pneg_sound, pneg_ok, A1. auto.
  Qed.

  Lemma rden_psum l : rden (psum l) = fold_right (fun e acc => (rden e + acc)%R) 0%R l.
  Proof.
    induction l as [|e r IH]; cbn [psum fold_right rden].
    - unfold Q2R. cbn. lra.
    - fold (psum r). rewrite IH. reflexivity.
  Qed.
  Lemma pwf_psum l : forallb pwf l = true -> pwf (psum l) = true.
  Proof.
    induction l as [|e r IH]; cbn [psum fold_right forallb pwf]; [reflexivity|]. intros H.
    apply andb_true_iff in H as [H1 H2]. rewrite H1. apply IH. exact H2.
  Qed.
End PExp.

Lemma Q2R_inject_Z z : Q2R (inject_Z z) = IZR z.
Proof. unfold Q2R, inject_Z. cbn. rewrite Rinv_1. ring. Qed.
