(** C15 -- proving the side conditions of Jet.side_ok at a concrete point without expanding the DAG
    into a tree: [side_okR] is the same recursion on real values only; [side_step] walks the node
    list once, giving every node value a name and an interval enclosure (coq-interval's
    [interval_intro] on the node's one-operation definition, from the enclosures of its operands),
    and discharges each condition from the enclosures.  Linear in the size of the DAG. *)
Set Warnings "-ambiguous-paths,-notation-overridden".
From Coq Require Import ZArith QArith Qreals Reals List Bool Lia Lra.
From Coquelicot Require Import Coquelicot.
From Interval Require Import Tactic.
From P Require Import Expr Jet.
Import ListNotations.
Close Scope Q_scope.
Open Scope R_scope.

Section SideR.
  Variables (var coef : nat -> R).
  Definition evnR := eval_node 0 (fun q _ => Q2R q) Rplus Rminus Rmult Rdiv Ropp (fun _ => sqrt)
                               (fun _ x => exp x) (fun _ x q _ => Rpower x (Q2R q)) (fun _ _ _ _ => 0) var coef.
  Definition node_okR (env : list R) (n : node) : Prop :=
    match n with
    | NDiv _ b => nth b env 0 <> 0
    | NSqrt _ a => 0 < nth a env 0
    | NPow _ a _ _ => 0 < nth a env 0
    | NCall _ _ _ _ => False
    | _ => True
    end.
  Fixpoint side_okR (env : list R) (ns : list node) : Prop :=
    match ns with
    | [] => True
    | n :: r => node_okR env n /\ side_okR (evnR env n :: env) r
    end.

  Lemma side_okR_cons env n r :
    node_okR env n -> (forall v, v = evnR env n -> side_okR (v :: env) r) -> side_okR env (n :: r).
  Proof. intros H1 H2. cbn [side_okR]. split; [exact H1|apply H2; reflexivity]. Qed.
End SideR.

Section Link.
  Variables (varf : R -> nat -> R) (dvar coef : nat -> R) (s0 : R).
  Notation jn := (jops_node varf dvar coef s0).

  Lemma nth_jv envJ d : nth d (map jv envJ) 0 = jv (nth d envJ (0, 0)).
  Proof. change 0 with (jv (0, 0)) at 1. apply map_nth. Qed.

  Lemma jv_node envJ n : (match n with NCall _ _ _ _ => False | _ => True end) ->
    jv (jn envJ n) = evnR (varf s0) coef (map jv envJ) n.
  Proof.
    intros H. unfold jops_node, evnR.
    destruct n; cbn [eval_node]; unfold get; rewrite ?nth_jv; reflexivity.
  Qed.

  Lemma side_ok_of_R ns : forall envJ, side_okR (varf s0) coef (map jv envJ) ns -> side_ok varf dvar coef s0 envJ ns.
  Proof.
    induction ns as [|n r IH]; intros envJ H; [exact I|].
    cbn [side_okR side_ok] in *. destruct H as [H1 H2]. split.
    - destruct n; cbn [node_okR node_ok] in *; rewrite <- ?nth_jv; exact H1.
    - apply IH. cbn [map]. rewrite jv_node; [exact H2|]. destruct n; try exact I. exact H1.
  Qed.
End Link.

(** one node: its condition from the enclosures in the context, then a name and an enclosure for
    its value.  [simp] evaluates coefficient look-ups / variables to numerals. *)
Ltac nonzero_from_bounds := first [ apply Rgt_not_eq; lra | apply Rlt_not_eq; lra ].
Ltac side_step simp :=
  lazymatch goal with
  | |- side_okR _ _ _ [] => exact I
  | |- side_okR _ _ _ (_ :: _) =>
      apply side_okR_cons;
      [ cbn [node_okR nth]; first [ exact I | lra | nonzero_from_bounds ]
      | let v := fresh "v" in let Ev := fresh "Ev" in
        intros v Ev; unfold evnR in Ev; cbn [eval_node get nth] in Ev; simp Ev;
        unfold Q2R in Ev; cbn [Qnum Qden] in Ev;
        match type of Ev with
        | v = ?e => let H := fresh "B" in interval_intro e as H; rewrite <- Ev in H; clear Ev
        end ]
  end.
