(** C15 -- a polynomial reading of the jets of a traced DAG, proved sound.

    [run] walks the DAG and gives every node a pair of Laurent polynomials (value, derivative)
    in numbered atoms, following the jet rules of Jet.v (product / quotient rule on
    polynomials).  Atoms:
        0 .. tb-1            the parameters (units)
        tb + h               the result of the sqrt / exp / ** node with index h (unit)
        ..                   virtual atoms with given definitions [vdefs] (units)
        vb + c               the cut node with id c when its claim is [CAtom] (unit); its
                             definition is the polynomial of the node, collected by the run
        cb + k               coefficient k (not a unit)
    A cut node (the divisors) is re-expressed according to its claim: [CAuto] it must already
    be a unit monomial; [CMono m] its polynomial and the claimed monomial m agree after
    substituting the definitions; [CAtom] it becomes an atom of its own; [COpaque] it and what
    depends on it are not followed.
    [run_sound]: under a valuation [rho] that gives every atom its value at the point (units
    non-zero), the two polynomials of every followed node denote the two components of the
    node's real jet (Jet.evJ), and every collected definition holds. *)
Set Warnings "-ambiguous-paths,-notation-overridden".
From Coq Require Import ZArith QArith Qreals Reals List Bool Lia Lra.
From P Require Import Expr Laurent Expand Jet.
Import ListNotations.
Close Scope Q_scope.

Inductive claim := CAuto | CMono (m : poly) | CAtom | COpaque.
Definition pjet := (poly * poly)%type.

(** older entries of the environment keep their value, shifted by the number of new nodes *)
Section Old.
  Context {A : Type}.
  Variables (dflt : A) (cst : Q -> PrimFloat.float -> A) (add sub mul div : A -> A -> A)
            (neg : A -> A) (sqrt_ exp_ : nat -> A -> A) (pow_ : nat -> A -> Q -> PrimFloat.float -> A)
            (call_ : nat -> nat -> nat -> list A -> A) (var coef : nat -> A).
  Notation ev := (eval_nodes dflt cst add sub mul div neg sqrt_ exp_ pow_ call_ var coef).
  Lemma eval_nodes_old ns : forall env d, nth (length ns + d) (ev env ns) dflt = nth d env dflt.
  Proof.
    induction ns as [|n r IH]; intros env d; cbn [eval_nodes length]; [reflexivity|].
    replace (S (length r) + d)%nat with (length r + S d)%nat by lia. rewrite IH. reflexivity.
  Qed.
End Old.

(** (index, final-environment position) of the sqrt / exp / ** nodes and of the cut nodes *)
Fixpoint tnodes (ns : list node) : list (nat * nat) :=
  match ns with
  | [] => []
  | n :: r => match n with
              | NSqrt h _ | NExp h _ | NPow h _ _ _ => (h, length r) :: tnodes r
              | _ => tnodes r
              end
  end.
Fixpoint cnodes (ns : list node) : list (nat * nat) :=
  match ns with
  | [] => []
  | n :: r => match n with NCut c _ => (c, length r) :: cnodes r | _ => cnodes r end
  end.

Section PolyJet.
  Variables (N tb vb cb : nat).
  Definition unitb (i : nat) : bool := (i <? cb)%nat.
  Variable claims : list claim.
  Variables varp dvarp : list poly.

  Definition st := list (nat * poly).      (* definitions, newest first *)
  Notation ok := (poly_ok unitb).

  Definition bin2 (f : pjet -> pjet -> option pjet) (x y : option (option pjet)) : option (option pjet) :=
    match x, y with
    | Some (Some a), Some (Some b) => match f a b with Some r => Some (Some r) | None => None end
    | Some _, Some _ => Some None
    | _, _ => None
    end.
  Definition un1 (f : pjet -> option pjet) (x : option (option pjet)) : option (option pjet) :=
    match x with
    | Some (Some a) => match f a with Some r => Some (Some r) | None => None end
    | Some None => Some None
    | None => None
    end.

  Definition cl (p : poly) : poly := pclean p.
  Definition jp_add (a b : pjet) : option pjet := Some (cl (padd (fst a) (fst b)), cl (padd (snd a) (snd b))).
  Definition jp_sub (a b : pjet) : option pjet := Some (cl (padd (fst a) (pneg (fst b))), cl (padd (snd a) (pneg (snd b)))).
  Definition jp_mul (a b : pjet) : option pjet :=
    Some (cl (pmul (fst a) (fst b)), cl (padd (pmul (snd a) (fst b)) (pmul (fst a) (snd b)))).
  Definition jp_div (a b : pjet) : option pjet :=
    match pinv unitb (fst b) with
    | Some bi => Some (cl (pmul (fst a) bi),
                       cl (pmul (padd (pmul (snd a) (fst b)) (pneg (pmul (fst a) (snd b)))) (pmul bi bi)))
    | None => None
    end.
  Definition jp_neg (a : pjet) : option pjet := Some (pneg (fst a), pneg (snd a)).
  Definition tatom (h : nat) : nat := (tb + h)%nat.
  Definition tatom_ok (h : nat) : bool := (tatom h <? cb)%nat && (tatom h <? N)%nat.
  Definition jp_sqrt (h : nat) (a : pjet) : option pjet :=
    if tatom_ok h then
      Some (patom N (tatom h), cl (pmul (pmul (pconst N (1 # 2)) (ppow N (tatom h) (-1))) (snd a)))
    else None.
  Definition jp_exp (h : nat) (a : pjet) : option pjet :=
    if tatom_ok h then Some (patom N (tatom h), cl (pmul (patom N (tatom h)) (snd a))) else None.
  Definition jp_pow (h : nat) (q : Q) (a : pjet) : option pjet :=
    if tatom_ok h then
      match pinv unitb (fst a) with
      | Some ai => Some (patom N (tatom h), cl (pmul (pmul (pconst N q) (pmul (patom N (tatom h)) ai)) (snd a)))
      | None => None
      end
    else None.

  Definition step (s : st) (env : list (option pjet)) (n : node) : option (option pjet * st) :=
    let g := nth_error env in
    let keep (r : option (option pjet)) := match r with Some x => Some (x, s) | None => None end in
    match n with
    | NConst q _ => Some (Some (pconst N q, []), s)
    | NVar i => match nth_error varp i, nth_error dvarp i with
                | Some p, Some dp => if ok p && ok dp then Some (Some (p, dp), s) else None
                | _, _ => None
                end
    | NCoef k => if (cb + k <? N)%nat then Some (Some (patom N (cb + k), []), s) else None
    | NAdd a b => keep (bin2 jp_add (g a) (g b))
    | NSub a b => keep (bin2 jp_sub (g a) (g b))
    | NMul a b => keep (bin2 jp_mul (g a) (g b))
    | NDiv a b => keep (bin2 jp_div (g a) (g b))
    | NNeg a => keep (un1 jp_neg (g a))
    | NSqrt h a => keep (un1 (jp_sqrt h) (g a))
    | NExp h a => keep (un1 (jp_exp h) (g a))
    | NPow h a q _ => keep (un1 (jp_pow h q) (g a))
    | NCall _ _ _ _ => None
    | NCut c a =>
        match g a with
        | Some (Some (p, dp)) =>
            match nth c claims COpaque with
            | CAuto => match pinv unitb p with Some _ => Some (Some (p, dp), s) | None => None end
            | CMono m => if ok m then
                           match expand N s p, expand N s m with
                           | Some p', Some m' => if peqb p' m' then Some (Some (m, dp), s) else None
                           | _, _ => None
                           end
                         else None
            | CAtom => let j := (vb + c)%nat in
                       if (j <? cb)%nat && (j <? N)%nat then Some (Some (patom N j, dp), (j, p) :: s) else None
            | COpaque => Some (None, s)
            end
        | Some None => Some (None, s)
        | None => None
        end
    end.

  Fixpoint run (s : st) (env : list (option pjet)) (ns : list node) : option (list (option pjet) * st) :=
    match ns with
    | [] => Some (env, s)
    | n :: r => match step s env n with Some (p, s') => run s' (p :: env) r | None => None end
    end.

  (** *** soundness *)
  Section Sound.
    Variables (varf : R -> nat -> R) (dvar : nat -> R) (coef : nat -> R) (s0 : R).
    Variable rho : nat -> R.
    Hypothesis rho_unit : forall i, unitb i = true -> rho i <> 0%R.
    Hypothesis rho_var : forall i p dp, nth_error varp i = Some p -> nth_error dvarp i = Some dp ->
      dpoly rho p = varf s0 i /\ dpoly rho dp = dvar i.
    Hypothesis rho_coef : forall k, (cb + k < N)%nat -> rho (cb + k)%nat = coef k.
    Notation den := (dpoly rho).
    Notation EJ := (evJ varf dvar coef s0).
    Notation jnode := (jops_node varf dvar coef s0).

    Definition good (op : option pjet) (j : jet) : Prop :=
      match op with
      | Some (p, dp) => ok p = true /\ ok dp = true /\ den p = jv j /\ den dp = jd j
      | None => True
      end.
    Definition agree (ps : list (option pjet)) (js : list jet) : Prop := Forall2 good ps js.

    Lemma agree_nth ps js a x : agree ps js -> nth_error ps a = Some (Some x) ->
      good (Some x) (nth a js (0%R, 0%R)).
    Proof.
      intros H. revert a. induction H as [|p j ps js Hg _ IH]; intros [|a] E; cbn in E; try discriminate.
      - injection E as ->. cbn [nth]. exact Hg.
      - cbn [nth]. apply IH. exact E.
    Qed.

    Ltac ring_ok := repeat match goal with
      | |- ok (cl _) = true => apply pclean_ok
      | |- ok (pclean _) = true => apply pclean_ok
      | |- ok (padd _ _) = true => apply padd_ok
      | |- ok (pneg _) = true => rewrite pneg_ok
      | |- ok (pmul ?a ?b) = true => apply (pmul_sound_ok rho unitb rho_unit a b)
      end; try assumption.

    Lemma mul_sound a b : ok a = true -> ok b = true -> den (pmul a b) = (den a * den b)%R.
    Proof. intros Ha Hb. apply (pmul_sound_ok rho unitb rho_unit a b Ha Hb). Qed.
    Lemma mul_ok a b : ok a = true -> ok b = true -> ok (pmul a b) = true.
    Proof. intros Ha Hb. apply (pmul_sound_ok rho unitb rho_unit a b Ha Hb). Qed.

    Lemma ok_nil : ok [] = true. Proof. reflexivity. Qed.

    Lemma bin2_sound f (opJ : jet -> jet -> jet) ps js a b r :
      agree ps js ->
      (forall x y z ja jb, good (Some x) ja -> good (Some y) jb -> f x y = Some z -> good (Some z) (opJ ja jb)) ->
      bin2 f (nth_error ps a) (nth_error ps b) = Some r ->
      good r (opJ (nth a js (0%R, 0%R)) (nth b js (0%R, 0%R))).
    Proof.
      intros Hag Hf. unfold bin2.
      destruct (nth_error ps a) as [[x|]|] eqn:Ea; destruct (nth_error ps b) as [[y|]|] eqn:Eb;
        try discriminate; try (intros E; apply Some_inj_l in E; subst r; exact I).
      destruct (f x y) as [z|] eqn:Ez; [|discriminate]. intros E. apply Some_inj_l in E. subst r.
      apply (Hf x y z _ _ (agree_nth _ _ _ _ Hag Ea) (agree_nth _ _ _ _ Hag Eb) Ez).
    Qed.

    Lemma un1_sound f (opJ : jet -> jet) ps js a r :
      agree ps js ->
      (forall x z, good (Some x) (nth a js (0%R, 0%R)) -> f x = Some z -> good (Some z) (opJ (nth a js (0%R, 0%R)))) ->
      un1 f (nth_error ps a) = Some r ->
      good r (opJ (nth a js (0%R, 0%R))).
    Proof.
      intros Hag Hf. unfold un1.
      destruct (nth_error ps a) as [[x|]|] eqn:Ea; try discriminate; try (intros E; apply Some_inj_l in E; subst r; exact I).
      destruct (f x) as [z|] eqn:Ez; [|discriminate]. intros E. apply Some_inj_l in E. subst r.
      apply (Hf x z (agree_nth _ _ _ _ Hag Ea) Ez).
    Qed.

    Definition st_ok (s : st) : Prop := defs_hold rho unitb s.

    (** the valuation of the atoms that stand for nodes: hypotheses about the remaining nodes *)
    Definition tnodes_hold (js : list jet) (ns : list node) : Prop :=
      forall h pos, In (h, pos) (tnodes ns) -> rho (tatom h) = jv (nth pos (EJ js ns) (0%R, 0%R)).
    Definition cnodes_hold (js : list jet) (ns : list node) : Prop :=
      forall c pos, In (c, pos) (cnodes ns) -> nth c claims COpaque = CAtom ->
                    rho (vb + c)%nat = jv (nth pos (EJ js ns) (0%R, 0%R)).

    Lemma head_final js n r : nth (length r) (EJ js (n :: r)) (0%R, 0%R) = jnode js n.
    Proof.
      unfold evJ. cbn [eval_nodes]. rewrite <- (Nat.add_0_r (length r)).
      rewrite eval_nodes_old. reflexivity.
    Qed.

    Lemma Q2R_half : Q2R (1 # 2) = (/ 2)%R.
    Proof. unfold Q2R. cbn. lra. Qed.

    Lemma step_sound s ps js n r p s' :
      agree ps js -> st_ok s -> tnodes_hold js (n :: r) -> cnodes_hold js (n :: r) ->
      step s ps n = Some (p, s') -> good p (jnode js n) /\ st_ok s'.
    Proof.
      intros Hag Hst Ht Hc.
      assert (KEEP : forall (x : option (option pjet)) j, (forall y, x = Some y -> good y j) ->
                match x with Some y => Some (y, s) | None => None end = Some (p, s') -> good p j /\ st_ok s').
      { intros x j Hx E. destruct x as [y|]; [|discriminate]. injection E as <- <-. split; [apply Hx; reflexivity|exact Hst]. }
      unfold jops_node.
      destruct n as [q f|i|k|a b|a b|a b|a b|a|h a|h a|h a q f|h fid out args|c a]; cbn [step eval_node]; unfold get.
      - intros E. injection E as <- <-. split; [|exact Hst].
        destruct (pconst_sound rho unitb N q) as [A B]. cbn [good]. unfold jconst, jv, jd. cbn [fst snd dpoly]. auto using ok_nil.
      - destruct (nth_error varp i) as [pp|] eqn:E1; [|discriminate]. destruct (nth_error dvarp i) as [dp|] eqn:E2; [|discriminate].
        destruct (ok pp && ok dp) eqn:Eo; [|discriminate]. intros E. injection E as <- <-. split; [|exact Hst].
        apply andb_true_iff in Eo as [O1 O2]. destruct (rho_var i pp dp E1 E2) as [V1 V2].
        cbn [good]. unfold jv, jd. cbn [fst snd]. auto.
      - destruct (cb + k <? N)%nat eqn:E; [|discriminate]. intros E'. injection E' as <- <-. split; [|exact Hst].
        apply Nat.ltb_lt in E. destruct (patom_sound rho unitb N _ E) as [A B].
        cbn [good]. unfold jconst, jv, jd. cbn [fst snd dpoly]. rewrite A, (rho_coef k E). auto using ok_nil.
      - apply KEEP. intros y E. apply (bin2_sound jp_add jadd _ _ a b y Hag); [|exact E].
        intros [x dx] [y' dy] z ja jb (X1 & X2 & X3 & X4) (Y1 & Y2 & Y3 & Y4) Ez. injection Ez as <-.
        cbn [good fst snd]. unfold jadd, jv, jd, cl in *. cbn [fst snd].
        rewrite !pclean_sound, !padd_sound, X3, X4, Y3, Y4. repeat split; ring_ok.
      - apply KEEP. intros y E. apply (bin2_sound jp_sub jsub _ _ a b y Hag); [|exact E].
        intros [x dx] [y' dy] z ja jb (X1 & X2 & X3 & X4) (Y1 & Y2 & Y3 & Y4) Ez. injection Ez as <-.
        cbn [good fst snd]. unfold jsub, jv, jd, cl in *. cbn [fst snd].
        rewrite !pclean_sound, !padd_sound, !pneg_sound, X3, X4, Y3, Y4. repeat split; ring_ok.
      - apply KEEP. intros y E. apply (bin2_sound jp_mul jmul _ _ a b y Hag); [|exact E].
        intros [x dx] [y' dy] z ja jb (X1 & X2 & X3 & X4) (Y1 & Y2 & Y3 & Y4) Ez. injection Ez as <-.
        cbn [good fst snd]. unfold jmul, jv, jd, cl in *. cbn [fst snd].
        rewrite !pclean_sound, !padd_sound, !mul_sound, X3, X4, Y3, Y4 by assumption.
        repeat split; ring_ok; apply mul_ok; assumption.
      - apply KEEP. intros y E. apply (bin2_sound jp_div jdiv _ _ a b y Hag); [|exact E].
        intros [x dx] [y' dy] z ja jb (X1 & X2 & X3 & X4) (Y1 & Y2 & Y3 & Y4) Ez.
        unfold jp_div in Ez. cbn [fst snd] in Ez. destruct (pinv unitb y') as [bi|] eqn:Ei; [|discriminate]. injection Ez as <-.
        destruct (pinv_sound rho unitb y' bi Ei) as [I1 I2].
        cbn [good fst snd]. unfold jdiv, jv, jd, cl in *. cbn [fst snd].
        assert (Obb : ok (pmul bi bi) = true) by (apply mul_ok; assumption).
        assert (Onum : ok (padd (pmul dx y') (pneg (pmul x dy))) = true).
        { apply padd_ok; [apply mul_ok; assumption|rewrite pneg_ok; apply mul_ok; assumption]. }
        rewrite !pclean_sound, (mul_sound x bi), (mul_sound _ (pmul bi bi)), padd_sound, pneg_sound,
          (mul_sound dx y'), (mul_sound x dy), (mul_sound bi bi), I1, X3, X4, Y3, Y4 by assumption.
        repeat split; try (apply pclean_ok; apply mul_ok; assumption).
        unfold Rdiv. rewrite Rinv_mult. reflexivity.
      - apply KEEP. intros y E. apply (un1_sound jp_neg jneg _ _ a y Hag); [|exact E].
        destruct (nth a js (0%R, 0%R)) as [va da] eqn:Eja. intros [x dx] z (X1 & X2 & X3 & X4) Ez. injection Ez as <-.
        cbn [good fst snd]. unfold jneg, jv, jd in *. cbn [fst snd].
        rewrite !pneg_sound, !pneg_ok, X3, X4. auto.
      - (* sqrt *)
        assert (Hh : rho (tatom h) = jv (jnode js (NSqrt h a))).
        { rewrite <- (head_final js (NSqrt h a) r). apply Ht. cbn [tnodes]. left. reflexivity. }
        apply KEEP. intros y E. apply (un1_sound (jp_sqrt h) jsqrt _ _ a y Hag); [|exact E].
        destruct (nth a js (0%R, 0%R)) as [va da] eqn:Eja. intros [x dx] z (X1 & X2 & X3 & X4) Ez.
        unfold jp_sqrt in Ez. destruct (tatom_ok h) eqn:To; [|discriminate]. apply Some_inj_l in Ez. subst z.
        unfold tatom_ok in To. apply andb_true_iff in To as [T1 T2]. apply Nat.ltb_lt in T2.
        destruct (patom_sound rho unitb N _ T2) as [A1 A2].
        destruct (ppow_sound rho unitb N (tatom h) (-1) T2 (or_introl T1)) as [P1 P2].
        destruct (pconst_sound rho unitb N (1 # 2)) as [C1 C2].
        unfold jops_node in Hh. cbn [eval_node] in Hh. unfold get in Hh. unfold jet in *. rewrite Eja in Hh.
        cbv beta iota delta [good fst snd]. unfold jsqrt, jv, jd, cl in *. cbv beta iota delta [fst snd] in *.
        assert (O1 : ok (pmul (pconst N (1 # 2)) (ppow N (tatom h) (-1))) = true) by (apply mul_ok; assumption).
        rewrite pclean_sound, (mul_sound _ dx), (mul_sound (pconst N (1 # 2))), A1, P1, C1, X4, Q2R_half by assumption.
        repeat split; try assumption; try exact Hh; try (apply pclean_ok; apply mul_ok; assumption).
        rewrite Hh. change (-1)%Z with (- (1))%Z. rewrite powerRZ_neg', powerRZ_1.
        unfold Rdiv. rewrite Rinv_mult. ring.
      - (* exp *)
        assert (Hh : rho (tatom h) = jv (jnode js (NExp h a))).
        { rewrite <- (head_final js (NExp h a) r). apply Ht. cbn [tnodes]. left. reflexivity. }
        apply KEEP. intros y E. apply (un1_sound (jp_exp h) jexp _ _ a y Hag); [|exact E].
        destruct (nth a js (0%R, 0%R)) as [va da] eqn:Eja. intros [x dx] z (X1 & X2 & X3 & X4) Ez.
        unfold jp_exp in Ez. destruct (tatom_ok h) eqn:To; [|discriminate]. apply Some_inj_l in Ez. subst z.
        unfold tatom_ok in To. apply andb_true_iff in To as [T1 T2]. apply Nat.ltb_lt in T2.
        destruct (patom_sound rho unitb N _ T2) as [A1 A2].
        unfold jops_node in Hh. cbn [eval_node] in Hh. unfold get in Hh. unfold jet in *. rewrite Eja in Hh.
        cbv beta iota delta [good fst snd]. unfold jexp, jv, jd, cl in *. cbv beta iota delta [fst snd] in *.
        rewrite pclean_sound, (mul_sound _ dx), A1, X4 by assumption.
        repeat split; try assumption; try exact Hh; try (apply pclean_ok; apply mul_ok; assumption).
        rewrite Hh. reflexivity.
      - (* pow *)
        assert (Hh : rho (tatom h) = jv (jnode js (NPow h a q f))).
        { rewrite <- (head_final js (NPow h a q f) r). apply Ht. cbn [tnodes]. left. reflexivity. }
        apply KEEP. intros y E. apply (un1_sound (jp_pow h q) (fun j => jpow j (Q2R q)) _ _ a y Hag); [|exact E].
        destruct (nth a js (0%R, 0%R)) as [va da] eqn:Eja. intros [x dx] z (X1 & X2 & X3 & X4) Ez.
        unfold jp_pow in Ez. destruct (tatom_ok h) eqn:To; [|discriminate].
        cbv beta iota delta [fst snd] in Ez. destruct (pinv unitb x) as [ai|] eqn:Ei; [|discriminate]. apply Some_inj_l in Ez. subst z.
        destruct (pinv_sound rho unitb x ai Ei) as [I1 I2].
        unfold tatom_ok in To. apply andb_true_iff in To as [T1 T2]. apply Nat.ltb_lt in T2.
        destruct (patom_sound rho unitb N _ T2) as [A1 A2].
        destruct (pconst_sound rho unitb N q) as [C1 C2].
        unfold jops_node in Hh. cbn [eval_node] in Hh. unfold get in Hh. unfold jet in *. rewrite Eja in Hh.
        cbv beta iota delta [good fst snd]. unfold jpow, jv, jd, cl in *. cbv beta iota delta [fst snd] in *.
        assert (O1 : ok (pmul (patom N (tatom h)) ai) = true) by (apply mul_ok; assumption).
        assert (O2 : ok (pmul (pconst N q) (pmul (patom N (tatom h)) ai)) = true) by (apply mul_ok; assumption).
        rewrite pclean_sound, (mul_sound _ dx), (mul_sound (pconst N q)), (mul_sound (patom N (tatom h))), A1, C1, I1, X3, X4 by assumption.
        repeat split; try assumption; try exact Hh; try (apply pclean_ok; apply mul_ok; assumption).
        rewrite Hh. reflexivity.
      - discriminate.
      - (* cut *)
        destruct (nth_error ps a) as [[[pp dp]|]|] eqn:Ea; try discriminate.
        2:{ intros E. injection E as <- <-. split; [exact I|exact Hst]. }
        destruct (agree_nth _ _ _ _ Hag Ea) as (X1 & X2 & X3 & X4).
        destruct (nth c claims COpaque) as [|m| |] eqn:Ec.
        + destruct (pinv unitb pp); [|discriminate]. intros E. injection E as <- <-. split; [|exact Hst].
          cbn [good]. auto.
        + destruct (ok m) eqn:Om; [|discriminate].
          destruct (expand N s pp) as [p'|] eqn:E1; [|discriminate]. destruct (expand N s m) as [m'|] eqn:E2; [|discriminate].
          destruct (peqb p' m') eqn:Eq; [|discriminate]. intros E. injection E as <- <-. split; [|exact Hst].
          destruct (expand_sound N rho unitb rho_unit s Hst pp p' X1 E1) as [S1 _].
          destruct (expand_sound N rho unitb rho_unit s Hst m m' Om E2) as [S2 _].
          cbn [good]. repeat split; try assumption.
          rewrite <- S2, <- (peqb_sound rho p' m' Eq), S1. exact X3.
        + destruct ((vb + c <? cb)%nat && (vb + c <? N)%nat) eqn:Ej; [|discriminate].
          intros E. injection E as <- <-.
          apply andb_true_iff in Ej as [J1 J2]. apply Nat.ltb_lt in J2.
          destruct (patom_sound rho unitb N _ J2) as [A1 A2].
          assert (Hh : rho (vb + c)%nat = jv (jnode js (NCut c a))).
          { rewrite <- (head_final js (NCut c a) r). apply Hc; [cbn [cnodes]; left; reflexivity|exact Ec]. }
          unfold jops_node in Hh. cbn [eval_node] in Hh. unfold get in Hh.
          split.
          * cbn [good]. rewrite A1. repeat split; try assumption.
          * intros j d [Hin|Hin]; [|apply Hst; exact Hin]. injection Hin as <- <-.
            split; [rewrite Hh, X3; reflexivity|exact X1].
        + intros E. injection E as <- <-. split; [exact I|exact Hst].
    Qed.

    Lemma run_sound ns : forall s ps js ps' s',
      agree ps js -> st_ok s -> tnodes_hold js ns -> cnodes_hold js ns ->
      run s ps ns = Some (ps', s') -> agree ps' (EJ js ns) /\ st_ok s'.
    Proof.
      induction ns as [|n r IH]; intros s ps js ps' s' Hag Hst Ht Hc E.
      - cbn in E. injection E as <- <-. split; assumption.
      - cbn [run] in E. destruct (step s ps n) as [[p s1]|] eqn:Es; [|discriminate].
        destruct (step_sound s ps js n r p s1 Hag Hst Ht Hc Es) as [G S1].
        unfold evJ. cbn [eval_nodes]. fold (jnode js n).
        apply (IH s1 (p :: ps) (jnode js n :: js) ps' s'); try assumption.
        + constructor; assumption.
        + intros h pos Hin. specialize (Ht h pos). unfold evJ in Ht. cbn [eval_nodes] in Ht. apply Ht.
          cbn [tnodes]. destruct n; try exact Hin; right; exact Hin.
        + intros c pos Hin Hcl. specialize (Hc c pos). unfold evJ in Hc. cbn [eval_nodes] in Hc. apply Hc; [|exact Hcl].
          cbn [cnodes]. destruct n; try exact Hin; right; exact Hin.
    Qed.
  End Sound.
End PolyJet.
